/-
  Sipsp.Proofs.SigChars — what the character-class signatures compute (`getStrCharsSig`, `getCallIDSig`,
  `getViaBrSig` of msg_sig.go): lemmas for properties C19 (parts 1, 3, 4) and C20 (part 2).
  All statements are for ALL byte strings (no length bound) unless a hypothesis says otherwise.

  (1) `getStrCharsSig s 0 0` (From-tag, branch, Call-ID without an address)
      * `getStrCharsSig_eq`      : = `(scSig s, 0)` for every byte string, where `scSig` is built from plain list
        functions: `scClass` (OR of the per-byte flags `resCharSigFlag`), `scFirstRes` (the separator: first reserved
        byte, `scFirstRes_spec`), `scSepCount`, `scShape` (every reserved byte is the separator, every other byte a
        hex digit), `scRuns` / `scBlocks` / `scMaxRun` (hex digits per piece between reserved bytes,
        `scRuns_length_sum`), `scB64` (`=` only as the last or the last two bytes, otherwise letters, digits, `+`, `/`).
      * `scSig_testBit`          : one equation per bit: bits 3–12 class bits; bit 13 hex encoding; bit 15 digit
        blocks; bit 14 base64; no other bit (`getStrCharsSig_no_other_bit`).
      * `scClass_bit_iff`, `getStrCharsSig_class_bit` : the bit of a reserved byte (`scByteBit`: `@`3 `.`4 `:`5 `-`6
        `*`7 `/`8 `+`9 `=`10 `_`11 `|`12) is set iff that byte occurs in the string.
      * `scClass_perm`, `getStrCharsSig_perm_low`     : the class bits do not depend on the order of the bytes;
        `scClass_append`, `getStrCharsSig_append_low` : class bits of `s ++ t` = union. The encoding bits 13–15 are
        positional and not monotone (tests at the end: `GGGGGGGG=` / `=GGGGGGGG`, `12345678-1` / `1-2345678-`,
        sixteen hex digits with and without a trailing `g`).
      With an excluded span (`getStrCharsSig s o n`, used for a Call-ID with an address):
      * `getStrCharsSig_span`, `getStrCharsSig_span_bit`, `getStrCharsSig_span_low` : bits 3–12 are the class bits of
        the bytes OUTSIDE the span, bits 0–2 are clear, the rest is one of the four encoding-flag combinations; the
        second result counts the reserved bytes directly before / after the span (`scSkipW_eq`).
  (2) `getCallIDSig`
      * `scContainsIP4_iff_ll`     : ContainsIP4 reports exactly the LEFTMOST dotted quad, as LONG as possible
        (`scLeftmostLongest`; unique: `scLeftmostLongest_unique`).
      * `getCallIDSig_ip4_bits`  : if `[o, o+n)` is that quad: bit 0 iff o = 0; bit 1 iff o ≠ 0 and o + n = length;
        bit 2 iff neither (exactly one of the three); bits 3–12 = class bits of the bytes outside the quad; no
        "Go would panic" indication. `getCallIDSig_ip4_len`: the short length.
      * `getCallIDSig_noip_eq`   : no dotted quad and ContainsIP6 silent: result = (`scSig` of the whole Call-ID,
        min 255 ⌈len/4⌉, false). `getCallIDSig_flags_need_ip`: position bits only with an address (v4 or v6).
      * `getCallIDSig_ip6`       : the IPv6 fallback, in terms of what the model's ContainsIP6 returns.
  (3) `getViaBrSig`
      * `getViaBrSig_no_semicolon`, `getViaBrSig_first_semicolon`, `getViaBrSig_glist` : parameters are read after
        the first `;`; for a parameter list of the C17 grammar (`GList`, separator `;`, ended by `,` or the end of the
        value) the result is `scViaResult`: the first parameter named `branch` (case-insensitive, `scIsBranch`)
        decides: its value without the cookie `z9hG4bK` (`scBranchBody`: stripped only when the value is LONGER than
        the cookie; the cookie is matched case-insensitively) goes through `getStrCharsSig · 0 0`; empty / missing
        value or no `branch`: empty signature; later `branch` parameters are ignored (`scViaResult_first`).
  (4) `getMsgSig_same_classes` : two requests that agree on method, on type + long/compact form of the first
      occurrences, on Call-ID signature AND short length, on From-tag signature and on the first Via's branch
      signature have the same signature (`sigApply_congr_class`, `scKeyClass_hdr`).

  NOT proved here:
  * the encoding bits 13–15 of a Call-ID that contains an address (non-empty excluded span): only that they form one
    of the four combinations; the function ContainsIP6 is not characterised (its result enters as is);
  * `getViaBrSig` on Via values whose parameter part is not a `GList` (malformed lists, buffers over 65,535 bytes);
  * closed formulas for `scB64` / `scRuns` (they are given as structural recursions with sanity lemmas).
  Observed (all true of the Go source as well; concrete inputs in the tests at the end):
  * the signature of a string is NOT just the OR of per-byte classes: bits 13–15 are a length / position dependent
    guess (at least 8 bytes besides the separators; hex: at most one kind of reserved byte, blocks; base64: padding
    position, length a multiple of 4) — so it is neither order independent nor monotone under concatenation;
  * the message signature also contains the SHORT LENGTH of the Call-ID (a quarter of its length without the
    address): Call-IDs of the same classes but different lengths (`abc-def`, `abc-defgh`) give different signatures;
  * the position bits are also set when only ContainsIP6 finds something (`ab::1`); the positions distinguished
    are start / end / middle — nothing about `@`; the quad taken is the longest at the leftmost start
    (`a1.2.3.4567` → `1.2.3.45`, middle);
  * a reserved byte directly before / after the address is in the class but is not a separator and does not count
    for the short length; the test `i > 0` in the hex / decimal logic can never matter (the separator is still
    unset at index 0), and the decimal flag never matters (`scShape_dec_hex`).
-/
import Sipsp.Proofs.SigSpec
import Sipsp.Proofs.IP4
import Sipsp.Proofs.IP4Longest
import Sipsp.Proofs.ParamSpec

namespace Sipsp

/-! ### byte classes -/

/-- the ten "reserved" bytes that have a class flag: `@ . : - _ * + / = |` -/
def scIsRes (c : UInt8) : Bool :=
  c == 64 || c == 46 || c == 58 || c == 45 || c == 95 || c == 42 || c == 43 || c == 47 || c == 61 || c == 124

def scIsLower (c : UInt8) : Bool := 97 ≤ c && c ≤ 122
def scIsUpper (c : UInt8) : Bool := 65 ≤ c && c ≤ 90
/-- hex digit: `0-9`, `A-F`, `a-f` -/
def scIsHex (c : UInt8) : Bool := isDigit c || (65 ≤ c && c ≤ 70) || (97 ≤ c && c ≤ 102)
/-- letter or digit -/
def scIsAlnum (c : UInt8) : Bool := isDigit c || scIsUpper c || scIsLower c

theorem scIsRes_iff (c : UInt8) : scIsRes c = true ↔
    c = 64 ∨ c = 46 ∨ c = 58 ∨ c = 45 ∨ c = 95 ∨ c = 42 ∨ c = 43 ∨ c = 47 ∨ c = 61 ∨ c = 124 := by
  simp [scIsRes, or_assoc]

theorem scFlag_ne_zero (c : UInt8) : (resCharSigFlag c != 0) = scIsRes c := by
  unfold resCharSigFlag scIsRes
  by_cases h1 : c = 64
  · subst h1; decide
  by_cases h2 : c = 46
  · subst h2; decide
  by_cases h3 : c = 58
  · subst h3; decide
  by_cases h4 : c = 45
  · subst h4; decide
  by_cases h5 : c = 95
  · subst h5; decide
  by_cases h6 : c = 42
  · subst h6; decide
  by_cases h7 : c = 43
  · subst h7; decide
  by_cases h8 : c = 47
  · subst h8; decide
  by_cases h9 : c = 61
  · subst h9; decide
  by_cases h10 : c = 124
  · subst h10; decide
  simp [h1, h2, h3, h4, h5, h6, h7, h8, h9, h10]

theorem scFlag_of_not_res (c : UInt8) (h : scIsRes c = false) : resCharSigFlag c = 0 := by
  have := scFlag_ne_zero c
  rw [h] at this
  simpa using this

/-- a reserved byte is no digit, no letter, and not the zero byte -/
theorem scRes_facts (c : UInt8) (h : scIsRes c = true) :
    isDigit c = false ∧ scIsHex c = false ∧ scIsLower c = false ∧ scIsUpper c = false ∧ c ≠ 0 := by
  rcases (scIsRes_iff c).mp h with e | e | e | e | e | e | e | e | e | e <;> subst e <;> decide

/-! ### one iteration of the loop of `getStrCharsSig` without an excluded span -/

/-- one iteration, field by field (`isLast`: the byte is the last one; `isLast2`: it is the last but one and the
    last one is `=`) -/
def scStep (isLast isLast2 : Bool) (c : UInt8) (s : SSt) : SSt :=
  if scIsRes c then
    { sig := s.sig ||| resCharSigFlag c,
      sep := if s.sep == 0 then c else s.sep,
      sepNo := if s.sep == 0 || s.sep == c then s.sepNo + 1 else s.sepNo,
      hexMConsec := if s.hexConsec > s.hexMConsec then s.hexConsec else s.hexMConsec,
      hexConsec := 0,
      hexBlocks := if s.hexConsec > 0 then s.hexBlocks + 1 else s.hexBlocks,
      base64 := s.base64 && (c == 43 || c == 47 || (c == 61 && (isLast || isLast2))),
      hex := s.hex && (s.sep == 0 || s.sep == c),
      dec := s.dec && (s.sep == 0 || s.sep == c),
      fLower := s.fLower, fUpper := s.fUpper, skipChrs := s.skipChrs }
  else
    { sig := s.sig, sep := s.sep, sepNo := s.sepNo, hexMConsec := s.hexMConsec,
      hexConsec := s.hexConsec + (if scIsHex c then 1 else 0),
      hexBlocks := s.hexBlocks,
      base64 := s.base64 && scIsAlnum c,
      hex := s.hex && scIsHex c,
      dec := s.dec && isDigit c,
      fLower := s.fLower || scIsLower c, fUpper := s.fUpper || scIsUpper c, skipChrs := s.skipChrs }

theorem scCloseBlock_of_zero (s : SSt) (h : s.hexConsec = 0) : s.closeBlock = s := by
  unfold SSt.closeBlock
  simp [h]

/-- the three updates of the "reserved byte, not next to the excluded span" branch -/
def scB64Upd (len i : Nat) (c : UInt8) (nxt : Option UInt8) (s : SSt) : SSt :=
  if s.base64 && !(c == 43 || c == 47 || c == 61) then { s with base64 := false }
  else if s.base64 && c == 61 then
    if !(i + 1 == len || (i + 2 == len && nxt == some 61)) then { s with base64 := false } else s
  else s

def scSepUpd (c : UInt8) (s : SSt) : SSt :=
  if s.sep == 0 then { s with sep := c, sepNo := s.sepNo + 1 }
  else if s.sep == c then { s with sepNo := s.sepNo + 1 } else s

def scDecUpd (i : Nat) (c : UInt8) (s : SSt) : SSt :=
  if i > 0 && s.sep != c then { s with dec := false, hex := false } else s

theorem scStep_res_unfold (len i : Nat) (c : UInt8) (nxt : Option UInt8) (s : SSt)
    (hf : (resCharSigFlag c != 0) = true) :
    strSigStep len 0 0 i c nxt s =
      (scDecUpd i c (scSepUpd c (scB64Upd len i c nxt
        { (if i == 0 + 0 then s.closeBlock else s) with
          sig := (if i == 0 + 0 then s.closeBlock else s).sig ||| resCharSigFlag c }))).closeBlock := by
  have hw : (decide (i ≥ 0) && decide (i < 0 + 0)) = false := by simp
  unfold strSigStep
  simp only [hf, hw, ↓reduceIte, Bool.false_eq_true, BEq.rfl, Bool.true_or]
  rfl

theorem scB64Upd_eq (len i : Nat) (c : UInt8) (nxt : Option UInt8) (s : SSt) :
    scB64Upd len i c nxt s =
      { s with base64 := s.base64 &&
          (c == 43 || c == 47 || (c == 61 && (i + 1 == len || (i + 2 == len && nxt == some 61)))) } := by
  rcases s with ⟨sig, sep, sepNo, mc, hc, hb, b64, hx, dc, fl, fu, sk⟩
  unfold scB64Upd
  generalize (i + 1 == len || (i + 2 == len && nxt == some 61)) = L
  by_cases h1 : c = 43
  · subst h1; cases b64 <;> simp
  by_cases h2 : c = 47
  · subst h2; cases b64 <;> simp
  by_cases h3 : c = 61
  · subst h3; cases b64 <;> cases L <;> simp
  cases b64 <;> simp [h1, h2, h3]

theorem scSepUpd_eq (c : UInt8) (s : SSt) :
    scSepUpd c s = { s with sep := if s.sep == 0 then c else s.sep,
                            sepNo := if s.sep == 0 || s.sep == c then s.sepNo + 1 else s.sepNo } := by
  rcases s with ⟨sig, sep, sepNo, mc, hc, hb, b64, hx, dc, fl, fu, sk⟩
  unfold scSepUpd
  by_cases h1 : sep = 0
  · simp [h1]
  · by_cases h2 : sep = c
    · simp [h2]
    · simp [h1, h2]

theorem scDecUpd_eq (i : Nat) (c : UInt8) (s : SSt) :
    scDecUpd i c s = { s with dec := s.dec && !(decide (i > 0) && s.sep != c),
                              hex := s.hex && !(decide (i > 0) && s.sep != c) } := by
  rcases s with ⟨sig, sep, sepNo, mc, hc, hb, b64, hx, dc, fl, fu, sk⟩
  unfold scDecUpd
  by_cases h : (decide (i > 0) && sep != c) = true
  · simp only [h, ↓reduceIte]; simp
  · simp only [h, Bool.false_eq_true, ↓reduceIte]; simp

theorem scStep_res (len i : Nat) (c : UInt8) (nxt : Option UInt8) (s : SSt)
    (hI : i = 0 → s.sep = 0 ∧ s.hexConsec = 0) (hR : scIsRes c = true) :
    strSigStep len 0 0 i c nxt s = scStep (i + 1 == len) (i + 2 == len && nxt == some 61) c s := by
  have hf : (resCharSigFlag c != 0) = true := by rw [scFlag_ne_zero]; exact hR
  have hcb : (if (i == 0 + 0) = true then s.closeBlock else s) = s := by
    by_cases h0 : i = 0
    · simp [h0, scCloseBlock_of_zero s (hI h0).2]
    · simp [h0]
  rw [scStep_res_unfold len i c nxt s hf, hcb, scB64Upd_eq, scSepUpd_eq, scDecUpd_eq]
  have hc0 := (scRes_facts c hR).2.2.2.2
  rcases s with ⟨sig, sep, sepNo, mc, hc, hb, b64, hx, dc, fl, fu, sk⟩
  unfold scStep SSt.closeBlock
  simp only [hR, ↓reduceIte]
  have hkey : (!(decide (i > 0) && (if (sep == 0) = true then c else sep) != c)) = (sep == 0 || sep == c) := by
    by_cases hs : sep = 0
    · simp [hs]
    · have hi : i > 0 := by
        rcases Nat.eq_zero_or_pos i with h0 | h0
        · exact absurd (hI h0).1 hs
        · exact h0
      have hs' : (sep == 0) = false := by simpa using hs
      simp [hs', hi, bne]
  rw [hkey]
  by_cases hh : hc > 0
  · simp only [hh, ↓reduceIte]
  · have : hc = 0 := by omega
    subst this
    simp

/-! relations between the byte ranges the loop tests -/

theorem scUpper_split (c : UInt8) :
    scIsUpper c = ((decide (65 ≤ c) && decide (c ≤ 70)) || (decide (69 ≤ c) && decide (c ≤ 90))) := by
  unfold scIsUpper
  rw [Bool.eq_iff_iff]
  simp only [Bool.and_eq_true, Bool.or_eq_true, decide_eq_true_eq, UInt8.le_iff_toNat_le]
  have e1 : (65 : UInt8).toNat = 65 := rfl
  have e2 : (70 : UInt8).toNat = 70 := rfl
  have e3 : (69 : UInt8).toNat = 69 := rfl
  have e4 : (90 : UInt8).toNat = 90 := rfl
  rw [e1, e2, e3, e4]
  omega

theorem scLower_split (c : UInt8) :
    scIsLower c = ((decide (97 ≤ c) && decide (c ≤ 102)) || (decide (101 ≤ c) && decide (c ≤ 122))) := by
  unfold scIsLower
  rw [Bool.eq_iff_iff]
  simp only [Bool.and_eq_true, Bool.or_eq_true, decide_eq_true_eq, UInt8.le_iff_toNat_le]
  have e1 : (97 : UInt8).toNat = 97 := rfl
  have e2 : (102 : UInt8).toNat = 102 := rfl
  have e3 : (101 : UInt8).toNat = 101 := rfl
  have e4 : (122 : UInt8).toNat = 122 := rfl
  rw [e1, e2, e3, e4]
  omega

theorem scLower_not_upper (c : UInt8) (h : scIsLower c = true) : scIsUpper c = false := by
  unfold scIsLower at h
  unfold scIsUpper
  rw [Bool.eq_false_iff]
  intro hu
  simp only [Bool.and_eq_true, decide_eq_true_eq, UInt8.le_iff_toNat_le] at h hu
  have e1 : (97 : UInt8).toNat = 97 := rfl
  have e4 : (90 : UInt8).toNat = 90 := rfl
  rw [e1] at h; rw [e4] at hu
  omega

theorem scDigit_not_letter (c : UInt8) (h : isDigit c = true) : scIsLower c = false ∧ scIsUpper c = false := by
  unfold isDigit at h
  unfold scIsUpper scIsLower
  simp only [Bool.and_eq_true, decide_eq_true_eq, UInt8.le_iff_toNat_le] at h
  have e0 : (57 : UInt8).toNat = 57 := rfl
  have e1 : (97 : UInt8).toNat = 97 := rfl
  have e2 : (65 : UInt8).toNat = 65 := rfl
  rw [e0] at h
  constructor
  · rw [Bool.eq_false_iff]; intro hu
    simp only [Bool.and_eq_true, decide_eq_true_eq, UInt8.le_iff_toNat_le] at hu
    rw [e1] at hu; omega
  · rw [Bool.eq_false_iff]; intro hu
    simp only [Bool.and_eq_true, decide_eq_true_eq, UInt8.le_iff_toNat_le] at hu
    rw [e2] at hu; omega

/-- the updates of the "other byte" branches -/
def scHexUpd (c : UInt8) (s : SSt) : SSt :=
  if !((65 ≤ c && c ≤ 70) || (97 ≤ c && c ≤ 102)) then
    if !((69 ≤ c && c ≤ 90) || (101 ≤ c && c ≤ 122)) then { s with hex := false, base64 := false }
    else { s with hex := false }
  else { s with hexConsec := s.hexConsec + 1 }

def scCaseUpd (c : UInt8) (s : SSt) : SSt :=
  if 97 ≤ c && c ≤ 122 then { s with fLower := true }
  else if 65 ≤ c && c ≤ 90 then { s with fUpper := true } else s

theorem scStep_nonres_unfold (len i : Nat) (c : UInt8) (nxt : Option UInt8) (s : SSt)
    (hf : (resCharSigFlag c != 0) = false) :
    strSigStep len 0 0 i c nxt s =
      if !isDigit c then scCaseUpd c (scHexUpd c { (if i == 0 + 0 then s.closeBlock else s) with dec := false })
      else { (if i == 0 + 0 then s.closeBlock else s) with
             hexConsec := (if i == 0 + 0 then s.closeBlock else s).hexConsec + 1 } := by
  have hw : (decide (i ≥ 0) && decide (i < 0 + 0)) = false := by simp
  unfold strSigStep
  simp only [hf, hw, ↓reduceIte, Bool.false_eq_true]
  unfold scCaseUpd scHexUpd
  split
  · split <;> split <;> rfl
  · rfl

theorem scHexUpd_eq (c : UInt8) (s : SSt) :
    scHexUpd c s =
      { s with hex := s.hex && ((65 ≤ c && c ≤ 70) || (97 ≤ c && c ≤ 102)),
               base64 := s.base64 && (((65 ≤ c && c ≤ 70) || (97 ≤ c && c ≤ 102)) ||
                                      ((69 ≤ c && c ≤ 90) || (101 ≤ c && c ≤ 122))),
               hexConsec := s.hexConsec + (if ((65 ≤ c && c ≤ 70) || (97 ≤ c && c ≤ 102)) then 1 else 0) } := by
  rcases s with ⟨sig, sep, sepNo, mc, hc, hb, b64, hx, dc, fl, fu, sk⟩
  unfold scHexUpd
  generalize ((decide (65 ≤ c) && decide (c ≤ 70)) || (decide (97 ≤ c) && decide (c ≤ 102))) = HL
  generalize ((decide (69 ≤ c) && decide (c ≤ 90)) || (decide (101 ≤ c) && decide (c ≤ 122))) = EF
  cases HL <;> cases EF <;> simp

theorem scCaseUpd_eq (c : UInt8) (s : SSt) :
    scCaseUpd c s = { s with fLower := s.fLower || scIsLower c, fUpper := s.fUpper || scIsUpper c } := by
  rcases s with ⟨sig, sep, sepNo, mc, hc, hb, b64, hx, dc, fl, fu, sk⟩
  unfold scCaseUpd
  by_cases hl : scIsLower c = true
  · have hu := scLower_not_upper c hl
    have hl' : (decide (97 ≤ c) && decide (c ≤ 122)) = true := hl
    simp only [hl', ↓reduceIte, hl, hu, Bool.or_true, Bool.or_false]
  · have hl0 : scIsLower c = false := by simpa using hl
    have hl' : (decide (97 ≤ c) && decide (c ≤ 122)) = false := hl0
    simp only [hl', Bool.false_eq_true, ↓reduceIte, hl0, Bool.or_false]
    by_cases hu : scIsUpper c = true
    · have hu' : (decide (65 ≤ c) && decide (c ≤ 90)) = true := hu
      simp only [hu', ↓reduceIte, hu, Bool.or_true]
    · have hu0 : scIsUpper c = false := by simpa using hu
      have hu' : (decide (65 ≤ c) && decide (c ≤ 90)) = false := hu0
      simp only [hu', Bool.false_eq_true, ↓reduceIte, hu0, Bool.or_false]

theorem scStep_nonres (len i : Nat) (c : UInt8) (nxt : Option UInt8) (s : SSt)
    (hI : i = 0 → s.sep = 0 ∧ s.hexConsec = 0) (hR : scIsRes c = false) (bl bl2 : Bool) :
    strSigStep len 0 0 i c nxt s = scStep bl bl2 c s := by
  have hf : (resCharSigFlag c != 0) = false := by rw [scFlag_ne_zero]; exact hR
  have hcb : (if (i == 0 + 0) = true then s.closeBlock else s) = s := by
    by_cases h0 : i = 0
    · simp [h0, scCloseBlock_of_zero s (hI h0).2]
    · simp [h0]
  rw [scStep_nonres_unfold len i c nxt s hf, hcb]
  unfold scStep
  simp only [hR, Bool.false_eq_true, ↓reduceIte]
  by_cases hd : isDigit c = true
  · have hlu := scDigit_not_letter c hd
    simp only [hd, Bool.not_true, Bool.false_eq_true, ↓reduceIte, scIsHex, scIsAlnum, hlu.1, hlu.2, Bool.true_or,
      Bool.and_true, Bool.or_false]
  · have hd0 : isDigit c = false := by simpa using hd
    simp only [hd0, Bool.not_false, ↓reduceIte]
    rw [scHexUpd_eq, scCaseUpd_eq]
    simp only [scIsHex, scIsAlnum, hd0, Bool.false_or, Bool.and_false, scUpper_split c, scLower_split c]
    rcases s with ⟨sig, sep, sepNo, mc, hc, hb, b64, hx, dc, fl, fu, sk⟩
    simp only [SSt.mk.injEq, true_and, and_true]
    generalize (decide (65 ≤ c) && decide (c ≤ 70)) = A
    generalize (decide (97 ≤ c) && decide (c ≤ 102)) = B
    generalize (decide (69 ≤ c) && decide (c ≤ 90)) = E
    generalize (decide (101 ≤ c) && decide (c ≤ 122)) = F
    cases A <;> cases B <;> cases E <;> cases F <;> simp

theorem scStep_eq (len i : Nat) (c : UInt8) (nxt : Option UInt8) (s : SSt)
    (hI : i = 0 → s.sep = 0 ∧ s.hexConsec = 0) :
    strSigStep len 0 0 i c nxt s = scStep (i + 1 == len) (i + 2 == len && nxt == some 61) c s := by
  cases hR : scIsRes c
  · exact scStep_nonres len i c nxt s hI hR _ _
  · exact scStep_res len i c nxt s hI hR

/-- the loop of `getStrCharsSig` without an excluded span, over the list of bytes still to be read -/
def scLoop : List UInt8 → SSt → SSt
  | [], s => s
  | c :: rest, s => scLoop rest (scStep (rest.length == 0) (rest.length == 1 && rest.head? == some 61) c s)

theorem strSigLoop_eq_scLoop (b : Buf) (i : Nat) (l : List UInt8) (s : SSt) (hlen : b.size = i + l.length)
    (hI : i = 0 → s.sep = 0 ∧ s.hexConsec = 0) : strSigLoop b 0 0 i l s = scLoop l s := by
  induction l generalizing i s with
  | nil => rfl
  | cons c rest ih =>
    rw [strSigLoop, scLoop, scStep_eq _ i c _ s hI]
    rw [List.length_cons] at hlen
    have e1 : (i + 1 == b.size) = (rest.length == 0) := by
      rw [Bool.eq_iff_iff]; simp only [beq_iff_eq]; omega
    have e2 : (i + 2 == b.size) = (rest.length == 1) := by
      rw [Bool.eq_iff_iff]; simp only [beq_iff_eq]; omega
    rw [e1, e2]
    exact ih (i + 1) _ (by omega) (fun h => by omega)

/-! ### the final state, field by field, as functions of the byte string -/

/-- OR of the class flags of the bytes -/
def scClass : List UInt8 → Nat
  | [] => 0
  | c :: r => resCharSigFlag c ||| scClass r

/-- the first reserved byte (0 when there is none): the "separator" -/
def scFirstRes (l : List UInt8) : UInt8 :=
  match l.find? scIsRes with
  | some c => c
  | none => 0

def scSepOf (cur : UInt8) (l : List UInt8) : UInt8 := if cur == 0 then scFirstRes l else cur

/-- `=` only as the last byte or as the last two bytes; otherwise letters, digits, `+`, `/` -/
def scB64 : List UInt8 → Bool
  | [] => true
  | c :: r =>
    (if scIsRes c then (c == 43 || c == 47 || (c == 61 && (r.length == 0 || (r.length == 1 && r.head? == some 61))))
     else scIsAlnum c) && scB64 r

/-- number of hex digits in each piece of the string cut at the reserved bytes (`cur`: count carried into the
    first piece) -/
def scRuns (cur : Nat) : List UInt8 → List Nat
  | [] => [cur]
  | c :: r => if scIsRes c then cur :: scRuns 0 r else scRuns (cur + (if scIsHex c then 1 else 0)) r

def scMax (a b : Nat) : Nat := if b > a then b else a

theorem scStep_fields (x y : Bool) (c : UInt8) (s : SSt) :
    (scStep x y c s).sig = s.sig ||| resCharSigFlag c ∧
    (scStep x y c s).sep = (if scIsRes c && s.sep == 0 then c else s.sep) ∧
    (scStep x y c s).sepNo = (if scIsRes c && (s.sep == 0 || s.sep == c) then s.sepNo + 1 else s.sepNo) ∧
    (scStep x y c s).fLower = (s.fLower || scIsLower c) ∧
    (scStep x y c s).fUpper = (s.fUpper || scIsUpper c) ∧
    (scStep x y c s).skipChrs = s.skipChrs ∧
    (scStep x y c s).dec = (s.dec && (if scIsRes c then (s.sep == 0 || s.sep == c) else isDigit c)) ∧
    (scStep x y c s).hex = (s.hex && (if scIsRes c then (s.sep == 0 || s.sep == c) else scIsHex c)) ∧
    (scStep x y c s).base64 =
      (s.base64 && (if scIsRes c then (c == 43 || c == 47 || (c == 61 && (x || y))) else scIsAlnum c)) := by
  cases hR : scIsRes c
  · have hf := scFlag_of_not_res c hR
    simp [scStep, hR, hf]
  · have h := scRes_facts c hR
    simp [scStep, hR, h.2.2.1, h.2.2.2.1]

theorem scStep_blocks (x y : Bool) (c : UInt8) (s : SSt) :
    (scStep x y c s).hexConsec = (if scIsRes c then 0 else s.hexConsec + (if scIsHex c then 1 else 0)) ∧
    (scStep x y c s).hexBlocks = (if scIsRes c && decide (s.hexConsec > 0) then s.hexBlocks + 1 else s.hexBlocks) ∧
    (scStep x y c s).hexMConsec = (if scIsRes c then scMax s.hexMConsec s.hexConsec else s.hexMConsec) := by
  cases hR : scIsRes c
  · simp [scStep, hR]
  · simp [scStep, hR, scMax]

theorem scLoop_sig (l : List UInt8) (s : SSt) : (scLoop l s).sig = s.sig ||| scClass l := by
  induction l generalizing s with
  | nil => simp [scLoop, scClass]
  | cons c r ih => rw [scLoop, ih, (scStep_fields _ _ c s).1, scClass, Nat.or_assoc]

theorem scLoop_lower (l : List UInt8) (s : SSt) : (scLoop l s).fLower = (s.fLower || l.any scIsLower) := by
  induction l generalizing s with
  | nil => simp [scLoop]
  | cons c r ih => rw [scLoop, ih, (scStep_fields _ _ c s).2.2.2.1, List.any_cons, Bool.or_assoc]

theorem scLoop_upper (l : List UInt8) (s : SSt) : (scLoop l s).fUpper = (s.fUpper || l.any scIsUpper) := by
  induction l generalizing s with
  | nil => simp [scLoop]
  | cons c r ih => rw [scLoop, ih, (scStep_fields _ _ c s).2.2.2.2.1, List.any_cons, Bool.or_assoc]

theorem scLoop_skip (l : List UInt8) (s : SSt) : (scLoop l s).skipChrs = s.skipChrs := by
  induction l generalizing s with
  | nil => rfl
  | cons c r ih => rw [scLoop, ih, (scStep_fields _ _ c s).2.2.2.2.2.1]

theorem scSepOf_cons (cur c : UInt8) (r : List UInt8) :
    scSepOf (if scIsRes c && cur == 0 then c else cur) r = scSepOf cur (c :: r) := by
  unfold scSepOf scFirstRes
  by_cases h0 : cur = 0
  · subst h0
    cases hR : scIsRes c
    · simp [hR]
    · have hc := (scRes_facts c hR).2.2.2.2
      simp [hR, hc]
  · simp [h0]

theorem scLoop_sep (l : List UInt8) (s : SSt) : (scLoop l s).sep = scSepOf s.sep l := by
  induction l generalizing s with
  | nil => simp [scLoop, scSepOf, scFirstRes]
  | cons c r ih => rw [scLoop, ih, (scStep_fields _ _ c s).2.1, scSepOf_cons]

/-- when the byte is reserved, "no separator yet or equal to the separator" is "equal to the final separator" -/
theorem scSep_test (cur c : UInt8) (r : List UInt8) (hR : scIsRes c = true) :
    (cur == 0 || cur == c) = (c == scSepOf cur (c :: r)) := by
  have hc := (scRes_facts c hR).2.2.2.2
  unfold scSepOf scFirstRes
  by_cases h0 : cur = 0
  · subst h0; simp [hR]
  · have h0' : (cur == 0) = false := by simpa using h0
    simp only [h0', Bool.false_or, Bool.false_eq_true, ↓reduceIte]
    rw [Bool.eq_iff_iff]; simp only [beq_iff_eq]
    exact ⟨fun h => h.symm, fun h => h.symm⟩

theorem scLoop_sepNo (l : List UInt8) (s : SSt) :
    (scLoop l s).sepNo = s.sepNo + l.countP (fun x => scIsRes x && x == scSepOf s.sep l) := by
  induction l generalizing s with
  | nil => simp [scLoop]
  | cons c r ih =>
    rw [scLoop, ih, (scStep_fields _ _ c s).2.1, (scStep_fields _ _ c s).2.2.1, scSepOf_cons, List.countP_cons]
    cases hR : scIsRes c
    · simp
    · rw [scSep_test s.sep c r hR]
      simp only [Bool.true_and]
      split <;> omega

theorem scLoop_dec (l : List UInt8) (s : SSt) :
    (scLoop l s).dec = (s.dec && l.all (fun x => if scIsRes x then x == scSepOf s.sep l else isDigit x)) := by
  induction l generalizing s with
  | nil => simp [scLoop]
  | cons c r ih =>
    rw [scLoop, ih, (scStep_fields _ _ c s).2.1, (scStep_fields _ _ c s).2.2.2.2.2.2.1, scSepOf_cons, List.all_cons,
      Bool.and_assoc]
    cases hR : scIsRes c
    · simp
    · rw [scSep_test s.sep c r hR]

theorem scLoop_hex (l : List UInt8) (s : SSt) :
    (scLoop l s).hex = (s.hex && l.all (fun x => if scIsRes x then x == scSepOf s.sep l else scIsHex x)) := by
  induction l generalizing s with
  | nil => simp [scLoop]
  | cons c r ih =>
    rw [scLoop, ih, (scStep_fields _ _ c s).2.1, (scStep_fields _ _ c s).2.2.2.2.2.2.2.1, scSepOf_cons, List.all_cons,
      Bool.and_assoc]
    cases hR : scIsRes c
    · simp
    · rw [scSep_test s.sep c r hR]

theorem scLoop_b64 (l : List UInt8) (s : SSt) : (scLoop l s).base64 = (s.base64 && scB64 l) := by
  induction l generalizing s with
  | nil => simp [scLoop, scB64]
  | cons c r ih => rw [scLoop, ih, (scStep_fields _ _ c s).2.2.2.2.2.2.2.2, scB64, Bool.and_assoc]

theorem scCloseBlock_fields (s : SSt) :
    s.closeBlock.sig = s.sig ∧ s.closeBlock.sep = s.sep ∧ s.closeBlock.sepNo = s.sepNo ∧
    s.closeBlock.base64 = s.base64 ∧ s.closeBlock.hex = s.hex ∧ s.closeBlock.dec = s.dec ∧
    s.closeBlock.fLower = s.fLower ∧ s.closeBlock.fUpper = s.fUpper ∧ s.closeBlock.skipChrs = s.skipChrs ∧
    s.closeBlock.hexBlocks = s.hexBlocks + (if s.hexConsec > 0 then 1 else 0) ∧
    s.closeBlock.hexMConsec = scMax s.hexMConsec s.hexConsec := by
  unfold SSt.closeBlock scMax
  by_cases h : s.hexConsec > 0
  · simp [h]
  · have : s.hexConsec = 0 := by omega
    simp [this]

theorem scLoop_blocks (l : List UInt8) (s : SSt) :
    (scLoop l s).closeBlock.hexBlocks = s.hexBlocks + (scRuns s.hexConsec l).countP (fun n => decide (0 < n)) ∧
    (scLoop l s).closeBlock.hexMConsec = (scRuns s.hexConsec l).foldl scMax s.hexMConsec := by
  induction l generalizing s with
  | nil =>
    have h := scCloseBlock_fields s
    rw [scLoop, h.2.2.2.2.2.2.2.2.2.1, h.2.2.2.2.2.2.2.2.2.2]
    simp [scRuns, List.countP_cons]
  | cons c r ih =>
    have hb := scStep_blocks (r.length == 0) (r.length == 1 && r.head? == some 61) c s
    rw [scLoop, (ih _).1, (ih _).2, hb.1, hb.2.1, hb.2.2, scRuns]
    cases hR : scIsRes c
    · simp
    · simp only [↓reduceIte, Bool.true_and, List.countP_cons, List.foldl_cons]
      refine ⟨?_, trivial⟩
      by_cases h : s.hexConsec > 0
      · simp [h]; omega
      · simp [h]

/-! ### `getStrCharsSig s 0 0` for ALL byte strings -/

/-- number of bytes equal to the separator (the first reserved byte) -/
def scSepCount (l : List UInt8) : Nat := l.countP (fun x => scIsRes x && x == scFirstRes l)

/-- every reserved byte is the separator and every other byte satisfies `p` -/
def scShape (p : UInt8 → Bool) (l : List UInt8) : Bool :=
  l.all (fun x => if scIsRes x then x == scFirstRes l else p x)

/-- number of non-empty hex pieces / longest hex piece, the string being cut at the reserved bytes -/
def scBlocks (l : List UInt8) : Nat := (scRuns 0 l).countP (fun n => decide (0 < n))
def scMaxRun (l : List UInt8) : Nat := (scRuns 0 l).foldl scMax 0

/-- the "looks hex-encoded" test -/
def scHexEnc (l : List UInt8) : Bool :=
  scShape scIsHex l &&
  (scFirstRes l == 0 || (decide (scMaxRun l ≥ 8) || (decide (scMaxRun l > 0) && decide (scBlocks l ≥ 4)))) &&
  !(l.any scIsLower && l.any scIsUpper)

/-- the signature of a byte string: class flags of its bytes, plus — when at least 8 bytes are left after removing
    the separators — the hex-encoding flag (with the digit-blocks flag when there is a separator) or else the
    base64 flag -/
def scSig (l : List UInt8) : Nat :=
  if l.length - scSepCount l ≥ 8 then
    if scHexEnc l then (scClass l ||| SigHexEncF) ||| (if scFirstRes l != 0 then SigDigBlocksF else 0)
    else if scB64 l && (l.length - scSepCount l) % 4 == 0 then scClass l ||| SigB64EncF
    else scClass l
  else scClass l

theorem scShape_dec_hex (l : List UInt8) : (scShape isDigit l || scShape scIsHex l) = scShape scIsHex l := by
  cases hd : scShape isDigit l
  · rfl
  · unfold scShape at hd ⊢
    rw [List.all_eq_true] at hd
    have : l.all (fun x => if scIsRes x then x == scFirstRes l else scIsHex x) = true := by
      rw [List.all_eq_true]
      intro x hx
      have := hd x hx
      cases hR : scIsRes x
      · simp only [hR, Bool.false_eq_true, ↓reduceIte] at this ⊢
        unfold scIsHex; rw [this]; rfl
      · simpa only [hR, ↓reduceIte] using this
    rw [this]; rfl

theorem scSepCount_le (l : List UInt8) : scSepCount l ≤ l.length := List.countP_le_length

/-- **`getStrCharsSig s 0 0` is `scSig s`, for every byte string** (no extra bytes skipped) -/
theorem getStrCharsSig_eq (b : Buf) : getStrCharsSig b 0 0 = (scSig b.toList, 0) := by
  unfold getStrCharsSig
  rw [strSigLoop_eq_scLoop b 0 b.toList {} (by simp) (fun _ => ⟨rfl, rfl⟩)]
  have hcb := scCloseBlock_fields (scLoop b.toList {})
  have hbl := scLoop_blocks b.toList {}
  have h0 : scSepOf ({} : SSt).sep b.toList = scFirstRes b.toList := by simp [scSepOf]
  simp only [hcb.1, hcb.2.1, hcb.2.2.1, hcb.2.2.2.1, hcb.2.2.2.2.1, hcb.2.2.2.2.2.1, hcb.2.2.2.2.2.2.1,
    hcb.2.2.2.2.2.2.2.1, hcb.2.2.2.2.2.2.2.2.1, hbl.1, hbl.2, scLoop_sig, scLoop_sep, scLoop_sepNo, scLoop_dec,
    scLoop_hex, scLoop_b64, scLoop_lower, scLoop_upper, scLoop_skip, h0]
  have hk := scSepCount_le b.toList
  unfold scSepCount at hk
  rw [Array.length_toList] at hk
  have hI : ((b.size : Int) - ((0 : Nat) : Int) - ((0 : Nat) : Int) -
      ((0 + List.countP (fun x => scIsRes x && x == scFirstRes b.toList) b.toList : Nat) : Int)) =
      ((b.size - List.countP (fun x => scIsRes x && x == scFirstRes b.toList) b.toList : Nat) : Int) := by omega
  rw [hI]
  generalize hm : b.size - List.countP (fun x => scIsRes x && x == scFirstRes b.toList) b.toList = m
  have e1 : ((m : Int) ≥ 8) ↔ m ≥ 8 := by omega
  have e2 : (((m : Int) % 4) == 0) = (m % 4 == 0) := by
    rw [Bool.eq_iff_iff]; simp only [beq_iff_eq]; omega
  have hsh := scShape_dec_hex b.toList
  unfold scShape at hsh
  simp only [e1, e2, Bool.true_and, Bool.false_or, Nat.zero_or, Nat.zero_add, hsh]
  unfold scSig scHexEnc scShape scBlocks scMaxRun scSepCount
  rw [Array.length_toList, hm]

/-- the separator is the FIRST reserved byte of the string (0 when the string has none) -/
theorem scFirstRes_spec (l : List UInt8) :
    (scFirstRes l = 0 ∧ ∀ c ∈ l, scIsRes c = false) ∨
    (scIsRes (scFirstRes l) = true ∧ ∃ pre post, l = pre ++ scFirstRes l :: post ∧ ∀ c ∈ pre, scIsRes c = false) := by
  unfold scFirstRes
  cases h : l.find? scIsRes with
  | none =>
    left
    refine ⟨rfl, fun c hc => ?_⟩
    have := List.find?_eq_none.mp h c hc
    simpa using this
  | some c =>
    right
    obtain ⟨hc, pre, post, hl, hpre⟩ := List.find?_eq_some_iff_append.mp h
    exact ⟨hc, pre, post, hl, fun x hx => by simpa using hpre x hx⟩

/-- the pieces: one more than the number of reserved bytes; their hex-digit counts add up to the number of hex
    digits among the other bytes -/
theorem scRuns_length_sum (cur : Nat) (l : List UInt8) :
    (scRuns cur l).length = l.countP scIsRes + 1 ∧
    (scRuns cur l).sum = cur + l.countP (fun c => !scIsRes c && scIsHex c) := by
  induction l generalizing cur with
  | nil => simp [scRuns]
  | cons c r ih =>
    rw [scRuns]
    cases hR : scIsRes c
    · simp only [Bool.false_eq_true, ↓reduceIte, List.countP_cons, hR, (ih _).1, (ih _).2, Bool.not_false,
        Bool.true_and]
      refine ⟨trivial, ?_⟩
      split <;> omega
    · simp only [↓reduceIte, List.length_cons, List.sum_cons, List.countP_cons, hR, (ih _).1, (ih _).2,
        Bool.not_true, Bool.false_and]
      refine ⟨trivial, by simp⟩

/-! ### one `iff` per flag bit -/

/-- the bit of a reserved byte: `@`3 `.`4 `:`5 `-`6 `*`7 `/`8 `+`9 `=`10 `_`11 `|`12 -/
def scByteBit (c : UInt8) : Nat :=
  if c == 64 then 3 else if c == 46 then 4 else if c == 58 then 5 else if c == 45 then 6 else if c == 42 then 7
  else if c == 47 then 8 else if c == 43 then 9 else if c == 61 then 10 else if c == 95 then 11 else 12

theorem scFlag_eq_pow (c : UInt8) (h : scIsRes c = true) : resCharSigFlag c = 2 ^ scByteBit c := by
  rcases (scIsRes_iff c).mp h with e | e | e | e | e | e | e | e | e | e <;> subst e <;> decide

theorem scByteBit_range (c : UInt8) : 3 ≤ scByteBit c ∧ scByteBit c ≤ 12 := by
  unfold scByteBit
  repeat' split
  all_goals omega

theorem scByteBit_inj (c d : UInt8) (hc : scIsRes c = true) (hd : scIsRes d = true)
    (h : scByteBit c = scByteBit d) : c = d := by
  rcases (scIsRes_iff c).mp hc with e | e | e | e | e | e | e | e | e | e <;> subst e <;>
    rcases (scIsRes_iff d).mp hd with e | e | e | e | e | e | e | e | e | e <;> subst e <;>
    first | rfl | exact absurd h (by decide)

theorem scFlag_testBit (c : UInt8) (k : Nat) :
    (resCharSigFlag c).testBit k = (scIsRes c && scByteBit c == k) := by
  cases hR : scIsRes c
  · rw [scFlag_of_not_res c hR]; simp
  · rw [scFlag_eq_pow c hR, Nat.testBit_two_pow, Bool.true_and]
    by_cases e : scByteBit c = k
    · simp [e]
    · simp [e]

theorem scClass_testBit (l : List UInt8) (k : Nat) :
    (scClass l).testBit k = l.any (fun c => scIsRes c && scByteBit c == k) := by
  induction l with
  | nil => simp [scClass]
  | cons c r ih => rw [scClass, Nat.testBit_or, ih, scFlag_testBit, List.any_cons]

/-- **class bits**: the bit of a reserved byte is set in the class iff that byte occurs in the string -/
theorem scClass_bit_iff (l : List UInt8) (c : UInt8) (hc : scIsRes c = true) :
    (scClass l).testBit (scByteBit c) = true ↔ c ∈ l := by
  rw [scClass_testBit, List.any_eq_true]
  constructor
  · rintro ⟨d, hd, h⟩
    simp only [Bool.and_eq_true, beq_iff_eq] at h
    rw [← scByteBit_inj d c h.1 hc h.2]; exact hd
  · intro h
    exact ⟨c, h, by simp [hc]⟩

/-- no other bit is ever set in the class -/
theorem scClass_bit_other (l : List UInt8) (k : Nat) (hk : k < 3 ∨ 12 < k) : (scClass l).testBit k = false := by
  rw [scClass_testBit, List.any_eq_false]
  intro c _
  have := scByteBit_range c
  simp only [Bool.and_eq_true, beq_iff_eq, not_and]
  intro _ h
  omega

/-- order independence of the class: a permutation of the bytes has the same class -/
theorem scClass_perm {l l' : List UInt8} (h : l.Perm l') : scClass l = scClass l' := by
  induction h with
  | nil => rfl
  | cons x _ ih => rw [scClass, scClass, ih]
  | swap x y l =>
    simp only [scClass]
    rw [← Nat.or_assoc, ← Nat.or_assoc, Nat.or_comm (resCharSigFlag y)]
  | trans _ _ ih1 ih2 => exact ih1.trans ih2

/-- the class of a concatenation is the union of the classes -/
theorem scClass_append (l1 l2 : List UInt8) : scClass (l1 ++ l2) = scClass l1 ||| scClass l2 := by
  induction l1 with
  | nil => simp [scClass]
  | cons c r ih => rw [List.cons_append, scClass, scClass, ih, Nat.or_assoc]

theorem scEncFlags_testBit :
    SigHexEncF = 2 ^ 13 ∧ SigB64EncF = 2 ^ 14 ∧ SigDigBlocksF = 2 ^ 15 := ⟨rfl, rfl, rfl⟩

/-- **the bits of `scSig`**: bits 3–12 are the class bits; bit 13 (hex encoding), bit 15 (digit blocks), bit 14
    (base64) as stated; no other bit -/
theorem scSig_testBit (l : List UInt8) (k : Nat) :
    (scSig l).testBit k =
      if k ≤ 12 then (scClass l).testBit k
      else if k = 13 then (decide (l.length - scSepCount l ≥ 8) && scHexEnc l)
      else if k = 15 then (decide (l.length - scSepCount l ≥ 8) && scHexEnc l && (scFirstRes l != 0))
      else if k = 14 then
        (decide (l.length - scSepCount l ≥ 8) && !scHexEnc l && scB64 l && (l.length - scSepCount l) % 4 == 0)
      else false := by
  have hc : ∀ j, 12 < j → (scClass l).testBit j = false := fun j hj => scClass_bit_other l j (Or.inr hj)
  have p13 : ∀ j, SigHexEncF.testBit j = decide (13 = j) := fun j => by
    rw [scEncFlags_testBit.1, Nat.testBit_two_pow]
  have p14 : ∀ j, SigB64EncF.testBit j = decide (14 = j) := fun j => by
    rw [scEncFlags_testBit.2.1, Nat.testBit_two_pow]
  have p15 : ∀ j, SigDigBlocksF.testBit j = decide (15 = j) := fun j => by
    rw [scEncFlags_testBit.2.2, Nat.testBit_two_pow]
  unfold scSig
  by_cases h8 : l.length - scSepCount l ≥ 8
  · simp only [h8, ↓reduceIte, decide_true, Bool.true_and]
    cases hh : scHexEnc l
    · simp only [Bool.false_eq_true, ↓reduceIte, Bool.not_false, Bool.true_and, Bool.false_and]
      by_cases hb : (scB64 l && (l.length - scSepCount l) % 4 == 0) = true
      · simp only [hb, ↓reduceIte, Nat.testBit_or, p14]
        by_cases h12 : k ≤ 12
        · have : ¬ 14 = k := by omega
          simp [h12, this]
        · rw [hc k (by omega)]
          by_cases e13 : k = 13
          · subst e13; simp
          by_cases e15 : k = 15
          · subst e15; simp
          by_cases e14 : k = 14
          · subst e14; simp
          have : ¬ 14 = k := fun e => e14 e.symm
          simp [h12, e13, e15, e14, this]
      · simp only [hb, Bool.false_eq_true, ↓reduceIte]
        by_cases h12 : k ≤ 12
        · simp [h12]
        · rw [hc k (by omega)]
          simp only [h12, ↓reduceIte]
          split
          · rfl
          · split
            · rfl
            · split <;> rfl
    · simp only [↓reduceIte, Bool.not_true, Bool.false_and, Bool.true_and]
      cases hs : (scFirstRes l != 0)
      · simp only [Bool.false_eq_true, ↓reduceIte, Nat.or_zero, Nat.testBit_or, p13]
        by_cases h12 : k ≤ 12
        · have : ¬ 13 = k := by omega
          simp [h12, this]
        · rw [hc k (by omega)]
          by_cases e13 : k = 13
          · subst e13; simp
          have : ¬ 13 = k := fun e => e13 e.symm
          simp [h12, e13, this]
      · simp only [↓reduceIte, Nat.testBit_or, p13, p15]
        by_cases h12 : k ≤ 12
        · have : ¬ 13 = k := by omega
          have : ¬ 15 = k := by omega
          simp [*]
        · rw [hc k (by omega)]
          by_cases e13 : k = 13
          · subst e13; simp
          by_cases e15 : k = 15
          · subst e15; simp
          have : ¬ 13 = k := fun e => e13 e.symm
          have : ¬ 15 = k := fun e => e15 e.symm
          simp [*]
  · simp only [h8, ↓reduceIte, decide_false, Bool.false_and]
    by_cases h12 : k ≤ 12
    · simp [h12]
    · rw [hc k (by omega)]
      simp only [h12, ↓reduceIte]
      split
      · rfl
      · split
        · rfl
        · split <;> rfl

/-- **class bits of `getStrCharsSig s 0 0`**: the bit of a reserved byte is set iff the byte occurs in `s` -/
theorem getStrCharsSig_class_bit (b : Buf) (c : UInt8) (hc : scIsRes c = true) :
    (getStrCharsSig b 0 0).1.testBit (scByteBit c) = true ↔ c ∈ b.toList := by
  rw [getStrCharsSig_eq, scSig_testBit, if_pos (scByteBit_range c).2]
  exact scClass_bit_iff _ c hc

/-- bits 0–2 (the IP-position bits) and bits above 15 are never set by `getStrCharsSig s 0 0` -/
theorem getStrCharsSig_no_other_bit (b : Buf) (k : Nat) (hk : k < 3 ∨ 15 < k) :
    (getStrCharsSig b 0 0).1.testBit k = false := by
  rw [getStrCharsSig_eq, scSig_testBit]
  rcases hk with hk | hk
  · rw [if_pos (by omega)]; exact scClass_bit_other _ k (Or.inl hk)
  · rw [if_neg (by omega), if_neg (by omega), if_neg (by omega), if_neg (by omega)]

/-- order independence of the class bits (bits 0–12): permuting the bytes does not change them. The three
    encoding bits 13–15 ARE positional (see the examples below). -/
theorem getStrCharsSig_perm_low (b b' : Buf) (h : b.toList.Perm b'.toList) (k : Nat) (hk : k ≤ 12) :
    (getStrCharsSig b' 0 0).1.testBit k = (getStrCharsSig b 0 0).1.testBit k := by
  rw [getStrCharsSig_eq, getStrCharsSig_eq, scSig_testBit, scSig_testBit, if_pos hk, if_pos hk, scClass_perm h]

/-- monotonicity under concatenation, class bits: the class bits of `s ++ t` are the union of those of `s`, `t` -/
theorem getStrCharsSig_append_low (b1 b2 : Buf) (k : Nat) (hk : k ≤ 12) :
    (getStrCharsSig (b1 ++ b2) 0 0).1.testBit k =
      ((getStrCharsSig b1 0 0).1.testBit k || (getStrCharsSig b2 0 0).1.testBit k) := by
  rw [getStrCharsSig_eq, getStrCharsSig_eq, getStrCharsSig_eq, scSig_testBit, scSig_testBit, scSig_testBit,
    if_pos hk, if_pos hk, if_pos hk, Array.toList_append, scClass_append, Nat.testBit_or]

/-! ### an excluded span `[skipOffs, skipOffs + skipLen)`: class bits and skipped neighbours -/

/-- the update of the "reserved byte next to the excluded span" branch -/
def scSkipUpd (after : Bool) (s : SSt) : SSt :=
  { (if after then s.closeBlock else s) with skipChrs := (if after then s.closeBlock else s).skipChrs + 1 }

theorem strSigStep_unfold (len so sl i : Nat) (c : UInt8) (nxt : Option UInt8) (s : SSt) :
    strSigStep len so sl i c nxt s =
      if i ≥ so && i < so + sl then s
      else if resCharSigFlag c != 0 then
        if sl == 0 || (i != so + sl && i + 1 != so) then
          (scDecUpd i c (scSepUpd c (scB64Upd len i c nxt
            { (if i == so + sl then s.closeBlock else s) with
              sig := (if i == so + sl then s.closeBlock else s).sig ||| resCharSigFlag c }))).closeBlock
        else scSkipUpd (i == so + sl) { (if i == so + sl then s.closeBlock else s) with
               sig := (if i == so + sl then s.closeBlock else s).sig ||| resCharSigFlag c }
      else if !isDigit c then
        scCaseUpd c (scHexUpd c { (if i == so + sl then s.closeBlock else s) with dec := false })
      else { (if i == so + sl then s.closeBlock else s) with
             hexConsec := (if i == so + sl then s.closeBlock else s).hexConsec + 1 } := by
  unfold strSigStep
  by_cases hw : (decide (i ≥ so) && decide (i < so + sl)) = true
  · simp only [hw, ↓reduceIte]
  · simp only [hw, Bool.false_eq_true, ↓reduceIte]
    by_cases hf : (resCharSigFlag c != 0) = true
    · simp only [hf, ↓reduceIte]
      by_cases hn : (sl == 0 || (i != so + sl && i + 1 != so)) = true
      · simp only [hn, ↓reduceIte]; rfl
      · simp only [hn, Bool.false_eq_true, ↓reduceIte]; rfl
    · simp only [hf, Bool.false_eq_true, ↓reduceIte]
      unfold scCaseUpd scHexUpd
      split
      · split <;> split <;> rfl
      · rfl

theorem scMaybeClose_sig_skip (p : Bool) (s : SSt) :
    (if p then s.closeBlock else s).sig = s.sig ∧ (if p then s.closeBlock else s).skipChrs = s.skipChrs := by
  have h := scCloseBlock_fields s
  cases p
  · exact ⟨rfl, rfl⟩
  · exact ⟨h.1, h.2.2.2.2.2.2.2.2.1⟩

/-- inside the excluded span / next to it -/
def scInSpan (so sl i : Nat) : Bool := decide (i ≥ so) && decide (i < so + sl)
def scNextToSpan (so sl i : Nat) : Bool := !(sl == 0 || (i != so + sl && i + 1 != so))

theorem strSigStep_sig_skip (len so sl i : Nat) (c : UInt8) (nxt : Option UInt8) (s : SSt) :
    (strSigStep len so sl i c nxt s).sig = (if scInSpan so sl i then s.sig else s.sig ||| resCharSigFlag c) ∧
    (strSigStep len so sl i c nxt s).skipChrs =
      s.skipChrs + (if !scInSpan so sl i && scIsRes c && scNextToSpan so sl i then 1 else 0) := by
  rw [strSigStep_unfold]
  unfold scInSpan scNextToSpan
  by_cases hw : (decide (i ≥ so) && decide (i < so + sl)) = true
  · simp only [hw, ↓reduceIte]; simp
  · simp only [hw, Bool.false_eq_true, ↓reduceIte, Bool.not_false, Bool.true_and]
    have hm := scMaybeClose_sig_skip (i == so + sl) s
    cases hR : scIsRes c
    · have hf : (resCharSigFlag c != 0) = false := by rw [scFlag_ne_zero]; exact hR
      have h0 := scFlag_of_not_res c hR
      simp only [hf, Bool.false_eq_true, ↓reduceIte, Bool.false_and, Nat.add_zero]
      rw [h0, Nat.or_zero]
      split
      · rw [scCaseUpd_eq, scHexUpd_eq]; exact hm
      · exact hm
    · have hf : (resCharSigFlag c != 0) = true := by rw [scFlag_ne_zero]; exact hR
      simp only [hf, ↓reduceIte, Bool.true_and]
      by_cases hn : (sl == 0 || (i != so + sl && i + 1 != so)) = true
      · simp only [hn, ↓reduceIte, Bool.not_true, Bool.false_eq_true, Nat.add_zero]
        rw [scDecUpd_eq, scSepUpd_eq, scB64Upd_eq]
        have h := scCloseBlock_fields
        rw [(h _).1, (h _).2.2.2.2.2.2.2.2.1]
        exact ⟨by rw [← hm.1], hm.2⟩
      · simp only [hn, Bool.false_eq_true, ↓reduceIte, Bool.not_false]
        unfold scSkipUpd
        have h2 := scMaybeClose_sig_skip (i == so + sl)
          { (if (i == so + sl) = true then s.closeBlock else s) with
            sig := (if (i == so + sl) = true then s.closeBlock else s).sig ||| resCharSigFlag c }
        refine ⟨?_, ?_⟩
        · show SSt.sig (if (i == so + sl) = true then _ else _) = _
          rw [h2.1]; show (if (i == so + sl) = true then s.closeBlock else s).sig ||| _ = _; rw [hm.1]
        · show SSt.skipChrs (if (i == so + sl) = true then _ else _) + 1 = _
          rw [h2.2]; show (if (i == so + sl) = true then s.closeBlock else s).skipChrs + 1 = _; rw [hm.2]

/-- OR of the class flags of the bytes outside the excluded span (`i`: index of the first byte of the list) -/
def scClassW (so sl : Nat) : Nat → List UInt8 → Nat
  | _, [] => 0
  | i, c :: r => (if scInSpan so sl i then 0 else resCharSigFlag c) ||| scClassW so sl (i + 1) r

/-- number of reserved bytes directly before / directly after the excluded span -/
def scSkipW (so sl : Nat) : Nat → List UInt8 → Nat
  | _, [] => 0
  | i, c :: r => (if !scInSpan so sl i && scIsRes c && scNextToSpan so sl i then 1 else 0) + scSkipW so sl (i + 1) r

theorem strSigLoop_sig_skip (b : Buf) (so sl i : Nat) (l : List UInt8) (s : SSt) :
    (strSigLoop b so sl i l s).sig = s.sig ||| scClassW so sl i l ∧
    (strSigLoop b so sl i l s).skipChrs = s.skipChrs + scSkipW so sl i l := by
  induction l generalizing i s with
  | nil => simp [strSigLoop, scClassW, scSkipW]
  | cons c r ih =>
    have hs := strSigStep_sig_skip b.size so sl i c r.head? s
    rw [strSigLoop, (ih _ _).1, (ih _ _).2, hs.1, hs.2, scClassW, scSkipW]
    refine ⟨?_, by omega⟩
    split
    · simp
    · rw [Nat.or_assoc]

/-- the result of `getStrCharsSig` with any excluded span: the class of the bytes outside the span, possibly with
    some of the three encoding flags (bits 13–15); and the count of skipped neighbours -/
theorem getStrCharsSig_span (b : Buf) (so sl : Nat) :
    (∃ extra, (getStrCharsSig b so sl).1 = scClassW so sl 0 b.toList ||| extra ∧
      (extra = 0 ∨ extra = SigHexEncF ∨ extra = SigHexEncF ||| SigDigBlocksF ∨ extra = SigB64EncF)) ∧
    (getStrCharsSig b so sl).2 = scSkipW so sl 0 b.toList := by
  have h := strSigLoop_sig_skip b so sl 0 b.toList {}
  have hc := scCloseBlock_fields (strSigLoop b so sl 0 b.toList {})
  have e0 : (strSigLoop b so sl 0 b.toList {}).closeBlock.sig = scClassW so sl 0 b.toList := by
    rw [hc.1, h.1]; simp
  have e1 : (strSigLoop b so sl 0 b.toList {}).closeBlock.skipChrs = scSkipW so sl 0 b.toList := by
    rw [hc.2.2.2.2.2.2.2.2.1, h.2]; simp
  unfold getStrCharsSig
  refine ⟨?_, e1⟩
  simp only [e0]
  split
  · split
    · split
      · exact ⟨_, by rw [Nat.or_assoc], Or.inr (Or.inr (Or.inl rfl))⟩
      · exact ⟨SigHexEncF, by rw [Nat.or_zero], Or.inr (Or.inl rfl)⟩
    · split
      · exact ⟨_, rfl, Or.inr (Or.inr (Or.inr rfl))⟩
      · exact ⟨0, by rw [Nat.or_zero], Or.inl rfl⟩
  · exact ⟨0, by rw [Nat.or_zero], Or.inl rfl⟩

theorem scClassW_testBit (so sl i : Nat) (l : List UInt8) (k : Nat) :
    (scClassW so sl i l).testBit k = true ↔
      ∃ j c, l[j]? = some c ∧ scInSpan so sl (i + j) = false ∧ scIsRes c = true ∧ scByteBit c = k := by
  induction l generalizing i with
  | nil => simp [scClassW]
  | cons c r ih =>
    rw [scClassW, Nat.testBit_or, Bool.or_eq_true, ih]
    constructor
    · rintro (h | ⟨j, d, hj, hs, hr, hb⟩)
      · cases hsp : scInSpan so sl i
        · rw [hsp] at h
          simp only [Bool.false_eq_true, ↓reduceIte, scFlag_testBit, Bool.and_eq_true, beq_iff_eq] at h
          exact ⟨0, c, rfl, hsp, h.1, h.2⟩
        · rw [hsp] at h; simp at h
      · exact ⟨j + 1, d, by simpa using hj, by rw [← hs]; congr 1; omega, hr, hb⟩
    · rintro ⟨j, d, hj, hs, hr, hb⟩
      cases j with
      | zero =>
        left
        simp only [List.getElem?_cons_zero, Option.some.injEq] at hj
        subst hj
        rw [Nat.add_zero] at hs
        simp [hs, scFlag_testBit, hr, hb]
      | succ j =>
        right
        exact ⟨j, d, by simpa using hj, by rw [← hs]; congr 1; omega, hr, hb⟩

/-- **class bits with an excluded span**: for k = 3 … 12 the bit is set iff the corresponding reserved byte occurs
    OUTSIDE the span; bits 0–2 are never set -/
theorem getStrCharsSig_span_bit (b : Buf) (so sl k : Nat) (hk : k ≤ 12) :
    (getStrCharsSig b so sl).1.testBit k = true ↔
      ∃ j c, b[j]? = some c ∧ ¬ (so ≤ j ∧ j < so + sl) ∧ scIsRes c = true ∧ scByteBit c = k := by
  obtain ⟨⟨extra, he, hx⟩, _⟩ := getStrCharsSig_span b so sl
  have hxk : extra.testBit k = false := by
    have p13 : SigHexEncF.testBit k = false := by
      rw [scEncFlags_testBit.1, Nat.testBit_two_pow]; simp; omega
    have p14 : SigB64EncF.testBit k = false := by
      rw [scEncFlags_testBit.2.1, Nat.testBit_two_pow]; simp; omega
    have p15 : SigDigBlocksF.testBit k = false := by
      rw [scEncFlags_testBit.2.2, Nat.testBit_two_pow]; simp; omega
    rcases hx with e | e | e | e <;> subst e
    · simp
    · exact p13
    · rw [Nat.testBit_or, p13, p15]; rfl
    · exact p14
  rw [he, Nat.testBit_or, hxk, Bool.or_false, scClassW_testBit]
  constructor
  · rintro ⟨j, c, hj, hs, hr, hb⟩
    refine ⟨j, c, by simpa using hj, ?_, hr, hb⟩
    unfold scInSpan at hs
    simp only [Nat.zero_add, Bool.and_eq_false_iff, decide_eq_false_iff_not] at hs
    omega
  · rintro ⟨j, c, hj, hs, hr, hb⟩
    refine ⟨j, c, by simpa using hj, ?_, hr, hb⟩
    unfold scInSpan
    simp only [Nat.zero_add, Bool.and_eq_false_iff, decide_eq_false_iff_not]
    omega

theorem getStrCharsSig_span_low (b : Buf) (so sl k : Nat) (hk : k < 3) :
    (getStrCharsSig b so sl).1.testBit k = false := by
  rw [Bool.eq_false_iff]
  intro h
  obtain ⟨j, c, _, _, _, hb⟩ := (getStrCharsSig_span_bit b so sl k (by omega)).mp h
  have := scByteBit_range c
  omega

/-- the byte at index `j` exists and is reserved -/
def scResAt (l : List UInt8) (j : Nat) : Bool :=
  match l[j]? with
  | some c => scIsRes c
  | none => false

/-- with a non-empty excluded span, the skipped neighbours are: the byte directly before the span and the byte
    directly after it, each when it exists and is reserved (`i`: index of the first byte of the list) -/
theorem scSkipW_eq (so sl i : Nat) (l : List UInt8) (hsl : sl ≠ 0) :
    scSkipW so sl i l =
      (if i + 1 ≤ so ∧ scResAt l (so - 1 - i) = true then 1 else 0) +
      (if i ≤ so + sl ∧ scResAt l (so + sl - i) = true then 1 else 0) := by
  induction l generalizing i with
  | nil => simp [scSkipW, scResAt]
  | cons c r ih =>
    rw [scSkipW, ih (i + 1)]
    have hsl' : (sl == 0) = false := by simpa using hsl
    unfold scInSpan scNextToSpan
    simp only [hsl', Bool.false_or]
    by_cases hA : i + 1 = so
    · have e1 : so - 1 - i = 0 := by omega
      have e2 : so + sl - i = (so + sl - (i + 1)) + 1 := by omega
      have hw : (decide (i ≥ so) && decide (i < so + sl)) = false := by simp; omega
      have hn : (i != so + sl && i + 1 != so) = false := by simp [hA]
      rw [e1, e2]
      simp only [hw, hn, Bool.not_false, Bool.true_and, Bool.and_true, scResAt, List.getElem?_cons_zero,
        List.getElem?_cons_succ]
      have c1 : ¬ (i + 1 + 1 ≤ so) := by omega
      have c2 : i + 1 ≤ so := by omega
      have c3 : i + 1 ≤ so + sl := by omega
      have c4 : i ≤ so + sl := by omega
      simp only [c1, c2, c3, c4, false_and, true_and, ↓reduceIte]
      omega
    · by_cases hB : i = so + sl
      · have e2 : so + sl - i = 0 := by omega
        have hw : (decide (i ≥ so) && decide (i < so + sl)) = false := by simp; omega
        have hn : (i != so + sl && i + 1 != so) = false := by simp [hB]
        rw [e2]
        simp only [hw, hn, Bool.not_false, Bool.true_and, Bool.and_true, scResAt, List.getElem?_cons_zero]
        have c1 : ¬ (i + 1 + 1 ≤ so) := by omega
        have c2 : ¬ (i + 1 ≤ so) := by omega
        have c3 : ¬ (i + 1 ≤ so + sl) := by omega
        have c4 : i ≤ so + sl := by omega
        simp only [c1, c2, c3, c4, false_and, true_and, ↓reduceIte]
        omega
      · have hn : (i != so + sl && i + 1 != so) = true := by simp [hA, hB]
        simp only [hn, Bool.not_true, Bool.and_false, Bool.false_eq_true, ↓reduceIte, Nat.zero_add]
        have f1 : (i + 1 + 1 ≤ so ∧ scResAt r (so - 1 - (i + 1)) = true) ↔
            (i + 1 ≤ so ∧ scResAt (c :: r) (so - 1 - i) = true) := by
          by_cases h : i + 1 ≤ so
          · have e : so - 1 - i = (so - 1 - (i + 1)) + 1 := by omega
            rw [e]
            simp only [scResAt, List.getElem?_cons_succ]
            constructor
            · exact fun h' => ⟨h, h'.2⟩
            · exact fun h' => ⟨by omega, h'.2⟩
          · constructor
            · intro h'; omega
            · intro h'; omega
        have f2 : (i + 1 ≤ so + sl ∧ scResAt r (so + sl - (i + 1)) = true) ↔
            (i ≤ so + sl ∧ scResAt (c :: r) (so + sl - i) = true) := by
          by_cases h : i ≤ so + sl
          · have e : so + sl - i = (so + sl - (i + 1)) + 1 := by omega
            rw [e]
            simp only [scResAt, List.getElem?_cons_succ]
            constructor
            · exact fun h' => ⟨h, h'.2⟩
            · exact fun h' => ⟨by omega, h'.2⟩
          · constructor
            · intro h'; omega
            · intro h'; omega
        simp only [f1, f2]

/-! ### `getCallIDSig` -/

/-- the IP-position flag: the address starts the Call-ID / ends it / neither -/
def scIPFlag (o n size : Nat) : Nat :=
  if o == 0 then SigIPStartF else if o + n == size then SigIPEndF else SigIPMiddleF

/-- `CidSLen`: a quarter (rounded up) of the length without the address and the skipped neighbours, at most 255 -/
def scShortLen (size n skip : Nat) : Nat :=
  (let q : Int := (((size : Int) - n - skip) + 3) / 4
   if q > 255 then 255 else q).toNat % 256

theorem getCallIDSig_ip4 (cid : Buf) {o n : Nat} {ip : Array Nat} (h : containsIP4 cid = some (o, n, ip)) :
    getCallIDSig cid =
      (scIPFlag o n cid.size ||| (getStrCharsSig cid o n).1, scShortLen cid.size n (getStrCharsSig cid o n).2,
       false) := by
  unfold getCallIDSig
  rw [h]
  rfl

theorem getCallIDSig_ip6 (cid : Buf) {o n : Nat} {a : Array Nat} {p : Bool} (h4 : containsIP4 cid = none)
    (h6 : containsIP6 cid = some (o, n, a, p)) :
    getCallIDSig cid =
      (scIPFlag o n cid.size ||| (getStrCharsSig cid o n).1, scShortLen cid.size n (getStrCharsSig cid o n).2,
       p) := by
  unfold getCallIDSig
  rw [h4, h6]
  rfl

theorem getCallIDSig_noip (cid : Buf) (h4 : containsIP4 cid = none) (h6 : containsIP6 cid = none) :
    getCallIDSig cid = (scSig cid.toList, scShortLen cid.size 0 0, false) := by
  unfold getCallIDSig
  rw [h4, h6]
  show (0 ||| (getStrCharsSig cid 0 0).1, scShortLen cid.size 0 (getStrCharsSig cid 0 0).2, false) = _
  rw [getStrCharsSig_eq, Nat.zero_or]

theorem scShortLen_eq (size n skip : Nat) (h : n + skip ≤ size) :
    scShortLen size n skip = min 255 ((size - n - skip + 3) / 4) := by
  unfold scShortLen
  simp only
  split <;> omega

/-- the text contains a dotted quad somewhere (four groups of one to three digits, each at most 255) -/
def scHasIP4 (b : Buf) : Prop := ∃ p l t a0 a1 a2 a3, IsIP4 l a0 a1 a2 a3 ∧ b.toList.drop p = l ++ t

/-- `[o, o + n)` is the LEFTMOST dotted quad of the text, taken as LONG as possible -/
def scLeftmostLongest (b : Buf) (o n : Nat) : Prop :=
  (o + n ≤ b.size ∧ ∃ a0 a1 a2 a3, IsIP4 ((b.toList.drop o).take n) a0 a1 a2 a3) ∧
  (∀ p l t a0 a1 a2 a3, IsIP4 l a0 a1 a2 a3 → b.toList.drop p = l ++ t → o ≤ p) ∧
  (∀ l t a0 a1 a2 a3, IsIP4 l a0 a1 a2 a3 → b.toList.drop o = l ++ t → l.length ≤ n)

theorem scIP4_length_pos {l : List UInt8} {a0 a1 a2 a3 : Nat} (h : IsIP4 l a0 a1 a2 a3) : 0 < l.length := by
  obtain ⟨g0, g1, g2, g3, he, _⟩ := h
  rw [he]; simp only [List.length_append, List.length_cons]; omega

theorem scContainsIP4_ll (b : Buf) {o n : Nat} {ip : Array Nat} (h : containsIP4 b = some (o, n, ip)) :
    scLeftmostLongest b o n := by
  have hs := containsIP4_some b h
  refine ⟨⟨?_, _, _, _, _, hs.2⟩, fun p l t a0 a1 a2 a3 => containsIP4_leftmost b h p l t a0 a1 a2 a3,
    fun l t a0 a1 a2 a3 => containsIP4_longest b h l t a0 a1 a2 a3⟩
  have h1 := hs.1
  have hp := scIP4_length_pos hs.2
  simp only [List.length_take, List.length_drop, Array.length_toList] at h1 hp
  omega

theorem scLeftmostLongest_unique (b : Buf) {o n o' n' : Nat} (h : scLeftmostLongest b o n)
    (h' : scLeftmostLongest b o' n') : o' = o ∧ n' = n := by
  obtain ⟨⟨hb, a0, a1, a2, a3, hi⟩, hl, hg⟩ := h
  obtain ⟨⟨hb', a0', a1', a2', a3', hi'⟩, hl', hg'⟩ := h'
  have e1 : o ≤ o' := hl o' _ _ _ _ _ _ hi' (List.take_append_drop n' _).symm
  have e2 : o' ≤ o := hl' o _ _ _ _ _ _ hi (List.take_append_drop n _).symm
  have eo : o' = o := by omega
  subst eo
  refine ⟨rfl, ?_⟩
  have f1 := hg _ _ _ _ _ _ hi' (List.take_append_drop n' _).symm
  have f2 := hg' _ _ _ _ _ _ hi (List.take_append_drop n _).symm
  simp only [List.length_take, List.length_drop, Array.length_toList] at f1 f2
  omega

/-- ContainsIP4 reports exactly the leftmost dotted quad, as long as possible -/
theorem scContainsIP4_iff_ll (b : Buf) (o n : Nat) :
    (∃ ip, containsIP4 b = some (o, n, ip)) ↔ scLeftmostLongest b o n := by
  constructor
  · rintro ⟨ip, h⟩; exact scContainsIP4_ll b h
  · intro h
    rcases hc : containsIP4 b with _ | ⟨o', n', ip⟩
    · exfalso
      obtain ⟨⟨_, a0, a1, a2, a3, hi⟩, _, _⟩ := h
      exact containsIP4_none b hc ⟨o, _, _, a0, a1, a2, a3, hi, (List.take_append_drop n _).symm⟩
    · obtain ⟨e1, e2⟩ := scLeftmostLongest_unique b h (scContainsIP4_ll b hc)
      subst e1; subst e2
      exact ⟨ip, rfl⟩

theorem scContainsIP4_none_iff (b : Buf) : containsIP4 b = none ↔ ¬ scHasIP4 b := by
  constructor
  · exact containsIP4_none b
  · intro h
    rcases hc : containsIP4 b with _ | ⟨o, n, ip⟩
    · rfl
    · exfalso
      have := containsIP4_some b hc
      exact h ⟨o, _, _, _, _, _, _, this.2, (List.take_append_drop n _).symm⟩

theorem scIPFlag_testBit (o n size k : Nat) :
    (scIPFlag o n size).testBit k =
      if k = 0 then decide (o = 0)
      else if k = 1 then decide (o ≠ 0 ∧ o + n = size)
      else if k = 2 then decide (o ≠ 0 ∧ o + n ≠ size) else false := by
  have e0 : SigIPStartF = 2 ^ 0 := rfl
  have e1 : SigIPEndF = 2 ^ 1 := rfl
  have e2 : SigIPMiddleF = 2 ^ 2 := rfl
  unfold scIPFlag
  by_cases ho : o = 0
  · subst ho
    simp only [BEq.rfl, ↓reduceIte, e0, Nat.testBit_two_pow]
    by_cases hk : k = 0
    · simp [hk]
    · have : ¬ 0 = k := fun e => hk e.symm
      simp [hk, this]
  · have ho' : (o == 0) = false := by simpa using ho
    simp only [ho', Bool.false_eq_true, ↓reduceIte]
    by_cases he : o + n = size
    · have he' : (o + n == size) = true := by simpa using he
      simp only [he', ↓reduceIte, e1, Nat.testBit_two_pow]
      by_cases hk0 : k = 0
      · subst hk0; simp [ho]
      by_cases hk1 : k = 1
      · subst hk1; simp [ho, he]
      have : ¬ 1 = k := fun e => hk1 e.symm
      simp [hk0, hk1, this, he]
    · have he' : (o + n == size) = false := by simpa using he
      simp only [he', Bool.false_eq_true, ↓reduceIte, e2, Nat.testBit_two_pow]
      by_cases hk0 : k = 0
      · subst hk0; simp [ho]
      by_cases hk1 : k = 1
      · subst hk1; simp [he]
      by_cases hk2 : k = 2
      · subst hk2; simp [ho, he]
      have : ¬ 2 = k := fun e => hk2 e.symm
      simp [hk0, hk1, hk2, this]

/-- **IP-position flags of the Call-ID signature, IPv4**: when the Call-ID contains a dotted quad, let `[o, o+n)` be
    its leftmost occurrence (as long as possible). Then exactly one of the three position bits is set: bit 0 iff it
    starts the Call-ID, bit 1 iff it does not but ends it, bit 2 otherwise. Bits 3–12 are the class bits of the
    bytes OUTSIDE `[o, o+n)`. No "Go would panic" indication. -/
theorem getCallIDSig_ip4_bits (cid : Buf) (o n : Nat) (H : scLeftmostLongest cid o n) :
    ((getCallIDSig cid).1.testBit 0 = decide (o = 0)) ∧
    ((getCallIDSig cid).1.testBit 1 = decide (o ≠ 0 ∧ o + n = cid.size)) ∧
    ((getCallIDSig cid).1.testBit 2 = decide (o ≠ 0 ∧ o + n ≠ cid.size)) ∧
    (∀ k, 3 ≤ k → k ≤ 12 → ((getCallIDSig cid).1.testBit k = true ↔
      ∃ j c, cid[j]? = some c ∧ ¬ (o ≤ j ∧ j < o + n) ∧ scIsRes c = true ∧ scByteBit c = k)) ∧
    (getCallIDSig cid).2.2 = false := by
  obtain ⟨ip, h⟩ := (scContainsIP4_iff_ll cid o n).mpr H
  rw [getCallIDSig_ip4 cid h]
  have hlow := getStrCharsSig_span_low cid o n
  refine ⟨?_, ?_, ?_, ?_, rfl⟩
  · rw [Nat.testBit_or, hlow 0 (by omega), Bool.or_false, scIPFlag_testBit]; rfl
  · rw [Nat.testBit_or, hlow 1 (by omega), Bool.or_false, scIPFlag_testBit]; rfl
  · rw [Nat.testBit_or, hlow 2 (by omega), Bool.or_false, scIPFlag_testBit]; rfl
  · intro k h3 h12
    have : (scIPFlag o n cid.size).testBit k = false := by
      rw [scIPFlag_testBit, if_neg (by omega), if_neg (by omega), if_neg (by omega)]
    show (scIPFlag o n cid.size ||| (getStrCharsSig cid o n).1).testBit k = true ↔ _
    rw [Nat.testBit_or, this, Bool.false_or]
    exact getStrCharsSig_span_bit cid o n k h12

theorem scResAt_lt (l : List UInt8) (j : Nat) (h : scResAt l j = true) : j < l.length := by
  unfold scResAt at h
  rcases Nat.lt_or_ge j l.length with h1 | h1
  · exact h1
  · rw [List.getElem?_eq_none h1] at h; cases h

/-- **the short length of the Call-ID signature, IPv4**: a quarter (rounded up, at most 255) of the length of the
    Call-ID without the leftmost dotted quad and without the reserved byte directly before it and the reserved
    byte directly after it (when there are such bytes) -/
theorem getCallIDSig_ip4_len (cid : Buf) (o n : Nat) (H : scLeftmostLongest cid o n) :
    (getCallIDSig cid).2.1 =
      min 255 ((cid.size - n -
        ((if 1 ≤ o ∧ scResAt cid.toList (o - 1) = true then 1 else 0) +
         (if scResAt cid.toList (o + n) = true then 1 else 0)) + 3) / 4) := by
  obtain ⟨ip, h⟩ := (scContainsIP4_iff_ll cid o n).mpr H
  obtain ⟨⟨hb, a0, a1, a2, a3, hi⟩, _, _⟩ := H
  have hn : n ≠ 0 := by
    have := scIP4_length_pos hi
    simp only [List.length_take, List.length_drop, Array.length_toList] at this
    omega
  rw [getCallIDSig_ip4 cid h]
  show scShortLen cid.size n (getStrCharsSig cid o n).2 = _
  rw [(getStrCharsSig_span cid o n).2, scSkipW_eq o n 0 cid.toList hn]
  simp only [Nat.zero_add, Nat.sub_zero, Nat.zero_le, true_and]
  have h2 : scResAt cid.toList (o + n) = true → o + n < cid.size := fun hh => by
    have := scResAt_lt _ _ hh; simpa using this
  rw [scShortLen_eq]
  by_cases c2 : scResAt cid.toList (o + n) = true
  · have := h2 c2
    simp only [c2, ↓reduceIte]
    split <;> omega
  · have c2' : scResAt cid.toList (o + n) = false := by simpa using c2
    simp only [c2', Bool.false_eq_true, ↓reduceIte]
    split <;> omega

/-- **no address**: without a dotted quad and with ContainsIP6 finding nothing, no position bit is set and the
    signature is that of the whole Call-ID (`scSig`); the short length is a quarter of the length, at most 255 -/
theorem getCallIDSig_noip_eq (cid : Buf) (h4 : ¬ scHasIP4 cid) (h6 : containsIP6 cid = none) :
    getCallIDSig cid = (scSig cid.toList, min 255 ((cid.size + 3) / 4), false) := by
  rw [getCallIDSig_noip cid ((scContainsIP4_none_iff cid).mpr h4) h6, scShortLen_eq _ 0 0 (by omega)]
  rfl

/-- the position bits are set only when ContainsIP4 or ContainsIP6 reports an address -/
theorem getCallIDSig_flags_need_ip (cid : Buf) (k : Nat) (hk : k < 3) (h : (getCallIDSig cid).1.testBit k = true) :
    scHasIP4 cid ∨ (containsIP6 cid).isSome = true := by
  by_cases h4 : scHasIP4 cid
  · exact Or.inl h4
  · right
    rcases h6 : containsIP6 cid with _ | r
    · rw [getCallIDSig_noip_eq cid h4 h6] at h
      have := scSig_testBit cid.toList k
      rw [if_pos (by omega), scClass_bit_other _ k (Or.inl hk)] at this
      rw [this] at h; cases h
    · rfl

/-! ### `getViaBrSig` -/

/-- the text of the value of a parsed parameter -/
def scValOf (b : Buf) (tp : PTokParam) : Buf := b.extract tp.val.offs (tp.val.offs + tp.val.len)

/-- the parameter is called `branch` (any case) -/
def scIsBranch (b : Buf) (tp : PTokParam) : Bool := tp.name.len == 6 && cmpEqL (nameOf b tp) sBranch

/-- the part of a branch value that is fingerprinted: the value without the magic cookie `z9hG4bK` (any case) when
    it starts with the cookie and is longer than it, the whole value otherwise -/
def scBranchBody (val : Buf) : Buf :=
  if val.size > 7 && cmpEqL (val.extract 0 7) sBrPrefix then val.extract 7 val.size else val

/-- signature and length for a branch value -/
def scBranchSig (val : Buf) : Nat × Nat × Bool :=
  ((getStrCharsSig (scBranchBody val) 0 0).1, (scBranchBody val).size, false)

/-- what `GetViaBrSig` returns for a parameter list: the FIRST parameter called `branch` decides -/
def scViaResult (b : Buf) (tps : List PTokParam) : Nat × Nat × Bool :=
  match tps.find? (scIsBranch b) with
  | none => (0, 0, false)
  | some tp => if tp.val.len > 0 then scBranchSig (scValOf b tp) else (0, 0, false)

theorem scQBody_le_size {b : Buf} {i e : Nat} (h : QBody b i e) : e ≤ b.size := by
  induction h with
  | close i h => have := get?_lt h; omega
  | plain i e c _ _ _ ih => exact ih
  | esc i e c1 _ _ _ _ ih => exact ih

theorem scGParam_pnc {b : Buf} {flags o o' : Nat} {e : Err} {tp : PTokParam} (H : GParam b flags o o' e tp) :
    tp.pnc = false := by
  cases H <;> rfl

/-- the value of a parameter of the grammar lies inside the buffer -/
theorem scGParam_val_get {b : Buf} {flags o o' : Nat} {e : Err} {tp : PTokParam} (hfit : b.size ≤ 65535)
    (H : GParam b flags o o' e tp) (hv : tp.val.len > 0) : tp.val.get? b = some (scValOf b tp) := by
  cases H with
  | noValue t n0 n1 o'' e' st hpad hl hr hn hE => exact absurd hv (Nat.lt_irrefl 0)
  | token t n0 n1 q v0 v1 o'' e' st hpad hl hr hn hlq h61 hlv hrv hv' hE =>
    have := hrv.le_size hv'
    exact field_get? b v0 (v1 - v0) (by omega) hfit
  | quoted t n0 n1 q v0 qe o'' e' st hpad hl hr hn hlq h61 hlv h34 hq hE =>
    have h1 := scQBody_le_size hq
    have h2 := hq.lt
    exact field_get? b v0 (qe - v0) (by omega) hfit
  | emptyVal t n0 n1 q s o'' e' st hpad hl hr hn hlq h61 hlv hs hA => exact absurd hv (Nat.lt_irrefl 0)

theorem scBranchSig_eq (val : Buf) :
    (if val.size > 7 && cmpEqL (val.extract 0 7) sBrPrefix then
       ((getStrCharsSig (val.extract 7 val.size) 0 0).1, val.size - 7, false)
     else ((getStrCharsSig val 0 0).1, val.size, false)) = scBranchSig val := by
  unfold scBranchSig scBranchBody
  by_cases h : (decide (val.size > 7) && cmpEqL (val.extract 0 7) sBrPrefix) = true
  · simp only [h, ↓reduceIte]
    simp only [Bool.and_eq_true, decide_eq_true_eq] at h
    have : (val.extract 7 val.size).size = val.size - 7 := by simp
    rw [this]
  · simp only [h, Bool.false_eq_true, ↓reduceIte]

/-- one iteration of the loop of `GetViaBrSig` on a parameter of the grammar -/
theorem viaBrLoop_gparam {b : Buf} {o o' : Nat} {e : Err} {tp : PTokParam} (hfit : b.size ≤ 65535)
    (H : GParam b viaBrFlags o o' e tp) (he : e = .ok ∨ e = .moreValues ∨ e = .eoh) :
    viaBrLoop b o =
      if scIsBranch b tp then (if tp.val.len > 0 then scBranchSig (scValOf b tp) else (0, 0, false))
      else if e = .moreValues then viaBrLoop b o' else (0, 0, false) := by
  rw [viaBrLoop, H.parse hfit]
  simp only [scGParam_pnc H, Bool.false_eq_true, ↓reduceIte]
  have hee : (e == .ok || e == .moreValues || e == .eoh) = true := by
    rcases he with h | h | h <;> subst h <;> rfl
  simp only [hee, ↓reduceIte]
  have hname := H.name_get hfit
  unfold scIsBranch
  by_cases h6 : (tp.name.len == 6) = true
  · simp only [h6, ↓reduceIte, hname, Option.map_some, Bool.true_and]
    cases hb : cmpEqL (nameOf b tp) sBranch
    · simp only [Bool.false_eq_true, ↓reduceIte]
      by_cases hm : e = .moreValues
      · subst hm
        have hr := H.more_range
        simp only [BEq.rfl, ↓reduceIte, hr.1, hr.2, and_self]
      · have : (e == .moreValues) = false := by
          rcases he with h | h | h <;> subst h <;> first | rfl | exact absurd rfl hm
        simp only [this, Bool.false_eq_true, ↓reduceIte, hm]
    · simp only [↓reduceIte]
      by_cases hv : tp.val.len > 0
      · simp only [hv, ↓reduceIte, scGParam_val_get hfit H hv]
        exact scBranchSig_eq _
      · simp only [hv, ↓reduceIte]
  · have h6' : (tp.name.len == 6) = false := by simpa using h6
    simp only [h6', Bool.false_eq_true, ↓reduceIte, Bool.false_and]
    by_cases hm : e = .moreValues
    · subst hm
      have hr := H.more_range
      simp only [BEq.rfl, ↓reduceIte, hr.1, hr.2, and_self]
    · have : (e == .moreValues) = false := by
        rcases he with h | h | h <;> subst h <;> first | rfl | exact absurd rfl hm
      simp only [this, Bool.false_eq_true, ↓reduceIte, hm]

/-- **the loop of `GetViaBrSig` on a parameter list of the grammar**: the first parameter called `branch` decides;
    later ones are ignored; without one the signature is empty -/
theorem viaBrLoop_glist {b : Buf} {o o' : Nat} {e : Err} {tps : List PTokParam} (hfit : b.size ≤ 65535)
    (H : GList b viaBrFlags o tps o' e) : viaBrLoop b o = scViaResult b tps := by
  induction H with
  | last o o' e tp hg he =>
    rw [viaBrLoop_gparam hfit hg (by rcases he with h | h <;> simp [h])]
    unfold scViaResult
    have hm : ¬ e = .moreValues := by rcases he with h | h <;> subst h <;> intro h' <;> cases h'
    cases hb : scIsBranch b tp
    · simp [hb, hm]
    · simp [hb]
  | cons o next tp rest o' e hg _ ih =>
    rw [viaBrLoop_gparam hfit hg (Or.inr (Or.inl rfl))]
    unfold scViaResult
    cases hb : scIsBranch b tp
    · simp only [Bool.false_eq_true, ↓reduceIte, List.find?_cons, hb]
      exact ih
    · simp [hb]

/-- no `;` in the Via value: no parameters, empty signature -/
theorem getViaBrSig_no_semicolon (b : Buf) (h : ∀ k : Nat, b[k]? ≠ some 59) : getViaBrSig b = (0, 0, false) := by
  unfold getViaBrSig
  rcases hidx : indexByteFrom b 0 59 with _ | d
  · rfl
  · exact absurd (indexByteFrom_some b 0 59 hidx).2.1 (h d)

/-- the parameters are read from the byte after the FIRST `;` -/
theorem getViaBrSig_first_semicolon (b : Buf) (s : Nat) (hs : b[s]? = some 59) (hf : ∀ k : Nat, k < s → b[k]? ≠ some 59) :
    getViaBrSig b = viaBrLoop b (s + 1) := by
  unfold getViaBrSig
  rcases hidx : indexByteFrom b 0 59 with _ | d
  · exact absurd hs (indexByteFrom_none b 0 59 hidx s (Nat.zero_le _))
  · have h := indexByteFrom_some b 0 59 hidx
    have e : d = s := by
      rcases Nat.lt_trichotomy d s with h1 | h1 | h1
      · exact absurd h.2.1 (hf d h1)
      · exact h1
      · exact absurd hs (h.2.2 s (Nat.zero_le _) h1)
    subst e; rfl

/-- **`GetViaBrSig` on a Via value `sent-protocol sent-by ; params`** (first `;` at `s`, then a parameter list of the
    C17 grammar with separator `;`, ended by `,` or the end of the value): the signature is that of the value of
    the FIRST parameter called `branch` (case-insensitive), without the magic cookie; an empty or missing value, or
    no such parameter, gives the empty signature; a later `branch` is ignored; Go does not panic -/
theorem getViaBrSig_glist (b : Buf) (s o' : Nat) (e : Err) (tps : List PTokParam) (hfit : b.size ≤ 65535)
    (hs : b[s]? = some 59) (hf : ∀ k : Nat, k < s → b[k]? ≠ some 59) (H : GList b viaBrFlags (s + 1) tps o' e) :
    getViaBrSig b = scViaResult b tps := by
  rw [getViaBrSig_first_semicolon b s hs hf, viaBrLoop_glist hfit H]

/-- a later `branch` is ignored: the result depends only on the list up to and including the first `branch` -/
theorem scViaResult_first (b : Buf) (l1 l2 : List PTokParam) (tp : PTokParam) (h1 : ∀ x ∈ l1, scIsBranch b x = false)
    (hb : scIsBranch b tp = true) :
    scViaResult b (l1 ++ tp :: l2) = if tp.val.len > 0 then scBranchSig (scValOf b tp) else (0, 0, false) := by
  unfold scViaResult
  have : (l1 ++ tp :: l2).find? (scIsBranch b) = some tp := by
    rw [List.find?_append]
    have : l1.find? (scIsBranch b) = none := by
      rw [List.find?_eq_none]; intro x hx; rw [h1 x hx]; simp
    rw [this, List.find?_cons, hb]; rfl
  rw [this]

theorem scViaResult_none (b : Buf) (l : List PTokParam) (h : ∀ x ∈ l, scIsBranch b x = false) :
    scViaResult b l = (0, 0, false) := by
  unfold scViaResult
  have : l.find? (scIsBranch b) = none := by
    rw [List.find?_eq_none]; intro x hx; rw [h x hx]; simp
  rw [this]

/-! ### the signature depends on the CLASSES only -/

/-- what the signature reads of a first occurrence: type, compact form, and (for a Via) the branch signature -/
def scKeyClass (k : SigKey) : Nat × Bool × Nat := (k.type, k.compact, k.viaSig 0)

theorem scEntry_congr (k k' : SigKey) (m : Nat) (h : scKeyClass k = scKeyClass k') : k.entry m = k'.entry m := by
  unfold scKeyClass at h
  injection h with h1 h2
  injection h2 with h2 h3
  unfold SigKey.entry SigKey.counted
  rw [h1, h2]

theorem scFlatMap_congr (fs fs' : List SigKey) (m : Nat) (h : fs.map scKeyClass = fs'.map scKeyClass) :
    fs.flatMap (fun k => k.entry m) = fs'.flatMap (fun k => k.entry m) := by
  induction fs generalizing fs' with
  | nil =>
    cases fs' with
    | nil => rfl
    | cons a r => simp at h
  | cons a r ih =>
    cases fs' with
    | nil => simp at h
    | cons a' r' =>
      rw [List.map_cons, List.map_cons] at h
      injection h with h1 h2
      rw [List.flatMap_cons, List.flatMap_cons, scEntry_congr a a' m h1, ih r' h2]

theorem scFindVia_congr (fs fs' : List SigKey) (s : MsgSig) (hs : s.viaBSig = 0)
    (h : fs.map scKeyClass = fs'.map scKeyClass) : (sigApply fs s).viaBSig = (sigApply fs' s).viaBSig := by
  induction fs generalizing fs' with
  | nil =>
    cases fs' with
    | nil => rfl
    | cons a r => simp at h
  | cons a r ih =>
    cases fs' with
    | nil => simp at h
    | cons a' r' =>
      rw [List.map_cons, List.map_cons] at h
      injection h with h1 h2
      have ht : a.type = a'.type := congrArg (·.1) h1
      have hv : a.viaSig 0 = a'.viaSig 0 := congrArg (·.2.2) h1
      have ih' := ih r' h2
      simp only [sigApply, List.find?_cons] at ih' ⊢
      rw [ht]
      cases a'.type == HdrVia
      · exact ih'
      · simp only [hs]; exact hv

/-- the signature built from the first occurrences depends on them only through their classes -/
theorem sigApply_congr_class (fs fs' : List SigKey) (s : MsgSig) (hs : s.viaBSig = 0)
    (h : fs.map scKeyClass = fs'.map scKeyClass) : sigApply fs s = sigApply fs' s := by
  have h1 := scFindVia_congr fs fs' s hs h
  have h2 := scFlatMap_congr fs fs' s.method h
  unfold sigApply at h1 ⊢
  simp only at h1
  rw [h1, h2]

/-- the class of a stored Via header: the branch signature of its value; of any other header: type and form only -/
theorem scKeyClass_hdr (mbuf : Buf) (h : Hdr) :
    scKeyClass (hdrKey mbuf h) =
      (h.type, h.name.len == 1,
        if h.type == HdrVia then
          match h.val.get? mbuf with
          | some v => (getViaBrSig v).1
          | none => 0
        else 0) := by
  unfold scKeyClass hdrKey SigKey.viaSig
  by_cases hv : (h.type == HdrVia) = true
  · simp only [hv, ↓reduceIte]
    cases h.val.get? mbuf <;> rfl
  · simp only [hv, Bool.false_eq_true, ↓reduceIte]

/-- **C19 in its own words**: two requests that agree on the method, on the first occurrences of the fingerprinted
    headers (type and long / compact form, in order), on the Call-ID signature and short length, on the From-tag
    signature and on the branch signature of the first Via have the same signature — whatever the bytes of
    Call-ID, From-tag and Via are, and whatever else differs -/
theorem getMsgSig_same_classes (m m' : PSIPMsg) (b b' : Buf) (hr : m.request = true) (hr' : m'.request = true)
    (cid tag cid' tag' : Buf)
    (hc : m.pv.callid.callID.get? (b.extract 0 m.bufLen) = some cid)
    (ht : m.pv.from_.tag.get? (b.extract 0 m.bufLen) = some tag)
    (hc' : m'.pv.callid.callID.get? (b'.extract 0 m'.bufLen) = some cid')
    (ht' : m'.pv.from_.tag.get? (b'.extract 0 m'.bufLen) = some tag')
    (hcov : FlagsCover m.hl.pflags m.hl.hdrs.toList) (hcov' : FlagsCover m'.hl.pflags m'.hl.hdrs.toList)
    (hmeth : m'.fl.methodNo = m.fl.methodNo)
    (hcid : (getCallIDSig cid').1 = (getCallIDSig cid).1) (hclen : (getCallIDSig cid').2.1 = (getCallIDSig cid).2.1)
    (htag : (getStrCharsSig tag' 0 0).1 = (getStrCharsSig tag 0 0).1)
    (hfirsts : (sigFirsts [] (m'.hl.hdrs.toList.map (hdrKey (b'.extract 0 m'.bufLen)))).map scKeyClass =
               (sigFirsts [] (m.hl.hdrs.toList.map (hdrKey (b.extract 0 m.bufLen)))).map scKeyClass) :
    (getMsgSigCore m' b').1 = (getMsgSigCore m b).1 := by
  rw [getMsgSig_request m b hr cid tag hc ht, getMsgSig_request m' b' hr' cid' tag' hc' ht']
  show (msgSigLoop _ _ _ _).1.sig = (msgSigLoop _ _ _ _).1.sig
  rw [(msgSigLoop_view _ _ _ _ cid tag hcov).1, (msgSigLoop_view _ _ _ _ cid' tag' hcov').1]
  have hinit : (sigInit m'.fl.methodNo cid' tag').sig = (sigInit m.fl.methodNo cid tag).sig := by
    unfold sigInit
    simp only [hmeth, hcid, hclen, htag]
  rw [hinit]
  exact sigApply_congr_class _ _ _ rfl hfirsts

/-! ### tests / non-vacuity (`decide +kernel` on concrete inputs; these are examples, not the general claims) -/

/-- test: a From-tag `a-1`: class `-` only (too short for an encoding guess) -/
example : getStrCharsSig "a-1".toUTF8.data 0 0 = (SigHasDashF, 0) ∧ scSig "a-1".toUTF8.data.toList = SigHasDashF := by
  decide +kernel

/-- test: 16 hex digits: hex-encoding flag; one more byte `g` appended: the flag is gone (the encoding bits are NOT
    monotone under concatenation) -/
example : scSig "0123456789abcdef".toUTF8.data.toList = SigHexEncF ∧
    scSig "0123456789abcdefg".toUTF8.data.toList = 0 := by decide +kernel

/-- test: four blocks of hex digits separated by `-`: hex encoding + digit blocks + the class of `-` -/
example : scSig "ab12-cd34-ef56-7890".toUTF8.data.toList = SigHasDashF ||| SigHexEncF ||| SigDigBlocksF ∧
    scFirstRes "ab12-cd34-ef56-7890".toUTF8.data.toList = 45 ∧
    scSepCount "ab12-cd34-ef56-7890".toUTF8.data.toList = 3 ∧
    scRuns 0 "ab12-cd34-ef56-7890".toUTF8.data.toList = [4, 4, 4, 4] := by decide +kernel

/-- test: the encoding bits are POSITIONAL — `GGGGGGGG=` is flagged base64, its permutation `=GGGGGGGG` is not
    (the class bit of `=` is set in both, as `getStrCharsSig_perm_low` says) -/
example : scSig "GGGGGGGG=".toUTF8.data.toList = SigHasEqF ||| SigB64EncF ∧
    scSig "=GGGGGGGG".toUTF8.data.toList = SigHasEqF ∧
    "GGGGGGGG=".toUTF8.data.toList.Perm "=GGGGGGGG".toUTF8.data.toList := by
  refine ⟨by decide +kernel, by decide +kernel, ?_⟩
  exact (List.perm_append_comm (l₁ := "GGGGGGGG".toUTF8.data.toList) (l₂ := [61]))

/-- test: … and so is the hex guess: the same bytes in two blocks of 8 + 1 or in nine blocks -/
example : scSig "12345678-1".toUTF8.data.toList = SigHasDashF ||| SigHexEncF ||| SigDigBlocksF ∧
    scSig "1-2345678-".toUTF8.data.toList = SigHasDashF := by decide +kernel

/-- test / non-vacuity of `getCallIDSig_ip4_bits`: `x@1.2.3.4` — the leftmost quad is `[2, 9)`, it ends the Call-ID
    (bit 1), the `@` directly before it is in the class (bit 3) but skipped for the length; the dots inside the
    address are not in the class -/
example : scLeftmostLongest "x@1.2.3.4".toUTF8.data 2 7 ∧
    getCallIDSig "x@1.2.3.4".toUTF8.data = (SigIPEndF ||| SigHasAtF, 1, false) := by
  refine ⟨scContainsIP4_ll _ (ip := #[1, 2, 3, 4]) (by decide +kernel), by decide +kernel⟩

/-- test: the address in the middle / at the start; `1.2.3.4567`: the quad taken is `1.2.3.45` (longest), middle -/
example : (getCallIDSig "ab-1.2.3.4-cd".toUTF8.data).1 = SigIPMiddleF ||| SigHasDashF ∧
    (getCallIDSig "1.2.3.4@host".toUTF8.data).1 = SigIPStartF ||| SigHasAtF ∧
    containsIP4 "1.2.3.4567".toUTF8.data = some (0, 8, #[1, 2, 3, 45]) ∧
    (getCallIDSig "a1.2.3.4567".toUTF8.data).1 = SigIPMiddleF := by decide +kernel

/-- test: no dotted quad, but ContainsIP6 reports an address: a position bit is set without any IPv4 address
    (`scHasIP4` fails: `containsIP4 = none`) -/
example : containsIP4 "ab::1".toUTF8.data = none ∧ (getCallIDSig "ab::1".toUTF8.data).1.testBit 0 = true := by
  decide +kernel

/-- test: same classes, different short length -/
example : getCallIDSig "abc-def".toUTF8.data = (SigHasDashF, 2, false) ∧
    getCallIDSig "abc-defgh".toUTF8.data = (SigHasDashF, 3, false) := by decide +kernel

/-- non-vacuity of `getCallIDSig_noip_eq` -/
example : containsIP4 "abc-def".toUTF8.data = none ∧ containsIP6 "abc-def".toUTF8.data = none ∧
    getCallIDSig "abc-def".toUTF8.data = (SigHasDashF, 2, false) := by decide +kernel

/-- the first Via of the C19 test message -/
def scExVia : Buf := "SIP/2.0/UDP h;branch=z9hG4bK-a.b".toUTF8.data

/-- test: cookie stripped, class of `-a.b` -/
example : getViaBrSig scExVia = (SigHasDotF ||| SigHasDashF, 4, false) := by decide +kernel

/-- test: a later `branch` is ignored, the name is matched case-insensitively, a value that is only the cookie is
    kept whole, no `branch` gives the empty signature -/
example : getViaBrSig "SIP/2.0/UDP h;rport;BrAnCh=z9hG4bK-a.b;branch=x_y".toUTF8.data =
      (SigHasDotF ||| SigHasDashF, 4, false) ∧
    getViaBrSig "SIP/2.0/UDP h;branch=z9hG4bK".toUTF8.data = (0, 7, false) ∧
    getViaBrSig "SIP/2.0/UDP h;rport;ttl=1".toUTF8.data = (0, 0, false) ∧
    getViaBrSig "SIP/2.0/UDP h".toUTF8.data = (0, 0, false) := by decide +kernel

/-- a run of parameter bytes, checked by evaluation (for the examples) -/
theorem scPRun_of_check (b : Buf) (flags i j : Nat)
    (h : (List.range' i (j - i)).all (fun k =>
      match b[k]? with
      | some c => tokAllowedChar c flags && c != tpSep flags && c != tpTerm flags
      | none => false) = true) : PRun b flags i j := by
  intro k h1 h2
  rw [List.all_eq_true] at h
  have := h k (by rw [List.mem_range']; exact ⟨k - i, by omega, by omega⟩)
  cases hb : b[k]? with
  | none => rw [hb] at this; cases this
  | some c =>
    rw [hb] at this
    simp only [Bool.and_eq_true, bne_iff_ne, ne_eq] at this
    exact ⟨c, rfl, this.1.1, this.1.2, this.2⟩

/-- non-vacuity of `getViaBrSig_glist`: the value above is `… ;` + a `GList` of one parameter -/
example : getViaBrSig scExVia = scViaResult scExVia
    [{ name := ⟨14, 6⟩, val := ⟨21, 11⟩, all := ⟨14, 18⟩, state := .fin }] := by
  refine getViaBrSig_glist scExVia 13 32 .eoh _ (by decide) (by decide +kernel) ?_ ?_
  · intro k hk
    have : k = 0 ∨ k = 1 ∨ k = 2 ∨ k = 3 ∨ k = 4 ∨ k = 5 ∨ k = 6 ∨ k = 7 ∨ k = 8 ∨ k = 9 ∨ k = 10 ∨ k = 11 ∨
        k = 12 := by omega
    rcases this with rfl | rfl | rfl | rfl | rfl | rfl | rfl | rfl | rfl | rfl | rfl | rfl | rfl <;> decide +kernel
  · refine GList.last 14 32 .eoh _ ?_ (Or.inr rfl)
    refine GParam.token 14 14 14 20 20 21 32 32 .eoh .fin (Pad.nil 14) (Lws.nil 14) ?_ (by decide) (Lws.nil 20)
      (by decide +kernel) (Lws.nil 21) ?_ (by decide) ?_
    · exact scPRun_of_check _ _ 14 20 (by decide +kernel)
    · exact scPRun_of_check _ _ 21 32 (by decide +kernel)
    · exact Ending.inputEnd 32 32 (by decide) (Lws.nil 32) (EndTail.none 32 (by decide +kernel))

/-- two requests with different Call-ID, From-tag and branch bytes of the same classes (and a different Subject) -/
def scExMsg1 : Buf := "INVITE sip:a@b SIP/2.0\r\nVia: SIP/2.0/UDP h;branch=z9hG4bK-a.b\r\nSubject: x\r\nf: <sip:a@b>;tag=a-1\r\nTo: <sip:c@d>\r\nCall-ID: x@1.2.3.4\r\nCSeq: 1 INVITE\r\nContent-Length: 0\r\n\r\n".toUTF8.data
def scExMsg2 : Buf := "INVITE sip:a@b SIP/2.0\r\nVia: SIP/2.0/UDP h2;rport;branch=z9hG4bK-c.d\r\nf: <sip:e@b>;tag=b-2\r\nTo: <sip:c@d>\r\nCall-ID: y@5.6.7.8\r\nCSeq: 22 INVITE\r\nContent-Length: 0\r\n\r\n".toUTF8.data
def scExM1 : PSIPMsg := (parseSIPMsg scExMsg1 0 (({} : PSIPMsg).init 0 (some (Array.replicate 10 {})) none) 0).2.2
def scExM2 : PSIPMsg := (parseSIPMsg scExMsg2 0 (({} : PSIPMsg).init 0 (some (Array.replicate 10 {})) none) 0).2.2

/-- non-vacuity of `getMsgSig_same_classes`: the two parsed messages meet its hypotheses, hence have the same
    signature although Call-ID, From-tag, branch, Via host, Subject and CSeq differ -/
example : (getMsgSigCore scExM2 scExMsg2).1 = (getMsgSigCore scExM1 scExMsg1).1 :=
  getMsgSig_same_classes scExM1 scExM2 scExMsg1 scExMsg2 (by decide +kernel) (by decide +kernel)
    "x@1.2.3.4".toUTF8.data "a-1".toUTF8.data "y@5.6.7.8".toUTF8.data "b-2".toUTF8.data
    (by decide +kernel) (by decide +kernel) (by decide +kernel) (by decide +kernel)
    (by unfold FlagsCover; decide +kernel) (by unfold FlagsCover; decide +kernel)
    (by decide +kernel) (by decide +kernel) (by decide +kernel) (by decide +kernel) (by decide +kernel)

end Sipsp
