/-
  Sipsp.Proofs.HdrTyped — header lines of the eight header types with a dedicated value parser (From, To, Call-ID,
  CSeq, Content-Length, Contact, Expires, P-Asserted-Identity) when a values object is supplied; accumulation of the
  Contact / P-Asserted-Identity values over several header lines of one message; header blocks that mix generic and
  typed lines.  Everything for ALL buffers within the 65,535-byte limit, ALL offsets and ALL texts of the grammars.

  (1) the typed path, for ANY text after the colon (EXPORT C07):
      `ht_line_from / _to / _callid / _cseq / _clen / _expires / _contact / _pai`: for `name [SP/HT] ":" …` whose name
      classifies as that type, a new header object and a values object whose component is not yet parsed,
      ParseHdrLine = (verdict and offset of the value parser started after the colon, header = name as written, type,
      `val` = the value parser's span and finished iff the verdict is OK (`htHdr`), values object changed in that one
      component only).  `ht_line_*_at`: the same with the value parser started at the first value byte `v`
      (`ht_na_lead_lws`, `ht_ci_lead_lws`, `ht_ui_lead_lws`, `ht_clen_lead_lws`, `ht_cs_lead_lws`: each value parser
      skips the linear white space in front of the value).  `ht_prefix`, `ht_prefix_done`, `ht_prefix_cont`: the line
      up to the colon, whatever follows.
  (2) instantiated with value grammars (EXPORT C07):
      `ht_from_value`, `ht_to_value` (C09 grammar `NAValue`: `val` = the value span of the name-addr value, which by
      `ht_navalue_v` runs from the first byte after the leading white space to where the end of the value begins);
      `ht_callid_run` / `ht_callid_value` (one run of non-white-space bytes: `val` = that run);
      `ht_uint_run` / `ht_expires_value`, `ht_clen_run` / `ht_clen_value` (digits: `val` = the digit string, number =
      its decimal value; Content-Length: at most 9 digits and 2^24);
      `ht_cseq_run` / `ht_cseq_value` (digits, white space, method: number exact, method classified from its text,
      `val` from the first digit to the end of the method);
      `ht_contact_values`, `ht_pai_values` (`ValList`: `val` = `htSpan` = from the start of the first value to the
      end of the last one, `ht_lhv_line`; object = `htLine`: header counter + 1, values accepted in order, for any
      capacity, also on an object that already holds values of earlier lines).
      `ht_line_gen`, `ht_line_gen_empty`, `HdrLineAt.ht_parse`: generic scanning with a values object (`HtGen`:
      types without value parser, and repeated single-valued headers whose value is already parsed).
  (3) several Contact lines (EXPORT C09): `PContacts.htLines` and `ht_htLines_hNo` (HNo = number of Contact lines),
      `ht_htLines_n` (N = total number of values), `ht_htLines_stored` (stored values = all values in order, up to
      the capacity), `ht_htLines_maxE`, `ht_htLines_minE` (max / min expires over all values), `ht_htLines_ready`;
      one line: `ht_htLine_*`.  PAI: `ht_paLines_hNo`, `ht_paLines_n`.  Tied to ParseHeaders by `HtBlock.contacts`.
  (4) blocks (EXPORT C07): `HtLine` (a generic line or a typed line whose value satisfies its grammar), `HtBlock`,
      `ht_parseHeaders_block` (one header per line, in order, the values object threaded through the typed lines),
      `HtBlock.contacts` (the contacts / PAI objects after the block = `htLines` of the Contact / PAI lines of the
      block, whatever stands between them), `HtBlock.ct_ne`.  Non-vacuity: `htEx_block` and the examples at the end.
  NOT proved: stored values / expires summaries for P-Asserted-Identity lines beyond the counters; typed lines whose
  single-valued component is in the middle of a value (resumption after "more bytes": L2 theorems elsewhere);
  Contact `*`; rejection results other than the tests at the end (with a values object the typed kinds reject an
  empty value, a Call-ID of two tokens, a Content-Length of more than 9 digits — see the tests).
-/
import Sipsp.Proofs.HdrSpec
import Sipsp.Proofs.NameAddrSpec
import Sipsp.Proofs.NumRun

namespace Sipsp

/-! ### (1) the line up to the colon, whatever follows -/

theorem ht_runStep_pos {σ : Type} (m : Machine σ) (b : Buf) (i i2 : Nat) (S : Step σ)
    (h : ∀ i' st, S = .cont i' st → i < i' ∧ i2 < i') : runStep m b i S = runStep m b i2 S := by
  cases S with
  | done o e st => rfl
  | cont i' st =>
    have := h i' st rfl
    show (if i < i' then runLoop m b i' st else (i, Err.lbug, st)) =
      (if i2 < i' then runLoop m b i' st else (i2, Err.lbug, st))
    rw [if_pos this.1, if_pos this.2]

/-- the name `[o, n)`, optional spaces / tabs, the colon at `c`: ParseHdrLine arrives at the code after the colon
    (`hlAfterColon` at `c + 1`) with the name recorded, and goes on with what that code says -/
theorem ht_prefix (b : Buf) (o n c : Nat) (hb : Option PHdrVals) (hfit : b.size ≤ 65535)
    (hname : NameRun b o n) (hon : o < n) (hws : WsRun b n c) (hnc : n ≤ c) (hcolon : b[c]? = some 58)
    (S : Step HLσ) (hafter : hlAfterColon b (c + 1) (hdrAt 0 o n {} .bodyStart) hb = S)
    (hS : ∀ i' st, S = .cont i' st → i' = c + 1) :
    parseHdrLine b o {} hb =
      ((runStep hlMachine b c S).1, (runStep hlMachine b c S).2.1, (runStep hlMachine b c S).2.2.1,
        (runStep hlMachine b c S).2.2.2) := by
  have hcl := get?_lt hcolon
  obtain ⟨c0, h0, hl0, _⟩ := hname o (Nat.le_refl _) hon
  have hc013 : (c0 == 13) = false := by
    unfold isLWSch at hl0; simp only [Bool.or_eq_false_iff] at hl0; exact hl0.1.2
  have hc010 : (c0 == 10) = false := by
    unfold isLWSch at hl0; simp only [Bool.or_eq_false_iff] at hl0; exact hl0.2
  have hnend : ∃ cn, b[n]? = some cn ∧ ((isWS cn = true ∧ n < c) ∨ (cn = 58 ∧ n = c)) := by
    by_cases h1 : n < c
    · obtain ⟨cn, hcn, hw⟩ := hws n (Nat.le_refl _) h1; exact ⟨cn, hcn, Or.inl ⟨hw, h1⟩⟩
    · have : n = c := by omega
      exact ⟨58, by rw [this]; exact hcolon, Or.inr ⟨rfl, this⟩⟩
  obtain ⟨cn, hcn, hcase⟩ := hnend
  have hstop : isLWSch cn = true ∨ cn = 58 := by
    rcases hcase with ⟨hw, _⟩ | ⟨h58, _⟩
    · left
      unfold isWS at hw; unfold isLWSch
      simp only [Bool.or_eq_true] at hw ⊢
      rcases hw with hw | hw
      · exact Or.inl (Or.inl (Or.inl hw))
      · exact Or.inl (Or.inl (Or.inr hw))
    · exact Or.inr h58
  have hsk : skipTokenDelim b o 58 = n := skipTokenDelim_run b o n (by omega) hname hcn hstop
  have hnm : (PField.set o o).extend n = ⟨o, n - o⟩ := set_extend o n (by omega) (by omega)
  have hxp : (PField.set o o).extendPanics n = false := by
    unfold PField.extendPanics PField.set trunc16; simp; have := Nat.mod_le o 65536; omega
  have hne : (({ offs := o, len := n - o } : PField).isEmpty) = false := by
    unfold PField.isEmpty; simp; omega
  unfold parseHdrLine
  rcases hcase with ⟨hw, hlt⟩ | ⟨h58, heq⟩
  · have hw58 : (cn == 58) = false := by
      unfold isWS at hw; simp only [Bool.or_eq_true, beq_iff_eq] at hw
      rcases hw with hw | hw <;> (rw [hw]; decide)
    have hstep1 : hlStep b o c0 (({} : Hdr), hb) = .cont (n + 1) (hdrAt 0 o n {} .nameEnd, hb) := by
      unfold hlStep hdrAt
      simp only [hc013, hc010, Bool.false_eq_true, ↓reduceIte]
      unfold hlName
      simp only [hsk, hcn, hw, ↓reduceIte, hnm, hxp, hne, Bool.false_eq_true, Bool.or_self]
    rw [runLoop_cont hlMachine h0 (by exact hstep1), if_pos (by omega)]
    have hn1 : ∃ y, b[n + 1]? = some y := by
      by_cases h1 : n + 1 < c
      · obtain ⟨y, hy, _⟩ := hws (n + 1) (by omega) h1; exact ⟨y, hy⟩
      · have : n + 1 = c := by omega
        rw [this]; exact ⟨58, hcolon⟩
    obtain ⟨y, hy⟩ := hn1
    have hskw : skipWS b (n + 1) = c :=
      skipWS_run b (n + 1) c (by omega) (fun k h1 h2 => hws k (by omega) h2) hcolon (by decide)
    have hstep2 : hlStep b (n + 1) y (hdrAt 0 o n {} .nameEnd, hb) = S := by
      unfold hlStep
      show (match (hdrAt 0 o n {} .nameEnd).state with | _ => _) = _
      unfold hdrAt
      simp only [hskw, hcolon, beq_self_eq_true, ↓reduceIte]
      exact hafter
    rw [runLoop_eq_runStep hlMachine _ hy]
    show (match runStep hlMachine b (n + 1) (hlStep b (n + 1) y (hdrAt 0 o n {} .nameEnd, hb)) with
      | (o, e, (h', hb')) => (o, e, h', hb')) = _
    rw [hstep2, ht_runStep_pos hlMachine b (n + 1) c S (fun i' st h => by have := hS i' st h; omega)]
  · subst heq
    subst h58
    have hstep1 : hlStep b o c0 (({} : Hdr), hb) = S := by
      unfold hlStep
      simp only [hc013, hc010, Bool.false_eq_true, ↓reduceIte]
      unfold hlName
      have hw58 : isWS (58 : UInt8) = false := by decide
      simp only [hsk, hcn, hw58, beq_self_eq_true, ↓reduceIte, hnm, hxp, hne, Bool.false_eq_true, Bool.or_self]
      exact hafter
    rw [runLoop_eq_runStep hlMachine _ h0]
    show (match runStep hlMachine b o (hlStep b o c0 (({} : Hdr), hb)) with
      | (o, e, (h', hb')) => (o, e, h', hb')) = _
    rw [hstep1, ht_runStep_pos hlMachine b o n S (fun i' st h => by have := hS i' st h; omega)]

/-- … if that code finishes the line (typed path), its result is the result of ParseHdrLine -/
theorem ht_prefix_done (b : Buf) (o n c : Nat) (hb : Option PHdrVals) (hfit : b.size ≤ 65535)
    (hname : NameRun b o n) (hon : o < n) (hws : WsRun b n c) (hnc : n ≤ c) (hcolon : b[c]? = some 58)
    {o' : Nat} {e' : Err} {h' : Hdr} {hb' : Option PHdrVals}
    (hafter : hlAfterColon b (c + 1) (hdrAt 0 o n {} .bodyStart) hb = .done o' e' (h', hb')) :
    parseHdrLine b o {} hb = (o', e', h', hb') := by
  rw [ht_prefix b o n c hb hfit hname hon hws hnc hcolon _ hafter (fun i' st h => by cases h)]
  rfl

/-- … and if it hands the line back to the generic value scanner, ParseHdrLine is that scanner run from `c + 1` -/
theorem ht_prefix_cont (b : Buf) (o n c : Nat) (hb : Option PHdrVals) (hfit : b.size ≤ 65535)
    (hname : NameRun b o n) (hon : o < n) (hws : WsRun b n c) (hnc : n ≤ c) (hcolon : b[c]? = some 58)
    {st : HLσ} (hafter : hlAfterColon b (c + 1) (hdrAt 0 o n {} .bodyStart) hb = .cont (c + 1) st) :
    parseHdrLine b o {} hb =
      ((runLoop hlMachine b (c + 1) st).1, (runLoop hlMachine b (c + 1) st).2.1, (runLoop hlMachine b (c + 1) st).2.2.1,
        (runLoop hlMachine b (c + 1) st).2.2.2) := by
  rw [ht_prefix b o n c hb hfit hname hon hws hnc hcolon _ hafter (fun i' st' h => by cases h; rfl)]
  have : runStep hlMachine b c (.cont (c + 1) st) = runLoop hlMachine b (c + 1) st := by
    show (if c < c + 1 then runLoop hlMachine b (c + 1) st else (c, Err.lbug, st)) = _
    rw [if_pos (by omega)]
  rw [this]

/-- the header reported on the typed path: finished with the value parser's span when the verdict is OK; otherwise
    the header stays in the state of its value parser (the caller resumes or gives up) with no value -/
def htHdr (t o n : Nat) (st : HState) (e : Err) (v : PField) : Hdr :=
  if e == .ok then hdrAt t o n v .fin else hdrAt t o n {} st

theorem htHdr_ok (t o n : Nat) (st : HState) (v : PField) : htHdr t o n st .ok v = hdrAt t o n v .fin := rfl

/-- `hlAfterColon` when `parseBody` took a typed branch -/
theorem ht_after_typed (b : Buf) (o n i : Nat) (hb hb2 : Option PHdrVals) (hon : o < n) (hn : n ≤ b.size)
    (hfit : b.size ≤ 65535) (S : HState) (hS : S ≠ .bodyStart) (n' : Nat) (e : Err) (V : PField)
    (hpb : parseBody b i (hdrAt (getHdrType (b.extract o n)) o n {} .bodyStart) hb =
      (n', e, { hdrAt (getHdrType (b.extract o n)) o n {} .bodyStart with state := S, val := if e == .ok then V else {} }, hb2)) :
    hlAfterColon b i (hdrAt 0 o n {} .bodyStart) hb =
      .done n' e (htHdr (getHdrType (b.extract o n)) o n S e V, hb2) := by
  unfold hlAfterColon
  have hget : PField.get? b (hdrAt 0 o n {} .bodyStart).name = some (b.extract o n) := by
    have := field_get? b o (n - o) (by omega) hfit
    show PField.get? b ⟨o, n - o⟩ = _
    rw [this]; congr 2; omega
  simp only [hget]
  have hh : ({ hdrAt 0 o n {} .bodyStart with type := getHdrType (b.extract o n) } : Hdr) =
      hdrAt (getHdrType (b.extract o n)) o n {} .bodyStart := rfl
  rw [hh, hpb]
  simp only
  have hne : (S != HState.bodyStart) = true := by simpa using hS
  rw [if_pos hne]
  unfold htHdr hdrAt
  cases e <;> rfl

/-! #### `parseBody` for the eight types -/

theorem ht_pb_from (b : Buf) (i : Nat) (h : Hdr) (hv : PHdrVals) (ht : h.type = HdrFrom)
    (hnp : hv.from_.parsed = false) {n' : Nat} {e : Err} {f : PFromBody}
    (hp : parseFromVal b i hv.from_ = (n', e, f)) :
    parseBody b i h (some hv) =
      (n', e, { h with state := .hFrom, val := if e == .ok then f.v else h.val }, some { hv with from_ := f }) := by
  unfold parseBody
  simp +decide only [ht, hnp, hp, ↓reduceIte, Bool.not_false]

theorem ht_pb_to (b : Buf) (i : Nat) (h : Hdr) (hv : PHdrVals) (ht : h.type = HdrTo)
    (hnp : hv.to.parsed = false) {n' : Nat} {e : Err} {f : PFromBody}
    (hp : parseNameAddrPVal HdrTo b i hv.to = (n', e, f)) :
    parseBody b i h (some hv) =
      (n', e, { h with state := .hTo, val := if e == .ok then f.v else h.val }, some { hv with to := f }) := by
  unfold parseBody
  simp +decide only [ht, hnp, hp, ↓reduceIte, Bool.not_false]

theorem ht_pb_callid (b : Buf) (i : Nat) (h : Hdr) (hv : PHdrVals) (ht : h.type = HdrCallID)
    (hnp : hv.callid.parsed = false) {n' : Nat} {e : Err} {f : PCallIDBody}
    (hp : parseCallIDVal b i hv.callid = (n', e, f)) :
    parseBody b i h (some hv) =
      (n', e, { h with state := .hCallID, val := if e == .ok then f.callID else h.val }, some { hv with callid := f }) := by
  unfold parseBody
  simp +decide only [ht, hnp, hp, ↓reduceIte, Bool.not_false]

theorem ht_pb_cseq (b : Buf) (i : Nat) (h : Hdr) (hv : PHdrVals) (ht : h.type = HdrCSeq)
    (hnp : hv.cseq.parsed = false) {n' : Nat} {e : Err} {f : PCSeqBody}
    (hp : parseCSeqVal b i hv.cseq = (n', e, f)) :
    parseBody b i h (some hv) =
      (n', e, { h with state := .hCSeq, val := if e == .ok then f.v else h.val }, some { hv with cseq := f }) := by
  unfold parseBody
  simp +decide only [ht, hnp, hp, ↓reduceIte, Bool.not_false]

theorem ht_pb_clen (b : Buf) (i : Nat) (h : Hdr) (hv : PHdrVals) (ht : h.type = HdrCLen)
    (hnp : hv.clen.parsed = false) {n' : Nat} {e : Err} {f : PUIntBody}
    (hp : parseCLenVal b i hv.clen = (n', e, f)) :
    parseBody b i h (some hv) =
      (n', e, { h with state := .hCLen, val := if e == .ok then f.sVal else h.val }, some { hv with clen := f }) := by
  unfold parseBody
  simp +decide only [ht, hnp, hp, ↓reduceIte, Bool.not_false]

theorem ht_pb_expires (b : Buf) (i : Nat) (h : Hdr) (hv : PHdrVals) (ht : h.type = HdrExpires)
    (hnp : hv.expires.parsed = false) {n' : Nat} {e : Err} {f : PUIntBody}
    (hp : parseUIntVal b i hv.expires = (n', e, f)) :
    parseBody b i h (some hv) =
      (n', e, { h with state := .hExpires, val := if e == .ok then f.sVal else h.val }, some { hv with expires := f }) := by
  unfold parseBody
  simp +decide only [ht, hnp, hp, ↓reduceIte, Bool.not_false]

/-- a new Contact header line: the header counter is bumped and the running extent of the line cleared -/
def PContacts.htBump (c : PContacts) : PContacts := { c with hNo := c.hNo + 1, lastHVal := {} }
def PPAIs.htBump (c : PPAIs) : PPAIs := { c with hNo := c.hNo + 1, lastHVal := {} }

theorem ht_pb_contact (b : Buf) (i : Nat) (h : Hdr) (hv : PHdrVals) (ht : h.type = HdrContact)
    (hst : h.state = .bodyStart) {n' : Nat} {e : Err} {f : PContacts}
    (hp : parseAllContactValues b i hv.contacts.htBump = (n', e, f)) :
    parseBody b i h (some hv) =
      (n', e, { h with state := .hContact, val := if e == .ok then f.lastHVal else h.val }, some { hv with contacts := f }) := by
  unfold parseBody
  unfold PContacts.htBump at hp
  simp +decide only [ht, hst, hp, ↓reduceIte]

theorem ht_pb_pai (b : Buf) (i : Nat) (h : Hdr) (hv : PHdrVals) (ht : h.type = HdrPAI)
    (hst : h.state = .bodyStart) {n' : Nat} {e : Err} {f : PPAIs}
    (hp : parseAllPAIValues b i hv.pais.htBump = (n', e, f)) :
    parseBody b i h (some hv) =
      (n', e, { h with state := .hPAI, val := if e == .ok then f.lastHVal else h.val }, some { hv with pais := f }) := by
  unfold parseBody
  unfold PPAIs.htBump at hp
  simp +decide only [ht, hst, hp, ↓reduceIte]

/-! #### (1) the typed path of ParseHdrLine, one theorem per type

  For a line `name [SP/HT] ":" <anything>` whose name classifies as one of the eight types, parsed into a new header
  object with a values object whose component for that type is not yet parsed: ParseHdrLine returns exactly what the
  value parser returns when started right after the colon (it skips the leading linear white space itself, see
  `ht_*_lead_lws` below) — same verdict, same offset; the header has the name as written, the type, the value parser's
  span as `val` and is finished when the verdict is OK (otherwise no value, and it stays in the state of that value
  parser); the values object is updated in that one component only. -/

theorem ht_line_from (b : Buf) (o n c : Nat) (hv : PHdrVals) (hfit : b.size ≤ 65535)
    (hname : NameRun b o n) (hon : o < n) (hws : WsRun b n c) (hnc : n ≤ c) (hcolon : b[c]? = some 58)
    (ht : getHdrType (b.extract o n) = HdrFrom) (hnp : hv.from_.parsed = false) {n' : Nat} {e : Err} {f : PFromBody}
    (hp : parseFromVal b (c + 1) hv.from_ = (n', e, f)) :
    parseHdrLine b o {} (some hv) = (n', e, htHdr HdrFrom o n .hFrom e f.v, some { hv with from_ := f }) := by
  have hcl := get?_lt hcolon
  have hpb := ht_pb_from b (c + 1) (hdrAt (getHdrType (b.extract o n)) o n {} .bodyStart) hv ht hnp hp
  have hafter := ht_after_typed b o n (c + 1) (some hv) _ hon (by omega) hfit .hFrom (by decide) n' e (f.v) hpb
  rw [ht] at hafter
  exact ht_prefix_done b o n c (some hv) hfit hname hon hws hnc hcolon hafter

theorem ht_line_to (b : Buf) (o n c : Nat) (hv : PHdrVals) (hfit : b.size ≤ 65535)
    (hname : NameRun b o n) (hon : o < n) (hws : WsRun b n c) (hnc : n ≤ c) (hcolon : b[c]? = some 58)
    (ht : getHdrType (b.extract o n) = HdrTo) (hnp : hv.to.parsed = false) {n' : Nat} {e : Err} {f : PFromBody}
    (hp : parseNameAddrPVal HdrTo b (c + 1) hv.to = (n', e, f)) :
    parseHdrLine b o {} (some hv) = (n', e, htHdr HdrTo o n .hTo e f.v, some { hv with to := f }) := by
  have hcl := get?_lt hcolon
  have hpb := ht_pb_to b (c + 1) (hdrAt (getHdrType (b.extract o n)) o n {} .bodyStart) hv ht hnp hp
  have hafter := ht_after_typed b o n (c + 1) (some hv) _ hon (by omega) hfit .hTo (by decide) n' e (f.v) hpb
  rw [ht] at hafter
  exact ht_prefix_done b o n c (some hv) hfit hname hon hws hnc hcolon hafter

theorem ht_line_callid (b : Buf) (o n c : Nat) (hv : PHdrVals) (hfit : b.size ≤ 65535)
    (hname : NameRun b o n) (hon : o < n) (hws : WsRun b n c) (hnc : n ≤ c) (hcolon : b[c]? = some 58)
    (ht : getHdrType (b.extract o n) = HdrCallID) (hnp : hv.callid.parsed = false) {n' : Nat} {e : Err} {f : PCallIDBody}
    (hp : parseCallIDVal b (c + 1) hv.callid = (n', e, f)) :
    parseHdrLine b o {} (some hv) = (n', e, htHdr HdrCallID o n .hCallID e f.callID, some { hv with callid := f }) := by
  have hcl := get?_lt hcolon
  have hpb := ht_pb_callid b (c + 1) (hdrAt (getHdrType (b.extract o n)) o n {} .bodyStart) hv ht hnp hp
  have hafter := ht_after_typed b o n (c + 1) (some hv) _ hon (by omega) hfit .hCallID (by decide) n' e (f.callID) hpb
  rw [ht] at hafter
  exact ht_prefix_done b o n c (some hv) hfit hname hon hws hnc hcolon hafter

theorem ht_line_cseq (b : Buf) (o n c : Nat) (hv : PHdrVals) (hfit : b.size ≤ 65535)
    (hname : NameRun b o n) (hon : o < n) (hws : WsRun b n c) (hnc : n ≤ c) (hcolon : b[c]? = some 58)
    (ht : getHdrType (b.extract o n) = HdrCSeq) (hnp : hv.cseq.parsed = false) {n' : Nat} {e : Err} {f : PCSeqBody}
    (hp : parseCSeqVal b (c + 1) hv.cseq = (n', e, f)) :
    parseHdrLine b o {} (some hv) = (n', e, htHdr HdrCSeq o n .hCSeq e f.v, some { hv with cseq := f }) := by
  have hcl := get?_lt hcolon
  have hpb := ht_pb_cseq b (c + 1) (hdrAt (getHdrType (b.extract o n)) o n {} .bodyStart) hv ht hnp hp
  have hafter := ht_after_typed b o n (c + 1) (some hv) _ hon (by omega) hfit .hCSeq (by decide) n' e (f.v) hpb
  rw [ht] at hafter
  exact ht_prefix_done b o n c (some hv) hfit hname hon hws hnc hcolon hafter

theorem ht_line_clen (b : Buf) (o n c : Nat) (hv : PHdrVals) (hfit : b.size ≤ 65535)
    (hname : NameRun b o n) (hon : o < n) (hws : WsRun b n c) (hnc : n ≤ c) (hcolon : b[c]? = some 58)
    (ht : getHdrType (b.extract o n) = HdrCLen) (hnp : hv.clen.parsed = false) {n' : Nat} {e : Err} {f : PUIntBody}
    (hp : parseCLenVal b (c + 1) hv.clen = (n', e, f)) :
    parseHdrLine b o {} (some hv) = (n', e, htHdr HdrCLen o n .hCLen e f.sVal, some { hv with clen := f }) := by
  have hcl := get?_lt hcolon
  have hpb := ht_pb_clen b (c + 1) (hdrAt (getHdrType (b.extract o n)) o n {} .bodyStart) hv ht hnp hp
  have hafter := ht_after_typed b o n (c + 1) (some hv) _ hon (by omega) hfit .hCLen (by decide) n' e (f.sVal) hpb
  rw [ht] at hafter
  exact ht_prefix_done b o n c (some hv) hfit hname hon hws hnc hcolon hafter

theorem ht_line_expires (b : Buf) (o n c : Nat) (hv : PHdrVals) (hfit : b.size ≤ 65535)
    (hname : NameRun b o n) (hon : o < n) (hws : WsRun b n c) (hnc : n ≤ c) (hcolon : b[c]? = some 58)
    (ht : getHdrType (b.extract o n) = HdrExpires) (hnp : hv.expires.parsed = false) {n' : Nat} {e : Err} {f : PUIntBody}
    (hp : parseUIntVal b (c + 1) hv.expires = (n', e, f)) :
    parseHdrLine b o {} (some hv) = (n', e, htHdr HdrExpires o n .hExpires e f.sVal, some { hv with expires := f }) := by
  have hcl := get?_lt hcolon
  have hpb := ht_pb_expires b (c + 1) (hdrAt (getHdrType (b.extract o n)) o n {} .bodyStart) hv ht hnp hp
  have hafter := ht_after_typed b o n (c + 1) (some hv) _ hon (by omega) hfit .hExpires (by decide) n' e (f.sVal) hpb
  rw [ht] at hafter
  exact ht_prefix_done b o n c (some hv) hfit hname hon hws hnc hcolon hafter

theorem ht_line_contact (b : Buf) (o n c : Nat) (hv : PHdrVals) (hfit : b.size ≤ 65535)
    (hname : NameRun b o n) (hon : o < n) (hws : WsRun b n c) (hnc : n ≤ c) (hcolon : b[c]? = some 58)
    (ht : getHdrType (b.extract o n) = HdrContact) {n' : Nat} {e : Err} {f : PContacts}
    (hp : parseAllContactValues b (c + 1) hv.contacts.htBump = (n', e, f)) :
    parseHdrLine b o {} (some hv) = (n', e, htHdr HdrContact o n .hContact e f.lastHVal, some { hv with contacts := f }) := by
  have hcl := get?_lt hcolon
  have hpb := ht_pb_contact b (c + 1) (hdrAt (getHdrType (b.extract o n)) o n {} .bodyStart) hv ht rfl hp
  have hafter := ht_after_typed b o n (c + 1) (some hv) _ hon (by omega) hfit .hContact (by decide) n' e (f.lastHVal) hpb
  rw [ht] at hafter
  exact ht_prefix_done b o n c (some hv) hfit hname hon hws hnc hcolon hafter

theorem ht_line_pai (b : Buf) (o n c : Nat) (hv : PHdrVals) (hfit : b.size ≤ 65535)
    (hname : NameRun b o n) (hon : o < n) (hws : WsRun b n c) (hnc : n ≤ c) (hcolon : b[c]? = some 58)
    (ht : getHdrType (b.extract o n) = HdrPAI) {n' : Nat} {e : Err} {f : PPAIs}
    (hp : parseAllPAIValues b (c + 1) hv.pais.htBump = (n', e, f)) :
    parseHdrLine b o {} (some hv) = (n', e, htHdr HdrPAI o n .hPAI e f.lastHVal, some { hv with pais := f }) := by
  have hcl := get?_lt hcolon
  have hpb := ht_pb_pai b (c + 1) (hdrAt (getHdrType (b.extract o n)) o n {} .bodyStart) hv ht rfl hp
  have hafter := ht_after_typed b o n (c + 1) (some hv) _ hon (by omega) hfit .hPAI (by decide) n' e (f.lastHVal) hpb
  rw [ht] at hafter
  exact ht_prefix_done b o n c (some hv) hfit hname hon hws hnc hcolon hafter

/-! ### the value parsers skip the linear white space in front of the value -/

theorem ht_lwsStd_ok {σ : Type} {b : Buf} {i n : Nat} (st : σ) (eoh : σ → Nat → Nat → Nat → Nat × Err × σ)
    (mb : σ → σ) (hs : skipLWS b i 0 = (n, 0, .ok)) : lwsStd b i st eoh mb = .cont n st := by
  unfold lwsStd; rw [hs]

theorem ht_lwsStd_eoh {σ : Type} {b : Buf} {i p crl : Nat} (st : σ) (eoh : σ → Nat → Nat → Nat → Nat × Err × σ)
    (mb : σ → σ) (hs : skipLWS b i 0 = (p, crl, .eoh)) :
    lwsStd b i st eoh mb = .done (eoh st i p crl).1 (eoh st i p crl).2.1 (eoh st i p crl).2.2 := by
  unfold lwsStd; rw [hs]

/-- generic: a machine whose step on a white-space byte in state `st` is the standard white-space site skips the
    linear white space in front of a byte that is not white space -/
theorem ht_skip_lws {σ : Type} (m : Machine σ) (b : Buf) (st : σ) (eoh : σ → Nat → Nat → Nat → Nat × Err × σ)
    (mb : σ → σ) {w n : Nat} (hl : Lws b w n) {c : UInt8} (hn : b[n]? = some c) (hc : isLWSch c = false)
    (hstep : ∀ c', isLWSch c' = true → m.step b w c' st = lwsStd b w st eoh mb) :
    runLoop m b w st = runLoop m b n st := by
  have hle := hl.le
  by_cases h1 : w < n
  · obtain ⟨c0, hc0, hl0⟩ := hl.first h1
    have hs : m.step b w c0 st = .cont n st := by
      rw [hstep c0 hl0]; exact ht_lwsStd_ok st eoh mb (skipLWS_of_lws hl hn hc)
    exact (runLoop_cont m hc0 hs).trans (if_pos h1)
  · have : w = n := by omega
    rw [this]

theorem ht_na_lead_lws (h : Nat) (b : Buf) {o0 o : Nat} (hl : Lws b o0 o) {c : UInt8} (hc : b[o]? = some c)
    (hcl : isLWSch c = false) (pf : PFromBody) (hst : pf.state = .init) :
    parseNameAddrPVal h b o0 pf = parseNameAddrPVal h b o pf := by
  have hrun : runLoop (naMachine h) b o0 { pf with s := pf.soffs, soffs := 0 } =
      runLoop (naMachine h) b o { pf with s := pf.soffs, soffs := 0 } :=
    na_skip_lws h b _ hl hc hcl (fun c' hc' => stepA_init_lws h b o0 c' _ hst hc')
  unfold parseNameAddrPVal
  have hnf : ¬ pf.state = .fin := by rw [hst]; decide
  rw [if_neg hnf, if_neg hnf]
  simp only [hrun]

theorem ht_ci_lead_lws (b : Buf) {o0 o : Nat} (hl : Lws b o0 o) {c : UInt8} (hc : b[o]? = some c)
    (hcl : isLWSch c = false) (st : PCallIDBody) (hst : st.state = .init) :
    parseCallIDVal b o0 st = parseCallIDVal b o st := by
  unfold parseCallIDVal
  have hnf : ¬ st.state = .fin := by rw [hst]; decide
  rw [if_neg hnf, if_neg hnf]
  exact ht_skip_lws ciMachine b st ciEOH id hl hc hcl (fun c' hc' => ciStep_lws b o0 c' st hc' (Or.inl hst))

theorem ht_clStep_lws (b : Buf) (j : Nat) (c : UInt8) (st : PUIntBody) (hl : isLWSch c = true)
    (hs : st.state = .init ∨ st.state = .fend) : clStep b j c st = lwsStd b j st clEOH id := by
  unfold clStep; rw [if_pos hl]
  rcases hs with h | h <;> rw [h]

theorem ht_ui_lead_lws (b : Buf) {o0 o : Nat} (hl : Lws b o0 o) {c : UInt8} (hc : b[o]? = some c)
    (hcl : isLWSch c = false) (st : PUIntBody) (hst : st.state = .init) :
    parseUIntVal b o0 st = parseUIntVal b o st := by
  unfold parseUIntVal
  have hnf : ¬ st.state = .fin := by rw [hst]; decide
  rw [if_neg hnf, if_neg hnf]
  exact ht_skip_lws clMachine b st clEOH id hl hc hcl (fun c' hc' => ht_clStep_lws b o0 c' st hc' (Or.inl hst))

theorem ht_clen_lead_lws (b : Buf) {o0 o : Nat} (hl : Lws b o0 o) {c : UInt8} (hc : b[o]? = some c)
    (hcl : isLWSch c = false) (st : PUIntBody) (hst : st.state = .init) :
    parseCLenVal b o0 st = parseCLenVal b o st := by
  unfold parseCLenVal
  rw [ht_ui_lead_lws b hl hc hcl st hst]

theorem ht_csStep_lws (b : Buf) (j : Nat) (c : UInt8) (st : PCSeqBody) (hl : isLWSch c = true)
    (hs : st.state = .init ∨ st.state = .endDigit ∨ st.state = .fend) :
    csStep b j c st = lwsStd b j st (csEOH b) id := by
  unfold csStep; rw [if_pos hl]
  rcases hs with h | h | h <;> rw [h]

theorem ht_cs_lead_lws (b : Buf) {o0 o : Nat} (hl : Lws b o0 o) {c : UInt8} (hc : b[o]? = some c)
    (hcl : isLWSch c = false) (st : PCSeqBody) (hst : st.state = .init) :
    parseCSeqVal b o0 st = parseCSeqVal b o st := by
  unfold parseCSeqVal
  have hnf : ¬ st.state = .fin := by rw [hst]; decide
  rw [if_neg hnf, if_neg hnf]
  exact ht_skip_lws csMachine b st (csEOH b) id hl hc hcl (fun c' hc' => ht_csStep_lws b o0 c' st hc' (Or.inl hst))


/-! #### (1), phrased at the first byte of the value

  The same with the value parser started at the first value byte `v` (after the linear white space that follows the
  colon), for a component that is still in its initial state. -/

theorem ht_line_from_at (b : Buf) (o n c v : Nat) (hv : PHdrVals) (hfit : b.size ≤ 65535)
    (hname : NameRun b o n) (hon : o < n) (hws : WsRun b n c) (hnc : n ≤ c) (hcolon : b[c]? = some 58)
    (ht : getHdrType (b.extract o n) = HdrFrom) (hl : Lws b (c + 1) v) {cv : UInt8} (hv0 : b[v]? = some cv)
    (hcv : isLWSch cv = false) (hst : hv.from_.state = .init) {n' : Nat} {e : Err} {f : PFromBody}
    (hp : parseFromVal b v hv.from_ = (n', e, f)) :
    parseHdrLine b o {} (some hv) = (n', e, htHdr HdrFrom o n .hFrom e f.v, some { hv with from_ := f }) := by
  have hp' : parseFromVal b (c + 1) hv.from_ = (n', e, f) := by
    rw [← hp]; exact ht_na_lead_lws HdrFrom b hl hv0 hcv _ hst
  exact ht_line_from b o n c hv hfit hname hon hws hnc hcolon ht (by unfold PFromBody.parsed; rw [hst]; rfl) hp'

theorem ht_line_to_at (b : Buf) (o n c v : Nat) (hv : PHdrVals) (hfit : b.size ≤ 65535)
    (hname : NameRun b o n) (hon : o < n) (hws : WsRun b n c) (hnc : n ≤ c) (hcolon : b[c]? = some 58)
    (ht : getHdrType (b.extract o n) = HdrTo) (hl : Lws b (c + 1) v) {cv : UInt8} (hv0 : b[v]? = some cv)
    (hcv : isLWSch cv = false) (hst : hv.to.state = .init) {n' : Nat} {e : Err} {f : PFromBody}
    (hp : parseNameAddrPVal HdrTo b v hv.to = (n', e, f)) :
    parseHdrLine b o {} (some hv) = (n', e, htHdr HdrTo o n .hTo e f.v, some { hv with to := f }) := by
  have hp' : parseNameAddrPVal HdrTo b (c + 1) hv.to = (n', e, f) := by
    rw [← hp]; exact ht_na_lead_lws HdrTo b hl hv0 hcv _ hst
  exact ht_line_to b o n c hv hfit hname hon hws hnc hcolon ht (by unfold PFromBody.parsed; rw [hst]; rfl) hp'

theorem ht_line_callid_at (b : Buf) (o n c v : Nat) (hv : PHdrVals) (hfit : b.size ≤ 65535)
    (hname : NameRun b o n) (hon : o < n) (hws : WsRun b n c) (hnc : n ≤ c) (hcolon : b[c]? = some 58)
    (ht : getHdrType (b.extract o n) = HdrCallID) (hl : Lws b (c + 1) v) {cv : UInt8} (hv0 : b[v]? = some cv)
    (hcv : isLWSch cv = false) (hst : hv.callid.state = .init) {n' : Nat} {e : Err} {f : PCallIDBody}
    (hp : parseCallIDVal b v hv.callid = (n', e, f)) :
    parseHdrLine b o {} (some hv) = (n', e, htHdr HdrCallID o n .hCallID e f.callID, some { hv with callid := f }) := by
  have hp' : parseCallIDVal b (c + 1) hv.callid = (n', e, f) := by
    rw [← hp]; exact ht_ci_lead_lws b hl hv0 hcv _ hst
  exact ht_line_callid b o n c hv hfit hname hon hws hnc hcolon ht (by unfold PCallIDBody.parsed; rw [hst]; rfl) hp'

theorem ht_line_cseq_at (b : Buf) (o n c v : Nat) (hv : PHdrVals) (hfit : b.size ≤ 65535)
    (hname : NameRun b o n) (hon : o < n) (hws : WsRun b n c) (hnc : n ≤ c) (hcolon : b[c]? = some 58)
    (ht : getHdrType (b.extract o n) = HdrCSeq) (hl : Lws b (c + 1) v) {cv : UInt8} (hv0 : b[v]? = some cv)
    (hcv : isLWSch cv = false) (hst : hv.cseq.state = .init) {n' : Nat} {e : Err} {f : PCSeqBody}
    (hp : parseCSeqVal b v hv.cseq = (n', e, f)) :
    parseHdrLine b o {} (some hv) = (n', e, htHdr HdrCSeq o n .hCSeq e f.v, some { hv with cseq := f }) := by
  have hp' : parseCSeqVal b (c + 1) hv.cseq = (n', e, f) := by
    rw [← hp]; exact ht_cs_lead_lws b hl hv0 hcv _ hst
  exact ht_line_cseq b o n c hv hfit hname hon hws hnc hcolon ht (by unfold PCSeqBody.parsed; rw [hst]; rfl) hp'

theorem ht_line_clen_at (b : Buf) (o n c v : Nat) (hv : PHdrVals) (hfit : b.size ≤ 65535)
    (hname : NameRun b o n) (hon : o < n) (hws : WsRun b n c) (hnc : n ≤ c) (hcolon : b[c]? = some 58)
    (ht : getHdrType (b.extract o n) = HdrCLen) (hl : Lws b (c + 1) v) {cv : UInt8} (hv0 : b[v]? = some cv)
    (hcv : isLWSch cv = false) (hst : hv.clen.state = .init) {n' : Nat} {e : Err} {f : PUIntBody}
    (hp : parseCLenVal b v hv.clen = (n', e, f)) :
    parseHdrLine b o {} (some hv) = (n', e, htHdr HdrCLen o n .hCLen e f.sVal, some { hv with clen := f }) := by
  have hp' : parseCLenVal b (c + 1) hv.clen = (n', e, f) := by
    rw [← hp]; exact ht_clen_lead_lws b hl hv0 hcv _ hst
  exact ht_line_clen b o n c hv hfit hname hon hws hnc hcolon ht (by unfold PUIntBody.parsed; rw [hst]; rfl) hp'

theorem ht_line_expires_at (b : Buf) (o n c v : Nat) (hv : PHdrVals) (hfit : b.size ≤ 65535)
    (hname : NameRun b o n) (hon : o < n) (hws : WsRun b n c) (hnc : n ≤ c) (hcolon : b[c]? = some 58)
    (ht : getHdrType (b.extract o n) = HdrExpires) (hl : Lws b (c + 1) v) {cv : UInt8} (hv0 : b[v]? = some cv)
    (hcv : isLWSch cv = false) (hst : hv.expires.state = .init) {n' : Nat} {e : Err} {f : PUIntBody}
    (hp : parseUIntVal b v hv.expires = (n', e, f)) :
    parseHdrLine b o {} (some hv) = (n', e, htHdr HdrExpires o n .hExpires e f.sVal, some { hv with expires := f }) := by
  have hp' : parseUIntVal b (c + 1) hv.expires = (n', e, f) := by
    rw [← hp]; exact ht_ui_lead_lws b hl hv0 hcv _ hst
  exact ht_line_expires b o n c hv hfit hname hon hws hnc hcolon ht (by unfold PUIntBody.parsed; rw [hst]; rfl) hp'

/-! ### (2) From / To: the value is a name-addr value of the C09 grammar -/

/-- where the reported value span of a name-addr value lies: from the first byte after the leading white space (`s`,
    not a white-space byte) to the byte `w` at which the end of the value (`Term`: optional white space, then the line
    end or the comma) begins -/
theorem ht_navalue_v {h : Nat} {b : Buf} {o0 o' : Nat} {e' : Err} {r : PFromBody} (H : NAValue h b o0 o' e' r) :
    ∃ s w, r.v = ⟨s, w - s⟩ ∧ Lws b o0 s ∧ s < w ∧ Term h b w o' e' ∧ r.state = .fin := by
  rcases H with ⟨o, a, g, nm, hl, hp, hu, hag, hg, T, rfl⟩ |
    ⟨o, a, g, m, w, nm, L, hl, hp, hu, hag, hg, hl2, hm, hL, T, rfl⟩ |
    ⟨o, t, c, hl, hc, h1, hr, hot, T, rfl⟩ | ⟨o, t, m, w, c, L, hl, hc, h1, hr, hot, hl2, hm, hL, T, rfl⟩
  · exact ⟨o, g + 1, rfl, hl, by have := hp.le; omega, T, rfl⟩
  · exact ⟨o, w, rfl, hl, by have := hp.le; have := hl2.le; have := hL.bounds; omega, T, rfl⟩
  · exact ⟨o, t, rfl, hl, by omega, T, rfl⟩
  · exact ⟨o, w, rfl, hl, by have := hl2.le; have := hL.bounds; omega, T, rfl⟩

/-- **From**: name, colon, a name-addr value of the C09 grammar (leading linear white space included) ending with
    the line end; new From object. The header's value is the value span of the name-addr value. -/
theorem ht_from_value (b : Buf) (o n c o' : Nat) (r : PFromBody) (hv : PHdrVals) (hfit : b.size ≤ 65535)
    (hname : NameRun b o n) (hon : o < n) (hws : WsRun b n c) (hnc : n ≤ c) (hcolon : b[c]? = some 58)
    (ht : getHdrType (b.extract o n) = HdrFrom) (hnew : hv.from_ = {})
    (H : NAValue HdrFrom b (c + 1) o' .ok r) :
    parseHdrLine b o {} (some hv) = (o', .ok, hdrAt HdrFrom o n r.v .fin, some { hv with from_ := r }) := by
  have hp : parseFromVal b (c + 1) hv.from_ = (o', .ok, r) := by rw [hnew]; exact H.parse hfit
  exact ht_line_from b o n c hv hfit hname hon hws hnc hcolon ht (by rw [hnew]; rfl) hp

/-- **To** -/
theorem ht_to_value (b : Buf) (o n c o' : Nat) (r : PFromBody) (hv : PHdrVals) (hfit : b.size ≤ 65535)
    (hname : NameRun b o n) (hon : o < n) (hws : WsRun b n c) (hnc : n ≤ c) (hcolon : b[c]? = some 58)
    (ht : getHdrType (b.extract o n) = HdrTo) (hnew : hv.to = {})
    (H : NAValue HdrTo b (c + 1) o' .ok r) :
    parseHdrLine b o {} (some hv) = (o', .ok, hdrAt HdrTo o n r.v .fin, some { hv with to := r }) := by
  have hp : parseNameAddrPVal HdrTo b (c + 1) hv.to = (o', .ok, r) := by rw [hnew]; exact H.parse hfit
  exact ht_line_to b o n c hv hfit hname hon hws hnc hcolon ht (by rw [hnew]; rfl) hp

/-! ### (2) Contact / P-Asserted-Identity: one header line -/

/-- the running extent of a line after one more value -/
def htLhvStep (l : PField) (r : PFromBody) : PField := if l.isEmpty then r.v else l.extend r.v.endT

/-- the extent of a list of values: from the start of the first value to the end of the last one -/
def htSpan (rs : List PFromBody) : PField :=
  match rs.head?, rs.getLast? with
  | some f, some l => ⟨f.v.offs, l.v.offs + l.v.len - f.v.offs⟩
  | _, _ => {}

theorem ht_next_scalars (c : PContacts) (r : PFromBody) :
    (c.next r).hNo = ((c.setCur r).account r).hNo ∧ (c.next r).lastHVal = ((c.setCur r).account r).lastHVal := by
  unfold PContacts.next; split <;> exact ⟨rfl, rfl⟩

theorem ht_step_lhv (c : PContacts) (r : PFromBody) :
    ((c.setCur r).account r).lastHVal = htLhvStep c.lastHVal r := by
  rw [account_lhv, (setCur_scalars c r).2.2.2.1]; rfl

theorem ht_ctAcceptAll_lhv (c : PContacts) (rs : List PFromBody) :
    (c.acceptAll rs).lastHVal = rs.foldl htLhvStep c.lastHVal := by
  induction rs generalizing c with
  | nil => rfl
  | cons r rs ih =>
    cases rs with
    | nil => show ((c.setCur r).account r).lastHVal = _; rw [ht_step_lhv]; rfl
    | cons r2 rs' => rw [acceptAll_cons2, ih, (ht_next_scalars c r).2, ht_step_lhv]; rfl

theorem ht_ctAcceptAll_hNo (c : PContacts) (rs : List PFromBody) : (c.acceptAll rs).hNo = c.hNo := by
  induction rs generalizing c with
  | nil => rfl
  | cons r rs ih =>
    cases rs with
    | nil => show ((c.setCur r).account r).hNo = _; rw [account_hNo, (setCur_scalars c r).1]
    | cons r2 rs' => rw [acceptAll_cons2, ih, (ht_next_scalars c r).1, account_hNo, (setCur_scalars c r).1]

theorem ht_lhvStep_ext (s0 w0 s w : Nat) (r : PFromBody) (hr : r.v = ⟨s, w - s⟩) (h0 : s0 < w0) (h1 : w0 ≤ s)
    (h2 : s < w) (h3 : w ≤ 65535) : htLhvStep ⟨s0, w0 - s0⟩ r = ⟨s0, w - s0⟩ := by
  unfold htLhvStep
  have hne : (({ offs := s0, len := w0 - s0 } : PField).isEmpty) = false := by
    unfold PField.isEmpty; simp; omega
  rw [hne]
  simp only [Bool.false_eq_true, ↓reduceIte]
  have hend : r.v.endT = w := by
    rw [hr]; unfold PField.endT; simp only
    rw [trunc16_id (by omega)]; omega
  rw [hend]
  exact extend_eq ⟨s0, w0 - s0⟩ w (by show s0 ≤ w; omega) h3

/-- the running extent over the values of a list, starting from a non-empty extent that ends before the list -/
theorem ht_lhv_fold {h : Nat} {b : Buf} {o o' : Nat} {rs : List PFromBody} (H : ValList h b o rs o')
    (hfit : b.size ≤ 65535) :
    ∀ s0 w0, s0 < w0 → w0 ≤ o →
      ∃ l, rs.getLast? = some l ∧ rs.foldl htLhvStep ⟨s0, w0 - s0⟩ = ⟨s0, l.v.offs + l.v.len - s0⟩ := by
  induction H with
  | last o o' r hv =>
    intro s0 w0 h0 h1
    obtain ⟨s, w, hr, hl, hsw, T, _⟩ := ht_navalue_v hv
    have := hl.le; have := T.range
    refine ⟨r, rfl, ?_⟩
    show htLhvStep ⟨s0, w0 - s0⟩ r = _
    rw [ht_lhvStep_ext s0 w0 s w r hr h0 (by omega) hsw (by omega), hr]
    show (⟨s0, w - s0⟩ : PField) = ⟨s0, s + (w - s) - s0⟩
    congr 1; omega
  | cons o o1 o' r rs hv hrest ih =>
    intro s0 w0 h0 h1
    obtain ⟨s, w, hr, hl, hsw, T, _⟩ := ht_navalue_v hv
    have := hl.le; have := T.range
    obtain ⟨l, hl1, hl2⟩ := ih s0 w (by omega) (by omega)
    refine ⟨l, ?_, ?_⟩
    · cases rs with
      | nil => exact absurd rfl hrest.ne_nil
      | cons r2 rs' => simpa using hl1
    · show rs.foldl htLhvStep (htLhvStep ⟨s0, w0 - s0⟩ r) = _
      rw [ht_lhvStep_ext s0 w0 s w r hr h0 (by omega) hsw (by omega), hl2]

/-- the last value of a list: its span, and the end of the line after it -/
theorem ht_vallist_last {h : Nat} {b : Buf} {o o' : Nat} {rs : List PFromBody} (H : ValList h b o rs o') :
    ∃ l sl wl, rs.getLast? = some l ∧ l.v = ⟨sl, wl - sl⟩ ∧ o ≤ sl ∧ sl < wl ∧ Term h b wl o' .ok := by
  induction H with
  | last o2 o3 r3 hv3 =>
    obtain ⟨s3, w3, hr3, hl3, hsw3, T3, _⟩ := ht_navalue_v hv3
    exact ⟨r3, s3, w3, rfl, hr3, hl3.le, hsw3, T3⟩
  | cons o2 o3 o4 r3 rs3 hv3 hrest3 ih3 =>
    have hr3 := hv3.range
    obtain ⟨l, sl, wl, h0, h1, h2, h3, h4⟩ := ih3
    refine ⟨l, sl, wl, ?_, h1, by omega, h3, h4⟩
    cases rs3 with
    | nil => exact absurd rfl hrest3.ne_nil
    | cons r4 rs4 => simpa using h0

/-- **the running extent of a header line**: starting from the cleared extent, after the values of the line it spans
    from the start of the first value to the end of the last value; the span begins after the leading white space, is
    not empty and ends where the end of the last value (`Term`: optional white space and the line end) begins -/
theorem ht_lhv_line {h : Nat} {b : Buf} {o o' : Nat} {rs : List PFromBody} (H : ValList h b o rs o')
    (hfit : b.size ≤ 65535) :
    rs.foldl htLhvStep {} = htSpan rs ∧
    ∃ s w, htSpan rs = ⟨s, w - s⟩ ∧ Lws b o s ∧ s < w ∧ Term h b w o' .ok := by
  cases H with
  | last _ _ r hv =>
    obtain ⟨s, w, hr, hl, hsw, T, _⟩ := ht_navalue_v hv
    have e1 : [r].foldl htLhvStep {} = r.v := rfl
    have e2 : htSpan [r] = ⟨s, w - s⟩ := by
      show (⟨r.v.offs, r.v.offs + r.v.len - r.v.offs⟩ : PField) = _
      rw [hr]; show (⟨s, s + (w - s) - s⟩ : PField) = _
      congr 1; omega
    exact ⟨by rw [e1, e2, hr], s, w, e2, hl, hsw, T⟩
  | cons _ o1 _ r rs' hv hrest =>
    obtain ⟨s, w, hr, hl, hsw, T, _⟩ := ht_navalue_v hv
    have := hl.le; have := T.range
    obtain ⟨l, hl1, hl2⟩ := ht_lhv_fold hrest hfit s w hsw (by omega)
    have hfold : (r :: rs').foldl htLhvStep {} = ⟨s, l.v.offs + l.v.len - s⟩ := by
      show rs'.foldl htLhvStep (htLhvStep {} r) = _
      have : htLhvStep {} r = ⟨s, w - s⟩ := by rw [← hr]; rfl
      rw [this, hl2]
    have hlast : (r :: rs').getLast? = some l := by
      cases rs' with
      | nil => exact absurd rfl hrest.ne_nil
      | cons r2 rs'' => simpa using hl1
    have hspan : htSpan (r :: rs') = ⟨s, l.v.offs + l.v.len - s⟩ := by
      unfold htSpan
      rw [hlast]
      show (⟨r.v.offs, l.v.offs + l.v.len - r.v.offs⟩ : PField) = _
      rw [hr]
    obtain ⟨l', sl, wl, hl1', hlv, hosl, hslwl, Tl⟩ := ht_vallist_last hrest
    have : l = l' := by rw [hl1] at hl1'; exact Option.some.inj hl1'
    subst this
    have hend : l.v.offs + l.v.len = wl := by rw [hlv]; show sl + (wl - sl) = wl; omega
    refine ⟨by rw [hfold, hspan], s, wl, by rw [hspan, hend], hl, by omega, Tl⟩

/-- the wrapper's normalisation of the scratch slot commutes with the per-line bump -/
theorem ht_bump_wrap (c : PContacts) : c.htBump.wrap = c.wrap.htBump := by
  unfold PContacts.htBump PContacts.wrap; split <;> rfl

/-- the contacts object between two header lines: after the wrapper's normalisation the unused slots are clear -/
def HtCtReady (c : PContacts) : Prop := CtClean c.wrap ∧ c.wrap.cur = {}

/-- what one Contact header line with the values `rs` does to the contacts object -/
def PContacts.htLine (c : PContacts) (rs : List PFromBody) : PContacts := c.htBump.wrap.acceptAll rs

theorem ht_ready_new (k : Nat) : HtCtReady ({ vals := Array.replicate k {} } : PContacts) := by
  have hw : (({ vals := Array.replicate k {} } : PContacts)).wrap = { vals := Array.replicate k {} } := by
    unfold PContacts.wrap; simp [PFromBody.parsed]
  unfold HtCtReady; rw [hw]; exact ct_new_ok k

theorem ht_parseAllContacts (b : Buf) (hfit : b.size ≤ 65535) {o o' : Nat} {rs : List PFromBody}
    (H : ValList HdrContact b o rs o') (c : PContacts) (hr : HtCtReady c) :
    parseAllContactValues b o c.htBump = (o', .ok, c.htLine rs) := by
  rw [parseAllContactValues_eq_wrap]
  unfold PContacts.htLine
  rw [ht_bump_wrap]
  exact contactsLoop_list b hfit H c.wrap.htBump hr.1 hr.2

/-- **Contact**: name, colon, a comma-separated list of name-addr values of the C09 grammar ending with the line end.
    The header's value runs from the start of the first value to the end of the last one (`htSpan`, see
    `ht_lhv_line`); the contacts object is `htLine` of the old one: header counter bumped, values accepted in order. -/
theorem ht_contact_values (b : Buf) (o n c o' : Nat) (rs : List PFromBody) (hv : PHdrVals) (hfit : b.size ≤ 65535)
    (hname : NameRun b o n) (hon : o < n) (hws : WsRun b n c) (hnc : n ≤ c) (hcolon : b[c]? = some 58)
    (ht : getHdrType (b.extract o n) = HdrContact) (hr : HtCtReady hv.contacts)
    (H : ValList HdrContact b (c + 1) rs o') :
    parseHdrLine b o {} (some hv) =
      (o', .ok, hdrAt HdrContact o n (htSpan rs) .fin, some { hv with contacts := hv.contacts.htLine rs }) := by
  have hp := ht_parseAllContacts b hfit H hv.contacts hr
  have := ht_line_contact b o n c hv hfit hname hon hws hnc hcolon ht hp
  rw [this, htHdr_ok]
  have hl : (hv.contacts.htLine rs).lastHVal = htSpan rs := by
    unfold PContacts.htLine
    rw [ht_ctAcceptAll_lhv, ht_bump_wrap]
    exact (ht_lhv_line H hfit).1
  rw [hl]

/-! #### P-Asserted-Identity -/

theorem ht_paStep_lhv (c : PPAIs) (r : PFromBody) :
    ((c.setCur r).account r).lastHVal = htLhvStep c.lastHVal r := by
  rw [paAccount_lhv, (paSetCur_scalars c r).2.1]; rfl

theorem ht_paAcceptAll_lhv (c : PPAIs) (rs : List PFromBody) :
    (c.acceptAll rs).lastHVal = rs.foldl htLhvStep c.lastHVal := by
  induction rs generalizing c with
  | nil => rfl
  | cons r rs ih =>
    cases rs with
    | nil => show ((c.setCur r).account r).lastHVal = _; rw [ht_paStep_lhv]; rfl
    | cons r2 rs' =>
      show ((c.next r).acceptAll (r2 :: rs')).lastHVal = _
      rw [ih, (paNext_scalars c r).2.1, ht_paStep_lhv]; rfl

theorem ht_paAcceptAll_hNo (c : PPAIs) (rs : List PFromBody) : (c.acceptAll rs).hNo = c.hNo := by
  induction rs generalizing c with
  | nil => rfl
  | cons r rs ih =>
    cases rs with
    | nil => show ((c.setCur r).account r).hNo = _; rw [paAccount_hNo, (paSetCur_scalars c r).1]
    | cons r2 rs' =>
      show ((c.next r).acceptAll (r2 :: rs')).hNo = _
      rw [ih, (paNext_scalars c r).1, paAccount_hNo, (paSetCur_scalars c r).1]

theorem ht_paBump_wrap (c : PPAIs) : c.htBump.wrap = c.wrap.htBump := by
  unfold PPAIs.htBump PPAIs.wrap; split <;> rfl

def HtPaReady (c : PPAIs) : Prop := PaClean c.wrap ∧ c.wrap.cur = {}

/-- what one P-Asserted-Identity header line with the values `rs` does to the object -/
def PPAIs.htLine (c : PPAIs) (rs : List PFromBody) : PPAIs := c.htBump.wrap.acceptAll rs

theorem ht_paReady_new : HtPaReady ({} : PPAIs) := by
  have hw : (({} : PPAIs)).wrap = {} := by unfold PPAIs.wrap; simp [PFromBody.parsed]
  unfold HtPaReady; rw [hw]; exact pa_new_ok

theorem ht_parseAllPAIs (b : Buf) (hfit : b.size ≤ 65535) {o o' : Nat} {rs : List PFromBody}
    (H : ValList HdrPAI b o rs o') (c : PPAIs) (hr : HtPaReady c) :
    parseAllPAIValues b o c.htBump = (o', .ok, c.htLine rs) := by
  rw [parseAllPAIValues_eq_wrap]
  unfold PPAIs.htLine
  rw [ht_paBump_wrap]
  exact paisLoop_list b hfit H c.wrap.htBump hr.1 hr.2

/-- **P-Asserted-Identity**: as `ht_contact_values` -/
theorem ht_pai_values (b : Buf) (o n c o' : Nat) (rs : List PFromBody) (hv : PHdrVals) (hfit : b.size ≤ 65535)
    (hname : NameRun b o n) (hon : o < n) (hws : WsRun b n c) (hnc : n ≤ c) (hcolon : b[c]? = some 58)
    (ht : getHdrType (b.extract o n) = HdrPAI) (hr : HtPaReady hv.pais)
    (H : ValList HdrPAI b (c + 1) rs o') :
    parseHdrLine b o {} (some hv) =
      (o', .ok, hdrAt HdrPAI o n (htSpan rs) .fin, some { hv with pais := hv.pais.htLine rs }) := by
  have hp := ht_parseAllPAIs b hfit H hv.pais hr
  have := ht_line_pai b o n c hv hfit hname hon hws hnc hcolon ht hp
  rw [this, htHdr_ok]
  have hl : (hv.pais.htLine rs).lastHVal = htSpan rs := by
    unfold PPAIs.htLine
    rw [ht_paAcceptAll_lhv, ht_paBump_wrap]
    exact (ht_lhv_line H hfit).1
  rw [hl]

/-! ### (2) Call-ID: the value is one run of non-white-space bytes -/

theorem ht_tokenrun_run {b : Buf} {i j : Nat} (h : TokenRun b i j) : Run (fun c => !isLWSch c) b i j := by
  intro k h1 h2
  obtain ⟨c, hc, hl⟩ := h k h1 h2
  exact ⟨c, hc, by simp [hl]⟩

/-- **ParseCallIDVal on a well-formed value**: optional linear white space, one run `[v, j)` of bytes other than
    SP / HT / CR / LF, optional linear white space, the line end (not followed by SP / HT): verdict OK, offset after
    the line end, the reported Call-ID is exactly the run -/
theorem ht_callid_run (b : Buf) (i0 v j p e : Nat) (hfit : b.size ≤ 65535) (hl : Lws b i0 v) (ht : TokenRun b v j)
    (hvj : v < j) (hl2 : Lws b j p) (he : Eol b p e) {c2 : UInt8} (h2 : b[e]? = some c2) (hw2 : isWS c2 = false) :
    parseCallIDVal b i0 {} = (e, .ok, { callID := ⟨v, j - v⟩, state := .fin }) := by
  obtain ⟨cv, hv, hcvl⟩ := ht v (Nat.le_refl _) hvj
  obtain ⟨cj, hj, hcjl⟩ := lws_eol_first hl2 he
  have hjl := get?_lt hj
  have hgt := he.gt
  have hpe := hl2.le
  rw [ht_ci_lead_lws b hl hv hcvl {} rfl]
  unfold parseCallIDVal
  rw [if_neg (by decide)]
  have hs1 : ciStep b v cv {} = .cont (v + 1) { state := .found, soffs := v } := by
    unfold ciStep; simp only [hcvl, Bool.false_eq_true, ↓reduceIte]
  rw [runLoop_cont ciMachine hv (by exact hs1), if_pos (by omega)]
  have hrun : runLoop ciMachine b (v + 1) ({ state := .found, soffs := v } : PCallIDBody) =
      runLoop ciMachine b j { state := .found, soffs := v } := by
    refine runLoop_run ciMachine b (fun c => !isLWSch c) _ (fun k c _ hc => ?_) (v + 1) j (by omega)
      (ht_tokenrun_run (fun k h1 h2 => ht k (by omega) h2))
    have hc' : isLWSch c = false := by simpa using hc
    show ciStep b k c ({ state := .found, soffs := v } : PCallIDBody) = _
    unfold ciStep; simp only [hc', Bool.false_eq_true, ↓reduceIte]
  rw [hrun]
  refine runLoop_done ciMachine hj ?_
  show ciStep b j cj ({ state := .found, soffs := v } : PCallIDBody) = _
  unfold ciStep
  simp only [hcjl, ↓reduceIte]
  rw [ht_lwsStd_eoh _ ciEOH id (skipLWS_of_lws_eol hl2 he h2 hw2)]
  unfold ciEOH ciSetCallID
  simp only [set_eq v j (by omega) (by omega), setPanics_false v j (by omega), Bool.or_false]
  have : p + (e - p) = e := by omega
  rw [this]

/-- **Call-ID**: name, colon, a Call-ID value; new Call-ID object. The header's value is the run `[v, j)`. -/
theorem ht_callid_value (b : Buf) (o n c v j p e : Nat) (hv : PHdrVals) (hfit : b.size ≤ 65535)
    (hname : NameRun b o n) (hon : o < n) (hws : WsRun b n c) (hnc : n ≤ c) (hcolon : b[c]? = some 58)
    (ht : getHdrType (b.extract o n) = HdrCallID) (hnew : hv.callid = {})
    (hl : Lws b (c + 1) v) (htok : TokenRun b v j) (hvj : v < j) (hl2 : Lws b j p) (he : Eol b p e) {c2 : UInt8}
    (h2 : b[e]? = some c2) (hw2 : isWS c2 = false) :
    parseHdrLine b o {} (some hv) =
      (e, .ok, hdrAt HdrCallID o n ⟨v, j - v⟩ .fin,
        some { hv with callid := { callID := ⟨v, j - v⟩, state := .fin } }) := by
  have hp : parseCallIDVal b (c + 1) hv.callid = (e, .ok, { callID := ⟨v, j - v⟩, state := .fin }) := by
    rw [hnew]; exact ht_callid_run b (c + 1) v j p e hfit hl htok hvj hl2 he h2 hw2
  exact ht_line_callid b o n c hv hfit hname hon hws hnc hcolon ht (by rw [hnew]; rfl) hp

/-! ### (2) Expires / Content-Length: the value is a string of digits -/

theorem ht_digit_not_lws {c : UInt8} (hc : isDigit c = true) : isLWSch c = false := by
  simp only [isDigit, Bool.and_eq_true, decide_eq_true_eq] at hc
  simp only [isLWSch, Bool.or_eq_false_iff, beq_eq_false_iff_ne, ne_eq]
  have h1 := hc.1; have h2 := hc.2
  rw [UInt8.le_iff_toNat_le] at h1 h2
  refine ⟨⟨⟨?_, ?_⟩, ?_⟩, ?_⟩ <;> (intro h; rw [h] at h1 h2; simp at h1 h2)

/-- the decimal value of a prefix of a digit string does not exceed the value of the whole string -/
theorem ht_dec_mono (b : Buf) (v k : Nat) (hvk : v ≤ k) :
    ∀ d, k + d ≤ b.size → decOf (digitsOf b v k) ≤ decOf (digitsOf b v (k + d)) := by
  intro d
  induction d with
  | zero => intro _; exact Nat.le_refl _
  | succ d ih =>
    intro hd
    have hlt : k + d < b.size := by omega
    have hb : b[k + d]? = some b[k + d] := Array.getElem?_eq_getElem hlt
    have : k + (d + 1) = k + d + 1 := by omega
    have key : ∀ (l : List UInt8) (c : UInt8), decOf (l ++ [c]) = decOf l * 10 + dval c := by
      intro l c; unfold decOf; exact decFrom_snoc 0 l c
    rw [this, digitsOf_snoc b v (k + d) _ (by omega) hb, key]
    have := ih (by omega)
    omega

theorem ht_dec_one (b : Buf) (v : Nat) (c : UInt8) (hb : b[v]? = some c) :
    decOf (digitsOf b v (v + 1)) = c.toNat - 48 := by
  rw [digitsOf_snoc b v v c (Nat.le_refl _) hb, digitsOf_self]
  simp [decOf, decFrom, dval_def]

theorem ht_dec_snoc (b : Buf) (v k : Nat) (c : UInt8) (hvk : v ≤ k) (hb : b[k]? = some c) :
    decOf (digitsOf b v (k + 1)) = decOf (digitsOf b v k) * 10 + (c.toNat - 48) := by
  rw [digitsOf_snoc b v k c hvk hb, decOf, decFrom_snoc, ← decOf, dval_def]

/-- the object in the middle of the digits -/
def htClMid (b : Buf) (v k : Nat) : PUIntBody := { uiVal := decOf (digitsOf b v k), state := .found, soffs := v }

/-- the digit loop of ParseUIntVal over `[k, j)` -/
theorem ht_cl_digits (b : Buf) (v j : Nat) (hd : Run isDigit b v j) (hj : j ≤ b.size)
    (hmax : decOf (digitsOf b v j) ≤ 4294967295) :
    ∀ d k, j - k = d → v < k → k ≤ j → runLoop clMachine b k (htClMid b v k) = runLoop clMachine b j (htClMid b v j) := by
  intro d
  induction d with
  | zero => intro k h1 _ h3; have : k = j := by omega
            rw [this]
  | succ d ih =>
    intro k h1 h2 h3
    obtain ⟨c, hc, hcd⟩ := hd k (by omega) (by omega)
    have hl := ht_digit_not_lws hcd
    have hle : decOf (digitsOf b v (k + 1)) ≤ 4294967295 := by
      have := ht_dec_mono b v (k + 1) (by omega) (j - (k + 1)) (by omega)
      have e : k + 1 + (j - (k + 1)) = j := by omega
      rw [e] at this; omega
    have hs : clStep b k c (htClMid b v k) = .cont (k + 1) (htClMid b v (k + 1)) := by
      unfold clStep htClMid
      simp only [hl, hcd, Bool.false_eq_true, ↓reduceIte]
      rw [← ht_dec_snoc b v k c (by omega) hc]
      rw [if_neg (by omega)]
    rw [runLoop_cont clMachine hc (by exact hs), if_pos (by omega)]
    exact ih (k + 1) (by omega) (by omega) (by omega)

/-- **ParseUIntVal (= ParseExpiresVal) on a well-formed value**: optional linear white space, digits `[v, j)` whose
    decimal value fits 32 bits, optional linear white space, the line end: verdict OK, offset after the line end, the
    reported string is exactly the digits and the number is their decimal value -/
theorem ht_uint_run (b : Buf) (i0 v j p e : Nat) (hfit : b.size ≤ 65535) (hl : Lws b i0 v) (hd : Run isDigit b v j)
    (hvj : v < j) (hmax : decOf (digitsOf b v j) ≤ 4294967295) (hl2 : Lws b j p) (he : Eol b p e) {c2 : UInt8}
    (h2 : b[e]? = some c2) (hw2 : isWS c2 = false) :
    parseUIntVal b i0 {} =
      (e, .ok, { uiVal := decOf (digitsOf b v j), sVal := ⟨v, j - v⟩, state := .fin }) := by
  obtain ⟨cv, hv, hcvd⟩ := hd v (Nat.le_refl _) hvj
  have hcvl := ht_digit_not_lws hcvd
  obtain ⟨cj, hj, hcjl⟩ := lws_eol_first hl2 he
  have hjl := get?_lt hj
  have hgt := he.gt
  have hpe := hl2.le
  rw [ht_ui_lead_lws b hl hv hcvl {} rfl]
  unfold parseUIntVal
  rw [if_neg (by decide)]
  have hs1 : clStep b v cv {} = .cont (v + 1) (htClMid b v (v + 1)) := by
    unfold clStep htClMid
    simp only [hcvl, hcvd, Bool.false_eq_true, ↓reduceIte]
    rw [ht_dec_one b v cv hv]
  rw [runLoop_cont clMachine hv (by exact hs1), if_pos (by omega)]
  rw [ht_cl_digits b v j hd (by omega) hmax (j - (v + 1)) (v + 1) rfl (by omega) (by omega)]
  refine runLoop_done clMachine hj ?_
  show clStep b j cj (htClMid b v j) = _
  unfold clStep htClMid
  simp only [hcjl, ↓reduceIte]
  rw [ht_lwsStd_eoh _ clEOH id (skipLWS_of_lws_eol hl2 he h2 hw2)]
  unfold clEOH clSetSVal
  simp only [set_eq v j (by omega) (by omega), setPanics_false v j (by omega), Bool.or_false]
  have : p + (e - p) = e := by omega
  rw [this]

/-- **ParseCLenVal on a well-formed value**: as `ht_uint_run`, at most 9 digits and a value of at most 2^24 -/
theorem ht_clen_run (b : Buf) (i0 v j p e : Nat) (hfit : b.size ≤ 65535) (hl : Lws b i0 v) (hd : Run isDigit b v j)
    (hvj : v < j) (hlen : j - v ≤ 9) (hmax : decOf (digitsOf b v j) ≤ 16777216) (hl2 : Lws b j p) (he : Eol b p e)
    {c2 : UInt8} (h2 : b[e]? = some c2) (hw2 : isWS c2 = false) :
    parseCLenVal b i0 {} =
      (e, .ok, { uiVal := decOf (digitsOf b v j), sVal := ⟨v, j - v⟩, state := .fin }) := by
  unfold parseCLenVal
  rw [ht_uint_run b i0 v j p e hfit hl hd hvj (by omega) hl2 he h2 hw2]
  simp only
  split
  · rename_i hc
    exfalso
    simp only [MaxCLenValueSize, MaxClenValue, Bool.or_eq_true] at hc
    rcases hc with hc | hc
    · have := of_decide_eq_true hc; omega
    · have := of_decide_eq_true hc; omega
  · rfl

/-- **Expires**: name, colon, digits; new object. The header's value is the digit string, the number its value. -/
theorem ht_expires_value (b : Buf) (o n c v j p e : Nat) (hv : PHdrVals) (hfit : b.size ≤ 65535)
    (hname : NameRun b o n) (hon : o < n) (hws : WsRun b n c) (hnc : n ≤ c) (hcolon : b[c]? = some 58)
    (ht : getHdrType (b.extract o n) = HdrExpires) (hnew : hv.expires = {})
    (hl : Lws b (c + 1) v) (hd : Run isDigit b v j) (hvj : v < j) (hmax : decOf (digitsOf b v j) ≤ 4294967295)
    (hl2 : Lws b j p) (he : Eol b p e) {c2 : UInt8} (h2 : b[e]? = some c2) (hw2 : isWS c2 = false) :
    parseHdrLine b o {} (some hv) =
      (e, .ok, hdrAt HdrExpires o n ⟨v, j - v⟩ .fin,
        some { hv with expires := { uiVal := decOf (digitsOf b v j), sVal := ⟨v, j - v⟩, state := .fin } }) := by
  have hp : parseUIntVal b (c + 1) hv.expires =
      (e, .ok, { uiVal := decOf (digitsOf b v j), sVal := ⟨v, j - v⟩, state := .fin }) := by
    rw [hnew]; exact ht_uint_run b (c + 1) v j p e hfit hl hd hvj hmax hl2 he h2 hw2
  exact ht_line_expires b o n c hv hfit hname hon hws hnc hcolon ht (by rw [hnew]; rfl) hp

/-- **Content-Length**: name, colon, at most 9 digits with a value of at most 2^24; new object -/
theorem ht_clen_value (b : Buf) (o n c v j p e : Nat) (hv : PHdrVals) (hfit : b.size ≤ 65535)
    (hname : NameRun b o n) (hon : o < n) (hws : WsRun b n c) (hnc : n ≤ c) (hcolon : b[c]? = some 58)
    (ht : getHdrType (b.extract o n) = HdrCLen) (hnew : hv.clen = {})
    (hl : Lws b (c + 1) v) (hd : Run isDigit b v j) (hvj : v < j) (hlen : j - v ≤ 9)
    (hmax : decOf (digitsOf b v j) ≤ 16777216)
    (hl2 : Lws b j p) (he : Eol b p e) {c2 : UInt8} (h2 : b[e]? = some c2) (hw2 : isWS c2 = false) :
    parseHdrLine b o {} (some hv) =
      (e, .ok, hdrAt HdrCLen o n ⟨v, j - v⟩ .fin,
        some { hv with clen := { uiVal := decOf (digitsOf b v j), sVal := ⟨v, j - v⟩, state := .fin } }) := by
  have hp : parseCLenVal b (c + 1) hv.clen =
      (e, .ok, { uiVal := decOf (digitsOf b v j), sVal := ⟨v, j - v⟩, state := .fin }) := by
    rw [hnew]; exact ht_clen_run b (c + 1) v j p e hfit hl hd hvj hlen hmax hl2 he h2 hw2
  exact ht_line_clen b o n c hv hfit hname hon hws hnc hcolon ht (by rw [hnew]; rfl) hp

/-! ### (2) CSeq: digits, white space, a method token -/

def htCsMid (b : Buf) (v k : Nat) : PCSeqBody := { cseqNo := decOf (digitsOf b v k), state := .foundDigit, soffs := v }

theorem ht_cs_digits (b : Buf) (v j : Nat) (hd : Run isDigit b v j) (hj : j ≤ b.size)
    (hmax : decOf (digitsOf b v j) ≤ 4294967295) :
    ∀ d k, j - k = d → v < k → k ≤ j → runLoop csMachine b k (htCsMid b v k) = runLoop csMachine b j (htCsMid b v j) := by
  intro d
  induction d with
  | zero => intro k h1 _ h3; have : k = j := by omega
            rw [this]
  | succ d ih =>
    intro k h1 h2 h3
    obtain ⟨c, hc, hcd⟩ := hd k (by omega) (by omega)
    have hl := ht_digit_not_lws hcd
    have hle : decOf (digitsOf b v (k + 1)) ≤ 4294967295 := by
      have := ht_dec_mono b v (k + 1) (by omega) (j - (k + 1)) (by omega)
      have e : k + 1 + (j - (k + 1)) = j := by omega
      rw [e] at this; omega
    have hs : csStep b k c (htCsMid b v k) = .cont (k + 1) (htCsMid b v (k + 1)) := by
      unfold csStep htCsMid
      simp only [hl, hcd, Bool.false_eq_true, ↓reduceIte]
      rw [← ht_dec_snoc b v k c (by omega) hc]
      rw [if_neg (by omega)]
    rw [runLoop_cont csMachine hc (by exact hs), if_pos (by omega)]
    exact ih (k + 1) (by omega) (by omega) (by omega)

/-- the object while the method token is being read -/
def htCsMeth (b : Buf) (v j m : Nat) : PCSeqBody :=
  { cseqNo := decOf (digitsOf b v j), cseq := ⟨v, j - v⟩, v := ⟨v, j - v⟩, state := .foundMethod, soffs := m }

theorem ht_cs_meth_step (b : Buf) (v j m k : Nat) (c : UInt8) (hc : isLWSch c = false) :
    csStep b k c (htCsMeth b v j m) = .cont (k + 1) (htCsMeth b v j m) := by
  unfold csStep htCsMeth
  simp only [hc, Bool.false_eq_true, ↓reduceIte]
  split <;> rfl

/-- **ParseCSeqVal on a well-formed value**: optional linear white space, at most 10 digits `[v, j)` whose value fits
    32 bits, linear white space (at least one byte), a method `[m, t)` of bytes other than SP / HT / CR / LF, optional
    linear white space, the line end: verdict OK, offset after the line end; the number is the decimal value of the
    digits, the method is classified from its text, and the value span runs from the first digit to the end of the
    method -/
theorem ht_cseq_run (b : Buf) (i0 v j m t p e : Nat) (hfit : b.size ≤ 65535) (hl : Lws b i0 v)
    (hd : Run isDigit b v j) (hvj : v < j) (hlen : j - v ≤ 10) (hmax : decOf (digitsOf b v j) ≤ 4294967295)
    (hl1 : Lws b j m) (hjm : j < m) (htok : TokenRun b m t) (hmt : m < t) (hl2 : Lws b t p) (he : Eol b p e)
    {c2 : UInt8} (h2 : b[e]? = some c2) (hw2 : isWS c2 = false) :
    parseCSeqVal b i0 {} =
      (e, .ok, { cseqNo := decOf (digitsOf b v j), methodNo := getMethodNo (b.extract m t), cseq := ⟨v, j - v⟩,
                 method := ⟨m, t - m⟩, v := ⟨v, t - v⟩, state := .fin }) := by
  obtain ⟨cv, hv, hcvd⟩ := hd v (Nat.le_refl _) hvj
  have hcvl := ht_digit_not_lws hcvd
  obtain ⟨cj, hj, hcjl⟩ := hl1.first hjm
  obtain ⟨cm, hm, hcml⟩ := htok m (Nat.le_refl _) hmt
  obtain ⟨ct, htt, hctl⟩ := lws_eol_first hl2 he
  have hjl := get?_lt hj
  have htl := get?_lt htt
  have hgt := he.gt
  have hpe := hl2.le
  rw [ht_cs_lead_lws b hl hv hcvl {} rfl]
  unfold parseCSeqVal
  rw [if_neg (by decide)]
  -- the first digit
  have hs1 : csStep b v cv {} = .cont (v + 1) (htCsMid b v (v + 1)) := by
    unfold csStep htCsMid
    simp only [hcvl, hcvd, Bool.false_eq_true, ↓reduceIte]
    rw [ht_dec_one b v cv hv]
  rw [runLoop_cont csMachine hv (by exact hs1), if_pos (by omega)]
  rw [ht_cs_digits b v j hd (by omega) hmax (j - (v + 1)) (v + 1) rfl (by omega) (by omega)]
  -- the white space after the number
  have hs2 : csStep b j cj (htCsMid b v j) =
      .cont m { cseqNo := decOf (digitsOf b v j), cseq := ⟨v, j - v⟩, v := ⟨v, j - v⟩, state := .endDigit, soffs := v } := by
    unfold csStep htCsMid
    simp only [hcjl, ↓reduceIte]
    rw [ht_lwsStd_ok _ (csEOH b) id (skipLWS_of_lws hl1 hm hcml)]
    simp only [set_eq v j (by omega) (by omega), setPanics_false v j (by omega), Bool.or_false]
  rw [runLoop_cont csMachine hj (by exact hs2), if_pos hjm]
  -- the first byte of the method
  have hs3 : csStep b m cm { cseqNo := decOf (digitsOf b v j), cseq := ⟨v, j - v⟩, v := ⟨v, j - v⟩, state := .endDigit, soffs := v } =
      .cont (m + 1) (htCsMeth b v j m) := by
    unfold csStep htCsMeth
    simp only [hcml, Bool.false_eq_true, ↓reduceIte]
    split <;> rfl
  rw [runLoop_cont csMachine hm (by exact hs3), if_pos (by omega)]
  -- the rest of the method
  have hrun : runLoop csMachine b (m + 1) (htCsMeth b v j m) = runLoop csMachine b t (htCsMeth b v j m) := by
    refine runLoop_run csMachine b (fun c => !isLWSch c) _ (fun k c _ hc => ?_) (m + 1) t (by omega)
      (ht_tokenrun_run (fun k h1 h2 => htok k (by omega) h2))
    have hc' : isLWSch c = false := by simpa using hc
    exact ht_cs_meth_step b v j m k c hc'
  rw [hrun]
  -- the end of the line
  refine runLoop_done csMachine htt ?_
  show csStep b t ct (htCsMeth b v j m) = _
  unfold csStep htCsMeth
  simp only [hctl, ↓reduceIte]
  rw [ht_lwsStd_eoh _ (csEOH b) id (skipLWS_of_lws_eol hl2 he h2 hw2)]
  unfold csEOH csSetMethod
  simp only [set_eq m t (by omega) (by omega), setPanics_false m t (by omega), Bool.or_false,
    extend_eq ⟨v, j - v⟩ t (by show v ≤ t; omega) (by omega),
    extendPanics_false (⟨v, j - v⟩ : PField) t (by show v ≤ t; omega)]
  unfold csFinish
  have hget : PField.get? b ⟨m, t - m⟩ = some (b.extract m t) := by
    rw [field_get? b m (t - m) (by omega) hfit]; congr 2; omega
  simp only [hget]
  have hpe2 : p + (e - p) = e := by omega
  rw [hpe2]
  split
  · rename_i hc
    exfalso
    simp only [MaxCSeqNValueSize, Bool.or_eq_true] at hc
    rcases hc with hc | hc
    · have := of_decide_eq_true hc; omega
    · have := of_decide_eq_true hc; omega
  · rfl

/-- **CSeq**: name, colon, a CSeq value; new object. The header's value runs from the number through the method. -/
theorem ht_cseq_value (b : Buf) (o n c v j m t p e : Nat) (hv : PHdrVals) (hfit : b.size ≤ 65535)
    (hname : NameRun b o n) (hon : o < n) (hws : WsRun b n c) (hnc : n ≤ c) (hcolon : b[c]? = some 58)
    (ht : getHdrType (b.extract o n) = HdrCSeq) (hnew : hv.cseq = {})
    (hl : Lws b (c + 1) v) (hd : Run isDigit b v j) (hvj : v < j) (hlen : j - v ≤ 10)
    (hmax : decOf (digitsOf b v j) ≤ 4294967295) (hl1 : Lws b j m) (hjm : j < m) (htok : TokenRun b m t) (hmt : m < t)
    (hl2 : Lws b t p) (he : Eol b p e) {c2 : UInt8} (h2 : b[e]? = some c2) (hw2 : isWS c2 = false) :
    parseHdrLine b o {} (some hv) =
      (e, .ok, hdrAt HdrCSeq o n ⟨v, t - v⟩ .fin,
        some { hv with cseq := { cseqNo := decOf (digitsOf b v j), methodNo := getMethodNo (b.extract m t),
                                 cseq := ⟨v, j - v⟩, method := ⟨m, t - m⟩, v := ⟨v, t - v⟩, state := .fin } }) := by
  have hp := ht_cseq_run b (c + 1) v j m t p e hfit hl hd hvj hlen hmax hl1 hjm htok hmt hl2 he h2 hw2
  rw [← hnew] at hp
  exact ht_line_cseq b o n c hv hfit hname hon hws hnc hcolon ht (by rw [hnew]; rfl) hp

/-! ### generic treatment with a values object: other header types, and repeated single-valued headers -/

/-- the header is scanned generically although a values object is supplied: its type has no value parser, or it is
    a single-valued type (From, To, Call-ID, CSeq, Content-Length, Expires) whose value is already parsed -/
def HtGen (t : Nat) (hv : PHdrVals) : Prop :=
  IsOther t ∨ (t = HdrFrom ∧ hv.from_.parsed = true) ∨ (t = HdrTo ∧ hv.to.parsed = true) ∨
  (t = HdrCallID ∧ hv.callid.parsed = true) ∨ (t = HdrCSeq ∧ hv.cseq.parsed = true) ∨
  (t = HdrCLen ∧ hv.clen.parsed = true) ∨ (t = HdrExpires ∧ hv.expires.parsed = true)

theorem ht_pb_gen (b : Buf) (i : Nat) (h : Hdr) (hv : PHdrVals) (hg : HtGen h.type hv) :
    parseBody b i h (some hv) = (i, .ok, h, some hv) := by
  rcases hg with hg | ⟨ht, hp⟩ | ⟨ht, hp⟩ | ⟨ht, hp⟩ | ⟨ht, hp⟩ | ⟨ht, hp⟩ | ⟨ht, hp⟩
  · exact parseBody_generic b i h (some hv) (Or.inr hg)
  all_goals (unfold parseBody; simp +decide only [ht, hp, ↓reduceIte, Bool.not_true, Bool.false_eq_true])

theorem ht_after_gen (b : Buf) (o n i : Nat) (hv : PHdrVals) (hon : o < n) (hn : n ≤ b.size)
    (hfit : b.size ≤ 65535) (hg : HtGen (getHdrType (b.extract o n)) hv) :
    hlAfterColon b i (hdrAt 0 o n {} .bodyStart) (some hv) =
      .cont i (hdrAt (getHdrType (b.extract o n)) o n {} .bodyStart, some hv) := by
  unfold hlAfterColon hdrAt
  have hget : PField.get? b ⟨o, n - o⟩ = some (b.extract o n) := by
    have := field_get? b o (n - o) (by omega) hfit
    rw [this]; congr 2; omega
  simp only [hget]
  rw [ht_pb_gen b i _ hv hg]
  rfl

/-- a header line with a value, scanned generically although a values object is supplied -/
theorem ht_line_gen (b : Buf) (o n c v ve p e : Nat) (hv : PHdrVals) (hfit : b.size ≤ 65535)
    (hname : NameRun b o n) (hon : o < n) (hws : WsRun b n c) (hnc : n ≤ c) (hcolon : b[c]? = some 58)
    (hlws : Lws b (c + 1) v) (hval : ValRun b v ve p) (he : Eol b p e) {c2 : UInt8} (h2 : b[e]? = some c2)
    (hw2 : isWS c2 = false) (hg : HtGen (getHdrType (b.extract o n)) hv) :
    parseHdrLine b o {} (some hv) =
      (e, .ok, hdrAt (getHdrType (b.extract o n)) o n ⟨v, ve - v⟩ .fin, some hv) := by
  have hcl := get?_lt hcolon
  have hcv := hlws.le
  obtain ⟨cv, hvv, hcvl⟩ := hval.first
  have hvl := get?_lt hvv
  have hafter := ht_after_gen b o n (c + 1) hv hon (by omega) hfit hg
  rw [ht_prefix_cont b o n c (some hv) hfit hname hon hws hnc hcolon hafter]
  have hc1 : ∃ x, b[c + 1]? = some x := by
    by_cases h1 : c + 1 < v
    · obtain ⟨x, hx, _⟩ := hlws.first h1; exact ⟨x, hx⟩
    · have : c + 1 = v := by omega
      rw [this]; exact ⟨cv, hvv⟩
  obtain ⟨x, hx⟩ := hc1
  have hstep : hlStep b (c + 1) x (hdrAt (getHdrType (b.extract o n)) o n {} .bodyStart, some hv) =
      .cont (v + 1) (hdrAt (getHdrType (b.extract o n)) o n (PField.set v v) .val, some hv) := by
    unfold hlStep hdrAt
    simp only
    rw [skipLWS_of_lws hlws hvv hcvl]
  rw [runLoop_cont hlMachine hx (by exact hstep), if_pos (by omega)]
  have hoffs : (PField.set v v).offs = v := by unfold PField.set; exact trunc16_id (by omega)
  have := hl_val_run b (some hv) hval he h2 hw2 hfit (hdrAt (getHdrType (b.extract o n)) o n (PField.set v v) .val) rfl
    (by show (PField.set v v).offs ≤ v; rw [hoffs]; exact Nat.le_refl _) rfl
  rw [this]
  show (e, Err.ok, hdrAt (getHdrType (b.extract o n)) o n ⟨(PField.set v v).offs, ve - (PField.set v v).offs⟩ .fin, some hv) = _
  rw [hoffs]

/-- … and with an empty value -/
theorem ht_line_gen_empty (b : Buf) (o n c p e : Nat) (hv : PHdrVals) (hfit : b.size ≤ 65535)
    (hname : NameRun b o n) (hon : o < n) (hws : WsRun b n c) (hnc : n ≤ c) (hcolon : b[c]? = some 58)
    (hlws : Lws b (c + 1) p) (he : Eol b p e) {c2 : UInt8} (h2 : b[e]? = some c2)
    (hw2 : isWS c2 = false) (hg : HtGen (getHdrType (b.extract o n)) hv) :
    parseHdrLine b o {} (some hv) = (e, .ok, hdrAt (getHdrType (b.extract o n)) o n {} .fin, some hv) := by
  have hcl := get?_lt hcolon
  have hcv := hlws.le
  obtain ⟨cp, hp, _, _, hpl⟩ := he.first
  have hgt := he.gt
  have hafter := ht_after_gen b o n (c + 1) hv hon (by omega) hfit hg
  rw [ht_prefix_cont b o n c (some hv) hfit hname hon hws hnc hcolon hafter]
  have hc1 : ∃ x, b[c + 1]? = some x := by
    by_cases h1 : c + 1 < p
    · obtain ⟨x, hx, _⟩ := hlws.first h1; exact ⟨x, hx⟩
    · have : c + 1 = p := by omega
      rw [this]; exact ⟨cp, hp⟩
  obtain ⟨x, hx⟩ := hc1
  have hdone : hlStep b (c + 1) x (hdrAt (getHdrType (b.extract o n)) o n {} .bodyStart, some hv) =
      .done e .ok (hdrAt (getHdrType (b.extract o n)) o n {} .fin, some hv) := by
    unfold hlStep hdrAt
    simp only
    rw [skipLWS_of_lws_eol hlws he h2 hw2]
    simp only
    have : p + (e - p) = e := by omega
    rw [this]
  rw [runLoop_done hlMachine hx (by exact hdone)]

theorem HdrLineAt.ht_parse {b : Buf} {o e : Nat} {h : Hdr} (H : HdrLineAt b o e h) (hv : PHdrVals)
    (hfit : b.size ≤ 65535) (hg : HtGen h.type hv) : parseHdrLine b o {} (some hv) = (e, .ok, h, some hv) := by
  rcases H with ⟨n, c, v, ve, p, c2, h1, h2, h3, h4, h5, h6, h7, h8, h9, h10, rfl⟩ |
    ⟨n, c, p, c2, h1, h2, h3, h4, h5, h6, h8, h9, h10, rfl⟩
  · exact ht_line_gen b o n c v ve p e hv hfit h1 h2 h3 h4 h5 h6 h7 h8 h9 h10 hg
  · exact ht_line_gen_empty b o n c p e hv hfit h1 h2 h3 h4 h5 h6 h8 h9 h10 hg

/-! ### (3) accumulation over several Contact header lines of one message -/

theorem ht_vallist_fin {h : Nat} {b : Buf} {o o' : Nat} {rs : List PFromBody} (H : ValList h b o rs o') :
    ∀ r ∈ rs, r.state = .fin := by
  induction H with
  | last o o' r hv =>
    intro x hx
    have : x = r := by simpa using hx
    rw [this]; exact (ht_navalue_v hv).choose_spec.choose_spec.2.2.2.2
  | cons o o1 o' r rs hv _ ih =>
    intro x hx
    rcases List.mem_cons.1 hx with hx | hx
    · rw [hx]; exact (ht_navalue_v hv).choose_spec.choose_spec.2.2.2.2
    · exact ih x hx

theorem ht_vallist_range {h : Nat} {b : Buf} {o o' : Nat} {rs : List PFromBody} (H : ValList h b o rs o') :
    o < o' ∧ o' ≤ b.size := by
  induction H with
  | last o o' r hv => exact hv.range
  | cons o o1 o' r rs hv _ ih => have := hv.range; omega

/-- after the values of a line the contacts object is ready for the next line -/
theorem ht_acceptAll_ready (rs : List PFromBody) (hne : rs ≠ []) (hfin : ∀ r ∈ rs, r.state = .fin) :
    ∀ c : PContacts, CtClean c → HtCtReady (c.acceptAll rs) := by
  induction rs with
  | nil => exact absurd rfl hne
  | cons r rs ih =>
    intro c hc
    cases rs with
    | nil =>
      have := done_facts c r hc (hfin r List.mem_cons_self)
      exact ⟨this.2.1, this.1⟩
    | cons r2 rs' =>
      rw [acceptAll_cons2]
      exact ih (by simp) (fun x hx => hfin x (List.mem_cons_of_mem _ hx)) (c.next r) (next_clean c r hc).1

theorem ht_htLine_eq (c : PContacts) (rs : List PFromBody) : c.htLine rs = c.wrap.htBump.acceptAll rs := by
  unfold PContacts.htLine; rw [ht_bump_wrap]

theorem ht_htLine_ready (c : PContacts) (rs : List PFromBody) (hr : HtCtReady c) (hne : rs ≠ [])
    (hfin : ∀ r ∈ rs, r.state = .fin) : HtCtReady (c.htLine rs) := by
  rw [ht_htLine_eq]
  exact ht_acceptAll_ready rs hne hfin c.wrap.htBump hr.1

/-- **one Contact line**: the header counter goes up by one, the value counter by the number of values -/
theorem ht_htLine_hNo (c : PContacts) (rs : List PFromBody) : (c.htLine rs).hNo = c.hNo + 1 := by
  rw [ht_htLine_eq, ht_ctAcceptAll_hNo]
  show c.wrap.hNo + 1 = _
  rw [(wrap_scalars c).2.2.1]

theorem ht_htLine_n (c : PContacts) (rs : List PFromBody) : (c.htLine rs).n = c.n + rs.length := by
  rw [ht_htLine_eq, ctAcceptAll_n]
  show c.wrap.n + _ = _
  rw [(wrap_scalars c).1]

theorem ht_htLine_size (c : PContacts) (rs : List PFromBody) : (c.htLine rs).vals.size = c.vals.size := by
  rw [ht_htLine_eq, ctAcceptAll_size]
  show c.wrap.vals.size = _
  rw [(wrap_scalars c).2.1]

theorem ht_htLine_keep (c : PContacts) (rs : List PFromBody) (j : Nat) (hj : j < c.n) :
    (c.htLine rs).vals[j]! = c.vals[j]! := by
  rw [ht_htLine_eq, ctAcceptAll_keep _ _ j (by show j < c.wrap.n; rw [(wrap_scalars c).1]; exact hj)]
  show c.wrap.vals[j]! = _
  rw [(wrap_scalars c).2.1]

theorem ht_htLine_stored (c : PContacts) (rs : List PFromBody) (k : Nat) (hk : k < rs.length)
    (hin : c.n + k < c.vals.size) : (c.htLine rs).vals[c.n + k]! = rs[k] := by
  have hw := wrap_scalars c
  rw [ht_htLine_eq]
  have := ctAcceptAll_stored c.wrap.htBump rs k hk (by show c.wrap.n + k < c.wrap.vals.size; rw [hw.1, hw.2.1]; exact hin)
  have e : c.wrap.htBump.n = c.n := hw.1
  rw [e] at this
  exact this

theorem ht_htLine_maxE (c : PContacts) (rs : List PFromBody) :
    (c.htLine rs).maxExpires = rs.foldl (fun m r => max m r.expires) c.maxExpires := by
  rw [ht_htLine_eq, ctAcceptAll_maxE]
  show rs.foldl _ c.wrap.maxExpires = _
  rw [(wrap_scalars c).2.2.2.1]

/-- the minimum the next value is compared with: 2^32-1 before the first value of the message -/
def PContacts.htMin0 (c : PContacts) : Nat := if c.n == 0 then 4294967295 else c.minExpires

theorem ht_htLine_minE (c : PContacts) (rs : List PFromBody) (hne : rs ≠ []) :
    (c.htLine rs).minExpires = rs.foldl (fun m r => min m r.expires) c.htMin0 := by
  rw [ht_htLine_eq, ctAcceptAll_minE _ _ hne]
  have hw := wrap_scalars c
  show rs.foldl _ (if c.wrap.n == 0 then 4294967295 else c.wrap.minExpires) = _
  rw [hw.1, hw.2.2.2.2.1]; rfl

/-- what a sequence of Contact header lines (the value lists `rss`, in order) does to the contacts object -/
def PContacts.htLines (c : PContacts) (rss : List (List PFromBody)) : PContacts := rss.foldl PContacts.htLine c

theorem ht_htLines_cons (c : PContacts) (rs : List PFromBody) (rss : List (List PFromBody)) :
    c.htLines (rs :: rss) = (c.htLine rs).htLines rss := rfl

/-- **`HNo` is the number of Contact header lines** -/
theorem ht_htLines_hNo (c : PContacts) (rss : List (List PFromBody)) : (c.htLines rss).hNo = c.hNo + rss.length := by
  induction rss generalizing c with
  | nil => rfl
  | cons rs rss ih => rw [ht_htLines_cons, ih, ht_htLine_hNo, List.length_cons]; omega

/-- **`N` is the total number of values of all Contact lines** (also those beyond the caller's array) -/
theorem ht_htLines_n (c : PContacts) (rss : List (List PFromBody)) :
    (c.htLines rss).n = c.n + rss.flatten.length := by
  induction rss generalizing c with
  | nil => rfl
  | cons rs rss ih => rw [ht_htLines_cons, ih, ht_htLine_n, List.flatten_cons, List.length_append]; omega

theorem ht_htLines_size (c : PContacts) (rss : List (List PFromBody)) : (c.htLines rss).vals.size = c.vals.size := by
  induction rss generalizing c with
  | nil => rfl
  | cons rs rss ih => rw [ht_htLines_cons, ih, ht_htLine_size]

theorem ht_htLines_keep (c : PContacts) (rss : List (List PFromBody)) (j : Nat) (hj : j < c.n) :
    (c.htLines rss).vals[j]! = c.vals[j]! := by
  induction rss generalizing c with
  | nil => rfl
  | cons rs rss ih =>
    rw [ht_htLines_cons, ih _ (by rw [ht_htLine_n]; omega), ht_htLine_keep c rs j hj]

/-- **the stored values are the values of all Contact lines, in order** (those that fit the caller's array) -/
theorem ht_htLines_stored (c : PContacts) (rss : List (List PFromBody)) (k : Nat) (hk : k < rss.flatten.length)
    (hin : c.n + k < c.vals.size) : (c.htLines rss).vals[c.n + k]! = rss.flatten[k] := by
  induction rss generalizing c k with
  | nil => simp at hk
  | cons rs rss ih =>
    rw [ht_htLines_cons]
    simp only [List.flatten_cons]
    by_cases h1 : k < rs.length
    · rw [ht_htLines_keep _ _ _ (by rw [ht_htLine_n]; omega), ht_htLine_stored c rs k h1 hin,
        List.getElem_append_left h1]
    · have hk' : k - rs.length < rss.flatten.length := by
        simp only [List.flatten_cons, List.length_append] at hk; omega
      have := ih (c.htLine rs) (k - rs.length) hk' (by rw [ht_htLine_n, ht_htLine_size]; omega)
      rw [ht_htLine_n] at this
      have e : c.n + rs.length + (k - rs.length) = c.n + k := by omega
      rw [e] at this
      rw [this, List.getElem_append_right (by omega)]

/-- **the maximum expires summarises the values of all Contact lines** -/
theorem ht_htLines_maxE (c : PContacts) (rss : List (List PFromBody)) :
    (c.htLines rss).maxExpires = rss.flatten.foldl (fun m r => max m r.expires) c.maxExpires := by
  induction rss generalizing c with
  | nil => rfl
  | cons rs rss ih => rw [ht_htLines_cons, ih, ht_htLine_maxE, List.flatten_cons, List.foldl_append]

/-- **the minimum expires summarises the values of all Contact lines**, starting from 2^32-1 for the first value of
    the message -/
theorem ht_htLines_minE (c : PContacts) (rss : List (List PFromBody)) (hne : ∀ rs ∈ rss, rs ≠ []) :
    (c.htLines rss).minExpires =
      if rss = [] then c.minExpires else rss.flatten.foldl (fun m r => min m r.expires) c.htMin0 := by
  induction rss generalizing c with
  | nil => rfl
  | cons rs rss ih =>
    have hrs : rs ≠ [] := hne rs List.mem_cons_self
    have h0 : (c.htLine rs).htMin0 = (c.htLine rs).minExpires := by
      unfold PContacts.htMin0
      have hl : rs.length ≠ 0 := by
        intro h; exact hrs (List.length_eq_zero_iff.1 h)
      have hn0 : (c.htLine rs).n ≠ 0 := by rw [ht_htLine_n]; omega
      have : ((c.htLine rs).n == 0) = false := by rw [beq_eq_false_iff_ne]; exact hn0
      rw [this]; rfl
    rw [ht_htLines_cons, ih _ (fun x hx => hne x (List.mem_cons_of_mem _ hx))]
    rw [if_neg (List.cons_ne_nil rs rss), List.flatten_cons, List.foldl_append, ← ht_htLine_minE c rs hrs]
    by_cases hnil : rss = []
    · rw [if_pos hnil, hnil]; rfl
    · rw [if_neg hnil, h0]

theorem ht_htLines_ready (c : PContacts) (rss : List (List PFromBody)) (hr : HtCtReady c)
    (hne : ∀ rs ∈ rss, rs ≠ []) (hfin : ∀ rs ∈ rss, ∀ r ∈ rs, r.state = .fin) : HtCtReady (c.htLines rss) := by
  induction rss generalizing c with
  | nil => exact hr
  | cons rs rss ih =>
    rw [ht_htLines_cons]
    exact ih _ (ht_htLine_ready c rs hr (hne rs List.mem_cons_self) (hfin rs List.mem_cons_self))
      (fun x hx => hne x (List.mem_cons_of_mem _ hx)) (fun x hx => hfin x (List.mem_cons_of_mem _ hx))

/-! #### P-Asserted-Identity lines -/

theorem ht_paAcceptAll_ready (rs : List PFromBody) (hne : rs ≠ []) (hfin : ∀ r ∈ rs, r.state = .fin) :
    ∀ c : PPAIs, PaClean c → HtPaReady (c.acceptAll rs) := by
  induction rs with
  | nil => exact absurd rfl hne
  | cons r rs ih =>
    intro c hc
    cases rs with
    | nil =>
      have := paDone_facts c r hc (hfin r List.mem_cons_self)
      exact ⟨this.2, this.1⟩
    | cons r2 rs' =>
      show HtPaReady ((c.next r).acceptAll (r2 :: rs'))
      exact ih (by simp) (fun x hx => hfin x (List.mem_cons_of_mem _ hx)) (c.next r) (paNext_clean c r hc).1

theorem ht_paLine_eq (c : PPAIs) (rs : List PFromBody) : c.htLine rs = c.wrap.htBump.acceptAll rs := by
  unfold PPAIs.htLine; rw [ht_paBump_wrap]

theorem ht_paLine_ready (c : PPAIs) (rs : List PFromBody) (hr : HtPaReady c) (hne : rs ≠ [])
    (hfin : ∀ r ∈ rs, r.state = .fin) : HtPaReady (c.htLine rs) := by
  rw [ht_paLine_eq]
  exact ht_paAcceptAll_ready rs hne hfin c.wrap.htBump hr.1

theorem ht_paLine_hNo (c : PPAIs) (rs : List PFromBody) : (c.htLine rs).hNo = c.hNo + 1 := by
  rw [ht_paLine_eq, ht_paAcceptAll_hNo]
  show c.wrap.hNo + 1 = _
  rw [(paWrap_scalars c).2.2.1]

theorem ht_paLine_n (c : PPAIs) (rs : List PFromBody) : (c.htLine rs).n = c.n + rs.length := by
  rw [ht_paLine_eq, paAcceptAll_n]
  show c.wrap.n + _ = _
  rw [(paWrap_scalars c).1]

def PPAIs.htLines (c : PPAIs) (rss : List (List PFromBody)) : PPAIs := rss.foldl PPAIs.htLine c

theorem ht_paLines_hNo (c : PPAIs) (rss : List (List PFromBody)) : (c.htLines rss).hNo = c.hNo + rss.length := by
  induction rss generalizing c with
  | nil => rfl
  | cons rs rss ih =>
    show ((c.htLine rs).htLines rss).hNo = _
    rw [ih, ht_paLine_hNo, List.length_cons]; omega

theorem ht_paLines_n (c : PPAIs) (rss : List (List PFromBody)) : (c.htLines rss).n = c.n + rss.flatten.length := by
  induction rss generalizing c with
  | nil => rfl
  | cons rs rss ih =>
    show ((c.htLine rs).htLines rss).n = _
    rw [ih, ht_paLine_n, List.flatten_cons, List.length_append]; omega

/-! ### (4) header blocks that mix generic and typed lines -/

/-- the value grammars of the typed lines, as predicates: the text at `i0` (right after the colon), the offset `e`
    after the line, and the object the value parser produces from a new object -/
def HtCallIDVal (b : Buf) (i0 e : Nat) (f : PCallIDBody) : Prop :=
  ∃ v j p, ∃ c2 : UInt8, Lws b i0 v ∧ TokenRun b v j ∧ v < j ∧ Lws b j p ∧ Eol b p e ∧ b[e]? = some c2 ∧ isWS c2 = false ∧
    f = { callID := ⟨v, j - v⟩, state := .fin }

def HtUIntVal (b : Buf) (i0 e : Nat) (f : PUIntBody) : Prop :=
  ∃ v j p, ∃ c2 : UInt8, Lws b i0 v ∧ Run isDigit b v j ∧ v < j ∧ decOf (digitsOf b v j) ≤ 4294967295 ∧ Lws b j p ∧
    Eol b p e ∧ b[e]? = some c2 ∧ isWS c2 = false ∧
    f = { uiVal := decOf (digitsOf b v j), sVal := ⟨v, j - v⟩, state := .fin }

/-- Content-Length: at most 9 digits, value at most 2^24 -/
def HtCLenVal (b : Buf) (i0 e : Nat) (f : PUIntBody) : Prop :=
  HtUIntVal b i0 e f ∧ f.sVal.len ≤ 9 ∧ f.uiVal ≤ 16777216

def HtCSeqVal (b : Buf) (i0 e : Nat) (f : PCSeqBody) : Prop :=
  ∃ v j m t p, ∃ c2 : UInt8, Lws b i0 v ∧ Run isDigit b v j ∧ v < j ∧ j - v ≤ 10 ∧ decOf (digitsOf b v j) ≤ 4294967295 ∧
    Lws b j m ∧ j < m ∧ TokenRun b m t ∧ m < t ∧ Lws b t p ∧ Eol b p e ∧ b[e]? = some c2 ∧ isWS c2 = false ∧
    f = { cseqNo := decOf (digitsOf b v j), methodNo := getMethodNo (b.extract m t), cseq := ⟨v, j - v⟩,
          method := ⟨m, t - m⟩, v := ⟨v, t - v⟩, state := .fin }

theorem HtCallIDVal.parse {b : Buf} {i0 e : Nat} {f : PCallIDBody} (H : HtCallIDVal b i0 e f) (hfit : b.size ≤ 65535) :
    parseCallIDVal b i0 {} = (e, .ok, f) ∧ i0 < e := by
  obtain ⟨v, j, p, c2, h1, h2, h3, h4, h5, h6, h7, rfl⟩ := H
  exact ⟨ht_callid_run b i0 v j p e hfit h1 h2 h3 h4 h5 h6 h7, by have := h1.le; have := h4.le; have := h5.gt; omega⟩

theorem HtUIntVal.parse {b : Buf} {i0 e : Nat} {f : PUIntBody} (H : HtUIntVal b i0 e f) (hfit : b.size ≤ 65535) :
    parseUIntVal b i0 {} = (e, .ok, f) ∧ i0 < e := by
  obtain ⟨v, j, p, c2, h1, h2, h3, h4, h5, h6, h7, h8, rfl⟩ := H
  exact ⟨ht_uint_run b i0 v j p e hfit h1 h2 h3 h4 h5 h6 h7 h8, by have := h1.le; have := h5.le; have := h6.gt; omega⟩

theorem HtCLenVal.parse {b : Buf} {i0 e : Nat} {f : PUIntBody} (H : HtCLenVal b i0 e f) (hfit : b.size ≤ 65535) :
    parseCLenVal b i0 {} = (e, .ok, f) ∧ i0 < e := by
  obtain ⟨⟨v, j, p, c2, h1, h2, h3, h4, h5, h6, h7, h8, rfl⟩, h9, h10⟩ := H
  exact ⟨ht_clen_run b i0 v j p e hfit h1 h2 h3 h9 h10 h5 h6 h7 h8, by have := h1.le; have := h5.le; have := h6.gt; omega⟩

theorem HtCSeqVal.parse {b : Buf} {i0 e : Nat} {f : PCSeqBody} (H : HtCSeqVal b i0 e f) (hfit : b.size ≤ 65535) :
    parseCSeqVal b i0 {} = (e, .ok, f) ∧ i0 < e := by
  obtain ⟨v, j, m, t, p, c2, h1, h2, h3, h4, h5, h6, h7, h8, h9, h10, h11, h12, h13, rfl⟩ := H
  exact ⟨ht_cseq_run b i0 v j m t p e hfit h1 h2 h3 h4 h5 h6 h7 h8 h9 h10 h11 h12 h13,
    by have := h1.le; have := h10.le; have := h11.gt; omega⟩

/-- the part of a header line up to the colon: name `[o, n)`, optional spaces / tabs, colon at `c` -/
def HtName (b : Buf) (o n c : Nat) : Prop := NameRun b o n ∧ o < n ∧ WsRun b n c ∧ n ≤ c ∧ b[c]? = some 58

/-- what a line contributes to the multi-valued objects -/
inductive HtEv where
  | other
  | contact (rs : List PFromBody)
  | pai (rs : List PFromBody)

/-- **a header line of a block parsed with a values object** `hv`: the line at `o`, the offset `e` after it, the
    header it denotes, the values object after it and its contribution to the Contact / PAI lists. Either a line
    scanned generically (`HdrLineAt`, for a type without value parser or a repeated single-valued header), or a
    line of one of the eight typed kinds whose value satisfies the value grammar of that kind (single-valued kinds:
    into a new component). -/
inductive HtLine (b : Buf) (o : Nat) (hv : PHdrVals) : Nat → Hdr → PHdrVals → HtEv → Prop
  | generic (e : Nat) (h : Hdr) : HdrLineAt b o e h → HtGen h.type hv → HtLine b o hv e h hv .other
  | from_ (n c e : Nat) (r : PFromBody) : HtName b o n c → getHdrType (b.extract o n) = HdrFrom → hv.from_ = {} →
      NAValue HdrFrom b (c + 1) e .ok r → HtLine b o hv e (hdrAt HdrFrom o n r.v .fin) { hv with from_ := r } .other
  | to (n c e : Nat) (r : PFromBody) : HtName b o n c → getHdrType (b.extract o n) = HdrTo → hv.to = {} →
      NAValue HdrTo b (c + 1) e .ok r → HtLine b o hv e (hdrAt HdrTo o n r.v .fin) { hv with to := r } .other
  | callid (n c e : Nat) (f : PCallIDBody) : HtName b o n c → getHdrType (b.extract o n) = HdrCallID →
      hv.callid = {} → HtCallIDVal b (c + 1) e f →
      HtLine b o hv e (hdrAt HdrCallID o n f.callID .fin) { hv with callid := f } .other
  | cseq (n c e : Nat) (f : PCSeqBody) : HtName b o n c → getHdrType (b.extract o n) = HdrCSeq →
      hv.cseq = {} → HtCSeqVal b (c + 1) e f →
      HtLine b o hv e (hdrAt HdrCSeq o n f.v .fin) { hv with cseq := f } .other
  | clen (n c e : Nat) (f : PUIntBody) : HtName b o n c → getHdrType (b.extract o n) = HdrCLen →
      hv.clen = {} → HtCLenVal b (c + 1) e f →
      HtLine b o hv e (hdrAt HdrCLen o n f.sVal .fin) { hv with clen := f } .other
  | expires (n c e : Nat) (f : PUIntBody) : HtName b o n c → getHdrType (b.extract o n) = HdrExpires →
      hv.expires = {} → HtUIntVal b (c + 1) e f →
      HtLine b o hv e (hdrAt HdrExpires o n f.sVal .fin) { hv with expires := f } .other
  | contact (n c e : Nat) (rs : List PFromBody) : HtName b o n c → getHdrType (b.extract o n) = HdrContact →
      ValList HdrContact b (c + 1) rs e →
      HtLine b o hv e (hdrAt HdrContact o n (htSpan rs) .fin) { hv with contacts := hv.contacts.htLine rs } (.contact rs)
  | pai (n c e : Nat) (rs : List PFromBody) : HtName b o n c → getHdrType (b.extract o n) = HdrPAI →
      ValList HdrPAI b (c + 1) rs e →
      HtLine b o hv e (hdrAt HdrPAI o n (htSpan rs) .fin) { hv with pais := hv.pais.htLine rs } (.pai rs)

/-- the multi-valued components are ready for a header line -/
def HtReady (hv : PHdrVals) : Prop := HtCtReady hv.contacts ∧ HtPaReady hv.pais

theorem HtName.lt {b : Buf} {o n c : Nat} (H : HtName b o n c) : o < c + 1 ∧ c < b.size := by
  obtain ⟨_, h1, _, h2, h3⟩ := H
  have := get?_lt h3; omega

/-- **ParseHdrLine on a line of a block** -/
theorem HtLine.parse {b : Buf} {o e : Nat} {hv hv' : PHdrVals} {h : Hdr} {ev : HtEv} (H : HtLine b o hv e h hv' ev)
    (hfit : b.size ≤ 65535) (hr : HtReady hv) :
    parseHdrLine b o {} (some hv) = (e, .ok, h, some hv') ∧ o < e ∧ o < b.size ∧ HtReady hv' := by
  cases H with
  | generic _ _ hline hg => have := hline.gt; exact ⟨hline.ht_parse hv hfit hg, this.1, by omega, hr⟩
  | from_ n c _ r hn ht hnew hval =>
    have := hn.lt; have := hval.range
    obtain ⟨h1, h2, h3, h4, h5⟩ := hn
    exact ⟨ht_from_value b o n c e r hv hfit h1 h2 h3 h4 h5 ht hnew hval, by omega, by omega, hr⟩
  | to n c _ r hn ht hnew hval =>
    have := hn.lt; have := hval.range
    obtain ⟨h1, h2, h3, h4, h5⟩ := hn
    exact ⟨ht_to_value b o n c e r hv hfit h1 h2 h3 h4 h5 ht hnew hval, by omega, by omega, hr⟩
  | callid n c _ f hn ht hnew hval =>
    have := hn.lt
    obtain ⟨h1, h2, h3, h4, h5⟩ := hn
    obtain ⟨hp, hlt⟩ := hval.parse hfit
    rw [← hnew] at hp
    have := ht_line_callid b o n c hv hfit h1 h2 h3 h4 h5 ht (by rw [hnew]; rfl) hp
    exact ⟨this, by omega, by omega, hr⟩
  | cseq n c _ f hn ht hnew hval =>
    have := hn.lt
    obtain ⟨h1, h2, h3, h4, h5⟩ := hn
    obtain ⟨hp, hlt⟩ := hval.parse hfit
    rw [← hnew] at hp
    have := ht_line_cseq b o n c hv hfit h1 h2 h3 h4 h5 ht (by rw [hnew]; rfl) hp
    exact ⟨this, by omega, by omega, hr⟩
  | clen n c _ f hn ht hnew hval =>
    have := hn.lt
    obtain ⟨h1, h2, h3, h4, h5⟩ := hn
    obtain ⟨hp, hlt⟩ := hval.parse hfit
    rw [← hnew] at hp
    have := ht_line_clen b o n c hv hfit h1 h2 h3 h4 h5 ht (by rw [hnew]; rfl) hp
    exact ⟨this, by omega, by omega, hr⟩
  | expires n c _ f hn ht hnew hval =>
    have := hn.lt
    obtain ⟨h1, h2, h3, h4, h5⟩ := hn
    obtain ⟨hp, hlt⟩ := hval.parse hfit
    rw [← hnew] at hp
    have := ht_line_expires b o n c hv hfit h1 h2 h3 h4 h5 ht (by rw [hnew]; rfl) hp
    exact ⟨this, by omega, by omega, hr⟩
  | contact n c _ rs hn ht hval =>
    have := hn.lt; have := ht_vallist_range hval
    obtain ⟨h1, h2, h3, h4, h5⟩ := hn
    exact ⟨ht_contact_values b o n c e rs hv hfit h1 h2 h3 h4 h5 ht hr.1 hval, by omega, by omega,
      ht_htLine_ready hv.contacts rs hr.1 hval.ne_nil (ht_vallist_fin hval), hr.2⟩
  | pai n c _ rs hn ht hval =>
    have := hn.lt; have := ht_vallist_range hval
    obtain ⟨h1, h2, h3, h4, h5⟩ := hn
    exact ⟨ht_pai_values b o n c e rs hv hfit h1 h2 h3 h4 h5 ht hr.2 hval, by omega, by omega,
      hr.1, ht_paLine_ready hv.pais rs hr.2 hval.ne_nil (ht_vallist_fin hval)⟩

/-- a header block parsed with a values object: lines one after the other (the values object threaded through them),
    then the empty line; `hs` are the headers denoted, `evs` the contributions to the Contact / PAI lists -/
inductive HtBlock (b : Buf) : Nat → PHdrVals → List Hdr → List HtEv → Nat → PHdrVals → Prop
  | nil (o e : Nat) (hv : PHdrVals) : EmptyLine b o e → HtBlock b o hv [] [] e hv
  | cons (o e1 e : Nat) (hv hv1 hv' : PHdrVals) (h : Hdr) (hs : List Hdr) (ev : HtEv) (evs : List HtEv) :
      HtLine b o hv e1 h hv1 ev → HtBlock b e1 hv1 hs evs e hv' → HtBlock b o hv (h :: hs) (ev :: evs) e hv'

/-- **ParseHeaders on a well-formed block with a values object**: one header per line, in order (generic and typed
    lines mixed), the values object as left by the typed lines, then the end of the block -/
theorem ht_parseHeaders_block (b : Buf) (hfit : b.size ≤ 65535) {o e : Nat} {hv hv' : PHdrVals} {hs : List Hdr}
    {evs : List HtEv} (H : HtBlock b o hv hs evs e hv') :
    ∀ (hl : HdrLst), HlsClean hl → hl.cur = {} → HtReady hv →
      parseHeaders b o hl (some hv) =
        (e, (if (hl.acceptAll hs).n > 0 then Err.ok else Err.empty), (hl.acceptAll hs).setCur { state := .fin },
          some hv') ∧ HtReady hv' := by
  induction H with
  | nil o e hv he =>
    intro hl _ hcur hr
    obtain ⟨hp, hlt⟩ := he.parse (some hv)
    refine ⟨?_, hr⟩
    rw [parseHeaders, if_pos hlt, hcur, hp]
    simp only [HdrLst.acceptAll, List.foldl_nil]
    by_cases hn : hl.n > 0 <;> simp only [hn, ↓reduceIte]
  | cons o e1 e hv hv1 hv' h hs ev evs hline _ ih =>
    intro hl hc hcur hr
    obtain ⟨hp, hlt, hsz, hr1⟩ := hline.parse hfit hr
    have hcl := accept_clean hl h hc
    obtain ⟨hrest, hr'⟩ := ih _ hcl.1 hcl.2 hr1
    refine ⟨?_, hr'⟩
    rw [parseHeaders, if_pos hsz, hcur, hp]
    simp only
    rw [if_pos hlt, hrest]
    rfl

/-- the value lists of the Contact lines of a block, in order -/
def htCtOf : List HtEv → List (List PFromBody)
  | [] => []
  | .contact rs :: evs => rs :: htCtOf evs
  | _ :: evs => htCtOf evs

/-- the value lists of the P-Asserted-Identity lines of a block, in order -/
def htPaOf : List HtEv → List (List PFromBody)
  | [] => []
  | .pai rs :: evs => rs :: htPaOf evs
  | _ :: evs => htPaOf evs

theorem HtLine.contacts {b : Buf} {o e : Nat} {hv hv' : PHdrVals} {h : Hdr} {ev : HtEv} (H : HtLine b o hv e h hv' ev) :
    hv'.contacts = hv.contacts.htLines (htCtOf [ev]) ∧ hv'.pais = hv.pais.htLines (htPaOf [ev]) := by
  cases H <;> exact ⟨rfl, rfl⟩

theorem ht_htLines_append (c : PContacts) (l1 l2 : List (List PFromBody)) :
    c.htLines (l1 ++ l2) = (c.htLines l1).htLines l2 := by
  unfold PContacts.htLines; rw [List.foldl_append]

theorem ht_paLines_append (c : PPAIs) (l1 l2 : List (List PFromBody)) :
    c.htLines (l1 ++ l2) = (c.htLines l1).htLines l2 := by
  unfold PPAIs.htLines; rw [List.foldl_append]

theorem htCtOf_cons (ev : HtEv) (evs : List HtEv) : htCtOf (ev :: evs) = htCtOf [ev] ++ htCtOf evs := by
  cases ev <;> rfl

theorem htPaOf_cons (ev : HtEv) (evs : List HtEv) : htPaOf (ev :: evs) = htPaOf [ev] ++ htPaOf evs := by
  cases ev <;> rfl

/-- **(3) the Contact values of a whole block**: whatever other headers stand between them, the contacts object
    after the block is the old one after the Contact lines of the block, in order (`htLines`: see `ht_htLines_hNo`,
    `ht_htLines_n`, `ht_htLines_stored`, `ht_htLines_maxE`, `ht_htLines_minE`); likewise P-Asserted-Identity -/
theorem HtBlock.contacts {b : Buf} {o e : Nat} {hv hv' : PHdrVals} {hs : List Hdr} {evs : List HtEv}
    (H : HtBlock b o hv hs evs e hv') :
    hv'.contacts = hv.contacts.htLines (htCtOf evs) ∧ hv'.pais = hv.pais.htLines (htPaOf evs) := by
  induction H with
  | nil o e hv _ => exact ⟨rfl, rfl⟩
  | cons o e1 e hv hv1 hv' h hs ev evs hline _ ih =>
    have := hline.contacts
    rw [htCtOf_cons, htPaOf_cons, ht_htLines_append, ht_paLines_append, ← this.1, ← this.2]
    exact ih

/-- every Contact line of a block has at least one value -/
theorem HtBlock.ct_ne {b : Buf} {o e : Nat} {hv hv' : PHdrVals} {hs : List Hdr} {evs : List HtEv}
    (H : HtBlock b o hv hs evs e hv') : ∀ rs ∈ htCtOf evs, rs ≠ [] := by
  induction H with
  | nil o e hv _ => intro rs hrs; cases hrs
  | cons o e1 e hv hv1 hv' h hs ev evs hline _ ih =>
    intro rs hrs
    cases hline with
    | contact n c _ rs' hn ht hval =>
      rcases List.mem_cons.1 hrs with h1 | h1
      · rw [h1]; exact hval.ne_nil
      · exact ih rs h1
    | _ => exact ih rs hrs

/-- a new list object (any capacity) satisfies the hypotheses of `ht_parseHeaders_block` -/
theorem ht_new_list_ok (k : Nat) :
    HlsClean ({ hdrs := Array.replicate k {} } : HdrLst) ∧ ({ hdrs := Array.replicate k {} } : HdrLst).cur = {} := by
  have hrep : ∀ j, j < (Array.replicate k ({} : Hdr)).size → (Array.replicate k ({} : Hdr))[j]! = {} := by
    intro j hj; simp at hj; simp [hj]
  refine ⟨⟨fun j _ hj => hrep j hj, fun _ => rfl⟩, ?_⟩
  unfold HdrLst.cur
  split
  · rename_i hin; exact hrep _ hin
  · rfl

/-! ### non-vacuity and tests -/

/-- the block used below: two Contact lines (compact name `m`) with a Via line (compact `v`) between them -/
abbrev htExB : Buf := "m:<a>\r\nv:x\r\nm:<b>,<c>\r\n\r\n".toUTF8.data

/-- the values object used below: new, with a contact array of two slots -/
abbrev htExHv : PHdrVals := { contacts := { vals := Array.replicate 2 {} } }

theorem htExHv_ready : HtReady htExHv := ⟨ht_ready_new 2, ht_paReady_new⟩

/-- `<x>` at `[o, o + 3)` as a name-addr value -/
theorem htEx_angle (h : Nat) (o o' : Nat) (e' : Err) (h0 : htExB[o]? = some 60) (h1 : runCheck isURIch htExB (o + 1) (o + 2) = true)
    (h2 : htExB[o + 2]? = some 62) (T : Term h htExB (o + 2 + 1) o' e') :
    NAValue h htExB o o' e' (naResult h {} ⟨o + 1, o + 2 - (o + 1)⟩ {} ⟨o, o + 2 + 1 - o⟩ {}) :=
  Or.inl ⟨o, o, o + 2, {}, .nil o, .none h0, run_of_check h1, by omega, h2, T, rfl⟩

/-- **the hypotheses of the block theorem are satisfiable** (non-vacuity): the block above is an `HtBlock` with a
    Contact line of one value, a generic line, and a Contact line of two values -/
theorem htEx_block : ∃ hs hv', HtBlock htExB 0 htExHv hs [.contact
      [naResult HdrContact {} ⟨3, 1⟩ {} ⟨2, 3⟩ {}], .other,
      .contact [naResult HdrContact {} ⟨15, 1⟩ {} ⟨14, 3⟩ {}, naResult HdrContact {} ⟨19, 1⟩ {} ⟨18, 3⟩ {}]] 25 hv' ∧
    hs.length = 3 := by
  have name1 : ∀ o : Nat, (∃ c, htExB[o]? = some c ∧ isLWSch c = false ∧ c ≠ 58) → htExB[o + 1]? = some 58 →
      HtName htExB o (o + 1) (o + 1) := by
    intro o ⟨c, h1, h2, h3⟩ h4
    refine ⟨fun k hk1 hk2 => ?_, by omega, fun k hk1 hk2 => by omega, Nat.le_refl _, h4⟩
    have : k = o := by omega
    subst this; exact ⟨c, h1, h2, h3⟩
  -- line 1: `m:<a>` CR LF
  have l1 : HtLine htExB 0 htExHv 7 _ _ (.contact [naResult HdrContact {} ⟨3, 1⟩ {} ⟨2, 3⟩ {}]) :=
    .contact 1 1 7 _ (name1 0 ⟨109, by decide, by decide, by decide⟩ (by decide)) (by decide +kernel)
      (.last 2 7 _ (htEx_angle HdrContact 2 7 .ok (by decide) (by decide) (by decide)
        (.eol 5 7 118 (.nil 5) (.crlf 5 (by decide) (by decide)) (by decide) (by decide))))
  -- line 2: `v:x` CR LF, generic
  have l2 : ∀ hv, HtLine htExB 7 hv 12 (hdrAt (getHdrType (htExB.extract 7 8)) 7 8 ⟨9, 10 - 9⟩ .fin) hv .other := by
    intro hv
    refine .generic 12 _ (Or.inl ⟨8, 8, 9, 10, 10, 109, (name1 7 ⟨118, by decide, by decide, by decide⟩ (by decide)).1,
      by decide, fun k h1 h2 => by omega, by decide, by decide, .nil 9, ?_, .crlf 10 (by decide) (by decide), by decide,
      by decide, rfl⟩) (Or.inl ?_)
    · refine .last 9 10 10 (fun k h1 h2 => ?_) (by decide) (.nil 10)
      have : k = 9 := by omega
      subst this; exact ⟨120, by decide, by decide⟩
    · show IsOther (getHdrType (htExB.extract 7 8))
      have ht : getHdrType (htExB.extract 7 8) = HdrVia := by decide +kernel
      rw [ht]; unfold IsOther; decide
  -- line 3: `m:<b>,<c>` CR LF
  have l3 : ∀ hv : PHdrVals, HtLine htExB 12 hv 23
      (hdrAt HdrContact 12 13 (htSpan [naResult HdrContact {} ⟨15, 1⟩ {} ⟨14, 3⟩ {}, naResult HdrContact {} ⟨19, 1⟩ {} ⟨18, 3⟩ {}]) .fin)
      { hv with contacts := hv.contacts.htLine [naResult HdrContact {} ⟨15, 1⟩ {} ⟨14, 3⟩ {}, naResult HdrContact {} ⟨19, 1⟩ {} ⟨18, 3⟩ {}] }
      (.contact [naResult HdrContact {} ⟨15, 1⟩ {} ⟨14, 3⟩ {}, naResult HdrContact {} ⟨19, 1⟩ {} ⟨18, 3⟩ {}]) := by
    intro hv
    exact .contact 13 13 23 _ (name1 12 ⟨109, by decide, by decide, by decide⟩ (by decide)) (by decide +kernel)
      (.cons 14 18 23 _ _ (htEx_angle HdrContact 14 18 .moreValues (by decide) (by decide) (by decide)
          (.comma 17 (.nil 17) (by decide) (by decide)))
        (.last 18 23 _ (htEx_angle HdrContact 18 23 .ok (by decide) (by decide) (by decide)
          (.eol 21 23 13 (.nil 21) (.crlf 21 (by decide) (by decide)) (by decide) (by decide)))))
  exact ⟨_, _, .cons 0 7 25 _ _ _ _ _ _ _ l1 (.cons 7 12 25 _ _ _ _ _ _ _ (l2 _) (.cons 12 23 25 _ _ _ _ _ _ _ (l3 _)
    (.nil 23 25 _ (.crlf 23 (by decide) (by decide))))), rfl⟩

/-- … and what the theorems say about it: ParseHeaders returns OK at offset 25 with three headers, the contacts
    object has seen two Contact lines and three values, of which the first two are stored in the array of two -/
example : ∃ hl' hv', parseHeaders htExB 0 { hdrs := Array.replicate 4 {} } (some htExHv) = (25, .ok, hl', some hv') ∧
    hl'.n = 3 ∧ hv'.contacts.hNo = 2 ∧ hv'.contacts.n = 3 ∧
    hv'.contacts.vals[0]! = naResult HdrContact {} ⟨3, 1⟩ {} ⟨2, 3⟩ {} ∧
    hv'.contacts.vals[1]! = naResult HdrContact {} ⟨15, 1⟩ {} ⟨14, 3⟩ {} := by
  obtain ⟨hs, hv', hb, hlen⟩ := htEx_block
  have hnew := ht_new_list_ok 4
  obtain ⟨hp, _⟩ := ht_parseHeaders_block htExB (by decide) hb _ hnew.1 hnew.2 htExHv_ready
  have hn : (({ hdrs := Array.replicate 4 {} } : HdrLst).acceptAll hs).n = 3 := by rw [acceptAll_n, hlen]
  refine ⟨_, hv', by rw [hp, hn]; rfl, by rw [hlSetCur_n, hn], ?_, ?_, ?_, ?_⟩
  · rw [hb.contacts.1, ht_htLines_hNo]; rfl
  · rw [hb.contacts.1, ht_htLines_n]; rfl
  · rw [hb.contacts.1]
    exact ht_htLines_stored htExHv.contacts _ 0 (by decide) (by decide)
  · rw [hb.contacts.1]
    exact ht_htLines_stored htExHv.contacts _ 1 (by decide) (by decide)

theorem ht_tokenrun_of_check {b : Buf} {i j : Nat} (h : runCheck (fun c => !isLWSch c) b i j = true) :
    TokenRun b i j := by
  intro k h1 h2
  obtain ⟨c, hc, hp⟩ := run_of_check h k h1 h2
  exact ⟨c, hc, by simpa using hp⟩

/-- the hypotheses of `ht_cseq_run` are satisfiable: `42 INVITE` CR LF followed by `X` -/
example : parseCSeqVal "42 INVITE\r\nX".toUTF8.data 0 {} =
    (11, .ok, { cseqNo := 42, methodNo := MInvite, cseq := ⟨0, 2⟩, method := ⟨3, 6⟩, v := ⟨0, 9⟩, state := .fin }) := by
  have := ht_cseq_run "42 INVITE\r\nX".toUTF8.data 0 0 2 3 9 9 11 (by decide) (.nil 0) (run_of_check (by decide))
    (by decide) (by decide) (by decide +kernel) (.ws 2 3 32 (by decide) (by decide) (.nil 3)) (by decide)
    (ht_tokenrun_of_check (by decide)) (by decide) (.nil 9) (.crlf 9 (by decide) (by decide)) (c2 := 88) (by decide)
    (by decide)
  rw [this]
  have e1 : decOf (digitsOf "42 INVITE\r\nX".toUTF8.data 0 2) = 42 := by decide +kernel
  have e2 : getMethodNo ("42 INVITE\r\nX".toUTF8.data.extract 3 9) = MInvite := by decide +kernel
  rw [e1, e2]

/-- the hypotheses of `ht_callid_value` are satisfiable: `i: a@b` CR LF followed by `X` (compact name, one space) -/
example : parseHdrLine "i: a@b\r\nX".toUTF8.data 0 {} (some {}) =
    (8, .ok, hdrAt HdrCallID 0 1 ⟨3, 3⟩ .fin, some { callid := { callID := ⟨3, 3⟩, state := .fin } }) := by
  refine ht_callid_value "i: a@b\r\nX".toUTF8.data 0 1 1 3 6 6 8 {} (by decide) (fun k h1 h2 => ?_) (by decide)
    (fun k h1 h2 => by omega) (by decide) (by decide) (by decide +kernel) rfl
    (.ws 2 3 32 (by decide) (by decide) (.nil 3)) (ht_tokenrun_of_check (by decide)) (by decide) (.nil 6)
    (.crlf 6 (by decide) (by decide)) (c2 := 88) (by decide) (by decide)
  have : k = 0 := by omega
  subst this; exact ⟨105, by decide, by decide, by decide⟩

/-- tests (evaluation of the model, not proofs of the property): with a values object the typed kinds do NOT accept
    what the generic scanner accepts — an empty value is "bad", a second token after a Call-ID is a bad character,
    a Content-Length written with ten digits is "number too big" whatever its value -/
example : (parseHdrLine "i:\r\nX".toUTF8.data 0 {} (some {})).2.1 = .bad ∧
    (parseHdrLine "i:\r\nX".toUTF8.data 0 {} none).2.1 = .ok ∧
    (parseHdrLine "i: a b\r\nX".toUTF8.data 0 {} (some {})).2.1 = .badChar ∧
    (parseHdrLine "i: a b\r\nX".toUTF8.data 0 {} none).2.2.1.val = ⟨3, 3⟩ ∧
    (parseHdrLine "l: 0000000001\r\nX".toUTF8.data 0 {} (some {})).2.1 = .numTooBig ∧
    (parseHdrLine "l: 0000000001\r\nX".toUTF8.data 0 {} (some {})).1 = 3 := by
  decide +kernel

/-- test: a second Call-ID header of the same message is scanned generically (`HtGen`) and leaves the object alone -/
example :
    let r := parseHdrLine "i: x y\r\nX".toUTF8.data 0 {} (some { callid := { callID := ⟨3, 3⟩, state := .fin } })
    r.1 = 8 ∧ r.2.1 = .ok ∧ r.2.2.1 = { type := HdrCallID, name := ⟨0, 1⟩, val := ⟨3, 3⟩, state := .fin } ∧
    r.2.2.2.map (·.callid) = some { callID := ⟨3, 3⟩, state := .fin } := by
  decide +kernel

end Sipsp
