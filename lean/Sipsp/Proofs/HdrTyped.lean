/-
  Sipsp.Proofs.HdrTyped — header lines of the eight header types with a dedicated value parser (From, To, Call-ID,
  CSeq, Content-Length, Contact, Expires, P-Asserted-Identity) when a values object is supplied: ParseHdrLine hands
  the text after the colon to the value parser and reports that parser's value span; accumulation of the Contact /
  P-Asserted-Identity values over several header lines of one message; header blocks that mix generic and typed
  lines.
-/
import Sipsp.Proofs.HdrSpec
import Sipsp.Proofs.NameAddrSpec
import Sipsp.Proofs.NumRun

namespace Sipsp

/-! ### (1) the line up to the colon, whatever follows -/

/-- the name `[o, n)`, optional spaces / tabs, the colon at `c`: ParseHdrLine arrives at the code after the colon
    (`hlAfterColon` at `c + 1`) with the name recorded; if that code finishes the line (typed path), its result is
    the result of ParseHdrLine -/
theorem ht_prefix_done (b : Buf) (o n c : Nat) (hb : Option PHdrVals) (hfit : b.size ≤ 65535)
    (hname : NameRun b o n) (hon : o < n) (hws : WsRun b n c) (hnc : n ≤ c) (hcolon : b[c]? = some 58)
    {o' : Nat} {e' : Err} {h' : Hdr} {hb' : Option PHdrVals}
    (hafter : hlAfterColon b (c + 1) (hdrAt 0 o n {} .bodyStart) hb = .done o' e' (h', hb')) :
    parseHdrLine b o {} hb = (o', e', h', hb') := by
  have hcl := get?_lt hcolon
  obtain ⟨c0, h0, hl0, _⟩ := hname o (Nat.le_refl _) hon
  have hc013 : (c0 == 13) = false := by
    unfold isLWSch at hl0; simp only [Bool.or_eq_false_iff] at hl0; exact hl0.1.2
  have hc010 : (c0 == 10) = false := by
    unfold isLWSch at hl0; simp only [Bool.or_eq_false_iff] at hl0; exact hl0.2
  have hnend : ∃ cn, b[n]? = some cn ∧ ((isWS cn = true ∧ n < c) ∨ (cn = 58 ∧ n = c)) := by
    by_cases h1 : n < c
    · obtain ⟨cn, hcn, hw⟩ := hws n (Nat.le_refl _) h1; exact ⟨cn, hcn, Or.inl ⟨hw, h1⟩⟩
    · have : n = c := by omega
      exact ⟨58, by rw [this]; exact hcolon, Or.inr ⟨rfl, this⟩⟩
  obtain ⟨cn, hcn, hcase⟩ := hnend
  have hstop : isLWSch cn = true ∨ cn = 58 := by
    rcases hcase with ⟨hw, _⟩ | ⟨h58, _⟩
    · left
      unfold isWS at hw; unfold isLWSch
      simp only [Bool.or_eq_true] at hw ⊢
      rcases hw with hw | hw
      · exact Or.inl (Or.inl (Or.inl hw))
      · exact Or.inl (Or.inl (Or.inr hw))
    · exact Or.inr h58
  have hsk : skipTokenDelim b o 58 = n := skipTokenDelim_run b o n (by omega) hname hcn hstop
  have hnm : (PField.set o o).extend n = ⟨o, n - o⟩ := set_extend o n (by omega) (by omega)
  have hxp : (PField.set o o).extendPanics n = false := by
    unfold PField.extendPanics PField.set trunc16; simp; have := Nat.mod_le o 65536; omega
  have hne : (({ offs := o, len := n - o } : PField).isEmpty) = false := by
    unfold PField.isEmpty; simp; omega
  unfold parseHdrLine
  rcases hcase with ⟨hw, hlt⟩ | ⟨h58, heq⟩
  · have hw58 : (cn == 58) = false := by
      unfold isWS at hw; simp only [Bool.or_eq_true, beq_iff_eq] at hw
      rcases hw with hw | hw <;> (rw [hw]; decide)
    have hstep1 : hlStep b o c0 (({} : Hdr), hb) = .cont (n + 1) (hdrAt 0 o n {} .nameEnd, hb) := by
      unfold hlStep hdrAt
      simp only [hc013, hc010, Bool.false_eq_true, ↓reduceIte]
      unfold hlName
      simp only [hsk, hcn, hw, ↓reduceIte, hnm, hxp, hne, Bool.false_eq_true, Bool.or_self]
    rw [runLoop_cont hlMachine h0 (by exact hstep1), if_pos (by omega)]
    have hn1 : ∃ y, b[n + 1]? = some y := by
      by_cases h1 : n + 1 < c
      · obtain ⟨y, hy, _⟩ := hws (n + 1) (by omega) h1; exact ⟨y, hy⟩
      · have : n + 1 = c := by omega
        rw [this]; exact ⟨58, hcolon⟩
    obtain ⟨y, hy⟩ := hn1
    have hskw : skipWS b (n + 1) = c :=
      skipWS_run b (n + 1) c (by omega) (fun k h1 h2 => hws k (by omega) h2) hcolon (by decide)
    have hstep2 : hlStep b (n + 1) y (hdrAt 0 o n {} .nameEnd, hb) = .done o' e' (h', hb') := by
      unfold hlStep
      show (match (hdrAt 0 o n {} .nameEnd).state with | _ => _) = _
      unfold hdrAt
      simp only [hskw, hcolon, beq_self_eq_true, ↓reduceIte]
      exact hafter
    rw [runLoop_done hlMachine hy (by exact hstep2)]
  · subst heq
    subst h58
    have hstep1 : hlStep b o c0 (({} : Hdr), hb) = .done o' e' (h', hb') := by
      unfold hlStep
      simp only [hc013, hc010, Bool.false_eq_true, ↓reduceIte]
      unfold hlName
      have hw58 : isWS (58 : UInt8) = false := by decide
      simp only [hsk, hcn, hw58, beq_self_eq_true, ↓reduceIte, hnm, hxp, hne, Bool.false_eq_true, Bool.or_self]
      exact hafter
    rw [runLoop_done hlMachine h0 (by exact hstep1)]

/-- the header reported on the typed path: finished with the value parser's span when the verdict is OK; otherwise
    the header stays in the state of its value parser (the caller resumes or gives up) with no value -/
def htHdr (t o n : Nat) (st : HState) (e : Err) (v : PField) : Hdr :=
  if e == .ok then hdrAt t o n v .fin else hdrAt t o n {} st

theorem htHdr_ok (t o n : Nat) (st : HState) (v : PField) : htHdr t o n st .ok v = hdrAt t o n v .fin := rfl

/-- `hlAfterColon` when `parseBody` took a typed branch -/
theorem ht_after_typed (b : Buf) (o n i : Nat) (hb hb2 : Option PHdrVals) (hon : o < n) (hn : n ≤ b.size)
    (hfit : b.size ≤ 65535) (S : HState) (hS : S ≠ .bodyStart) (n' : Nat) (e : Err) (V : PField)
    (hpb : parseBody b i (hdrAt (getHdrType (b.extract o n)) o n {} .bodyStart) hb =
      (n', e, { hdrAt (getHdrType (b.extract o n)) o n {} .bodyStart with state := S, val := if e == .ok then V else {} }, hb2)) :
    hlAfterColon b i (hdrAt 0 o n {} .bodyStart) hb =
      .done n' e (htHdr (getHdrType (b.extract o n)) o n S e V, hb2) := by
  unfold hlAfterColon
  have hget : PField.get? b (hdrAt 0 o n {} .bodyStart).name = some (b.extract o n) := by
    have := field_get? b o (n - o) (by omega) hfit
    show PField.get? b ⟨o, n - o⟩ = _
    rw [this]; congr 2; omega
  simp only [hget]
  have hh : ({ hdrAt 0 o n {} .bodyStart with type := getHdrType (b.extract o n) } : Hdr) =
      hdrAt (getHdrType (b.extract o n)) o n {} .bodyStart := rfl
  rw [hh, hpb]
  simp only
  have hne : (S != HState.bodyStart) = true := by simpa using hS
  rw [if_pos hne]
  unfold htHdr hdrAt
  cases e <;> rfl

/-! #### `parseBody` for the eight types -/

theorem ht_pb_from (b : Buf) (i : Nat) (h : Hdr) (hv : PHdrVals) (ht : h.type = HdrFrom)
    (hnp : hv.from_.parsed = false) {n' : Nat} {e : Err} {f : PFromBody}
    (hp : parseFromVal b i hv.from_ = (n', e, f)) :
    parseBody b i h (some hv) =
      (n', e, { h with state := .hFrom, val := if e == .ok then f.v else h.val }, some { hv with from_ := f }) := by
  unfold parseBody
  simp +decide only [ht, hnp, hp, ↓reduceIte, Bool.not_false]

theorem ht_pb_to (b : Buf) (i : Nat) (h : Hdr) (hv : PHdrVals) (ht : h.type = HdrTo)
    (hnp : hv.to.parsed = false) {n' : Nat} {e : Err} {f : PFromBody}
    (hp : parseNameAddrPVal HdrTo b i hv.to = (n', e, f)) :
    parseBody b i h (some hv) =
      (n', e, { h with state := .hTo, val := if e == .ok then f.v else h.val }, some { hv with to := f }) := by
  unfold parseBody
  simp +decide only [ht, hnp, hp, ↓reduceIte, Bool.not_false]

theorem ht_pb_callid (b : Buf) (i : Nat) (h : Hdr) (hv : PHdrVals) (ht : h.type = HdrCallID)
    (hnp : hv.callid.parsed = false) {n' : Nat} {e : Err} {f : PCallIDBody}
    (hp : parseCallIDVal b i hv.callid = (n', e, f)) :
    parseBody b i h (some hv) =
      (n', e, { h with state := .hCallID, val := if e == .ok then f.callID else h.val }, some { hv with callid := f }) := by
  unfold parseBody
  simp +decide only [ht, hnp, hp, ↓reduceIte, Bool.not_false]

theorem ht_pb_cseq (b : Buf) (i : Nat) (h : Hdr) (hv : PHdrVals) (ht : h.type = HdrCSeq)
    (hnp : hv.cseq.parsed = false) {n' : Nat} {e : Err} {f : PCSeqBody}
    (hp : parseCSeqVal b i hv.cseq = (n', e, f)) :
    parseBody b i h (some hv) =
      (n', e, { h with state := .hCSeq, val := if e == .ok then f.v else h.val }, some { hv with cseq := f }) := by
  unfold parseBody
  simp +decide only [ht, hnp, hp, ↓reduceIte, Bool.not_false]

theorem ht_pb_clen (b : Buf) (i : Nat) (h : Hdr) (hv : PHdrVals) (ht : h.type = HdrCLen)
    (hnp : hv.clen.parsed = false) {n' : Nat} {e : Err} {f : PUIntBody}
    (hp : parseCLenVal b i hv.clen = (n', e, f)) :
    parseBody b i h (some hv) =
      (n', e, { h with state := .hCLen, val := if e == .ok then f.sVal else h.val }, some { hv with clen := f }) := by
  unfold parseBody
  simp +decide only [ht, hnp, hp, ↓reduceIte, Bool.not_false]

theorem ht_pb_expires (b : Buf) (i : Nat) (h : Hdr) (hv : PHdrVals) (ht : h.type = HdrExpires)
    (hnp : hv.expires.parsed = false) {n' : Nat} {e : Err} {f : PUIntBody}
    (hp : parseUIntVal b i hv.expires = (n', e, f)) :
    parseBody b i h (some hv) =
      (n', e, { h with state := .hExpires, val := if e == .ok then f.sVal else h.val }, some { hv with expires := f }) := by
  unfold parseBody
  simp +decide only [ht, hnp, hp, ↓reduceIte, Bool.not_false]

/-- a new Contact header line: the header counter is bumped and the running extent of the line cleared -/
def PContacts.htBump (c : PContacts) : PContacts := { c with hNo := c.hNo + 1, lastHVal := {} }
def PPAIs.htBump (c : PPAIs) : PPAIs := { c with hNo := c.hNo + 1, lastHVal := {} }

theorem ht_pb_contact (b : Buf) (i : Nat) (h : Hdr) (hv : PHdrVals) (ht : h.type = HdrContact)
    (hst : h.state = .bodyStart) {n' : Nat} {e : Err} {f : PContacts}
    (hp : parseAllContactValues b i hv.contacts.htBump = (n', e, f)) :
    parseBody b i h (some hv) =
      (n', e, { h with state := .hContact, val := if e == .ok then f.lastHVal else h.val }, some { hv with contacts := f }) := by
  unfold parseBody
  unfold PContacts.htBump at hp
  simp +decide only [ht, hst, hp, ↓reduceIte]

theorem ht_pb_pai (b : Buf) (i : Nat) (h : Hdr) (hv : PHdrVals) (ht : h.type = HdrPAI)
    (hst : h.state = .bodyStart) {n' : Nat} {e : Err} {f : PPAIs}
    (hp : parseAllPAIValues b i hv.pais.htBump = (n', e, f)) :
    parseBody b i h (some hv) =
      (n', e, { h with state := .hPAI, val := if e == .ok then f.lastHVal else h.val }, some { hv with pais := f }) := by
  unfold parseBody
  unfold PPAIs.htBump at hp
  simp +decide only [ht, hst, hp, ↓reduceIte]

end Sipsp
