/-
  Sipsp.Proofs.SafeNALo — a lower bound for the value field of a name-addr object: once the parser has left the
  initial state, the value starts at or after the offset at which the parse of this value began.
-/
import Sipsp.Proofs.SafeVals

namespace Sipsp

/-- still in the initial state, or the value field starts at or after `lo` -/
def VLo (lo : Nat) (pf : PFromBody) : Prop := pf.state = .init ∨ lo ≤ pf.v.offs

theorem setFromParamVal_v (b : Buf) (pf : PFromBody) : (setFromParamVal b pf).v = pf.v := (setFromParamVal_vp b pf).1

/-- closes `VLo lo X` for an updated object `X`, given `hI : VLo lo pf`, `hlo : lo ≤ i`, `hfit : i < 65536` -/
macro "vlo_tac" hI:ident : tactic =>
  `(tactic| (have hm : ∀ x : Nat, x < 65536 → x % 65536 = x := fun x hx => Nat.mod_eq_of_lt hx
             unfold VLo at *
             simp only [PFromBody.setURI, PFromBody.setName, PFromBody.setV, PFromBody.extV, PFromBody.extParams,
               PFromBody.resetUPT, PFromBody.saveS, PField.set, PField.extend, trunc16, setFromParamVal_v,
               setFromParamVal_state] at *
             rcases $hI:ident with hh | hh
             · first
                 | (left; exact hh)
                 | (exfalso; simp_all; done)
                 | (right; rw [hm _ (by omega)]; omega)
                 | (right; omega)
             · first
                 | (right; exact hh)
                 | (right; rw [hm _ (by omega)]; omega)
                 | (right; omega)))

theorem naLWS_vlo (h : Nat) (b : Buf) (i lo : Nat) (pf : PFromBody) (hI : VLo lo pf)
    {i' : Nat} {st' : PFromBody} (hs : naLWS h b i pf = .cont i' st') : VLo lo st' := by
  unfold naLWS at hs
  rw [lwsStd_cont_state b i pf _ _ hs]; exact hI

theorem naStepA_vlo (h : Nat) (b : Buf) (i lo : Nat) (c : UInt8) (pf : PFromBody) (hlo : lo ≤ i) (hfit : i < 65536)
    (hI : VLo lo pf) {i' : Nat} {st' : PFromBody} (hs : naStepA h b i c pf = .cont i' st') : VLo lo st' := by
  unfold naStepA at hs
  repeat' (split at hs)
  all_goals first
    | exact naLWS_vlo h b i lo _ hI hs
    | (refine naLWS_vlo h b i lo _ ?_ hs
       vlo_tac hI)
    | exact absurd hs (naMoreValues_not_cont h b _ i)
    | (cases hs
       first | exact hI | vlo_tac hI)
    | cases hs

theorem naStepQ_vlo (h : Nat) (b : Buf) (i lo : Nat) (c : UInt8) (pf : PFromBody) (hlo : lo ≤ i) (hfit : i < 65536)
    (hni : pf.state ≠ .init) (hI0 : VLo lo pf) {i' : Nat} {st' : PFromBody} (hs : naStepQ h b i c pf = .cont i' st') : VLo lo st' := by
  have hI : VLo lo pf := Or.inr (by rcases hI0 with h0 | h0; exact absurd h0 hni; exact h0)
  clear hI0
  unfold naStepQ at hs
  repeat' (split at hs)
  all_goals first
    | exact naLWS_vlo h b i lo _ hI hs
    | (cases hs
       first | exact hI | vlo_tac hI)
    | cases hs

theorem naStepU_vlo (i lo : Nat) (c : UInt8) (pf : PFromBody) (hlo : lo ≤ i) (hfit : i < 65536)
    (hni : pf.state ≠ .init) (hI0 : VLo lo pf) {i' : Nat} {st' : PFromBody} (hs : naStepU i c pf = .cont i' st') : VLo lo st' := by
  have hI : VLo lo pf := Or.inr (by rcases hI0 with h0 | h0; exact absurd h0 hni; exact h0)
  clear hI0
  unfold naStepU at hs
  repeat' (split at hs)
  all_goals first
    | (cases hs
       first | exact hI | vlo_tac hI)
    | cases hs

theorem naStepUF_vlo (h : Nat) (b : Buf) (i lo : Nat) (c : UInt8) (pf : PFromBody) (hlo : lo ≤ i) (hfit : i < 65536)
    (hni : pf.state ≠ .init) (hI0 : VLo lo pf) {i' : Nat} {st' : PFromBody} (hs : naStepUF h b i c pf = .cont i' st') : VLo lo st' := by
  have hI : VLo lo pf := Or.inr (by rcases hI0 with h0 | h0; exact absurd h0 hni; exact h0)
  clear hI0
  unfold naStepUF at hs
  repeat' (split at hs)
  all_goals first
    | exact naLWS_vlo h b i lo _ hI hs
    | exact absurd hs (naMoreValues_not_cont h b _ i)
    | (cases hs
       first | exact hI | vlo_tac hI)
    | cases hs

theorem naStepStar_vlo (h : Nat) (b : Buf) (i lo : Nat) (c : UInt8) (pf : PFromBody) (hlo : lo ≤ i) (hfit : i < 65536)
    (hni : pf.state ≠ .init) (hI0 : VLo lo pf) {i' : Nat} {st' : PFromBody} (hs : naStepStar h b i c pf = .cont i' st') : VLo lo st' := by
  have hI : VLo lo pf := Or.inr (by rcases hI0 with h0 | h0; exact absurd h0 hni; exact h0)
  clear hI0
  unfold naStepStar at hs
  repeat' (split at hs)
  all_goals first
    | exact naLWS_vlo h b i lo _ hI hs
    | (cases hs
       first | exact hI | vlo_tac hI)
    | cases hs

theorem naStepPE_vlo (h : Nat) (b : Buf) (i lo : Nat) (c : UInt8) (pf : PFromBody) (hlo : lo ≤ i) (hfit : i < 65536)
    (hni : pf.state ≠ .init) (hI0 : VLo lo pf) {i' : Nat} {st' : PFromBody} (hs : naStepPE h b i c pf = .cont i' st') : VLo lo st' := by
  have hI : VLo lo pf := Or.inr (by rcases hI0 with h0 | h0; exact absurd h0 hni; exact h0)
  clear hI0
  unfold naStepPE at hs
  repeat' (split at hs)
  all_goals first
    | exact absurd hs (naCommaAfterWS_not_cont h b _ i _)
    | (cases hs
       first | exact hI | vlo_tac hI)
    | cases hs

theorem naStepVE_vlo (h : Nat) (b : Buf) (i lo : Nat) (c : UInt8) (pf : PFromBody) (hlo : lo ≤ i) (hfit : i < 65536)
    (hni : pf.state ≠ .init) (hI0 : VLo lo pf) {i' : Nat} {st' : PFromBody} (hs : naStepVE h b i c pf = .cont i' st') : VLo lo st' := by
  have hI : VLo lo pf := Or.inr (by rcases hI0 with h0 | h0; exact absurd h0 hni; exact h0)
  clear hI0
  unfold naStepVE at hs
  repeat' (split at hs)
  all_goals first
    | exact absurd hs (naCommaAfterWS_not_cont h b _ i _)
    | (cases hs
       first | exact hI | vlo_tac hI)
    | cases hs

theorem naNameWS_vlo (lo : Nat) (pf : PFromBody) (i : Nat) (hI : VLo lo pf) (hni : pf.state ≠ .init) :
    VLo lo (naNameWS pf i) := by
  rcases hI with hI | hI
  · exact absurd hI hni
  · right; unfold naNameWS; repeat' split
    all_goals exact hI

theorem naValWS_vlo (lo : Nat) (pf : PFromBody) (i n : Nat) (ok : Bool) (hI : VLo lo pf) (hni : pf.state ≠ .init) :
    VLo lo (naValWS pf i n ok) := by
  rcases hI with hI | hI
  · exact absurd hI hni
  · right; unfold naValWS; repeat' split
    all_goals exact hI

theorem naParam_vlo (lo : Nat) (pf : PFromBody) (i : Nat) (hI : VLo lo pf) (hni : pf.state ≠ .init) :
    VLo lo (naParamsOffs (naParamStart pf i) i) := by
  rcases hI with hI | hI
  · exact absurd hI hni
  · right; unfold naParamsOffs naParamStart; repeat' split
    all_goals exact hI

theorem naStepP_vlo (h : Nat) (b : Buf) (i lo : Nat) (c : UInt8) (pf : PFromBody) (hlo : lo ≤ i) (hfit : i < 65536)
    (hni : pf.state ≠ .init)
    (hI0 : VLo lo pf) {i' : Nat} {st' : PFromBody} (hs : naStepP h b i c pf = .cont i' st') : VLo lo st' := by
  have hI : VLo lo pf := Or.inr (by rcases hI0 with h0 | h0; exact absurd h0 hni; exact h0)
  clear hI0
  unfold naStepP at hs
  split at hs
  · rcases hsk : skipLWS b i 0 with ⟨n, crl, e⟩
    rw [hsk] at hs
    cases e <;> simp only at hs <;> cases hs
    exact naNameWS_vlo lo pf i hI hni
  · repeat' (split at hs)
    all_goals first
      | exact absurd hs (naMoreValues_not_cont h b _ i)
      | (cases hs; exact naParam_vlo lo pf i hI hni)
      | (cases hs
         first | exact hI | vlo_tac hI)
      | cases hs

theorem naStepV_vlo (h : Nat) (b : Buf) (i lo : Nat) (c : UInt8) (pf : PFromBody) (hlo : lo ≤ i) (hfit : i < 65536)
    (hni : pf.state ≠ .init)
    (hI0 : VLo lo pf) {i' : Nat} {st' : PFromBody} (hs : naStepV h b i c pf = .cont i' st') : VLo lo st' := by
  have hI : VLo lo pf := Or.inr (by rcases hI0 with h0 | h0; exact absurd h0 hni; exact h0)
  clear hI0
  unfold naStepV at hs
  split at hs
  · rcases hsk : skipLWS b i 0 with ⟨n, crl, e⟩
    rw [hsk] at hs
    cases e <;> simp only at hs <;> cases hs
    exact naValWS_vlo lo pf i _ true hI hni
  · repeat' (split at hs)
    all_goals first
      | exact absurd hs (naMoreValues_not_cont h b _ i)
      | (cases hs
         first | exact hI | vlo_tac hI)
      | cases hs

/-- the lower bound is preserved by every continuing step (positions within the 16-bit range) -/
theorem na_vloCont (h : Nat) (b : Buf) (i lo : Nat) (c : UInt8) (pf : PFromBody) (hlo : lo ≤ i) (hfit : i < 65536)
    (hI : VLo lo pf) {i' : Nat} {st' : PFromBody} (hs : naStep h b i c pf = .cont i' st') : VLo lo st' := by
  unfold naStep at hs
  split at hs
  all_goals first
    | exact naStepA_vlo h b i lo c pf hlo hfit hI hs
    | exact naStepQ_vlo h b i lo c pf hlo hfit (by simp [*]) hI hs
    | exact naStepU_vlo i lo c pf hlo hfit (by simp [*]) hI hs
    | exact naStepUF_vlo h b i lo c pf hlo hfit (by simp [*]) hI hs
    | exact naStepP_vlo h b i lo c pf hlo hfit (by simp [*]) hI hs
    | exact naStepPE_vlo h b i lo c pf hlo hfit (by simp [*]) hI hs
    | exact naStepV_vlo h b i lo c pf hlo hfit (by simp [*]) hI hs
    | exact naStepVE_vlo h b i lo c pf hlo hfit (by simp [*]) hI hs
    | exact naStepStar_vlo h b i lo c pf hlo hfit (by simp [*]) hI hs
    | (cases hs; exact hI)

/-! ### exits -/

theorem naEOHParamName_voffs (b : Buf) (pf : PFromBody) (e : Nat) : (naEOHParamName b pf e).v.offs = pf.v.offs := by
  unfold naEOHParamName
  simp only
  show (PField.extend _ e).offs = _
  unfold PField.extend
  simp only
  repeat' split
  all_goals first
    | rfl
    | (simp only [PFromBody.extParams, setFromParamVal_v])

theorem naEOH_voffs (h : Nat) (b : Buf) (pf : PFromBody) (e n crl : Nat) (r : Err) :
    (naEOH h b pf e n crl r).2.2.v.offs = pf.v.offs ∨ pf.state = .star := by
  unfold naEOH
  cases hst : pf.state <;> simp only [naFinish]
  all_goals first
    | exact Or.inr rfl
    | (left; rfl)
    | (left; exact naEOHParamName_voffs b pf e)
    | (left; unfold naEOHVal
       simp only [PFromBody.extV, PFromBody.extParams, PField.extend, setFromParamVal_v])
    | (left; simp only [PFromBody.extV, PFromBody.extParams, PFromBody.setURI, PField.extend, setFromParamVal_v])

theorem naEOH_vlo (h : Nat) (b : Buf) (lo : Nat) (pf : PFromBody) (e n crl : Nat) (r : Err) (hI : VLo lo pf)
    (hc : Err.complete (naEOH h b pf e n crl r).2.1) : lo ≤ (naEOH h b pf e n crl r).2.2.v.offs := by
  have hni : pf.state ≠ .init := by
    intro hi
    unfold naEOH at hc
    rw [hi] at hc
    rcases hc with hc | hc <;> cases hc
  have hv : lo ≤ pf.v.offs := by rcases hI with h0 | h0; exact absurd h0 hni; exact h0
  rcases naEOH_voffs h b pf e n crl r with h1 | h1
  · rw [h1]; exact hv
  · unfold naEOH; rw [h1]; exact hv

/-- lower-bound facts of a finishing step -/
def VDone (lo : Nat) (e : Err) (st' : PFromBody) : Prop :=
  (Err.complete e → lo ≤ st'.v.offs) ∧ (e = .moreBytes → VLo lo st')

theorem VDone.err {lo : Nat} {e : Err} {st' : PFromBody} (h1 : e ≠ .ok) (h2 : e ≠ .moreValues) (h3 : e ≠ .moreBytes) :
    VDone lo e st' :=
  ⟨(fun hc => by rcases hc with hc | hc; exact absurd hc h1; exact absurd hc h2), fun hh => absurd hh h3⟩

theorem VDone.more {lo : Nat} {st' : PFromBody} (h : VLo lo st') : VDone lo .moreBytes st' :=
  ⟨(fun hc => by rcases hc with hc | hc <;> cases hc), fun _ => h⟩

theorem VLo.saveS {lo : Nat} {pf : PFromBody} (h : VLo lo pf) : VLo lo pf.saveS := h

theorem naEOH_vdone (h : Nat) (b : Buf) (lo : Nat) (pf : PFromBody) (e n crl : Nat) (r : Err) (hr : r ≠ .moreBytes)
    (hI : VLo lo pf) : VDone lo (naEOH h b pf e n crl r).2.1 (naEOH h b pf e n crl r).2.2 :=
  ⟨naEOH_vlo h b lo pf e n crl r hI, fun hh => absurd hh (naEOH_ne_more h b pf e n crl r hr)⟩

theorem naLWS_vdone (h : Nat) (b : Buf) (i lo : Nat) (pf : PFromBody) (hI : VLo lo pf)
    {o : Nat} {e : Err} {st' : PFromBody} (hs : naLWS h b i pf = .done o e st') : VDone lo e st' := by
  unfold naLWS lwsStd at hs
  rcases hsk : skipLWS b i 0 with ⟨n, crl, e1⟩
  rw [hsk] at hs
  have hv := skipLWS_verdicts b i 0 hsk
  rcases hv with rfl | rfl | rfl | rfl <;> simp only at hs
  · cases hs
  · simp only [Step.done.injEq] at hs
    obtain ⟨rfl, rfl, rfl⟩ := hs
    exact naEOH_vdone h b lo pf i n crl .ok (by decide) hI
  · cases hs; exact VDone.err (by decide) (by decide) (by decide)
  · cases hs; exact VDone.more hI.saveS

theorem naMoreValues_vdone (h : Nat) (b : Buf) (lo : Nat) (pf : PFromBody) (i : Nat) (hI : VLo lo pf)
    {o : Nat} {e : Err} {st' : PFromBody} (hs : naMoreValues h b pf i = .done o e st') : VDone lo e st' := by
  unfold naMoreValues at hs
  simp only [Step.done.injEq] at hs
  obtain ⟨rfl, rfl, rfl⟩ := hs
  exact naEOH_vdone h b lo pf i i 1 .moreValues (by decide) hI

theorem naCommaAfterWS_vdone (h : Nat) (b : Buf) (lo : Nat) (pf : PFromBody) (i e : Nat) (hI : VLo lo pf)
    {o : Nat} {e' : Err} {st' : PFromBody} (hs : naCommaAfterWS h b pf i e = .done o e' st') : VDone lo e' st' := by
  unfold naCommaAfterWS at hs
  split at hs
  · simp only [Step.done.injEq] at hs
    obtain ⟨rfl, rfl, rfl⟩ := hs
    exact naEOH_vdone h b lo pf e i 1 .moreValues (by decide) hI
  · cases hs; exact VDone.err (by decide) (by decide) (by decide)

theorem naStepA_vdone (h : Nat) (b : Buf) (i lo : Nat) (c : UInt8) (pf : PFromBody) (hlo : lo ≤ i) (hfit : i < 65536)
    (hI : VLo lo pf) {o : Nat} {e : Err} {st' : PFromBody} (hs : naStepA h b i c pf = .done o e st') :
    VDone lo e st' := by
  unfold naStepA at hs
  repeat' (split at hs)
  all_goals first
    | exact naLWS_vdone h b i lo _ hI hs
    | (refine naLWS_vdone h b i lo _ ?_ hs
       vlo_tac hI)
    | exact naMoreValues_vdone h b lo _ i hI hs
    | (cases hs <;> exact VDone.err (by decide) (by decide) (by decide))

theorem naStepQ_vdone (h : Nat) (b : Buf) (i lo : Nat) (c : UInt8) (pf : PFromBody)
    (hI : VLo lo pf) {o : Nat} {e : Err} {st' : PFromBody} (hs : naStepQ h b i c pf = .done o e st') :
    VDone lo e st' := by
  unfold naStepQ at hs
  repeat' (split at hs)
  all_goals first
    | exact naLWS_vdone h b i lo _ hI hs
    | (cases hs; exact VDone.more hI.saveS)
    | (cases hs <;> exact VDone.err (by decide) (by decide) (by decide))

theorem naStepU_vdone (i lo : Nat) (c : UInt8) (pf : PFromBody)
    {o : Nat} {e : Err} {st' : PFromBody} (hs : naStepU i c pf = .done o e st') : VDone lo e st' := by
  unfold naStepU at hs
  repeat' (split at hs)
  all_goals (cases hs <;> exact VDone.err (by decide) (by decide) (by decide))

theorem naStepUF_vdone (h : Nat) (b : Buf) (i lo : Nat) (c : UInt8) (pf : PFromBody)
    (hI : VLo lo pf) {o : Nat} {e : Err} {st' : PFromBody} (hs : naStepUF h b i c pf = .done o e st') :
    VDone lo e st' := by
  unfold naStepUF at hs
  repeat' (split at hs)
  all_goals first
    | exact naLWS_vdone h b i lo _ hI hs
    | exact naMoreValues_vdone h b lo _ i hI hs
    | (cases hs <;> exact VDone.err (by decide) (by decide) (by decide))

theorem naStepStar_vdone (h : Nat) (b : Buf) (i lo : Nat) (c : UInt8) (pf : PFromBody)
    (hI : VLo lo pf) {o : Nat} {e : Err} {st' : PFromBody} (hs : naStepStar h b i c pf = .done o e st') :
    VDone lo e st' := by
  unfold naStepStar at hs
  split at hs
  · exact naLWS_vdone h b i lo _ hI hs
  · cases hs; exact VDone.err (by decide) (by decide) (by decide)

theorem naStepP_vdone (h : Nat) (b : Buf) (i lo : Nat) (c : UInt8) (pf : PFromBody) (hni : pf.state ≠ .init)
    (hI : VLo lo pf) {o : Nat} {e : Err} {st' : PFromBody} (hs : naStepP h b i c pf = .done o e st') :
    VDone lo e st' := by
  unfold naStepP at hs
  split at hs
  · rcases hsk : skipLWS b i 0 with ⟨n, crl, e1⟩
    rw [hsk] at hs
    have hv := skipLWS_verdicts b i 0 hsk
    rcases hv with rfl | rfl | rfl | rfl <;> simp only at hs
    · cases hs
    · simp only [Step.done.injEq] at hs
      obtain ⟨rfl, rfl, rfl⟩ := hs
      exact naEOH_vdone h b lo _ i n crl .ok (by decide) (naNameWS_vlo lo pf i hI hni)
    · cases hs; exact VDone.err (by decide) (by decide) (by decide)
    · cases hs; exact VDone.more hI.saveS
  · repeat' (split at hs)
    all_goals first
      | exact naMoreValues_vdone h b lo _ i hI hs
      | (cases hs <;> exact VDone.err (by decide) (by decide) (by decide))

theorem naStepV_vdone (h : Nat) (b : Buf) (i lo : Nat) (c : UInt8) (pf : PFromBody) (hni : pf.state ≠ .init)
    (hI : VLo lo pf) {o : Nat} {e : Err} {st' : PFromBody} (hs : naStepV h b i c pf = .done o e st') :
    VDone lo e st' := by
  unfold naStepV at hs
  split at hs
  · rcases hsk : skipLWS b i 0 with ⟨n, crl, e1⟩
    rw [hsk] at hs
    have hv := skipLWS_verdicts b i 0 hsk
    rcases hv with rfl | rfl | rfl | rfl <;> simp only at hs
    · cases hs
    · simp only [Step.done.injEq] at hs
      obtain ⟨rfl, rfl, rfl⟩ := hs
      exact naEOH_vdone h b lo _ i n crl .ok (by decide) (naValWS_vlo lo pf i _ false hI hni)
    · cases hs; exact VDone.err (by decide) (by decide) (by decide)
    · cases hs; exact VDone.more hI.saveS
  · repeat' (split at hs)
    all_goals first
      | exact naMoreValues_vdone h b lo _ i hI hs
      | (cases hs <;> exact VDone.err (by decide) (by decide) (by decide))

theorem naStepPE_vdone (h : Nat) (b : Buf) (i lo : Nat) (c : UInt8) (pf : PFromBody)
    (hI : VLo lo pf) {o : Nat} {e : Err} {st' : PFromBody} (hs : naStepPE h b i c pf = .done o e st') :
    VDone lo e st' := by
  unfold naStepPE at hs
  repeat' (split at hs)
  all_goals first
    | exact naCommaAfterWS_vdone h b lo pf i _ hI hs
    | (cases hs <;> exact VDone.err (by decide) (by decide) (by decide))

theorem naStepVE_vdone (h : Nat) (b : Buf) (i lo : Nat) (c : UInt8) (pf : PFromBody)
    (hI : VLo lo pf) {o : Nat} {e : Err} {st' : PFromBody} (hs : naStepVE h b i c pf = .done o e st') :
    VDone lo e st' := by
  unfold naStepVE at hs
  repeat' (split at hs)
  all_goals first
    | exact naCommaAfterWS_vdone h b lo pf i _ hI hs
    | (cases hs <;> exact VDone.err (by decide) (by decide) (by decide))

theorem naStep_vdone (h : Nat) (b : Buf) (i lo : Nat) (c : UInt8) (pf : PFromBody) (hlo : lo ≤ i) (hfit : i < 65536)
    (hI : VLo lo pf) {o : Nat} {e : Err} {st' : PFromBody} (hs : naStep h b i c pf = .done o e st') :
    VDone lo e st' := by
  unfold naStep at hs
  split at hs
  all_goals first
    | exact naStepA_vdone h b i lo c pf hlo hfit hI hs
    | exact naStepQ_vdone h b i lo c pf hI hs
    | exact naStepU_vdone i lo c pf hs
    | exact naStepUF_vdone h b i lo c pf hI hs
    | exact naStepP_vdone h b i lo c pf (by simp [*]) hI hs
    | exact naStepPE_vdone h b i lo c pf hI hs
    | exact naStepV_vdone h b i lo c pf (by simp [*]) hI hs
    | exact naStepVE_vdone h b i lo c pf hI hs
    | exact naStepStar_vdone h b i lo c pf hI hs
    | cases hs

/-- **lower bound for ParseNameAddrPVal** (buffers within the 65,535-byte limit): after OK / MoreValues the value
    field starts at or after `lo`, the offset at which the parse of this value began; after MoreBytes the
    bound is carried on -/
theorem parseNameAddrPVal_vlo (h : Nat) (b : Buf) (o lo : Nat) (pf : PFromBody) (hfit : b.size ≤ 65535)
    (hlo : lo ≤ o) (hnf : pf.state ≠ .fin) (hI : VLo lo pf)
    {o' : Nat} {e : Err} {pf' : PFromBody} (hr : parseNameAddrPVal h b o pf = (o', e, pf')) : VDone lo e pf' := by
  unfold parseNameAddrPVal at hr
  rw [if_neg hnf] at hr
  simp only [Prod.mk.injEq] at hr
  obtain ⟨rfl, rfl, rfl⟩ := hr
  have key := runLoop_inv (naMachine h) b (fun i st => lo ≤ i ∧ VLo lo st)
    (fun r => VDone lo r.2.1 r.2.2)
    (by
      intro i c st i' st' hb hP hs
      have hlt := get?_lt hb
      exact ⟨fun hlt' => ⟨by omega, na_vloCont h b i lo c st hP.1 (by omega) hP.2 hs⟩,
        fun _ => VDone.err (by intro hh; cases hh) (by intro hh; cases hh) (by intro hh; cases hh)⟩)
    (by
      intro i c st o1 e1 st1 hb hP hs
      have hlt := get?_lt hb
      exact naStep_vdone h b i lo c st hP.1 (by omega) hP.2 hs)
    (by
      intro i st _ hP
      exact VDone.more hP.2.saveS)
    o { pf with s := pf.soffs, soffs := 0 } ⟨hlo, hI⟩
  unfold naExit
  split
  · exact ⟨key.1, key.2⟩
  · exact ⟨key.1, key.2⟩

end Sipsp
