/-
  Sipsp.Proofs.Schedule — from the one-step resumption law (L2) to arbitrary chunk schedules.
-/
import Sipsp.Model.Basic

namespace Sipsp

variable {σ : Type}

/-- a streaming parser: buffer, start/continuation offset, object ↦ (offset, verdict, object) -/
abbrev Parser (σ : Type) := Buf → Nat → σ → Nat × Err × σ

/-- one-step resumption law -/
def Resumable (P : Parser σ) : Prop :=
  ∀ b s o st o' st', P b o st = (o', Err.moreBytes, st') → P (b ++ s) o' st' = P (b ++ s) o st

/-- each buffer of the list is the previous one followed by some more bytes -/
def Growing : List Buf → Prop
  | [] => True
  | [_] => True
  | b :: b' :: rest => (∃ s, b' = b ++ s) ∧ Growing (b' :: rest)

/-- the caller's loop: call on the first prefix; while the verdict is "more bytes" call again on the
    next prefix with the returned offset and the same object; stop at the first definitive verdict. -/
def resumeRun (P : Parser σ) (o : Nat) (st : σ) : List Buf → Nat × Err × σ
  | [] => (o, Err.moreBytes, st)
  | [b] => P b o st
  | b :: b' :: rest =>
    match P b o st with
    | (o', Err.moreBytes, st') => resumeRun P o' st' (b' :: rest)
    | r => r

/-- what fresh one-shot calls on the same prefixes give: the result on the first prefix whose verdict is
    definitive (or on the last prefix). -/
def oneShotRun (P : Parser σ) (o : Nat) (st : σ) : List Buf → Nat × Err × σ
  | [] => (o, Err.moreBytes, st)
  | [b] => P b o st
  | b :: b' :: rest =>
    match P b o st with
    | (_, Err.moreBytes, _) => oneShotRun P o st (b' :: rest)
    | r => r

theorem growing_ext {b : Buf} {l : List Buf} (h : Growing (b :: l)) : ∀ x ∈ l, ∃ s, x = b ++ s := by
  induction l generalizing b with
  | nil => intro x hx; cases hx
  | cons y ys ih =>
    obtain ⟨⟨s, hs⟩, hg⟩ := h
    intro x hx
    rcases List.mem_cons.1 hx with rfl | hx
    · exact ⟨s, hs⟩
    · obtain ⟨t, ht⟩ := ih hg x hx
      exact ⟨s ++ t, by rw [ht, hs, Array.append_assoc]⟩

theorem growing_tail {b : Buf} {l : List Buf} (h : Growing (b :: l)) : Growing l := by
  cases l with
  | nil => trivial
  | cons y ys => exact h.2

/-- resumed and fresh runs agree on every buffer of `l` when they agree pointwise -/
theorem oneShotRun_congr (P : Parser σ) (o o' : Nat) (st st' : σ) (l : List Buf)
    (h : ∀ x ∈ l, P x o' st' = P x o st) : oneShotRun P o' st' l = oneShotRun P o st l ∨ l = [] := by
  induction l with
  | nil => exact Or.inr rfl
  | cons b rest ih =>
    left
    cases rest with
    | nil => simp only [oneShotRun]; exact h b (List.mem_cons_self)
    | cons b' rest' =>
      simp only [oneShotRun]
      rw [h b List.mem_cons_self]
      rcases hp : P b o st with ⟨o1, e1, s1⟩
      have ih' := ih (fun x hx => h x (List.mem_cons_of_mem _ hx))
      rcases ih' with ih' | ih'
      · cases e1 <;> simp only [ih']
      · cases ih'

/-- **schedule theorem**: for every growing sequence of prefixes (every way of cutting the stream), the
    chain of resumed calls returns exactly what fresh one-shot calls return — same verdict, same offset,
    same object. -/
theorem resumeRun_eq_oneShot (P : Parser σ) (hP : Resumable P) (o : Nat) (st : σ) (l : List Buf)
    (hg : Growing l) : resumeRun P o st l = oneShotRun P o st l := by
  induction l generalizing o st with
  | nil => rfl
  | cons b rest ih =>
    cases rest with
    | nil => rfl
    | cons b' rest' =>
      simp only [resumeRun, oneShotRun]
      rcases hp : P b o st with ⟨o1, e1, s1⟩
      cases e1 <;> simp only
      -- moreBytes: continue
      rw [ih o1 s1 (growing_tail hg)]
      have hext := growing_ext hg
      have := oneShotRun_congr P o o1 st s1 (b' :: rest') (by
        intro x hx
        obtain ⟨s, rfl⟩ := hext x hx
        exact hP b s o st o1 s1 hp)
      rcases this with h | h
      · exact h
      · cases h

end Sipsp

namespace Sipsp

variable {σ : Type}

/-- one-step resumption law relative to an invariant of legitimately reachable (buffer, offset, object)
    triples; the invariant is re-established at every suspension, on the extended buffer -/
def ResumableI (P : Parser σ) (Inv : Buf → Nat → σ → Prop) : Prop :=
  ∀ b s o st o' st', Inv b o st → P b o st = (o', Err.moreBytes, st') →
    P (b ++ s) o' st' = P (b ++ s) o st ∧ Inv (b ++ s) o' st'

/-- the invariant does not depend on bytes that are appended later -/
def InvGrows (Inv : Buf → Nat → σ → Prop) : Prop := ∀ b s o st, Inv b o st → Inv (b ++ s) o st

theorem oneShotRun_congr' (P : Parser σ) (o o' : Nat) (st st' : σ) (l : List Buf) (hl : l ≠ [])
    (h : ∀ x ∈ l, P x o' st' = P x o st) : oneShotRun P o' st' l = oneShotRun P o st l := by
  rcases oneShotRun_congr P o o' st st' l h with h | h
  · exact h
  · exact absurd h hl

/-- **schedule theorem with invariant**: as `resumeRun_eq_oneShot`, for parsers whose resumption law
    needs the object to be legitimately reachable (e.g. fields pointing inside the buffer). -/
theorem resumeRun_eq_oneShotI (P : Parser σ) (Inv : Buf → Nat → σ → Prop) (hP : ResumableI P Inv)
    (hG : InvGrows Inv) (o : Nat) (st : σ) (l : List Buf) (hg : Growing l)
    (h0 : ∀ b ∈ l.head?, Inv b o st) : resumeRun P o st l = oneShotRun P o st l := by
  induction l generalizing o st with
  | nil => rfl
  | cons b rest ih =>
    cases rest with
    | nil => rfl
    | cons b' rest' =>
      simp only [resumeRun, oneShotRun]
      have hI : Inv b o st := h0 b (by simp)
      rcases hp : P b o st with ⟨o1, e1, s1⟩
      cases e1 <;> simp only
      have hext := growing_ext hg
      obtain ⟨s', hs'⟩ := hext b' List.mem_cons_self
      have hI' : Inv b' o1 s1 := by rw [hs']; exact (hP b s' o st o1 s1 hI hp).2
      rw [ih o1 s1 (growing_tail hg) (by intro x hx; simp at hx; subst hx; exact hI')]
      apply oneShotRun_congr' P o o1 st s1 (b' :: rest') (by simp)
      intro x hx
      obtain ⟨s, rfl⟩ := hext x hx
      exact (hP b s o st o1 s1 hI hp).1

/-! ### schedules up to an observation of the object

Some parsers keep write-only bookkeeping (e.g. the saved restart offset of the name-addr parser) whose final
value after an ERROR verdict depends on the chunking; everything a caller can read is the same. `obs` is
the projection onto what can be read. -/

variable {τ : Type}

/-- same offset, same verdict, same observable object -/
def ResEq (obs : σ → τ) (r1 r2 : Nat × Err × σ) : Prop :=
  r1.1 = r2.1 ∧ r1.2.1 = r2.2.1 ∧ obs r1.2.2 = obs r2.2.2

theorem ResEq.refl (obs : σ → τ) (r : Nat × Err × σ) : ResEq obs r r := ⟨rfl, rfl, rfl⟩

theorem ResEq.trans {obs : σ → τ} {r1 r2 r3 : Nat × Err × σ} (h1 : ResEq obs r1 r2) (h2 : ResEq obs r2 r3) :
    ResEq obs r1 r3 := ⟨h1.1.trans h2.1, h1.2.1.trans h2.2.1, h1.2.2.trans h2.2.2⟩

def ResumableO (P : Parser σ) (Inv : Buf → Nat → σ → Prop) (obs : σ → τ) : Prop :=
  ∀ b s o st o' st', Inv b o st → P b o st = (o', Err.moreBytes, st') →
    ResEq obs (P (b ++ s) o' st') (P (b ++ s) o st) ∧ Inv (b ++ s) o' st'

theorem oneShotRun_congrO (P : Parser σ) (obs : σ → τ) (o o' : Nat) (st st' : σ) (l : List Buf) (hl : l ≠ [])
    (h : ∀ x ∈ l, ResEq obs (P x o' st') (P x o st)) :
    ResEq obs (oneShotRun P o' st' l) (oneShotRun P o st l) := by
  induction l with
  | nil => exact absurd rfl hl
  | cons b rest ih =>
    cases rest with
    | nil => simp only [oneShotRun]; exact h b (List.mem_cons_self)
    | cons b' rest' =>
      simp only [oneShotRun]
      have hb := h b List.mem_cons_self
      rcases hp : P b o st with ⟨o1, e1, s1⟩
      rcases hp' : P b o' st' with ⟨o2, e2, s2⟩
      rw [hp, hp'] at hb
      have he : e2 = e1 := hb.2.1
      subst he
      have ih' := ih (by simp) (fun x hx => h x (List.mem_cons_of_mem _ hx))
      cases e2 <;> first | exact hb | exact ih'

/-- **schedule theorem up to observation**: for every growing sequence of prefixes, the chain of resumed
    calls returns the offset, the verdict and the observable object of fresh one-shot calls. -/
theorem resumeRun_eq_oneShotO (P : Parser σ) (Inv : Buf → Nat → σ → Prop) (obs : σ → τ)
    (hP : ResumableO P Inv obs) (o : Nat) (st : σ) (l : List Buf) (hg : Growing l)
    (h0 : ∀ b ∈ l.head?, Inv b o st) : ResEq obs (resumeRun P o st l) (oneShotRun P o st l) := by
  induction l generalizing o st with
  | nil => exact ResEq.refl _ _
  | cons b rest ih =>
    cases rest with
    | nil => exact ResEq.refl _ _
    | cons b' rest' =>
      simp only [resumeRun, oneShotRun]
      have hI : Inv b o st := h0 b (by simp)
      rcases hp : P b o st with ⟨o1, e1, s1⟩
      cases e1 <;> simp only <;> try exact ResEq.refl _ _
      have hext := growing_ext hg
      obtain ⟨s', hs'⟩ := hext b' List.mem_cons_self
      have hI' : Inv b' o1 s1 := by rw [hs']; exact (hP b s' o st o1 s1 hI hp).2
      refine ResEq.trans (ih o1 s1 (growing_tail hg) (by intro x hx; simp at hx; subst hx; exact hI')) ?_
      apply oneShotRun_congrO P obs o o1 st s1 (b' :: rest') (by simp)
      intro x hx
      obtain ⟨s, rfl⟩ := hext x hx
      exact (hP b s o st o1 s1 hI hp).1

/-! ### exact on the verdicts after which parsing goes on, up to observation on error verdicts -/

/-- the verdicts after which the caller goes on using the object (everything else is an error) -/
def Err.goesOn (e : Err) : Prop := e = .ok ∨ e = .moreBytes ∨ e = .moreValues ∨ e = .empty

/-- same offset, same verdict; the same object whenever the verdict is not an error, and the same observable
    object in any case -/
def RR (obs : σ → τ) (r1 r2 : Nat × Err × σ) : Prop :=
  r1.1 = r2.1 ∧ r1.2.1 = r2.2.1 ∧ (Err.goesOn r2.2.1 → r1.2.2 = r2.2.2) ∧ obs r1.2.2 = obs r2.2.2

theorem RR.refl (obs : σ → τ) (r : Nat × Err × σ) : RR obs r r := ⟨rfl, rfl, fun _ => rfl, rfl⟩

theorem RR.of_eq {obs : σ → τ} {r1 r2 : Nat × Err × σ} (h : r1 = r2) : RR obs r1 r2 := by
  subst h; exact RR.refl _ _

theorem RR.trans {obs : σ → τ} {r1 r2 r3 : Nat × Err × σ} (h1 : RR obs r1 r2) (h2 : RR obs r2 r3) :
    RR obs r1 r3 :=
  ⟨h1.1.trans h2.1, h1.2.1.trans h2.2.1,
   fun hg => (h1.2.2.1 (by rw [h2.2.1]; exact hg)).trans (h2.2.2.1 hg), h1.2.2.2.trans h2.2.2.2⟩

theorem RR.resEq {obs : σ → τ} {r1 r2 : Nat × Err × σ} (h : RR obs r1 r2) : ResEq obs r1 r2 :=
  ⟨h.1, h.2.1, h.2.2.2⟩

/-- exact equality when the fresh result's verdict is not an error -/
theorem RR.eq {obs : σ → τ} {r1 r2 : Nat × Err × σ} (h : RR obs r1 r2) (hg : Err.goesOn r2.2.1) : r1 = r2 := by
  obtain ⟨a1, e1, s1⟩ := r1
  obtain ⟨a2, e2, s2⟩ := r2
  obtain ⟨h1, h2, h3, _⟩ := h
  simp only at h1 h2 h3 hg
  rw [h1, h2, h3 hg]

def ResumableR (P : Parser σ) (Inv : Buf → Nat → σ → Prop) (obs : σ → τ) : Prop :=
  ∀ b s o st o' st', Inv b o st → P b o st = (o', Err.moreBytes, st') →
    RR obs (P (b ++ s) o' st') (P (b ++ s) o st) ∧ Inv (b ++ s) o' st'

theorem oneShotRun_congrR (P : Parser σ) (obs : σ → τ) (o o' : Nat) (st st' : σ) (l : List Buf) (hl : l ≠ [])
    (h : ∀ x ∈ l, RR obs (P x o' st') (P x o st)) :
    RR obs (oneShotRun P o' st' l) (oneShotRun P o st l) := by
  induction l with
  | nil => exact absurd rfl hl
  | cons b rest ih =>
    cases rest with
    | nil => simp only [oneShotRun]; exact h b (List.mem_cons_self)
    | cons b' rest' =>
      simp only [oneShotRun]
      have hb := h b List.mem_cons_self
      rcases hp : P b o st with ⟨o1, e1, s1⟩
      rcases hp' : P b o' st' with ⟨o2, e2, s2⟩
      rw [hp, hp'] at hb
      have he : e2 = e1 := hb.2.1
      subst he
      have ih' := ih (by simp) (fun x hx => h x (List.mem_cons_of_mem _ hx))
      cases e2 <;> first | exact hb | exact ih'

/-- **schedule theorem (exact / up to observation)**: for every growing sequence of prefixes the chain of resumed
    calls returns the offset and the verdict of fresh one-shot calls, the very same object whenever that verdict is
    not an error, and the same observable object after an error. -/
theorem resumeRun_eq_oneShotR (P : Parser σ) (Inv : Buf → Nat → σ → Prop) (obs : σ → τ)
    (hP : ResumableR P Inv obs) (o : Nat) (st : σ) (l : List Buf) (hg : Growing l)
    (h0 : ∀ b ∈ l.head?, Inv b o st) : RR obs (resumeRun P o st l) (oneShotRun P o st l) := by
  induction l generalizing o st with
  | nil => exact RR.refl _ _
  | cons b rest ih =>
    cases rest with
    | nil => exact RR.refl _ _
    | cons b' rest' =>
      simp only [resumeRun, oneShotRun]
      have hI : Inv b o st := h0 b (by simp)
      rcases hp : P b o st with ⟨o1, e1, s1⟩
      cases e1 <;> simp only <;> try exact RR.refl _ _
      have hext := growing_ext hg
      obtain ⟨s', hs'⟩ := hext b' List.mem_cons_self
      have hI' : Inv b' o1 s1 := by rw [hs']; exact (hP b s' o st o1 s1 hI hp).2
      refine RR.trans (ih o1 s1 (growing_tail hg) (by intro x hx; simp at hx; subst hx; exact hI')) ?_
      apply oneShotRun_congrR P obs o o1 st s1 (b' :: rest') (by simp)
      intro x hx
      obtain ⟨s, rfl⟩ := hext x hx
      exact (hP b s o st o1 s1 hI hp).1

/-- as `ResumableR`, for parsers whose resumption law needs a side condition on the buffer that was parsed
    (e.g. the documented 65,535-byte limit) -/
def ResumableRC (P : Parser σ) (Inv : Buf → Nat → σ → Prop) (obs : σ → τ) (C : Buf → Prop) : Prop :=
  ∀ b s o st o' st', C b → Inv b o st → P b o st = (o', Err.moreBytes, st') →
    RR obs (P (b ++ s) o' st') (P (b ++ s) o st) ∧ Inv (b ++ s) o' st'

theorem resumeRun_eq_oneShotRC (P : Parser σ) (Inv : Buf → Nat → σ → Prop) (obs : σ → τ) (C : Buf → Prop)
    (hP : ResumableRC P Inv obs C) (o : Nat) (st : σ) (l : List Buf) (hg : Growing l)
    (hC : ∀ x ∈ l, C x) (h0 : ∀ b ∈ l.head?, Inv b o st) :
    RR obs (resumeRun P o st l) (oneShotRun P o st l) := by
  induction l generalizing o st with
  | nil => exact RR.refl _ _
  | cons b rest ih =>
    cases rest with
    | nil => exact RR.refl _ _
    | cons b' rest' =>
      simp only [resumeRun, oneShotRun]
      have hI : Inv b o st := h0 b (by simp)
      have hCb : C b := hC b List.mem_cons_self
      rcases hp : P b o st with ⟨o1, e1, s1⟩
      cases e1 <;> simp only <;> try exact RR.refl _ _
      have hext := growing_ext hg
      obtain ⟨s', hs'⟩ := hext b' List.mem_cons_self
      have hI' : Inv b' o1 s1 := by rw [hs']; exact (hP b s' o st o1 s1 hCb hI hp).2
      refine RR.trans (ih o1 s1 (growing_tail hg) (fun x hx => hC x (List.mem_cons_of_mem _ hx))
        (by intro x hx; simp at hx; subst hx; exact hI')) ?_
      apply oneShotRun_congrR P obs o o1 st s1 (b' :: rest') (by simp)
      intro x hx
      obtain ⟨s, rfl⟩ := hext x hx
      exact (hP b s o st o1 s1 hCb hI hp).1

end Sipsp
