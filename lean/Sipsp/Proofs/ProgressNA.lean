/-
  Sipsp.Proofs.ProgressNA — progress of the name-addr and token-parameter loop bodies.
-/
import Sipsp.Proofs.Progress
import Sipsp.Model.Params

namespace Sipsp

theorem naLWS_cont (h : Nat) (b : Buf) (i : Nat) (c : UInt8) (pf : PFromBody) (hb : b[i]? = some c)
    (hl : isLWSch c = true) {i' : Nat} {st' : PFromBody} (hs : naLWS h b i pf = .cont i' st') : i < i' :=
  lwsStd_cont_gt b i c pf _ _ hb hl hs

theorem naMoreValues_not_cont (h : Nat) (b : Buf) (pf : PFromBody) (i : Nat) {i' : Nat} {st' : PFromBody} :
    naMoreValues h b pf i ≠ .cont i' st' := by
  unfold naMoreValues; intro hh; cases hh

theorem naCommaAfterWS_not_cont (h : Nat) (b : Buf) (pf : PFromBody) (i e : Nat) {i' : Nat} {st' : PFromBody} :
    naCommaAfterWS h b pf i e ≠ .cont i' st' := by
  unfold naCommaAfterWS; intro hh; split at hh <;> cases hh

/-- the two "pure restart" white space sites (parameter names and values) -/
theorem skipLWS_site_cont {σ : Type} (b : Buf) (i : Nat) (c : UInt8) (hb : b[i]? = some c)
    (hl : isLWSch c = true) {i' : Nat} {st' : σ}
    (f : Nat × Nat × Err → Step σ)
    (hf : ∀ n crl e, f (n, crl, e) = .cont i' st' → e = .ok ∧ i' = n)
    (hs : f (skipLWS b i 0) = .cont i' st') : i < i' := by
  rcases hsk : skipLWS b i 0 with ⟨n, crl, e⟩
  rw [hsk] at hs
  obtain ⟨he, hn⟩ := hf n crl e hs
  subst he; subst hn
  exact skipLWS_ok_gt b i 0 hb hl hsk

theorem naStepA_cont (h : Nat) (b : Buf) (i : Nat) (c : UInt8) (pf : PFromBody) (hb : b[i]? = some c)
    {i' : Nat} {st' : PFromBody} (hs : naStepA h b i c pf = .cont i' st') : i < i' := by
  unfold naStepA at hs
  repeat' (split at hs)
  all_goals first
    | exact naLWS_cont h b i c _ hb (by assumption) hs
    | exact absurd hs (naMoreValues_not_cont h b _ i)
    | (cases hs; omega)
    | cases hs

theorem naStepQ_cont (h : Nat) (b : Buf) (i : Nat) (c : UInt8) (pf : PFromBody) (hb : b[i]? = some c)
    {i' : Nat} {st' : PFromBody} (hs : naStepQ h b i c pf = .cont i' st') : i < i' := by
  unfold naStepQ at hs
  repeat' (split at hs)
  all_goals first
    | exact naLWS_cont h b i c _ hb (by assumption) hs
    | (cases hs; omega)
    | cases hs

theorem naStepU_cont (i : Nat) (c : UInt8) (pf : PFromBody)
    {i' : Nat} {st' : PFromBody} (hs : naStepU i c pf = .cont i' st') : i < i' := by
  unfold naStepU at hs
  repeat' (split at hs)
  all_goals first
    | (cases hs; omega)
    | cases hs

theorem naStepUF_cont (h : Nat) (b : Buf) (i : Nat) (c : UInt8) (pf : PFromBody) (hb : b[i]? = some c)
    {i' : Nat} {st' : PFromBody} (hs : naStepUF h b i c pf = .cont i' st') : i < i' := by
  unfold naStepUF at hs
  repeat' (split at hs)
  all_goals first
    | exact naLWS_cont h b i c _ hb (by assumption) hs
    | exact absurd hs (naMoreValues_not_cont h b _ i)
    | (cases hs; omega)
    | cases hs

theorem naStepP_cont (h : Nat) (b : Buf) (i : Nat) (c : UInt8) (pf : PFromBody) (hb : b[i]? = some c)
    {i' : Nat} {st' : PFromBody} (hs : naStepP h b i c pf = .cont i' st') : i < i' := by
  unfold naStepP at hs
  split at hs
  · rename_i hl
    refine skipLWS_site_cont b i c hb hl
      (fun r => match r with
        | (_, _, .moreBytes) => .done i .moreBytes pf.saveS
        | (n, _, .ok) => .cont n (naNameWS pf i)
        | (n, crl, .eoh) => let r := naEOH h b (naNameWS pf i) i n crl .ok; .done r.1 r.2.1 r.2.2
        | (n, _, e) => .done n e (naNameWS pf i)) ?_ hs
    intro n crl e hh
    cases e <;> simp only at hh <;> cases hh
    exact ⟨rfl, rfl⟩
  · repeat' (split at hs)
    all_goals first
      | exact absurd hs (naMoreValues_not_cont h b _ i)
      | (cases hs; omega)
      | cases hs

theorem naStepPE_cont (h : Nat) (b : Buf) (i : Nat) (c : UInt8) (pf : PFromBody)
    {i' : Nat} {st' : PFromBody} (hs : naStepPE h b i c pf = .cont i' st') : i < i' := by
  unfold naStepPE at hs
  repeat' (split at hs)
  all_goals first
    | exact absurd hs (naCommaAfterWS_not_cont h b _ i _)
    | (cases hs; omega)
    | cases hs

theorem naStepV_cont (h : Nat) (b : Buf) (i : Nat) (c : UInt8) (pf : PFromBody) (hb : b[i]? = some c)
    {i' : Nat} {st' : PFromBody} (hs : naStepV h b i c pf = .cont i' st') : i < i' := by
  unfold naStepV at hs
  split at hs
  · rename_i hl
    refine skipLWS_site_cont b i c hb hl
      (fun r => match r with
        | (_, _, .moreBytes) => .done i .moreBytes pf.saveS
        | (n, _, .ok) => .cont n (naValWS pf i n true)
        | (n, crl, .eoh) => let r := naEOH h b (naValWS pf i n false) i n crl .ok; .done r.1 r.2.1 r.2.2
        | (n, _, e) => .done n e (naValWS pf i n false)) ?_ hs
    intro n crl e hh
    cases e <;> simp only at hh <;> cases hh
    exact ⟨rfl, rfl⟩
  · repeat' (split at hs)
    all_goals first
      | exact absurd hs (naMoreValues_not_cont h b _ i)
      | (cases hs; omega)
      | cases hs

theorem naStepVE_cont (h : Nat) (b : Buf) (i : Nat) (c : UInt8) (pf : PFromBody)
    {i' : Nat} {st' : PFromBody} (hs : naStepVE h b i c pf = .cont i' st') : i < i' := by
  unfold naStepVE at hs
  repeat' (split at hs)
  all_goals first
    | exact absurd hs (naCommaAfterWS_not_cont h b _ i _)
    | (cases hs; omega)
    | cases hs

theorem naStepStar_cont (h : Nat) (b : Buf) (i : Nat) (c : UInt8) (pf : PFromBody) (hb : b[i]? = some c)
    {i' : Nat} {st' : PFromBody} (hs : naStepStar h b i c pf = .cont i' st') : i < i' := by
  unfold naStepStar at hs
  split at hs
  · exact naLWS_cont h b i c _ hb (by assumption) hs
  · cases hs

theorem na_progress (h : Nat) : Progress (naMachine h) := by
  intro b i c pf i' st' hb hs
  change naStep h b i c pf = .cont i' st' at hs
  unfold naStep at hs
  split at hs
  all_goals first
    | exact naStepA_cont h b i c pf hb hs
    | exact naStepQ_cont h b i c pf hb hs
    | exact naStepU_cont i c pf hs
    | exact naStepUF_cont h b i c pf hb hs
    | exact naStepP_cont h b i c pf hb hs
    | exact naStepPE_cont h b i c pf hs
    | exact naStepV_cont h b i c pf hb hs
    | exact naStepVE_cont h b i c pf hs
    | exact naStepStar_cont h b i c pf hb hs
    | (cases hs; omega)

end Sipsp

namespace Sipsp

theorem skipQuoted_ok_gt (b : Buf) (i : Nat) {n : Nat} (h : skipQuoted b i = (n, Err.ok)) : i < n := by
  unfold skipQuoted at h
  have key : (runLoop sqMachine b i ()).2.1 = Err.ok → i < (runLoop sqMachine b i ()).1 := by
    apply runLoop_inv sqMachine b (fun j _ => i ≤ j) (fun r => r.2.1 = Err.ok → i < r.1)
    · intro j c st j' st' hb hP hs
      refine ⟨fun hlt => by omega, fun _ hh => by cases hh⟩
    · intro j c st o e st' hb hP hs he
      simp only at he; subst he
      change sqStep b j c st = .done o .ok st' at hs
      unfold sqStep at hs
      repeat' (split at hs)
      all_goals first
        | (cases hs; simp only; omega)
        | cases hs
    · intro j st _ _ he; cases he
    · exact Nat.le_refl _
  rcases hr : runLoop sqMachine b i () with ⟨o, e, u⟩
  rw [hr] at h key
  simp only [Prod.mk.injEq] at h
  obtain ⟨rfl, rfl⟩ := h
  exact key rfl

theorem tpLWS_cont (b : Buf) (flags i : Nat) (c : UInt8) (p : PTokParam) (upd : PTokParam → PTokParam)
    (hb : b[i]? = some c) (hl : isLWSch c = true) {i' : Nat} {st' : PTokParam}
    (hs : tpLWS b flags i p upd = .cont i' st') : i < i' := by
  unfold tpLWS at hs
  rcases hsk : skipLWS b i flags with ⟨n, crl, e⟩
  rw [hsk] at hs
  cases e <;> simp only [stepOfRes] at hs <;> cases hs
  exact skipLWS_ok_gt b i flags hb hl hsk

theorem tp_progress (flags offs : Nat) : Progress (tpMachine flags offs) := by
  intro b i c p i' st' hb hs
  change tpStep flags offs b i c p = .cont i' st' at hs
  unfold tpStep at hs
  simp only at hs
  split at hs
  all_goals
    first
    | (repeat' (split at hs)
       all_goals first
         | exact tpLWS_cont b flags i c _ _ hb (by assumption) hs
         | (cases hs; omega)
         | (simp only [stepOfRes] at hs; cases hs)
         | (unfold tpSpTermEq at hs; split at hs <;> cases hs)
         | (unfold tpSpTermSep at hs; repeat' (split at hs)
            all_goals cases hs)
         | cases hs)
    | skip
  all_goals
    rename_i hq
    exact skipQuoted_ok_gt b i hq

end Sipsp
