/-
  Sipsp.Proofs.TokParamEnd — property C02 for ParseTokenParam / ParseAllURIParams / ParseAllURIHdrs when the LAST call of
  a chunk schedule carries the end-of-input option `POptInputEndF` ("input ends at the end of buf": the end of the
  buffer then acts like a terminator instead of giving MoreBytes).  Callers make the earlier calls without the option
  (they return MoreBytes) and set the option at the last call, on the complete input.

  Throughout: `f` is ANY option set without `POptInputEndF` (hypothesis `hasFlag f POptInputEndF = false`; all other
  options, `POptTokSpTermF` included, are arbitrary), the later call uses `f ||| POptInputEndF`, `b` is the buffer of
  the earlier call and `b ++ s` ANY extension of it (`s = #[]` included: nothing more arrived, the input just ended).

  Proved (final theorems; no size bounds):
  * `parseTokenParam_resume_end` (one-step law, option switched on at the resumed call): if the call without the
      option returned MoreBytes at `(o', p')` then the call with the option on `b ++ s` from `(o', p')` returns exactly
      (offset, verdict, object) what ONE call with the option on `b ++ s` from the original `(o, p)` returns.  For EVERY
      object `p` (no legitimacy hypothesis is needed).  All three suspension sites are valid restart points once the
      end of the buffer is a terminator: the end-of-buffer exit, white space up to the end of the buffer (restart at
      the first white-space byte, object untouched), an open quoted string (restart where SkipQuoted stopped).
  * `parseTokenParam_stable_end`: a definitive result (any verdict other than MoreBytes) of a call without the option
      is the result of the call with the option on every extension.
  * `parseTokenParam_schedule_end`: for every growing sequence of prefixes ending with the whole input `B`, all calls but
      the last without the option and the last with it (`resumeRunEnd`), the chain returns what ONE call with the
      option on `B` returns (offset, verdict, object).
  * `parseAllURIParams_resume_end`, `parseAllURIParams_stable_end`, `parseAllURIParams_schedule_end` and
    `parseAllURIHdrs_resume_end`, `parseAllURIHdrs_stable_end`, `parseAllURIHdrs_schedule_end`: the same for the list
      wrappers: same offset, same verdict, the very same list object; the per-call numbers of values add up to the number
      the one-shot call reports.  Hypotheses: the list object is legitimate (`plOK` / `hlClean` of UriListsL: new and
      reset lists of any capacity are) and the start offset lies inside the first buffer.
  * with the option (any buffer, used for the loop guard of the wrappers): `parseTokenParam_post_end`,
      `parseTokenParam_range_end` (offset in `[o, len(buf)]`, name field legitimate), `parseTokenParam_mv_start_end`.
  * step level: `tpe_step_switch` (an iteration that does not ask for more bytes never reads the option),
      `tpe_step_more` (where an iteration without the option asks for more bytes, the one with the option does the
      same — open quoted string — or takes the end-of-input exit), `tpe_skipLWS_flagfree`, `tpe_skipLWS_end`;
      generic two-machine versions of the runLoop L1/L2 theorems (`tpe_runLoop_stable2`, `tpe_runLoop_resume2`) and
      the generic schedule theorem `tpe_resumeRunEnd_eq`.

  NOT proved here: schedules in which an EARLIER call (not the last one) already carries the option (that is a misuse:
  the option claims the input ends at the end of that buffer); lists whose unused slots hold garbage.
  No violation of the property was found: the one-step law holds at every suspension site.
-/
import Sipsp.Proofs.UriListsL
namespace Sipsp

theorem tpe_hasFlag_or (f m : Nat) (hm : POptInputEndF &&& m = 0) :
    hasFlag (f ||| POptInputEndF) m = hasFlag f m := by
  unfold hasFlag
  rw [Nat.and_or_distrib_right, hm, Nat.or_zero]

theorem tpe_hasFlag_end (f : Nat) : hasFlag (f ||| POptInputEndF) POptInputEndF = true := by
  unfold hasFlag
  rw [Nat.and_or_distrib_right]
  have : POptInputEndF &&& POptInputEndF = 8 := by decide
  rw [this]
  simp only [bne_iff_ne, ne_eq, Nat.or_eq_zero_iff, not_and]
  intro _ h; cases h

theorem tpe_tpSep (f : Nat) : tpSep (f ||| POptInputEndF) = tpSep f := by
  unfold tpSep; rw [tpe_hasFlag_or f _ (by decide)]
theorem tpe_tpTerm (f : Nat) : tpTerm (f ||| POptInputEndF) = tpTerm f := by
  unfold tpTerm; rw [tpe_hasFlag_or f _ (by decide), tpe_hasFlag_or f _ (by decide)]
theorem tpe_tokAllowed (c : UInt8) (f : Nat) : tokAllowedChar c (f ||| POptInputEndF) = tokAllowedChar c f := by
  unfold tokAllowedChar; rw [tpe_hasFlag_or f _ (by decide)]



/-! ### skipLWS and the end-of-input flag -/

/-- a result other than MoreBytes, obtained without the flag, is the result for every flag set -/
theorem tpe_skipLWS_flagfree (B : Buf) (i f f' : Nat) {n crl : Nat} {e : Err}
    (h : skipLWS B i f = (n, crl, e)) (he : e ≠ .moreBytes) (hf : hasFlag f POptInputEndF = false) :
    skipLWS B i f' = (n, crl, e) := by
  fun_induction skipLWS B i f with
  | case1 i hb => cases h; exact absurd rfl he
  | case2 i c hb hws ih => rw [skipLWS_ws hb hws]; exact ih h
  | case3 i c hb hws hcr n' crl' hs hb2 hfl => rw [hf] at hfl; cases hfl
  | case4 i c hb hws hcr n' crl' hs hb2 hfl => cases h; exact absurd rfl he
  | case5 i c hb hws hcr n' crl' hs c2 hb2 hws2 ih =>
    rw [skipLWS_crlf_ws hb (by simpa using hws) hcr hs hb2 hws2]
    exact ih h
  | case6 i c hb hws hcr n' crl' hs c2 hb2 hws2 =>
    rw [skipLWS_crlf_eoh hb (by simpa using hws) hcr hs hb2 (by simpa using hws2)]
    exact h
  | case7 i c hb hws hcr n' crl' e' hne hs =>
    cases h
    rw [skipLWS_crlf_err hb (by simpa using hws) hcr hs (fun h => hne h)]
  | case8 i c hb hws hcr =>
    rw [skipLWS_other hb (by simpa using hws) (by simpa using hcr)]; exact h

/-- where the scan asks for more bytes without the flag, with the flag it either still does (same result) or
    reports the end of the header at the very end of the buffer (line end followed by nothing) -/
theorem tpe_skipLWS_end (B : Buf) (i f f' : Nat) {n crl : Nat}
    (h : skipLWS B i f = (n, crl, .moreBytes)) (hf : hasFlag f POptInputEndF = false)
    (hf' : hasFlag f' POptInputEndF = true) :
    skipLWS B i f' = (n, crl, .moreBytes) ∨ skipLWS B i f' = (B.size, 0, .eoh) := by
  fun_induction skipLWS B i f with
  | case1 i hb => cases h; exact Or.inl (skipLWS_none hb)
  | case2 i c hb hws ih => rw [skipLWS_ws hb hws]; exact ih h
  | case3 i c hb hws hcr n' crl' hs hb2 hfl => rw [hf] at hfl; cases hfl
  | case4 i c hb hws hcr n' crl' hs hb2 hfl =>
    cases h
    right
    rw [skipLWS_crlf_end hb (by simpa using hws) hcr hs hb2, hf']
    have h1 := (skipCRLF_range hs).2.2.1 rfl
    have h2 := get?_none_ge hb2
    have : n' = B.size := by omega
    simp only [↓reduceIte, this]
  | case5 i c hb hws hcr n' crl' hs c2 hb2 hws2 ih =>
    rw [skipLWS_crlf_ws hb (by simpa using hws) hcr hs hb2 hws2]
    exact ih h
  | case6 i c hb hws hcr n' crl' hs c2 hb2 hws2 => cases h
  | case7 i c hb hws hcr n' crl' e' hne hs =>
    cases h
    left
    rw [skipLWS_crlf_err hb (by simpa using hws) hcr hs (fun h => hne h)]
  | case8 i c hb hws hcr => cases h

/-! ### one loop iteration of ParseTokenParam with and without the flag -/

theorem tpe_tpMoreBytes_quoted (B : Buf) (flags : Nat) (p : PTokParam) (n : Nat) (hst : p.state = .quotedVal) :
    tpMoreBytes B flags p n = (n, .moreBytes, p) := by
  unfold tpMoreBytes
  split
  · simp only [hst]
  · rfl

theorem tpe_tpLWS_switch (B : Buf) (f i : Nat) (p : PTokParam) (upd : PTokParam → PTokParam)
    (hf : hasFlag f POptInputEndF = false) (hne : ∀ o q, tpLWS B f i p upd ≠ .done o .moreBytes q) :
    tpLWS B (f ||| POptInputEndF) i p upd = tpLWS B f i p upd := by
  unfold tpLWS at hne ⊢
  rcases hq : skipLWS B i f with ⟨n, crl, e⟩
  rw [hq] at hne
  by_cases he : e = .moreBytes
  · subst he
    simp only [tpMoreBytes_noEnd B f p i hf, stepOfRes] at hne
    exact absurd rfl (hne i p)
  · rw [tpe_skipLWS_flagfree B i f (f ||| POptInputEndF) hq he hf]
    cases e <;> first | rfl | exact absurd rfl he

/-- an iteration that does not ask for more bytes never looks at the flag -/
theorem tpe_step_switch (f offs : Nat) (B : Buf) (i : Nat) (c : UInt8) (p : PTokParam)
    (hf : hasFlag f POptInputEndF = false) (hne : ∀ o q, tpStep f offs B i c p ≠ .done o .moreBytes q) :
    tpStep (f ||| POptInputEndF) offs B i c p = tpStep f offs B i c p := by
  unfold tpStep at hne ⊢
  simp only [tpe_tpSep, tpe_tpTerm, tpe_tokAllowed, tpe_hasFlag_or f POptTokSpTermF (by decide)] at hne ⊢
  cases hst : p.state <;> simp only [hst] at hne ⊢
  case quotedVal =>
    rcases hq : skipQuoted B i with ⟨n, e⟩
    rw [hq] at hne
    by_cases he : e = .moreBytes
    · subst he
      simp only [tpMoreBytes_noEnd B f p n hf, stepOfRes] at hne
      exact absurd rfl (hne n p)
    · cases e <;> first | rfl | exact absurd rfl he
  all_goals
    (by_cases hl : isLWSch c = true
     · simp only [hl, ↓reduceIte] at hne ⊢
       exact tpe_tpLWS_switch B f i p _ hf hne
     · simp only [hl, Bool.false_eq_true, ↓reduceIte])

/-- the exit taken with the flag where the call without it asks for more bytes in white space: "end of header" at
    the end of the buffer, the name field untouched or extended up to the white space -/
def TPEndExit (B : Buf) (i : Nat) (p : PTokParam) (s : Step PTokParam) : Prop :=
  ∃ x, s = stepOfRes (tpEOH x B.size 0) ∧ (x.name = p.name ∨ x.name = p.name.extend i)

theorem tpe_tpLWS_more (B : Buf) (f i : Nat) (p : PTokParam) (upd : PTokParam → PTokParam)
    (hf : hasFlag f POptInputEndF = false)
    (hst : p.state ≠ .quotedVal ∧ p.state ≠ .err ∧ p.state ≠ .fin)
    (hupd : (upd p).name = p.name ∨ (upd p).name = p.name.extend i)
    {o : Nat} {q : PTokParam} (hs : tpLWS B f i p upd = .done o .moreBytes q) :
    o = i ∧ q = p ∧ TPEndExit B i p (tpLWS B (f ||| POptInputEndF) i p upd) := by
  unfold tpLWS at hs ⊢
  rcases hq : skipLWS B i f with ⟨n, crl, e⟩
  rw [hq] at hs
  by_cases he : e = .moreBytes
  · subst he
    simp only [tpMoreBytes_noEnd B f p i hf, stepOfRes, Step.done.injEq, true_and] at hs
    refine ⟨hs.1.symm, hs.2.symm, ?_⟩
    rcases tpe_skipLWS_end B i f (f ||| POptInputEndF) hq hf (tpe_hasFlag_end f) with h | h
    · rw [h]
      simp only
      unfold tpMoreBytes
      rw [tpe_hasFlag_end f]
      simp only [↓reduceIte]
      cases hst' : p.state <;> simp only
      case quotedVal => exact absurd hst' hst.1
      case err => exact absurd hst' hst.2.1
      case fin => exact absurd hst' hst.2.2
      case name => exact ⟨_, rfl, Or.inr rfl⟩
      case val => exact ⟨_, rfl, Or.inl rfl⟩
      all_goals exact ⟨_, rfl, Or.inl rfl⟩
    · rw [h]
      exact ⟨_, rfl, hupd⟩
  · cases e <;> simp only [stepOfRes] at hs
    case moreBytes => exact absurd rfl he
    case eoh =>
      have hfa := tpEOH_facts (upd p) n crl
      simp only [Step.done.injEq] at hs
      exact absurd hs.2.1 hfa.2.1
    all_goals cases hs

/-- where an iteration without the flag asks for more bytes, the iteration with the flag either does the same (open
    quoted string) or takes the end-of-input exit (white space up to the end of the buffer) -/
theorem tpe_step_more (f offs : Nat) (B : Buf) (i : Nat) (c : UInt8) (p : PTokParam)
    (hf : hasFlag f POptInputEndF = false) {o : Nat} {q : PTokParam}
    (hs : tpStep f offs B i c p = .done o .moreBytes q) :
    q = p ∧ ((p.state = .quotedVal ∧ tpStep (f ||| POptInputEndF) offs B i c p = .done o .moreBytes p) ∨
      (o = i ∧ isLWSch c = true ∧ TPEndExit B i p (tpStep (f ||| POptInputEndF) offs B i c p))) := by
  unfold tpStep at hs ⊢
  simp only [tpe_tpSep, tpe_tpTerm, tpe_tokAllowed, tpe_hasFlag_or f POptTokSpTermF (by decide)] at hs ⊢
  cases hst : p.state <;> simp only [hst] at hs ⊢
  case fin => cases hs
  case err => cases hs
  case quotedVal =>
    rcases hq : skipQuoted B i with ⟨n, e1⟩
    rw [hq] at hs
    cases e1 <;> simp only [stepOfRes, tpMoreBytes_noEnd B f p n hf] at hs
    case ok => cases hs
    case moreBytes =>
      simp only [Step.done.injEq, true_and] at hs
      obtain ⟨hno, hst'⟩ := hs
      subst hno; subst hst'
      refine ⟨rfl, Or.inl ⟨trivial, ?_⟩⟩
      simp only [stepOfRes, tpe_tpMoreBytes_quoted B _ p n hst]
    case eoh =>
      have hfa := tpEOH_facts p n 0
      simp only [Step.done.injEq] at hs
      exact absurd hs.2.1 hfa.2.1
    all_goals cases hs
  all_goals
    by_cases hl : isLWSch c = true
    · simp only [hl, ↓reduceIte] at hs ⊢
      obtain ⟨h1, h2, h3⟩ := tpe_tpLWS_more B f i p _ hf (by simp [hst])
        (by first | exact Or.inl rfl | exact Or.inr rfl) hs
      exact ⟨h2, Or.inr ⟨h1, trivial, h3⟩⟩
    · simp only [hl, Bool.false_eq_true, ↓reduceIte] at hs
      repeat' (split at hs)
      all_goals first
        | cases hs
        | (unfold tpSpTermEq at hs; split at hs <;> cases hs)
        | (unfold tpSpTermSep at hs; repeat' (split at hs)
           all_goals cases hs)

/-! ### generic: the earlier call runs machine `m1` on `b`, the later call machine `m2` on `b ++ s` -/

/-- **L1 (generic, two machines)** -/
theorem tpe_runLoop_stable2 {σ : Type} (m1 m2 : Machine σ) (b s : Buf)
    (hst : ∀ i c st, b[i]? = some c → (∀ o st', m1.step b i c st ≠ .done o .moreBytes st') →
      m2.step (b ++ s) i c st = m1.step b i c st)
    (heob : EobMore m1 b) (i : Nat) (st : σ) {o : Nat} {e : Err} {st' : σ}
    (h : runLoop m1 b i st = (o, e, st')) (he : e ≠ .moreBytes) : runLoop m2 (b ++ s) i st = (o, e, st') := by
  induction hk : b.size - i using Nat.strongRecOn generalizing i st with
  | _ k ih =>
    cases hb : b[i]? with
    | none =>
      rw [runLoop_none m1 st hb] at h
      have := heob i st; rw [h] at this; exact absurd this he
    | some c =>
      cases hs : m1.step b i c st with
      | done o1 e1 st1 =>
        rw [runLoop_done m1 hb hs] at h; cases h
        have := hst i c st hb (by intro o' s' hh; rw [hs] at hh; cases hh; exact he rfl)
        exact runLoop_done m2 (get?_app hb) (this.trans hs)
      | cont i' st1 =>
        rw [runLoop_cont m1 hb hs] at h
        have hsB := (hst i c st hb (by intro o' s' hh; rw [hs] at hh; cases hh)).trans hs
        rw [runLoop_cont m2 (get?_app hb) hsB]
        split at h
        · rename_i hlt
          rw [if_pos hlt]
          have := get?_lt hb
          exact ih (b.size - i') (by omega) i' st1 h rfl
        · rename_i hnl; rw [if_neg hnl]; exact h

/-- **L2 (generic, two machines)** -/
theorem tpe_runLoop_resume2 {σ : Type} (m1 m2 : Machine σ) (b s : Buf)
    (hst : ∀ i c st, b[i]? = some c → (∀ o st', m1.step b i c st ≠ .done o .moreBytes st') →
      m2.step (b ++ s) i c st = m1.step b i c st)
    (hre : ∀ i c st o st', b[i]? = some c → m1.step b i c st = .done o .moreBytes st' →
      runLoop m2 (b ++ s) o st' = runLoop m2 (b ++ s) i st)
    (hee : ∀ i st o st', b[i]? = none → m1.eob b i st = (o, Err.moreBytes, st') →
      runLoop m2 (b ++ s) o st' = runLoop m2 (b ++ s) i st)
    (i : Nat) (st : σ) {o : Nat} {st' : σ}
    (h : runLoop m1 b i st = (o, Err.moreBytes, st')) :
    runLoop m2 (b ++ s) o st' = runLoop m2 (b ++ s) i st := by
  induction hk : b.size - i using Nat.strongRecOn generalizing i st with
  | _ k ih =>
    cases hb : b[i]? with
    | none =>
      rw [runLoop_none m1 st hb] at h
      exact hee i st o st' hb h
    | some c =>
      cases hs : m1.step b i c st with
      | done o1 e1 st1 =>
        rw [runLoop_done m1 hb hs] at h; cases h
        exact hre i c st o st' hb hs
      | cont i' st1 =>
        rw [runLoop_cont m1 hb hs] at h
        have hsB := (hst i c st hb (by intro o' s' hh; rw [hs] at hh; cases hh)).trans hs
        rw [runLoop_cont m2 (get?_app hb) hsB]
        split at h
        · rename_i hlt
          rw [if_pos hlt]
          have := get?_lt hb
          exact ih (b.size - i') (by omega) i' st1 h rfl
        · cases h

/-! ### ParseTokenParam: L1 and L2 with the flag switched on at the later call -/

theorem tpe_stepStable (f offs : Nat) (b s : Buf) (hf : hasFlag f POptInputEndF = false)
    (i : Nat) (c : UInt8) (p : PTokParam) (hb : b[i]? = some c)
    (hne : ∀ o q, (tpMachine f offs).step b i c p ≠ .done o .moreBytes q) :
    (tpMachine (f ||| POptInputEndF) offs).step (b ++ s) i c p = (tpMachine f offs).step b i c p := by
  have h1 := tp_stepStable f offs b s hf i c p hb hne
  have h1' : tpStep f offs (b ++ s) i c p = tpStep f offs b i c p := h1
  show tpStep (f ||| POptInputEndF) offs (b ++ s) i c p = tpStep f offs b i c p
  rw [← h1']
  apply tpe_step_switch f offs (b ++ s) i c p hf
  intro o q hh
  rw [h1'] at hh
  exact hne o q hh

/-- **L1 for ParseTokenParam, flag switched on later**: a definitive result of a call without the end-of-input
    option is the result of the call with the option on every extension of the buffer (the buffer itself included) -/
theorem parseTokenParam_stable_end (b s : Buf) (o : Nat) (p : PTokParam) (f : Nat)
    (hf : hasFlag f POptInputEndF = false) {o' : Nat} {e : Err} {p' : PTokParam}
    (h : parseTokenParam b o p f = (o', e, p')) (he : e ≠ .moreBytes) :
    parseTokenParam (b ++ s) o p (f ||| POptInputEndF) = (o', e, p') := by
  unfold parseTokenParam at h ⊢
  split
  · rename_i hfin; rw [if_pos hfin] at h; exact h
  · rename_i hfin; rw [if_neg hfin] at h
    exact tpe_runLoop_stable2 (tpMachine f o) (tpMachine (f ||| POptInputEndF) o) b s
      (tpe_stepStable f o b s hf) (tp_eobMore f o b hf) o p h he

theorem tpe_stepRestart (f offs : Nat) (b s : Buf) (hf : hasFlag f POptInputEndF = false)
    (i : Nat) (c : UInt8) (st : PTokParam) (o : Nat) (st' : PTokParam) (hb : b[i]? = some c)
    (hs : (tpMachine f offs).step b i c st = .done o .moreBytes st') :
    runLoop (tpMachine (f ||| POptInputEndF) offs) (b ++ s) o st' =
      runLoop (tpMachine (f ||| POptInputEndF) offs) (b ++ s) i st := by
  have hs' : tpStep f offs b i c st = .done o .moreBytes st' := hs
  obtain ⟨hq, hcase⟩ := tpe_step_more f offs b i c st hf hs'
  subst hq
  rcases hcase with ⟨hst, _⟩ | ⟨ho, _, _⟩
  · -- open quoted string: the restart offset is where SkipQuoted stopped
    have hi := get?_lt hb
    have hsq : skipQuoted b i = (o, Err.moreBytes) := by
      unfold tpStep at hs'
      simp only [hst] at hs'
      rcases hq : skipQuoted b i with ⟨n, e1⟩
      rw [hq] at hs'
      cases e1 <;> simp only [stepOfRes, tpMoreBytes_noEnd b f st' n hf] at hs'
      case ok => cases hs'
      case moreBytes => simp only [Step.done.injEq, true_and] at hs'; rw [hs'.1]
      case eoh =>
        have hfa := tpEOH_facts st' n 0
        simp only [Step.done.injEq] at hs'
        exact absurd hs'.2.1 hfa.2.1
      all_goals cases hs'
    have hres := skipQuoted_resume b s i hsq
    have hbB := get?_app (s := s) hb
    cases hn : (b ++ s)[o]? with
    | none =>
      have hsq2 : skipQuoted (b ++ s) o = (o, Err.moreBytes) := by
        unfold skipQuoted
        rw [runLoop_none sqMachine () hn]; rfl
      rw [runLoop_none _ st' hn]
      have hstep : tpStep (f ||| POptInputEndF) offs (b ++ s) i c st' = .done o .moreBytes st' := by
        unfold tpStep
        simp only [hst]
        rw [← hres, hsq2]
        simp only [stepOfRes, tpe_tpMoreBytes_quoted (b ++ s) _ st' o hst]
      rw [runLoop_done _ hbB hstep]
      show tpMoreBytes (b ++ s) (f ||| POptInputEndF) st' o = _
      rw [tpe_tpMoreBytes_quoted (b ++ s) _ st' o hst]
    | some c2 =>
      have hse : (tpMachine (f ||| POptInputEndF) offs).step (b ++ s) o c2 st' =
          (tpMachine (f ||| POptInputEndF) offs).step (b ++ s) i c st' :=
        tpStep_quoted_eq (f ||| POptInputEndF) offs (b ++ s) i o c c2 st' hst hres
      cases hs1 : (tpMachine (f ||| POptInputEndF) offs).step (b ++ s) o c2 st' with
      | done o2 e2 st2 => rw [runLoop_done _ hn hs1, runLoop_done _ hbB (hse ▸ hs1)]
      | cont i2 st2 =>
        rw [runLoop_cont _ hn hs1, runLoop_cont _ hbB (hse ▸ hs1)]
        have hp := tp_progress (f ||| POptInputEndF) offs (b ++ s) o c2 st' i2 st2 hn hs1
        have h2 := skipQuoted_range b i (by omega) hsq
        rw [if_pos hp, if_pos (by omega)]
  · rw [ho]

/-- **C02 for ParseTokenParam, the last call carrying the end-of-input option**: if a call without the option
    returned MoreBytes at `(o', p')`, the call on any extension `b ++ s` (possibly `s = #[]`: nothing more arrived,
    the input just ended) from `(o', p')` WITH the option returns exactly (offset, verdict, object) what one call
    with the option on `b ++ s` from the original `(o, p)` returns.  Any object `p`, any other options. -/
theorem parseTokenParam_resume_end (b s : Buf) (o : Nat) (p : PTokParam) (f : Nat)
    (hf : hasFlag f POptInputEndF = false) {o' : Nat} {p' : PTokParam}
    (h : parseTokenParam b o p f = (o', Err.moreBytes, p')) :
    parseTokenParam (b ++ s) o' p' (f ||| POptInputEndF) = parseTokenParam (b ++ s) o p (f ||| POptInputEndF) := by
  unfold parseTokenParam at h ⊢
  by_cases hfin : p.state = .fin
  · rw [if_pos hfin] at h; cases h
  · rw [if_neg hfin] at h
    have hsu := tp_suspended f o b p hf hfin h
    rw [if_neg hfin, if_neg hsu.2.1, tp_switch (f ||| POptInputEndF) o o' (b ++ s) p' (hsu.grows s)]
    exact tpe_runLoop_resume2 (tpMachine f o) (tpMachine (f ||| POptInputEndF) o) b s
      (tpe_stepStable f o b s hf) (tpe_stepRestart f o b s hf)
      (by
        intro i st o1 st1 _ h
        change tpMoreBytes b f st i = (o1, Err.moreBytes, st1) at h
        rw [tpMoreBytes_noEnd b f st i hf] at h
        cases h; rfl) o p h

/-! ### ParseTokenParam with the flag: range of the result, name field, "more values" -/

theorem tpe_tpEOH_ne_mv (p : PTokParam) (n crl : Nat) : (tpEOH p n crl).2.1 ≠ Err.moreValues := by
  unfold tpEOH
  split <;> exact (fun h => by cases h)

/-- a continuing iteration with the flag is the same continuing iteration without it -/
theorem tpe_cont_same (f offs : Nat) (B : Buf) (i : Nat) (c : UInt8) (p : PTokParam)
    (hf : hasFlag f POptInputEndF = false) {i' : Nat} {p' : PTokParam}
    (hs : tpStep (f ||| POptInputEndF) offs B i c p = .cont i' p') : tpStep f offs B i c p = .cont i' p' := by
  cases hs0 : tpStep f offs B i c p with
  | cont i0 q0 =>
    rw [tpe_step_switch f offs B i c p hf (by intro o q hh; rw [hs0] at hh; cases hh), hs0] at hs
    exact hs
  | done o0 e0 q0 =>
    by_cases he : e0 = .moreBytes
    · subst he
      obtain ⟨_, hcase⟩ := tpe_step_more f offs B i c p hf hs0
      rcases hcase with ⟨_, h⟩ | ⟨_, _, x, h, _⟩
      · rw [h] at hs; cases hs
      · rw [h] at hs; cases hs
    · rw [tpe_step_switch f offs B i c p hf (by intro o q hh; rw [hs0] at hh; cases hh; exact he rfl), hs0] at hs
      cases hs

/-- a final iteration with the flag is the same final iteration without it, or the end-of-input exit -/
theorem tpe_done_cases (f offs : Nat) (B : Buf) (i : Nat) (c : UInt8) (p : PTokParam)
    (hf : hasFlag f POptInputEndF = false) {o : Nat} {e : Err} {p' : PTokParam}
    (hs : tpStep (f ||| POptInputEndF) offs B i c p = .done o e p') :
    tpStep f offs B i c p = .done o e p' ∨
      (e ≠ .moreBytes ∧ e ≠ .moreValues ∧ o = B.size ∧ (p'.name = p.name ∨ p'.name = p.name.extend i)) := by
  cases hs0 : tpStep f offs B i c p with
  | cont i0 q0 =>
    rw [tpe_step_switch f offs B i c p hf (by intro o q hh; rw [hs0] at hh; cases hh), hs0] at hs
    cases hs
  | done o0 e0 q0 =>
    by_cases he : e0 = .moreBytes
    · subst he
      obtain ⟨hq, hcase⟩ := tpe_step_more f offs B i c p hf hs0
      rcases hcase with ⟨_, h⟩ | ⟨_, _, x, h, hx⟩
      · rw [h] at hs; cases hs; left; rw [hq]
      · rw [h] at hs
        simp only [stepOfRes, Step.done.injEq] at hs
        obtain ⟨h1, h2, h3⟩ := hs
        have hfa := tpEOH_facts x B.size 0
        right
        refine ⟨by rw [← h2]; exact hfa.2.1, by rw [← h2]; exact tpe_tpEOH_ne_mv x B.size 0, by rw [← h1, hfa.1]; rfl, ?_⟩
        rw [← h3, hfa.2.2]; exact hx
    · rw [tpe_step_switch f offs B i c p hf (by intro o q hh; rw [hs0] at hh; cases hh; exact he rfl), hs0] at hs
      left; exact hs

/-- the end-of-buffer exit, any flags -/
theorem tpe_eob_facts (B : Buf) (g : Nat) (p : PTokParam) (i : Nat) :
    ((tpMoreBytes B g p i).1 = i ∨ (tpMoreBytes B g p i).1 = B.size) ∧ NameStep i p (tpMoreBytes B g p i).2.2 ∧
      (tpMoreBytes B g p i).2.1 ≠ .moreValues := by
  unfold tpMoreBytes
  split
  · split
    all_goals first
      | exact ⟨Or.inl rfl, Or.inl rfl, (fun h => by cases h)⟩
      | exact ⟨Or.inr (tpEOH_facts p B.size 0).1, Or.inl (tpEOH_facts p B.size 0).2.2, tpe_tpEOH_ne_mv _ _ _⟩
      | exact ⟨Or.inr (tpEOH_facts ((p.extName i).extAll i) B.size 0).1,
          Or.inr (Or.inr (tpEOH_facts ((p.extName i).extAll i) B.size 0).2.2), tpe_tpEOH_ne_mv _ _ _⟩
      | exact ⟨Or.inr (tpEOH_facts ((p.extVal i).extAll i) B.size 0).1,
          Or.inl (tpEOH_facts ((p.extVal i).extAll i) B.size 0).2.2, tpe_tpEOH_ne_mv _ _ _⟩
  · exact ⟨Or.inl rfl, Or.inl rfl, (fun h => by cases h)⟩

/-- with the option: the returned offset lies in `[o, len(buf)]`, the name field stays legitimate -/
theorem parseTokenParam_post_end (B : Buf) (o : Nat) (p : PTokParam) (f : Nat)
    (hf : hasFlag f POptInputEndF = false) (ho : o ≤ B.size) (hok : tpOK B p)
    {o' : Nat} {e : Err} {p' : PTokParam} (h : parseTokenParam B o p (f ||| POptInputEndF) = (o', e, p')) :
    o ≤ o' ∧ o' ≤ B.size ∧ tpOK B p' := by
  unfold parseTokenParam at h
  by_cases hfin : p.state = .fin
  · rw [if_pos hfin] at h; cases h; exact ⟨Nat.le_refl _, ho, hok⟩
  · rw [if_neg hfin] at h
    have key := runLoop_inv (tpMachine (f ||| POptInputEndF) o) B
      (fun i st => o ≤ i ∧ i ≤ B.size ∧ st.state ≠ .fin ∧ tpOK B st)
      (fun r => o ≤ r.1 ∧ r.1 ≤ B.size ∧ tpOK B r.2.2)
      (by
        intro i c st i' st' hb hP hs
        have hi := get?_lt hb
        have hs' := tpe_cont_same f o B i c st hf hs
        have hc := tp_cont_facts f o B i c st hf hb hP.2.2.1 hs'
        exact ⟨fun _ => ⟨by have := hP.1; omega, hc.2.1, hc.2.2.1, tpOK_step (by omega) hP.2.2.2 hc.2.2.2.2.2⟩,
          fun hn => absurd hc.1 hn⟩)
      (by
        intro i c st o1 e1 st' hb hP hs
        have hi := get?_lt hb
        rcases tpe_done_cases f o B i c st hf hs with hs' | ⟨_, _, h3, h4⟩
        · have hd := tp_done_facts f o B i c st hf hb hP.1 hs'
          exact ⟨hd.1, hd.2.1, tpOK_step (by omega) hP.2.2.2 hd.2.2.1⟩
        · refine ⟨by have := hP.1; omega, by omega, tpOK_step (i := i) (by omega) hP.2.2.2 ?_⟩
          rcases h4 with h4 | h4
          · exact Or.inl h4
          · exact Or.inr (Or.inr h4))
      (by
        intro i st hb hP
        have hfa := tpe_eob_facts B (f ||| POptInputEndF) st i
        show o ≤ (tpMoreBytes B _ st i).1 ∧ (tpMoreBytes B _ st i).1 ≤ B.size ∧ tpOK B (tpMoreBytes B _ st i).2.2
        refine ⟨?_, ?_, tpOK_step hP.2.1 hP.2.2.2 hfa.2.1⟩
        · rcases hfa.1 with h | h <;> rw [h]
          · exact hP.1
          · have := hP.1; have := hP.2.1; omega
        · rcases hfa.1 with h | h <;> rw [h]
          · exact hP.2.1
          · exact Nat.le_refl _)
      o p ⟨Nat.le_refl _, ho, hfin, hok⟩
    rw [h] at key
    exact key

/-- the offset range alone needs no hypothesis on the object -/
theorem parseTokenParam_range_end (B : Buf) (o : Nat) (p : PTokParam) (f : Nat)
    (hf : hasFlag f POptInputEndF = false) (ho : o ≤ B.size)
    {o' : Nat} {e : Err} {p' : PTokParam} (h : parseTokenParam B o p (f ||| POptInputEndF) = (o', e, p')) :
    o ≤ o' ∧ o' ≤ B.size := by
  unfold parseTokenParam at h
  by_cases hfin : p.state = .fin
  · rw [if_pos hfin] at h; cases h; exact ⟨Nat.le_refl _, ho⟩
  · rw [if_neg hfin] at h
    have key := runLoop_inv (tpMachine (f ||| POptInputEndF) o) B
      (fun i st => o ≤ i ∧ i ≤ B.size ∧ st.state ≠ .fin)
      (fun r => o ≤ r.1 ∧ r.1 ≤ B.size)
      (by
        intro i c st i' st' hb hP hs
        have hs' := tpe_cont_same f o B i c st hf hs
        have hc := tp_cont_facts f o B i c st hf hb hP.2.2 hs'
        exact ⟨fun _ => ⟨by have := hP.1; omega, hc.2.1, hc.2.2.1⟩, fun hn => absurd hc.1 hn⟩)
      (by
        intro i c st o1 e1 st' hb hP hs
        have hi := get?_lt hb
        rcases tpe_done_cases f o B i c st hf hs with hs' | ⟨_, _, h3, _⟩
        · have hd := tp_done_facts f o B i c st hf hb hP.1 hs'
          exact ⟨hd.1, hd.2.1⟩
        · exact ⟨by have := hP.1; omega, by omega⟩)
      (by
        intro i st hb hP
        have hfa := tpe_eob_facts B (f ||| POptInputEndF) st i
        show o ≤ (tpMoreBytes B _ st i).1 ∧ (tpMoreBytes B _ st i).1 ≤ B.size
        rcases hfa.1 with h | h <;> rw [h]
        · exact ⟨hP.1, hP.2.1⟩
        · exact ⟨by have := hP.1; have := hP.2.1; omega, Nat.le_refl _⟩)
      o p ⟨Nat.le_refl _, ho, hfin⟩
    rw [h] at key
    exact key

/-- "more values" at the very offset the call was started with: the object was waiting for the next element -/
theorem parseTokenParam_mv_start_end (B : Buf) (o : Nat) (p : PTokParam) (f : Nat)
    (hf : hasFlag f POptInputEndF = false) {p' : PTokParam}
    (h : parseTokenParam B o p (f ||| POptInputEndF) = (o, Err.moreValues, p')) : p.state = .fNxt := by
  unfold parseTokenParam at h
  by_cases hfin : p.state = .fin
  · rw [if_pos hfin] at h; cases h
  · rw [if_neg hfin] at h
    have key := runLoop_inv (tpMachine (f ||| POptInputEndF) o) B
      (fun i st => o ≤ i ∧ st.state ≠ .fin ∧ (i = o → st = p))
      (fun r => r.2.1 = Err.moreValues → r.1 = o → p.state = .fNxt)
      (by
        intro i c st i' st' hb hP hs
        have hs' := tpe_cont_same f o B i c st hf hs
        have hc := tp_cont_facts f o B i c st hf hb hP.2.1 hs'
        exact ⟨fun _ => ⟨by have := hP.1; omega, hc.2.2.1, fun hh => by have := hP.1; omega⟩, fun hn => absurd hc.1 hn⟩)
      (by
        intro i c st o1 e1 st' hb hP hs he ho1
        simp only at he ho1; subst he
        rcases tpe_done_cases f o B i c st hf hs with hs' | ⟨_, h2, _, _⟩
        · have hm := tp_done_mv f o B i c st hf hs'
          rw [← hP.2.2 (by omega)]; exact hm.2
        · exact absurd rfl h2)
      (by
        intro i st hb hP he
        exact absurd he (tpe_eob_facts B (f ||| POptInputEndF) st i).2.2)
      o p ⟨Nat.le_refl _, hfin, fun _ => rfl⟩
    rw [h] at key
    exact key rfl rfl

/-! ### the URI-parameter list with the flag -/

/-- with a clean list the loop's progress guard always holds (call with the end-of-input option) -/
theorem tpe_pl_guard {B : Buf} {offs : Nat} {l : URIParamsLst} {g next : Nat} {tp : PTokParam}
    (hg : hasFlag g POptInputEndF = false) (hcl : plClean l) (ho : offs ≤ B.size)
    (hp : parseTokenParam B offs l.cur.param (g ||| POptInputEndF) = (next, .moreValues, tp)) (t : Nat) :
    next ≤ B.size ∧ (offs < next ∨ (offs = next ∧ l.cur.param.state = .fNxt ∧
      (l.next tp t).cur.param.state ≠ .fNxt)) := by
  have hr := parseTokenParam_range_end B offs l.cur.param g hg ho hp
  refine ⟨hr.2, ?_⟩
  rcases Nat.lt_or_ge offs next with h | h
  · exact Or.inl h
  · have : next = offs := by omega
    subst this
    refine Or.inr ⟨rfl, parseTokenParam_mv_start_end B next l.cur.param g hg hp, ?_⟩
    rw [(plClean_next tp t hcl).2]
    intro hh; cases hh

theorem tpe_uriParamsLoop_mv' {B : Buf} {offs : Nat} {l : URIParamsLst} {g vNo next : Nat} {tp : PTokParam} {nm : Buf}
    (hg : hasFlag g POptInputEndF = false) (hcl : plClean l) (ho : offs ≤ B.size)
    (hp : parseTokenParam B offs l.cur.param (g ||| POptInputEndF) = (next, .moreValues, tp))
    (hn : tp.name.get? B = some nm) :
    uriParamsLoop B offs l (g ||| POptInputEndF) vNo =
      uriParamsLoop B next (l.next tp (uriParamResolve nm)) (g ||| POptInputEndF) (vNo + 1) := by
  rw [uriParamsLoop_mv hp hn, if_pos (tpe_pl_guard hg hcl ho hp _)]

/-- re-entering the loop with the suspended element in place: the first token-parameter call decides -/
theorem tpe_uriParamsLoop_reenter (B : Buf) (g : Nat) (hg : hasFlag g POptInputEndF = false)
    (offs o' : Nat) (l : URIParamsLst) (tp : PTokParam) (vNo : Nat) (hcl : plClean l)
    (ho : offs ≤ B.size) (ho' : o' ≤ B.size)
    (hpe : parseTokenParam B o' tp (g ||| POptInputEndF) = parseTokenParam B offs l.cur.param (g ||| POptInputEndF)) :
    uriParamsLoop B o' (l.setCur { l.cur with param := tp }) (g ||| POptInputEndF) vNo =
      uriParamsLoop B offs l (g ||| POptInputEndF) vNo := by
  rcases h2 : parseTokenParam B offs l.cur.param (g ||| POptInputEndF) with ⟨n2, e2, tp2⟩
  have hcur : (l.setCur { l.cur with param := tp }).cur.param = tp := by rw [pSetCur_cur]
  have h1 : parseTokenParam B o' (l.setCur { l.cur with param := tp }).cur.param (g ||| POptInputEndF) = (n2, e2, tp2) := by
    rw [hcur, hpe, h2]
  have hcl' := plClean_setCur { l.cur with param := tp } hcl
  have hobj : ({ (l.setCur { l.cur with param := tp }).cur with param := tp2 } : URIParam) = { l.cur with param := tp2 } := by
    rw [pSetCur_cur]
  by_cases hm : e2 = .moreBytes
  · subst hm
    rw [uriParamsLoop_eq_more h1, uriParamsLoop_eq_more h2, pSetCur_setCur, hobj]
  · by_cases hc : e2 = .ok ∨ e2 = .moreValues ∨ e2 = .eoh
    · cases hn : tp2.name.get? B with
      | none => rw [uriParamsLoop_panic h1 hc hn, uriParamsLoop_panic h2 hc hn, pSetCur_setCur, hobj]
      | some nm =>
        rcases hc with rfl | rfl | rfl
        · rw [uriParamsLoop_eq_last h1 (Or.inl rfl) hn, uriParamsLoop_eq_last h2 (Or.inl rfl) hn, pNext_setCur]
        · rw [tpe_uriParamsLoop_mv' hg hcl' ho' h1 hn, tpe_uriParamsLoop_mv' hg hcl ho h2 hn, pNext_setCur]
        · rw [uriParamsLoop_eq_last h1 (Or.inr rfl) hn, uriParamsLoop_eq_last h2 (Or.inr rfl) hn, pNext_setCur]
    · have e1 : e2 ≠ .ok := fun h => hc (Or.inl h)
      have e3 : e2 ≠ .moreValues := fun h => hc (Or.inr (Or.inl h))
      have e4 : e2 ≠ .eoh := fun h => hc (Or.inr (Or.inr h))
      rw [uriParamsLoop_err h1 e1 e3 e4 hm, uriParamsLoop_err h2 e1 e3 e4 hm, pSetCur_setCur]

/-- **L1 for the URI-parameter loop, flag switched on later** -/
theorem tpe_uriParamsLoop_stable (b s : Buf) (g : Nat) (hg : hasFlag g POptInputEndF = false)
    (offs : Nat) (l : URIParamsLst) (vNo : Nat) (hok : plOK b l) (ho : offs ≤ b.size)
    {o' n' : Nat} {e : Err} {l' : URIParamsLst}
    (hr : uriParamsLoop b offs l g vNo = (o', n', e, l')) (he : e ≠ .moreBytes) :
    uriParamsLoop (b ++ s) offs l (g ||| POptInputEndF) vNo = (o', n', e, l') := by
  revert hok ho hr
  induction offs, l, vNo using uriParamsLoop_induct b g with
  | step offs l vNo ih =>
    intro hok ho hr
    have hoB : offs ≤ (b ++ s).size := by rw [Array.size_append]; omega
    rcases hp : parseTokenParam b offs l.cur.param g with ⟨next, e1, tp⟩
    have hpost := parseTokenParam_post b offs l.cur.param g hg ho hok.1 hp
    by_cases hm : e1 = .moreBytes
    · subst hm
      rw [uriParamsLoop_eq_more hp] at hr; cases hr; exact absurd rfl he
    · have hpB := parseTokenParam_stable_end b s offs l.cur.param g hg hp hm
      have hgB : tp.name.get? (b ++ s) = tp.name.get? b := PField.get?_app _ b s hpost.2.2.2
      by_cases hc : e1 = .ok ∨ e1 = .moreValues ∨ e1 = .eoh
      · cases hn : tp.name.get? b with
        | none =>
          rw [uriParamsLoop_panic hp hc hn] at hr
          rw [uriParamsLoop_panic hpB hc (hgB.trans hn)]; exact hr
        | some nm =>
          rcases hc with rfl | rfl | rfl
          · rw [uriParamsLoop_eq_last hp (Or.inl rfl) hn] at hr
            rw [uriParamsLoop_eq_last hpB (Or.inl rfl) (hgB.trans hn)]; exact hr
          · have hgd := pl_guard hg hok.2 ho hp (uriParamResolve nm)
            rw [uriParamsLoop_mv' hg hok.2 ho hp hn] at hr
            rw [tpe_uriParamsLoop_mv' hg hok.2 hoB hpB (hgB.trans hn)]
            have hcn := plClean_next tp (uriParamResolve nm) hok.2
            exact ih next tp nm hp hn hgd ⟨by rw [hcn.2]; exact tpOK_new b, hcn.1⟩ hgd.1 hr
          · rw [uriParamsLoop_eq_last hp (Or.inr rfl) hn] at hr
            rw [uriParamsLoop_eq_last hpB (Or.inr rfl) (hgB.trans hn)]; exact hr
      · have h1 : e1 ≠ .ok := fun h => hc (Or.inl h)
        have h2 : e1 ≠ .moreValues := fun h => hc (Or.inr (Or.inl h))
        have h3 : e1 ≠ .eoh := fun h => hc (Or.inr (Or.inr h))
        rw [uriParamsLoop_err hp h1 h2 h3 hm] at hr
        rw [uriParamsLoop_err hpB h1 h2 h3 hm]; exact hr

/-- **L2 for the URI-parameter loop, flag switched on at the resumed call** -/
theorem tpe_uriParamsLoop_resume (b s : Buf) (g : Nat) (hg : hasFlag g POptInputEndF = false)
    (offs : Nat) (l : URIParamsLst) (vNo : Nat) (hok : plOK b l) (ho : offs ≤ b.size)
    {o' n' : Nat} {l' : URIParamsLst}
    (hr : uriParamsLoop b offs l g vNo = (o', n', Err.moreBytes, l')) :
    uriParamsLoop (b ++ s) o' l' (g ||| POptInputEndF) n' = uriParamsLoop (b ++ s) offs l (g ||| POptInputEndF) vNo := by
  revert hok ho hr
  induction offs, l, vNo using uriParamsLoop_induct b g with
  | step offs l vNo ih =>
    intro hok ho hr
    have hsz : b.size ≤ (b ++ s).size := by rw [Array.size_append]; omega
    have hoB : offs ≤ (b ++ s).size := by omega
    rcases hp : parseTokenParam b offs l.cur.param g with ⟨next, e1, tp⟩
    have hpost := parseTokenParam_post b offs l.cur.param g hg ho hok.1 hp
    by_cases hm : e1 = .moreBytes
    · subst hm
      rw [uriParamsLoop_eq_more hp] at hr
      simp only [Prod.mk.injEq, true_and] at hr
      obtain ⟨rfl, rfl, rfl⟩ := hr
      have hres := parseTokenParam_resume_end b s offs l.cur.param g hg hp
      exact tpe_uriParamsLoop_reenter (b ++ s) g hg offs next l tp vNo hok.2 hoB (by omega) hres
    · have hpB := parseTokenParam_stable_end b s offs l.cur.param g hg hp hm
      have hgB : tp.name.get? (b ++ s) = tp.name.get? b := PField.get?_app _ b s hpost.2.2.2
      by_cases hc : e1 = .ok ∨ e1 = .moreValues ∨ e1 = .eoh
      · cases hn : tp.name.get? b with
        | none =>
          rw [uriParamsLoop_panic hp hc hn] at hr
          simp only [Prod.mk.injEq] at hr
          exact absurd hr.2.2.1 hm
        | some nm =>
          rcases hc with rfl | rfl | rfl
          · rw [uriParamsLoop_eq_last hp (Or.inl rfl) hn] at hr; cases hr
          · have hgd := pl_guard hg hok.2 ho hp (uriParamResolve nm)
            rw [uriParamsLoop_mv' hg hok.2 ho hp hn] at hr
            have hcn := plClean_next tp (uriParamResolve nm) hok.2
            have := ih next tp nm hp hn hgd ⟨by rw [hcn.2]; exact tpOK_new b, hcn.1⟩ hgd.1 hr
            rw [tpe_uriParamsLoop_mv' hg hok.2 hoB hpB (hgB.trans hn)]
            exact this
          · rw [uriParamsLoop_eq_last hp (Or.inr rfl) hn] at hr; cases hr
      · have h1 : e1 ≠ .ok := fun h => hc (Or.inl h)
        have h2 : e1 ≠ .moreValues := fun h => hc (Or.inr (Or.inl h))
        have h3 : e1 ≠ .eoh := fun h => hc (Or.inr (Or.inr h))
        rw [uriParamsLoop_err hp h1 h2 h3 hm] at hr
        simp only [Prod.mk.injEq] at hr
        exact absurd hr.2.2.1 hm

theorem tpe_flags_semiSep (f : Nat) :
    (f ||| POptInputEndF) ||| POptParamSemiSepF = (f ||| POptParamSemiSepF) ||| POptInputEndF := by
  rw [Nat.or_assoc, Nat.or_comm POptInputEndF, ← Nat.or_assoc]

/-- **L1 for ParseAllURIParams, option switched on later**: a definitive result of a call without the end-of-input
    option (offset, number of values, verdict, list) is the result of the call with the option on every extension -/
theorem parseAllURIParams_stable_end (b s : Buf) (offs : Nat) (l : URIParamsLst) (f : Nat)
    (hf : hasFlag f POptInputEndF = false) (hok : plOK b l) (ho : offs ≤ b.size)
    {o' n' : Nat} {e : Err} {l' : URIParamsLst}
    (hr : parseAllURIParams b offs l f = (o', n', e, l')) (he : e ≠ .moreBytes) :
    parseAllURIParams (b ++ s) offs l (f ||| POptInputEndF) = (o', n', e, l') := by
  unfold parseAllURIParams at hr ⊢
  rw [tpe_flags_semiSep]
  exact tpe_uriParamsLoop_stable b s _ (by rw [hasFlag_semiSep]; exact hf) offs l 0 hok ho hr he

/-- **C02 for ParseAllURIParams, the last call carrying the end-of-input option**: after `MoreBytes` (with `n'` values
    parsed so far) at `(o', l')` from a call without the option, the call WITH the option on any extension from
    `(o', l')` returns the offset, the verdict and the very list object of ONE call with the option on the extended
    buffer from `(offs, l)`; the numbers of values parsed add up. -/
theorem parseAllURIParams_resume_end (b s : Buf) (offs : Nat) (l : URIParamsLst) (f : Nat)
    (hf : hasFlag f POptInputEndF = false) (hok : plOK b l) (ho : offs ≤ b.size)
    {o' n' : Nat} {l' : URIParamsLst}
    (hr : parseAllURIParams b offs l f = (o', n', Err.moreBytes, l')) :
    (parseAllURIParams (b ++ s) o' l' (f ||| POptInputEndF)).1 =
        (parseAllURIParams (b ++ s) offs l (f ||| POptInputEndF)).1 ∧
    n' + (parseAllURIParams (b ++ s) o' l' (f ||| POptInputEndF)).2.1 =
        (parseAllURIParams (b ++ s) offs l (f ||| POptInputEndF)).2.1 ∧
    (parseAllURIParams (b ++ s) o' l' (f ||| POptInputEndF)).2.2 =
        (parseAllURIParams (b ++ s) offs l (f ||| POptInputEndF)).2.2 := by
  unfold parseAllURIParams at hr ⊢
  rw [tpe_flags_semiSep]
  have := tpe_uriParamsLoop_resume b s _ (by rw [hasFlag_semiSep]; exact hf) offs l 0 hok ho hr
  rw [← this, uriParamsLoop_vNo (b ++ s) _ o' l' n']
  exact ⟨rfl, rfl, rfl⟩

/-! ### the URI-header list with the flag -/

theorem tpe_hl_guard {B : Buf} {offs : Nat} {l : URIHdrsLst} {g next : Nat} {tp : PTokParam}
    (hg : hasFlag g POptInputEndF = false) (hcl : hlClean l) (ho : offs ≤ B.size)
    (hp : parseTokenParam B offs l.cur (g ||| POptInputEndF) = (next, .moreValues, tp)) :
    next ≤ B.size ∧ (offs < next ∨ (offs = next ∧ l.cur.state = .fNxt ∧ (l.next tp).cur.state ≠ .fNxt)) := by
  have hr := parseTokenParam_range_end B offs l.cur g hg ho hp
  refine ⟨hr.2, ?_⟩
  rcases Nat.lt_or_ge offs next with h | h
  · exact Or.inl h
  · have : next = offs := by omega
    subst this
    refine Or.inr ⟨rfl, parseTokenParam_mv_start_end B next l.cur g hg hp, ?_⟩
    rw [(hlClean_next tp hcl).2]
    intro hh; cases hh

theorem tpe_uriHdrsLoop_mv' {B : Buf} {offs : Nat} {l : URIHdrsLst} {g vNo next : Nat} {tp : PTokParam}
    (hg : hasFlag g POptInputEndF = false) (hcl : hlClean l) (ho : offs ≤ B.size)
    (hp : parseTokenParam B offs l.cur (g ||| POptInputEndF) = (next, .moreValues, tp)) :
    uriHdrsLoop B offs l (g ||| POptInputEndF) vNo = uriHdrsLoop B next (l.next tp) (g ||| POptInputEndF) (vNo + 1) := by
  rw [uriHdrsLoop_mv hp, if_pos (tpe_hl_guard hg hcl ho hp)]

theorem tpe_uriHdrsLoop_reenter (B : Buf) (g : Nat) (hg : hasFlag g POptInputEndF = false)
    (offs o' : Nat) (l : URIHdrsLst) (tp : PTokParam) (vNo : Nat) (hcl : hlClean l)
    (ho : offs ≤ B.size) (ho' : o' ≤ B.size)
    (hpe : parseTokenParam B o' tp (g ||| POptInputEndF) = parseTokenParam B offs l.cur (g ||| POptInputEndF)) :
    uriHdrsLoop B o' (l.setCur tp) (g ||| POptInputEndF) vNo = uriHdrsLoop B offs l (g ||| POptInputEndF) vNo := by
  rcases h2 : parseTokenParam B offs l.cur (g ||| POptInputEndF) with ⟨n2, e2, tp2⟩
  have h1 : parseTokenParam B o' (l.setCur tp).cur (g ||| POptInputEndF) = (n2, e2, tp2) := by
    rw [hSetCur_cur, hpe, h2]
  have hcl' := hlClean_setCur tp hcl
  by_cases hm : e2 = .moreBytes
  · subst hm
    rw [uriHdrsLoop_eq_more h1, uriHdrsLoop_eq_more h2, hSetCur_setCur]
  · by_cases hc : e2 = .ok ∨ e2 = .moreValues ∨ e2 = .eoh
    · rcases hc with rfl | rfl | rfl
      · rw [uriHdrsLoop_eq_last h1 (Or.inl rfl), uriHdrsLoop_eq_last h2 (Or.inl rfl), hNext_setCur]
      · rw [tpe_uriHdrsLoop_mv' hg hcl' ho' h1, tpe_uriHdrsLoop_mv' hg hcl ho h2, hNext_setCur]
      · rw [uriHdrsLoop_eq_last h1 (Or.inr rfl), uriHdrsLoop_eq_last h2 (Or.inr rfl), hNext_setCur]
    · have e1 : e2 ≠ .ok := fun h => hc (Or.inl h)
      have e3 : e2 ≠ .moreValues := fun h => hc (Or.inr (Or.inl h))
      have e4 : e2 ≠ .eoh := fun h => hc (Or.inr (Or.inr h))
      rw [uriHdrsLoop_err h1 e1 e3 e4 hm, uriHdrsLoop_err h2 e1 e3 e4 hm, hSetCur_setCur]

/-- **L1 for the URI-header loop, flag switched on later** -/
theorem tpe_uriHdrsLoop_stable (b s : Buf) (g : Nat) (hg : hasFlag g POptInputEndF = false)
    (offs : Nat) (l : URIHdrsLst) (vNo : Nat) (hok : hlClean l) (ho : offs ≤ b.size)
    {o' n' : Nat} {e : Err} {l' : URIHdrsLst}
    (hr : uriHdrsLoop b offs l g vNo = (o', n', e, l')) (he : e ≠ .moreBytes) :
    uriHdrsLoop (b ++ s) offs l (g ||| POptInputEndF) vNo = (o', n', e, l') := by
  revert hok ho hr
  induction offs, l, vNo using uriHdrsLoop_induct b g with
  | step offs l vNo ih =>
    intro hok ho hr
    have hoB : offs ≤ (b ++ s).size := by rw [Array.size_append]; omega
    rcases hp : parseTokenParam b offs l.cur g with ⟨next, e1, tp⟩
    by_cases hm : e1 = .moreBytes
    · subst hm
      rw [uriHdrsLoop_eq_more hp] at hr; cases hr; exact absurd rfl he
    · have hpB := parseTokenParam_stable_end b s offs l.cur g hg hp hm
      by_cases hc : e1 = .ok ∨ e1 = .moreValues ∨ e1 = .eoh
      · rcases hc with rfl | rfl | rfl
        · rw [uriHdrsLoop_eq_last hp (Or.inl rfl)] at hr
          rw [uriHdrsLoop_eq_last hpB (Or.inl rfl)]; exact hr
        · have hgd := hl_guard hg hok ho hp
          rw [uriHdrsLoop_mv' hg hok ho hp] at hr
          rw [tpe_uriHdrsLoop_mv' hg hok hoB hpB]
          exact ih next tp hp hgd (hlClean_next tp hok).1 hgd.1 hr
        · rw [uriHdrsLoop_eq_last hp (Or.inr rfl)] at hr
          rw [uriHdrsLoop_eq_last hpB (Or.inr rfl)]; exact hr
      · have h1 : e1 ≠ .ok := fun h => hc (Or.inl h)
        have h2 : e1 ≠ .moreValues := fun h => hc (Or.inr (Or.inl h))
        have h3 : e1 ≠ .eoh := fun h => hc (Or.inr (Or.inr h))
        rw [uriHdrsLoop_err hp h1 h2 h3 hm] at hr
        rw [uriHdrsLoop_err hpB h1 h2 h3 hm]; exact hr

/-- **L2 for the URI-header loop, flag switched on at the resumed call** -/
theorem tpe_uriHdrsLoop_resume (b s : Buf) (g : Nat) (hg : hasFlag g POptInputEndF = false)
    (offs : Nat) (l : URIHdrsLst) (vNo : Nat) (hok : hlClean l) (ho : offs ≤ b.size)
    {o' n' : Nat} {l' : URIHdrsLst}
    (hr : uriHdrsLoop b offs l g vNo = (o', n', Err.moreBytes, l')) :
    uriHdrsLoop (b ++ s) o' l' (g ||| POptInputEndF) n' = uriHdrsLoop (b ++ s) offs l (g ||| POptInputEndF) vNo := by
  revert hok ho hr
  induction offs, l, vNo using uriHdrsLoop_induct b g with
  | step offs l vNo ih =>
    intro hok ho hr
    have hsz : b.size ≤ (b ++ s).size := by rw [Array.size_append]; omega
    have hoB : offs ≤ (b ++ s).size := by omega
    rcases hp : parseTokenParam b offs l.cur g with ⟨next, e1, tp⟩
    have hrg := parseTokenParam_range b offs l.cur g hg ho hp
    by_cases hm : e1 = .moreBytes
    · subst hm
      rw [uriHdrsLoop_eq_more hp] at hr
      simp only [Prod.mk.injEq, true_and] at hr
      obtain ⟨rfl, rfl, rfl⟩ := hr
      have hres := parseTokenParam_resume_end b s offs l.cur g hg hp
      exact tpe_uriHdrsLoop_reenter (b ++ s) g hg offs next l tp vNo hok hoB (by omega) hres
    · have hpB := parseTokenParam_stable_end b s offs l.cur g hg hp hm
      by_cases hc : e1 = .ok ∨ e1 = .moreValues ∨ e1 = .eoh
      · rcases hc with rfl | rfl | rfl
        · rw [uriHdrsLoop_eq_last hp (Or.inl rfl)] at hr; cases hr
        · have hgd := hl_guard hg hok ho hp
          rw [uriHdrsLoop_mv' hg hok ho hp] at hr
          have := ih next tp hp hgd (hlClean_next tp hok).1 hgd.1 hr
          rw [tpe_uriHdrsLoop_mv' hg hok hoB hpB]
          exact this
        · rw [uriHdrsLoop_eq_last hp (Or.inr rfl)] at hr; cases hr
      · have h1 : e1 ≠ .ok := fun h => hc (Or.inl h)
        have h2 : e1 ≠ .moreValues := fun h => hc (Or.inr (Or.inl h))
        have h3 : e1 ≠ .eoh := fun h => hc (Or.inr (Or.inr h))
        rw [uriHdrsLoop_err hp h1 h2 h3 hm] at hr
        simp only [Prod.mk.injEq] at hr
        exact absurd hr.2.2.1 hm

theorem tpe_flags_uriHdr (f : Nat) :
    (f ||| POptInputEndF) ||| POptParamAmpSepF ||| POptTokURIHdrF =
      (f ||| POptParamAmpSepF ||| POptTokURIHdrF) ||| POptInputEndF := by
  rw [Nat.or_assoc f, Nat.or_comm POptInputEndF, ← Nat.or_assoc f, Nat.or_assoc (f ||| POptParamAmpSepF),
    Nat.or_comm POptInputEndF, ← Nat.or_assoc (f ||| POptParamAmpSepF)]

/-- **L1 for ParseAllURIHdrs, option switched on later** -/
theorem parseAllURIHdrs_stable_end (b s : Buf) (offs : Nat) (l : URIHdrsLst) (f : Nat)
    (hf : hasFlag f POptInputEndF = false) (hok : hlClean l) (ho : offs ≤ b.size)
    {o' n' : Nat} {e : Err} {l' : URIHdrsLst}
    (hr : parseAllURIHdrs b offs l f = (o', n', e, l')) (he : e ≠ .moreBytes) :
    parseAllURIHdrs (b ++ s) offs l (f ||| POptInputEndF) = (o', n', e, l') := by
  unfold parseAllURIHdrs at hr ⊢
  rw [tpe_flags_uriHdr]
  exact tpe_uriHdrsLoop_stable b s _ (by rw [hasFlag_uriHdr]; exact hf) offs l 0 hok ho hr he

/-- **C02 for ParseAllURIHdrs, the last call carrying the end-of-input option** -/
theorem parseAllURIHdrs_resume_end (b s : Buf) (offs : Nat) (l : URIHdrsLst) (f : Nat)
    (hf : hasFlag f POptInputEndF = false) (hok : hlClean l) (ho : offs ≤ b.size)
    {o' n' : Nat} {l' : URIHdrsLst}
    (hr : parseAllURIHdrs b offs l f = (o', n', Err.moreBytes, l')) :
    (parseAllURIHdrs (b ++ s) o' l' (f ||| POptInputEndF)).1 =
        (parseAllURIHdrs (b ++ s) offs l (f ||| POptInputEndF)).1 ∧
    n' + (parseAllURIHdrs (b ++ s) o' l' (f ||| POptInputEndF)).2.1 =
        (parseAllURIHdrs (b ++ s) offs l (f ||| POptInputEndF)).2.1 ∧
    (parseAllURIHdrs (b ++ s) o' l' (f ||| POptInputEndF)).2.2 =
        (parseAllURIHdrs (b ++ s) offs l (f ||| POptInputEndF)).2.2 := by
  unfold parseAllURIHdrs at hr ⊢
  rw [tpe_flags_uriHdr]
  have := tpe_uriHdrsLoop_resume b s _ (by rw [hasFlag_uriHdr]; exact hf) offs l 0 hok ho hr
  rw [← this, uriHdrsLoop_vNo (b ++ s) _ o' l' n']
  exact ⟨rfl, rfl, rfl⟩

/-! ### chunk schedules whose last call carries the end-of-input option -/

/-- the caller's loop when the end of the input is known at the last call: `P` (the parser without the option) on
    every prefix but the last, while the verdict is "more bytes"; `Pe` (the parser with the option) on the last
    buffer (the whole input); stop at the first definitive verdict. -/
def resumeRunEnd {σ : Type} (P Pe : Parser σ) (o : Nat) (st : σ) : List Buf → Nat × Err × σ
  | [] => (o, Err.moreBytes, st)
  | [b] => Pe b o st
  | b :: b' :: rest =>
    match P b o st with
    | (o', Err.moreBytes, st') => resumeRunEnd P Pe o' st' (b' :: rest)
    | r => r

/-- **schedule theorem, option at the last call (generic)**: from the one-step law with the option switched on at
    the resumed call (`hres`) and "a definitive verdict without the option is the verdict with the option on every
    extension" (`hstab`): for every growing sequence of prefixes ending with the whole input `B`, the chain of calls
    returns what ONE call with the option on `B` returns. -/
theorem tpe_resumeRunEnd_eq {σ : Type} (P Pe : Parser σ) (Inv : Buf → Nat → σ → Prop)
    (hres : ∀ b s o st o' st', Inv b o st → P b o st = (o', Err.moreBytes, st') →
      Pe (b ++ s) o' st' = Pe (b ++ s) o st ∧ Inv (b ++ s) o' st')
    (hstab : ∀ b s o st o' e st', Inv b o st → P b o st = (o', e, st') → e ≠ .moreBytes →
      Pe (b ++ s) o st = (o', e, st'))
    (o : Nat) (st : σ) (l : List Buf) (hg : Growing l) (h0 : ∀ b ∈ l.head?, Inv b o st)
    (B : Buf) (hB : l.getLast? = some B) : resumeRunEnd P Pe o st l = Pe B o st := by
  induction l generalizing o st with
  | nil => cases hB
  | cons b rest ih =>
    cases rest with
    | nil =>
      simp only [List.getLast?_singleton, Option.some.injEq] at hB
      subst hB; rfl
    | cons b' rest' =>
      have hB' : (b' :: rest').getLast? = some B := by
        rw [List.getLast?_cons_cons] at hB; exact hB
      have hI : Inv b o st := h0 b (by simp)
      have hext := growing_ext hg
      have hBm : B ∈ b' :: rest' := List.mem_of_getLast? hB'
      obtain ⟨t, ht⟩ := hext B hBm
      obtain ⟨s', hs'⟩ := hext b' List.mem_cons_self
      simp only [resumeRunEnd]
      rcases hp : P b o st with ⟨o1, e1, s1⟩
      by_cases he : e1 = .moreBytes
      · subst he
        simp only
        have hI' : Inv b' o1 s1 := by rw [hs']; exact (hres b s' o st o1 s1 hI hp).2
        rw [ih o1 s1 (growing_tail hg) (by intro x hx; simp at hx; subst hx; exact hI') hB', ht]
        exact (hres b t o st o1 s1 hI hp).1
      · have := hstab b t o st o1 e1 s1 hI hp he
        rw [ht, this]
        cases e1 <;> first | rfl | exact absurd rfl he

/-- **ParseTokenParam under every chunk schedule whose last call carries the end-of-input option**: all calls but
    the last without the option, the last one (on the whole input `B`) with it: the chain returns the offset, the
    verdict and the object of ONE call with the option on `B`. -/
theorem parseTokenParam_schedule_end (f : Nat) (hf : hasFlag f POptInputEndF = false) (o : Nat) (p : PTokParam)
    (bs : List Buf) (hg : Growing bs) (B : Buf) (hB : bs.getLast? = some B) :
    resumeRunEnd (fun b o p => parseTokenParam b o p f) (fun b o p => parseTokenParam b o p (f ||| POptInputEndF))
      o p bs = parseTokenParam B o p (f ||| POptInputEndF) :=
  tpe_resumeRunEnd_eq _ _ (fun _ _ _ => True)
    (fun b s o st _ _ _ h => ⟨parseTokenParam_resume_end b s o st f hf h, trivial⟩)
    (fun b s o st _ _ _ _ h he => parseTokenParam_stable_end b s o st f hf h he)
    o p bs hg (fun _ _ => trivial) B hB

theorem tpe_uriParamsParser_resume (f : Nat) (hf : hasFlag f POptInputEndF = false)
    (b s : Buf) (o : Nat) (st : Nat × URIParamsLst) (o' : Nat) (st' : Nat × URIParamsLst)
    (hI : plOK b st.2 ∧ o ≤ b.size) (hP : uriParamsParser f b o st = (o', Err.moreBytes, st')) :
    uriParamsParser (f ||| POptInputEndF) (b ++ s) o' st' = uriParamsParser (f ||| POptInputEndF) (b ++ s) o st ∧
      (plOK (b ++ s) st'.2 ∧ o' ≤ (b ++ s).size) := by
  rcases hr : parseAllURIParams b o st.2 f with ⟨a, n, e, l'⟩
  unfold uriParamsParser at hP
  rw [hr] at hP
  simp only [Prod.mk.injEq] at hP
  obtain ⟨rfl, rfl, rfl⟩ := hP
  obtain ⟨h1, h2, h3⟩ := parseAllURIParams_resume_end b s o st.2 f hf hI.1 hI.2 hr
  obtain ⟨_, h4, _, h6, _⟩ := parseAllURIParams_resume b s o st.2 f hf hI.1 hI.2 hr
  refine ⟨?_, h4, by rw [Array.size_append]; omega⟩
  unfold uriParamsParser
  simp only
  rw [h1, ← h2, h3, Nat.add_assoc]

theorem tpe_uriParamsParser_stable (f : Nat) (hf : hasFlag f POptInputEndF = false)
    (b s : Buf) (o : Nat) (st : Nat × URIParamsLst) (o' : Nat) (e : Err) (st' : Nat × URIParamsLst)
    (hI : plOK b st.2 ∧ o ≤ b.size) (hP : uriParamsParser f b o st = (o', e, st')) (he : e ≠ .moreBytes) :
    uriParamsParser (f ||| POptInputEndF) (b ++ s) o st = (o', e, st') := by
  rcases hr : parseAllURIParams b o st.2 f with ⟨a, n, e1, l'⟩
  unfold uriParamsParser at hP
  rw [hr] at hP
  simp only [Prod.mk.injEq] at hP
  obtain ⟨rfl, rfl, rfl⟩ := hP
  have := parseAllURIParams_stable_end b s o st.2 f hf hI.1 hI.2 hr he
  unfold uriParamsParser
  rw [this]

/-- **ParseAllURIParams under every chunk schedule whose last call carries the end-of-input option**: offset,
    verdict, total number of values (the per-call numbers added up) and list object of the chain are those of ONE
    call with the option on the whole input `B` -/
theorem parseAllURIParams_schedule_end (f : Nat) (hf : hasFlag f POptInputEndF = false) (o : Nat)
    (l : URIParamsLst) (bs : List Buf) (hg : Growing bs) (h0 : ∀ b ∈ bs.head?, plOK b l ∧ o ≤ b.size)
    (B : Buf) (hB : bs.getLast? = some B) :
    resumeRunEnd (uriParamsParser f) (uriParamsParser (f ||| POptInputEndF)) o (0, l) bs =
      uriParamsParser (f ||| POptInputEndF) B o (0, l) :=
  tpe_resumeRunEnd_eq _ _ (fun b o st => plOK b st.2 ∧ o ≤ b.size)
    (fun b s o st o' st' hI h => tpe_uriParamsParser_resume f hf b s o st o' st' hI h)
    (fun b s o st o' e st' hI h he => tpe_uriParamsParser_stable f hf b s o st o' e st' hI h he)
    o (0, l) bs hg h0 B hB

theorem tpe_uriHdrsParser_resume (f : Nat) (hf : hasFlag f POptInputEndF = false)
    (b s : Buf) (o : Nat) (st : Nat × URIHdrsLst) (o' : Nat) (st' : Nat × URIHdrsLst)
    (hI : hlClean st.2 ∧ o ≤ b.size) (hP : uriHdrsParser f b o st = (o', Err.moreBytes, st')) :
    uriHdrsParser (f ||| POptInputEndF) (b ++ s) o' st' = uriHdrsParser (f ||| POptInputEndF) (b ++ s) o st ∧
      (hlClean st'.2 ∧ o' ≤ (b ++ s).size) := by
  rcases hr : parseAllURIHdrs b o st.2 f with ⟨a, n, e, l'⟩
  unfold uriHdrsParser at hP
  rw [hr] at hP
  simp only [Prod.mk.injEq] at hP
  obtain ⟨rfl, rfl, rfl⟩ := hP
  obtain ⟨h1, h2, h3⟩ := parseAllURIHdrs_resume_end b s o st.2 f hf hI.1 hI.2 hr
  obtain ⟨_, h4, _, h6, _⟩ := parseAllURIHdrs_resume b s o st.2 f hf hI.1 hI.2 hr
  refine ⟨?_, h4, by rw [Array.size_append]; omega⟩
  unfold uriHdrsParser
  simp only
  rw [h1, ← h2, h3, Nat.add_assoc]

theorem tpe_uriHdrsParser_stable (f : Nat) (hf : hasFlag f POptInputEndF = false)
    (b s : Buf) (o : Nat) (st : Nat × URIHdrsLst) (o' : Nat) (e : Err) (st' : Nat × URIHdrsLst)
    (hI : hlClean st.2 ∧ o ≤ b.size) (hP : uriHdrsParser f b o st = (o', e, st')) (he : e ≠ .moreBytes) :
    uriHdrsParser (f ||| POptInputEndF) (b ++ s) o st = (o', e, st') := by
  rcases hr : parseAllURIHdrs b o st.2 f with ⟨a, n, e1, l'⟩
  unfold uriHdrsParser at hP
  rw [hr] at hP
  simp only [Prod.mk.injEq] at hP
  obtain ⟨rfl, rfl, rfl⟩ := hP
  have := parseAllURIHdrs_stable_end b s o st.2 f hf hI.1 hI.2 hr he
  unfold uriHdrsParser
  rw [this]

/-- **ParseAllURIHdrs under every chunk schedule whose last call carries the end-of-input option** -/
theorem parseAllURIHdrs_schedule_end (f : Nat) (hf : hasFlag f POptInputEndF = false) (o : Nat)
    (l : URIHdrsLst) (bs : List Buf) (hg : Growing bs) (h0 : ∀ b ∈ bs.head?, hlClean l ∧ o ≤ b.size)
    (B : Buf) (hB : bs.getLast? = some B) :
    resumeRunEnd (uriHdrsParser f) (uriHdrsParser (f ||| POptInputEndF)) o (0, l) bs =
      uriHdrsParser (f ||| POptInputEndF) B o (0, l) :=
  tpe_resumeRunEnd_eq _ _ (fun b o st => hlClean st.2 ∧ o ≤ b.size)
    (fun b s o st o' st' hI h => tpe_uriHdrsParser_resume f hf b s o st o' st' hI h)
    (fun b s o st o' e st' hI h he => tpe_uriHdrsParser_stable f hf b s o st o' e st' hI h he)
    o (0, l) bs hg h0 B hB

/-! ### tests / non-vacuity (closed computations, `decide +kernel`) -/

/-- test (end-of-buffer site, nothing more arrives: `s = #[]`): "a=b" without the option is suspended in the value;
    the call with the option on the same buffer from the suspension point ends the parameter there, as the one-shot
    call with the option does (instance of `parseTokenParam_resume_end`) -/
example : (parseTokenParam "a=b".toUTF8.data 0 {} 0).1 = 3 ∧
    (parseTokenParam "a=b".toUTF8.data 0 {} 0).2.1 = .moreBytes ∧
    parseTokenParam "a=b".toUTF8.data 3 (parseTokenParam "a=b".toUTF8.data 0 {} 0).2.2 (0 ||| POptInputEndF) =
      parseTokenParam "a=b".toUTF8.data 0 {} (0 ||| POptInputEndF) ∧
    parseTokenParam "a=b".toUTF8.data 0 {} (0 ||| POptInputEndF) =
      (3, .eoh, { all := ⟨0, 3⟩, name := ⟨0, 1⟩, val := ⟨2, 1⟩, state := .fin }) := by decide +kernel
/-- test (white-space site): "a=b \r" is suspended at the blank (offset 3); on "a=b \r\n" with the option the line
    end followed by nothing is the end of the header, offset 6, for the resumed and for the one-shot call -/
example : (parseTokenParam "a=b \r".toUTF8.data 0 {} 0).1 = 3 ∧
    (parseTokenParam "a=b \r".toUTF8.data 0 {} 0).2.1 = .moreBytes ∧
    parseTokenParam "a=b \r\n".toUTF8.data 3 (parseTokenParam "a=b \r".toUTF8.data 0 {} 0).2.2 (0 ||| POptInputEndF) =
      parseTokenParam "a=b \r\n".toUTF8.data 0 {} (0 ||| POptInputEndF) ∧
    (parseTokenParam "a=b \r\n".toUTF8.data 0 {} (0 ||| POptInputEndF)).1 = 6 ∧
    (parseTokenParam "a=b \r\n".toUTF8.data 0 {} (0 ||| POptInputEndF)).2.1 = .eoh := by decide +kernel
/-- test (quoted-string site): an open quoted string stays "more bytes" even with the option -/
example : (parseTokenParam "a=\"x".toUTF8.data 0 {} 0).1 = 4 ∧
    (parseTokenParam "a=\"x".toUTF8.data 0 {} 0).2.1 = .moreBytes ∧
    parseTokenParam "a=\"x".toUTF8.data 4 (parseTokenParam "a=\"x".toUTF8.data 0 {} 0).2.2 (0 ||| POptInputEndF) =
      parseTokenParam "a=\"x".toUTF8.data 0 {} (0 ||| POptInputEndF) ∧
    (parseTokenParam "a=\"x".toUTF8.data 0 {} (0 ||| POptInputEndF)).2.1 = .moreBytes := by decide +kernel
/-- test: the hypothesis "free of the option" holds for the option sets used by callers, the derived set has it -/
example : hasFlag 0 POptInputEndF = false ∧ hasFlag (POptTokSpTermF ||| POptTokCommaTermF) POptInputEndF = false ∧
    hasFlag (POptTokSpTermF ||| POptInputEndF) POptInputEndF = true := by decide
/-- test: a schedule "a=" , "a=b;c" , "a=b;c" (the last buffer repeated: the input ended) is growing and ends
    with the whole input; the chain returns what one call with the option on "a=b;c" returns: the first parameter
    is complete and another one follows, "more values" at offset 4 (instance of `parseTokenParam_schedule_end`) -/
example : Growing ["a=".toUTF8.data, "a=b;c".toUTF8.data, "a=b;c".toUTF8.data] ∧
    ["a=".toUTF8.data, "a=b;c".toUTF8.data, "a=b;c".toUTF8.data].getLast? = some "a=b;c".toUTF8.data :=
  ⟨⟨⟨"b;c".toUTF8.data, by decide⟩, ⟨#[], by decide⟩, trivial⟩, by decide⟩
example : resumeRunEnd (fun b o p => parseTokenParam b o p 0) (fun b o p => parseTokenParam b o p (0 ||| POptInputEndF))
      0 {} ["a=".toUTF8.data, "a=b;c".toUTF8.data, "a=b;c".toUTF8.data] =
    (4, .moreValues, { all := ⟨0, 3⟩, name := ⟨0, 1⟩, val := ⟨2, 1⟩, state := .initNxtVal }) := by decide +kernel
/-- test (URI parameters, capacity 3): without the option the third element is suspended after 2 values; the call
    with the option on the same buffer completes it (1 more value, end of header at offset 20), the one-shot call
    with the option reports 3 values and the same list -/
example : (parseAllURIParams "lr;transport=udp;x=1".toUTF8.data 0 { params := Array.replicate 3 {} } 0).1 = 20 ∧
    (parseAllURIParams "lr;transport=udp;x=1".toUTF8.data 0 { params := Array.replicate 3 {} } 0).2.1 = 2 ∧
    (parseAllURIParams "lr;transport=udp;x=1".toUTF8.data 0 { params := Array.replicate 3 {} } 0).2.2.1 = .moreBytes ∧
    (parseAllURIParams "lr;transport=udp;x=1".toUTF8.data 20
      (parseAllURIParams "lr;transport=udp;x=1".toUTF8.data 0 { params := Array.replicate 3 {} } 0).2.2.2
      (0 ||| POptInputEndF)).2.1 = 1 ∧
    (parseAllURIParams "lr;transport=udp;x=1".toUTF8.data 0 { params := Array.replicate 3 {} } (0 ||| POptInputEndF)).2.1 = 3 ∧
    (parseAllURIParams "lr;transport=udp;x=1".toUTF8.data 0 { params := Array.replicate 3 {} } (0 ||| POptInputEndF)).2.2.1 = .eoh ∧
    (parseAllURIParams "lr;transport=udp;x=1".toUTF8.data 0 { params := Array.replicate 3 {} } (0 ||| POptInputEndF)).1 = 20 := by
  decide +kernel
/-- test (URI headers, capacity 2, cut inside the second element) -/
example : (parseAllURIHdrs "a=1&b".toUTF8.data 0 { hdrs := Array.replicate 2 {} } 0).2.2.1 = .moreBytes ∧
    (parseAllURIHdrs "a=1&b".toUTF8.data 0 { hdrs := Array.replicate 2 {} } 0).2.1 = 1 ∧
    (parseAllURIHdrs "a=1&b=2&c".toUTF8.data 0 { hdrs := Array.replicate 2 {} } (0 ||| POptInputEndF)).2.1 = 3 ∧
    (parseAllURIHdrs "a=1&b=2&c".toUTF8.data 0 { hdrs := Array.replicate 2 {} } (0 ||| POptInputEndF)).2.2.1 = .eoh := by
  decide +kernel

end Sipsp
