/-
  Sipsp.Proofs.SafePAIs — as SafeContacts.lean, for ParseAllPAIValues.
-/
import Sipsp.Proofs.SafeContacts
import Sipsp.Proofs.CapacityPAI

namespace Sipsp

/-- every reported field of the identity list lies before the offset `o` -/
structure PaIn (b : Buf) (o : Nat) (c : PPAIs) : Prop where
  lhv : c.lastHVal.inside o
  stored : ∀ k, k < c.n → k < c.vals.size → NaOut b o c.vals[k]!
  lastI : NaOut b o c.last

theorem PaIn.mono {b : Buf} {o o' : Nat} {c : PPAIs} (h : PaIn b o c) (h1 : o ≤ o') (h2 : o' ≤ b.size) : PaIn b o' c :=
  ⟨PField.inside_mono h.lhv h1, fun k a1 a2 => (h.stored k a1 a2).mono h1 h2, h.lastI.mono h1 h2⟩

structure PaSafe (b : Buf) (offs : Nat) (c : PPAIs) : Prop where
  ho : offs ≤ b.size
  cur : NaEntry b offs c.cur
  clean : PaClean c
  lo : ∃ lo, c.lastHVal.inside lo ∧ lo ≤ offs ∧ VLo lo c.cur
  stored : ∀ k, k < c.n → k < c.vals.size → NaFine b c.vals[k]!
  lastF : NaFine b c.last
  pnc : c.pnc = false
  inn : PaIn b offs c

structure PaOut (b : Buf) (c : PPAIs) : Prop where
  lhv : c.lastHVal.inside b.size
  stored : ∀ k, k < c.n → k < c.vals.size → NaFine b c.vals[k]!
  lastF : NaFine b c.last
  pnc : c.pnc = false

theorem paAccount_safe (b : Buf) (c : PPAIs) (pf : PFromBody) (lo o' : Nat) (hfit : b.size ≤ 65535)
    (hpf : NaOut b o' pf) (hl : c.lastHVal.inside lo) (hv : lo ≤ pf.v.offs) (hp : c.pnc = false) :
    (c.account pf).pnc = false ∧ (c.account pf).lastHVal.inside o' := by
  rw [paAccount_pnc, paAccount_lhv]
  have hend := endT_eq pf.v o' hpf.v (by have := hpf.ho; omega)
  have hvi := hpf.v
  unfold PField.inside at hvi hl
  by_cases he : c.lastHVal.isEmpty = true
  · rw [if_pos he, if_pos he]; exact ⟨hp, hpf.v⟩
  · rw [if_neg he, if_neg he]
    have hle : c.lastHVal.offs ≤ pf.v.endT := by rw [hend]; omega
    exact ⟨by rw [hp, extendPanics_false _ _ hle]; rfl, extend_inside _ _ _ hle (by rw [hend]; exact hvi)⟩

theorem paSetCur_lastF (b : Buf) (c : PPAIs) (pf : PFromBody) (h1 : NaFine b c.last) (h2 : NaFine b pf) :
    NaFine b (c.setCur pf).last := by
  unfold PPAIs.setCur; split
  · exact h1
  · exact h2

theorem paSetCur_stored (b : Buf) (c : PPAIs) (pf : PFromBody)
    (h1 : ∀ k, k < c.n → k < c.vals.size → NaFine b c.vals[k]!) (h2 : NaFine b pf) :
    ∀ k, k < c.n + 1 → k < c.vals.size → NaFine b (c.setCur pf).vals[k]! := by
  intro k hk hs
  by_cases hkn : k = c.n
  · subst hkn; rw [paSetCur_get_n c pf hs]; exact h2
  · rw [paSetCur_vals_ne c pf k (by omega)]; exact h1 k (by omega) hs

theorem paStep_out (b : Buf) (c : PPAIs) (pf : PFromBody) (lo o' : Nat) (hfit : b.size ≤ 65535)
    (hst : ∀ k, k < c.n → k < c.vals.size → NaFine b c.vals[k]!)
    (hlF : NaFine b c.last) (hp : c.pnc = false)
    (hpf : NaOut b o' pf) (hl : c.lastHVal.inside lo) (hv : lo ≤ pf.v.offs) :
    PaOut b ((c.setCur pf).account pf) ∧ ((c.setCur pf).account pf).lastHVal.inside o' := by
  have s1 := paSetCur_scalars c pf
  have ha := paAccount_safe b (c.setCur pf) pf lo o' hfit hpf (by rw [s1.2.1]; exact hl) hv (by rw [s1.2.2]; exact hp)
  refine ⟨⟨PField.inside_mono ha.2 hpf.ho, ?_, ?_, ha.1⟩, ha.2⟩
  · intro k hk hs
    rw [paAccount_n, paSetCur_n] at hk
    rw [paAccount_vals, paSetCur_size] at hs
    rw [paAccount_vals]
    exact paSetCur_stored b c pf hst hpf.fine k hk hs
  · rw [paAccount_last]; exact paSetCur_lastF b c pf hlF hpf.fine

theorem paSetCur_storedP (P : PFromBody → Prop) (c : PPAIs) (pf : PFromBody)
    (h1 : ∀ k, k < c.n → k < c.vals.size → P c.vals[k]!) (h2 : P pf) :
    ∀ k, k < c.n + 1 → k < c.vals.size → P (c.setCur pf).vals[k]! := by
  intro k hk hs
  by_cases hkn : k = c.n
  · subst hkn; rw [paSetCur_get_n c pf hs]; exact h2
  · rw [paSetCur_vals_ne c pf k (by omega)]; exact h1 k (by omega) hs

theorem paSetCur_lastP (P : PFromBody → Prop) (c : PPAIs) (pf : PFromBody) (h1 : P c.last) (h2 : P pf) :
    P (c.setCur pf).last := by
  unfold PPAIs.setCur; split
  · exact h1
  · exact h2

theorem paStep_in (b : Buf) (c : PPAIs) (pf : PFromBody) (lo o o' : Nat) (hfit : b.size ≤ 65535)
    (hin : PaIn b o c) (hoo : o ≤ o') (hpf : NaOut b o' pf) (hl : c.lastHVal.inside lo) (hv : lo ≤ pf.v.offs)
    (hp : c.pnc = false) : PaIn b o' ((c.setCur pf).account pf) := by
  have s1 := paSetCur_scalars c pf
  have ha := paAccount_safe b (c.setCur pf) pf lo o' hfit hpf (by rw [s1.2.1]; exact hl) hv (by rw [s1.2.2]; exact hp)
  have hm := hin.mono hoo hpf.ho
  refine ⟨ha.2, ?_, ?_⟩
  · intro k hk hs
    rw [paAccount_n, paSetCur_n] at hk
    rw [paAccount_vals, paSetCur_size] at hs
    rw [paAccount_vals]
    exact paSetCur_storedP (NaOut b o') c pf hm.stored hpf k hk hs
  · rw [paAccount_last]; exact paSetCur_lastP (NaOut b o') c pf hm.lastI hpf

structure PaIdle (b : Buf) (c : PPAIs) : Prop where
  out : PaOut b c
  clean : PaClean c.wrap
  cur : c.wrap.cur = {}

theorem PaOut.wrap {b : Buf} {c : PPAIs} (h : PaOut b c) : PaOut b c.wrap := by
  obtain ⟨a1, a2, a3, a4, a5⟩ := paWrap_scalars c
  refine ⟨by rw [a4]; exact h.lhv, fun k hk hs => ?_, ?_, by rw [a5]; exact h.pnc⟩
  · rw [a1] at hk; rw [a2] at hs ⊢; exact h.stored k hk hs
  · unfold PPAIs.wrap; split
    · exact NaFine_new b
    · exact h.lastF

theorem PaIn.wrap {b : Buf} {o : Nat} {c : PPAIs} (h : PaIn b o c) (ho : o ≤ b.size) : PaIn b o c.wrap := by
  obtain ⟨a1, a2, a3, a4, a5⟩ := paWrap_scalars c
  refine ⟨by rw [a4]; exact h.lhv, fun k hk hs => ?_, ?_⟩
  · rw [a1] at hk; rw [a2] at hs ⊢; exact h.stored k hk hs
  · unfold PPAIs.wrap; split
    · exact NaOut_new b o ho
    · exact h.lastI

theorem PaIdle.start {b : Buf} {c : PPAIs} (h : PaIdle b c) (o : Nat) (ho : o ≤ b.size) (k : Nat)
    (hin : PaIn b o c) : PaSafe b o { c.wrap with hNo := k, lastHVal := {} } := by
  have hw := h.out.wrap
  have hiw := hin.wrap ho
  refine ⟨ho, ?_, h.clean, ⟨o, PField.inside_zero o, Nat.le_refl _, ?_⟩, hw.stored, hw.lastF, hw.pnc,
    ⟨PField.inside_zero o, hiw.stored, hiw.lastI⟩⟩
  · show NaEntry b o c.wrap.cur
    rw [h.cur]; exact NaEntry_new b o ho
  · show VLo o c.wrap.cur
    rw [h.cur]; exact Or.inl rfl

/-- ParseOnePAI: same object and offset as ParseNameAddrPVal, whatever the verdict -/
theorem parseOnePAI_under (b : Buf) (o : Nat) (pf : PFromBody) {n : Nat} {e : Err} {pf' : PFromBody}
    (h : parseOnePAI b o pf = (n, e, pf')) :
    ∃ e0, parseNameAddrPVal HdrPAI b o pf = (n, e0, pf') ∧ (e = .ok → e0 = .ok) ∧ (e = .moreValues → e0 = .moreValues) ∧
      (e = .moreBytes → e0 = .moreBytes) := by
  obtain ⟨e0, h0, he0⟩ := parseOnePAI_inv h
  refine ⟨e0, h0, ?_, ?_, ?_⟩ <;> intro hh <;> subst hh <;> (split at he0 <;> first | (cases he0; done) | exact he0.symm | (cases he0; rfl))

theorem paisLoop_safe (b : Buf) (offs : Nat) (c : PPAIs) (hfit : b.size ≤ 65535) (h : PaSafe b offs c) :
    PaOut b (paisLoop b offs c).2.2 ∧
    ((paisLoop b offs c).2.1 = .moreBytes → PaSafe b (paisLoop b offs c).1 (paisLoop b offs c).2.2) ∧
    ((paisLoop b offs c).2.1 = .ok → PaIdle b (paisLoop b offs c).2.2 ∧ (paisLoop b offs c).1 ≤ b.size ∧
      PaIn b (paisLoop b offs c).1 (paisLoop b offs c).2.2) ∧
    (paisLoop b offs c).1 ≤ b.size := by
  induction hk : b.size - offs using Nat.strongRecOn generalizing offs c with
  | _ k ih =>
    rw [paisLoop]
    obtain ⟨lo, hl1, hl2, hl3⟩ := h.lo
    rcases hp : parseOnePAI b offs c.cur with ⟨next, e1, pf⟩
    obtain ⟨e0, hp0, hok0, hmv0, hmb0⟩ := parseOnePAI_under b offs c.cur hp
    have hsafe := parseNameAddrPVal_safe HdrPAI b offs c.cur h.cur hp0
    have hvd : VDone lo e0 pf := by
      by_cases hf : c.cur.state = .fin
      · have : parseNameAddrPVal HdrPAI b offs c.cur = (offs, .ok, c.cur) := by
          unfold parseNameAddrPVal; rw [if_pos hf]
        rw [this] at hp0
        simp only [Prod.mk.injEq] at hp0
        obtain ⟨rfl, rfl, rfl⟩ := hp0
        refine ⟨fun _ => ?_, (fun hh => by cases hh)⟩
        rcases hl3 with h0 | h0
        · rw [hf] at h0; cases h0
        · exact h0
      · exact parseNameAddrPVal_vlo HdrPAI b offs lo c.cur hfit hl2 hf hl3 hp0
    have hho := h.ho
    have hout : ∀ x : PPAIs, x.lastHVal = c.lastHVal → x.pnc = c.pnc → x.vals.size = c.vals.size →
        (∀ k, k < x.n → k < c.vals.size → NaFine b x.vals[k]!) → NaFine b x.last → PaOut b x := by
      intro x e1 e2 e4 e5 e6
      exact ⟨by rw [e1]; exact PField.inside_mono hl1 (by omega), fun k hk hs => e5 k hk (by rw [← e4]; exact hs), e6,
        by rw [e2]; exact h.pnc⟩
    cases e1 <;> simp only
    case ok =>
      have he : e0 = .ok := hok0 rfl
      subst he
      have hso := paStep_out b c pf lo next hfit h.stored h.lastF h.pnc hsafe.1 hl1 (hvd.1 (Or.inl rfl))
      have hf := (parseNameAddrPVal_post HdrPAI b offs c.cur hp0 (Or.inl rfl)).1
      have d := paDone_facts c pf h.clean hf
      have hge : offs ≤ next := (naPVal_ok_range HdrPAI b offs c.cur h.ho hp0 (Or.inl rfl)).2.1
      have hin := paStep_in b c pf lo offs next hfit h.inn hge hsafe.1 hl1 (hvd.1 (Or.inl rfl)) h.pnc
      exact ⟨hso.1, (fun hh => by cases hh), (fun _ => ⟨⟨hso.1, d.2, d.1⟩, hsafe.1.ho, hin⟩), hsafe.1.ho⟩
    case moreValues =>
      have he : e0 = .moreValues := hmv0 rfl
      subst he
      have hso := paStep_out b c pf lo next hfit h.stored h.lastF h.pnc hsafe.1 hl1 (hvd.1 (Or.inr rfl))
      have hnx : (if c.n < c.vals.size then (c.setCur pf).account pf
          else { (c.setCur pf).account pf with last := {} }) = c.next pf := rfl
      rw [hnx]
      have hcl := paNext_clean c pf h.clean
      have hlh : (c.next pf).lastHVal.inside next := by unfold PPAIs.next; split <;> exact hso.2
      have hnsafe : PaSafe b next (c.next pf) := by
        refine ⟨hsafe.1.ho, by rw [hcl.2]; exact NaEntry_new b next hsafe.1.ho, hcl.1,
          ⟨next, hlh, Nat.le_refl _, by rw [hcl.2]; exact Or.inl rfl⟩, ?_, ?_, ?_, ?_⟩
        · intro k hk hs
          rw [paNext_n] at hk
          rw [paNext_vals, paSetCur_size] at hs
          rw [paNext_vals]
          exact paSetCur_stored b c pf h.stored hsafe.1.fine k hk hs
        · unfold PPAIs.next; split
          · exact hso.1.lastF
          · exact NaFine_new b
        · unfold PPAIs.next; split <;> exact hso.1.pnc
        · have hge : offs ≤ next := (naPVal_ok_range HdrPAI b offs c.cur h.ho hp0 (Or.inr rfl)).2.1
          have hin := paStep_in b c pf lo offs next hfit h.inn hge hsafe.1 hl1 (hvd.1 (Or.inr rfl)) h.pnc
          refine ⟨hlh, fun k hk hs => ?_, ?_⟩
          · rw [paNext_n] at hk
            rw [paNext_vals, paSetCur_size] at hs
            rw [paNext_vals]
            have := hin.stored k (by rw [paAccount_n, paSetCur_n]; exact hk) (by rw [paAccount_vals, paSetCur_size]; exact hs)
            rw [paAccount_vals] at this; exact this
          · unfold PPAIs.next; split
            · exact hin.lastI
            · exact NaOut_new b next hsafe.1.ho
      by_cases hg : offs < next ∧ next ≤ b.size
      · rw [if_pos hg]
        exact ih (b.size - next) (by omega) next (c.next pf) hnsafe rfl
      · rw [if_neg hg]
        exact ⟨⟨PField.inside_mono hlh hsafe.1.ho, hnsafe.stored, hnsafe.lastF, hnsafe.pnc⟩,
          (fun hh => by cases hh), (fun hh => by cases hh), hsafe.1.ho⟩
    case moreBytes =>
      have he : e0 = .moreBytes := hmb0 rfl
      subst he
      have s1 := paSetCur_scalars c pf
      have hE := hsafe.2 rfl
      have hcs : PaSafe b next (c.setCur pf) := by
        have hgeM : offs ≤ next := by
          have := parseNameAddrPVal_more_range HdrPAI b offs c.cur (by
            rcases h.cur with hc | hc
            · exact Or.inl hc.1
            · exact Or.inr ⟨hc.2.hi, hc.2.pend, hc.2.vend⟩) hp0
          omega
        have hmI := h.inn.mono hgeM hsafe.1.ho
        refine ⟨hsafe.1.ho, by rw [paSetCur_cur]; exact hE, ?_, ⟨lo, by rw [s1.2.1]; exact hl1, ?_, by rw [paSetCur_cur]; exact hvd.2 rfl⟩,
          ?_, paSetCur_lastF b c pf h.lastF hsafe.1.fine, by rw [s1.2.2]; exact h.pnc,
          ⟨by rw [s1.2.1]; exact hmI.lhv,
           (fun k hk hs => by
              rw [paSetCur_n] at hk; rw [paSetCur_size] at hs
              rw [paSetCur_vals_ne c pf k (by omega)]; exact hmI.stored k hk hs),
           paSetCur_lastP (NaOut b next) c pf hmI.lastI hsafe.1⟩⟩
        · refine ⟨fun k h1 h2 => ?_, fun h1 => ?_⟩
          · rw [paSetCur_n] at h1; rw [paSetCur_size] at h2
            rw [paSetCur_vals_ne c pf k (by omega)]; exact h.clean.1 k h1 h2
          · rw [paSetCur_n, paSetCur_size] at h1
            rw [paSetCur_last_in c pf h1]; exact h.clean.2 h1
        · have := (parseNameAddrPVal_more_range HdrPAI b offs c.cur ?_ hp0)
          · omega
          · rcases h.cur with hc | hc
            · exact Or.inl hc.1
            · exact Or.inr ⟨hc.2.hi, hc.2.pend, hc.2.vend⟩
        · intro k hk hs
          rw [paSetCur_n] at hk; rw [paSetCur_size] at hs
          rw [paSetCur_vals_ne c pf k (by omega)]; exact h.stored k hk hs
      exact ⟨⟨by rw [s1.2.1]; exact PField.inside_mono hl1 (by omega), hcs.stored, hcs.lastF, hcs.pnc⟩,
        (fun _ => hcs), (fun hh => by cases hh), hsafe.1.ho⟩
    all_goals
      refine ⟨?_, (fun hh => by cases hh), (fun hh => by cases hh), hsafe.1.ho⟩
      split
      · have s1 := paSetCur_scalars c pf
        exact hout _ s1.2.1 s1.2.2 (paSetCur_size c pf)
          (fun k hk hs => by rw [paSetCur_n] at hk; exact paSetCur_stored b c pf h.stored hsafe.1.fine k (by omega) hs)
          (paSetCur_lastF b c pf h.lastF hsafe.1.fine)
      · exact hout _ rfl rfl rfl (fun k hk hs => h.stored k hk hs) (NaFine_new b)

theorem PaSafe.wrap {b : Buf} {o : Nat} {c : PPAIs} (h : PaSafe b o c) : PaSafe b o c.wrap := by
  unfold PPAIs.wrap
  split
  · rename_i hc
    simp only [Bool.and_eq_true, decide_eq_true_eq] at hc
    have hcur : ({ c with last := {} } : PPAIs).cur = {} := by
      unfold PPAIs.cur; rw [if_neg (by show ¬ c.n < c.vals.size; omega)]
    obtain ⟨lo, hl1, hl2, _⟩ := h.lo
    exact ⟨h.ho, by rw [hcur]; exact NaEntry_new b o h.ho, ⟨h.clean.1, fun _ => rfl⟩,
      ⟨lo, hl1, hl2, by rw [hcur]; exact Or.inl rfl⟩, h.stored, NaFine_new b, h.pnc,
      ⟨h.inn.lhv, h.inn.stored, NaOut_new b o h.ho⟩⟩
  · exact h

theorem paBump_wrap (c : PPAIs) (k : Nat) :
    ({ c with hNo := k, lastHVal := {} } : PPAIs).wrap = { c.wrap with hNo := k, lastHVal := {} } := by
  unfold PPAIs.wrap; split <;> rfl

theorem parseAllPAIValues_safe (b : Buf) (o : Nat) (c : PPAIs) (hfit : b.size ≤ 65535) (h : PaSafe b o c) :
    PaOut b (parseAllPAIValues b o c).2.2 ∧
    ((parseAllPAIValues b o c).2.1 = .moreBytes → PaSafe b (parseAllPAIValues b o c).1 (parseAllPAIValues b o c).2.2) ∧
    ((parseAllPAIValues b o c).2.1 = .ok → PaIdle b (parseAllPAIValues b o c).2.2 ∧ (parseAllPAIValues b o c).1 ≤ b.size ∧
      PaIn b (parseAllPAIValues b o c).1 (parseAllPAIValues b o c).2.2) ∧
    (parseAllPAIValues b o c).1 ≤ b.size := by
  rw [parseAllPAIValues_eq_wrap]
  exact paisLoop_safe b o c.wrap hfit h.wrap

theorem parseAllPAIValues_safe_new (b : Buf) (o : Nat) (c : PPAIs) (k : Nat) (hfit : b.size ≤ 65535)
    (ho : o ≤ b.size) (h : PaIdle b c) (hin : PaIn b o c) :
    PaOut b (parseAllPAIValues b o { c with hNo := k, lastHVal := {} }).2.2 ∧
    ((parseAllPAIValues b o { c with hNo := k, lastHVal := {} }).2.1 = .moreBytes →
      PaSafe b (parseAllPAIValues b o { c with hNo := k, lastHVal := {} }).1
        (parseAllPAIValues b o { c with hNo := k, lastHVal := {} }).2.2) ∧
    ((parseAllPAIValues b o { c with hNo := k, lastHVal := {} }).2.1 = .ok →
      PaIdle b (parseAllPAIValues b o { c with hNo := k, lastHVal := {} }).2.2 ∧
      (parseAllPAIValues b o { c with hNo := k, lastHVal := {} }).1 ≤ b.size ∧
      PaIn b (parseAllPAIValues b o { c with hNo := k, lastHVal := {} }).1
        (parseAllPAIValues b o { c with hNo := k, lastHVal := {} }).2.2) ∧
    (parseAllPAIValues b o { c with hNo := k, lastHVal := {} }).1 ≤ b.size := by
  rw [parseAllPAIValues_eq_wrap, paBump_wrap]
  exact paisLoop_safe b o _ hfit (h.start o ho k hin)

theorem PaIdle_new (b : Buf) : PaIdle b ({} : PPAIs) := by
  have hw : (({} : PPAIs)).wrap = {} := by unfold PPAIs.wrap; simp [PFromBody.parsed]
  refine ⟨⟨PField.inside_zero _, (fun j hj => by cases hj), NaFine_new b, rfl⟩, ?_, ?_⟩
  · rw [hw]
    refine ⟨fun j _ hj => ?_, fun _ => rfl⟩
    have : j < 2 := hj
    have : j = 0 ∨ j = 1 := by omega
    rcases this with rfl | rfl <;> rfl
  · rw [hw]; rfl

theorem PaIn_new (b : Buf) (o : Nat) (ho : o ≤ b.size) : PaIn b o ({} : PPAIs) :=
  ⟨PField.inside_zero _, (fun j hj => by cases hj), NaOut_new b o ho⟩

theorem PaSafe.idleOut {b : Buf} {o : Nat} {c : PPAIs} (h : PaSafe b o c) : PaOut b c := by
  obtain ⟨lo, hl1, hl2, _⟩ := h.lo
  have := h.ho
  exact ⟨PField.inside_mono hl1 (by omega), h.stored, h.lastF, h.pnc⟩

end Sipsp
