/-
  Sipsp.Proofs.UriSeq — property C18 for SEQUENCES of operations on one parsed URI.

  The theorems of C18 / UriLink are about ONE AdjustOffs / view call on a freshly parsed URI (scheme at offset 0).
  This file gives an invariant `USWf u` of the structure alone (no buffer, any scheme offset):
    * the scheme is not empty; an absent component (`Offs = 0`) has length 0;
    * the present components come one after the other behind the scheme, in buffer order (`usSeq`: user, password,
      host, port, parameters, headers — for a URI without host, i.e. tel:, the password comes BEFORE the user,
      because the number is reported as user), and the last one ends below 65,536 (`usChain`);
    * the host is not empty, or there is no host and the user (the tel: number) is not empty.
  Proved, for ALL such URIs / spans / buffers (no size bounds):
   (1) closure. `us_parsed_wf`: ParseURI establishes `USWf` (all schemes, input ≤ 65,535 bytes). `USWf.truncate`,
       `USWf.adjust` (accepted AND refused spans; no panic), `USWf.relocate`. `USWf.ulwf` / `USWf.sum`: the invariant
       implies `ULWF u (ulLen u)` (field for field `C18.WF`) and `ulSum u ≤ ulLen u`, the hypotheses of
       `C18.adjust_moves` / `adjust_refused`; `us_ulwf_truncate`: plain `ULWF u L` survives Truncate as well.
       `us_adjust_eq`: AdjustOffs completely (every 16-bit span): accepted iff the end does not wrap and
       `Len ≥ ulLen u`; result = `ulRelocate u np.Offs`; else unchanged; never a panic.
       Operations `USOp`, interpreter `usRun` (stops at the first panic), obligations `usPre` / `usPreAll` (a span is two
       16-bit numbers; the buffer given to Flat holds the span Long() reports): `us_exec_ok`, `us_ops_never_panic`,
       `us_ops_every_step`, and for a parsed URI `uri_ops_never_panic` (every prefix of every sequence).
   (2) `us_relocate_relocate`, `us_relocate_self`, `us_adjust_adjust` (second call accepted iff the direct call is; same
       result), `us_adjust_back`, `us_parsed_relocate_twice`.
   (3) `us_truncate_adjust`, `us_truncate_len`, `us_parsed_truncate_adjust`: after Truncate the threshold is
       `ulLen u.truncate` (end of the last PRESENT component of scheme … port) — NOT the original length; it equals the
       length of Short() (= Long() after Truncate, `us_truncate_long`) unless the port is present but empty.
   (4) `us_long_eq` / `us_short_eq` / `us_flat_eq` (closed forms, no panic), `us_ends`, `us_short_prefix_long`,
       `us_long_le_len`, `us_long_eq_len`; `us_long_relocate`, `us_short_relocate`, `us_truncate_relocate`,
       `us_flat_relocate`, `us_comp_relocate` (bytes, `USSameText`), and through AdjustOffs: `us_adjust_views`.
   (5) tests with `sip:h;`, `sip:h:`, `sip:u:@h`, `sip:h?`, `sip:h:;x`, `tel:a:b@c` at the end (`decide +kernel`; the
       theorems themselves make no exception for present-but-empty components).
  FINAL THEOREMS (for re-export) carry `EXPORT C18` in their doc comment.

  OBSERVATIONS (true of the model, pinned by tests, no defect claimed):
   * AdjustOffs measures the URI up to the last PRESENT component, Long() / Flat() up to the last NON-EMPTY one. For
     `sip:h;`, `sip:h:`, `sip:h?` (6 bytes) Long() is `sip:h` (5 bytes) and a span of Long().Len = 5 bytes is REFUSED; 6
     are needed (the dangling delimiter counts). Same after Truncate when the port is present but empty (`sip:h:;x`:
     truncated threshold 6, Long() 5).
   * a relocated present-but-empty component stays present (its new offset is > the new scheme offset ≥ 0), so
     "present" is stable under every sequence of operations; this needs the scheme to be non-empty (`USWf.sch`).
  NOT proved here: nothing about URIs that are not the result of ParseURI + these operations (e.g. hand-built
  structures with overlapping components); nothing about AdjustOffs spans whose fields exceed 16 bits (`usSpan`).
-/
import Sipsp.Proofs.UriLink

set_option linter.unusedSimpArgs false
set_option linter.unusedVariables false

namespace Sipsp

/-! ## the invariant -/

/-- the component that comes first behind the scheme: the user — but the password when there is no host (tel:, where
    the number, reported as user, stands behind the password) -/
def usFst (u : PsipURI) : PField := if u.host.offs = 0 then u.pass else u.user
def usSnd (u : PsipURI) : PField := if u.host.offs = 0 then u.user else u.pass

/-- the components behind the scheme in buffer order -/
def usSeq (u : PsipURI) : List PField := [usFst u, usSnd u, u.host, u.port, u.params, u.headers]

/-- walking through the components with a cursor `c` (end of the last present one so far): an absent component is
    zero, a present one starts at or after the cursor; at the end the cursor is a 16-bit offset -/
def usChain : Nat → List PField → Prop
  | c, [] => c < 65536
  | c, f :: r => (f.offs = 0 → f.len = 0) ∧ (f.offs ≠ 0 → c ≤ f.offs) ∧ usChain (uafter c f) r

/-- **the invariant of a parsed URI under Truncate / AdjustOffs** -/
structure USWf (u : PsipURI) : Prop where
  sch : 0 < u.scheme.len
  chain : usChain (u.scheme.offs + u.scheme.len) (usSeq u)
  core : 0 < u.host.len ∨ (u.host.offs = 0 ∧ 0 < u.user.len)

/-- one step of the chain in a form `omega` can use: from cursor `c` over `f` to cursor `q` -/
def usStepP (c : Nat) (f : PField) (q : Nat) : Prop :=
  (f.offs = 0 ∧ f.len = 0 ∧ q = c) ∨ (f.offs ≠ 0 ∧ c ≤ f.offs ∧ q = f.offs + f.len)

theorem us_chain_cons (c : Nat) (f : PField) (r : List PField) :
    usChain c (f :: r) ↔ ∃ q, usStepP c f q ∧ usChain q r := by
  constructor
  · rintro ⟨h1, h2, h3⟩
    refine ⟨uafter c f, ?_, h3⟩
    unfold usStepP uafter
    by_cases hz : f.offs = 0
    · left; exact ⟨hz, h1 hz, by rw [if_pos hz]⟩
    · right; exact ⟨hz, h2 hz, by rw [if_neg hz]⟩
  · rintro ⟨q, hq, hr⟩
    have e : uafter c f = q := by
      unfold uafter
      rcases hq with ⟨h1, _, h3⟩ | ⟨h1, _, h3⟩
      · rw [if_pos h1, h3]
      · rw [if_neg h1, h3]
    refine ⟨?_, ?_, by rw [e]; exact hr⟩
    · intro hz
      rcases hq with ⟨_, h2, _⟩ | ⟨h1, _, _⟩
      · exact h2
      · exact absurd hz h1
    · intro hz
      rcases hq with ⟨h1, _, _⟩ | ⟨_, h2, _⟩
      · exact absurd h1 hz
      · exact h2

theorem us_chain_nil (c : Nat) : usChain c [] ↔ c < 65536 := Iff.rfl

/-- the chain over the six components, as six steps -/
theorem us_chain6 (c : Nat) (f1 f2 f3 f4 f5 f6 : PField) :
    usChain c [f1, f2, f3, f4, f5, f6] ↔
    ∃ q1 q2 q3 q4 q5 q6, usStepP c f1 q1 ∧ usStepP q1 f2 q2 ∧ usStepP q2 f3 q3 ∧ usStepP q3 f4 q4 ∧
      usStepP q4 f5 q5 ∧ usStepP q5 f6 q6 ∧ q6 < 65536 := by
  simp only [us_chain_cons, us_chain_nil]
  constructor
  · rintro ⟨q1, h1, q2, h2, q3, h3, q4, h4, q5, h5, q6, h6, hl⟩
    exact ⟨q1, q2, q3, q4, q5, q6, h1, h2, h3, h4, h5, h6, hl⟩
  · rintro ⟨q1, q2, q3, q4, q5, q6, h1, h2, h3, h4, h5, h6, hl⟩
    exact ⟨q1, h1, q2, h2, q3, h3, q4, h4, q5, h5, q6, h6, hl⟩

/-- the invariant, as arithmetic facts -/
theorem us_wf_iff (u : PsipURI) :
    USWf u ↔ 0 < u.scheme.len ∧ (0 < u.host.len ∨ (u.host.offs = 0 ∧ 0 < u.user.len)) ∧
      ∃ q1 q2 q3 q4 q5 q6, usStepP (u.scheme.offs + u.scheme.len) (usFst u) q1 ∧ usStepP q1 (usSnd u) q2 ∧
        usStepP q2 u.host q3 ∧ usStepP q3 u.port q4 ∧ usStepP q4 u.params q5 ∧ usStepP q5 u.headers q6 ∧
        q6 < 65536 := by
  constructor
  · rintro ⟨h1, h2, h3⟩
    exact ⟨h1, h3, (us_chain6 _ _ _ _ _ _ _).1 h2⟩
  · rintro ⟨h1, h3, h2⟩
    exact ⟨h1, (us_chain6 _ _ _ _ _ _ _).2 h2, h3⟩

/-! ## the length AdjustOffs computes -/

/-- one step of AdjustOffs' length loop, for a component that does not wrap around -/
theorem us_ulenStep (a s : Nat) (f : PField) (h : f.offs ≠ 0 → s ≤ f.offs ∧ f.offs + f.len < 65536) :
    (f.offs = 0 ∧ ulenStep a s f = a) ∨ (f.offs ≠ 0 ∧ ulenStep a s f = max a (f.offs + f.len - s)) := by
  unfold ulenStep
  by_cases hz : f.offs = 0
  · left
    refine ⟨hz, ?_⟩
    have hne : (f.offs != 0) = false := by simp [hz]
    rw [hne]
    simp only [Bool.false_and, Bool.false_eq_true, ↓reduceIte]
  · right
    refine ⟨hz, ?_⟩
    have := h hz
    have e : (f.offs + f.len + 65536 - s) % 65536 = f.offs + f.len - s := by omega
    rw [e]
    have hne : (f.offs != 0) = true := by simpa using hz
    rw [hne]
    simp only [Bool.true_and, decide_eq_true_eq]
    split <;> omega

/-- a chain step moves the length loop along with the cursor -/
theorem us_ulen_step (a s c q : Nat) (f : PField) (hac : s + a = c) (hq : usStepP c f q) (hlim : q < 65536) :
    s + ulenStep a s f = q := by
  unfold usStepP at hq
  have := us_ulenStep a s f (by intro hz; omega)
  omega

/-- the first two components in either order -/
theorem us_ulen_step2 (a s c q1 q2 : Nat) (f g : PField) (hac : s + a = c) (h1 : usStepP c f q1)
    (h2 : usStepP q1 g q2) (hlim : q2 < 65536) :
    s + ulenStep (ulenStep a s g) s f = q2 := by
  unfold usStepP at h1 h2
  have e1 := us_ulenStep a s g (by intro hz; omega)
  have e2 := us_ulenStep (ulenStep a s g) s f (by intro hz; omega)
  omega

theorem us_step_mono {c q : Nat} {f : PField} (h : usStepP c f q) : c + f.len ≤ q := by
  unfold usStepP at h; omega

/-- the length AdjustOffs computes is where the chain ends -/
theorem us_len_of_steps (u : PsipURI) (q1 q2 q3 q4 q5 q6 : Nat)
    (s1 : usStepP (u.scheme.offs + u.scheme.len) (usFst u) q1) (s2 : usStepP q1 (usSnd u) q2)
    (s3 : usStepP q2 u.host q3) (s4 : usStepP q3 u.port q4) (s5 : usStepP q4 u.params q5)
    (s6 : usStepP q5 u.headers q6) (hl : q6 < 65536) : u.scheme.offs + ulLen u = q6 := by
  have m1 := us_step_mono s1
  have m2 := us_step_mono s2
  have m3 := us_step_mono s3
  have m4 := us_step_mono s4
  have m5 := us_step_mono s5
  have m6 := us_step_mono s6
  unfold ulLen ulComps
  simp only [List.foldl_cons, List.foldl_nil]
  have e2 : u.scheme.offs + ulenStep (ulenStep u.scheme.len u.scheme.offs u.user) u.scheme.offs u.pass = q2 := by
    unfold usFst at s1
    unfold usSnd at s2
    by_cases hz : u.host.offs = 0
    · rw [if_pos hz] at s1 s2
      exact us_ulen_step2 _ _ _ q1 q2 _ _ rfl s1 s2 (by omega)
    · rw [if_neg hz] at s1 s2
      have e1 := us_ulen_step u.scheme.len u.scheme.offs _ q1 u.user rfl s1 (by omega)
      exact us_ulen_step _ _ _ q2 u.pass e1 s2 (by omega)
  have e3 := us_ulen_step _ _ _ q3 u.host e2 s3 (by omega)
  have e4 := us_ulen_step _ _ _ q4 u.port e3 s4 (by omega)
  have e5 := us_ulen_step _ _ _ q5 u.params e4 s5 (by omega)
  exact us_ulen_step _ _ _ q6 u.headers e5 s6 hl

/-- everything `omega` needs to know about a URI that satisfies the invariant (`s` = scheme offset, `k` = scheme
    length, `q1 … q6` = the cursor after each component in buffer order, `q6 = s + ulLen u`) -/
theorem USWf.facts {u : PsipURI} (h : USWf u) :
    0 < u.scheme.len ∧ (0 < u.host.len ∨ (u.host.offs = 0 ∧ 0 < u.user.len)) ∧
    ∃ a b q1 q2 q3 q4 q5 q6,
      ((u.host.offs = 0 ∧ a = u.pass ∧ b = u.user) ∨ (u.host.offs ≠ 0 ∧ a = u.user ∧ b = u.pass)) ∧
      usStepP (u.scheme.offs + u.scheme.len) a q1 ∧ usStepP q1 b q2 ∧
      usStepP q2 u.host q3 ∧ usStepP q3 u.port q4 ∧ usStepP q4 u.params q5 ∧ usStepP q5 u.headers q6 ∧
      q6 < 65536 ∧ u.scheme.offs + ulLen u = q6 := by
  obtain ⟨h1, h3, q1, q2, q3, q4, q5, q6, s1, s2, s3, s4, s5, s6, hl⟩ := (us_wf_iff u).1 h
  refine ⟨h1, h3, usFst u, usSnd u, q1, q2, q3, q4, q5, q6, ?_, s1, s2, s3, s4, s5, s6, hl,
    us_len_of_steps u q1 q2 q3 q4 q5 q6 s1 s2 s3 s4 s5 s6 hl⟩
  unfold usFst usSnd
  by_cases hz : u.host.offs = 0
  · left; rw [if_pos hz, if_pos hz]; exact ⟨hz, rfl, rfl⟩
  · right; rw [if_neg hz, if_neg hz]; exact ⟨hz, rfl, rfl⟩

/-! ## (1) the invariant gives the hypotheses of the C18 theorems -/

theorem us_step_comp {c q : Nat} {f : PField} (h : usStepP c f q) (lo hi : Nat) (hlo : lo ≤ c) (hhi : q ≤ hi) :
    (f.offs = 0 → f.len = 0) ∧ (f.offs ≠ 0 → lo ≤ f.offs ∧ f.offs + f.len ≤ hi) := by
  unfold usStepP at h; omega

/-- an absent component has length 0; a present one lies behind the scheme and ends inside the computed length -/
theorem USWf.comps {u : PsipURI} (h : USWf u) : ∀ f ∈ ulComps u,
    (f.offs = 0 → f.len = 0) ∧
    (f.offs ≠ 0 → u.scheme.offs + u.scheme.len ≤ f.offs ∧ f.offs + f.len ≤ u.scheme.offs + ulLen u) := by
  obtain ⟨hk, hc, a, b, q1, q2, q3, q4, q5, q6, hab, s1, s2, s3, s4, s5, s6, hl, hq⟩ := h.facts
  have m1 := us_step_mono s1
  have m2 := us_step_mono s2
  have m3 := us_step_mono s3
  have m4 := us_step_mono s4
  have m5 := us_step_mono s5
  have m6 := us_step_mono s6
  intro f hf
  simp only [ulComps, List.mem_cons, List.not_mem_nil, or_false] at hf
  rcases hab with ⟨_, rfl, rfl⟩ | ⟨_, rfl, rfl⟩
  · rcases hf with rfl | rfl | rfl | rfl | rfl | rfl
    · exact us_step_comp s2 _ _ (by omega) (by omega)
    · exact us_step_comp s1 _ _ (by omega) (by omega)
    · exact us_step_comp s3 _ _ (by omega) (by omega)
    · exact us_step_comp s4 _ _ (by omega) (by omega)
    · exact us_step_comp s5 _ _ (by omega) (by omega)
    · exact us_step_comp s6 _ _ (by omega) (by omega)
  · rcases hf with rfl | rfl | rfl | rfl | rfl | rfl
    · exact us_step_comp s1 _ _ (by omega) (by omega)
    · exact us_step_comp s2 _ _ (by omega) (by omega)
    · exact us_step_comp s3 _ _ (by omega) (by omega)
    · exact us_step_comp s4 _ _ (by omega) (by omega)
    · exact us_step_comp s5 _ _ (by omega) (by omega)
    · exact us_step_comp s6 _ _ (by omega) (by omega)

theorem USWf.lim {u : PsipURI} (h : USWf u) : u.scheme.offs + ulLen u < 65536 := by
  obtain ⟨_, _, _, _, _, _, _, _, _, _, _, _, _, _, _, _, _, hl, hq⟩ := h.facts
  omega

theorem USWf.sch_le {u : PsipURI} (h : USWf u) : u.scheme.len ≤ ulLen u := by
  obtain ⟨hk, hc, a, b, q1, q2, q3, q4, q5, q6, hab, s1, s2, s3, s4, s5, s6, hl, hq⟩ := h.facts
  have m1 := us_step_mono s1
  have m2 := us_step_mono s2
  have m3 := us_step_mono s3
  have m4 := us_step_mono s4
  have m5 := us_step_mono s5
  have m6 := us_step_mono s6
  omega

/-- EXPORT C18 — **(1) the invariant implies the well-formedness hypothesis of the AdjustOffs theorems** (`ULWF`, field for field
    `C18.WF`), with `L` = the length AdjustOffs computes -/
theorem USWf.ulwf {u : PsipURI} (h : USWf u) : ULWF u (ulLen u) := by
  refine ⟨h.lim, h.sch_le, ?_, Nat.le_refl _⟩
  intro f hf hz
  have := (h.comps f hf).2 hz
  omega

/-- … and the other hypothesis: the sum of the component lengths is at most that length -/
theorem USWf.sum {u : PsipURI} (h : USWf u) : ulSum u ≤ ulLen u := by
  obtain ⟨hk, hc, a, b, q1, q2, q3, q4, q5, q6, hab, s1, s2, s3, s4, s5, s6, hl, hq⟩ := h.facts
  have m1 := us_step_mono s1
  have m2 := us_step_mono s2
  have m3 := us_step_mono s3
  have m4 := us_step_mono s4
  have m5 := us_step_mono s5
  have m6 := us_step_mono s6
  unfold ulSum
  rcases hab with ⟨_, rfl, rfl⟩ | ⟨_, rfl, rfl⟩ <;> omega

/-! ### AdjustOffs, completely -/

/-- the span is made of two 16-bit numbers (Go: `OffsT` = `uint16`) -/
def usSpan (np : PField) : Prop := np.offs < 65536 ∧ np.len < 65536

/-- EXPORT C18 — **AdjustOffs on a URI that satisfies the invariant, for EVERY span**: it never panics; the span is accepted
    exactly when its end stays inside the 16-bit range and its length is at least `ulLen u` (the end of the last
    PRESENT component, relative to the scheme); then the result is the URI moved to `np.Offs`; otherwise nothing is
    changed -/
theorem us_adjust_eq {u : PsipURI} (h : USWf u) (np : PField) (hnp : usSpan np) :
    u.adjustOffs np =
      if np.offs + np.len < 65536 ∧ ulLen u ≤ np.len then (true, ulRelocate u np.offs, false) else (false, u, false) := by
  by_cases hw : np.offs + np.len < 65536
  · by_cases hl : ulLen u ≤ np.len
    · rw [if_pos ⟨hw, hl⟩]
      exact ul_adjust_moves u np (ulLen u) h.ulwf hl (Nat.le_trans h.sum hl) hw
    · rw [if_neg (fun hh => hl hh.2)]
      exact ul_adjust_refused u np (by omega)
  · rw [if_neg (fun hh => hw hh.1)]
    exact ul_adjust_wrap_refused u np hnp.1 hnp.2 (by omega)

/-! ### closure -/

theorem us_moved_absent {f : PField} (s o : Nat) (h : f.offs = 0) : ulMoved f s o = f := by
  unfold ulMoved
  have hne : (f.offs != 0) = false := by simp [h]
  rw [hne]
  rfl

theorem us_moved_present {f : PField} (s o : Nat) (h : f.offs ≠ 0) : ulMoved f s o = ⟨f.offs - s + o, f.len⟩ := by
  unfold ulMoved
  have hne : (f.offs != 0) = true := by simpa using h
  rw [hne]
  rfl

theorem us_moved_step {c q : Nat} {f : PField} (s o : Nat) (h : usStepP c f q) (hs : s < c) :
    usStepP (c - s + o) (ulMoved f s o) (q - s + o) ∧ ((ulMoved f s o).offs = 0 ↔ f.offs = 0) ∧
    (ulMoved f s o).len = f.len := by
  unfold usStepP at h ⊢
  by_cases hz : f.offs = 0
  · rw [us_moved_absent s o hz]
    exact ⟨by omega, Iff.rfl, rfl⟩
  · rw [us_moved_present s o hz]
    refine ⟨by simp only; omega, ?_, rfl⟩
    simp only
    constructor <;> intro _ <;> omega

/-- **closure under an accepted relocation**: the moved URI satisfies the invariant again, with the same length -/
theorem USWf.relocate {u : PsipURI} (h : USWf u) (o : Nat) (ho : o + ulLen u < 65536) :
    USWf (ulRelocate u o) ∧ ulLen (ulRelocate u o) = ulLen u := by
  obtain ⟨hk, hc, a, b, q1, q2, q3, q4, q5, q6, hab, s1, s2, s3, s4, s5, s6, hl, hq⟩ := h.facts
  have m1 := us_step_mono s1
  have m2 := us_step_mono s2
  have m3 := us_step_mono s3
  have m4 := us_step_mono s4
  have m5 := us_step_mono s5
  obtain ⟨t1, z1, l1⟩ := us_moved_step u.scheme.offs o s1 (by omega)
  obtain ⟨t2, z2, l2⟩ := us_moved_step u.scheme.offs o s2 (by omega)
  obtain ⟨t3, z3, l3⟩ := us_moved_step u.scheme.offs o s3 (by omega)
  obtain ⟨t4, z4, l4⟩ := us_moved_step u.scheme.offs o s4 (by omega)
  obtain ⟨t5, z5, l5⟩ := us_moved_step u.scheme.offs o s5 (by omega)
  obtain ⟨t6, z6, l6⟩ := us_moved_step u.scheme.offs o s6 (by omega)
  have e0 : u.scheme.offs + u.scheme.len - u.scheme.offs + o = o + u.scheme.len := by omega
  rw [e0] at t1
  have hF : usFst (ulRelocate u o) = ulMoved a u.scheme.offs o ∧ usSnd (ulRelocate u o) = ulMoved b u.scheme.offs o := by
    unfold usFst usSnd
    have hh : (ulRelocate u o).host = ulMoved u.host u.scheme.offs o := rfl
    rw [hh]
    rcases hab with ⟨hz, rfl, rfl⟩ | ⟨hz, rfl, rfl⟩
    · rw [if_pos (z3.2 hz), if_pos (z3.2 hz)]; exact ⟨rfl, rfl⟩
    · rw [if_neg (fun hh => hz (z3.1 hh)), if_neg (fun hh => hz (z3.1 hh))]; exact ⟨rfl, rfl⟩
  have hw : USWf (ulRelocate u o) := by
    refine (us_wf_iff _).2 ⟨hk, ?_, q1 - u.scheme.offs + o, q2 - u.scheme.offs + o, q3 - u.scheme.offs + o,
      q4 - u.scheme.offs + o, q5 - u.scheme.offs + o, q6 - u.scheme.offs + o, ?_, ?_, t3, t4, t5, t6, by omega⟩
    · show 0 < (ulMoved u.host u.scheme.offs o).len ∨
        ((ulMoved u.host u.scheme.offs o).offs = 0 ∧ 0 < (ulMoved u.user u.scheme.offs o).len)
      rw [l3, ul_moved_len]
      rcases hc with hc | ⟨hc1, hc2⟩
      · exact Or.inl hc
      · exact Or.inr ⟨z3.2 hc1, hc2⟩
    · rw [hF.1]; exact t1
    · rw [hF.2]; exact t2
  refine ⟨hw, ?_⟩
  have hq' := us_len_of_steps (ulRelocate u o) _ _ _ _ _ _ (hF.1 ▸ t1) (hF.2 ▸ t2) t3 t4 t5 t6 (by omega)
  have hs' : (ulRelocate u o).scheme.offs = o := rfl
  omega

/-- EXPORT C18 — **(1) closure under AdjustOffs, accepted or refused**: whatever the span, the call does not panic and the URI it
    leaves behind satisfies the invariant, with the same computed length -/
theorem USWf.adjust {u : PsipURI} (h : USWf u) (np : PField) (hnp : usSpan np) :
    (u.adjustOffs np).2.2 = false ∧ USWf (u.adjustOffs np).2.1 ∧ ulLen (u.adjustOffs np).2.1 = ulLen u := by
  rw [us_adjust_eq h np hnp]
  by_cases hc : np.offs + np.len < 65536 ∧ ulLen u ≤ np.len
  · rw [if_pos hc]
    exact ⟨rfl, h.relocate np.offs (by omega)⟩
  · rw [if_neg hc]
    exact ⟨rfl, h, rfl⟩

theorem us_step_absent (c : Nat) : usStepP c ({} : PField) c := Or.inl ⟨rfl, rfl, rfl⟩

/-- EXPORT C18 — **(1) closure under Truncate**; the computed length can only shrink -/
theorem USWf.truncate {u : PsipURI} (h : USWf u) : USWf u.truncate ∧ ulLen u.truncate ≤ ulLen u := by
  obtain ⟨h1, h3, q1, q2, q3, q4, q5, q6, s1, s2, s3, s4, s5, s6, hl⟩ := (us_wf_iff u).1 h
  have m5 := us_step_mono s5
  have m6 := us_step_mono s6
  have e := us_len_of_steps u q1 q2 q3 q4 q5 q6 s1 s2 s3 s4 s5 s6 hl
  have e' := us_len_of_steps u.truncate q1 q2 q3 q4 q4 q4 s1 s2 s3 s4 (us_step_absent q4) (us_step_absent q4)
    (by omega)
  have hs : u.truncate.scheme.offs = u.scheme.offs := rfl
  refine ⟨(us_wf_iff _).2 ⟨h1, h3, q1, q2, q3, q4, q4, q4, s1, s2, s3, s4, us_step_absent q4, us_step_absent q4,
    by omega⟩, ?_⟩
  omega

theorem us_ulenStep_ge (a s : Nat) (f : PField) : a ≤ ulenStep a s f := by
  unfold ulenStep
  split
  · rename_i hc
    simp only [Bool.and_eq_true, decide_eq_true_eq] at hc
    omega
  · exact Nat.le_refl _

/-- the plain hypothesis of the C18 theorems (`ULWF u L` = `C18.WF u L`, any `L`, no other assumption) also survives
    Truncate, with the same `L` -/
theorem us_ulwf_truncate {u : PsipURI} {L : Nat} (h : ULWF u L) : ULWF u.truncate L := by
  refine ⟨h.lim, h.sch, ?_, ?_⟩
  · intro f hf hz
    simp only [ulComps, PsipURI.truncate, List.mem_cons, List.not_mem_nil, or_false] at hf
    rcases hf with rfl | rfl | rfl | rfl | rfl | rfl
    · exact h.inside _ (by simp [ulComps]) hz
    · exact h.inside _ (by simp [ulComps]) hz
    · exact h.inside _ (by simp [ulComps]) hz
    · exact h.inside _ (by simp [ulComps]) hz
    · exact absurd rfl hz
    · exact absurd rfl hz
  · have h0 := h.ulen
    unfold ulLen ulComps at h0 ⊢
    simp only [List.foldl_cons, List.foldl_nil] at h0 ⊢
    have e : ∀ a s, ulenStep a s ({} : PField) = a := by
      intro a s
      unfold ulenStep
      have z : (({} : PField).offs != 0) = false := rfl
      rw [z]
      simp only [Bool.false_and, Bool.false_eq_true, ↓reduceIte]
    show ulenStep (ulenStep _ u.scheme.offs ({} : PField)) u.scheme.offs ({} : PField) ≤ L
    rw [e, e]
    have g1 := us_ulenStep_ge (ulenStep (ulenStep (ulenStep (ulenStep u.scheme.len u.scheme.offs u.user) u.scheme.offs u.pass)
      u.scheme.offs u.host) u.scheme.offs u.port) u.scheme.offs u.params
    have g2 := us_ulenStep_ge (ulenStep (ulenStep (ulenStep (ulenStep (ulenStep u.scheme.len u.scheme.offs u.user)
      u.scheme.offs u.pass) u.scheme.offs u.host) u.scheme.offs u.port) u.scheme.offs u.params) u.scheme.offs u.headers
    show ulenStep (ulenStep (ulenStep (ulenStep u.scheme.len u.scheme.offs u.user) u.scheme.offs u.pass)
      u.scheme.offs u.host) u.scheme.offs u.port ≤ L
    omega

/-! ## (4) the views in closed form -/

/-- end of the last NON-EMPTY component (for a URI without host the user takes the host's place) -/
def usLongEnd (u : PsipURI) : Nat :=
  if u.headers.len > 0 then u.headers.offs + u.headers.len
  else if u.params.len > 0 then u.params.offs + u.params.len
  else if u.port.len > 0 then u.port.offs + u.port.len
  else if u.host.len > 0 then u.host.offs + u.host.len
  else u.user.offs + u.user.len

/-- end of the port if it is not empty, else of the host (of the user, for a URI without host) -/
def usShortEnd (u : PsipURI) : Nat :=
  if u.port.len > 0 then u.port.offs + u.port.len
  else if u.host.len > 0 then u.host.offs + u.host.len
  else u.user.offs + u.user.len

theorem us_setFrom (u : PsipURI) (f : PField) (hs : u.scheme.offs ≤ f.offs + f.len) (hf : f.offs + f.len < 65536) :
    setFrom u f = (⟨u.scheme.offs, f.offs + f.len - u.scheme.offs⟩, false) := by
  unfold setFrom PField.endT PField.set PField.setPanics
  rw [trunc16_of_lt hf, trunc16_of_lt (show u.scheme.offs < 65536 by omega),
    trunc16_of_lt (show f.offs + f.len - u.scheme.offs < 65536 by omega)]
  have : ¬ (f.offs + f.len < u.scheme.offs) := by omega
  simp only [this, decide_false]

/-- a non-empty component is present, lies behind the scheme and ends inside the computed length -/
theorem USWf.nonempty {u : PsipURI} (h : USWf u) (f : PField) (hf : f ∈ ulComps u) (hl : 0 < f.len) :
    f.offs ≠ 0 ∧ u.scheme.offs + u.scheme.len ≤ f.offs ∧ f.offs + f.len ≤ u.scheme.offs + ulLen u := by
  have hc := h.comps f hf
  have hz : f.offs ≠ 0 := fun hz => by have := hc.1 hz; omega
  exact ⟨hz, hc.2 hz⟩

theorem USWf.setFrom {u : PsipURI} (h : USWf u) (f : PField) (hf : f ∈ ulComps u) (hl : 0 < f.len) :
    setFrom u f = (⟨u.scheme.offs, f.offs + f.len - u.scheme.offs⟩, false) := by
  have := h.nonempty f hf hl
  have := h.lim
  exact us_setFrom u f (by omega) (by omega)

/-- a URI without (non-empty) host: the host is absent, the user is not empty and stands behind the password -/
theorem USWf.nohost {u : PsipURI} (h : USWf u) (hh : ¬ u.host.len > 0) :
    u.host.offs = 0 ∧ 0 < u.user.len ∧ (0 < u.pass.len → u.pass.offs + u.pass.len ≤ u.user.offs) := by
  obtain ⟨hk, hc, a, b, q1, q2, q3, q4, q5, q6, hab, s1, s2, s3, s4, s5, s6, hl, hq⟩ := h.facts
  rcases hc with hc | ⟨hc1, hc2⟩
  · exact absurd hc hh
  · refine ⟨hc1, hc2, ?_⟩
    rcases hab with ⟨_, rfl, rfl⟩ | ⟨hz, _, _⟩
    · unfold usStepP at s1 s2; omega
    · exact absurd hc1 hz

/-- EXPORT C18 — **(4) Long() in closed form**: no panic; it starts at the scheme and ends where the last non-empty component ends -/
theorem us_long_eq {u : PsipURI} (h : USWf u) :
    u.long = (⟨u.scheme.offs, usLongEnd u - u.scheme.offs⟩, false) := by
  have hlim := h.lim
  unfold PsipURI.long usLongEnd
  by_cases c1 : u.headers.len > 0
  · rw [if_pos c1, if_pos c1, h.setFrom _ (by simp [ulComps]) c1]
  rw [if_neg c1, if_neg c1]
  by_cases c2 : u.params.len > 0
  · rw [if_pos c2, if_pos c2, h.setFrom _ (by simp [ulComps]) c2]
  rw [if_neg c2, if_neg c2]
  by_cases c3 : u.port.len > 0
  · rw [if_pos c3, if_pos c3, h.setFrom _ (by simp [ulComps]) c3]
  rw [if_neg c3, if_neg c3]
  by_cases c4 : u.host.len > 0
  · rw [if_pos c4, if_pos c4, h.setFrom _ (by simp [ulComps]) c4]
  rw [if_neg c4, if_neg c4]
  obtain ⟨_, hu, hp⟩ := h.nohost c4
  have bu := h.nonempty u.user (by simp [ulComps]) hu
  by_cases c5 : u.pass.len > 0
  · have bp := h.nonempty u.pass (by simp [ulComps]) c5
    have hlt := hp c5
    have e1 : u.user.endT = u.user.offs + u.user.len := trunc16_of_lt (by omega)
    have e2 : u.pass.endT = u.pass.offs + u.pass.len := trunc16_of_lt (by omega)
    have hc : (decide (u.user.len > 0) && decide (u.user.endT > u.pass.endT)) = true := by
      rw [e1, e2]
      simp only [Bool.and_eq_true, decide_eq_true_eq]
      exact ⟨hu, by omega⟩
    rw [if_pos c5, if_pos hc, h.setFrom _ (by simp [ulComps]) hu]
  · rw [if_neg c5, if_pos hu, h.setFrom _ (by simp [ulComps]) hu]

/-- EXPORT C18 — **(4) Short() in closed form**: no panic; it starts at the scheme and ends at the port (if not empty, else at the host) -/
theorem us_short_eq {u : PsipURI} (h : USWf u) :
    u.short = (⟨u.scheme.offs, usShortEnd u - u.scheme.offs⟩, false) := by
  unfold PsipURI.short usShortEnd
  by_cases c3 : u.port.len > 0
  · rw [if_pos c3, if_pos c3, h.setFrom _ (by simp [ulComps]) c3]
  rw [if_neg c3, if_neg c3]
  by_cases c4 : u.host.len > 0
  · rw [if_pos c4, if_pos c4, h.setFrom _ (by simp [ulComps]) c4]
  rw [if_neg c4, if_neg c4]
  obtain ⟨_, hu, _⟩ := h.nohost c4
  rw [if_pos hu, h.setFrom _ (by simp [ulComps]) hu]

/-- the order of the ends: scheme < Short ≤ Long ≤ the computed length -/
theorem us_ends {u : PsipURI} (h : USWf u) :
    u.scheme.offs + u.scheme.len < usShortEnd u ∧ usShortEnd u ≤ usLongEnd u ∧
    usLongEnd u ≤ u.scheme.offs + ulLen u := by
  obtain ⟨hk, hc, a, b, q1, q2, q3, q4, q5, q6, hab, s1, s2, s3, s4, s5, s6, hl, hq⟩ := h.facts
  have m1 := us_step_mono s1
  have m2 := us_step_mono s2
  have m3 := us_step_mono s3
  have m4 := us_step_mono s4
  have m5 := us_step_mono s5
  have m6 := us_step_mono s6
  have n4 : 0 < u.port.len → q4 = u.port.offs + u.port.len := by unfold usStepP at s4; omega
  have n5 : 0 < u.params.len → q5 = u.params.offs + u.params.len := by unfold usStepP at s5; omega
  have n6 : 0 < u.headers.len → q6 = u.headers.offs + u.headers.len := by unfold usStepP at s6; omega
  have n3 : 0 < u.host.len → q3 = u.host.offs + u.host.len ∧ q2 ≤ u.host.offs := by unfold usStepP at s3; omega
  have n2 : ¬ 0 < u.host.len → q2 = u.user.offs + u.user.len ∧ q1 ≤ u.user.offs ∧ 0 < u.user.len ∧ q3 = q2 := by
    intro hh
    rcases hc with hc | ⟨hc1, hc2⟩
    · exact absurd hc hh
    · rcases hab with ⟨_, rfl, rfl⟩ | ⟨hz, _, _⟩
      · unfold usStepP at s2 s3; omega
      · exact absurd hc1 hz
  unfold usShortEnd usLongEnd
  refine ⟨?_, ?_, ?_⟩
  · repeat' split
    all_goals omega
  · repeat' split
    all_goals omega
  · repeat' split
    all_goals omega

theorem us_sel_step {c q : Nat} {f : PField} (h : usStepP c f q) (hne : f.offs ≠ 0 → 0 < f.len) (X : Nat)
    (hX : X = c) : (if f.len > 0 then f.offs + f.len else X) = q := by
  unfold usStepP at h
  split <;> omega

/-- the present-but-empty corner: when every present trailing component (port, parameters, headers) is non-empty,
    Long() covers exactly the length AdjustOffs computes -/
theorem us_long_eq_len {u : PsipURI} (h : USWf u)
    (hne : ∀ f ∈ [u.port, u.params, u.headers], f.offs ≠ 0 → 0 < f.len) :
    usLongEnd u = u.scheme.offs + ulLen u := by
  obtain ⟨hk, hc, a, b, q1, q2, q3, q4, q5, q6, hab, s1, s2, s3, s4, s5, s6, hl, hq⟩ := h.facts
  have n1 := hne u.port (by simp)
  have n2 := hne u.params (by simp)
  have n3 := hne u.headers (by simp)
  have e3 : (if u.host.len > 0 then u.host.offs + u.host.len else u.user.offs + u.user.len) = q3 := by
    by_cases hh : u.host.len > 0
    · rw [if_pos hh]
      unfold usStepP at s3
      clear s1 s2 s4 s5 s6 n1 n2 n3 hab hc
      omega
    · rw [if_neg hh]
      rcases hc with hc | ⟨hc1, hc2⟩
      · exact absurd hc hh
      · rcases hab with ⟨_, rfl, rfl⟩ | ⟨hz, _, _⟩
        · unfold usStepP at s2 s3
          clear s1 s4 s5 s6 n1 n2 n3
          omega
        · exact absurd hc1 hz
  have e4 := us_sel_step s4 n1 _ e3
  have e5 := us_sel_step s5 n2 _ e4
  have e6 := us_sel_step s6 n3 _ e5
  unfold usLongEnd
  rw [e6, hq]

/-- Long() never reports more than the length AdjustOffs computes -/
theorem us_long_le_len {u : PsipURI} (h : USWf u) : u.long.1.len ≤ ulLen u := by
  rw [us_long_eq h]
  have := (us_ends h).2.2
  show usLongEnd u - u.scheme.offs ≤ ulLen u
  omega

/-- EXPORT C18 — (4) the short view is a prefix of the long view: same start, not longer; neither panics -/
theorem us_short_prefix_long {u : PsipURI} (h : USWf u) :
    u.long.2 = false ∧ u.short.2 = false ∧ u.long.1.offs = u.scheme.offs ∧ u.short.1.offs = u.scheme.offs ∧
    u.scheme.len < u.short.1.len ∧ u.short.1.len ≤ u.long.1.len ∧ u.long.1.len ≤ ulLen u := by
  rw [us_long_eq h, us_short_eq h]
  obtain ⟨e1, e2, e3⟩ := us_ends h
  refine ⟨rfl, rfl, rfl, rfl, ?_, ?_, ?_⟩
  · show u.scheme.len < usShortEnd u - u.scheme.offs; omega
  · show usShortEnd u - u.scheme.offs ≤ usLongEnd u - u.scheme.offs; omega
  · show usLongEnd u - u.scheme.offs ≤ ulLen u; omega

/-- EXPORT C18 — **(4) Long after Truncate = Short**, for every URI that satisfies the invariant (also tel: with a password) -/
theorem us_truncate_long {u : PsipURI} (h : USWf u) : u.truncate.long = u.short := by
  rw [us_long_eq h.truncate.1, us_short_eq h]
  have e : usLongEnd u.truncate = usShortEnd u := by
    unfold usLongEnd usShortEnd PsipURI.truncate
    have z : ({} : PField).len = 0 := rfl
    simp only [z, Nat.lt_irrefl, ↓reduceIte]
  rw [e]
  rfl

/-- Flat in closed form: the bytes from the scheme to the end of the last non-empty component; it panics exactly
    when the buffer is shorter than that -/
theorem us_flat_eq {u : PsipURI} (h : USWf u) (b : Buf) :
    u.flat b = if usLongEnd u ≤ b.size then some (b.extract u.scheme.offs (usLongEnd u)) else none := by
  obtain ⟨e1, e2, e3⟩ := us_ends h
  have hl := h.lim
  unfold PsipURI.flat
  rw [us_long_eq h]
  simp only [Bool.false_eq_true, ↓reduceIte]
  unfold PField.get? PField.endT
  simp only
  have e : u.scheme.offs + (usLongEnd u - u.scheme.offs) = usLongEnd u := by omega
  rw [e, trunc16_of_lt (by omega)]
  by_cases hb : usLongEnd u ≤ b.size
  · rw [if_pos hb, if_pos ⟨by omega, hb⟩]
  · rw [if_neg hb, if_neg (fun hh => hb hh.2)]

/-! ### (4) the views commute with relocation -/

theorem us_moved_end {f : PField} (s o : Nat) (hl : 0 < f.len) (hz : f.offs = 0 → f.len = 0) (hs : s ≤ f.offs) :
    (ulMoved f s o).offs + (ulMoved f s o).len = f.offs + f.len - s + o := by
  have hp : f.offs ≠ 0 := fun h0 => by have := hz h0; omega
  rw [us_moved_present s o hp]
  simp only
  omega

theorem us_longEnd_relocate {u : PsipURI} (h : USWf u) (o : Nat) :
    usLongEnd (ulRelocate u o) = usLongEnd u - u.scheme.offs + o ∧
    usShortEnd (ulRelocate u o) = usShortEnd u - u.scheme.offs + o := by
  have hu := h.comps u.user (by simp [ulComps])
  have hh := h.comps u.host (by simp [ulComps])
  have hpo := h.comps u.port (by simp [ulComps])
  have hpa := h.comps u.params (by simp [ulComps])
  have hhd := h.comps u.headers (by simp [ulComps])
  have mk : ∀ f : PField, ((f.offs = 0 → f.len = 0) ∧
      (f.offs ≠ 0 → u.scheme.offs + u.scheme.len ≤ f.offs ∧ f.offs + f.len ≤ u.scheme.offs + ulLen u)) →
      0 < f.len → (ulMoved f u.scheme.offs o).offs + f.len =
        f.offs + f.len - u.scheme.offs + o := by
    intro f hf hl
    have hp : f.offs ≠ 0 := fun h0 => by have := hf.1 h0; omega
    have := us_moved_end u.scheme.offs o hl hf.1 (by have := hf.2 hp; omega)
    rw [ul_moved_len] at this
    exact this
  have eU : ¬ u.host.len > 0 → (ulMoved u.user u.scheme.offs o).offs + u.user.len =
        u.user.offs + u.user.len - u.scheme.offs + o := fun c4 => mk _ hu (h.nohost c4).2.1
  unfold usLongEnd usShortEnd
  simp only [ulRelocate, ul_moved_len]
  constructor
  · by_cases c1 : u.headers.len > 0
    · rw [if_pos c1, if_pos c1]; exact mk _ hhd c1
    rw [if_neg c1, if_neg c1]
    by_cases c2 : u.params.len > 0
    · rw [if_pos c2, if_pos c2]; exact mk _ hpa c2
    rw [if_neg c2, if_neg c2]
    by_cases c3 : u.port.len > 0
    · rw [if_pos c3, if_pos c3]; exact mk _ hpo c3
    rw [if_neg c3, if_neg c3]
    by_cases c4 : u.host.len > 0
    · rw [if_pos c4, if_pos c4]; exact mk _ hh c4
    rw [if_neg c4, if_neg c4]; exact eU c4
  · by_cases c3 : u.port.len > 0
    · rw [if_pos c3, if_pos c3]; exact mk _ hpo c3
    rw [if_neg c3, if_neg c3]
    by_cases c4 : u.host.len > 0
    · rw [if_pos c4, if_pos c4]; exact mk _ hh c4
    rw [if_neg c4, if_neg c4]; exact eU c4

/-- **Long() of the relocated URI is the relocated Long()**: same length, new start, no panic -/
theorem us_long_relocate {u : PsipURI} (h : USWf u) (o : Nat) (ho : o + ulLen u < 65536) :
    (ulRelocate u o).long = ({ u.long.1 with offs := o }, false) := by
  obtain ⟨e1, e2, e3⟩ := us_ends h
  rw [us_long_eq (h.relocate o ho).1, us_long_eq h, (us_longEnd_relocate h o).1]
  have e : usLongEnd u - u.scheme.offs + o - o = usLongEnd u - u.scheme.offs := by omega
  show (({ offs := o, len := usLongEnd u - u.scheme.offs + o - o } : PField), false) = _
  rw [e]

/-- **Short() of the relocated URI is the relocated Short()** -/
theorem us_short_relocate {u : PsipURI} (h : USWf u) (o : Nat) (ho : o + ulLen u < 65536) :
    (ulRelocate u o).short = ({ u.short.1 with offs := o }, false) := by
  obtain ⟨e1, e2, e3⟩ := us_ends h
  rw [us_short_eq (h.relocate o ho).1, us_short_eq h, (us_longEnd_relocate h o).2]
  have e : usShortEnd u - u.scheme.offs + o - o = usShortEnd u - u.scheme.offs := by omega
  show (({ offs := o, len := usShortEnd u - u.scheme.offs + o - o } : PField), false) = _
  rw [e]

/-- Truncate commutes with relocation -/
theorem us_truncate_relocate (u : PsipURI) (o : Nat) : (ulRelocate u o).truncate = ulRelocate u.truncate o := by
  unfold PsipURI.truncate ulRelocate
  have z : ulMoved ({} : PField) u.scheme.offs o = {} := us_moved_absent _ _ rfl
  simp only [z]

/-! ### bytes: the buffer `b2` holds at `o` the `n` bytes that `b` holds at `s` -/

/-- `b2[o, o+n)` and `b[s, s+n)` exist and are the same bytes -/
def USSameText (b2 : Buf) (o : Nat) (b : Buf) (s n : Nat) : Prop :=
  o + n ≤ b2.size ∧ s + n ≤ b.size ∧ b2.extract o (o + n) = b.extract s (s + n)

theorem us_extract_sub {b2 b : Buf} {o s n : Nat} (h : USSameText b2 o b s n) (d l : Nat) (hdl : d + l ≤ n) :
    b2.extract (o + d) (o + d + l) = b.extract (s + d) (s + d + l) := by
  have e1 : b2.extract (o + d) (o + d + l) = (b2.extract o (o + n)).extract d (d + l) := by
    rw [Array.extract_extract]
    congr 1
    omega
  have e2 : b.extract (s + d) (s + d + l) = (b.extract s (s + n)).extract d (d + l) := by
    rw [Array.extract_extract]
    congr 1
    omega
  rw [e1, e2, h.2.2]

/-- a field inside `[s, s+n)` of `b`, moved to `o`, reads in `b2` the bytes the original reads in `b` (neither
    `Get` panics) -/
theorem us_get_shift {b2 b : Buf} {o s n : Nat} (h : USSameText b2 o b s n) (ho : o + n < 65536) (hs : s + n < 65536)
    (f : PField) (h1 : s ≤ f.offs) (h2 : f.offs + f.len ≤ s + n) :
    PField.get? b2 ⟨f.offs - s + o, f.len⟩ = some (b.extract f.offs (f.offs + f.len)) ∧
    PField.get? b f = some (b.extract f.offs (f.offs + f.len)) := by
  obtain ⟨g1, g2, g3⟩ := h
  unfold PField.get? PField.endT
  simp only
  rw [trunc16_of_lt (show f.offs - s + o + f.len < 65536 by omega), trunc16_of_lt (show f.offs + f.len < 65536 by omega),
    if_pos ⟨by omega, by omega⟩, if_pos ⟨by omega, by omega⟩]
  refine ⟨?_, rfl⟩
  have := us_extract_sub ⟨g1, g2, g3⟩ (f.offs - s) f.len (by omega)
  have e1 : o + (f.offs - s) = f.offs - s + o := by omega
  have e2 : s + (f.offs - s) = f.offs := by omega
  rw [e1, e2] at this
  rw [this]

/-- **every component of the relocated URI denotes the same bytes**: when `b2` holds at `o` the text that `b` holds
    at the scheme offset of `u` (`ulLen u` bytes), `Get` on each of the seven fields of the relocated URI returns in
    `b2` what `Get` on the original field returns in `b`, and neither panics -/
theorem us_comp_relocate {u : PsipURI} (h : USWf u) (o : Nat) (ho : o + ulLen u < 65536) (b2 b : Buf)
    (ht : USSameText b2 o b u.scheme.offs (ulLen u)) :
    (PField.get? b2 (ulRelocate u o).scheme = PField.get? b u.scheme ∧ (PField.get? b u.scheme).isSome) ∧
    ∀ f ∈ ulComps u, PField.get? b2 (ulMoved f u.scheme.offs o) = PField.get? b f ∧ (PField.get? b f).isSome := by
  have hl := h.lim
  constructor
  · have := us_get_shift ht ho hl u.scheme (Nat.le_refl _) (by have := h.sch_le; omega)
    have e : (ulRelocate u o).scheme = ⟨u.scheme.offs - u.scheme.offs + o, u.scheme.len⟩ := by
      show ({ u.scheme with offs := o } : PField) = _
      rw [Nat.sub_self, Nat.zero_add]
    rw [e, this.1, this.2]
    exact ⟨rfl, rfl⟩
  · intro f hf
    have hc := h.comps f hf
    by_cases hz : f.offs = 0
    · rw [us_moved_absent _ _ hz]
      have hlen := hc.1 hz
      have e : f = ⟨0, 0⟩ := by cases f; simp only at hz hlen; rw [hz, hlen]
      rw [e]
      unfold PField.get? PField.endT
      simp only [Nat.add_zero, trunc16_of_lt (show 0 < 65536 by omega)]
      rw [if_pos ⟨Nat.le_refl _, Nat.zero_le _⟩, if_pos ⟨Nat.le_refl _, Nat.zero_le _⟩,
        Array.extract_empty_of_stop_le_start (Nat.le_refl _), Array.extract_empty_of_stop_le_start (Nat.le_refl _)]
      exact ⟨rfl, rfl⟩
    · rw [us_moved_present _ _ hz]
      have hb := hc.2 hz
      have := us_get_shift ht ho hl f (by omega) hb.2
      rw [this.1, this.2]
      exact ⟨rfl, rfl⟩

/-- **Flat of the relocated URI in the new buffer = Flat of the original in the old buffer** (no panic) -/
theorem us_flat_relocate {u : PsipURI} (h : USWf u) (o : Nat) (ho : o + ulLen u < 65536) (b2 b : Buf)
    (ht : USSameText b2 o b u.scheme.offs (ulLen u)) :
    (ulRelocate u o).flat b2 = u.flat b ∧ u.flat b = some (b.extract u.scheme.offs (usLongEnd u)) := by
  obtain ⟨e1, e2, e3⟩ := us_ends h
  obtain ⟨g1, g2, g3⟩ := ht
  have hr := h.relocate o ho
  rw [us_flat_eq hr.1, us_flat_eq h, (us_longEnd_relocate h o).1]
  have hs : (ulRelocate u o).scheme.offs = o := rfl
  rw [hs, if_pos (by omega), if_pos (by omega)]
  refine ⟨?_, rfl⟩
  have := us_extract_sub ⟨g1, g2, g3⟩ 0 (usLongEnd u - u.scheme.offs) (by omega)
  simp only [Nat.add_zero] at this
  have e : u.scheme.offs + (usLongEnd u - u.scheme.offs) = usLongEnd u := by omega
  have e' : usLongEnd u - u.scheme.offs + o = o + (usLongEnd u - u.scheme.offs) := by omega
  rw [e] at this
  rw [e', this]

/-! ## (2) relocation composes -/

theorem us_moved_moved {f : PField} (s a c : Nat) (hz : f.offs ≠ 0 → s < f.offs) :
    ulMoved (ulMoved f s a) a c = ulMoved f s c := by
  by_cases h0 : f.offs = 0
  · rw [us_moved_absent s a h0, us_moved_absent a c h0, us_moved_absent s c h0]
  · have := hz h0
    rw [us_moved_present s a h0, us_moved_present s c h0, us_moved_present a c (by simp only; omega)]
    simp only
    congr 1
    omega

theorem us_moved_self {f : PField} (s : Nat) (hz : f.offs ≠ 0 → s ≤ f.offs) : ulMoved f s s = f := by
  by_cases h0 : f.offs = 0
  · rw [us_moved_absent s s h0]
  · have := hz h0
    rw [us_moved_present s s h0]
    cases f
    simp only at this ⊢
    congr 1
    omega

/-- every present component starts strictly behind the scheme offset -/
theorem USWf.behind {u : PsipURI} (h : USWf u) (f : PField) (hf : f ∈ ulComps u) (hz : f.offs ≠ 0) :
    u.scheme.offs < f.offs := by
  have := (h.comps f hf).2 hz
  have := h.sch
  omega

/-- **moving twice = moving once to the second position** (every component) -/
theorem us_relocate_relocate {u : PsipURI} (h : USWf u) (a c : Nat) :
    ulRelocate (ulRelocate u a) c = ulRelocate u c := by
  have e1 := us_moved_moved u.scheme.offs a c (h.behind u.user (by simp [ulComps]))
  have e2 := us_moved_moved u.scheme.offs a c (h.behind u.pass (by simp [ulComps]))
  have e3 := us_moved_moved u.scheme.offs a c (h.behind u.host (by simp [ulComps]))
  have e4 := us_moved_moved u.scheme.offs a c (h.behind u.port (by simp [ulComps]))
  have e5 := us_moved_moved u.scheme.offs a c (h.behind u.params (by simp [ulComps]))
  have e6 := us_moved_moved u.scheme.offs a c (h.behind u.headers (by simp [ulComps]))
  simp only [ulRelocate, e1, e2, e3, e4, e5, e6]

/-- **moving back to where it was restores the structure exactly** -/
theorem us_relocate_self {u : PsipURI} (h : USWf u) : ulRelocate u u.scheme.offs = u := by
  have e1 := us_moved_self u.scheme.offs (fun hz => Nat.le_of_lt (h.behind u.user (by simp [ulComps]) hz))
  have e2 := us_moved_self u.scheme.offs (fun hz => Nat.le_of_lt (h.behind u.pass (by simp [ulComps]) hz))
  have e3 := us_moved_self u.scheme.offs (fun hz => Nat.le_of_lt (h.behind u.host (by simp [ulComps]) hz))
  have e4 := us_moved_self u.scheme.offs (fun hz => Nat.le_of_lt (h.behind u.port (by simp [ulComps]) hz))
  have e5 := us_moved_self u.scheme.offs (fun hz => Nat.le_of_lt (h.behind u.params (by simp [ulComps]) hz))
  have e6 := us_moved_self u.scheme.offs (fun hz => Nat.le_of_lt (h.behind u.headers (by simp [ulComps]) hz))
  simp only [ulRelocate, e1, e2, e3, e4, e5, e6]

/-- an accepted AdjustOffs, read backwards -/
theorem us_adjust_accepted {u : PsipURI} (h : USWf u) (np : PField) (hnp : usSpan np)
    (hacc : (u.adjustOffs np).1 = true) :
    np.offs + np.len < 65536 ∧ ulLen u ≤ np.len ∧ u.adjustOffs np = (true, ulRelocate u np.offs, false) := by
  have e := us_adjust_eq h np hnp
  by_cases hc : np.offs + np.len < 65536 ∧ ulLen u ≤ np.len
  · rw [if_pos hc] at e
    exact ⟨hc.1, hc.2, e⟩
  · rw [if_neg hc] at e
    rw [e] at hacc
    cases hacc

/-- EXPORT C18 — **(2) AdjustOffs to `np1` (accepted), then to `np2`**: the second call is accepted exactly when `np2` would have been
    accepted directly; then the result (every component, the flags) is that of the direct call; otherwise the second
    call changes nothing -/
theorem us_adjust_adjust {u : PsipURI} (h : USWf u) (np1 np2 : PField) (h1 : usSpan np1) (h2 : usSpan np2)
    (hacc : (u.adjustOffs np1).1 = true) :
    ((u.adjustOffs np1).2.1.adjustOffs np2).1 = (u.adjustOffs np2).1 ∧
    ((u.adjustOffs np2).1 = true → (u.adjustOffs np1).2.1.adjustOffs np2 = u.adjustOffs np2) ∧
    ((u.adjustOffs np2).1 = false →
      (u.adjustOffs np1).2.1.adjustOffs np2 = (false, (u.adjustOffs np1).2.1, false)) := by
  obtain ⟨a1, a2, a3⟩ := us_adjust_accepted h np1 h1 hacc
  obtain ⟨hw, hlen⟩ := h.relocate np1.offs (by omega)
  rw [a3]
  simp only
  rw [us_adjust_eq hw np2 h2, us_adjust_eq h np2 h2, hlen]
  by_cases hc : np2.offs + np2.len < 65536 ∧ ulLen u ≤ np2.len
  · rw [if_pos hc, if_pos hc, us_relocate_relocate h]
    exact ⟨rfl, fun _ => rfl, (fun hh => by cases hh)⟩
  · rw [if_neg hc, if_neg hc]
    exact ⟨rfl, (fun hh => by cases hh), fun _ => rfl⟩

/-- EXPORT C18 — **(2) relocating back onto the original position restores the original URI exactly** -/
theorem us_adjust_back {u : PsipURI} (h : USWf u) (np1 np2 : PField) (h1 : usSpan np1) (h2 : usSpan np2)
    (hacc : (u.adjustOffs np1).1 = true) (hback : np2.offs = u.scheme.offs) (hlen : ulLen u ≤ np2.len)
    (hlim : np2.offs + np2.len < 65536) :
    (u.adjustOffs np1).2.1.adjustOffs np2 = (true, u, false) := by
  obtain ⟨_, e, _⟩ := us_adjust_adjust h np1 np2 h1 h2 hacc
  have e2 := us_adjust_eq h np2 h2
  rw [if_pos ⟨hlim, hlen⟩, hback, us_relocate_self h] at e2
  rw [e (by rw [e2]), e2]

/-! ## (3) Truncate, then AdjustOffs -/

/-- EXPORT C18 — **(3) after Truncate the span only has to hold what is left**: AdjustOffs on the truncated URI never panics and
    accepts a span (inside the 16-bit range) exactly when its length is at least `ulLen u.truncate` — the end of the
    last PRESENT component among scheme … port, NOT the original length — and then the result is the truncated URI
    moved; its Long() and Short() are the Short() of the original, moved -/
theorem us_truncate_adjust {u : PsipURI} (h : USWf u) (np : PField) (hnp : usSpan np) :
    u.truncate.adjustOffs np =
      (if np.offs + np.len < 65536 ∧ ulLen u.truncate ≤ np.len then (true, ulRelocate u.truncate np.offs, false)
       else (false, u.truncate, false)) ∧
    ulLen u.truncate ≤ ulLen u ∧
    (np.offs + ulLen u.truncate < 65536 →
      (ulRelocate u.truncate np.offs).long = ({ u.short.1 with offs := np.offs }, false) ∧
      (ulRelocate u.truncate np.offs).short = ({ u.short.1 with offs := np.offs }, false)) := by
  obtain ⟨ht, hle⟩ := h.truncate
  refine ⟨us_adjust_eq ht np hnp, hle, fun ho => ?_⟩
  have hs : u.truncate.short = u.short := rfl
  rw [us_long_relocate ht _ ho, us_short_relocate ht _ ho, us_truncate_long h, hs]
  exact ⟨rfl, rfl⟩

/-- EXPORT C18 — (3) the threshold after Truncate and the views: Short() (= Long() after Truncate) is never longer than the
    threshold, and they are EQUAL unless the port is present but empty (`sip:h:;x`: threshold 6, Short() = 5) -/
theorem us_truncate_len {u : PsipURI} (h : USWf u) :
    u.truncate.long.1.len = u.short.1.len ∧ u.short.1.len ≤ ulLen u.truncate ∧
    ((u.port.offs ≠ 0 → 0 < u.port.len) → ulLen u.truncate = u.short.1.len) := by
  obtain ⟨ht, hle⟩ := h.truncate
  have e := us_truncate_long h
  refine ⟨by rw [e], ?_, fun hp => ?_⟩
  · rw [← e]; exact us_long_le_len ht
  · have hne : ∀ f ∈ [u.truncate.port, u.truncate.params, u.truncate.headers], f.offs ≠ 0 → 0 < f.len := by
      intro f hf
      simp only [List.mem_cons, List.not_mem_nil, or_false] at hf
      rcases hf with rfl | rfl | rfl
      · exact hp
      · intro hz; exact absurd rfl hz
      · intro hz; exact absurd rfl hz
    have e2 := us_long_eq_len ht hne
    have e3 := (us_ends ht).1
    have e4 : u.truncate.long.1.len = usLongEnd u.truncate - u.truncate.scheme.offs := by rw [us_long_eq ht]
    rw [← e, e4]
    omega

/-! ### (4) the same, through AdjustOffs -/

/-- EXPORT C18 — **(4) the views commute with an accepted AdjustOffs**: Long / Short of the relocated URI are the Long /
    Short of the original with the new start (same length, no panic); Truncate after AdjustOffs = AdjustOffs (same
    span, also accepted) after Truncate; and when the buffer `b2` holds at `np.Offs` the bytes that `b` holds at the
    old position, Flat and `Get` on every one of the seven fields return in `b2` what they return for the original
    in `b`, without panic -/
theorem us_adjust_views {u : PsipURI} (h : USWf u) (np : PField) (hnp : usSpan np)
    (hacc : (u.adjustOffs np).1 = true) :
    (u.adjustOffs np).2.1.long = ({ u.long.1 with offs := np.offs }, false) ∧
    (u.adjustOffs np).2.1.short = ({ u.short.1 with offs := np.offs }, false) ∧
    (u.truncate.adjustOffs np).1 = true ∧ (u.adjustOffs np).2.1.truncate = (u.truncate.adjustOffs np).2.1 ∧
    ∀ b2 b, USSameText b2 np.offs b u.scheme.offs (ulLen u) →
      (u.adjustOffs np).2.1.flat b2 = u.flat b ∧ (u.flat b).isSome ∧
      PField.get? b2 (u.adjustOffs np).2.1.scheme = PField.get? b u.scheme ∧
      PField.get? b2 (u.adjustOffs np).2.1.user = PField.get? b u.user ∧
      PField.get? b2 (u.adjustOffs np).2.1.pass = PField.get? b u.pass ∧
      PField.get? b2 (u.adjustOffs np).2.1.host = PField.get? b u.host ∧
      PField.get? b2 (u.adjustOffs np).2.1.port = PField.get? b u.port ∧
      PField.get? b2 (u.adjustOffs np).2.1.params = PField.get? b u.params ∧
      PField.get? b2 (u.adjustOffs np).2.1.headers = PField.get? b u.headers ∧
      (PField.get? b u.scheme).isSome ∧ ∀ f ∈ ulComps u, (PField.get? b f).isSome := by
  obtain ⟨a1, a2, a3⟩ := us_adjust_accepted h np hnp hacc
  have ho : np.offs + ulLen u < 65536 := by omega
  obtain ⟨ht, hle⟩ := h.truncate
  have et := us_adjust_eq ht np hnp
  rw [if_pos ⟨a1, Nat.le_trans hle a2⟩] at et
  rw [a3, et]
  simp only
  refine ⟨us_long_relocate h _ ho, us_short_relocate h _ ho, trivial, us_truncate_relocate u np.offs, ?_⟩
  intro b2 b hb
  obtain ⟨f1, f2⟩ := us_flat_relocate h _ ho b2 b hb
  obtain ⟨⟨g0, g0'⟩, g⟩ := us_comp_relocate h _ ho b2 b hb
  refine ⟨f1, by rw [f2]; rfl, g0, (g u.user (by simp [ulComps])).1, (g u.pass (by simp [ulComps])).1,
    (g u.host (by simp [ulComps])).1, (g u.port (by simp [ulComps])).1, (g u.params (by simp [ulComps])).1,
    (g u.headers (by simp [ulComps])).1, g0', fun f hf => (g f hf).2⟩

/-! ## the operations and their interpreter -/

/-- the calls a user of a parsed URI can make -/
inductive USOp where
  /-- `u.Truncate()` -/
  | truncate
  /-- `u.AdjustOffs(np)` -/
  | adjust (np : PField)
  /-- `u.Long()` -/
  | long
  /-- `u.Short()` -/
  | short
  /-- `u.Flat(buf)` -/
  | flat (b : Buf)

/-- what the caller owes for a call on the URI `u`: the span given to AdjustOffs is made of 16-bit numbers (it is a
    `PField`), and the buffer given to Flat is long enough for the span that Long() reports -/
def usPre (u : PsipURI) : USOp → Prop
  | .adjust np => usSpan np
  | .flat b => u.long.1.offs + u.long.1.len ≤ b.size
  | _ => True

/-- one call: (the structure afterwards, did the call panic) -/
def usExec (u : PsipURI) : USOp → PsipURI × Bool
  | .truncate => (u.truncate, false)
  | .adjust np => ((u.adjustOffs np).2.1, (u.adjustOffs np).2.2)
  | .long => (u, u.long.2)
  | .short => (u, u.short.2)
  | .flat b => (u, (u.flat b).isNone)

/-- a sequence of calls, stopping at the first panic: (the structure at the end, did some call panic) -/
def usRun : PsipURI → List USOp → PsipURI × Bool
  | u, [] => (u, false)
  | u, op :: r => if (usExec u op).2 then ((usExec u op).1, true) else usRun (usExec u op).1 r

/-- the caller's obligations along the sequence, each one for the structure as it is at that moment -/
def usPreAll : PsipURI → List USOp → Prop
  | _, [] => True
  | u, op :: r => usPre u op ∧ usPreAll (usExec u op).1 r

/-- one call on a URI that satisfies the invariant: no panic, and the invariant holds afterwards; the URI type, the
    port number and the scheme length are not touched and the computed length does not grow -/
theorem us_exec_ok {u : PsipURI} (h : USWf u) (op : USOp) (hp : usPre u op) :
    (usExec u op).2 = false ∧ USWf (usExec u op).1 ∧ ulLen (usExec u op).1 ≤ ulLen u ∧
    (usExec u op).1.uriType = u.uriType ∧ (usExec u op).1.portNo = u.portNo ∧
    (usExec u op).1.scheme.len = u.scheme.len := by
  cases op with
  | truncate => exact ⟨rfl, h.truncate.1, h.truncate.2, rfl, rfl, rfl⟩
  | adjust np =>
    obtain ⟨a1, a2, a3⟩ := h.adjust np hp
    refine ⟨a1, a2, Nat.le_of_eq a3, ?_⟩
    show (u.adjustOffs np).2.1.uriType = u.uriType ∧ (u.adjustOffs np).2.1.portNo = u.portNo ∧
      (u.adjustOffs np).2.1.scheme.len = u.scheme.len
    rw [us_adjust_eq h np hp]
    split <;> exact ⟨rfl, rfl, rfl⟩
  | long =>
    refine ⟨?_, h, Nat.le_refl _, rfl, rfl, rfl⟩
    show u.long.2 = false
    rw [us_long_eq h]
  | short =>
    refine ⟨?_, h, Nat.le_refl _, rfl, rfl, rfl⟩
    show u.short.2 = false
    rw [us_short_eq h]
  | flat b =>
    refine ⟨?_, h, Nat.le_refl _, rfl, rfl, rfl⟩
    show (u.flat b).isNone = false
    have hp' : u.long.1.offs + u.long.1.len ≤ b.size := hp
    rw [us_long_eq h] at hp'
    have e1 := (us_ends h).1
    have e2 := (us_ends h).2.1
    have hb : usLongEnd u ≤ b.size := by
      have : u.scheme.offs + (usLongEnd u - u.scheme.offs) ≤ b.size := hp'
      omega
    rw [us_flat_eq h b, if_pos hb]
    rfl

/-- EXPORT C18 — **(1) ANY finite sequence of Truncate / AdjustOffs (any 16-bit spans, accepted or refused) / Long / Short / Flat
    calls on a URI that satisfies the invariant never panics**, and the URI at the end satisfies the invariant -/
theorem us_ops_never_panic (ops : List USOp) : ∀ {u : PsipURI}, USWf u → usPreAll u ops →
    (usRun u ops).2 = false ∧ USWf (usRun u ops).1 ∧ ulLen (usRun u ops).1 ≤ ulLen u ∧
    (usRun u ops).1.uriType = u.uriType ∧ (usRun u ops).1.portNo = u.portNo ∧
    (usRun u ops).1.scheme.len = u.scheme.len := by
  induction ops with
  | nil => intro u h _; exact ⟨rfl, h, Nat.le_refl _, rfl, rfl, rfl⟩
  | cons op r ih =>
    intro u h hpre
    obtain ⟨e1, e2, e3, e4, e5, e6⟩ := us_exec_ok h op hpre.1
    obtain ⟨i1, i2, i3, i4, i5, i6⟩ := ih e2 hpre.2
    have hr : usRun u (op :: r) = usRun (usExec u op).1 r := by
      show (if (usExec u op).2 then ((usExec u op).1, true) else usRun (usExec u op).1 r) = _
      rw [e1]
      rfl
    rw [hr]
    exact ⟨i1, i2, Nat.le_trans i3 e3, i4.trans e4, i5.trans e5, i6.trans e6⟩

theorem us_preAll_take (ops : List USOp) : ∀ (u : PsipURI) (n : Nat), usPreAll u ops → usPreAll u (ops.take n) := by
  induction ops with
  | nil => intro u n h; rw [List.take_nil]; exact h
  | cons op r ih =>
    intro u n h
    cases n with
    | zero => exact trivial
    | succ n => exact ⟨h.1, ih _ n h.2⟩

/-- EXPORT C18 — **(1) … and at EVERY step** (after the first `n` calls, for every `n`): no call has panicked, the invariant holds, so
    the hypotheses of the C18 theorems about AdjustOffs (`ULWF u (ulLen u)`, field for field `C18.WF`, and
    `ulSum u ≤ ulLen u`) hold for the structure as it is then, and Long / Short do not panic on it -/
theorem us_ops_every_step {u : PsipURI} (h : USWf u) (ops : List USOp) (hpre : usPreAll u ops) (n : Nat) :
    (usRun u (ops.take n)).2 = false ∧ USWf (usRun u (ops.take n)).1 ∧
    ULWF (usRun u (ops.take n)).1 (ulLen (usRun u (ops.take n)).1) ∧
    ulSum (usRun u (ops.take n)).1 ≤ ulLen (usRun u (ops.take n)).1 ∧
    ulLen (usRun u (ops.take n)).1 ≤ ulLen u ∧
    (usRun u (ops.take n)).1.long.2 = false ∧ (usRun u (ops.take n)).1.short.2 = false := by
  obtain ⟨a1, a2, a3, _⟩ := us_ops_never_panic (ops.take n) h (us_preAll_take ops u n hpre)
  obtain ⟨v1, v2, _⟩ := us_short_prefix_long a2
  exact ⟨a1, a2, a2.ulwf, a2.sum, a3, v1, v2⟩

/-! ## (1) ParseURI establishes the invariant -/

theorem us_uafter_cases (c : Nat) (f : PField) :
    (f.offs = 0 ∧ uafter c f = c) ∨ (f.offs ≠ 0 ∧ uafter c f = f.offs + f.len) := by
  unfold uafter
  by_cases hz : f.offs = 0
  · left; exact ⟨hz, by rw [if_pos hz]⟩
  · right; exact ⟨hz, by rw [if_neg hz]⟩

/-- the sip: / sips: shape -/
theorem URILayout.us_wf {b : Buf} {k : Nat} {u : PsipURI} (h : URILayout b k u) (hk : 0 < k)
    (hfit : b.size ≤ 65535) : USWf u := by
  have hho := (h.ul_bounds hk).2.1
  obtain ⟨hsch, hhl, hu, q1, q2, _, _, hend, a1, a2, a3⟩ := h.ul_facts
  refine (us_wf_iff u).2 ⟨by rw [hsch]; exact hk, Or.inl hhl, ?_⟩
  have hF : usFst u = u.user := by unfold usFst; rw [if_neg hho]
  have hS : usSnd u = u.pass := by unfold usSnd; rw [if_neg hho]
  rw [hF, hS, hsch]
  simp only [Nat.zero_add]
  have c1 := us_uafter_cases k u.user
  have c2 := us_uafter_cases (uafter k u.user) u.pass
  have t1 : usStepP k u.user (uafter k u.user) := by
    clear a1 a2 a3 c2; unfold usStepP; omega
  have t2 : usStepP (uafter k u.user) u.pass (uafter (uafter k u.user) u.pass) := by
    clear a1 a2 a3; unfold usStepP; omega
  have t3 : usStepP (uafter (uafter k u.user) u.pass) u.host (u.host.offs + u.host.len) := by
    clear a1 a2 a3; unfold usStepP; omega
  have t4 : usStepP (u.host.offs + u.host.len) u.port q1 := by
    clear a2 a3 c1 c2 hu; unfold usStepP; omega
  have t5 : usStepP q1 u.params q2 := by
    clear a1 a3 c1 c2 hu; unfold usStepP; omega
  have t6 : usStepP q2 u.headers b.size := by
    clear a1 a2 c1 c2 hu; unfold usStepP; omega
  exact ⟨_, _, _, q1, q2, b.size, t1, t2, t3, t4, t5, t6, by omega⟩

/-- the tel: report (the host handed out as user, the password kept, which then stands BEFORE the user) -/
theorem us_tel_wf {b : Buf} {u0 : PsipURI} (h : URILayout b 4 u0) (hfit : b.size ≤ 65535) : USWf (telSwap u0) := by
  obtain ⟨hsch, hhl, hu, q1, q2, _, _, hend, a1, a2, a3⟩ := h.ul_facts
  have hz : (telSwap u0).host.offs = 0 := rfl
  refine (us_wf_iff _).2 ⟨by show 0 < u0.scheme.len; rw [hsch]; decide, Or.inr ⟨hz, hhl⟩, ?_⟩
  have hF : usFst (telSwap u0) = u0.pass := by unfold usFst; rw [if_pos hz]; rfl
  have hS : usSnd (telSwap u0) = u0.host := by unfold usSnd; rw [if_pos hz]; rfl
  have hsc : (telSwap u0).scheme = ⟨0, 4⟩ := hsch
  have hH : (telSwap u0).host = {} := rfl
  have e1 : (telSwap u0).port = u0.port := rfl
  have e2 : (telSwap u0).params = u0.params := rfl
  have e3 : (telSwap u0).headers = u0.headers := rfl
  rw [hF, hS, hsc, hH, e1, e2, e3]
  simp only [Nat.zero_add]
  have c1 := us_uafter_cases 4 u0.pass
  have t1 : usStepP 4 u0.pass (uafter 4 u0.pass) := by
    clear a1 a2 a3; unfold usStepP; omega
  have t2 : usStepP (uafter 4 u0.pass) u0.host (u0.host.offs + u0.host.len) := by
    clear a1 a2 a3; unfold usStepP; omega
  have t4 : usStepP (u0.host.offs + u0.host.len) u0.port q1 := by
    clear a2 a3 c1 hu; unfold usStepP; omega
  have t5 : usStepP q1 u0.params q2 := by
    clear a1 a3 c1 hu; unfold usStepP; omega
  have t6 : usStepP q2 u0.headers b.size := by
    clear a1 a2 c1 hu; unfold usStepP; omega
  exact ⟨_, _, _, q1, q2, b.size, t1, t2, us_step_absent _, t4, t5, t6, by omega⟩

/-- EXPORT C18 — **(1) what ParseURI establishes**: every URI accepted by ParseURI (sip:, sips:, tel:; input of at most
    65,535 bytes) satisfies the invariant `USWf`, its scheme is at offset 0 and the length AdjustOffs computes is
    len(b) -/
theorem us_parsed_wf (b : Buf) (hfit : b.size ≤ 65535) (hacc : (parseURI b {}).1 = .none) :
    USWf (parseURI b {}).2.2.1 ∧ (parseURI b {}).2.2.1.scheme.offs = 0 ∧ ulLen (parseURI b {}).2.2.1 = b.size := by
  have hg := ul_parsed_good b hfit hacc
  refine ⟨?_, hg.start, hg.len⟩
  obtain ⟨_, t, k, u0, hk, hl, hty, hu⟩ := (parseURI_ok b hfit).2.2 hacc
  rw [hu]
  by_cases ht : t = TELuri
  · rw [if_pos ht]
    have hk4 : k = 4 := by
      rcases hk with ⟨_, rfl, _⟩ | ⟨_, rfl, _⟩ | ⟨rfl, _, _⟩
      · rfl
      · rfl
      · exact absurd ht (by decide)
    subst hk4
    exact us_tel_wf hl hfit
  · rw [if_neg ht]
    have hk0 : 0 < k := by rcases hk with ⟨_, rfl, _⟩ | ⟨_, rfl, _⟩ | ⟨_, rfl, _⟩ <;> omega
    exact hl.us_wf hk0 hfit

/-- EXPORT C18 — **(1) ANY finite sequence of Truncate / AdjustOffs (to any 16-bit spans, accepted or refused) / Long /
    Short / Flat calls on a parsed URI never panics, and every theorem of C18 applies at every step**: for every
    accepted input `b` (≤ 65,535 bytes), every list of calls whose only obligations are those of `usPre` (the span is
    a pair of 16-bit numbers; the buffer given to Flat holds the span Long() reports) and every `n`: after the first
    `n` calls nothing has panicked, the structure satisfies the invariant, hence `ULWF` (= `C18.WF`) with its own
    computed length and `ulSum ≤ ulLen` — the hypotheses of `adjust_moves` / `adjust_refused` — and the computed
    length never exceeds len(b) -/
theorem uri_ops_never_panic (b : Buf) (hfit : b.size ≤ 65535) (hacc : (parseURI b {}).1 = .none)
    (ops : List USOp) (hpre : usPreAll (parseURI b {}).2.2.1 ops) (n : Nat) :
    (usRun (parseURI b {}).2.2.1 (ops.take n)).2 = false ∧
    USWf (usRun (parseURI b {}).2.2.1 (ops.take n)).1 ∧
    ULWF (usRun (parseURI b {}).2.2.1 (ops.take n)).1 (ulLen (usRun (parseURI b {}).2.2.1 (ops.take n)).1) ∧
    ulSum (usRun (parseURI b {}).2.2.1 (ops.take n)).1 ≤ ulLen (usRun (parseURI b {}).2.2.1 (ops.take n)).1 ∧
    ulLen (usRun (parseURI b {}).2.2.1 (ops.take n)).1 ≤ b.size ∧
    (usRun (parseURI b {}).2.2.1 (ops.take n)).1.long.2 = false ∧
    (usRun (parseURI b {}).2.2.1 (ops.take n)).1.short.2 = false := by
  obtain ⟨hw, _, hlen⟩ := us_parsed_wf b hfit hacc
  have := us_ops_every_step hw ops hpre n
  rw [hlen] at this
  exact this

/-- EXPORT C18 — **(2) parse, relocate, relocate again**: for an accepted input and two spans that hold it (inside the
    16-bit range), AdjustOffs to the first and then to the second gives exactly what AdjustOffs to the second gives
    directly (so `C18.relocate_parsed` describes the result: every component reads the original bytes), and going
    back to a span at offset 0 gives back the parsed URI itself -/
theorem us_parsed_relocate_twice (b : Buf) (hfit : b.size ≤ 65535) (hacc : (parseURI b {}).1 = .none)
    (np1 np2 : PField) (h1 : b.size ≤ np1.len) (l1 : np1.offs + np1.len < 65536) (h2 : b.size ≤ np2.len)
    (l2 : np2.offs + np2.len < 65536) :
    ((parseURI b {}).2.2.1.adjustOffs np1).1 = true ∧ ((parseURI b {}).2.2.1.adjustOffs np2).1 = true ∧
    ((parseURI b {}).2.2.1.adjustOffs np1).2.1.adjustOffs np2 = (parseURI b {}).2.2.1.adjustOffs np2 ∧
    (np2.offs = 0 → ((parseURI b {}).2.2.1.adjustOffs np1).2.1.adjustOffs np2 = (true, (parseURI b {}).2.2.1, false)) := by
  obtain ⟨hw, hs, hlen⟩ := us_parsed_wf b hfit hacc
  have s1 : usSpan np1 := ⟨by omega, by omega⟩
  have s2 : usSpan np2 := ⟨by omega, by omega⟩
  have e1 := us_adjust_eq hw np1 s1
  have e2 := us_adjust_eq hw np2 s2
  rw [if_pos ⟨l1, by omega⟩] at e1
  rw [if_pos ⟨l2, by omega⟩] at e2
  have acc1 : ((parseURI b {}).2.2.1.adjustOffs np1).1 = true := by rw [e1]
  have acc2 : ((parseURI b {}).2.2.1.adjustOffs np2).1 = true := by rw [e2]
  refine ⟨acc1, acc2, (us_adjust_adjust hw np1 np2 s1 s2 acc1).2.1 acc2, fun h0 => ?_⟩
  exact us_adjust_back hw np1 np2 s1 s2 acc1 (by omega) (by omega) l2

/-- EXPORT C18 — **(3) parse, Truncate, relocate**: the truncated URI is accepted by exactly the spans (inside the 16-bit
    range) of at least `ulLen u.truncate` bytes — at most len(b), at least the length of Short(), equal to it unless
    the port is present but empty — and Long / Short of the result are the Short of the parsed URI at the new offset -/
theorem us_parsed_truncate_adjust (b : Buf) (hfit : b.size ≤ 65535) (hacc : (parseURI b {}).1 = .none)
    (np : PField) (hnp : usSpan np) (hlim : np.offs + np.len < 65536) :
    (((parseURI b {}).2.2.1.truncate.adjustOffs np).1 = true ↔ ulLen (parseURI b {}).2.2.1.truncate ≤ np.len) ∧
    ((parseURI b {}).2.2.1.truncate.adjustOffs np).2.2 = false ∧
    (parseURI b {}).2.2.1.short.1.len ≤ ulLen (parseURI b {}).2.2.1.truncate ∧
    ulLen (parseURI b {}).2.2.1.truncate ≤ b.size ∧
    (((parseURI b {}).2.2.1.port.offs ≠ 0 → 0 < (parseURI b {}).2.2.1.port.len) →
      ulLen (parseURI b {}).2.2.1.truncate = (parseURI b {}).2.2.1.short.1.len) ∧
    (((parseURI b {}).2.2.1.truncate.adjustOffs np).1 = true →
      ((parseURI b {}).2.2.1.truncate.adjustOffs np).2.1.long =
        ({ (parseURI b {}).2.2.1.short.1 with offs := np.offs }, false) ∧
      ((parseURI b {}).2.2.1.truncate.adjustOffs np).2.1.short =
        ({ (parseURI b {}).2.2.1.short.1 with offs := np.offs }, false)) := by
  obtain ⟨hw, hs, hlen⟩ := us_parsed_wf b hfit hacc
  obtain ⟨t1, t2, t3⟩ := us_truncate_adjust hw np hnp
  obtain ⟨_, k2, k3⟩ := us_truncate_len hw
  rw [hlen] at t2
  by_cases hc : ulLen (parseURI b {}).2.2.1.truncate ≤ np.len
  · rw [if_pos ⟨hlim, hc⟩] at t1
    rw [t1]
    exact ⟨⟨fun _ => hc, fun _ => rfl⟩, rfl, k2, t2, k3, fun _ => t3 (by omega)⟩
  · rw [if_neg (fun hh => hc hh.2)] at t1
    rw [t1]
    exact ⟨⟨(fun hh => by cases hh), fun hh => absurd hh hc⟩, rfl, k2, t2, k3, (fun hh => by cases hh)⟩

/-! ## (5) tests / non-vacuity: empty-but-present components (closed computations, `decide +kernel`)

  `sip:h;` (parameters present, empty), `sip:h:` (port present, empty), `sip:u:@h` (password present, empty),
  `sip:h?` (headers present, empty), `sip:h:;x` (empty port in the middle), `tel:a:b@c` (user behind the password). -/

instance usSpanDec (np : PField) : Decidable (usSpan np) := by unfold usSpan; infer_instance

/-- decision procedure for the caller's obligations (used by the tests only) -/
def usPreDec (u : PsipURI) : (op : USOp) → Decidable (usPre u op)
  | .truncate => isTrue trivial
  | .adjust np => usSpanDec np
  | .long => isTrue trivial
  | .short => isTrue trivial
  | .flat b => inferInstanceAs (Decidable (u.long.1.offs + u.long.1.len ≤ b.size))

def usPreAllDec : (u : PsipURI) → (ops : List USOp) → Decidable (usPreAll u ops)
  | _, [] => isTrue trivial
  | u, op :: r => @instDecidableAnd _ _ (usPreDec u op) (usPreAllDec (usExec u op).1 r)

instance (u : PsipURI) (ops : List USOp) : Decidable (usPreAll u ops) := usPreAllDec u ops

def usTP (s : String) : PsipURI := (parseURI s.toUTF8.data {}).2.2.1

-- test: the four corner inputs are accepted; the empty component is PRESENT (offset ≠ 0, length 0)
example : (parseURI "sip:h;".toUTF8.data {}).1 = .none ∧ (usTP "sip:h;").params = ⟨6, 0⟩ ∧
    (parseURI "sip:h:".toUTF8.data {}).1 = .none ∧ (usTP "sip:h:").port = ⟨6, 0⟩ ∧
    (parseURI "sip:u:@h".toUTF8.data {}).1 = .none ∧ (usTP "sip:u:@h").pass = ⟨6, 0⟩ ∧
    (usTP "sip:u:@h").host = ⟨7, 1⟩ ∧
    (parseURI "sip:h?".toUTF8.data {}).1 = .none ∧ (usTP "sip:h?").headers = ⟨6, 0⟩ := by decide +kernel

-- non-vacuity: the hypotheses of `us_parsed_wf` are met by each of them, so every theorem above applies
example : USWf (usTP "sip:h;") := (us_parsed_wf "sip:h;".toUTF8.data (by decide +kernel) (by decide +kernel)).1
example : USWf (usTP "sip:h:") := (us_parsed_wf "sip:h:".toUTF8.data (by decide +kernel) (by decide +kernel)).1
example : USWf (usTP "sip:u:@h") := (us_parsed_wf "sip:u:@h".toUTF8.data (by decide +kernel) (by decide +kernel)).1
example : USWf (usTP "sip:h?") := (us_parsed_wf "sip:h?".toUTF8.data (by decide +kernel) (by decide +kernel)).1
example : USWf (usTP "tel:a:b@c") := (us_parsed_wf "tel:a:b@c".toUTF8.data (by decide +kernel) (by decide +kernel)).1

-- test: the computed length counts the dangling delimiter (6), Long() does not (5): a span of Long().Len bytes is
-- REFUSED for these URIs, 6 bytes are needed; the relocated empty component stays present (106 ≠ 0)
example : ulLen (usTP "sip:h;") = 6 ∧ (usTP "sip:h;").long = (⟨0, 5⟩, false) ∧
    ((usTP "sip:h;").adjustOffs ⟨100, 5⟩) = (false, usTP "sip:h;", false) ∧
    ((usTP "sip:h;").adjustOffs ⟨100, 6⟩).1 = true ∧
    ((usTP "sip:h;").adjustOffs ⟨100, 6⟩).2.1.params = ⟨106, 0⟩ ∧
    ((usTP "sip:h:").adjustOffs ⟨100, 5⟩).1 = false ∧ ((usTP "sip:h:").adjustOffs ⟨100, 6⟩).2.1.port = ⟨106, 0⟩ ∧
    ((usTP "sip:h?").adjustOffs ⟨100, 5⟩).1 = false ∧ ((usTP "sip:h?").adjustOffs ⟨100, 6⟩).2.1.headers = ⟨106, 0⟩ ∧
    ((usTP "sip:u:@h").adjustOffs ⟨100, 7⟩).1 = false ∧ ((usTP "sip:u:@h").adjustOffs ⟨100, 8⟩).2.1.pass = ⟨106, 0⟩ := by
  decide +kernel

-- test (2): relocate twice = relocate once; back to offset 0 = the parsed URI; all four corner inputs and tel:
example : ∀ s ∈ ["sip:h;", "sip:h:", "sip:u:@h", "sip:h?", "sip:h:;x", "tel:a:b@c"],
    (((usTP s).adjustOffs ⟨100, 9⟩).2.1.adjustOffs ⟨7, 20⟩) = (usTP s).adjustOffs ⟨7, 20⟩ ∧
    ((usTP s).adjustOffs ⟨7, 20⟩).1 = true ∧
    (((usTP s).adjustOffs ⟨100, 9⟩).2.1.adjustOffs ⟨0, 9⟩) = (true, usTP s, false) := by decide +kernel

-- the same through the theorems (hypotheses instantiated)
example : ((usTP "sip:h;").adjustOffs ⟨100, 9⟩).2.1.adjustOffs ⟨0, 9⟩ = (true, usTP "sip:h;", false) :=
  us_adjust_back (us_parsed_wf "sip:h;".toUTF8.data (by decide +kernel) (by decide +kernel)).1 ⟨100, 9⟩ ⟨0, 9⟩
    (by decide) (by decide) (by decide +kernel) (by decide +kernel) (by decide +kernel) (by decide)

-- test (3): the threshold after Truncate. `sip:h;` / `sip:h?`: 5 (the dangling delimiter went with the component);
-- `sip:h:` and `sip:h:;x`: 6 although Long() of the truncated URI is `sip:h` = 5 bytes — the empty port is still
-- present; `sips:u@h:5;a?b` (14 bytes): 10, not 14
example : ulLen (usTP "sip:h;").truncate = 5 ∧ ulLen (usTP "sip:h?").truncate = 5 ∧
    ((usTP "sip:h;").truncate.adjustOffs ⟨9, 5⟩).1 = true ∧ ((usTP "sip:h;").truncate.adjustOffs ⟨9, 4⟩).1 = false ∧
    ulLen (usTP "sip:h:").truncate = 6 ∧ (usTP "sip:h:").truncate.long = (⟨0, 5⟩, false) ∧
    ((usTP "sip:h:").truncate.adjustOffs ⟨9, 5⟩).1 = false ∧ ((usTP "sip:h:").truncate.adjustOffs ⟨9, 6⟩).1 = true ∧
    ulLen (usTP "sip:h:;x") = 8 ∧ ulLen (usTP "sip:h:;x").truncate = 6 ∧
    (usTP "sip:h:;x").truncate.long = (⟨0, 5⟩, false) ∧
    ((usTP "sip:h:;x").truncate.adjustOffs ⟨9, 5⟩).1 = false ∧
    ((usTP "sip:h:;x").truncate.adjustOffs ⟨9, 6⟩).2.1.long = (⟨9, 5⟩, false) ∧
    ulLen (usTP "sips:u@h:5;a?b") = 14 ∧ ulLen (usTP "sips:u@h:5;a?b").truncate = 10 ∧
    ((usTP "sips:u@h:5;a?b").truncate.adjustOffs ⟨9, 10⟩).1 = true ∧
    ((usTP "sips:u@h:5;a?b").truncate.adjustOffs ⟨9, 9⟩).1 = false := by decide +kernel

-- test (4): the views of the relocated URI are the relocated views
example : ∀ s ∈ ["sip:h;", "sip:h:", "sip:u:@h", "sip:h?", "sip:h:;x", "tel:a:b@c", "sips:u@h:5;a?b"],
    ((usTP s).adjustOffs ⟨100, 14⟩).1 = true ∧
    ((usTP s).adjustOffs ⟨100, 14⟩).2.1.long = ({ (usTP s).long.1 with offs := 100 }, false) ∧
    ((usTP s).adjustOffs ⟨100, 14⟩).2.1.short = ({ (usTP s).short.1 with offs := 100 }, false) := by decide +kernel

-- test (4), bytes: "sip:u:@h" sits at offset 4 of "To:<sip:u:@h>"; Flat of the relocated URI there = Flat of the
-- original = the 8 bytes; `USSameText` is satisfiable
example : USSameText "To:<sip:u:@h>".toUTF8.data 4 "sip:u:@h".toUTF8.data 0 8 := by
  refine ⟨?_, ?_, ?_⟩ <;> decide +kernel
example : (ulRelocate (usTP "sip:u:@h") 4).flat "To:<sip:u:@h>".toUTF8.data = some "sip:u:@h".toUTF8.data ∧
    (usTP "sip:u:@h").flat "sip:u:@h".toUTF8.data = some "sip:u:@h".toUTF8.data ∧
    (ulRelocate (usTP "sip:h;") 4).flat "To:<sip:h;>".toUTF8.data = some "sip:h".toUTF8.data := by decide +kernel

-- `us_parsed_relocate_twice`, `us_parsed_truncate_adjust`, `us_adjust_views` with all hypotheses instantiated
example : ((usTP "sip:u:@h").adjustOffs ⟨100, 8⟩).2.1.adjustOffs ⟨0, 9⟩ = (true, usTP "sip:u:@h", false) :=
  (us_parsed_relocate_twice "sip:u:@h".toUTF8.data (by decide +kernel) (by decide +kernel) ⟨100, 8⟩ ⟨0, 9⟩
    (by decide +kernel) (by decide) (by decide +kernel) (by decide)).2.2.2 rfl
example : ((usTP "sip:h:;x").truncate.adjustOffs ⟨9, 6⟩).1 = true :=
  (us_parsed_truncate_adjust "sip:h:;x".toUTF8.data (by decide +kernel) (by decide +kernel) ⟨9, 6⟩ (by decide)
    (by decide)).1.2 (by decide +kernel)
example : ((usTP "sip:h?").adjustOffs ⟨4, 6⟩).2.1.flat "To:<sip:h?>".toUTF8.data = (usTP "sip:h?").flat "sip:h?".toUTF8.data :=
  ((us_adjust_views (us_parsed_wf "sip:h?".toUTF8.data (by decide +kernel) (by decide +kernel)).1 ⟨4, 6⟩ (by decide)
    (by decide +kernel)).2.2.2.2 "To:<sip:h?>".toUTF8.data "sip:h?".toUTF8.data
    (by refine ⟨?_, ?_, ?_⟩ <;> decide +kernel)).1

/-- a sequence of calls on the parsed `sip:h:;x`: views, a relocation, Flat in the new buffer, a refused span, a span
    whose end wraps, Truncate, a relocation onto 6 bytes, one onto 5 bytes (refused: the empty port is present) -/
def usTOps : List USOp :=
  [.long, .adjust ⟨4, 8⟩, .flat "To:<sip:h:;x>".toUTF8.data, .adjust ⟨50, 7⟩, .adjust ⟨65530, 8⟩, .short, .truncate,
   .adjust ⟨200, 6⟩, .adjust ⟨300, 5⟩, .long, .flat (Array.replicate 205 0)]

-- test: the caller's obligations hold along the sequence; nothing panics; the structure at the end
example : usPreAll (usTP "sip:h:;x") usTOps := by decide +kernel
example : usRun (usTP "sip:h:;x") usTOps =
    ({ uriType := SIPuri, scheme := ⟨200, 4⟩, host := ⟨204, 1⟩, port := ⟨206, 0⟩ }, false) := by decide +kernel
-- … and `uri_ops_never_panic` with all hypotheses instantiated, after 9 of the 11 calls
example : (usRun (usTP "sip:h:;x") (usTOps.take 9)).2 = false ∧ USWf (usRun (usTP "sip:h:;x") (usTOps.take 9)).1 :=
  have h := uri_ops_never_panic "sip:h:;x".toUTF8.data (by decide +kernel) (by decide +kernel) usTOps
    (by decide +kernel) 9
  ⟨h.1, h.2.1⟩
-- test: the interpreter does report a panic when the obligation of Flat is NOT met (buffer too short)
example : usRun (usTP "sip:h;") [.flat "sip".toUTF8.data, .truncate] = (usTP "sip:h;", true) := by decide +kernel

end Sipsp
