/-
  Sipsp.Proofs.UriSeq — property C18 for SEQUENCES of operations on one parsed URI.

  The theorems of C18 / UriLink are about ONE AdjustOffs / view call on a freshly parsed URI (scheme at offset 0).
  This file gives an invariant `USWf u` of the structure alone (no buffer, any scheme offset):
    * the scheme is not empty; an absent component (`Offs = 0`) has length 0;
    * the present components come one after the other behind the scheme, in buffer order (`usSeq`: user, password,
      host, port, parameters, headers — for a URI without host, i.e. tel:, the password comes BEFORE the user,
      because the number is reported as user), and the last one ends below 65,536;
    * the host is not empty, or there is no host and the user (the tel: number) is not empty.
  and proves
   (1) closure: `us_parsed_wf` (ParseURI establishes it, all schemes), `USWf.truncate`, `USWf.adjust` (AdjustOffs
       keeps it whether the span is accepted or refused), and `USWf.ulwf` / `USWf.sum`: it implies the hypotheses
       `ULWF u (ulLen u)` (= `C18.WF`) and `ulSum u ≤ ulLen u` of the C18 theorems. `us_adjust_eq` is the complete
       description of AdjustOffs on such a URI (exact acceptance condition). Operations `USOp`, interpreter `usRun`:
       `us_ops_never_panic`, `us_ops_every_step`, and for a parsed URI `uri_ops_never_panic`.
   (2) `us_adjust_adjust` (relocating twice = relocating once to the second span), `us_adjust_back`.
   (3) `us_truncate_adjust` (exact threshold after Truncate: `ulLen u.truncate`, the end of the last PRESENT component
       of scheme..port; related to Long() by `us_long_le_len` / `us_long_eq_len`), `us_truncate_len_le`.
   (4) `us_long_eq` / `us_short_eq` (the views in closed form, no panic), `us_long_relocate`, `us_short_relocate`,
       `us_flat_relocate`, `us_comp_relocate` (bytes).
   (5) tests with `sip:h;`, `sip:h:`, `sip:u:@h`, `sip:h?` at the end.
-/
import Sipsp.Proofs.UriLink

set_option linter.unusedSimpArgs false
set_option linter.unusedVariables false

namespace Sipsp

/-! ## the invariant -/

/-- the component that comes first behind the scheme: the user — but the password when there is no host (tel:, where
    the number, reported as user, stands behind the password) -/
def usFst (u : PsipURI) : PField := if u.host.offs = 0 then u.pass else u.user
def usSnd (u : PsipURI) : PField := if u.host.offs = 0 then u.user else u.pass

/-- the components behind the scheme in buffer order -/
def usSeq (u : PsipURI) : List PField := [usFst u, usSnd u, u.host, u.port, u.params, u.headers]

/-- walking through the components with a cursor `c` (end of the last present one so far): an absent component is
    zero, a present one starts at or after the cursor; at the end the cursor is a 16-bit offset -/
def usChain : Nat → List PField → Prop
  | c, [] => c < 65536
  | c, f :: r => (f.offs = 0 → f.len = 0) ∧ (f.offs ≠ 0 → c ≤ f.offs) ∧ usChain (uafter c f) r

/-- **the invariant of a parsed URI under Truncate / AdjustOffs** -/
structure USWf (u : PsipURI) : Prop where
  sch : 0 < u.scheme.len
  chain : usChain (u.scheme.offs + u.scheme.len) (usSeq u)
  core : 0 < u.host.len ∨ (u.host.offs = 0 ∧ 0 < u.user.len)

/-- one step of the chain in a form `omega` can use: from cursor `c` over `f` to cursor `q` -/
def usStepP (c : Nat) (f : PField) (q : Nat) : Prop :=
  (f.offs = 0 ∧ f.len = 0 ∧ q = c) ∨ (f.offs ≠ 0 ∧ c ≤ f.offs ∧ q = f.offs + f.len)

theorem us_chain_cons (c : Nat) (f : PField) (r : List PField) :
    usChain c (f :: r) ↔ ∃ q, usStepP c f q ∧ usChain q r := by
  constructor
  · rintro ⟨h1, h2, h3⟩
    refine ⟨uafter c f, ?_, h3⟩
    unfold usStepP uafter
    by_cases hz : f.offs = 0
    · left; exact ⟨hz, h1 hz, by rw [if_pos hz]⟩
    · right; exact ⟨hz, h2 hz, by rw [if_neg hz]⟩
  · rintro ⟨q, hq, hr⟩
    have e : uafter c f = q := by
      unfold uafter
      rcases hq with ⟨h1, _, h3⟩ | ⟨h1, _, h3⟩
      · rw [if_pos h1, h3]
      · rw [if_neg h1, h3]
    refine ⟨?_, ?_, by rw [e]; exact hr⟩
    · intro hz
      rcases hq with ⟨_, h2, _⟩ | ⟨h1, _, _⟩
      · exact h2
      · exact absurd hz h1
    · intro hz
      rcases hq with ⟨h1, _, _⟩ | ⟨_, h2, _⟩
      · exact absurd h1 hz
      · exact h2

theorem us_chain_nil (c : Nat) : usChain c [] ↔ c < 65536 := Iff.rfl

/-- the chain over the six components, as six steps -/
theorem us_chain6 (c : Nat) (f1 f2 f3 f4 f5 f6 : PField) :
    usChain c [f1, f2, f3, f4, f5, f6] ↔
    ∃ q1 q2 q3 q4 q5 q6, usStepP c f1 q1 ∧ usStepP q1 f2 q2 ∧ usStepP q2 f3 q3 ∧ usStepP q3 f4 q4 ∧
      usStepP q4 f5 q5 ∧ usStepP q5 f6 q6 ∧ q6 < 65536 := by
  simp only [us_chain_cons, us_chain_nil]
  constructor
  · rintro ⟨q1, h1, q2, h2, q3, h3, q4, h4, q5, h5, q6, h6, hl⟩
    exact ⟨q1, q2, q3, q4, q5, q6, h1, h2, h3, h4, h5, h6, hl⟩
  · rintro ⟨q1, q2, q3, q4, q5, q6, h1, h2, h3, h4, h5, h6, hl⟩
    exact ⟨q1, h1, q2, h2, q3, h3, q4, h4, q5, h5, q6, h6, hl⟩

/-- the invariant, as arithmetic facts -/
theorem us_wf_iff (u : PsipURI) :
    USWf u ↔ 0 < u.scheme.len ∧ (0 < u.host.len ∨ (u.host.offs = 0 ∧ 0 < u.user.len)) ∧
      ∃ q1 q2 q3 q4 q5 q6, usStepP (u.scheme.offs + u.scheme.len) (usFst u) q1 ∧ usStepP q1 (usSnd u) q2 ∧
        usStepP q2 u.host q3 ∧ usStepP q3 u.port q4 ∧ usStepP q4 u.params q5 ∧ usStepP q5 u.headers q6 ∧
        q6 < 65536 := by
  constructor
  · rintro ⟨h1, h2, h3⟩
    exact ⟨h1, h3, (us_chain6 _ _ _ _ _ _ _).1 h2⟩
  · rintro ⟨h1, h3, h2⟩
    exact ⟨h1, (us_chain6 _ _ _ _ _ _ _).2 h2, h3⟩

/-! ## the length AdjustOffs computes -/

/-- one step of AdjustOffs' length loop, for a component that does not wrap around -/
theorem us_ulenStep (a s : Nat) (f : PField) (h : f.offs ≠ 0 → s ≤ f.offs ∧ f.offs + f.len < 65536) :
    (f.offs = 0 ∧ ulenStep a s f = a) ∨ (f.offs ≠ 0 ∧ ulenStep a s f = max a (f.offs + f.len - s)) := by
  unfold ulenStep
  by_cases hz : f.offs = 0
  · left
    refine ⟨hz, ?_⟩
    have hne : (f.offs != 0) = false := by simp [hz]
    rw [hne]
    simp only [Bool.false_and, Bool.false_eq_true, ↓reduceIte]
  · right
    refine ⟨hz, ?_⟩
    have := h hz
    have e : (f.offs + f.len + 65536 - s) % 65536 = f.offs + f.len - s := by omega
    rw [e]
    have hne : (f.offs != 0) = true := by simpa using hz
    rw [hne]
    simp only [Bool.true_and, decide_eq_true_eq]
    split <;> omega

/-- a chain step moves the length loop along with the cursor -/
theorem us_ulen_step (a s c q : Nat) (f : PField) (hac : s + a = c) (hq : usStepP c f q) (hlim : q < 65536) :
    s + ulenStep a s f = q := by
  unfold usStepP at hq
  have := us_ulenStep a s f (by intro hz; omega)
  omega

/-- the first two components in either order -/
theorem us_ulen_step2 (a s c q1 q2 : Nat) (f g : PField) (hac : s + a = c) (h1 : usStepP c f q1)
    (h2 : usStepP q1 g q2) (hlim : q2 < 65536) :
    s + ulenStep (ulenStep a s g) s f = q2 := by
  unfold usStepP at h1 h2
  have e1 := us_ulenStep a s g (by intro hz; omega)
  have e2 := us_ulenStep (ulenStep a s g) s f (by intro hz; omega)
  omega

theorem us_step_mono {c q : Nat} {f : PField} (h : usStepP c f q) : c + f.len ≤ q := by
  unfold usStepP at h; omega

/-- the length AdjustOffs computes is where the chain ends -/
theorem us_len_of_steps (u : PsipURI) (q1 q2 q3 q4 q5 q6 : Nat)
    (s1 : usStepP (u.scheme.offs + u.scheme.len) (usFst u) q1) (s2 : usStepP q1 (usSnd u) q2)
    (s3 : usStepP q2 u.host q3) (s4 : usStepP q3 u.port q4) (s5 : usStepP q4 u.params q5)
    (s6 : usStepP q5 u.headers q6) (hl : q6 < 65536) : u.scheme.offs + ulLen u = q6 := by
  have m1 := us_step_mono s1
  have m2 := us_step_mono s2
  have m3 := us_step_mono s3
  have m4 := us_step_mono s4
  have m5 := us_step_mono s5
  have m6 := us_step_mono s6
  unfold ulLen ulComps
  simp only [List.foldl_cons, List.foldl_nil]
  have e2 : u.scheme.offs + ulenStep (ulenStep u.scheme.len u.scheme.offs u.user) u.scheme.offs u.pass = q2 := by
    unfold usFst at s1
    unfold usSnd at s2
    by_cases hz : u.host.offs = 0
    · rw [if_pos hz] at s1 s2
      exact us_ulen_step2 _ _ _ q1 q2 _ _ rfl s1 s2 (by omega)
    · rw [if_neg hz] at s1 s2
      have e1 := us_ulen_step u.scheme.len u.scheme.offs _ q1 u.user rfl s1 (by omega)
      exact us_ulen_step _ _ _ q2 u.pass e1 s2 (by omega)
  have e3 := us_ulen_step _ _ _ q3 u.host e2 s3 (by omega)
  have e4 := us_ulen_step _ _ _ q4 u.port e3 s4 (by omega)
  have e5 := us_ulen_step _ _ _ q5 u.params e4 s5 (by omega)
  exact us_ulen_step _ _ _ q6 u.headers e5 s6 hl

/-- everything `omega` needs to know about a URI that satisfies the invariant (`s` = scheme offset, `k` = scheme
    length, `q1 … q6` = the cursor after each component in buffer order, `q6 = s + ulLen u`) -/
theorem USWf.facts {u : PsipURI} (h : USWf u) :
    0 < u.scheme.len ∧ (0 < u.host.len ∨ (u.host.offs = 0 ∧ 0 < u.user.len)) ∧
    ∃ a b q1 q2 q3 q4 q5 q6,
      ((u.host.offs = 0 ∧ a = u.pass ∧ b = u.user) ∨ (u.host.offs ≠ 0 ∧ a = u.user ∧ b = u.pass)) ∧
      usStepP (u.scheme.offs + u.scheme.len) a q1 ∧ usStepP q1 b q2 ∧
      usStepP q2 u.host q3 ∧ usStepP q3 u.port q4 ∧ usStepP q4 u.params q5 ∧ usStepP q5 u.headers q6 ∧
      q6 < 65536 ∧ u.scheme.offs + ulLen u = q6 := by
  obtain ⟨h1, h3, q1, q2, q3, q4, q5, q6, s1, s2, s3, s4, s5, s6, hl⟩ := (us_wf_iff u).1 h
  refine ⟨h1, h3, usFst u, usSnd u, q1, q2, q3, q4, q5, q6, ?_, s1, s2, s3, s4, s5, s6, hl,
    us_len_of_steps u q1 q2 q3 q4 q5 q6 s1 s2 s3 s4 s5 s6 hl⟩
  unfold usFst usSnd
  by_cases hz : u.host.offs = 0
  · left; rw [if_pos hz, if_pos hz]; exact ⟨hz, rfl, rfl⟩
  · right; rw [if_neg hz, if_neg hz]; exact ⟨hz, rfl, rfl⟩

/-! ## (1) the invariant gives the hypotheses of the C18 theorems -/

theorem us_step_comp {c q : Nat} {f : PField} (h : usStepP c f q) (lo hi : Nat) (hlo : lo ≤ c) (hhi : q ≤ hi) :
    (f.offs = 0 → f.len = 0) ∧ (f.offs ≠ 0 → lo ≤ f.offs ∧ f.offs + f.len ≤ hi) := by
  unfold usStepP at h; omega

/-- an absent component has length 0; a present one lies behind the scheme and ends inside the computed length -/
theorem USWf.comps {u : PsipURI} (h : USWf u) : ∀ f ∈ ulComps u,
    (f.offs = 0 → f.len = 0) ∧
    (f.offs ≠ 0 → u.scheme.offs + u.scheme.len ≤ f.offs ∧ f.offs + f.len ≤ u.scheme.offs + ulLen u) := by
  obtain ⟨hk, hc, a, b, q1, q2, q3, q4, q5, q6, hab, s1, s2, s3, s4, s5, s6, hl, hq⟩ := h.facts
  have m1 := us_step_mono s1
  have m2 := us_step_mono s2
  have m3 := us_step_mono s3
  have m4 := us_step_mono s4
  have m5 := us_step_mono s5
  have m6 := us_step_mono s6
  intro f hf
  simp only [ulComps, List.mem_cons, List.not_mem_nil, or_false] at hf
  rcases hab with ⟨_, rfl, rfl⟩ | ⟨_, rfl, rfl⟩
  · rcases hf with rfl | rfl | rfl | rfl | rfl | rfl
    · exact us_step_comp s2 _ _ (by omega) (by omega)
    · exact us_step_comp s1 _ _ (by omega) (by omega)
    · exact us_step_comp s3 _ _ (by omega) (by omega)
    · exact us_step_comp s4 _ _ (by omega) (by omega)
    · exact us_step_comp s5 _ _ (by omega) (by omega)
    · exact us_step_comp s6 _ _ (by omega) (by omega)
  · rcases hf with rfl | rfl | rfl | rfl | rfl | rfl
    · exact us_step_comp s1 _ _ (by omega) (by omega)
    · exact us_step_comp s2 _ _ (by omega) (by omega)
    · exact us_step_comp s3 _ _ (by omega) (by omega)
    · exact us_step_comp s4 _ _ (by omega) (by omega)
    · exact us_step_comp s5 _ _ (by omega) (by omega)
    · exact us_step_comp s6 _ _ (by omega) (by omega)

theorem USWf.lim {u : PsipURI} (h : USWf u) : u.scheme.offs + ulLen u < 65536 := by
  obtain ⟨_, _, _, _, _, _, _, _, _, _, _, _, _, _, _, _, _, hl, hq⟩ := h.facts
  omega

theorem USWf.sch_le {u : PsipURI} (h : USWf u) : u.scheme.len ≤ ulLen u := by
  obtain ⟨hk, hc, a, b, q1, q2, q3, q4, q5, q6, hab, s1, s2, s3, s4, s5, s6, hl, hq⟩ := h.facts
  have m1 := us_step_mono s1
  have m2 := us_step_mono s2
  have m3 := us_step_mono s3
  have m4 := us_step_mono s4
  have m5 := us_step_mono s5
  have m6 := us_step_mono s6
  omega

/-- **the invariant implies the well-formedness hypothesis of the AdjustOffs theorems** (`ULWF`, field for field
    `C18.WF`), with `L` = the length AdjustOffs computes -/
theorem USWf.ulwf {u : PsipURI} (h : USWf u) : ULWF u (ulLen u) := by
  refine ⟨h.lim, h.sch_le, ?_, Nat.le_refl _⟩
  intro f hf hz
  have := (h.comps f hf).2 hz
  omega

/-- … and the other hypothesis: the sum of the component lengths is at most that length -/
theorem USWf.sum {u : PsipURI} (h : USWf u) : ulSum u ≤ ulLen u := by
  obtain ⟨hk, hc, a, b, q1, q2, q3, q4, q5, q6, hab, s1, s2, s3, s4, s5, s6, hl, hq⟩ := h.facts
  have m1 := us_step_mono s1
  have m2 := us_step_mono s2
  have m3 := us_step_mono s3
  have m4 := us_step_mono s4
  have m5 := us_step_mono s5
  have m6 := us_step_mono s6
  unfold ulSum
  rcases hab with ⟨_, rfl, rfl⟩ | ⟨_, rfl, rfl⟩ <;> omega

/-! ### AdjustOffs, completely -/

/-- the span is made of two 16-bit numbers (Go: `OffsT` = `uint16`) -/
def usSpan (np : PField) : Prop := np.offs < 65536 ∧ np.len < 65536

/-- **AdjustOffs on a URI that satisfies the invariant, for EVERY span**: it never panics; the span is accepted
    exactly when its end stays inside the 16-bit range and its length is at least `ulLen u` (the end of the last
    PRESENT component, relative to the scheme); then the result is the URI moved to `np.Offs`; otherwise nothing is
    changed -/
theorem us_adjust_eq {u : PsipURI} (h : USWf u) (np : PField) (hnp : usSpan np) :
    u.adjustOffs np =
      if np.offs + np.len < 65536 ∧ ulLen u ≤ np.len then (true, ulRelocate u np.offs, false) else (false, u, false) := by
  by_cases hw : np.offs + np.len < 65536
  · by_cases hl : ulLen u ≤ np.len
    · rw [if_pos ⟨hw, hl⟩]
      exact ul_adjust_moves u np (ulLen u) h.ulwf hl (Nat.le_trans h.sum hl) hw
    · rw [if_neg (fun hh => hl hh.2)]
      exact ul_adjust_refused u np (by omega)
  · rw [if_neg (fun hh => hw hh.1)]
    exact ul_adjust_wrap_refused u np hnp.1 hnp.2 (by omega)

/-! ### closure -/

theorem us_moved_absent {f : PField} (s o : Nat) (h : f.offs = 0) : ulMoved f s o = f := by
  unfold ulMoved
  have hne : (f.offs != 0) = false := by simp [h]
  rw [hne]
  rfl

theorem us_moved_present {f : PField} (s o : Nat) (h : f.offs ≠ 0) : ulMoved f s o = ⟨f.offs - s + o, f.len⟩ := by
  unfold ulMoved
  have hne : (f.offs != 0) = true := by simpa using h
  rw [hne]
  rfl

theorem us_moved_step {c q : Nat} {f : PField} (s o : Nat) (h : usStepP c f q) (hs : s < c) :
    usStepP (c - s + o) (ulMoved f s o) (q - s + o) ∧ ((ulMoved f s o).offs = 0 ↔ f.offs = 0) ∧
    (ulMoved f s o).len = f.len := by
  unfold usStepP at h ⊢
  by_cases hz : f.offs = 0
  · rw [us_moved_absent s o hz]
    exact ⟨by omega, Iff.rfl, rfl⟩
  · rw [us_moved_present s o hz]
    refine ⟨by simp only; omega, ?_, rfl⟩
    simp only
    constructor <;> intro _ <;> omega

/-- **closure under an accepted relocation**: the moved URI satisfies the invariant again, with the same length -/
theorem USWf.relocate {u : PsipURI} (h : USWf u) (o : Nat) (ho : o + ulLen u < 65536) :
    USWf (ulRelocate u o) ∧ ulLen (ulRelocate u o) = ulLen u := by
  obtain ⟨hk, hc, a, b, q1, q2, q3, q4, q5, q6, hab, s1, s2, s3, s4, s5, s6, hl, hq⟩ := h.facts
  have m1 := us_step_mono s1
  have m2 := us_step_mono s2
  have m3 := us_step_mono s3
  have m4 := us_step_mono s4
  have m5 := us_step_mono s5
  obtain ⟨t1, z1, l1⟩ := us_moved_step u.scheme.offs o s1 (by omega)
  obtain ⟨t2, z2, l2⟩ := us_moved_step u.scheme.offs o s2 (by omega)
  obtain ⟨t3, z3, l3⟩ := us_moved_step u.scheme.offs o s3 (by omega)
  obtain ⟨t4, z4, l4⟩ := us_moved_step u.scheme.offs o s4 (by omega)
  obtain ⟨t5, z5, l5⟩ := us_moved_step u.scheme.offs o s5 (by omega)
  obtain ⟨t6, z6, l6⟩ := us_moved_step u.scheme.offs o s6 (by omega)
  have e0 : u.scheme.offs + u.scheme.len - u.scheme.offs + o = o + u.scheme.len := by omega
  rw [e0] at t1
  have hF : usFst (ulRelocate u o) = ulMoved a u.scheme.offs o ∧ usSnd (ulRelocate u o) = ulMoved b u.scheme.offs o := by
    unfold usFst usSnd
    have hh : (ulRelocate u o).host = ulMoved u.host u.scheme.offs o := rfl
    rw [hh]
    rcases hab with ⟨hz, rfl, rfl⟩ | ⟨hz, rfl, rfl⟩
    · rw [if_pos (z3.2 hz), if_pos (z3.2 hz)]; exact ⟨rfl, rfl⟩
    · rw [if_neg (fun hh => hz (z3.1 hh)), if_neg (fun hh => hz (z3.1 hh))]; exact ⟨rfl, rfl⟩
  have hw : USWf (ulRelocate u o) := by
    refine (us_wf_iff _).2 ⟨hk, ?_, q1 - u.scheme.offs + o, q2 - u.scheme.offs + o, q3 - u.scheme.offs + o,
      q4 - u.scheme.offs + o, q5 - u.scheme.offs + o, q6 - u.scheme.offs + o, ?_, ?_, t3, t4, t5, t6, by omega⟩
    · show 0 < (ulMoved u.host u.scheme.offs o).len ∨
        ((ulMoved u.host u.scheme.offs o).offs = 0 ∧ 0 < (ulMoved u.user u.scheme.offs o).len)
      rw [l3, ul_moved_len]
      rcases hc with hc | ⟨hc1, hc2⟩
      · exact Or.inl hc
      · exact Or.inr ⟨z3.2 hc1, hc2⟩
    · rw [hF.1]; exact t1
    · rw [hF.2]; exact t2
  refine ⟨hw, ?_⟩
  have hq' := us_len_of_steps (ulRelocate u o) _ _ _ _ _ _ (hF.1 ▸ t1) (hF.2 ▸ t2) t3 t4 t5 t6 (by omega)
  have hs' : (ulRelocate u o).scheme.offs = o := rfl
  omega

/-- **closure under AdjustOffs, accepted or refused**: whatever the span, the call does not panic and the URI it
    leaves behind satisfies the invariant, with the same computed length -/
theorem USWf.adjust {u : PsipURI} (h : USWf u) (np : PField) (hnp : usSpan np) :
    (u.adjustOffs np).2.2 = false ∧ USWf (u.adjustOffs np).2.1 ∧ ulLen (u.adjustOffs np).2.1 = ulLen u := by
  rw [us_adjust_eq h np hnp]
  by_cases hc : np.offs + np.len < 65536 ∧ ulLen u ≤ np.len
  · rw [if_pos hc]
    exact ⟨rfl, h.relocate np.offs (by omega)⟩
  · rw [if_neg hc]
    exact ⟨rfl, h, rfl⟩

theorem us_step_absent (c : Nat) : usStepP c ({} : PField) c := Or.inl ⟨rfl, rfl, rfl⟩

/-- **closure under Truncate**; the computed length can only shrink -/
theorem USWf.truncate {u : PsipURI} (h : USWf u) : USWf u.truncate ∧ ulLen u.truncate ≤ ulLen u := by
  obtain ⟨h1, h3, q1, q2, q3, q4, q5, q6, s1, s2, s3, s4, s5, s6, hl⟩ := (us_wf_iff u).1 h
  have m5 := us_step_mono s5
  have m6 := us_step_mono s6
  have e := us_len_of_steps u q1 q2 q3 q4 q5 q6 s1 s2 s3 s4 s5 s6 hl
  have e' := us_len_of_steps u.truncate q1 q2 q3 q4 q4 q4 s1 s2 s3 s4 (us_step_absent q4) (us_step_absent q4)
    (by omega)
  have hs : u.truncate.scheme.offs = u.scheme.offs := rfl
  refine ⟨(us_wf_iff _).2 ⟨h1, h3, q1, q2, q3, q4, q4, q4, s1, s2, s3, s4, us_step_absent q4, us_step_absent q4,
    by omega⟩, ?_⟩
  omega

/-! ## (4) the views in closed form -/

/-- end of the last NON-EMPTY component (for a URI without host the user takes the host's place) -/
def usLongEnd (u : PsipURI) : Nat :=
  if u.headers.len > 0 then u.headers.offs + u.headers.len
  else if u.params.len > 0 then u.params.offs + u.params.len
  else if u.port.len > 0 then u.port.offs + u.port.len
  else if u.host.len > 0 then u.host.offs + u.host.len
  else u.user.offs + u.user.len

/-- end of the port if it is not empty, else of the host (of the user, for a URI without host) -/
def usShortEnd (u : PsipURI) : Nat :=
  if u.port.len > 0 then u.port.offs + u.port.len
  else if u.host.len > 0 then u.host.offs + u.host.len
  else u.user.offs + u.user.len

theorem us_setFrom (u : PsipURI) (f : PField) (hs : u.scheme.offs ≤ f.offs + f.len) (hf : f.offs + f.len < 65536) :
    setFrom u f = (⟨u.scheme.offs, f.offs + f.len - u.scheme.offs⟩, false) := by
  unfold setFrom PField.endT PField.set PField.setPanics
  rw [trunc16_of_lt hf, trunc16_of_lt (show u.scheme.offs < 65536 by omega),
    trunc16_of_lt (show f.offs + f.len - u.scheme.offs < 65536 by omega)]
  have : ¬ (f.offs + f.len < u.scheme.offs) := by omega
  simp only [this, decide_false]

/-- a non-empty component is present, lies behind the scheme and ends inside the computed length -/
theorem USWf.nonempty {u : PsipURI} (h : USWf u) (f : PField) (hf : f ∈ ulComps u) (hl : 0 < f.len) :
    f.offs ≠ 0 ∧ u.scheme.offs + u.scheme.len ≤ f.offs ∧ f.offs + f.len ≤ u.scheme.offs + ulLen u := by
  have hc := h.comps f hf
  have hz : f.offs ≠ 0 := fun hz => by have := hc.1 hz; omega
  exact ⟨hz, hc.2 hz⟩

theorem USWf.setFrom {u : PsipURI} (h : USWf u) (f : PField) (hf : f ∈ ulComps u) (hl : 0 < f.len) :
    setFrom u f = (⟨u.scheme.offs, f.offs + f.len - u.scheme.offs⟩, false) := by
  have := h.nonempty f hf hl
  have := h.lim
  exact us_setFrom u f (by omega) (by omega)

/-- a URI without (non-empty) host: the host is absent, the user is not empty and stands behind the password -/
theorem USWf.nohost {u : PsipURI} (h : USWf u) (hh : ¬ u.host.len > 0) :
    u.host.offs = 0 ∧ 0 < u.user.len ∧ (0 < u.pass.len → u.pass.offs + u.pass.len ≤ u.user.offs) := by
  obtain ⟨hk, hc, a, b, q1, q2, q3, q4, q5, q6, hab, s1, s2, s3, s4, s5, s6, hl, hq⟩ := h.facts
  rcases hc with hc | ⟨hc1, hc2⟩
  · exact absurd hc hh
  · refine ⟨hc1, hc2, ?_⟩
    rcases hab with ⟨_, rfl, rfl⟩ | ⟨hz, _, _⟩
    · unfold usStepP at s1 s2; omega
    · exact absurd hc1 hz

/-- **Long() in closed form**: no panic; it starts at the scheme and ends where the last non-empty component ends -/
theorem us_long_eq {u : PsipURI} (h : USWf u) :
    u.long = (⟨u.scheme.offs, usLongEnd u - u.scheme.offs⟩, false) := by
  have hlim := h.lim
  unfold PsipURI.long usLongEnd
  by_cases c1 : u.headers.len > 0
  · rw [if_pos c1, if_pos c1, h.setFrom _ (by simp [ulComps]) c1]
  rw [if_neg c1, if_neg c1]
  by_cases c2 : u.params.len > 0
  · rw [if_pos c2, if_pos c2, h.setFrom _ (by simp [ulComps]) c2]
  rw [if_neg c2, if_neg c2]
  by_cases c3 : u.port.len > 0
  · rw [if_pos c3, if_pos c3, h.setFrom _ (by simp [ulComps]) c3]
  rw [if_neg c3, if_neg c3]
  by_cases c4 : u.host.len > 0
  · rw [if_pos c4, if_pos c4, h.setFrom _ (by simp [ulComps]) c4]
  rw [if_neg c4, if_neg c4]
  obtain ⟨_, hu, hp⟩ := h.nohost c4
  have bu := h.nonempty u.user (by simp [ulComps]) hu
  by_cases c5 : u.pass.len > 0
  · have bp := h.nonempty u.pass (by simp [ulComps]) c5
    have hlt := hp c5
    have e1 : u.user.endT = u.user.offs + u.user.len := trunc16_of_lt (by omega)
    have e2 : u.pass.endT = u.pass.offs + u.pass.len := trunc16_of_lt (by omega)
    have hc : (decide (u.user.len > 0) && decide (u.user.endT > u.pass.endT)) = true := by
      rw [e1, e2]
      simp only [Bool.and_eq_true, decide_eq_true_eq]
      exact ⟨hu, by omega⟩
    rw [if_pos c5, if_pos hc, h.setFrom _ (by simp [ulComps]) hu]
  · rw [if_neg c5, if_pos hu, h.setFrom _ (by simp [ulComps]) hu]

/-- **Short() in closed form**: no panic; it starts at the scheme and ends at the port (if not empty, else at the host) -/
theorem us_short_eq {u : PsipURI} (h : USWf u) :
    u.short = (⟨u.scheme.offs, usShortEnd u - u.scheme.offs⟩, false) := by
  unfold PsipURI.short usShortEnd
  by_cases c3 : u.port.len > 0
  · rw [if_pos c3, if_pos c3, h.setFrom _ (by simp [ulComps]) c3]
  rw [if_neg c3, if_neg c3]
  by_cases c4 : u.host.len > 0
  · rw [if_pos c4, if_pos c4, h.setFrom _ (by simp [ulComps]) c4]
  rw [if_neg c4, if_neg c4]
  obtain ⟨_, hu, _⟩ := h.nohost c4
  rw [if_pos hu, h.setFrom _ (by simp [ulComps]) hu]

/-- the order of the ends: scheme < Short ≤ Long ≤ the computed length -/
theorem us_ends {u : PsipURI} (h : USWf u) :
    u.scheme.offs + u.scheme.len < usShortEnd u ∧ usShortEnd u ≤ usLongEnd u ∧
    usLongEnd u ≤ u.scheme.offs + ulLen u := by
  obtain ⟨hk, hc, a, b, q1, q2, q3, q4, q5, q6, hab, s1, s2, s3, s4, s5, s6, hl, hq⟩ := h.facts
  have m1 := us_step_mono s1
  have m2 := us_step_mono s2
  have m3 := us_step_mono s3
  have m4 := us_step_mono s4
  have m5 := us_step_mono s5
  have m6 := us_step_mono s6
  have n4 : 0 < u.port.len → q4 = u.port.offs + u.port.len := by unfold usStepP at s4; omega
  have n5 : 0 < u.params.len → q5 = u.params.offs + u.params.len := by unfold usStepP at s5; omega
  have n6 : 0 < u.headers.len → q6 = u.headers.offs + u.headers.len := by unfold usStepP at s6; omega
  have n3 : 0 < u.host.len → q3 = u.host.offs + u.host.len ∧ q2 ≤ u.host.offs := by unfold usStepP at s3; omega
  have n2 : ¬ 0 < u.host.len → q2 = u.user.offs + u.user.len ∧ q1 ≤ u.user.offs ∧ 0 < u.user.len ∧ q3 = q2 := by
    intro hh
    rcases hc with hc | ⟨hc1, hc2⟩
    · exact absurd hc hh
    · rcases hab with ⟨_, rfl, rfl⟩ | ⟨hz, _, _⟩
      · unfold usStepP at s2 s3; omega
      · exact absurd hc1 hz
  unfold usShortEnd usLongEnd
  refine ⟨?_, ?_, ?_⟩
  · repeat' split
    all_goals omega
  · repeat' split
    all_goals omega
  · repeat' split
    all_goals omega

/-! ## the operations and their interpreter -/

/-- the calls a user of a parsed URI can make -/
inductive USOp where
  /-- `u.Truncate()` -/
  | truncate
  /-- `u.AdjustOffs(np)` -/
  | adjust (np : PField)
  /-- `u.Long()` -/
  | long
  /-- `u.Short()` -/
  | short
  /-- `u.Flat(buf)` -/
  | flat (b : Buf)

/-- what the caller owes for a call on the URI `u`: the span given to AdjustOffs is made of 16-bit numbers (it is a
    `PField`), and the buffer given to Flat is long enough for the span that Long() reports -/
def usPre (u : PsipURI) : USOp → Prop
  | .adjust np => usSpan np
  | .flat b => u.long.1.offs + u.long.1.len ≤ b.size
  | _ => True

/-- one call: (the structure afterwards, did the call panic) -/
def usExec (u : PsipURI) : USOp → PsipURI × Bool
  | .truncate => (u.truncate, false)
  | .adjust np => ((u.adjustOffs np).2.1, (u.adjustOffs np).2.2)
  | .long => (u, u.long.2)
  | .short => (u, u.short.2)
  | .flat b => (u, (u.flat b).isNone)

/-- a sequence of calls, stopping at the first panic: (the structure at the end, did some call panic) -/
def usRun : PsipURI → List USOp → PsipURI × Bool
  | u, [] => (u, false)
  | u, op :: r => if (usExec u op).2 then ((usExec u op).1, true) else usRun (usExec u op).1 r

/-- the caller's obligations along the sequence, each one for the structure as it is at that moment -/
def usPreAll : PsipURI → List USOp → Prop
  | _, [] => True
  | u, op :: r => usPre u op ∧ usPreAll (usExec u op).1 r

end Sipsp
