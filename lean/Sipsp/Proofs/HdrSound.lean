/-
  Sipsp.Proofs.HdrSound — SOUNDNESS of ParseHdrLine / ParseHeaders with respect to the header grammar of
  `Sipsp.Proofs.HdrSpec` (the converse of `parseHdrLine_spec`, `parseHeaders_block`): whatever the scanner accepts is a
  line / block of the grammar, and the reported header is the one the grammar denotes. Generic treatment: no values
  object, or header names that classify as a type without a dedicated value parser.
-/
import Sipsp.Proofs.HdrSpec

namespace Sipsp

/-! ### lexical layer: what the scanners skipped is what the grammar says -/

/-- an accepted line end is a line end of the grammar (CR LF, lone CR, lone LF) -/
theorem hs_skipCRLF_ok_eol {b : Buf} {i n crl : Nat} (h : skipCRLF b i = (n, crl, Err.ok)) :
    Eol b i n ∧ n = i + crl := by
  unfold skipCRLF at h
  cases h1 : b[i+1]? with
  | none =>
    rw [h1] at h; simp only at h
    split at h
    · split at h <;> cases h
    · cases h
  | some c1 =>
    rw [h1] at h; simp only at h
    cases h0 : b[i]? with
    | none => rw [h0] at h; cases h
    | some c0 =>
      rw [h0] at h; simp only at h
      by_cases h13 : c0 = 13
      · subst h13
        by_cases h10 : c1 = 10
        · subst h10
          simp only [beq_self_eq_true, ↓reduceIte] at h
          cases h
          exact ⟨Eol.crlf i h0 h1, rfl⟩
        · have e10 : (c1 == 10) = false := by simpa using h10
          simp only [beq_self_eq_true, ↓reduceIte, e10, Bool.false_eq_true] at h
          cases h
          exact ⟨Eol.cr i c1 h0 h1 h10, rfl⟩
      · have e13 : (c0 == 13) = false := by simpa using h13
        by_cases h10 : c0 = 10
        · subst h10
          simp only [e13, Bool.false_eq_true, ↓reduceIte, beq_self_eq_true] at h
          cases h
          exact ⟨Eol.lf i c1 h0 h1, rfl⟩
        · have e10 : (c0 == 10) = false := by simpa using h10
          simp only [e13, e10, Bool.false_eq_true, ↓reduceIte] at h
          cases h

/-- on a CR / LF byte the line-end scanner never answers "no CR" -/
theorem hs_skipCRLF_on_crlf {b : Buf} {i n crl : Nat} {e : Err} {c : UInt8} (h0 : b[i]? = some c)
    (hc : isCRLFch c = true) (h : skipCRLF b i = (n, crl, e)) : e = .ok ∨ e = .moreBytes := by
  have hc' : c = 13 ∨ c = 10 := by
    unfold isCRLFch at hc; simpa using hc
  unfold skipCRLF at h
  rw [h0] at h
  cases h1 : b[i+1]? with
  | none =>
    rw [h1] at h; simp only at h
    rcases hc' with rfl | rfl
    · simp at h; exact Or.inr h.2.2.symm
    · simp at h; exact Or.inr h.2.2.symm
  | some c1 =>
    rw [h1] at h; simp only at h
    rcases hc' with rfl | rfl
    · simp only [beq_self_eq_true, ↓reduceIte] at h
      split at h <;> (cases h; exact Or.inl rfl)
    · have : ((10 : UInt8) == 13) = false := by decide
      simp only [this, Bool.false_eq_true, ↓reduceIte, beq_self_eq_true] at h
      cases h; exact Or.inl rfl

/-- what `skipLWS` skipped before a value byte is linear white space of the grammar -/
theorem hs_skipLWS_ok_lws (b : Buf) (i flags : Nat) {n crl : Nat} (h : skipLWS b i flags = (n, crl, .ok)) :
    Lws b i n := by
  fun_induction skipLWS b i flags with
  | case1 i hb => cases h
  | case2 i c hb hws ih => exact Lws.ws i n c hb hws (ih h)
  | case3 i c hb hws hcr n' crl' hs hb2 hfl => cases h
  | case4 i c hb hws hcr n' crl' hs hb2 hfl => cases h
  | case5 i c hb hws hcr n' crl' hs c2 hb2 hws2 ih =>
    exact Lws.fold i n' n c2 (hs_skipCRLF_ok_eol hs).1 hb2 hws2 (ih h)
  | case6 i c hb hws hcr n' crl' hs c2 hb2 hws2 => cases h
  | case7 i c hb hws hcr n' crl' e' hne hs => cases h; exact (hne rfl).elim
  | case8 i c hb hws hcr => cases h; exact Lws.nil _

/-- "end of header": linear white space, then a line end whose next byte is present and is not SP / HT -/
theorem hs_skipLWS_eoh (b : Buf) (i flags : Nat) {n crl : Nat} (h : skipLWS b i flags = (n, crl, .eoh))
    (hf : hasFlag flags POptInputEndF = false) :
    Lws b i n ∧ Eol b n (n + crl) ∧ ∃ c2, b[n + crl]? = some c2 ∧ isWS c2 = false := by
  fun_induction skipLWS b i flags with
  | case1 i hb => cases h
  | case2 i c hb hws ih =>
    obtain ⟨h1, h2⟩ := ih h
    exact ⟨Lws.ws i n c hb hws h1, h2⟩
  | case3 i c hb hws hcr n' crl' hs hb2 hfl => rw [hf] at hfl; cases hfl
  | case4 i c hb hws hcr n' crl' hs hb2 hfl => cases h
  | case5 i c hb hws hcr n' crl' hs c2 hb2 hws2 ih =>
    obtain ⟨h1, h2⟩ := ih h
    exact ⟨Lws.fold i n' n c2 (hs_skipCRLF_ok_eol hs).1 hb2 hws2 h1, h2⟩
  | case6 i c hb hws hcr n' crl' hs c2 hb2 hws2 =>
    cases h
    obtain ⟨he, hn⟩ := hs_skipCRLF_ok_eol hs
    rw [← hn]
    exact ⟨Lws.nil _, he, c2, hb2, by simpa using hws2⟩
  | case7 i c hb hws hcr n' crl' e' hne hs =>
    cases h
    have := skipCRLF_verdicts hs
    simp at this
  | case8 i c hb hws hcr => cases h

/-- the only verdicts of `skipLWS`: a value byte follows, end of header, or the text is incomplete -/
theorem hs_skipLWS_verdicts (b : Buf) (i flags : Nat) {n crl : Nat} {e : Err} (h : skipLWS b i flags = (n, crl, e)) :
    e = .ok ∨ e = .eoh ∨ e = .moreBytes := by
  fun_induction skipLWS b i flags with
  | case1 i hb => cases h; exact Or.inr (Or.inr rfl)
  | case2 i c hb hws ih => exact ih h
  | case3 i c hb hws hcr n' crl' hs hb2 hfl => cases h; exact Or.inr (Or.inl rfl)
  | case4 i c hb hws hcr n' crl' hs hb2 hfl => cases h; exact Or.inr (Or.inr rfl)
  | case5 i c hb hws hcr n' crl' hs c2 hb2 hws2 ih => exact ih h
  | case6 i c hb hws hcr n' crl' hs c2 hb2 hws2 => cases h; exact Or.inr (Or.inl rfl)
  | case7 i c hb hws hcr n' crl' e' hne hs =>
    cases h
    rcases hs_skipCRLF_on_crlf hb hcr hs with h1 | h1
    · exact (hne h1).elim
    · exact Or.inr (Or.inr h1)
  | case8 i c hb hws hcr => cases h; exact Or.inl rfl

theorem hs_flag0 : hasFlag 0 POptInputEndF = false := by decide

/-- the bytes `skipTokenDelim` ran over are name bytes -/
theorem hs_skipTokenDelim_run (b : Buf) (i : Nat) : NameRun b i (skipTokenDelim b i 58) := by
  fun_induction skipTokenDelim b i 58 with
  | case1 i hb => intro k h1 h2; omega
  | case2 i c hb hl => intro k h1 h2; omega
  | case3 i c hb hl ih =>
    intro k h1 h2
    by_cases hk : k = i
    · subst hk
      refine ⟨c, hb, ?_, ?_⟩
      · simpa using (by simpa using hl : isLWSch c = false ∧ ¬ c = 58).1
      · exact (by simpa using hl : isLWSch c = false ∧ ¬ c = 58).2
    · exact ih k (by omega) h2

/-- the bytes `skipWS` ran over are spaces / tabs -/
theorem hs_skipWS_run (b : Buf) (i : Nat) : WsRun b i (skipWS b i) := by
  fun_induction skipWS b i with
  | case1 i hb => intro k h1 h2; omega
  | case2 i c hb hl ih =>
    intro k h1 h2
    by_cases hk : k = i
    · subst hk; exact ⟨c, hb, hl⟩
    · exact ih k (by omega) h2
  | case3 i c hb hl => intro k h1 h2; omega

/-- the bytes `skipToken` ran over are token bytes -/
theorem hs_skipToken_run (b : Buf) (i : Nat) : TokenRun b i (skipToken b i) := by
  fun_induction skipToken b i with
  | case1 i hb => intro k h1 h2; omega
  | case2 i c hb hl => intro k h1 h2; omega
  | case3 i c hb hl ih =>
    intro k h1 h2
    by_cases hk : k = i
    · subst hk; exact ⟨c, hb, by simpa using hl⟩
    · exact ih k (by omega) h2

end Sipsp
