/-
  Sipsp.Proofs.HdrSound — property C07, SOUNDNESS of ParseHdrLine / ParseHeaders with respect to the header grammar of
  `Sipsp.Proofs.HdrSpec` (`NameRun`, `WsRun`, `Lws`, `ValRun`, `Eol`, `HdrLineAt`, `EmptyLine`, `HdrBlock`): the
  converse of `parseHdrLine_spec` / `parseHeaders_block`. The grammar of HdrSpec did NOT have to be widened: the
  scanner accepts exactly its lines and blocks.

  Scope: ALL buffers of at most 65,535 bytes, ALL offsets, a new header object / a list object in the state of a new
  or reset one (any capacity), generic treatment: no values object (`hb = none`), or a values object and a name — the
  text from the line start up to the first SP / HT / CR / LF / colon, `skipTokenDelim b o 58` — that classifies as a
  type without a dedicated value parser (`IsOther`); for blocks `HsGeneric`: no values object, or no position that is
  the start offset or follows a CR / LF carries such a typed name.

  Proved (no holes):
  * lexical converses: `hs_skipCRLF_ok_eol`, `hs_skipLWS_ok_lws`, `hs_skipLWS_eoh`, `hs_skipLWS_verdicts`,
    `hs_skipTokenDelim_run`, `hs_skipWS_run`, `hs_skipToken_run` (what the scanners skip is what the grammar says).
  * `hs_val_cases`, `hs_body_cases`, `hs_hlName_cases`, `hs_nameEnd_cases`: every outcome of the value loop, of the
    part after the colon, of the name states.
  * `hs_parseHdrLine_cases` (`HsLineOut`): EVERY outcome of ParseHdrLine — OK and a line of the grammar whose denoted
    header is the one reported (values object untouched); "empty" and the empty line; "more bytes"; "bad character".
  * (1) `hs_line_sound`, `hs_line_sound_explicit` (positions n, c, v, ve, p spelled out; the byte at the returned offset
    exists and is not SP / HT), `hs_line_empty`, `hs_line_verdicts`, `hs_line_ok_iff`, `hs_line_empty_iff`,
    `hs_line_reject`, `hs_lineAt_type`, `hs_lineAt_unique`, `hs_emptyLine_unique`, `hs_line_not_empty`.
  * (2) `hs_block_cases`, `hs_block_sound` (OK / "empty" ⇒ `[o, e)` is a `HdrBlock` and the list object is
    `acceptAll` of its headers), `hs_block_verdicts`, `hs_block_report` (count = number of lines, stored headers = the
    first `k` lines in order, type flags, first-of-type table), `hs_block_unique`.
  * (3) `hs_block_ok_iff`, `hs_block_accepts_iff`, `hs_block_empty_iff`: ParseHeaders accepts iff the text is a block
    of the grammar.
  * resumed calls, one suspension, no values object: `hs_line_resumed_sound`, `hs_block_resumed_sound` (through
    `parseHdrLine_resume` / `parseHeaders_resume`).
  * ANY values object (typed lines included): `hs_afterColon_all`, `hs_line_loop_all` (`HsTypedOut`),
    `hs_line_name_type_sound` (every accepted line: non-empty name, spaces / tabs, colon; reported name = that text,
    reported type = its classification, header finished), `hs_line_sound_reported` (generic hypothesis phrased on the
    REPORTED type), `hs_line_empty_all`, `hs_block_names_all` / `hs_block_all_report` (`HsChain`: ParseHeaders reports
    one header per accepted line, in order, names and types right; count / stored / flags / first-of-type).

  NOT proved here: the VALUE part of the eight typed header kinds when a values object is supplied (their value
  parsers decide where the line ends and what `Val` is; `Sipsp.Proofs.HdrTyped` has the completeness side), hence no
  iff for blocks containing typed lines; resumed calls with more than one suspension or with a values object; buffers
  above 65,535 bytes (offsets are 16-bit in the header object).
-/
import Sipsp.Proofs.HdrSpec

namespace Sipsp

/-! ### lexical layer: what the scanners skipped is what the grammar says -/

/-- an accepted line end is a line end of the grammar (CR LF, lone CR, lone LF) -/
theorem hs_skipCRLF_ok_eol {b : Buf} {i n crl : Nat} (h : skipCRLF b i = (n, crl, Err.ok)) :
    Eol b i n ∧ n = i + crl := by
  unfold skipCRLF at h
  cases h1 : b[i+1]? with
  | none =>
    rw [h1] at h; simp only at h
    split at h
    · split at h <;> cases h
    · cases h
  | some c1 =>
    rw [h1] at h; simp only at h
    cases h0 : b[i]? with
    | none => rw [h0] at h; cases h
    | some c0 =>
      rw [h0] at h; simp only at h
      by_cases h13 : c0 = 13
      · subst h13
        by_cases h10 : c1 = 10
        · subst h10
          simp only [beq_self_eq_true, ↓reduceIte] at h
          cases h
          exact ⟨Eol.crlf i h0 h1, rfl⟩
        · have e10 : (c1 == 10) = false := by simpa using h10
          simp only [beq_self_eq_true, ↓reduceIte, e10, Bool.false_eq_true] at h
          cases h
          exact ⟨Eol.cr i c1 h0 h1 h10, rfl⟩
      · have e13 : (c0 == 13) = false := by simpa using h13
        by_cases h10 : c0 = 10
        · subst h10
          simp only [e13, Bool.false_eq_true, ↓reduceIte, beq_self_eq_true] at h
          cases h
          exact ⟨Eol.lf i c1 h0 h1, rfl⟩
        · have e10 : (c0 == 10) = false := by simpa using h10
          simp only [e13, e10, Bool.false_eq_true, ↓reduceIte] at h
          cases h

/-- on a CR / LF byte the line-end scanner never answers "no CR" -/
theorem hs_skipCRLF_on_crlf {b : Buf} {i n crl : Nat} {e : Err} {c : UInt8} (h0 : b[i]? = some c)
    (hc : isCRLFch c = true) (h : skipCRLF b i = (n, crl, e)) : e = .ok ∨ e = .moreBytes := by
  have hc' : c = 13 ∨ c = 10 := by
    unfold isCRLFch at hc; simpa using hc
  unfold skipCRLF at h
  rw [h0] at h
  cases h1 : b[i+1]? with
  | none =>
    rw [h1] at h; simp only at h
    rcases hc' with rfl | rfl
    · simp at h; exact Or.inr h.2.2.symm
    · simp at h; exact Or.inr h.2.2.symm
  | some c1 =>
    rw [h1] at h; simp only at h
    rcases hc' with rfl | rfl
    · simp only [beq_self_eq_true, ↓reduceIte] at h
      split at h <;> (cases h; exact Or.inl rfl)
    · have : ((10 : UInt8) == 13) = false := by decide
      simp only [this, Bool.false_eq_true, ↓reduceIte, beq_self_eq_true] at h
      cases h; exact Or.inl rfl

/-- what `skipLWS` skipped before a value byte is linear white space of the grammar -/
theorem hs_skipLWS_ok_lws (b : Buf) (i flags : Nat) {n crl : Nat} (h : skipLWS b i flags = (n, crl, .ok)) :
    Lws b i n := by
  fun_induction skipLWS b i flags with
  | case1 i hb => cases h
  | case2 i c hb hws ih => exact Lws.ws i n c hb hws (ih h)
  | case3 i c hb hws hcr n' crl' hs hb2 hfl => cases h
  | case4 i c hb hws hcr n' crl' hs hb2 hfl => cases h
  | case5 i c hb hws hcr n' crl' hs c2 hb2 hws2 ih =>
    exact Lws.fold i n' n c2 (hs_skipCRLF_ok_eol hs).1 hb2 hws2 (ih h)
  | case6 i c hb hws hcr n' crl' hs c2 hb2 hws2 => cases h
  | case7 i c hb hws hcr n' crl' e' hne hs => cases h; exact (hne rfl).elim
  | case8 i c hb hws hcr => cases h; exact Lws.nil _

/-- "end of header": linear white space, then a line end whose next byte is present and is not SP / HT -/
theorem hs_skipLWS_eoh (b : Buf) (i flags : Nat) {n crl : Nat} (h : skipLWS b i flags = (n, crl, .eoh))
    (hf : hasFlag flags POptInputEndF = false) :
    Lws b i n ∧ Eol b n (n + crl) ∧ ∃ c2, b[n + crl]? = some c2 ∧ isWS c2 = false := by
  fun_induction skipLWS b i flags with
  | case1 i hb => cases h
  | case2 i c hb hws ih =>
    obtain ⟨h1, h2⟩ := ih h
    exact ⟨Lws.ws i n c hb hws h1, h2⟩
  | case3 i c hb hws hcr n' crl' hs hb2 hfl => rw [hf] at hfl; cases hfl
  | case4 i c hb hws hcr n' crl' hs hb2 hfl => cases h
  | case5 i c hb hws hcr n' crl' hs c2 hb2 hws2 ih =>
    obtain ⟨h1, h2⟩ := ih h
    exact ⟨Lws.fold i n' n c2 (hs_skipCRLF_ok_eol hs).1 hb2 hws2 h1, h2⟩
  | case6 i c hb hws hcr n' crl' hs c2 hb2 hws2 =>
    cases h
    obtain ⟨he, hn⟩ := hs_skipCRLF_ok_eol hs
    rw [← hn]
    exact ⟨Lws.nil _, he, c2, hb2, by simpa using hws2⟩
  | case7 i c hb hws hcr n' crl' e' hne hs =>
    cases h
    have := skipCRLF_verdicts hs
    simp at this
  | case8 i c hb hws hcr => cases h

/-- the only verdicts of `skipLWS`: a value byte follows, end of header, or the text is incomplete -/
theorem hs_skipLWS_verdicts (b : Buf) (i flags : Nat) {n crl : Nat} {e : Err} (h : skipLWS b i flags = (n, crl, e)) :
    e = .ok ∨ e = .eoh ∨ e = .moreBytes := by
  fun_induction skipLWS b i flags with
  | case1 i hb => cases h; exact Or.inr (Or.inr rfl)
  | case2 i c hb hws ih => exact ih h
  | case3 i c hb hws hcr n' crl' hs hb2 hfl => cases h; exact Or.inr (Or.inl rfl)
  | case4 i c hb hws hcr n' crl' hs hb2 hfl => cases h; exact Or.inr (Or.inr rfl)
  | case5 i c hb hws hcr n' crl' hs c2 hb2 hws2 ih => exact ih h
  | case6 i c hb hws hcr n' crl' hs c2 hb2 hws2 => cases h; exact Or.inr (Or.inl rfl)
  | case7 i c hb hws hcr n' crl' e' hne hs =>
    cases h
    rcases hs_skipCRLF_on_crlf hb hcr hs with h1 | h1
    · exact (hne h1).elim
    · exact Or.inr (Or.inr h1)
  | case8 i c hb hws hcr => cases h; exact Or.inl rfl

theorem hs_flag0 : hasFlag 0 POptInputEndF = false := by decide

/-- the bytes `skipTokenDelim` ran over are name bytes -/
theorem hs_skipTokenDelim_run (b : Buf) (i : Nat) : NameRun b i (skipTokenDelim b i 58) := by
  fun_induction skipTokenDelim b i 58 with
  | case1 i hb => intro k h1 h2; omega
  | case2 i c hb hl => intro k h1 h2; omega
  | case3 i c hb hl ih =>
    intro k h1 h2
    by_cases hk : k = i
    · subst hk
      refine ⟨c, hb, ?_, ?_⟩
      · simpa using (by simpa using hl : isLWSch c = false ∧ ¬ c = 58).1
      · exact (by simpa using hl : isLWSch c = false ∧ ¬ c = 58).2
    · exact ih k (by omega) h2

/-- the bytes `skipWS` ran over are spaces / tabs -/
theorem hs_skipWS_run (b : Buf) (i : Nat) : WsRun b i (skipWS b i) := by
  fun_induction skipWS b i with
  | case1 i hb => intro k h1 h2; omega
  | case2 i c hb hl ih =>
    intro k h1 h2
    by_cases hk : k = i
    · subst hk; exact ⟨c, hb, hl⟩
    · exact ih k (by omega) h2
  | case3 i c hb hl => intro k h1 h2; omega

/-- the bytes `skipToken` ran over are token bytes -/
theorem hs_skipToken_run (b : Buf) (i : Nat) : TokenRun b i (skipToken b i) := by
  fun_induction skipToken b i with
  | case1 i hb => intro k h1 h2; omega
  | case2 i c hb hl => intro k h1 h2; omega
  | case3 i c hb hl ih =>
    intro k h1 h2
    by_cases hk : k = i
    · subst hk; exact ⟨c, hb, by simpa using hl⟩
    · exact ih k (by omega) h2

/-! ### the value loop -/

theorem hs_hlValEnd_ok {b : Buf} {i n crl : Nat} (h : Hdr) (hb : Option PHdrVals)
    (hs : skipLWS b i 0 = (n, crl, .ok)) : hlValEnd b i h hb = .cont (n + 1) ({ h with state := .val }, hb) := by
  unfold hlValEnd; rw [hs]

theorem hs_hlValEnd_eoh {b : Buf} {i n crl : Nat} (h : Hdr) (hb : Option PHdrVals)
    (hs : skipLWS b i 0 = (n, crl, .eoh)) : hlValEnd b i h hb = .done (n + crl) .ok ({ h with state := .fin }, hb) := by
  unfold hlValEnd; rw [hs]

theorem hs_hlValEnd_more {b : Buf} {i n crl : Nat} (h : Hdr) (hb : Option PHdrVals)
    (hs : skipLWS b i 0 = (n, crl, .moreBytes)) : hlValEnd b i h hb = .done n .moreBytes (h, hb) := by
  unfold hlValEnd; rw [hs]

/-- **the value loop, every outcome**: in state `hVal` just after a value byte at `v`, the loop either finishes with
    OK — then the text from `v` is a value of the grammar (tokens separated by linear white space), ended by a line
    end whose next byte is not SP / HT, and the value field is extended to the end of the last token — or it asks
    for more bytes. There is no other verdict. -/
theorem hs_val_cases (b : Buf) (hb : Option PHdrVals) (hfit : b.size ≤ 65535) :
    ∀ (k v : Nat) (h : Hdr) (cv : UInt8), b.size - v = k → h.state = .val → h.val.offs ≤ v → h.pnc = false →
      b[v]? = some cv → isLWSch cv = false →
      (∃ e ve p, ∃ c2 : UInt8, ValRun b v ve p ∧ Eol b p e ∧ b[e]? = some c2 ∧ isWS c2 = false ∧
        runLoop hlMachine b (v + 1) (h, hb) =
          (e, .ok, ({ h with val := ⟨h.val.offs, ve - h.val.offs⟩, state := .fin }, hb))) ∨
      (∃ e st, runLoop hlMachine b (v + 1) (h, hb) = (e, .moreBytes, st)) := by
  intro k
  induction k using Nat.strongRecOn with
  | _ k ih =>
    intro v h cv hk hst hvo hp hv hcv
    have hvl := get?_lt hv
    cases hv1 : b[v + 1]? with
    | none => exact Or.inr ⟨_, _, runLoop_none hlMachine _ hv1⟩
    | some c1 =>
      have hge := skipToken_ge b (v + 1)
      cases hj : b[skipToken b (v + 1)]? with
      | none =>
        refine Or.inr ⟨skipToken b (v + 1), (h, hb), runLoop_done hlMachine hv1 ?_⟩
        show hlStep b (v + 1) c1 (h, hb) = _
        unfold hlStep
        simp only [hst, hj]
      | some cj =>
        have hcj := skipToken_stop b (v + 1) cj hj
        have ht : TokenRun b v (skipToken b (v + 1)) := by
          intro k' h1 h2
          by_cases hk' : k' = v
          · subst hk'; exact ⟨cv, hv, hcv⟩
          · exact hs_skipToken_run b (v + 1) k' (by omega) h2
        obtain ⟨c, hc, hstep⟩ := hl_token b hb v _ ht (by omega) hj hcj h hst hvo hp hfit
        rw [hv1] at hc; cases hc
        rcases hq : skipLWS b (skipToken b (v + 1)) 0 with ⟨n, crl, er⟩
        have hr := skipLWS_range b _ 0 hq
        rcases hs_skipLWS_verdicts b _ 0 hq with rfl | rfl | rfl
        · -- another token follows
          have hcont := hstep.trans (hs_hlValEnd_ok _ hb hq)
          obtain ⟨_, c, hc, hcl⟩ := skipLWS_ok b _ 0 hq
          have hjn := skipLWS_ok_gt b _ 0 hj hcj hq
          have hnl := get?_lt hc
          rw [runLoop_cont hlMachine hv1 (by exact hcont), if_pos (by omega)]
          rcases ih (b.size - n) (by omega) n
              { h with val := ⟨h.val.offs, skipToken b (v + 1) - h.val.offs⟩, state := .val } c rfl rfl
              (by show h.val.offs ≤ n; omega) hp hc hcl with
            ⟨e, ve, p, c2, H, he, h2, hw2, hrun⟩ | ⟨e, st, hrun⟩
          · refine Or.inl ⟨e, ve, p, c2, ?_, he, h2, hw2, ?_⟩
            · exact ValRun.cons v _ n ve p c ht (by omega) (hs_skipLWS_ok_lws b _ 0 hq) hjn hc hcl H
            · rw [hrun]
          · exact Or.inr ⟨e, st, hrun⟩
        · -- the line end
          obtain ⟨hl, he, c2, h2, hw2⟩ := hs_skipLWS_eoh b _ 0 hq hs_flag0
          refine Or.inl ⟨n + crl, _, n, c2, ValRun.last v _ n ht (by omega) hl, he, h2, hw2, ?_⟩
          exact runLoop_done hlMachine hv1 (hstep.trans (hs_hlValEnd_eoh _ hb hq))
        · exact Or.inr ⟨n, _, runLoop_done hlMachine hv1 (hstep.trans (hs_hlValEnd_more _ hb hq))⟩

/-! ### after the colon -/

/-- **after the colon, every outcome** (state `hBodyStart` at `i`, value not yet started): OK with a value, OK with
    an empty value (only linear white space up to the line end; `Val` stays unset), or more bytes wanted -/
theorem hs_body_cases (b : Buf) (hb : Option PHdrVals) (hfit : b.size ≤ 65535) (t o n i : Nat) :
    (∃ e v ve p, ∃ c2 : UInt8, Lws b i v ∧ ValRun b v ve p ∧ Eol b p e ∧ b[e]? = some c2 ∧ isWS c2 = false ∧
      runLoop hlMachine b i (hdrAt t o n {} .bodyStart, hb) = (e, .ok, (hdrAt t o n ⟨v, ve - v⟩ .fin, hb))) ∨
    (∃ e p, ∃ c2 : UInt8, Lws b i p ∧ Eol b p e ∧ b[e]? = some c2 ∧ isWS c2 = false ∧
      runLoop hlMachine b i (hdrAt t o n {} .bodyStart, hb) = (e, .ok, (hdrAt t o n {} .fin, hb))) ∨
    (∃ e st, runLoop hlMachine b i (hdrAt t o n {} .bodyStart, hb) = (e, .moreBytes, st)) := by
  cases hi : b[i]? with
  | none => exact Or.inr (Or.inr ⟨_, _, runLoop_none hlMachine _ hi⟩)
  | some x =>
    rcases hq : skipLWS b i 0 with ⟨v, crl, er⟩
    have hr := skipLWS_range b i 0 hq
    rcases hs_skipLWS_verdicts b i 0 hq with rfl | rfl | rfl
    · -- a value starts at `v`
      obtain ⟨_, c, hc, hcl⟩ := skipLWS_ok b i 0 hq
      have hvl := get?_lt hc
      have hstep : hlStep b i x (hdrAt t o n {} .bodyStart, hb) =
          .cont (v + 1) (hdrAt t o n (PField.set v v) .val, hb) := by
        unfold hlStep hdrAt
        simp only
        rw [hq]
      have hoffs : (PField.set v v).offs = v := by unfold PField.set; exact trunc16_id (by omega)
      rw [runLoop_cont hlMachine hi (by exact hstep), if_pos (by omega)]
      rcases hs_val_cases b hb hfit (b.size - v) v (hdrAt t o n (PField.set v v) .val) c rfl rfl
          (by show (PField.set v v).offs ≤ v; omega) rfl hc hcl with
        ⟨e, ve, p, c2, H, he, h2, hw2, hrun⟩ | ⟨e, st, hrun⟩
      · refine Or.inl ⟨e, v, ve, p, c2, hs_skipLWS_ok_lws b i 0 hq, H, he, h2, hw2, ?_⟩
        rw [hrun]
        show (e, Err.ok, hdrAt t o n ⟨(PField.set v v).offs, ve - (PField.set v v).offs⟩ .fin, hb) = _
        rw [hoffs]
      · exact Or.inr (Or.inr ⟨e, st, hrun⟩)
    · -- the line end: empty value
      obtain ⟨hl, he, c2, h2, hw2⟩ := hs_skipLWS_eoh b i 0 hq hs_flag0
      refine Or.inr (Or.inl ⟨v + crl, v, c2, hl, he, h2, hw2, runLoop_done hlMachine hi ?_⟩)
      show hlStep b i x (hdrAt t o n {} .bodyStart, hb) = _
      unfold hlStep hdrAt
      simp only
      rw [hq]
    · refine Or.inr (Or.inr ⟨v, (hdrAt t o n {} .bodyStart, hb), runLoop_done hlMachine hi ?_⟩)
      show hlStep b i x (hdrAt t o n {} .bodyStart, hb) = .done v .moreBytes (hdrAt t o n {} .bodyStart, hb)
      unfold hlStep hdrAt
      simp only
      rw [hq]

/-- every outcome of ParseHdrLine on a new header object (generic treatment), by verdict -/
def HsLineOut (b : Buf) (o : Nat) (hb : Option PHdrVals) (e : Nat) (er : Err) (h : Hdr) (hb' : Option PHdrVals) :
    Prop :=
  (er = .ok ∧ HdrLineAt b o e h ∧ hb' = hb) ∨
  (er = .empty ∧ EmptyLine b o e ∧ h = { state := .fin } ∧ hb' = hb) ∨
  er = .moreBytes ∨
  er = .badChar

/-- the same on the result triple of the loop driver -/
def HsOutR (b : Buf) (o : Nat) (hb : Option PHdrVals) (r : Nat × Err × HLσ) : Prop :=
  HsLineOut b o hb r.1 r.2.1 r.2.2.1 r.2.2.2

/-- from the byte after the colon to the verdict, name and colon already recognised -/
theorem hs_after_colon (b : Buf) (hb : Option PHdrVals) (hfit : b.size ≤ 65535) (o n c : Nat)
    (hname : NameRun b o n) (hon : o < n) (hws : WsRun b n c) (hnc : n ≤ c) (hcolon : b[c]? = some 58) :
    HsOutR b o hb (runLoop hlMachine b (c + 1) (hdrAt (getHdrType (b.extract o n)) o n {} .bodyStart, hb)) := by
  rcases hs_body_cases b hb hfit (getHdrType (b.extract o n)) o n (c + 1) with
    ⟨e, v, ve, p, c2, hl, H, he, h2, hw2, hrun⟩ | ⟨e, p, c2, hl, he, h2, hw2, hrun⟩ | ⟨e, st, hrun⟩
  · rw [hrun]
    exact Or.inl ⟨rfl, Or.inl ⟨n, c, v, ve, p, c2, hname, hon, hws, hnc, hcolon, hl, H, he, h2, hw2, rfl⟩, rfl⟩
  · rw [hrun]
    exact Or.inl ⟨rfl, Or.inr ⟨n, c, p, c2, hname, hon, hws, hnc, hcolon, hl, he, h2, hw2, rfl⟩, rfl⟩
  · rw [hrun]
    exact Or.inr (Or.inr (Or.inl rfl))

/-! ### the name -/

/-- `case hName:` at the first byte of a line, every outcome, ANY values object: an error / more bytes, white space
    after a non-empty name, or the colon right after a non-empty name (then the code after the colon runs) -/
theorem hs_hlName_all (b : Buf) (o : Nat) (hb : Option PHdrVals) (hfit : b.size ≤ 65535) :
    (∃ e er st, hlName b o { state := .name, name := PField.set o o } hb = .done e er st ∧
      (er = .moreBytes ∨ er = .badChar)) ∨
    (∃ cn, o < skipTokenDelim b o 58 ∧ b[skipTokenDelim b o 58]? = some cn ∧ isWS cn = true ∧
      hlName b o { state := .name, name := PField.set o o } hb =
        .cont (skipTokenDelim b o 58 + 1) (hdrAt 0 o (skipTokenDelim b o 58) {} .nameEnd, hb)) ∨
    (o < skipTokenDelim b o 58 ∧ b[skipTokenDelim b o 58]? = some 58 ∧
      hlName b o { state := .name, name := PField.set o o } hb =
        hlAfterColon b (skipTokenDelim b o 58 + 1) (hdrAt 0 o (skipTokenDelim b o 58) {} .bodyStart) hb) := by
  have hge := skipTokenDelim_ge b o 58
  unfold hlName
  generalize skipTokenDelim b o 58 = n at *
  dsimp only
  cases hcn : b[n]? with
  | none => exact Or.inl ⟨_, _, _, rfl, Or.inl rfl⟩
  | some cn =>
    have hnl := get?_lt hcn
    have hnm : (PField.set o o).extend n = ⟨o, n - o⟩ := set_extend o n hge (by omega)
    have hxp : (PField.set o o).extendPanics n = false := set_extendPanics o n hge (by omega)
    by_cases hon : o < n
    · have hne : (({ offs := o, len := n - o } : PField).isEmpty) = false := by
        unfold PField.isEmpty; simp; omega
      by_cases hw : isWS cn = true
      · refine Or.inr (Or.inl ⟨cn, hon, rfl, hw, ?_⟩)
        simp only [hw, ↓reduceIte, hnm, hxp, hne, Bool.false_eq_true, Bool.or_self]
        rfl
      · have hw' : isWS cn = false := by simpa using hw
        by_cases h58 : cn = 58
        · subst h58
          refine Or.inr (Or.inr ⟨hon, rfl, ?_⟩)
          simp only [hw', beq_self_eq_true, ↓reduceIte, hnm, hxp, hne, Bool.false_eq_true, Bool.or_self]
          rfl
        · have e58 : (cn == 58) = false := by simpa using h58
          simp only [hw', e58, Bool.false_eq_true, ↓reduceIte]
          exact Or.inl ⟨_, _, _, rfl, Or.inr rfl⟩
    · have : n = o := by omega
      subst this
      have hem : (({ offs := n, len := n - n } : PField).isEmpty) = true := by
        unfold PField.isEmpty; simp
      by_cases hw : isWS cn = true
      · simp only [hw, ↓reduceIte, hnm, hem]
        exact Or.inl ⟨_, _, _, rfl, Or.inr rfl⟩
      · have hw' : isWS cn = false := by simpa using hw
        by_cases h58 : cn = 58
        · subst h58
          simp only [hw', beq_self_eq_true, ↓reduceIte, hnm, hem, Bool.false_eq_true]
          exact Or.inl ⟨_, _, _, rfl, Or.inr rfl⟩
        · have e58 : (cn == 58) = false := by simpa using h58
          simp only [hw', e58, Bool.false_eq_true, ↓reduceIte]
          exact Or.inl ⟨_, _, _, rfl, Or.inr rfl⟩

/-- … and in the generic treatment the code after the colon classifies the name and hands over to the value scanner -/
theorem hs_hlName_cases (b : Buf) (o : Nat) (hb : Option PHdrVals) (hfit : b.size ≤ 65535)
    (hg : hb = none ∨ IsOther (getHdrType (b.extract o (skipTokenDelim b o 58)))) :
    (∃ e er st, hlName b o { state := .name, name := PField.set o o } hb = .done e er st ∧
      (er = .moreBytes ∨ er = .badChar)) ∨
    (∃ cn, o < skipTokenDelim b o 58 ∧ b[skipTokenDelim b o 58]? = some cn ∧ isWS cn = true ∧
      hlName b o { state := .name, name := PField.set o o } hb =
        .cont (skipTokenDelim b o 58 + 1) (hdrAt 0 o (skipTokenDelim b o 58) {} .nameEnd, hb)) ∨
    (o < skipTokenDelim b o 58 ∧ b[skipTokenDelim b o 58]? = some 58 ∧
      hlName b o { state := .name, name := PField.set o o } hb =
        .cont (skipTokenDelim b o 58 + 1)
          (hdrAt (getHdrType (b.extract o (skipTokenDelim b o 58))) o (skipTokenDelim b o 58) {} .bodyStart, hb)) := by
  rcases hs_hlName_all b o hb hfit with h1 | h1 | ⟨hon, hcn, hc⟩
  · exact Or.inl h1
  · exact Or.inr (Or.inl h1)
  · have hnl := get?_lt hcn
    exact Or.inr (Or.inr ⟨hon, hcn, hc.trans (hlAfterColon_spec b o _ _ hb hon (by omega) hfit hg)⟩)

/-- `case hNameEnd:` (white space between the name and the colon), every outcome, ANY values object -/
theorem hs_nameEnd_all (b : Buf) (o n i : Nat) (y : UInt8) (hb : Option PHdrVals) :
    (∃ e er st, hlStep b i y (hdrAt 0 o n {} .nameEnd, hb) = .done e er st ∧ (er = .moreBytes ∨ er = .badChar)) ∨
    (b[skipWS b i]? = some 58 ∧
      hlStep b i y (hdrAt 0 o n {} .nameEnd, hb) =
        hlAfterColon b (skipWS b i + 1) (hdrAt 0 o n {} .bodyStart) hb) := by
  unfold hdrAt
  unfold hlStep
  dsimp only
  generalize skipWS b i = j
  cases hj : b[j]? with
  | none => exact Or.inl ⟨_, _, _, rfl, Or.inl rfl⟩
  | some c1 =>
    by_cases h58 : c1 = 58
    · subst h58
      simp only [beq_self_eq_true, ↓reduceIte]
      exact Or.inr ⟨trivial, trivial⟩
    · have e58 : (c1 == 58) = false := by simpa using h58
      simp only [e58, Bool.false_eq_true, ↓reduceIte]
      exact Or.inl ⟨_, _, _, rfl, Or.inr rfl⟩

/-- `case hNameEnd:`, generic treatment -/
theorem hs_nameEnd_cases (b : Buf) (o n i : Nat) (y : UInt8) (hb : Option PHdrVals) (hfit : b.size ≤ 65535)
    (hon : o < n) (hn : n ≤ b.size) (hg : hb = none ∨ IsOther (getHdrType (b.extract o n))) :
    (∃ e er st, hlStep b i y (hdrAt 0 o n {} .nameEnd, hb) = .done e er st ∧ (er = .moreBytes ∨ er = .badChar)) ∨
    (b[skipWS b i]? = some 58 ∧
      hlStep b i y (hdrAt 0 o n {} .nameEnd, hb) =
        .cont (skipWS b i + 1) (hdrAt (getHdrType (b.extract o n)) o n {} .bodyStart, hb)) := by
  rcases hs_nameEnd_all b o n i y hb with h1 | ⟨h1, h2⟩
  · exact Or.inl h1
  · exact Or.inr ⟨h1, h2.trans (hlAfterColon_spec b o n _ hb hon hn hfit hg)⟩

/-! ### the whole line -/

/-- the loop of ParseHdrLine on a new header object, every outcome -/
theorem hs_line_loop (b : Buf) (o : Nat) (hb : Option PHdrVals) (hfit : b.size ≤ 65535)
    (hg : hb = none ∨ IsOther (getHdrType (b.extract o (skipTokenDelim b o 58)))) :
    HsOutR b o hb (runLoop hlMachine b o (({} : Hdr), hb)) := by
  have more : ∀ e st, HsOutR b o hb (e, .moreBytes, st) := fun _ _ => Or.inr (Or.inr (Or.inl rfl))
  have mb : ∀ e er st, (er = .moreBytes ∨ er = .badChar) → HsOutR b o hb (e, er, st) := by
    intro e er st h
    rcases h with h | h
    · exact Or.inr (Or.inr (Or.inl h))
    · exact Or.inr (Or.inr (Or.inr h))
  cases h0 : b[o]? with
  | none => rw [runLoop_none hlMachine _ h0]; exact more _ _
  | some c0 =>
    by_cases h13 : c0 = 13
    · subst h13
      cases h1 : b[o + 1]? with
      | none =>
        rw [runLoop_done hlMachine h0 (o := o) (e := .moreBytes) (st' := (({} : Hdr), hb))
          (by show hlStep b o 13 (({} : Hdr), hb) = _; unfold hlStep; simp only [beq_self_eq_true, ↓reduceIte, h1])]
        exact more _ _
      | some c1 =>
        by_cases h10 : c1 = 10
        · subst h10
          rw [runLoop_done hlMachine h0 (o := o + 2) (e := .empty) (st' := ({ state := .fin }, hb))
            (by show hlStep b o 13 (({} : Hdr), hb) = _; unfold hlStep; simp only [beq_self_eq_true, ↓reduceIte, h1])]
          exact Or.inr (Or.inl ⟨rfl, EmptyLine.crlf o h0 h1, rfl, rfl⟩)
        · have e10 : (c1 == 10) = false := by simpa using h10
          rw [runLoop_done hlMachine h0 (o := o + 1) (e := .empty) (st' := ({ state := .fin }, hb))
            (by show hlStep b o 13 (({} : Hdr), hb) = _; unfold hlStep
                simp only [beq_self_eq_true, ↓reduceIte, h1, e10, Bool.false_eq_true])]
          exact Or.inr (Or.inl ⟨rfl, EmptyLine.cr o c1 h0 h1 h10, rfl, rfl⟩)
    · have e13 : (c0 == 13) = false := by simpa using h13
      by_cases h10 : c0 = 10
      · subst h10
        rw [runLoop_done hlMachine h0 (o := o + 1) (e := .empty) (st' := ({ state := .fin }, hb))
          (by show hlStep b o 10 (({} : Hdr), hb) = _; unfold hlStep
              simp only [e13, Bool.false_eq_true, ↓reduceIte, beq_self_eq_true])]
        exact Or.inr (Or.inl ⟨rfl, EmptyLine.lf o h0, rfl, rfl⟩)
      · have e10 : (c0 == 10) = false := by simpa using h10
        have hstep : hlStep b o c0 (({} : Hdr), hb) = hlName b o { state := .name, name := PField.set o o } hb := by
          unfold hlStep; simp only [e13, e10, Bool.false_eq_true, ↓reduceIte]
        rcases hs_hlName_cases b o hb hfit hg with ⟨e, er, st, hd, her⟩ | ⟨cn, hon, hcn, hw, hc⟩ | ⟨hon, hcn, hc⟩
        · rw [runLoop_done hlMachine h0 (by exact hstep.trans hd)]; exact mb _ _ _ her
        · -- white space after the name
          have hnl := get?_lt hcn
          rw [runLoop_cont hlMachine h0 (by exact hstep.trans hc), if_pos (by omega)]
          cases hy : b[skipTokenDelim b o 58 + 1]? with
          | none => rw [runLoop_none hlMachine _ hy]; exact more _ _
          | some y =>
            rcases hs_nameEnd_cases b o _ (skipTokenDelim b o 58 + 1) y hb hfit hon (by omega) hg with
              ⟨e, er, st, hd, her⟩ | ⟨hcol, hc2⟩
            · rw [runLoop_done hlMachine hy (by exact hd)]; exact mb _ _ _ her
            · have hge := skipWS_ge b (skipTokenDelim b o 58 + 1)
              rw [runLoop_cont hlMachine hy (by exact hc2), if_pos (by omega)]
              refine hs_after_colon b hb hfit o _ _ (hs_skipTokenDelim_run b o) hon ?_ (by omega) hcol
              intro k h1 h2
              by_cases hk : k = skipTokenDelim b o 58
              · subst hk; exact ⟨cn, hcn, hw⟩
              · exact hs_skipWS_run b (skipTokenDelim b o 58 + 1) k (by omega) h2
        · -- the colon right after the name
          rw [runLoop_cont hlMachine h0 (by exact hstep.trans hc), if_pos (by omega)]
          exact hs_after_colon b hb hfit o _ _ (hs_skipTokenDelim_run b o) hon (fun k h1 h2 => by omega)
            (Nat.le_refl _) hcn

/-- **ParseHdrLine, every outcome** (new header object; no values object, or the name — the text up to the first
    SP / HT / CR / LF / colon — classifies as a type without a dedicated value parser):
    * OK: the text `[o, e)` is a header line of the grammar and `h` is the header it denotes; one byte after the line
      end is present and is not SP / HT; the values object is untouched;
    * "empty": `[o, e)` is the empty line that ends a block (CR LF, CR + another byte, LF);
    * otherwise the verdict is "more bytes" or "bad character". -/
theorem hs_parseHdrLine_cases (b : Buf) (o : Nat) (hb : Option PHdrVals) (hfit : b.size ≤ 65535)
    (hg : hb = none ∨ IsOther (getHdrType (b.extract o (skipTokenDelim b o 58)))) :
    HsLineOut b o hb (parseHdrLine b o {} hb).1 (parseHdrLine b o {} hb).2.1 (parseHdrLine b o {} hb).2.2.1
      (parseHdrLine b o {} hb).2.2.2 :=
  hs_line_loop b o hb hfit hg

/-- the name of a line of the grammar ends where `skipTokenDelim` stops, so the reported type is the classification
    of the text up to the first SP / HT / CR / LF / colon -/
theorem hs_lineAt_type {b : Buf} {o e : Nat} {h : Hdr} (H : HdrLineAt b o e h) :
    h.type = getHdrType (b.extract o (skipTokenDelim b o 58)) ∧ h.name = ⟨o, skipTokenDelim b o 58 - o⟩ := by
  have key : ∀ n c, NameRun b o n → o < n → WsRun b n c → n ≤ c → b[c]? = some 58 → skipTokenDelim b o 58 = n := by
    intro n c hname hon hws hnc hcolon
    have hnend : ∃ cn, b[n]? = some cn ∧ (isLWSch cn = true ∨ cn = 58) := by
      by_cases h1 : n < c
      · obtain ⟨cn, hcn, hw⟩ := hws n (Nat.le_refl _) h1
        refine ⟨cn, hcn, Or.inl ?_⟩
        unfold isWS at hw; unfold isLWSch
        simp only [Bool.or_eq_true] at hw ⊢
        rcases hw with hw | hw
        · exact Or.inl (Or.inl (Or.inl hw))
        · exact Or.inl (Or.inl (Or.inr hw))
      · have : n = c := by omega
        exact ⟨58, by rw [this]; exact hcolon, Or.inr rfl⟩
    obtain ⟨cn, hcn, hstop⟩ := hnend
    exact skipTokenDelim_run b o n (by omega) hname hcn hstop
  rcases H with ⟨n, c, v, ve, p, c2, h1, h2, h3, h4, h5, _, _, _, _, _, rfl⟩ |
    ⟨n, c, p, c2, h1, h2, h3, h4, h5, _, _, _, _, rfl⟩
  · rw [key n c h1 h2 h3 h4 h5]; exact ⟨rfl, rfl⟩
  · rw [key n c h1 h2 h3 h4 h5]; exact ⟨rfl, rfl⟩

/-- **(1) soundness of an accepted line**: whatever ParseHdrLine accepts (OK) is a header line of the grammar, and the
    header reported is exactly the one the grammar denotes -/
theorem hs_line_sound (b : Buf) (o : Nat) (hb : Option PHdrVals) (hfit : b.size ≤ 65535)
    (hg : hb = none ∨ IsOther (getHdrType (b.extract o (skipTokenDelim b o 58))))
    {e : Nat} {h : Hdr} {hb' : Option PHdrVals} (hr : parseHdrLine b o {} hb = (e, .ok, h, hb')) :
    HdrLineAt b o e h ∧ hb' = hb := by
  have := hs_parseHdrLine_cases b o hb hfit hg
  rw [hr] at this
  rcases this with ⟨_, h1, h2⟩ | ⟨h1, _⟩ | h1 | h1
  · exact ⟨h1, h2⟩
  · cases h1
  · cases h1
  · cases h1

/-- the same with the positions spelled out: name `[o, n)` (non-empty), spaces / tabs up to the colon at `c`, linear
    white space, then either a value `[v, ve)` of tokens and linear white space or nothing, the line end at `p`, and
    a byte after the line end that is not SP / HT (the look-ahead that tells the end of the header from a fold) -/
theorem hs_line_sound_explicit (b : Buf) (o : Nat) (hb : Option PHdrVals) (hfit : b.size ≤ 65535)
    (hg : hb = none ∨ IsOther (getHdrType (b.extract o (skipTokenDelim b o 58))))
    {e : Nat} {h : Hdr} {hb' : Option PHdrVals} (hr : parseHdrLine b o {} hb = (e, .ok, h, hb')) :
    ∃ n c p, ∃ c2 : UInt8, NameRun b o n ∧ o < n ∧ WsRun b n c ∧ n ≤ c ∧ b[c]? = some 58 ∧ Eol b p e ∧
      b[e]? = some c2 ∧ isWS c2 = false ∧
      h.name = ⟨o, n - o⟩ ∧ h.type = getHdrType (b.extract o n) ∧ h.state = .fin ∧ h.pnc = false ∧ hb' = hb ∧
      ((∃ v ve, Lws b (c + 1) v ∧ ValRun b v ve p ∧ h.val = ⟨v, ve - v⟩) ∨ (Lws b (c + 1) p ∧ h.val = {})) := by
  obtain ⟨H, hh⟩ := hs_line_sound b o hb hfit hg hr
  rcases H with ⟨n, c, v, ve, p, c2, h1, h2, h3, h4, h5, h6, h7, h8, h9, h10, rfl⟩ |
    ⟨n, c, p, c2, h1, h2, h3, h4, h5, h6, h8, h9, h10, rfl⟩
  · exact ⟨n, c, p, c2, h1, h2, h3, h4, h5, h8, h9, h10, rfl, rfl, rfl, rfl, hh, Or.inl ⟨v, ve, h6, h7, rfl⟩⟩
  · exact ⟨n, c, p, c2, h1, h2, h3, h4, h5, h8, h9, h10, rfl, rfl, rfl, rfl, hh, Or.inr ⟨h6, rfl⟩⟩

/-- **the "empty" verdict**: exactly the empty line that ends a block -/
theorem hs_line_empty (b : Buf) (o : Nat) (hb : Option PHdrVals) (hfit : b.size ≤ 65535)
    (hg : hb = none ∨ IsOther (getHdrType (b.extract o (skipTokenDelim b o 58))))
    {e : Nat} {h : Hdr} {hb' : Option PHdrVals} (hr : parseHdrLine b o {} hb = (e, .empty, h, hb')) :
    EmptyLine b o e ∧ h = { state := .fin } ∧ hb' = hb := by
  have := hs_parseHdrLine_cases b o hb hfit hg
  rw [hr] at this
  rcases this with ⟨h1, _⟩ | ⟨_, h1, h2, h3⟩ | h1 | h1
  · cases h1
  · exact ⟨h1, h2, h3⟩
  · cases h1
  · cases h1

/-- **every other verdict is "more bytes" or the error "bad character"** -/
theorem hs_line_verdicts (b : Buf) (o : Nat) (hb : Option PHdrVals) (hfit : b.size ≤ 65535)
    (hg : hb = none ∨ IsOther (getHdrType (b.extract o (skipTokenDelim b o 58))))
    {e : Nat} {er : Err} {h : Hdr} {hb' : Option PHdrVals} (hr : parseHdrLine b o {} hb = (e, er, h, hb')) :
    er = .ok ∨ er = .empty ∨ er = .moreBytes ∨ er = .badChar := by
  have := hs_parseHdrLine_cases b o hb hfit hg
  rw [hr] at this
  rcases this with ⟨h1, _⟩ | ⟨h1, _⟩ | h1 | h1
  · exact Or.inl h1
  · exact Or.inr (Or.inl h1)
  · exact Or.inr (Or.inr (Or.inl h1))
  · exact Or.inr (Or.inr (Or.inr h1))

/-- **accepted iff of the grammar** (line level, with `parseHdrLine_spec` for the other direction) -/
theorem hs_line_ok_iff (b : Buf) (o : Nat) (hb : Option PHdrVals) (hfit : b.size ≤ 65535)
    (hg : hb = none ∨ IsOther (getHdrType (b.extract o (skipTokenDelim b o 58))))
    (e : Nat) (h : Hdr) (hb' : Option PHdrVals) :
    parseHdrLine b o {} hb = (e, .ok, h, hb') ↔ HdrLineAt b o e h ∧ hb' = hb := by
  constructor
  · exact hs_line_sound b o hb hfit hg
  · rintro ⟨H, rfl⟩
    refine H.parse hb' hfit ?_
    rcases hg with hg | hg
    · exact Or.inl hg
    · exact Or.inr (by rw [(hs_lineAt_type H).1]; exact hg)

theorem hs_line_empty_iff (b : Buf) (o : Nat) (hb : Option PHdrVals) (hfit : b.size ≤ 65535)
    (hg : hb = none ∨ IsOther (getHdrType (b.extract o (skipTokenDelim b o 58))))
    (e : Nat) (h : Hdr) (hb' : Option PHdrVals) :
    parseHdrLine b o {} hb = (e, .empty, h, hb') ↔ EmptyLine b o e ∧ h = { state := .fin } ∧ hb' = hb := by
  constructor
  · exact hs_line_empty b o hb hfit hg
  · rintro ⟨H, rfl, rfl⟩
    exact (H.parse hb').1

/-- a line of the grammar at `o` is unique: its end and the header it denotes are determined by the text -/
theorem hs_lineAt_unique {b : Buf} {o e e' : Nat} {h h' : Hdr} (hfit : b.size ≤ 65535)
    (H : HdrLineAt b o e h) (H' : HdrLineAt b o e' h') : e = e' ∧ h = h' := by
  have h1 := H.parse none hfit (Or.inl rfl)
  have h2 := H'.parse none hfit (Or.inl rfl)
  rw [h1] at h2
  cases h2
  exact ⟨rfl, rfl⟩

theorem hs_emptyLine_unique {b : Buf} {o e e' : Nat} (H : EmptyLine b o e) (H' : EmptyLine b o e') : e = e' := by
  have h1 := (H.parse none).1
  have h2 := (H'.parse none).1
  rw [h1] at h2
  cases h2
  rfl

/-- a header line and the empty line never start at the same place -/
theorem hs_line_not_empty {b : Buf} {o e e' : Nat} {h : Hdr} (hfit : b.size ≤ 65535)
    (H : HdrLineAt b o e h) (H' : EmptyLine b o e') : False := by
  have h1 := H.parse none hfit (Or.inl rfl)
  have h2 := (H'.parse none).1
  rw [h1] at h2
  cases h2

/-! ### ANY values object: the name and the type of an accepted line -/

/-- the dispatch to the value parsers never touches the type and the name of the header -/
theorem hs_parseBody_frame (b : Buf) (o : Nat) (h : Hdr) (hb : Option PHdrVals)
    {n : Nat} {e : Err} {h2 : Hdr} {hb2 : Option PHdrVals}
    (hr : parseBody b o h hb = (n, e, h2, hb2)) : h2.type = h.type ∧ h2.name = h.name := by
  unfold parseBody at hr
  cases hb with
  | none => simp only [Prod.mk.injEq] at hr; obtain ⟨_, _, rfl, _⟩ := hr; exact ⟨rfl, rfl⟩
  | some hv =>
  simp only at hr
  by_cases h_from_ : (h.type == HdrFrom) = true
  · simp only [h_from_, ↓reduceIte] at hr
    by_cases hp : (!hv.from_.parsed) = true
    · simp only [hp, ↓reduceIte] at hr
      simp only [Prod.mk.injEq] at hr
      obtain ⟨_, _, rfl, _⟩ := hr
      exact ⟨rfl, rfl⟩
    · simp only [hp, Bool.false_eq_true, ↓reduceIte, Prod.mk.injEq] at hr
      obtain ⟨_, _, rfl, _⟩ := hr; exact ⟨rfl, rfl⟩
  simp only [h_from_, Bool.false_eq_true, ↓reduceIte] at hr
  by_cases h_to : (h.type == HdrTo) = true
  · simp only [h_to, ↓reduceIte] at hr
    by_cases hp : (!hv.to.parsed) = true
    · simp only [hp, ↓reduceIte] at hr
      simp only [Prod.mk.injEq] at hr
      obtain ⟨_, _, rfl, _⟩ := hr
      exact ⟨rfl, rfl⟩
    · simp only [hp, Bool.false_eq_true, ↓reduceIte, Prod.mk.injEq] at hr
      obtain ⟨_, _, rfl, _⟩ := hr; exact ⟨rfl, rfl⟩
  simp only [h_to, Bool.false_eq_true, ↓reduceIte] at hr
  by_cases h_callid : (h.type == HdrCallID) = true
  · simp only [h_callid, ↓reduceIte] at hr
    by_cases hp : (!hv.callid.parsed) = true
    · simp only [hp, ↓reduceIte] at hr
      simp only [Prod.mk.injEq] at hr
      obtain ⟨_, _, rfl, _⟩ := hr
      exact ⟨rfl, rfl⟩
    · simp only [hp, Bool.false_eq_true, ↓reduceIte, Prod.mk.injEq] at hr
      obtain ⟨_, _, rfl, _⟩ := hr; exact ⟨rfl, rfl⟩
  simp only [h_callid, Bool.false_eq_true, ↓reduceIte] at hr
  by_cases h_cseq : (h.type == HdrCSeq) = true
  · simp only [h_cseq, ↓reduceIte] at hr
    by_cases hp : (!hv.cseq.parsed) = true
    · simp only [hp, ↓reduceIte] at hr
      simp only [Prod.mk.injEq] at hr
      obtain ⟨_, _, rfl, _⟩ := hr
      exact ⟨rfl, rfl⟩
    · simp only [hp, Bool.false_eq_true, ↓reduceIte, Prod.mk.injEq] at hr
      obtain ⟨_, _, rfl, _⟩ := hr; exact ⟨rfl, rfl⟩
  simp only [h_cseq, Bool.false_eq_true, ↓reduceIte] at hr
  by_cases h_clen : (h.type == HdrCLen) = true
  · simp only [h_clen, ↓reduceIte] at hr
    by_cases hp : (!hv.clen.parsed) = true
    · simp only [hp, ↓reduceIte] at hr
      simp only [Prod.mk.injEq] at hr
      obtain ⟨_, _, rfl, _⟩ := hr
      exact ⟨rfl, rfl⟩
    · simp only [hp, Bool.false_eq_true, ↓reduceIte, Prod.mk.injEq] at hr
      obtain ⟨_, _, rfl, _⟩ := hr; exact ⟨rfl, rfl⟩
  simp only [h_clen, Bool.false_eq_true, ↓reduceIte] at hr
  by_cases h_contacts : (h.type == HdrContact) = true
  · simp only [h_contacts, ↓reduceIte, Prod.mk.injEq] at hr
    obtain ⟨_, _, rfl, _⟩ := hr
    exact ⟨rfl, rfl⟩
  simp only [h_contacts, Bool.false_eq_true, ↓reduceIte] at hr
  by_cases h_expires : (h.type == HdrExpires) = true
  · simp only [h_expires, ↓reduceIte] at hr
    by_cases hp : (!hv.expires.parsed) = true
    · simp only [hp, ↓reduceIte] at hr
      simp only [Prod.mk.injEq] at hr
      obtain ⟨_, _, rfl, _⟩ := hr
      exact ⟨rfl, rfl⟩
    · simp only [hp, Bool.false_eq_true, ↓reduceIte, Prod.mk.injEq] at hr
      obtain ⟨_, _, rfl, _⟩ := hr; exact ⟨rfl, rfl⟩
  simp only [h_expires, Bool.false_eq_true, ↓reduceIte] at hr
  by_cases h_pais : (h.type == HdrPAI) = true
  · simp only [h_pais, ↓reduceIte, Prod.mk.injEq] at hr
    obtain ⟨_, _, rfl, _⟩ := hr
    exact ⟨rfl, rfl⟩
  simp only [h_pais, Bool.false_eq_true, ↓reduceIte] at hr
  simp only [Prod.mk.injEq] at hr
  obtain ⟨_, _, rfl, _⟩ := hr; exact ⟨rfl, rfl⟩

/-- the code after the colon, ANY values object: either it classifies the name and hands over to the generic value
    scanner (no values object, a type without a value parser, or a repeated single-valued header), or — only with a
    values object and a typed name — it finishes the line with the verdict of the value parser; in both cases the
    header carries the name as written and the classification of the name -/
theorem hs_afterColon_all (b : Buf) (o n i : Nat) (hb : Option PHdrVals) (hon : o < n) (hn : n ≤ b.size)
    (hfit : b.size ≤ 65535) :
    hlAfterColon b i (hdrAt 0 o n {} .bodyStart) hb =
      .cont i (hdrAt (getHdrType (b.extract o n)) o n {} .bodyStart, hb) ∨
    (hb ≠ none ∧ ¬ IsOther (getHdrType (b.extract o n)) ∧ ∃ n' e' h' hb2,
      hlAfterColon b i (hdrAt 0 o n {} .bodyStart) hb = .done n' e' (h', hb2) ∧
      h'.name = ⟨o, n - o⟩ ∧ h'.type = getHdrType (b.extract o n) ∧ (e' = .ok → h'.state = .fin) ∧ e' ≠ .empty) := by
  have hget : PField.get? b (hdrAt 0 o n {} .bodyStart).name = some (b.extract o n) := by
    have := field_get? b o (n - o) (by omega) hfit
    show PField.get? b ⟨o, n - o⟩ = _
    rw [this]; congr 2; omega
  have hh : ({ hdrAt 0 o n {} .bodyStart with type := getHdrType (b.extract o n) } : Hdr) =
      hdrAt (getHdrType (b.extract o n)) o n {} .bodyStart := rfl
  unfold hlAfterColon
  simp only [hget]
  rw [hh]
  rcases hpb : parseBody b i (hdrAt (getHdrType (b.extract o n)) o n {} .bodyStart) hb with ⟨n', e', h2, hb2⟩
  simp only
  have hfr := hs_parseBody_frame b i _ hb hpb
  by_cases hst : h2.state = .bodyStart
  · obtain ⟨rfl, rfl, rfl, rfl⟩ := parseBody_keep b i _ hb hpb hst
    left
    rw [if_neg (by rw [hst]; decide)]
  · right
    have hne : (h2.state != HState.bodyStart) = true := by simpa using hst
    rw [if_pos hne]
    have hng : ¬ (hb = none ∨ IsOther (getHdrType (b.extract o n))) := by
      intro hg
      have := parseBody_generic b i (hdrAt (getHdrType (b.extract o n)) o n {} .bodyStart) hb hg
      rw [hpb] at this
      cases this
      exact hst rfl
    have hnem : e' ≠ .empty := by
      have := parseBody_ne_empty b i (hdrAt (getHdrType (b.extract o n)) o n {} .bodyStart) hb
      rw [hpb] at this
      exact this
    refine ⟨fun h => hng (Or.inl h), fun h => hng (Or.inr h), n', e', _, hb2, rfl, ?_, ?_, ?_, hnem⟩
    · by_cases he : (e' == Err.ok) = true
      · rw [if_pos he]; exact hfr.2
      · rw [if_neg he]; exact hfr.2
    · by_cases he : (e' == Err.ok) = true
      · rw [if_pos he]; exact hfr.1
      · rw [if_neg he]; exact hfr.1
    · intro he
      subst he
      rfl

/-- the typed path (values object supplied, name of one of the eight typed kinds): name and colon are as in the
    grammar, the header carries the name as written and its classification, and is finished when the verdict is OK -/
def HsTypedOut (b : Buf) (o : Nat) (hb : Option PHdrVals) (er : Err) (h : Hdr) : Prop :=
  hb ≠ none ∧ ∃ n c, NameRun b o n ∧ o < n ∧ WsRun b n c ∧ n ≤ c ∧ b[c]? = some 58 ∧
    ¬ IsOther (getHdrType (b.extract o n)) ∧ h.name = ⟨o, n - o⟩ ∧ h.type = getHdrType (b.extract o n) ∧
    (er = .ok → h.state = .fin) ∧ er ≠ .empty

def HsOutAllR (b : Buf) (o : Nat) (hb : Option PHdrVals) (r : Nat × Err × HLσ) : Prop :=
  HsOutR b o hb r ∨ HsTypedOut b o hb r.2.1 r.2.2.1

/-- the loop of ParseHdrLine on a new header object, ANY values object: the generic outcomes of `HsLineOut`, or the
    typed path -/
theorem hs_line_loop_all (b : Buf) (o : Nat) (hb : Option PHdrVals) (hfit : b.size ≤ 65535) :
    HsOutAllR b o hb (runLoop hlMachine b o (({} : Hdr), hb)) := by
  have more : ∀ e st, HsOutAllR b o hb (e, .moreBytes, st) := fun _ _ => Or.inl (Or.inr (Or.inr (Or.inl rfl)))
  have mb : ∀ e er st, (er = .moreBytes ∨ er = .badChar) → HsOutAllR b o hb (e, er, st) := by
    intro e er st h
    rcases h with h | h
    · exact Or.inl (Or.inr (Or.inr (Or.inl h)))
    · exact Or.inl (Or.inr (Or.inr (Or.inr h)))
  -- from the code after the colon on
  have after : ∀ (n c i0 : Nat) (ci : UInt8) (st0 : HLσ), NameRun b o n → o < n → WsRun b n c → n ≤ c →
      b[c]? = some 58 → b[i0]? = some ci → i0 ≤ c →
      hlStep b i0 ci st0 = hlAfterColon b (c + 1) (hdrAt 0 o n {} .bodyStart) hb →
      HsOutAllR b o hb (runLoop hlMachine b i0 st0) := by
    intro n c i0 ci st0 hname hon hws hnc hcolon hci hic hstep
    have hcl := get?_lt hcolon
    rcases hs_afterColon_all b o n (c + 1) hb hon (by omega) hfit with hc | ⟨hb1, hty, n', e', h', hb2, hd, hn1, hn2, hn3, hn4⟩
    · rw [runLoop_cont hlMachine hci (by exact hstep.trans hc), if_pos (by omega)]
      exact Or.inl (hs_after_colon b hb hfit o n c hname hon hws hnc hcolon)
    · rw [runLoop_done hlMachine hci (by exact hstep.trans hd)]
      exact Or.inr ⟨hb1, n, c, hname, hon, hws, hnc, hcolon, hty, hn1, hn2, hn3, hn4⟩
  cases h0 : b[o]? with
  | none => rw [runLoop_none hlMachine _ h0]; exact more _ _
  | some c0 =>
    by_cases h13 : c0 = 13
    · subst h13
      cases h1 : b[o + 1]? with
      | none =>
        rw [runLoop_done hlMachine h0 (o := o) (e := .moreBytes) (st' := (({} : Hdr), hb))
          (by show hlStep b o 13 (({} : Hdr), hb) = _; unfold hlStep; simp only [beq_self_eq_true, ↓reduceIte, h1])]
        exact more _ _
      | some c1 =>
        by_cases h10 : c1 = 10
        · subst h10
          rw [runLoop_done hlMachine h0 (o := o + 2) (e := .empty) (st' := ({ state := .fin }, hb))
            (by show hlStep b o 13 (({} : Hdr), hb) = _; unfold hlStep; simp only [beq_self_eq_true, ↓reduceIte, h1])]
          exact Or.inl (Or.inr (Or.inl ⟨rfl, EmptyLine.crlf o h0 h1, rfl, rfl⟩))
        · have e10 : (c1 == 10) = false := by simpa using h10
          rw [runLoop_done hlMachine h0 (o := o + 1) (e := .empty) (st' := ({ state := .fin }, hb))
            (by show hlStep b o 13 (({} : Hdr), hb) = _; unfold hlStep
                simp only [beq_self_eq_true, ↓reduceIte, h1, e10, Bool.false_eq_true])]
          exact Or.inl (Or.inr (Or.inl ⟨rfl, EmptyLine.cr o c1 h0 h1 h10, rfl, rfl⟩))
    · have e13 : (c0 == 13) = false := by simpa using h13
      by_cases h10 : c0 = 10
      · subst h10
        rw [runLoop_done hlMachine h0 (o := o + 1) (e := .empty) (st' := ({ state := .fin }, hb))
          (by show hlStep b o 10 (({} : Hdr), hb) = _; unfold hlStep
              simp only [e13, Bool.false_eq_true, ↓reduceIte, beq_self_eq_true])]
        exact Or.inl (Or.inr (Or.inl ⟨rfl, EmptyLine.lf o h0, rfl, rfl⟩))
      · have e10 : (c0 == 10) = false := by simpa using h10
        have hstep : hlStep b o c0 (({} : Hdr), hb) = hlName b o { state := .name, name := PField.set o o } hb := by
          unfold hlStep; simp only [e13, e10, Bool.false_eq_true, ↓reduceIte]
        rcases hs_hlName_all b o hb hfit with ⟨e, er, st, hd, her⟩ | ⟨cn, hon, hcn, hw, hc⟩ | ⟨hon, hcn, hc⟩
        · rw [runLoop_done hlMachine h0 (by exact hstep.trans hd)]; exact mb _ _ _ her
        · -- white space after the name
          have hnl := get?_lt hcn
          rw [runLoop_cont hlMachine h0 (by exact hstep.trans hc), if_pos (by omega)]
          cases hy : b[skipTokenDelim b o 58 + 1]? with
          | none => rw [runLoop_none hlMachine _ hy]; exact more _ _
          | some y =>
            rcases hs_nameEnd_all b o (skipTokenDelim b o 58) (skipTokenDelim b o 58 + 1) y hb with
              ⟨e, er, st, hd, her⟩ | ⟨hcol, hc2⟩
            · rw [runLoop_done hlMachine hy (by exact hd)]; exact mb _ _ _ her
            · have hge := skipWS_ge b (skipTokenDelim b o 58 + 1)
              refine after _ _ _ y _ (hs_skipTokenDelim_run b o) hon ?_ (by omega) hcol hy (by omega) hc2
              intro k h1 h2
              by_cases hk : k = skipTokenDelim b o 58
              · subst hk; exact ⟨cn, hcn, hw⟩
              · exact hs_skipWS_run b (skipTokenDelim b o 58 + 1) k (by omega) h2
        · -- the colon right after the name
          exact after _ _ o c0 _ (hs_skipTokenDelim_run b o) hon (fun k h1 h2 => by omega) (Nat.le_refl _) hcn h0
            (by omega) (hstep.trans hc)

/-- **name and type of ANY accepted line, with or without a values object, typed or not**: if ParseHdrLine says OK
    for a new header object, the text at `o` starts with a non-empty name `[o, n)` (no SP / HT / CR / LF / colon in
    it), spaces / tabs, and the colon; the reported name is `[o, n)`, the reported type is the classification of
    exactly that text, and the header is finished -/
theorem hs_line_name_type_sound (b : Buf) (o : Nat) (hb : Option PHdrVals) (hfit : b.size ≤ 65535)
    {e : Nat} {h : Hdr} {hb' : Option PHdrVals} (hr : parseHdrLine b o {} hb = (e, .ok, h, hb')) :
    ∃ n c, NameRun b o n ∧ o < n ∧ WsRun b n c ∧ n ≤ c ∧ b[c]? = some 58 ∧ h.name = ⟨o, n - o⟩ ∧
      h.type = getHdrType (b.extract o n) ∧ h.state = .fin := by
  have hall := hs_line_loop_all b o hb hfit
  have hrr : runLoop hlMachine b o (({} : Hdr), hb) = (e, .ok, (h, hb')) := by
    unfold parseHdrLine at hr
    rcases hq : runLoop hlMachine b o (({} : Hdr), hb) with ⟨a1, a2, a3, a4⟩
    rw [hq] at hr
    cases hr
    rfl
  rw [hrr] at hall
  rcases hall with (⟨_, H, _⟩ | ⟨h1, _⟩ | h1 | h1) | ⟨_, n, c, q1, q2, q3, q4, q5, _, q7, q8, q9, _⟩
  · rcases H with ⟨n, c, v, ve, p, c2, h1, h2, h3, h4, h5, _, _, _, _, _, rfl⟩ |
      ⟨n, c, p, c2, h1, h2, h3, h4, h5, _, _, _, _, rfl⟩
    · exact ⟨n, c, h1, h2, h3, h4, h5, rfl, rfl, rfl⟩
    · exact ⟨n, c, h1, h2, h3, h4, h5, rfl, rfl, rfl⟩
  · cases h1
  · cases h1
  · cases h1
  · exact ⟨n, c, q1, q2, q3, q4, q5, q7, q8, q9 rfl⟩

/-- **soundness phrased on the REPORTED type**: with a values object, an accepted line whose reported type is not one
    of the eight typed kinds is a line of the grammar, the reported header is the one it denotes, and the values object
    is untouched -/
theorem hs_line_sound_reported (b : Buf) (o : Nat) (hb : Option PHdrVals) (hfit : b.size ≤ 65535)
    {e : Nat} {h : Hdr} {hb' : Option PHdrVals} (hr : parseHdrLine b o {} hb = (e, .ok, h, hb'))
    (ht : IsOther h.type) : HdrLineAt b o e h ∧ hb' = hb := by
  have hall := hs_line_loop_all b o hb hfit
  have hrr : runLoop hlMachine b o (({} : Hdr), hb) = (e, .ok, (h, hb')) := by
    unfold parseHdrLine at hr
    rcases hq : runLoop hlMachine b o (({} : Hdr), hb) with ⟨a1, a2, a3, a4⟩
    rw [hq] at hr
    cases hr
    rfl
  rw [hrr] at hall
  rcases hall with (⟨_, H, h2⟩ | ⟨h1, _⟩ | h1 | h1) | ⟨_, n, c, _, _, _, _, _, q6, _, q8, _, _⟩
  · exact ⟨H, h2⟩
  · cases h1
  · cases h1
  · cases h1
  · exact absurd (by rw [← q8]; exact ht) q6

/-! ### ANY values object: one header per logical line, names and types -/

/-- a reported header whose name and type are right: at `o` a non-empty name `[o, n)`, spaces / tabs, the colon; the
    header is finished, carries that name and the classification of exactly that text (the value part is the business
    of the value parser when the line is typed) -/
def HsNameAt (b : Buf) (o : Nat) (h : Hdr) : Prop :=
  ∃ n c, NameRun b o n ∧ o < n ∧ WsRun b n c ∧ n ≤ c ∧ b[c]? = some 58 ∧ h.name = ⟨o, n - o⟩ ∧
    h.type = getHdrType (b.extract o n) ∧ h.state = .fin

/-- accepted lines one after the other (each starting where the previous one ended), then the empty line -/
inductive HsChain (b : Buf) : Nat → List Hdr → Nat → Prop
  | nil (o e : Nat) : EmptyLine b o e → HsChain b o [] e
  | cons (o e1 e : Nat) (h : Hdr) (hs : List Hdr) : HsNameAt b o h → o < e1 → HsChain b e1 hs e → HsChain b o (h :: hs) e

/-- the "empty" verdict of ParseHdrLine, ANY values object: exactly the empty line, header finished, values object
    untouched -/
theorem hs_line_empty_all (b : Buf) (o : Nat) (hb : Option PHdrVals) (hfit : b.size ≤ 65535)
    {e : Nat} {h : Hdr} {hb' : Option PHdrVals} (hr : parseHdrLine b o {} hb = (e, .empty, h, hb')) :
    EmptyLine b o e ∧ h = { state := .fin } ∧ hb' = hb := by
  have hall := hs_line_loop_all b o hb hfit
  have hrr : runLoop hlMachine b o (({} : Hdr), hb) = (e, .empty, (h, hb')) := by
    unfold parseHdrLine at hr
    rcases hq : runLoop hlMachine b o (({} : Hdr), hb) with ⟨a1, a2, a3, a4⟩
    rw [hq] at hr
    cases hr
    rfl
  rw [hrr] at hall
  rcases hall with (⟨h1, _⟩ | ⟨_, h1, h2, h3⟩ | h1 | h1) | ⟨_, n, c, _, _, _, _, _, _, _, _, _, q⟩
  · cases h1
  · exact ⟨h1, h2, h3⟩
  · cases h1
  · cases h1
  · exact absurd rfl q

/-- **ParseHeaders, ANY values object** (list object in the state of a new / reset one): if the verdict is OK (or
    "empty"), the accepted text is a chain of lines — each reported header has the name as written and the
    classification of that name — ended by the empty line, and the list object is what accepting exactly these
    headers, in order, produces: one header per logical line, none invented, none dropped -/
theorem hs_block_names_all (b : Buf) (hfit : b.size ≤ 65535) :
    ∀ (k o : Nat) (hl : HdrLst) (hb : Option PHdrVals), b.size - o = k → HlsClean hl → hl.cur = {} →
      ∀ {e : Nat} {er : Err} {hl' : HdrLst} {hb' : Option PHdrVals},
        parseHeaders b o hl hb = (e, er, hl', hb') → (er = .ok ∨ er = .empty) →
        ∃ hs, HsChain b o hs e ∧ hl' = (hl.acceptAll hs).setCur { state := .fin } ∧
          er = (if (hl.acceptAll hs).n > 0 then Err.ok else Err.empty) := by
  intro k
  induction k using Nat.strongRecOn with
  | _ k ih =>
    intro o hl hb hk hc hcur e er hl' hb' hr her
    rw [parseHeaders] at hr
    by_cases hlt : o < b.size
    · rw [if_pos hlt, hcur] at hr
      rcases hp : parseHdrLine b o {} hb with ⟨n, e1, h, hb1⟩
      rw [hp] at hr
      cases e1 <;> simp only at hr
      case ok =>
        have hname := hs_line_name_type_sound b o hb hfit hp
        by_cases hgt : o < n
        · rw [if_pos hgt] at hr
          have hcl := accept_clean hl h hc
          obtain ⟨hs, H, h1, h2⟩ := ih (b.size - n) (by omega) n _ hb1 rfl hcl.1 hcl.2 hr her
          exact ⟨h :: hs, HsChain.cons o n e h hs hname hgt H, h1, h2⟩
        · rw [if_neg hgt] at hr
          cases hr
          rcases her with h | h <;> cases h
      case empty =>
        obtain ⟨hem, rfl, _⟩ := hs_line_empty_all b o hb hfit hp
        refine ⟨[], ?_, ?_, ?_⟩
        · by_cases hn : hl.n > 0
          · rw [if_pos hn] at hr; cases hr; exact HsChain.nil o _ hem
          · rw [if_neg hn] at hr; cases hr; exact HsChain.nil o _ hem
        · by_cases hn : hl.n > 0
          · rw [if_pos hn] at hr; cases hr; rfl
          · rw [if_neg hn] at hr; cases hr; rfl
        · show er = if hl.n > 0 then Err.ok else Err.empty
          by_cases hn : hl.n > 0
          · rw [if_pos hn] at hr; cases hr; rw [if_pos hn]
          · rw [if_neg hn] at hr; cases hr; rw [if_neg hn]
      all_goals (cases hr; rcases her with h | h <;> cases h)
    · rw [if_neg hlt] at hr
      cases hr
      rcases her with h | h <;> cases h

theorem HsChain.length_pos {b : Buf} {o e : Nat} {hs : List Hdr} (H : HsChain b o hs e) : o < e := by
  induction H with
  | nil o e he =>
    cases he <;> omega
  | cons o e1 e h hs _ hlt _ ih => omega

/-! ### the header block -/

/-- the byte before the end of a line end is a CR or LF -/
theorem hs_eol_last {b : Buf} {p e : Nat} (h : Eol b p e) : p < e ∧ ∃ c, b[e - 1]? = some c ∧ isCRLFch c = true := by
  cases h with
  | crlf h0 h1 => exact ⟨by omega, 10, h1, by decide⟩
  | cr c h0 h1 hc => exact ⟨by omega, 13, h0, by decide⟩
  | lf c h0 h1 => exact ⟨by omega, 10, h0, by decide⟩

theorem hs_lineAt_last {b : Buf} {o e : Nat} {h : Hdr} (H : HdrLineAt b o e h) :
    o < e ∧ ∃ c, b[e - 1]? = some c ∧ isCRLFch c = true := by
  refine ⟨H.gt.1, ?_⟩
  rcases H with ⟨n, c, v, ve, p, c2, _, _, _, _, _, _, _, h8, _, _, _⟩ | ⟨n, c, p, c2, _, _, _, _, _, _, h8, _, _, _⟩
  · exact (hs_eol_last h8).2
  · exact (hs_eol_last h8).2

/-- `o'` is where a line of the text from `o` on can start: `o` itself, or any later position just after a CR / LF -/
def HsLineStart (b : Buf) (o o' : Nat) : Prop :=
  o' = o ∨ (o < o' ∧ ∃ c, b[o' - 1]? = some c ∧ isCRLFch c = true)

/-- the generic treatment for a block: no values object, or no line of the text from `o` on starts with a name (text
    up to the first SP / HT / CR / LF / colon) of one of the eight header types with a dedicated value parser -/
def HsGeneric (b : Buf) (o : Nat) (hb : Option PHdrVals) : Prop :=
  hb = none ∨ ∀ o', HsLineStart b o o' → IsOther (getHdrType (b.extract o' (skipTokenDelim b o' 58)))

theorem HsGeneric.here {b : Buf} {o : Nat} {hb : Option PHdrVals} (h : HsGeneric b o hb) :
    hb = none ∨ IsOther (getHdrType (b.extract o (skipTokenDelim b o 58))) := by
  rcases h with h | h
  · exact Or.inl h
  · exact Or.inr (h o (Or.inl rfl))

theorem HsGeneric.next {b : Buf} {o e : Nat} {hb : Option PHdrVals} {h : Hdr} (hg : HsGeneric b o hb)
    (H : HdrLineAt b o e h) : HsGeneric b e hb := by
  rcases hg with hg | hg
  · exact Or.inl hg
  · refine Or.inr (fun o' ho' => hg o' ?_)
    obtain ⟨hlt, hc⟩ := hs_lineAt_last H
    rcases ho' with rfl | ⟨h1, h2⟩
    · exact Or.inr ⟨hlt, hc⟩
    · exact Or.inr ⟨by omega, h2⟩

/-- **ParseHeaders, every outcome** (list object in the state of a new / reset one, generic treatment): either the
    text from `o` is a block of the grammar (then `parseHeaders_block` gives the complete result), or the verdict is
    "more bytes", or it is the error "bad character" -/
theorem hs_block_cases (b : Buf) (hb : Option PHdrVals) (hfit : b.size ≤ 65535) :
    ∀ (k o : Nat) (hl : HdrLst), b.size - o = k → HlsClean hl → hl.cur = {} → HsGeneric b o hb →
      (∃ hs e, HdrBlock b o hs e ∧ (hb = none ∨ ∀ h ∈ hs, IsOther h.type)) ∨
      (∃ e hl' hb', parseHeaders b o hl hb = (e, .moreBytes, hl', hb')) ∨
      (∃ e hl' hb', parseHeaders b o hl hb = (e, .badChar, hl', hb')) := by
  intro k
  induction k using Nat.strongRecOn with
  | _ k ih =>
    intro o hl hk hc hcur hg
    rw [parseHeaders]
    by_cases hlt : o < b.size
    · rw [if_pos hlt, hcur]
      have hcases := hs_parseHdrLine_cases b o hb hfit hg.here
      rcases hp : parseHdrLine b o {} hb with ⟨n, e1, h, hb1⟩
      rw [hp] at hcases
      rcases hcases with ⟨h1, hline, h2⟩ | ⟨h1, hempty, _, _⟩ | h1 | h1
      · -- a header line: on to the next one
        have h1' : e1 = .ok := h1
        have h2' : hb1 = hb := h2
        subst h1' h2'
        have hgt := hline.gt
        simp only
        rw [if_pos hgt.1]
        have hcl := accept_clean hl h hc
        rcases ih (b.size - n) (by omega) n _ rfl hcl.1 hcl.2 (hg.next hline) with
          ⟨hs, e, H, hgen⟩ | hm | hbad
        · refine Or.inl ⟨h :: hs, e, HdrBlock.cons o n e h hs hline H, ?_⟩
          rcases hgen with hgen | hgen
          · exact Or.inl hgen
          · rcases hg.here with hh | hh
            · exact Or.inl hh
            · refine Or.inr (fun x hx => ?_)
              rcases List.mem_cons.mp hx with rfl | hx
              · rw [(hs_lineAt_type hline).1]; exact hh
              · exact hgen x hx
        · exact Or.inr (Or.inl hm)
        · exact Or.inr (Or.inr hbad)
      · -- the empty line: end of the block
        exact Or.inl ⟨[], n, HdrBlock.nil o n hempty, Or.inr (fun x hx => by cases hx)⟩
      · have h1' : e1 = .moreBytes := h1
        subst h1'
        exact Or.inr (Or.inl ⟨_, _, _, rfl⟩)
      · have h1' : e1 = .badChar := h1
        subst h1'
        exact Or.inr (Or.inr ⟨_, _, _, rfl⟩)
    · rw [if_neg hlt]
      exact Or.inr (Or.inl ⟨_, _, _, rfl⟩)

/-- **(2) soundness of an accepted block**: if ParseHeaders ends with OK (or "empty": no header at all), the text
    `[o, e)` is a block of the grammar — header lines one after the other, then the empty line — and the list object
    is exactly what accepting the headers denoted by those lines, in order, produces -/
theorem hs_block_sound (b : Buf) (o : Nat) (hl : HdrLst) (hb : Option PHdrVals) (hfit : b.size ≤ 65535)
    (hc : HlsClean hl) (hcur : hl.cur = {}) (hg : HsGeneric b o hb)
    {e : Nat} {er : Err} {hl' : HdrLst} {hb' : Option PHdrVals}
    (hr : parseHeaders b o hl hb = (e, er, hl', hb')) (her : er = .ok ∨ er = .empty) :
    ∃ hs, HdrBlock b o hs e ∧ hl' = (hl.acceptAll hs).setCur { state := .fin } ∧ hb' = hb ∧
      er = (if (hl.acceptAll hs).n > 0 then Err.ok else Err.empty) := by
  rcases hs_block_cases b hb hfit (b.size - o) o hl rfl hc hcur hg with
    ⟨hs, e0, H, hgen⟩ | ⟨e0, l0, b0, hm⟩ | ⟨e0, l0, b0, hm⟩
  · have := parseHeaders_block b hb hfit H hl hc hcur hgen
    rw [hr] at this
    cases this
    exact ⟨hs, H, rfl, rfl, rfl⟩
  · rw [hr] at hm; cases hm; rcases her with h | h <;> cases h
  · rw [hr] at hm; cases hm; rcases her with h | h <;> cases h

/-- the verdicts of ParseHeaders (generic treatment): OK, "empty", "more bytes", or the error "bad character" -/
theorem hs_block_verdicts (b : Buf) (o : Nat) (hl : HdrLst) (hb : Option PHdrVals) (hfit : b.size ≤ 65535)
    (hc : HlsClean hl) (hcur : hl.cur = {}) (hg : HsGeneric b o hb)
    {e : Nat} {er : Err} {hl' : HdrLst} {hb' : Option PHdrVals}
    (hr : parseHeaders b o hl hb = (e, er, hl', hb')) :
    er = .ok ∨ er = .empty ∨ er = .moreBytes ∨ er = .badChar := by
  rcases hs_block_cases b hb hfit (b.size - o) o hl rfl hc hcur hg with
    ⟨hs, e0, H, hgen⟩ | ⟨e0, l0, b0, hm⟩ | ⟨e0, l0, b0, hm⟩
  · have := parseHeaders_block b hb hfit H hl hc hcur hgen
    rw [hr] at this
    cases this
    by_cases hn : (hl.acceptAll hs).n > 0
    · rw [if_pos hn]; exact Or.inl rfl
    · rw [if_neg hn]; exact Or.inr (Or.inl rfl)
  · rw [hr] at hm; cases hm; exact Or.inr (Or.inr (Or.inl rfl))
  · rw [hr] at hm; cases hm; exact Or.inr (Or.inr (Or.inr rfl))

/-- a new list object of capacity `k` (what `new_list_ok` of C07 says, repeated here for this file) -/
def hsNew (k : Nat) : HdrLst := { hdrs := Array.replicate k {} }

theorem hsNew_ok (k : Nat) : HlsClean (hsNew k) ∧ (hsNew k).cur = {} := by
  have hrep : ∀ j, j < (Array.replicate k ({} : Hdr)).size → (Array.replicate k ({} : Hdr))[j]! = {} := by
    intro j hj; simp at hj; simp [hj]
  refine ⟨⟨fun j _ hj => hrep j hj, fun _ => rfl⟩, ?_⟩
  unfold HdrLst.cur hsNew
  split
  · rename_i hin; exact hrep _ hin
  · rfl

theorem hs_new_count (k : Nat) (hs : List Hdr) : ((hsNew k).acceptAll hs).n = hs.length := by
  rw [acceptAll_n]; show 0 + hs.length = hs.length; omega

/-- in a block none of whose lines starts with one of the eight typed names, every header is of a generic type -/
theorem hs_block_generic {b : Buf} {o e : Nat} {hs : List Hdr} (H : HdrBlock b o hs e) :
    (∀ o', HsLineStart b o o' → IsOther (getHdrType (b.extract o' (skipTokenDelim b o' 58)))) →
      ∀ h ∈ hs, IsOther h.type := by
  induction H with
  | nil o e _ => intro _ h hh; cases hh
  | cons o e1 e h hs hline _ ih =>
    intro hg x hx
    rcases List.mem_cons.mp hx with rfl | hx
    · rw [(hs_lineAt_type hline).1]; exact hg o (Or.inl rfl)
    · rcases HsGeneric.next (hb := some {}) (Or.inr hg) hline with hn | hn
      · cases hn
      · exact ih hn x hx

theorem HsGeneric.block {b : Buf} {o e : Nat} {hb : Option PHdrVals} {hs : List Hdr} (hg : HsGeneric b o hb)
    (H : HdrBlock b o hs e) : hb = none ∨ ∀ h ∈ hs, IsOther h.type := by
  rcases hg with hg | hg
  · exact Or.inl hg
  · exact Or.inr (hs_block_generic H hg)

/-- **(3) ParseHeaders accepts iff the text is a block of the grammar** (new list object of any capacity, generic
    treatment): the result is OK at `e` with list object `hl'` iff `[o, e)` is a block with at least one header line
    and `hl'` is the list object those headers produce. An ill-formed block is never accepted, a well-formed one never
    rejected, and what is reported is determined by the grammar. -/
theorem hs_block_ok_iff (b : Buf) (o k : Nat) (hb : Option PHdrVals) (hfit : b.size ≤ 65535) (hg : HsGeneric b o hb)
    (e : Nat) (hl' : HdrLst) (hb' : Option PHdrVals) :
    parseHeaders b o (hsNew k) hb = (e, .ok, hl', hb') ↔
      ∃ hs, hs ≠ [] ∧ HdrBlock b o hs e ∧ hl' = ((hsNew k).acceptAll hs).setCur { state := .fin } ∧ hb' = hb := by
  have hnew := hsNew_ok k
  constructor
  · intro hr
    obtain ⟨hs, H, h1, h2, h3⟩ := hs_block_sound b o (hsNew k) hb hfit hnew.1 hnew.2 hg hr (Or.inl rfl)
    refine ⟨hs, ?_, H, h1, h2⟩
    intro hnil
    subst hnil
    have : ((hsNew k).acceptAll []).n = 0 := hs_new_count k []
    rw [this] at h3
    simp at h3
  · rintro ⟨hs, hne, H, rfl, rfl⟩
    have := parseHeaders_block b hb' hfit H (hsNew k) hnew.1 hnew.2 (hg.block H)
    rw [this, hs_new_count]
    have : hs.length > 0 := by
      cases hs with
      | nil => exact absurd rfl hne
      | cons _ _ => simp
    rw [if_pos this]

/-- the same without the list object: ParseHeaders says OK at `e` iff `[o, e)` is a non-empty block of the grammar -/
theorem hs_block_accepts_iff (b : Buf) (o k : Nat) (hb : Option PHdrVals) (hfit : b.size ≤ 65535)
    (hg : HsGeneric b o hb) (e : Nat) :
    (∃ hl' hb', parseHeaders b o (hsNew k) hb = (e, .ok, hl', hb')) ↔ ∃ hs, hs ≠ [] ∧ HdrBlock b o hs e := by
  constructor
  · rintro ⟨hl', hb', hr⟩
    obtain ⟨hs, h1, h2, _⟩ := (hs_block_ok_iff b o k hb hfit hg e hl' hb').mp hr
    exact ⟨hs, h1, h2⟩
  · rintro ⟨hs, h1, h2⟩
    exact ⟨_, _, (hs_block_ok_iff b o k hb hfit hg e _ _).mpr ⟨hs, h1, h2, rfl, rfl⟩⟩

/-- "empty" (no header at all): exactly when the text at `o` is the empty line -/
theorem hs_block_empty_iff (b : Buf) (o k : Nat) (hb : Option PHdrVals) (hfit : b.size ≤ 65535)
    (hg : HsGeneric b o hb) (e : Nat) :
    (∃ hl' hb', parseHeaders b o (hsNew k) hb = (e, .empty, hl', hb')) ↔ EmptyLine b o e := by
  have hnew := hsNew_ok k
  constructor
  · rintro ⟨hl', hb', hr⟩
    obtain ⟨hs, H, _, _, h3⟩ := hs_block_sound b o (hsNew k) hb hfit hnew.1 hnew.2 hg hr (Or.inr rfl)
    rw [hs_new_count] at h3
    cases H with
    | nil _ _ he => exact he
    | cons _ e1 _ h hs _ _ => simp at h3
  · intro he
    have := parseHeaders_block b hb hfit (HdrBlock.nil o e he) (hsNew k) hnew.1 hnew.2 (hg.block (HdrBlock.nil o e he))
    rw [this, hs_new_count]
    exact ⟨_, _, rfl⟩

/-- a block of the grammar at `o` is unique: its end and the headers it denotes are determined by the text -/
theorem hs_block_unique {b : Buf} (hfit : b.size ≤ 65535) {o e : Nat} {hs : List Hdr} (H : HdrBlock b o hs e) :
    ∀ {e' : Nat} {hs' : List Hdr}, HdrBlock b o hs' e' → hs = hs' ∧ e = e' := by
  induction H with
  | nil o e he =>
    intro e' hs' H'
    cases H' with
    | nil _ _ he' => exact ⟨rfl, hs_emptyLine_unique he he'⟩
    | cons _ e1 _ h hs hline _ => exact (hs_line_not_empty hfit hline he).elim
  | cons o e1 e h hs hline _ ih =>
    intro e' hs' H'
    cases H' with
    | nil _ _ he' => exact (hs_line_not_empty hfit hline he').elim
    | cons _ e1' _ h' hs' hline' H2 =>
      obtain ⟨rfl, rfl⟩ := hs_lineAt_unique hfit hline hline'
      obtain ⟨rfl, rfl⟩ := ih H2
      exact ⟨rfl, rfl⟩

/-- what the list object of a new list (capacity `k`) records after accepting the headers `hs`: the count is their
    number (also beyond the capacity), the stored headers are the first `k` of them in order, a type flag is set iff a
    header of that type occurs, and the first-of-type table holds the first header of each known type -/
theorem hs_new_report (k : Nat) (hs : List Hdr) :
    (((hsNew k).acceptAll hs).setCur { state := .fin }).n = hs.length ∧
    (((hsNew k).acceptAll hs).setCur { state := .fin }).hdrs.size = k ∧
    (∀ j (hj : j < hs.length), j < k → (((hsNew k).acceptAll hs).setCur { state := .fin }).hdrs[j]! = hs[j]) ∧
    (∀ t, t < 16 →
      (((hsNew k).acceptAll hs).setCur { state := .fin }).pflags.testBit t = hs.any (fun h => h.type == t)) ∧
    (∀ j, j < 13 → (((hsNew k).acceptAll hs).setCur { state := .fin }).h[j]! =
      (match hs.find? (fun h => h.type == j + 1) with | some h => h | none => {})) := by
  have hsz : (hsNew k).hdrs.size = k := by simp [hsNew]
  refine ⟨?_, ?_, ?_, ?_, ?_⟩
  · rw [hlSetCur_n, hs_new_count]
  · rw [hlSetCur_size, acceptAll_size, hsz]
  · intro j hj hjk
    have h0 : (hsNew k).n = 0 := rfl
    have := acceptAll_stored (hsNew k) hs j hj (by rw [h0, hsz]; omega)
    rw [h0, Nat.zero_add] at this
    rw [hlSetCur_ne _ _ _ (by rw [hs_new_count]; omega)]
    exact this
  · intro t ht
    rw [(hlSetCur_scalars _ _).1, acceptAll_pflags (hsNew k) hs t ht (by show (0 : Nat) < 65536; decide)]
    have : (hsNew k).pflags.testBit t = false := by show (0 : Nat).testBit t = false; simp
    rw [this, Bool.false_or]
  · intro j hj
    rw [(hlSetCur_scalars _ _).2]
    have h13 : (hsNew k).h.size = 13 := by simp [hsNew]
    have hget : (hsNew k).h[j]! = {} := by
      show (Array.replicate 13 ({} : Hdr))[j]! = {}
      simp [hj]
    have := (acceptAll_first (hsNew k) hs j (by rw [h13]; exact hj) (by rw [hget]; rfl)).1
    rw [this, hget]
    cases hs.find? (fun h => h.type == j + 1) <;> rfl

/-- **what an accepted block reports** (new list object of capacity `k`, generic treatment): the headers of the block
    of the grammar, counted / stored / flagged / indexed as `hs_new_report` says -/
theorem hs_block_report (b : Buf) (o k : Nat) (hb : Option PHdrVals) (hfit : b.size ≤ 65535) (hg : HsGeneric b o hb)
    {e : Nat} {hl' : HdrLst} {hb' : Option PHdrVals} (hr : parseHeaders b o (hsNew k) hb = (e, .ok, hl', hb')) :
    ∃ hs, hs ≠ [] ∧ HdrBlock b o hs e ∧ hb' = hb ∧ hl'.n = hs.length ∧ hl'.hdrs.size = k ∧
      (∀ j (hj : j < hs.length), j < k → hl'.hdrs[j]! = hs[j]) ∧
      (∀ t, t < 16 → hl'.pflags.testBit t = hs.any (fun h => h.type == t)) ∧
      (∀ j, j < 13 → hl'.h[j]! = (match hs.find? (fun h => h.type == j + 1) with | some h => h | none => {})) := by
  obtain ⟨hs, hne, H, rfl, rfl⟩ := (hs_block_ok_iff b o k hb hfit hg e hl' hb').mp hr
  obtain ⟨r1, r2, r3, r4, r5⟩ := hs_new_report k hs
  exact ⟨hs, hne, H, rfl, r1, r2, r3, r4, r5⟩

/-- **what ANY accepted block reports** (new list object of capacity `k`, with or without a values object, typed
    lines included): a chain of lines whose reported names and types are right (`HsChain`), counted / stored / flagged
    / indexed as `hs_new_report` says -/
theorem hs_block_all_report (b : Buf) (o k : Nat) (hb : Option PHdrVals) (hfit : b.size ≤ 65535)
    {e : Nat} {hl' : HdrLst} {hb' : Option PHdrVals} (hr : parseHeaders b o (hsNew k) hb = (e, .ok, hl', hb')) :
    ∃ hs, hs ≠ [] ∧ HsChain b o hs e ∧ hl'.n = hs.length ∧ hl'.hdrs.size = k ∧
      (∀ j (hj : j < hs.length), j < k → hl'.hdrs[j]! = hs[j]) ∧
      (∀ t, t < 16 → hl'.pflags.testBit t = hs.any (fun h => h.type == t)) ∧
      (∀ j, j < 13 → hl'.h[j]! = (match hs.find? (fun h => h.type == j + 1) with | some h => h | none => {})) := by
  have hnew := hsNew_ok k
  obtain ⟨hs, H, rfl, h3⟩ := hs_block_names_all b hfit (b.size - o) o (hsNew k) hb rfl hnew.1 hnew.2 hr (Or.inl rfl)
  obtain ⟨r1, r2, r3, r4, r5⟩ := hs_new_report k hs
  refine ⟨hs, ?_, H, r1, r2, r3, r4, r5⟩
  intro hnil
  subst hnil
  have : ((hsNew k).acceptAll []).n = 0 := hs_new_count k []
  rw [this] at h3
  simp at h3

/-! ### resumed calls (one suspension; through the L2 theorems of C02) -/

/-- a line accepted by a RESUMED call — the first call on the prefix `b` asked for more bytes, the second call
    continues at the returned offset with the returned objects on the longer buffer — is a line of the grammar in
    the longer buffer, starting at the ORIGINAL offset, and the header reported is the one it denotes -/
theorem hs_line_resumed_sound (b s : Buf) (o : Nat) (ho : o ≤ b.size) (hfit : (b ++ s).size ≤ 65535)
    {o1 e : Nat} {h1 h : Hdr} {hb1 hb' : Option PHdrVals}
    (hr1 : parseHdrLine b o {} none = (o1, .moreBytes, h1, hb1))
    (hr2 : parseHdrLine (b ++ s) o1 h1 hb1 = (e, .ok, h, hb')) : HdrLineAt (b ++ s) o e h ∧ hb' = none := by
  obtain ⟨hrr, _⟩ := parseHdrLine_resume b s o {} none ⟨ho, hdrOK_new b, trivial⟩ trivial hr1
  rw [hr2] at hrr
  rcases hf : parseHdrLine (b ++ s) o {} none with ⟨e2, er2, h2, hb2⟩
  rw [hf] at hrr
  obtain ⟨q1, q2, q3, _⟩ := hrr
  simp only at q1 q2 q3
  subst q1
  subst q2
  have := q3 (Or.inl rfl)
  cases this
  exact hs_line_sound (b ++ s) o none hfit (Or.inl rfl) hf

/-- the same for ParseHeaders: a block accepted by a resumed call is a block of the grammar in the longer buffer
    from the original offset, and the list object is the one its headers produce -/
theorem hs_block_resumed_sound (b s : Buf) (o k : Nat) (ho : o ≤ b.size) (hfit : (b ++ s).size ≤ 65535)
    {o1 e : Nat} {hl1 hl' : HdrLst} {hb1 hb' : Option PHdrVals}
    (hr1 : parseHeaders b o (hsNew k) none = (o1, .moreBytes, hl1, hb1))
    (hr2 : parseHeaders (b ++ s) o1 hl1 hb1 = (e, .ok, hl', hb')) :
    ∃ hs, hs ≠ [] ∧ HdrBlock (b ++ s) o hs e ∧ hl' = ((hsNew k).acceptAll hs).setCur { state := .fin } ∧
      hb' = none := by
  have hrep : ∀ j, j < (hsNew k).hdrs.size → (hsNew k).hdrs[j]! = {} := by
    intro j hj
    have hj' : j < k := by simpa [hsNew] using hj
    show (Array.replicate k ({} : Hdr))[j]! = {}
    simp [hj']
  have hok1 : hlsOK b (hsNew k) := ⟨fun j _ hj => by rw [hrep j hj]; exact hdrOK_new b, hdrOK_new b⟩
  have hpe : hlsPend (hsNew k) none :=
    ⟨trivial, fun j _ hj => by rw [hrep j hj]; simp [HState.isVal], fun _ => by
      show ¬ (({} : Hdr).state.isVal); simp [HState.isVal]⟩
  obtain ⟨hrr, _⟩ := parseHeaders_resume b s o (hsNew k) none hok1 trivial hpe ho hr1
  rw [hr2] at hrr
  rcases hf : parseHeaders (b ++ s) o (hsNew k) none with ⟨e2, er2, h2, hb2⟩
  rw [hf] at hrr
  obtain ⟨q1, q2, q3, _⟩ := hrr
  simp only at q1 q2 q3
  subst q1
  subst q2
  have := q3 (Or.inl rfl)
  cases this
  exact (hs_block_ok_iff (b ++ s) o k none hfit (Or.inl rfl) e hl' hb').mp hf

/-- a rejected or suspended line is not a line of the grammar (from completeness: the scanner is a function) -/
theorem hs_line_reject (b : Buf) (o : Nat) (hfit : b.size ≤ 65535) {e : Nat} {er : Err} {h : Hdr}
    {hb' : Option PHdrVals} (hr : parseHdrLine b o {} none = (e, er, h, hb')) (hne : er ≠ .ok) :
    ¬ ∃ e' h', HdrLineAt b o e' h' := by
  rintro ⟨e', h', H⟩
  have := H.parse none hfit (Or.inl rfl)
  rw [hr] at this
  cases this
  exact hne rfl

/-! ### tests / non-vacuity (closed computations, not part of the general claims) -/

/-- demo text: `Q :z CR LF W: CR LF CR LF X` -/
def hsDemo : Buf := "Q :z\r\nW:\r\n\r\nX".toUTF8.data

/-- non-vacuity of `HsGeneric` WITH a values object: no line start of the demo text carries a typed name -/
theorem hsDemo_generic : HsGeneric hsDemo 0 (some {}) := by
  refine Or.inr (fun o' h => ?_)
  have hsz : hsDemo.size = 13 := by decide +kernel
  have hlt : o' < 14 := by
    rcases h with rfl | ⟨_, c, hc, _⟩
    · omega
    · have := get?_lt hc; omega
  have all : ∀ o', o' < 14 → getHdrType (hsDemo.extract o' (skipTokenDelim hsDemo o' 58)) = 14 := by
    decide +kernel
  rw [all o' hlt]
  unfold IsOther
  decide

/-- test: ParseHeaders accepts the demo text (values object supplied, capacity 1, two headers), so by
    `hs_block_accepts_iff` the text `[0, 12)` is a block of the grammar -/
example : ∃ hs, hs ≠ [] ∧ HdrBlock hsDemo 0 hs 12 := by
  refine (hs_block_accepts_iff hsDemo 0 1 (some {}) (by decide +kernel) hsDemo_generic 12).mp ?_
  have h1 : (parseHeaders hsDemo 0 (hsNew 1) (some {})).1 = 12 := by decide +kernel
  have h2 : (parseHeaders hsDemo 0 (hsNew 1) (some {})).2.1 = .ok := by decide +kernel
  rcases h : parseHeaders hsDemo 0 (hsNew 1) (some {}) with ⟨e, er, hl', hb'⟩
  rw [h] at h1 h2
  simp only at h1 h2
  subst h1
  subst h2
  exact ⟨_, _, rfl⟩

/-- test: white space inside the name is rejected ("bad character"), hence — `hs_line_reject` — no line of the grammar
    starts there -/
example : ¬ ∃ e' h', HdrLineAt "a b:c\r\nX".toUTF8.data 0 e' h' := by
  have h2 : (parseHdrLine "a b:c\r\nX".toUTF8.data 0 {} none).2.1 = .badChar := by decide +kernel
  rcases h : parseHdrLine "a b:c\r\nX".toUTF8.data 0 {} none with ⟨e, er, hh, hb'⟩
  rw [h] at h2
  simp only at h2
  subst h2
  exact hs_line_reject _ 0 (by decide +kernel) h (by decide)

/-- test: a complete line at the very end of the buffer is NOT accepted yet (one byte of look-ahead is needed to
    tell the line end from a fold) -/
example : (parseHdrLine "a:c\r\n".toUTF8.data 0 {} none).2.1 = .moreBytes := by decide +kernel

/-- test: a resumed call (cut inside the value) — hypotheses of `hs_line_resumed_sound` are satisfiable -/
example : (parseHdrLine "Subject: a".toUTF8.data 0 {} none).2.1 = .moreBytes ∧
    (parseHdrLine ("Subject: a".toUTF8.data ++ "b\r\nX".toUTF8.data)
      (parseHdrLine "Subject: a".toUTF8.data 0 {} none).1
      (parseHdrLine "Subject: a".toUTF8.data 0 {} none).2.2.1
      (parseHdrLine "Subject: a".toUTF8.data 0 {} none).2.2.2).2.1 = .ok := by decide +kernel

/-- demo text with typed lines: `f: <sip:a@b>`, `CSeq: 1 INVITE`, `Q:z`, the empty line, `X` -/
def hsDemoTyped : Buf := "f: <sip:a@b>\r\nCSeq: 1 INVITE\r\nQ:z\r\n\r\nX".toUTF8.data

/-- test: the hypothesis of `hs_block_all_report` is satisfiable with a values object and typed lines (capacity 2,
    three headers): the text `[0, 37)` is a chain of three lines with the names / types reported -/
example : ∃ hs, hs ≠ [] ∧ HsChain hsDemoTyped 0 hs 37 ∧ hs.length = 3 := by
  have h1 : (parseHeaders hsDemoTyped 0 (hsNew 2) (some {})).1 = 37 := by decide +kernel
  have h2 : (parseHeaders hsDemoTyped 0 (hsNew 2) (some {})).2.1 = .ok := by decide +kernel
  have h3 : (parseHeaders hsDemoTyped 0 (hsNew 2) (some {})).2.2.1.n = 3 := by decide +kernel
  rcases h : parseHeaders hsDemoTyped 0 (hsNew 2) (some {}) with ⟨e, er, hl', hb'⟩
  rw [h] at h1 h2 h3
  simp only at h1 h2 h3
  subst h1
  subst h2
  obtain ⟨hs, q1, q2, q3, _⟩ := hs_block_all_report hsDemoTyped 0 2 (some {}) (by decide +kernel) h
  exact ⟨hs, q1, q2, by rw [← q3]; exact h3⟩

/-- test: a resumed ParseHeaders call (cut inside the block) — hypotheses of `hs_block_resumed_sound` are satisfiable -/
example : (parseHeaders "Q:z\r\n".toUTF8.data 0 (hsNew 1) none).2.1 = .moreBytes ∧
    (parseHeaders ("Q:z\r\n".toUTF8.data ++ "\r\nX".toUTF8.data)
      (parseHeaders "Q:z\r\n".toUTF8.data 0 (hsNew 1) none).1
      (parseHeaders "Q:z\r\n".toUTF8.data 0 (hsNew 1) none).2.2.1
      (parseHeaders "Q:z\r\n".toUTF8.data 0 (hsNew 1) none).2.2.2).2.1 = .ok := by decide +kernel

end Sipsp
