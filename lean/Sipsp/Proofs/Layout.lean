/-
  Sipsp.Proofs.Layout — after a successful ParseSIPMsg: the body starts where the header block ended and ends at the
  returned offset; Buf is the buffer up to the returned offset and the raw-message view is exactly the bytes from the
  start offset to the returned offset.
-/
import Sipsp.Proofs.SafeMsg

namespace Sipsp

/-- the layout facts of a finished message: `s` = start offset, `h` = end of the header block, `e` = returned offset -/
structure MsgLayout (m : PSIPMsg) (s h e : Nat) : Prop where
  state : m.state = .fin
  bodyOffs : m.body.offs = h
  bodyEnd : m.body.offs + m.body.len = e
  bufLen : m.bufLen = e
  rawOffs : m.rawOffs = s
  rawEnd : m.rawOffs + m.rawLen = e
  offs : m.offs = s

theorem msgEnd_layout (b : Buf) (m : PSIPMsg) (h e : Nat) (hb : m.body = PField.set h h) (hhe : h ≤ e)
    (hfit : e ≤ 65535) (hs : m.offs ≤ e) : MsgLayout (msgEnd m b e).2.2 m.offs h e := by
  unfold msgEnd PSIPMsg.setBufs
  have h1 : (PField.set h h).offs = h := by unfold PField.set trunc16; simp only; omega
  have h2 : ((PField.set h h).extend e).offs = h := by unfold PField.extend; exact h1
  have h3 : ((PField.set h h).extend e).len = e - h := by
    unfold PField.extend trunc16; simp only; rw [h1]; omega
  refine ⟨rfl, ?_, ?_, rfl, rfl, ?_, rfl⟩
  · show (m.body.extend e).offs = h
    rw [hb]; exact h2
  · show (m.body.extend e).offs + (m.body.extend e).len = e
    rw [hb, h2, h3]; omega
  · show m.offs + (e - m.offs) = e
    omega

theorem msgBody_layout (b : Buf) (o : Nat) (m : PSIPMsg) (flags : Nat) (ho : o ≤ b.size) (hfit : b.size ≤ 65535)
    (hs : m.offs ≤ o) {o' : Nat} {m' : PSIPMsg} (hr : msgBody b o m flags = (o', .ok, m')) :
    MsgLayout m' m.offs o o' := by
  have key : ∀ (m1 : PSIPMsg) (e : Nat), msgEnd m1 b e = (o', .ok, m') → m1.body = PField.set o o →
      m1.offs = m.offs → o ≤ e → e ≤ b.size → MsgLayout m' m.offs o o' := by
    intro m1 e hq hb1 ho1 hoe heb
    have := msgEnd_layout b m1 o e hb1 hoe (by omega) (by omega)
    rw [hq, ho1] at this
    have he : e = o' := by
      have : (msgEnd m1 b e).1 = e := rfl
      rw [hq] at this; exact this.symm
    rw [← he]; exact this
  unfold msgBody at hr
  simp only at hr
  split at hr
  · split at hr
    · cases hr
    · exact key _ o hr rfl rfl (Nat.le_refl _) ho
  · split at hr
    · split at hr
      · split at hr
        · exact key _ b.size hr rfl rfl ho (Nat.le_refl _)
        · cases hr
      · rename_i hle
        exact key _ _ hr rfl rfl (Nat.le_add_right _ _) (by show o + m.pv.clen.uiVal ≤ b.size; omega)
    · split at hr
      · exact key _ o hr rfl rfl (Nat.le_refl _) ho
      · exact key _ b.size hr rfl rfl ho (Nat.le_refl _)

theorem msgErr_not_ok (m : PSIPMsg) (o : Nat) (e : Err) (flags : Nat) (he : e ≠ .ok) :
    (msgErr m o e flags).2.1 ≠ .ok := by
  unfold msgErr
  split
  · exact he
  · split
    · intro hh; cases hh
    · exact he

/-- layout of a successful message parse, relative to the header block the call (or an earlier call) finished:
    `∃ h`, the end of the header block, with `start ≤ … ≤ h ≤ o'` -/
theorem msgHeaders_layout (b : Buf) (o : Nat) (m : PSIPMsg) (flags : Nat) (hfit : b.size ≤ 65535)
    (hst : m.state = .headers) (hok : msgOK2 b o m) (H : MsgSafe b o m) {o' : Nat} {m' : PSIPMsg}
    (hr : msgHeaders b o m flags = (o', .ok, m')) :
    ∃ h, o ≤ h ∧ h ≤ o' ∧ (parseHeaders b o m.hl (some m.pv)).1 = h ∧ (parseHeaders b o m.hl (some m.pv)).2.1 = .ok ∧
      MsgLayout m' m.offs h o' := by
  obtain ⟨ho, _, hrest⟩ := hok
  obtain ⟨hls, hvs, hpe⟩ := hrest (by rw [hst]; decide)
  have hoffs : m.offs ≤ o := H.offs (by rw [hst]; decide)
  have hS := parseHeaders_safe b o m.hl (some m.pv) hfit hls hvs hpe ho (H.hls (Or.inr (Or.inr hst)))
  rw [msgHeaders_eq] at hr
  rcases hp : parseHeaders b o m.hl (some m.pv) with ⟨o1, e1, hl1, hb1⟩
  rw [hp] at hr hS
  unfold afterHeaders at hr
  by_cases he : e1 = .ok
  · subst he
    simp only at hr
    have hR := hS.2.2.2.1 (Or.inl rfl)
    simp only at hR
    have hl := msgBody_layout b o1 _ flags hR.2 hfit (by show m.offs ≤ o1; omega) hr
    have hle : o1 ≤ o' := by have h1 := hl.bodyOffs; have h2 := hl.bodyEnd; omega
    exact ⟨o1, hR.1, hle, rfl, rfl, hl⟩
  · exfalso
    have : (msgErr { m with hl := hl1, pv := hb1.getD m.pv } o1 e1 flags).2.1 ≠ .ok := msgErr_not_ok _ _ _ _ he
    cases e1 <;> first | exact absurd rfl he | (simp only at hr; rw [hr] at this; exact this rfl)

theorem msgFLine_layout (b : Buf) (o : Nat) (m : PSIPMsg) (flags : Nat) (hfit : b.size ≤ 65535)
    (hst : m.state = .fline) (hok : msgOK2 b o m) (H : MsgSafe b o m) {o' : Nat} {m' : PSIPMsg}
    (hr : msgFLine b o m flags = (o', .ok, m')) :
    ∃ h, o ≤ h ∧ h ≤ o' ∧ MsgLayout m' m.offs h o' := by
  obtain ⟨ho, _, hrest⟩ := hok
  obtain ⟨hls, hvs, hpe⟩ := hrest (by rw [hst]; decide)
  have hoffs : m.offs ≤ o := H.offs (by rw [hst]; decide)
  have hF := parseFLine_safe b o m.fl hfit (H.flS (Or.inr hst))
  have hge := parseFLine_ge b o m.fl
  unfold msgFLine at hr
  rcases hp : parseFLine b o m.fl with ⟨o1, e1, fl1⟩
  rw [hp] at hr hF hge
  simp only at hF hge
  have hHls : HlsSafe b o1 m.hl (some m.pv) := (H.hls (Or.inr (Or.inl hst))).mono hge hF.ho
  by_cases he : e1 = .ok
  · subst he
    simp only at hr
    obtain ⟨h, h1, h2, _, _, h3⟩ := msgHeaders_layout b o1 { m with fl := fl1, state := .headers } flags hfit rfl
      ⟨hF.ho, (fun hh => by rcases hh with hh | hh <;> cases hh), fun _ => ⟨hls, hvOK_mono hvs hge hF.ho, hpe⟩⟩
      ⟨⟨H.pnc, hF.mono hF.ho (Nat.le_refl _), H.hl, H.pv, H.body⟩, hF.ho, (fun _ => by show m.offs ≤ o1; omega),
        (fun hh => by rcases hh with hh | hh <;> cases hh), (fun _ => hHls),
        ⟨hF, H.inn.hl.mono hge, H.inn.pv.mono hge hF.ho⟩⟩ hr
    exact ⟨h, by omega, h2, h3⟩
  · exfalso
    have : (msgErr { m with fl := fl1 } o1 e1 flags).2.1 ≠ .ok := msgErr_not_ok _ _ _ _ he
    cases e1 <;> first | exact absurd rfl he | (simp only at hr; rw [hr] at this; exact this rfl)

/-- **layout of a successfully parsed message** (one call; `s` is the offset of the first call: the offset passed in if
    the object is new, the remembered start otherwise) -/
theorem parseSIPMsg_layout (b : Buf) (o : Nat) (m : PSIPMsg) (flags : Nat) (hfit : b.size ≤ 65535)
    (hok : msgOK2 b o m) (H : MsgSafe b o m) {o' : Nat} {m' : PSIPMsg}
    (hr : parseSIPMsg b o m flags = (o', .ok, m')) :
    ∃ h, (if m.state = .init then o else m.offs) ≤ h ∧ h ≤ o' ∧ o' ≤ b.size ∧
      MsgLayout m' (if m.state = .init then o else m.offs) h o' := by
  have hT := parseSIPMsg_safe b o m flags hfit hok H
  rw [hr] at hT
  have hle : o' ≤ b.size := hT.le
  cases hst : m.state
  case init =>
    have hr' : msgFLine b o { m with offs := o, state := .fline } flags = (o', .ok, m') := by
      unfold parseSIPMsg at hr; rw [hst] at hr; exact hr
    obtain ⟨h, h1, h2, h3⟩ := msgFLine_layout b o { m with offs := o, state := .fline } flags hfit rfl
      ⟨hok.1, fun _ => hok.2.1 (Or.inl hst), fun _ => hok.2.2 (by rw [hst]; decide)⟩
      ⟨⟨H.pnc, H.fl, H.hl, H.pv, H.body⟩, H.ho, (fun _ => Nat.le_refl _), (fun _ => H.flS (Or.inl hst)),
        (fun _ => H.hls (Or.inl hst)), ⟨H.inn.fl, H.inn.hl, H.inn.pv⟩⟩ hr'
    exact ⟨h, h1, h2, hle, h3⟩
  case fline =>
    rw [parseSIPMsg_fline b o m flags hst] at hr
    have hoffs : m.offs ≤ o := H.offs (by rw [hst]; decide)
    obtain ⟨h, h1, h2, h3⟩ := msgFLine_layout b o m flags hfit hst hok H hr
    exact ⟨h, by simp only [reduceCtorEq, ↓reduceIte]; omega, h2, hle, by simpa using h3⟩
  case headers =>
    rw [parseSIPMsg_headers b o m flags hst] at hr
    have hoffs : m.offs ≤ o := H.offs (by rw [hst]; decide)
    obtain ⟨h, h1, h2, _, _, h3⟩ := msgHeaders_layout b o m flags hfit hst hok H hr
    exact ⟨h, by simp only [reduceCtorEq, ↓reduceIte]; omega, h2, hle, by simpa using h3⟩
  case body =>
    rw [parseSIPMsg_body b o m flags hst] at hr
    have hoffs : m.offs ≤ o := H.offs (by rw [hst]; decide)
    have h3 := msgBody_layout b o m flags H.ho hfit hoffs hr
    have hge := hT.ge (Or.inl rfl)
    exact ⟨o, by simp only [reduceCtorEq, ↓reduceIte]; omega, hge, hle, by simpa using h3⟩
  all_goals
    (exfalso
     have : parseSIPMsg b o m flags = msgErr m o .bug flags := by unfold parseSIPMsg; rw [hst]
     rw [this] at hr
     have hne := msgErr_not_ok m o .bug flags (by decide)
     rw [hr] at hne; exact hne rfl)

end Sipsp
