/-
  Sipsp.Proofs.SkipQuoted — L1 / L2 / progress for SkipQuoted.
-/
import Sipsp.Proofs.RunLoop
import Sipsp.Model.Params

namespace Sipsp

theorem sq_stepStable (b s : Buf) : StepStable sqMachine b s := by
  intro i c st hb hne
  show sqStep (b ++ s) i c st = sqStep b i c st
  have hne' : ∀ o st', sqStep b i c st ≠ .done o .moreBytes st' := hne
  unfold sqStep at hne' ⊢
  by_cases h34 : (c == 34) = true
  · simp only [h34, if_true]
  · simp only [h34, Bool.false_eq_true, if_false] at hne' ⊢
    by_cases h92 : (c == 92) = true
    · simp only [h92, if_true] at hne' ⊢
      cases h1 : b[i+1]? with
      | none => rw [h1] at hne'; exact absurd rfl (hne' i ())
      | some c1 => rw [get?_app h1]
    · simp only [h92, Bool.false_eq_true, if_false]

theorem sq_eobMore (b : Buf) : EobMore sqMachine b := fun _ _ => rfl

theorem sq_eobRestart (b s : Buf) : EobRestart sqMachine b s := by
  intro i st o st' _ h; cases h; rfl

theorem sq_stepRestart (b s : Buf) : StepRestart sqMachine b s := by
  intro i c st o st' hb hs
  change sqStep b i c st = .done o .moreBytes st' at hs
  unfold sqStep at hs
  by_cases h34 : (c == 34) = true
  · simp only [h34, if_true] at hs; cases hs
  · simp only [h34, Bool.false_eq_true, if_false] at hs
    by_cases h92 : (c == 92) = true
    · simp only [h92, if_true] at hs
      cases h1 : b[i+1]? with
      | none => rw [h1] at hs; simp only [Step.done.injEq, true_and] at hs; obtain ⟨rfl, _⟩ := hs; rfl
      | some c1 => rw [h1] at hs; simp only at hs; split at hs <;> cases hs
    · simp only [h92, Bool.false_eq_true, if_false] at hs
      split at hs
      · cases hs
      · split at hs <;> cases hs

theorem sq_progress : Progress sqMachine := by
  intro b i c st i' st' hb hs
  change sqStep b i c st = .cont i' st' at hs
  unfold sqStep at hs
  repeat' (split at hs)
  all_goals (first | (cases hs; omega) | cases hs)

/-- **L1 for SkipQuoted** -/
theorem skipQuoted_stable (b s : Buf) (o : Nat) {o' : Nat} {e : Err}
    (h : skipQuoted b o = (o', e)) (he : e ≠ .moreBytes) : skipQuoted (b ++ s) o = (o', e) := by
  unfold skipQuoted at h ⊢
  rcases hr : runLoop sqMachine b o () with ⟨o1, e1, u⟩
  rw [hr] at h; simp only [Prod.mk.injEq] at h; obtain ⟨rfl, rfl⟩ := h
  rw [runLoop_stable sqMachine b s (sq_stepStable b s) (sq_eobMore b) o () hr he]

/-- **L2 for SkipQuoted** (it has no object: the continuation offset is the whole saved state) -/
theorem skipQuoted_resume (b s : Buf) (o : Nat) {o' : Nat}
    (h : skipQuoted b o = (o', Err.moreBytes)) : skipQuoted (b ++ s) o' = skipQuoted (b ++ s) o := by
  unfold skipQuoted at h ⊢
  rcases hr : runLoop sqMachine b o () with ⟨o1, e1, u⟩
  rw [hr] at h; simp only [Prod.mk.injEq] at h; obtain ⟨rfl, rfl⟩ := h
  rw [runLoop_resume sqMachine b s (sq_stepStable b s) (sq_stepRestart b s) (sq_eobRestart b s) o () hr]

end Sipsp
