/-
  Sipsp.Proofs.ResetLists — C12 (reset = new) for the URI parameter list and the URI header list objects.

  `URIParamsLst.reset` / `URIHdrsLst.reset` clear the entries `0..n` of the caller's array only (and zero every other
  field). This equals a new object over an array of the same capacity provided the entries ABOVE the one in
  progress (index `n`) are still zero values: the invariant `TailZero`. Here:
    * `tailZero_new`                                        : a new object satisfies the invariant;
    * `tailZero_parseAllURIParams`, `tailZero_parseAllURIHdrs` : every parse call preserves it — any buffer, offset,
      flags, and any verdict (complete, "more values", suspended for more bytes, failed, loop guard);
    * `size_parseAllURIParams`, `size_parseAllURIHdrs`       : no parse call changes the capacity of the array;
    * `uriParams_reset_eq_new`, `uriHdrs_reset_eq_new`       : reset of an object satisfying the invariant = new object
      with the same capacity;
    * `uriParams_reset_after_history`, `uriHdrs_reset_after_history` : FINAL THEOREMS — start from a new object of any
      capacity, apply any finite sequence of parse calls (any buffers, offsets, flags; complete, abandoned while
      suspended, or failed), reset: the result is literally the new object of the original capacity;
    * `uriParams_reset_after_uses`, `uriHdrs_reset_after_uses` : FINAL THEOREMS — the same with Reset calls allowed
      anywhere in the history; `uriParams_behaves_like_new`, `uriHdrs_behaves_like_new`: hence every later parse call
      returns exactly what it returns on a new object.
  (`TailZero` is the same predicate as `C12.TailClean`; it is restated here because proof files do not import
  property files.)
-/
import Sipsp.Model.Params

namespace Sipsp

/-- entries above index `n` are still in their initial state `z` -/
def TailZero {α : Type} (a : Array α) (z : α) (n : Nat) : Prop := ∀ k, n < k → ∀ h : k < a.size, a[k] = z

/-! ### generic facts about the invariant and about `clearUpToP` -/

/-- a new array satisfies the invariant (for every `n`) -/
theorem tailZero_new {α : Type} (z : α) (cap n : Nat) : TailZero (Array.replicate cap z) z n := by
  intro k _ h; simp

/-- writing the entry in progress (index `n`) keeps the tail clean -/
theorem tailZero_set {α : Type} (a : Array α) (z x : α) (n : Nat) (h : TailZero a z n) :
    TailZero (a.set! n x) z n := by
  intro k hk hs
  have hs' : k < a.size := by simpa using hs
  simp only [Array.set!_eq_setIfInBounds]
  rw [Array.getElem_setIfInBounds_ne hs' (Nat.ne_of_lt hk)]
  exact h k hk hs'

theorem tailZero_mono {α : Type} (a : Array α) (z : α) (n m : Nat) (hnm : n ≤ m) (h : TailZero a z n) :
    TailZero a z m := fun k hk hs => h k (by omega) hs

theorem foldl_setz_size {α : Type} (z : α) (l : List Nat) (a : Array α) :
    (l.foldl (fun acc i => acc.set! i z) a).size = a.size := by
  induction l generalizing a with
  | nil => rfl
  | cons x xs ih => simp only [List.foldl_cons]; rw [ih]; simp

theorem foldl_setz_get {α : Type} (z : α) (l : List Nat) (a : Array α) (k : Nat) (h : k < a.size) :
    (l.foldl (fun acc i => acc.set! i z) a)[k]'(by rw [foldl_setz_size]; exact h) = if k ∈ l then z else a[k] := by
  induction l generalizing a with
  | nil => simp
  | cons x xs ih =>
    simp only [List.foldl_cons]
    have hs : k < (a.set! x z).size := by simp [h]
    rw [ih (a.set! x z) hs]
    by_cases hk : k ∈ xs
    · simp [hk]
    · simp only [hk, if_false, List.mem_cons, or_false]
      by_cases hx : k = x
      · subst hx; simp [Array.set!_eq_setIfInBounds]
      · simp only [hx, if_false, Array.set!_eq_setIfInBounds]
        rw [Array.getElem_setIfInBounds_ne]
        exact fun hh => hx hh.symm

/-- clearing `0..n` of an array whose tail is clean gives the all-clean array of the same size -/
theorem clearUpToP_of_tailZero {α : Type} (a : Array α) (z : α) (n : Nat) (h : TailZero a z n) :
    clearUpToP a z n = Array.replicate a.size z := by
  unfold clearUpToP
  apply Array.ext
  · rw [foldl_setz_size]; simp
  · intro k h1 h2
    have hk : k < a.size := by rw [foldl_setz_size] at h1; exact h1
    rw [foldl_setz_get z _ a k hk]
    simp only [List.mem_range, Array.getElem_replicate]
    split
    · rfl
    · rename_i hn
      exact h k (by omega) hk

/-! ### URI parameter list -/

/-- **URIParamsLst.Reset = new list object over an array of the same capacity**, for an object satisfying the
    invariant (every field: array contents, count, type flags, overflow slot, panic marker) -/
theorem uriParams_reset_eq_new (l : URIParamsLst) (h : TailZero l.params {} l.n) :
    l.reset = { params := Array.replicate l.params.size {} } := by
  simp only [URIParamsLst.reset, clearUpToP_of_tailZero l.params {} l.n h]

theorem uriParams_setCur_tail (l : URIParamsLst) (p : URIParam) (h : TailZero l.params {} l.n) :
    TailZero (l.setCur p).params {} l.n ∧ (l.setCur p).n = l.n ∧ (l.setCur p).params.size = l.params.size := by
  unfold URIParamsLst.setCur
  split
  · exact ⟨tailZero_set _ _ _ _ h, rfl, by simp⟩
  · exact ⟨h, rfl, rfl⟩

/-- the object after a completed element (`n` advanced, overflow slot cleared when it was used) -/
theorem uriParams_advance_tail (l : URIParamsLst) (p : URIParam) (t : Nat) (c : Prop) [Decidable c]
    (h : TailZero l.params {} l.n) :
    TailZero (if c then { l.setCur p with types := (l.setCur p).types ||| t, n := (l.setCur p).n + 1 }
              else { { l.setCur p with types := (l.setCur p).types ||| t, n := (l.setCur p).n + 1 } with tmp := {} }).params {}
             (if c then { l.setCur p with types := (l.setCur p).types ||| t, n := (l.setCur p).n + 1 }
              else { { l.setCur p with types := (l.setCur p).types ||| t, n := (l.setCur p).n + 1 } with tmp := {} }).n ∧
    (if c then { l.setCur p with types := (l.setCur p).types ||| t, n := (l.setCur p).n + 1 }
              else { { l.setCur p with types := (l.setCur p).types ||| t, n := (l.setCur p).n + 1 } with tmp := {} }).params.size
      = l.params.size := by
  obtain ⟨h1, h2, h3⟩ := uriParams_setCur_tail l p h
  split
  · exact ⟨by show TailZero (l.setCur p).params {} ((l.setCur p).n + 1)
              rw [h2]; exact tailZero_mono _ _ _ _ (Nat.le_succ _) h1, h3⟩
  · exact ⟨by show TailZero (l.setCur p).params {} ((l.setCur p).n + 1)
              rw [h2]; exact tailZero_mono _ _ _ _ (Nat.le_succ _) h1, h3⟩

/-- the invariant and the capacity are preserved by the element loop, whatever its verdict -/
theorem tailZero_uriParamsLoop (b : Buf) (offs : Nat) (l : URIParamsLst) (flags vNo : Nat)
    (h : TailZero l.params {} l.n) :
    TailZero (uriParamsLoop b offs l flags vNo).2.2.2.params {} (uriParamsLoop b offs l flags vNo).2.2.2.n ∧
    (uriParamsLoop b offs l flags vNo).2.2.2.params.size = l.params.size := by
  fun_induction uriParamsLoop b offs l flags vNo with
  | case1 offs l vNo p next e tp hp he hnm =>
    obtain ⟨h1, h2, h3⟩ := uriParams_setCur_tail l { param := tp, t := p.t } h
    exact ⟨by show TailZero (l.setCur { param := tp, t := p.t }).params {} (l.setCur { param := tp, t := p.t }).n
              rw [h2]; exact h1, h3⟩
  | case2 offs l vNo inArr p next e tp hp he nm hnm t l1 l2 l3 hmv hc ih =>
    have h3 := uriParams_advance_tail l { param := tp, t := t } t inArr h
    have := ih h3.1
    exact ⟨this.1, this.2.trans h3.2⟩
  | case3 offs l vNo inArr p next e tp hp he nm hnm t l1 l2 l3 hmv hc =>
    exact uriParams_advance_tail l { param := tp, t := t } t inArr h
  | case4 offs l vNo inArr p next e tp hp he nm hnm t l1 l2 l3 hmv =>
    exact uriParams_advance_tail l { param := tp, t := t } t inArr h
  | case5 offs l vNo p next e tp hp he hmb =>
    obtain ⟨h1, h2, h3⟩ := uriParams_setCur_tail l { param := tp, t := p.t } h
    exact ⟨by show TailZero (l.setCur { param := tp, t := p.t }).params {} (l.setCur { param := tp, t := p.t }).n
              rw [h2]; exact h1, h3⟩
  | case6 offs l vNo p next e tp hp he hmb =>
    obtain ⟨h1, h2, h3⟩ := uriParams_setCur_tail l {} h
    exact ⟨by show TailZero (l.setCur {}).params {} (l.setCur {}).n
              rw [h2]; exact h1, h3⟩

/-- **the URI parameter list invariant is preserved by every ParseAllURIParams call** (whatever the buffer, the
    offset, the flags and the verdict: complete, suspended, failed) -/
theorem tailZero_parseAllURIParams (b : Buf) (offs : Nat) (l : URIParamsLst) (flags : Nat)
    (h : TailZero l.params {} l.n) :
    TailZero (parseAllURIParams b offs l flags).2.2.2.params {} (parseAllURIParams b offs l flags).2.2.2.n :=
  (tailZero_uriParamsLoop b offs l _ 0 h).1

/-- ParseAllURIParams never changes the capacity of the caller's array -/
theorem size_parseAllURIParams (b : Buf) (offs : Nat) (l : URIParamsLst) (flags : Nat)
    (h : TailZero l.params {} l.n) :
    (parseAllURIParams b offs l flags).2.2.2.params.size = l.params.size :=
  (tailZero_uriParamsLoop b offs l _ 0 h).2

/-- **C12 for URIParamsLst, every history**: start from a new object over an array of capacity `cap`; apply any
    finite sequence of ParseAllURIParams calls (any buffers, offsets and flags; each call may complete, be
    abandoned while suspended, or fail); reset: the object equals the new object of capacity `cap`. -/
theorem uriParams_reset_after_history (cap : Nat) (hist : List (Buf × Nat × Nat)) :
    (hist.foldl (fun l (c : Buf × Nat × Nat) => (parseAllURIParams c.1 c.2.1 l c.2.2).2.2.2)
      ({ params := Array.replicate cap {} } : URIParamsLst)).reset
    = { params := Array.replicate cap {} } := by
  have key : ∀ (hs : List (Buf × Nat × Nat)) (l0 : URIParamsLst), TailZero l0.params {} l0.n →
      TailZero (hs.foldl (fun l (c : Buf × Nat × Nat) => (parseAllURIParams c.1 c.2.1 l c.2.2).2.2.2) l0).params {}
        (hs.foldl (fun l (c : Buf × Nat × Nat) => (parseAllURIParams c.1 c.2.1 l c.2.2).2.2.2) l0).n ∧
      (hs.foldl (fun l (c : Buf × Nat × Nat) => (parseAllURIParams c.1 c.2.1 l c.2.2).2.2.2) l0).params.size
        = l0.params.size := by
    intro hs
    induction hs with
    | nil => intro l0 h; exact ⟨h, rfl⟩
    | cons x xs ih =>
      intro l0 h
      have h1 := tailZero_parseAllURIParams x.1 x.2.1 l0 x.2.2 h
      have h2 := size_parseAllURIParams x.1 x.2.1 l0 x.2.2 h
      have := ih _ h1
      exact ⟨this.1, this.2.trans h2⟩
  obtain ⟨k1, k2⟩ := key hist { params := Array.replicate cap {} } (tailZero_new _ _ _)
  rw [uriParams_reset_eq_new _ k1, k2]
  simp

/-! ### URI header list -/

/-- **URIHdrsLst.Reset = new list object over an array of the same capacity**, for an object satisfying the
    invariant -/
theorem uriHdrs_reset_eq_new (l : URIHdrsLst) (h : TailZero l.hdrs {} l.n) :
    l.reset = { hdrs := Array.replicate l.hdrs.size {} } := by
  simp only [URIHdrsLst.reset, clearUpToP_of_tailZero l.hdrs {} l.n h]

theorem uriHdrs_setCur_tail (l : URIHdrsLst) (p : PTokParam) (h : TailZero l.hdrs {} l.n) :
    TailZero (l.setCur p).hdrs {} l.n ∧ (l.setCur p).n = l.n ∧ (l.setCur p).hdrs.size = l.hdrs.size := by
  unfold URIHdrsLst.setCur
  split
  · exact ⟨tailZero_set _ _ _ _ h, rfl, by simp⟩
  · exact ⟨h, rfl, rfl⟩

theorem uriHdrs_advance_tail (l : URIHdrsLst) (p : PTokParam) (c : Prop) [Decidable c]
    (h : TailZero l.hdrs {} l.n) :
    TailZero (if c then { l.setCur p with n := (l.setCur p).n + 1 }
              else { { l.setCur p with n := (l.setCur p).n + 1 } with tmp := {} }).hdrs {}
             (if c then { l.setCur p with n := (l.setCur p).n + 1 }
              else { { l.setCur p with n := (l.setCur p).n + 1 } with tmp := {} }).n ∧
    (if c then { l.setCur p with n := (l.setCur p).n + 1 }
              else { { l.setCur p with n := (l.setCur p).n + 1 } with tmp := {} }).hdrs.size = l.hdrs.size := by
  obtain ⟨h1, h2, h3⟩ := uriHdrs_setCur_tail l p h
  split
  · exact ⟨by show TailZero (l.setCur p).hdrs {} ((l.setCur p).n + 1)
              rw [h2]; exact tailZero_mono _ _ _ _ (Nat.le_succ _) h1, h3⟩
  · exact ⟨by show TailZero (l.setCur p).hdrs {} ((l.setCur p).n + 1)
              rw [h2]; exact tailZero_mono _ _ _ _ (Nat.le_succ _) h1, h3⟩

theorem tailZero_uriHdrsLoop (b : Buf) (offs : Nat) (l : URIHdrsLst) (flags vNo : Nat)
    (h : TailZero l.hdrs {} l.n) :
    TailZero (uriHdrsLoop b offs l flags vNo).2.2.2.hdrs {} (uriHdrsLoop b offs l flags vNo).2.2.2.n ∧
    (uriHdrsLoop b offs l flags vNo).2.2.2.hdrs.size = l.hdrs.size := by
  fun_induction uriHdrsLoop b offs l flags vNo with
  | case1 offs l vNo inArr next e tp hp he l1 l2 l3 hmv hc ih =>
    have h3 := uriHdrs_advance_tail l tp inArr h
    have := ih h3.1
    exact ⟨this.1, this.2.trans h3.2⟩
  | case2 offs l vNo inArr next e tp hp he l1 l2 l3 hmv hc =>
    exact uriHdrs_advance_tail l tp inArr h
  | case3 offs l vNo inArr next e tp hp he l1 l2 l3 hmv =>
    exact uriHdrs_advance_tail l tp inArr h
  | case4 offs l vNo next e tp hp he hmb =>
    obtain ⟨h1, h2, h3⟩ := uriHdrs_setCur_tail l tp h
    exact ⟨by show TailZero (l.setCur tp).hdrs {} (l.setCur tp).n
              rw [h2]; exact h1, h3⟩
  | case5 offs l vNo next e tp hp he hmb =>
    obtain ⟨h1, h2, h3⟩ := uriHdrs_setCur_tail l {} h
    exact ⟨by show TailZero (l.setCur {}).hdrs {} (l.setCur {}).n
              rw [h2]; exact h1, h3⟩

/-- **the URI header list invariant is preserved by every ParseAllURIHdrs call** (whatever the buffer, the offset,
    the flags and the verdict) -/
theorem tailZero_parseAllURIHdrs (b : Buf) (offs : Nat) (l : URIHdrsLst) (flags : Nat)
    (h : TailZero l.hdrs {} l.n) :
    TailZero (parseAllURIHdrs b offs l flags).2.2.2.hdrs {} (parseAllURIHdrs b offs l flags).2.2.2.n :=
  (tailZero_uriHdrsLoop b offs l _ 0 h).1

/-- ParseAllURIHdrs never changes the capacity of the caller's array -/
theorem size_parseAllURIHdrs (b : Buf) (offs : Nat) (l : URIHdrsLst) (flags : Nat)
    (h : TailZero l.hdrs {} l.n) :
    (parseAllURIHdrs b offs l flags).2.2.2.hdrs.size = l.hdrs.size :=
  (tailZero_uriHdrsLoop b offs l _ 0 h).2

/-- **C12 for URIHdrsLst, every history** (as `uriParams_reset_after_history`) -/
theorem uriHdrs_reset_after_history (cap : Nat) (hist : List (Buf × Nat × Nat)) :
    (hist.foldl (fun l (c : Buf × Nat × Nat) => (parseAllURIHdrs c.1 c.2.1 l c.2.2).2.2.2)
      ({ hdrs := Array.replicate cap {} } : URIHdrsLst)).reset
    = { hdrs := Array.replicate cap {} } := by
  have key : ∀ (hs : List (Buf × Nat × Nat)) (l0 : URIHdrsLst), TailZero l0.hdrs {} l0.n →
      TailZero (hs.foldl (fun l (c : Buf × Nat × Nat) => (parseAllURIHdrs c.1 c.2.1 l c.2.2).2.2.2) l0).hdrs {}
        (hs.foldl (fun l (c : Buf × Nat × Nat) => (parseAllURIHdrs c.1 c.2.1 l c.2.2).2.2.2) l0).n ∧
      (hs.foldl (fun l (c : Buf × Nat × Nat) => (parseAllURIHdrs c.1 c.2.1 l c.2.2).2.2.2) l0).hdrs.size
        = l0.hdrs.size := by
    intro hs
    induction hs with
    | nil => intro l0 h; exact ⟨h, rfl⟩
    | cons x xs ih =>
      intro l0 h
      have h1 := tailZero_parseAllURIHdrs x.1 x.2.1 l0 x.2.2 h
      have h2 := size_parseAllURIHdrs x.1 x.2.1 l0 x.2.2 h
      have := ih _ h1
      exact ⟨this.1, this.2.trans h2⟩
  obtain ⟨k1, k2⟩ := key hist { hdrs := Array.replicate cap {} } (tailZero_new _ _ _)
  rw [uriHdrs_reset_eq_new _ k1, k2]
  simp

/-! ### histories with resets in between -/

/-- Reset itself re-establishes the invariant and keeps the capacity -/
theorem tailZero_uriParams_reset (l : URIParamsLst) (h : TailZero l.params {} l.n) :
    TailZero l.reset.params {} l.reset.n ∧ l.reset.params.size = l.params.size := by
  rw [uriParams_reset_eq_new l h]
  exact ⟨tailZero_new _ _ _, by simp⟩

theorem tailZero_uriHdrs_reset (l : URIHdrsLst) (h : TailZero l.hdrs {} l.n) :
    TailZero l.reset.hdrs {} l.reset.n ∧ l.reset.hdrs.size = l.hdrs.size := by
  rw [uriHdrs_reset_eq_new l h]
  exact ⟨tailZero_new _ _ _, by simp⟩

/-- one use of a URI parameter list object: a parse call `(buffer, offset, flags)` or (`none`) a Reset -/
def uriParamsUse (l : URIParamsLst) : Option (Buf × Nat × Nat) → URIParamsLst
  | some c => (parseAllURIParams c.1 c.2.1 l c.2.2).2.2.2
  | none => l.reset

def uriHdrsUse (l : URIHdrsLst) : Option (Buf × Nat × Nat) → URIHdrsLst
  | some c => (parseAllURIHdrs c.1 c.2.1 l c.2.2).2.2.2
  | none => l.reset

/-- **C12 for URIParamsLst, every history of parse calls and resets**: whatever was done with the object since it
    was created over an array of capacity `cap`, Reset makes it equal to the new object of capacity `cap` — so every
    later call gives the result it gives on a new object -/
theorem uriParams_reset_after_uses (cap : Nat) (hist : List (Option (Buf × Nat × Nat))) :
    (hist.foldl uriParamsUse ({ params := Array.replicate cap {} } : URIParamsLst)).reset
    = { params := Array.replicate cap {} } := by
  have key : ∀ (hs : List (Option (Buf × Nat × Nat))) (l0 : URIParamsLst), TailZero l0.params {} l0.n →
      TailZero (hs.foldl uriParamsUse l0).params {} (hs.foldl uriParamsUse l0).n ∧
      (hs.foldl uriParamsUse l0).params.size = l0.params.size := by
    intro hs
    induction hs with
    | nil => intro l0 h; exact ⟨h, rfl⟩
    | cons x xs ih =>
      intro l0 h
      cases x with
      | none =>
        obtain ⟨h1, h2⟩ := tailZero_uriParams_reset l0 h
        have := ih _ h1
        exact ⟨this.1, this.2.trans h2⟩
      | some c =>
        have h1 := tailZero_parseAllURIParams c.1 c.2.1 l0 c.2.2 h
        have h2 := size_parseAllURIParams c.1 c.2.1 l0 c.2.2 h
        have := ih _ h1
        exact ⟨this.1, this.2.trans h2⟩
  obtain ⟨k1, k2⟩ := key hist { params := Array.replicate cap {} } (tailZero_new _ _ _)
  rw [uriParams_reset_eq_new _ k1, k2]
  simp

theorem uriHdrs_reset_after_uses (cap : Nat) (hist : List (Option (Buf × Nat × Nat))) :
    (hist.foldl uriHdrsUse ({ hdrs := Array.replicate cap {} } : URIHdrsLst)).reset
    = { hdrs := Array.replicate cap {} } := by
  have key : ∀ (hs : List (Option (Buf × Nat × Nat))) (l0 : URIHdrsLst), TailZero l0.hdrs {} l0.n →
      TailZero (hs.foldl uriHdrsUse l0).hdrs {} (hs.foldl uriHdrsUse l0).n ∧
      (hs.foldl uriHdrsUse l0).hdrs.size = l0.hdrs.size := by
    intro hs
    induction hs with
    | nil => intro l0 h; exact ⟨h, rfl⟩
    | cons x xs ih =>
      intro l0 h
      cases x with
      | none =>
        obtain ⟨h1, h2⟩ := tailZero_uriHdrs_reset l0 h
        have := ih _ h1
        exact ⟨this.1, this.2.trans h2⟩
      | some c =>
        have h1 := tailZero_parseAllURIHdrs c.1 c.2.1 l0 c.2.2 h
        have h2 := size_parseAllURIHdrs c.1 c.2.1 l0 c.2.2 h
        have := ih _ h1
        exact ⟨this.1, this.2.trans h2⟩
  obtain ⟨k1, k2⟩ := key hist { hdrs := Array.replicate cap {} } (tailZero_new _ _ _)
  rw [uriHdrs_reset_eq_new _ k1, k2]
  simp

/-- the behavioural reading: after any history and a Reset, a parse call returns what it returns on a new object -/
theorem uriParams_behaves_like_new (cap : Nat) (hist : List (Option (Buf × Nat × Nat))) (b : Buf) (offs flags : Nat) :
    parseAllURIParams b offs (hist.foldl uriParamsUse { params := Array.replicate cap {} }).reset flags
    = parseAllURIParams b offs { params := Array.replicate cap {} } flags := by
  rw [uriParams_reset_after_uses]

theorem uriHdrs_behaves_like_new (cap : Nat) (hist : List (Option (Buf × Nat × Nat))) (b : Buf) (offs flags : Nat) :
    parseAllURIHdrs b offs (hist.foldl uriHdrsUse { hdrs := Array.replicate cap {} }).reset flags
    = parseAllURIHdrs b offs { hdrs := Array.replicate cap {} } flags := by
  rw [uriHdrs_reset_after_uses]

/-! ### tests / non-vacuity (closed computations, `decide +kernel`) -/

-- a suspended three-parameter parse into a 3-element array leaves a used object (two complete entries, one in
-- progress, type flags set); reset zeroes the visible fields
example :
    let l := (parseAllURIParams "transport=udp;lr;ttl".toUTF8.data 0 { params := Array.replicate 3 {} } 0).2.2.2
    l.n = 2 ∧ l.types = 33 ∧ l.params[2]!.param.state = .name ∧
    l.reset.n = 0 ∧ l.reset.types = 0 ∧ l.reset.params[2]!.param.state = .init := by decide +kernel
-- the same into a 1-element array: the overflow slot is in use
example :
    let l := (parseAllURIParams "transport=udp;lr;ttl".toUTF8.data 0 { params := Array.replicate 1 {} } 0).2.2.2
    l.n = 2 ∧ l.tmp.param.state = .name ∧ l.reset.n = 0 ∧ l.reset.tmp.param.state = .init := by decide +kernel
example :
    let l := (parseAllURIHdrs "a=b&c=d&e".toUTF8.data 0 { hdrs := Array.replicate 3 {} } 0).2.2.2
    l.n = 2 ∧ l.hdrs[2]!.state = .name ∧ l.reset.n = 0 ∧ l.reset.hdrs[2]!.state = .init := by decide +kernel
-- the invariant is not trivially true: it fails for an object with a dirty slot above `n`
example : ¬ TailZero (#[{}, {}, { state := .name }] : Array PTokParam) {} 0 := by
  intro h
  have := h 2 (by decide) (by decide)
  exact absurd this (by decide)

end Sipsp
