/-
  Sipsp.Proofs.HeadersL2 — L2 (resumption) for ParseHeaders.
-/
import Sipsp.Proofs.HdrLineL2

namespace Sipsp

/-! ### a header line that ends with OK has consumed something -/

theorem hlAfterColon_ok_ge (b : Buf) (j : Nat) (h : Hdr) (hb : Option PHdrVals) (hj : j ≤ b.size)
    (hok : hbOK b j hb) {o : Nat} {st' : HLσ}
    (hs : hlAfterColon b j h hb = .done o .ok st') : j ≤ o := by
  unfold hlAfterColon at hs
  split at hs
  · cases hs
  · rename_i nm hnm
    simp only at hs
    rcases hp : parseBody b j { h with type := getHdrType nm } hb with ⟨n, e1, h2, hb2⟩
    rw [hp] at hs
    simp only at hs
    split at hs
    · simp only [Step.done.injEq] at hs
      obtain ⟨rfl, rfl, _⟩ := hs
      exact (parseBody_post b j _ hb hok hj hp).1
    · cases hs

theorem hlValEnd_ok_gt (b : Buf) (j : Nat) (h : Hdr) (hb : Option PHdrVals) {o : Nat} {st' : HLσ}
    (hs : hlValEnd b j h hb = .done o .ok st') : j < o := by
  unfold hlValEnd at hs
  rcases hsk : skipLWS b j 0 with ⟨n, crl, e1⟩
  rw [hsk] at hs
  have hv := skipLWS_verdicts b j 0 hsk
  rcases hv with rfl | rfl | rfl | rfl <;> simp only at hs
  · cases hs
  · simp only [Step.done.injEq] at hs
    have := skipLWS_eoh_range b j 0 hsk (by decide)
    omega
  · cases hs
  · cases hs

theorem hlName_ok_gt (b : Buf) (i : Nat) (h : Hdr) (hb : Option PHdrVals) (hi : i ≤ b.size)
    (hok : hbOK b i hb) {o : Nat} {st' : HLσ} (hs : hlName b i h hb = .done o .ok st') : i < o := by
  unfold hlName at hs
  have hge := skipTokenDelim_ge b i 58
  simp only at hs
  split at hs
  · cases hs
  · rename_i c hj
    have hjl := get?_lt hj
    split at hs
    · split at hs <;> cases hs
    · split at hs
      · split at hs
        · cases hs
        · have := hlAfterColon_ok_ge b _ _ hb (by omega) (hbOK_mono hok (by omega) (by omega)) hs
          omega
      · cases hs

theorem hlCont_ok_gt (b : Buf) (i : Nat) (h : Hdr) (hb : Option PHdrVals) (hi : i ≤ b.size)
    (hok : hbOK b i hb) (hp : hlPending (h, hb)) {o : Nat} {st' : HLσ}
    (hs : hlCont b i h hb = .done o .ok st') : i < o := by
  unfold hlCont at hs
  cases hb with
  | none => cases hs
  | some hv =>
    obtain ⟨ok1, ok2, ok3, ok4, ok5⟩ := hok
    obtain ⟨p1, p2, p3, p4, p5, p6, p7, p8⟩ := hp
    simp only at hs
    cases hst : h.state <;> simp only [hst] at hs
    case hFrom =>
      rcases hq : parseFromVal b i hv.from_ with ⟨n1, e1, f1⟩
      rw [hq] at hs; simp only [Step.done.injEq] at hs; obtain ⟨rfl, rfl, _⟩ := hs
      exact ((parseNameAddrPVal_post HdrFrom b i hv.from_ hq (Or.inl rfl)).2 (p1 hst)).1
    case hTo =>
      rcases hq : parseNameAddrPVal HdrTo b i hv.to with ⟨n1, e1, f1⟩
      rw [hq] at hs; simp only [Step.done.injEq] at hs; obtain ⟨rfl, rfl, _⟩ := hs
      exact ((parseNameAddrPVal_post HdrTo b i hv.to hq (Or.inl rfl)).2 (p2 hst)).1
    case hCallID =>
      rcases hq : parseCallIDVal b i hv.callid with ⟨n1, e1, f1⟩
      rw [hq] at hs; simp only [Step.done.injEq] at hs; obtain ⟨rfl, rfl, _⟩ := hs
      exact (parseCallIDVal_post b i hv.callid hi hq).2.2.2 (p3 hst)
    case hCSeq =>
      rcases hq : parseCSeqVal b i hv.cseq with ⟨n1, e1, f1⟩
      rw [hq] at hs; simp only [Step.done.injEq] at hs; obtain ⟨rfl, rfl, _⟩ := hs
      exact (parseCSeqVal_post b i hv.cseq hi hq).2.2.2 (p4 hst)
    case hCLen =>
      rcases hq : parseCLenVal b i hv.clen with ⟨n1, e1, f1⟩
      rw [hq] at hs; simp only [Step.done.injEq] at hs; obtain ⟨rfl, rfl, _⟩ := hs
      exact (parseCLenVal_post b i hv.clen hi hq).2.2.2 (p5 hst)
    case hContact =>
      rcases hq : parseAllContactValues b i hv.contacts with ⟨n1, e1, f1⟩
      rw [hq] at hs; simp only [Step.done.injEq] at hs; obtain ⟨rfl, rfl, _⟩ := hs
      exact parseAllContactValues_ok_gt b i hv.contacts ok4 hi (p6 hst) hq
    case hExpires =>
      rcases hq : parseUIntVal b i hv.expires with ⟨n1, e1, f1⟩
      rw [hq] at hs; simp only [Step.done.injEq] at hs; obtain ⟨rfl, rfl, _⟩ := hs
      exact (parseUIntVal_post b i hv.expires hi hq).2.2.2 (p7 hst)
    case hPAI =>
      rcases hq : parseAllPAIValues b i hv.pais with ⟨n1, e1, f1⟩
      rw [hq] at hs; simp only [Step.done.injEq] at hs; obtain ⟨rfl, rfl, _⟩ := hs
      exact parseAllPAIValues_ok_gt b i hv.pais ok5 hi (p8 hst) hq
    all_goals cases hs

theorem hlStep_ok_gt (b : Buf) (i : Nat) (c : UInt8) (st : HLσ) (hb : b[i]? = some c) (hI : hlInv b i st)
    (hp : hlPending st) {o : Nat} {st' : HLσ} (hs : hlStep b i c st = .done o .ok st') : i < o := by
  obtain ⟨h, hv⟩ := st
  obtain ⟨hi, hd, hok⟩ := hI
  have hok : hbOK b i hv := hok
  have hlt := get?_lt hb
  unfold hlStep at hs
  simp only at hs
  cases hst : h.state <;> rw [hst] at hs <;> simp only at hs
  case init =>
    split at hs
    · split at hs
      · cases hs
      · split at hs <;> cases hs
    · split at hs
      · cases hs
      · exact hlName_ok_gt b i _ hv hi hok hs
  case name => exact hlName_ok_gt b i h hv hi hok hs
  case nameEnd =>
    have hge := skipWS_ge b i
    split at hs
    · cases hs
    · rename_i c1 hj
      have hjl := get?_lt hj
      split at hs
      · have := hlAfterColon_ok_ge b (skipWS b i + 1) _ hv (by omega) (hbOK_mono hok (by omega) (by omega)) hs
        omega
      · cases hs
  case bodyStart =>
    rcases hsk : skipLWS b i 0 with ⟨n, crl, e1⟩
    rw [hsk] at hs
    have hvd := skipLWS_verdicts b i 0 hsk
    rcases hvd with rfl | rfl | rfl | rfl <;> simp only at hs
    · cases hs
    · simp only [Step.done.injEq] at hs
      have := skipLWS_eoh_range b i 0 hsk (by decide)
      omega
    · cases hs
    · cases hs
  case val =>
    have hge := skipToken_ge b i
    split at hs
    · cases hs
    · have := hlValEnd_ok_gt b (skipToken b i) _ hv hs
      omega
  case valEnd => exact hlValEnd_ok_gt b i h hv hs
  case fin => cases hs
  all_goals exact hlCont_ok_gt b i h hv hi hok hp (by simpa only [hst] using hs)

/-- **ParseHdrLine, OK, from a legitimate (possibly suspended) header object: the offset has moved** -/
theorem parseHdrLine_ok_gt (b : Buf) (o : Nat) (h : Hdr) (hb : Option PHdrVals) (hok : hlOK b o h hb)
    (hp : hlPending (h, hb)) {o' : Nat} {h' : Hdr} {hb' : Option PHdrVals}
    (hr : parseHdrLine b o h hb = (o', .ok, h', hb')) : o < o' := by
  unfold parseHdrLine at hr
  rcases hrl : runLoop hlMachine b o (h, hb) with ⟨o1, e1, h1, hb1⟩
  rw [hrl] at hr
  simp only [Prod.mk.injEq] at hr
  obtain ⟨rfl, rfl, rfl, rfl⟩ := hr
  have key := runLoop_inv hlMachine b (fun i st => hlInv b i st ∧ o ≤ i ∧ hlPending st)
    (fun r => r.2.1 = .ok → o < r.1)
    (by
      intro i c st i' st' hb hP hs
      refine ⟨fun hlt => ⟨hl_invCont b i c st i' st' hb hP.1 hs hlt, by have := hP.2.1; omega,
        hlPending_of_not_isVal (hl_cont_not_isVal b i c st hs)⟩, fun _ hq => by cases hq⟩)
    (by
      intro i c st o2 e2 st2 hb hP hs hq
      subst hq
      have := hlStep_ok_gt b i c st hb hP.1 hP.2.2 hs
      have := hP.2.1
      omega)
    (by
      intro i st _ _ hq
      simp only [hlMachine] at hq
      cases hq)
    o (h, hb) ⟨hok, Nat.le_refl _, hp⟩
  rw [hrl] at key
  exact key rfl

/-! ### ParseHeaders -/

def hdrsObs (st : HdrLst × Option PHdrVals) : HdrLst × Option PHdrVals := (st.1, st.2.map PHdrVals.obs)

theorem hlSetCur_cur (hl : HdrLst) (h : Hdr) : (hl.setCur h).cur = h := by
  unfold HdrLst.setCur HdrLst.cur
  split
  · rename_i hin
    have h' : hl.n < (hl.hdrs.set! hl.n h).size := by simpa using hin
    simp only [h', ↓reduceIte]
    simp [hin]
  · rename_i hin; simp only [hin, ↓reduceIte]

theorem hlSetCur_setCur (hl : HdrLst) (p q : Hdr) : (hl.setCur p).setCur q = hl.setCur q := by
  unfold HdrLst.setCur
  split
  · rename_i hin
    have h' : hl.n < (hl.hdrs.set! hl.n p).size := by simpa using hin
    simp only [h', ↓reduceIte]
    simp [Array.setIfInBounds_setIfInBounds]
  · rename_i hin; simp only [hin, ↓reduceIte]

theorem hlSetCur_hdr_out (hl : HdrLst) (h : Hdr) (hin : ¬ hl.n < hl.hdrs.size) : (hl.setCur h).hdr = h := by
  unfold HdrLst.setCur; rw [if_neg hin]

/-- the slots after the current one (and the scratch slot while it is not in use) hold no suspended header -/
def hlsPend (hl : HdrLst) (hb : Option PHdrVals) : Prop :=
  hlPending (hl.cur, hb) ∧ (∀ k, hl.n < k → k < hl.hdrs.size → ¬ hl.hdrs[k]!.state.isVal) ∧
  (hl.n < hl.hdrs.size → ¬ hl.hdr.state.isVal)

theorem hlsPend_next {hl : HdrLst} {hb : Option PHdrVals} (h : Hdr) (hb' : Option PHdrVals)
    (hp : hlsPend hl hb) : hlsPend ((hl.setCur h).accept h) hb' := by
  obtain ⟨_, p2, p3⟩ := hp
  have hn : ((hl.setCur h).accept h).n = hl.n + 1 := by rw [accept_n, hlSetCur_n]
  have hs : ((hl.setCur h).accept h).hdrs.size = hl.hdrs.size := by rw [accept_hdrs, hlSetCur_size]
  have hk : ∀ k, hl.n < k → k < hl.hdrs.size → ((hl.setCur h).accept h).hdrs[k]! = hl.hdrs[k]! := by
    intro k h1 _; rw [accept_hdrs, hlSetCur_ne hl h k (by omega)]
  have hh : ¬ ((hl.setCur h).accept h).hdr.state.isVal := by
    rw [accept_hdr, hlSetCur_n, hlSetCur_size]
    split
    · rename_i hin; rw [hlSetCur_hdr_in hl h hin]; exact p3 hin
    · simp [HState.isVal]
  refine ⟨?_, ?_, fun _ => hh⟩
  · apply hlPending_of_not_isVal
    unfold HdrLst.cur
    rw [hn, hs]
    split
    · rename_i hin; rw [hk _ (by omega) hin]; exact p2 _ (by omega) hin
    · exact hh
  · intro k h1 h2
    rw [hn] at h1; rw [hs] at h2
    rw [hk k (by omega) h2]; exact p2 k (by omega) h2

theorem hlsOK_setCur {b : Buf} {hl : HdrLst} (h : Hdr) (hk : hlsOK b hl) (hd : hdrOK b h) : hlsOK b (hl.setCur h) := by
  refine ⟨fun k hk1 hk2 => ?_, ?_⟩
  · rw [hlSetCur_n] at hk1
    rw [hlSetCur_size] at hk2
    by_cases hkn : hl.n = k
    · subst hkn
      have : (hl.setCur h).cur = h := hlSetCur_cur hl h
      unfold HdrLst.cur at this
      rw [hlSetCur_n, hlSetCur_size, if_pos hk2] at this
      rw [this]; exact hd
    · rw [hlSetCur_ne hl h k hkn]; exact hk.1 k hk1 hk2
  · by_cases hin : hl.n < hl.hdrs.size
    · rw [hlSetCur_hdr_in hl h hin]; exact hk.2
    · rw [hlSetCur_hdr_out hl h hin]; exact hd

theorem hlsPend_setCur {hl : HdrLst} {hb : Option PHdrVals} (h : Hdr) (hb' : Option PHdrVals)
    (hp : hlsPend hl hb) (hpe : hlPending (h, hb')) : hlsPend (hl.setCur h) hb' := by
  obtain ⟨_, p2, p3⟩ := hp
  refine ⟨by rw [hlSetCur_cur]; exact hpe, ?_, ?_⟩
  · intro k h1 h2
    rw [hlSetCur_n] at h1; rw [hlSetCur_size] at h2
    rw [hlSetCur_ne hl h k (by omega)]; exact p2 k h1 h2
  · intro hin
    rw [hlSetCur_n, hlSetCur_size] at hin
    rw [hlSetCur_hdr_in hl h hin]; exact p3 hin

/-- re-entering the header loop with the suspended header in place: the first ParseHdrLine call decides -/
theorem parseHeaders_reenter (B : Buf) (n offs : Nat) (hl : HdrLst) (h : Hdr) (hb hb1 : Option PHdrVals)
    (h1 : offs < B.size) (h2 : n < B.size) (hle : offs ≤ n)
    (hgt : ∀ o' h' hb', parseHdrLine B n h hb1 = (o', .ok, h', hb') → n < o')
    (hrr : RR hlObs (parseHdrLine B n h hb1) (parseHdrLine B offs hl.cur hb)) :
    RR hdrsObs (parseHeaders B n (hl.setCur h) hb1) (parseHeaders B offs hl hb) := by
  rw [parseHeaders.eq_1 B n (hl.setCur h) hb1, parseHeaders.eq_1 B offs hl hb]
  rw [if_pos h1, if_pos h2, hlSetCur_cur]
  rcases hq1 : parseHdrLine B n h hb1 with ⟨n1, e1, g1, v1⟩
  rcases hq2 : parseHdrLine B offs hl.cur hb with ⟨n2, e2, g2, v2⟩
  rw [hq1, hq2] at hrr
  obtain ⟨hn, he, hg, ho⟩ := hrr
  simp only at hn he hg ho
  subst hn; subst he
  by_cases hgo : Err.goesOn e1
  · have := hg hgo
    simp only [Prod.mk.injEq] at this
    obtain ⟨rfl, rfl⟩ := this
    apply RR.of_eq
    rcases hgo with rfl | rfl | rfl | rfl <;> simp only [hlSetCur_setCur, hlSetCur_n]
    -- OK: both guards hold
    have g1' : n < n1 := hgt n1 g1 v1 hq1
    rw [if_pos g1', if_pos (show offs < n1 by omega)]
  · have hk1 : e1 ≠ .ok := fun h => hgo (Or.inl h)
    have hk2 : e1 ≠ .empty := fun h => hgo (Or.inr (Or.inr (Or.inr h)))
    cases e1 <;> first | exact absurd rfl hk1 | exact absurd rfl hk2 | skip
    all_goals
      simp only [hlSetCur_setCur]
      refine ⟨rfl, rfl, fun hh => absurd hh hgo, ?_⟩
      simp only [hlObs, hdrsObs, Prod.mk.injEq] at ho ⊢
      rw [ho.1, ho.2]
      exact ⟨rfl, rfl⟩

/-- **L2 for ParseHeaders** -/
theorem parseHeaders_resume (b s : Buf) (offs : Nat) (hl : HdrLst) (hb : Option PHdrVals)
    (hok1 : hlsOK b hl) (hok2 : hbOK b offs hb) (hpe : hlsPend hl hb) (ho : offs ≤ b.size)
    {o' : Nat} {hl' : HdrLst} {hb' : Option PHdrVals}
    (hr : parseHeaders b offs hl hb = (o', Err.moreBytes, hl', hb')) :
    RR hdrsObs (parseHeaders (b ++ s) o' hl' hb') (parseHeaders (b ++ s) offs hl hb) ∧
      hlsOK (b ++ s) hl' ∧ hbOK (b ++ s) o' hb' ∧ hlsPend hl' hb' ∧ offs ≤ o' ∧ o' ≤ b.size := by
  induction hk : b.size - offs using Nat.strongRecOn generalizing offs hl hb with
  | _ k ih =>
    rw [parseHeaders] at hr
    by_cases hlt : offs < b.size
    · have hltB : offs < (b ++ s).size := by rw [Array.size_append]; omega
      rw [if_pos hlt] at hr
      rcases hp : parseHdrLine b offs hl.cur hb with ⟨n, e1, h, hb1⟩
      rw [hp] at hr
      have hI : hlOK b offs hl.cur hb := ⟨by omega, hlsOK_cur hok1, hok2⟩
      cases e1 <;> simp only at hr <;> try (cases hr; done)
      case ok =>
        have hpB := parseHdrLine_stable b s offs hl.cur hb hI hp (by decide)
        have hpost := parseHdrLine_post b offs hl.cur hb hI hp (Or.inl rfl)
        split at hr
        · rename_i hg
          have := ih (b.size - n) (by omega) n _ hb1 (hlsOK_next h hok1) hpost.2 (hlsPend_next h hb1 hpe)
            hpost.1 hr rfl
          refine ⟨?_, this.2.1, this.2.2.1, this.2.2.2.1, by omega, this.2.2.2.2.2⟩
          rw [parseHeaders.eq_1 (b ++ s) offs hl hb, if_pos hltB, hpB]
          simp only
          rw [if_pos hg]
          exact this.1
        · cases hr
      case empty => split at hr <;> cases hr
      case moreBytes =>
        simp only [Prod.mk.injEq, true_and] at hr
        obtain ⟨rfl, rfl, rfl⟩ := hr
        obtain ⟨hrr, hokN, hpeN, hr1, hr2⟩ := parseHdrLine_resume b s offs hl.cur hb hI hpe.1 hp
        refine ⟨?_, hlsOK_setCur h (hlsOK_grows s hok1) hokN.2.1, hokN.2.2, hlsPend_setCur h hb1 hpe hpeN, hr1, hr2⟩
        by_cases hnB : n < (b ++ s).size
        · exact parseHeaders_reenter (b ++ s) n offs hl h hb hb1 hltB hnB hr1
            (fun o' h' hb' hq => parseHdrLine_ok_gt (b ++ s) n h hb1 hokN hpeN hq) hrr
        · -- nothing was appended
          have hsz : (b ++ s).size ≤ n := by omega
          rw [Array.size_append] at hsz
          have hs0 : s = #[] := Array.eq_empty_of_size_eq_zero (by omega)
          subst hs0
          simp only [Array.append_empty]
          have hn : n = b.size := by omega
          rw [parseHeaders.eq_1 b n (hl.setCur h) hb1, if_neg (by omega)]
          rw [parseHeaders.eq_1 b offs hl hb, if_pos hlt, hp]
          exact RR.refl _ _
    · rw [if_neg hlt] at hr
      simp only [Prod.mk.injEq, true_and] at hr
      obtain ⟨rfl, rfl, rfl⟩ := hr
      exact ⟨RR.refl _ _, hlsOK_grows s hok1, hbOK_grows s hok2, hpe, Nat.le_refl _, ho⟩

end Sipsp
