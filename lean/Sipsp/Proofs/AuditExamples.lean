/-
  Audit round Y3: non-vacuity examples for exported theorems and a few small missing lemmas.

  Every `example` below instantiates ALL hypotheses of an exported theorem on a concrete, non-trivial input and
  applies the theorem. Closed computations are discharged by `decide +kernel`; they are TESTS (non-vacuity
  witnesses), never the general claim. For resumption theorems the object passed in is a genuinely suspended one: it
  is obtained by running the model on a proper prefix of the input (never written by hand), and its legitimacy
  condition is obtained from the resumption theorem applied to the preceding call (which started from a new object).

  Theorems of this file (to be re-exported by the coordinator); everything else is an `example` or a test definition:
    C17  `ae_params_reset_fresh`, `ae_hdrs_reset_fresh` : Reset() of a clean URI parameter / header list is `Fresh`
         (the soundness theorems of Proofs/ParamSound apply after Reset; used on a really used list below).
    C20  `ae_ip4PrefixAt_size`, `ae_ip4Prefix_size` (any verdict), `ae_ip4Prefix_pos_size`, `ae_containsIP4_size` :
         the address array returned by IP4Prefix / ContainsIP4 has exactly 4 entries.
    C14  `ae_parseURI_bare_sips` : the 5 bytes `sips:` (any letter case) give ErrURITooShort at position 5, type and
         scheme field already filled in; `ae_parseURI_bare_scheme` : all three bare schemes, code and position
         (`sip:` / `tel:` are 4 bytes: `C14.err_too_short`, position 4, object untouched).
    C04  `ae_CtSafe_new`, `ae_PaSafe_new` : a NEW contacts / identities object satisfies the safety invariant at any
         offset inside the buffer; `ae_msg_suspended_legit` : after MoreBytes the message object is legitimate
         (`msgOK2`, `MsgSafe`) on every extension; `ae_sig_after_suspension(_guarded)` : the chain used to apply
         `C04.sig_never_panics_history` to a suspended object, for any input;
         `ae_parse{UIntVal,CLenVal,CSeqVal,NameAddrPVal,AllContactValues,AllPAIValues,FLine,HdrLine}_offset_monotone` :
         `o ≤ o' ∧ o' ≤ len` after OK / MoreBytes in one uniform shape (`…_mv` for MoreValues, `ae_parseHdrLine_ok_advances`).
    C18  `ae_adjust_wf` (with `ae_ulenOf_le`, `ae_ulenStep_le`, `ae_moved_inside`) : a relocated URI is well formed again
         (`WF` with the same length), so `C18.adjust_moves` applies to a second relocation.
  Notes.
    * C03 `stable_msg` and a BadChar first line: the hypotheses allow it only when the flags already exclude "body to
      the end of the buffer" (example with SIPMsgCLenReqF); with flags 0 the side condition is false for that result
      (shown as a test) and the strengthened `C03.stable_msg_errors` is the one that applies (example).
    * The model function that the C19 / SigCompose theorems speak about is `getMsgSigCore` (the guard in front of it is
      `getMsgSig`, Proofs/SigGuard); the examples follow that.
    * `User-Agent` IS a fingerprinted header type (10 ∈ sigHdrs): the C19 filler headers used below are Subject and
      X-Filler.
  Nothing is left unproved in this file; no example of the task list was skipped.
-/
import Sipsp.Properties.C17
import Sipsp.Properties.C02
import Sipsp.Proofs.AuditFixB
import Sipsp.Properties.C03
import Sipsp.Properties.C04
import Sipsp.Proofs.SigGuard
import Sipsp.Properties.C05
import Sipsp.Properties.C06
import Sipsp.Properties.C10
import Sipsp.Properties.C11
import Sipsp.Properties.C14
import Sipsp.Properties.C15
import Sipsp.Properties.C18
import Sipsp.Properties.C19
import Sipsp.Properties.C20

namespace Sipsp

/-! ## helpers -/

/-- a triple whose verdict component is known, written out -/
theorem ae_eta3 {α γ : Type} (r : α × Err × γ) {e : Err} (h : r.2.1 = e) : r = (r.1, e, r.2.2) := by
  subst h; rfl

/-- a 4-tuple whose verdict component is known, written out -/
theorem ae_eta4 {α γ δ : Type} (r : α × Err × γ × δ) {e : Err} (h : r.2.1 = e) :
    r = (r.1, e, r.2.2.1, r.2.2.2) := by
  subst h; rfl

/-! ## (B)(i) C17: a reset URI parameter / header list is `Fresh` -/

/-- Reset() of a clean URI parameter list is `Fresh`: the soundness theorems of Proofs/ParamSound apply after Reset -/
theorem ae_params_reset_fresh {l : URIParamsLst} (h : plClean l) : l.reset.Fresh := by
  have hsz : l.reset.params.size = l.params.size := clearUpToP_size _ _ _
  refine ⟨fun i x _ hx => ?_, rfl⟩
  have hi : i < l.reset.params.size := by
    rcases Nat.lt_or_ge i l.reset.params.size with h | h
    · exact h
    · rw [Array.getElem?_eq_none h] at hx; cases hx
  have hk : i < l.params.size := by rw [← hsz]; exact hi
  have e1 : l.reset.params[i]! = x := by
    rw [getElem!_def, hx]
  rw [← e1]
  show (clearUpToP l.params {} l.n)[i]! = {}
  rw [clearUpToP_get _ _ _ _ hk]
  split
  · rfl
  · exact h.1 i (by omega) hk

/-- Reset() of a clean URI header list is `Fresh` -/
theorem ae_hdrs_reset_fresh {l : URIHdrsLst} (h : hlClean l) : l.reset.Fresh := by
  have hsz : l.reset.hdrs.size = l.hdrs.size := clearUpToP_size _ _ _
  refine ⟨fun i x _ hx => ?_, rfl⟩
  have hi : i < l.reset.hdrs.size := by
    rcases Nat.lt_or_ge i l.reset.hdrs.size with h | h
    · exact h
    · rw [Array.getElem?_eq_none h] at hx; cases hx
  have hk : i < l.hdrs.size := by rw [← hsz]; exact hi
  have e1 : l.reset.hdrs[i]! = x := by
    rw [getElem!_def, hx]
  rw [← e1]
  show (clearUpToP l.hdrs {} l.n)[i]! = {}
  rw [clearUpToP_get _ _ _ _ hk]
  split
  · rfl
  · exact h.1 i (by omega) hk

/-! ### C17, the use of `ae_params_reset_fresh`: a USED list (two parameters stored, a third one under way, verdict
      MoreBytes), Reset, then the soundness theorem `parseAllURIParams_ok_iff` of Proofs/ParamSound on a second text -/

def aeR17T1 : Buf := "a=1;b=2;c".toUTF8.data
def aeR17T2 : Buf := "x=9;lr".toUTF8.data
/-- the list after the first parse (capacity 4) -/
def aeR17L : URIParamsLst := (parseAllURIParams aeR17T1 0 { params := Array.replicate 4 {} } POptTokURIParamF).2.2.2
def aeR17R2 : Nat × Nat × Err × URIParamsLst :=
  parseAllURIParams aeR17T2 0 aeR17L.reset (POptTokURIParamF ||| POptInputEndF)

-- test: the first list really was used; the parse after Reset ends with EOH after 2 parameters
example : aeR17L.n = 2 ∧ aeR17L.params[0]! ≠ {} ∧ aeR17R2.2.2.1 = .eoh ∧ aeR17R2.2.1 = 2 ∧ aeR17R2.1 = 6 := by
  decide +kernel

theorem aeR17_fresh : aeR17L.reset.Fresh :=
  ae_params_reset_fresh
    (parseAllURIParams_post aeR17T1 0 _ POptTokURIParamF (by decide) (plOK_new _ 4) (Nat.zero_le _)).1.2

-- the soundness direction of `parseAllURIParams_ok_iff` applied to the RESET list: the second text is a list of the
-- grammar, and the returned object is the reset list with its items pushed in order
example : ∃ tps, PSList aeR17T2 ((POptTokURIParamF ||| POptInputEndF) ||| POptParamSemiSepF) 0 tps aeR17R2.1 .eoh ∧
    aeR17R2.2.1 = tps.length ∧ aeR17R2.2.2.2 = (tps.map (typed aeR17T2)).foldl URIParamsLst.push aeR17L.reset :=
  (parseAllURIParams_ok_iff (by decide +kernel) aeR17L.reset aeR17_fresh).mp
    ⟨(by
      have h : aeR17R2.2.2.1 = .eoh := by decide +kernel
      have e : aeR17R2 = (aeR17R2.1, aeR17R2.2.1, aeR17R2.2.2.1, aeR17R2.2.2.2) := rfl
      rw [h] at e
      exact e), Or.inr rfl⟩

/-! ## C02: resumption theorems applied to genuinely suspended objects

  Pattern: the input `B` is cut twice, `B = b1 ++ s1 ++ s2`. Call 1 runs on `b1` from a new object and is suspended
  (`R1`); call 2 runs on `b1 ++ s1` from the suspended object and is suspended again (`R2`). The theorem is applied
  first to call 1 (new object: legitimacy by the `*_new` lemma) — which yields the legitimacy of the suspended object
  `R1` on `b1 ++ s1` — and then to call 2, whose object is `R1`, the one the model returned. -/

/-! ### `C02.resume_contacts` -/

def aeCtB : Buf := "<sip:a@b>, <sip:c@d>;q=1\r\nX".toUTF8.data
def aeCt1 : Buf := aeCtB.extract 0 5
def aeCtS1 : Buf := aeCtB.extract 5 15
def aeCtS2 : Buf := aeCtB.extract 15 aeCtB.size
/-- a new contacts object over a cleared array of capacity 2 -/
def aeCtNew : PContacts := { vals := Array.replicate 2 {} }
/-- call 1: `<sip:` from the new object -/
def aeCtR1 : Nat × Err × PContacts := parseAllContactValues aeCt1 0 aeCtNew
/-- call 2, resumed with what call 1 returned: `<sip:a@b>, <sip` -/
def aeCtR2 : Nat × Err × PContacts := parseAllContactValues (aeCt1 ++ aeCtS1) aeCtR1.1 aeCtR1.2.2

-- test: both calls are suspended; after call 2 one value is stored and the second one is under way; the cuts are
-- proper; the one-shot call on the whole input is definitive (OK, two values)
example : aeCtR1.2.1 = .moreBytes ∧ aeCtR2.2.1 = .moreBytes ∧ aeCtR2.2.2.n = 1 ∧ aeCtR1.1 = 5 ∧ aeCtR2.1 = 15 ∧
    aeCt1 ++ aeCtS1 ++ aeCtS2 = aeCtB ∧ aeCtS1.size = 10 ∧ aeCtS2.size = 12 ∧
    (parseAllContactValues aeCtB 0 aeCtNew).2.1 = .ok ∧ (parseAllContactValues aeCtB 0 aeCtNew).2.2.n = 2 := by
  decide +kernel

-- `C02.resume_contacts` with ALL hypotheses instantiated on the suspended object `aeCtR1` (returned by call 1)
example :
    RR PContacts.obs (parseAllContactValues (aeCt1 ++ aeCtS1 ++ aeCtS2) aeCtR2.1 aeCtR2.2.2)
      (parseAllContactValues (aeCt1 ++ aeCtS1 ++ aeCtS2) aeCtR1.1 aeCtR1.2.2) ∧
    ctOK (aeCt1 ++ aeCtS1 ++ aeCtS2) aeCtR2.1 aeCtR2.2.2 ∧ aeCtR2.2.2.cur.state ≠ .fin ∧
    aeCtR1.1 ≤ aeCtR2.1 ∧ aeCtR2.1 ≤ (aeCt1 ++ aeCtS1).size := by
  have h1 := C02.resume_contacts aeCt1 aeCtS1 0 aeCtNew (afb_ctOK_new _ _ (Nat.zero_le _) 2) (Nat.zero_le _)
    (ae_eta3 aeCtR1 (by decide +kernel))
  exact C02.resume_contacts (aeCt1 ++ aeCtS1) aeCtS2 aeCtR1.1 aeCtR1.2.2 h1.2.1
    (by have := h1.2.2.2.2; rw [Array.size_append]; omega) (ae_eta3 aeCtR2 (by decide +kernel))

/-! ### `C02.resume_pais` -/

def aePaB : Buf := "<sip:a@b>, \"x\" <sip:c@d>\r\nX".toUTF8.data
def aePa1 : Buf := aePaB.extract 0 5
def aePaS1 : Buf := aePaB.extract 5 15
def aePaS2 : Buf := aePaB.extract 15 aePaB.size
def aePaR1 : Nat × Err × PPAIs := parseAllPAIValues aePa1 0 {}
def aePaR2 : Nat × Err × PPAIs := parseAllPAIValues (aePa1 ++ aePaS1) aePaR1.1 aePaR1.2.2

-- test: both calls are suspended (call 2 inside the quoted display name of the second identity, one stored)
example : aePaR1.2.1 = .moreBytes ∧ aePaR2.2.1 = .moreBytes ∧ aePaR2.2.2.n = 1 ∧ aePaR1.1 = 5 ∧ aePaR2.1 = 15 ∧
    aePa1 ++ aePaS1 ++ aePaS2 = aePaB ∧ aePaS1.size = 10 ∧ aePaS2.size = 12 ∧
    (parseAllPAIValues aePaB 0 {}).2.1 = .ok ∧ (parseAllPAIValues aePaB 0 {}).2.2.n = 2 := by
  decide +kernel

-- `C02.resume_pais` on the suspended object `aePaR1`
example :
    RR PPAIs.obs (parseAllPAIValues (aePa1 ++ aePaS1 ++ aePaS2) aePaR2.1 aePaR2.2.2)
      (parseAllPAIValues (aePa1 ++ aePaS1 ++ aePaS2) aePaR1.1 aePaR1.2.2) ∧
    paOK (aePa1 ++ aePaS1 ++ aePaS2) aePaR2.1 aePaR2.2.2 ∧ aePaR2.2.2.cur.state ≠ .fin ∧
    aePaR1.1 ≤ aePaR2.1 ∧ aePaR2.1 ≤ (aePa1 ++ aePaS1).size := by
  have h1 := C02.resume_pais aePa1 aePaS1 0 {} (afb_paOK_new _ _ (Nat.zero_le _)) (Nat.zero_le _)
    (ae_eta3 aePaR1 (by decide +kernel))
  exact C02.resume_pais (aePa1 ++ aePaS1) aePaS2 aePaR1.1 aePaR1.2.2 h1.2.1
    (by have := h1.2.2.2.2; rw [Array.size_append]; omega) (ae_eta3 aePaR2 (by decide +kernel))

/-! ### `C02.resume_hdrline` -/

def aeHlB : Buf := "From: \"A\" <sip:a@b>;tag=x1\r\nX".toUTF8.data
def aeHl1 : Buf := aeHlB.extract 0 3
def aeHlS1 : Buf := aeHlB.extract 3 17
def aeHlS2 : Buf := aeHlB.extract 17 aeHlB.size
def aeHlR1 : Nat × Err × Hdr × Option PHdrVals := parseHdrLine aeHl1 0 {} (some (afbNewHv 2))
def aeHlR2 : Nat × Err × Hdr × Option PHdrVals :=
  parseHdrLine (aeHl1 ++ aeHlS1) aeHlR1.1 aeHlR1.2.2.1 aeHlR1.2.2.2

-- test: call 1 is suspended inside the header name, call 2 inside the From value (state `hFrom`)
example : aeHlR1.2.1 = .moreBytes ∧ aeHlR2.2.1 = .moreBytes ∧ aeHlR2.2.2.1.state = .hFrom ∧ aeHlR1.1 = 3 ∧
    aeHlR2.1 = 17 ∧ aeHl1 ++ aeHlS1 ++ aeHlS2 = aeHlB ∧ aeHlS1.size = 14 ∧ aeHlS2.size = 12 ∧
    (parseHdrLine aeHlB 0 {} (some (afbNewHv 2))).2.1 = .ok := by
  decide +kernel

-- `C02.resume_hdrline` on the suspended pair returned by call 1
example :
    RR hlObs (parseHdrLine (aeHl1 ++ aeHlS1 ++ aeHlS2) aeHlR2.1 aeHlR2.2.2.1 aeHlR2.2.2.2)
      (parseHdrLine (aeHl1 ++ aeHlS1 ++ aeHlS2) aeHlR1.1 aeHlR1.2.2.1 aeHlR1.2.2.2) ∧
    hlOK (aeHl1 ++ aeHlS1 ++ aeHlS2) aeHlR2.1 aeHlR2.2.2.1 aeHlR2.2.2.2 ∧
    hlPending (aeHlR2.2.2.1, aeHlR2.2.2.2) ∧ aeHlR1.1 ≤ aeHlR2.1 ∧ aeHlR2.1 ≤ (aeHl1 ++ aeHlS1).size := by
  have h1 := C02.resume_hdrline aeHl1 aeHlS1 0 {} (some (afbNewHv 2))
    ⟨Nat.zero_le _, hdrOK_new _, afb_hvOK_new _ _ (Nat.zero_le _) 2⟩
    (hlPending_of_not_isVal (by simp [HState.isVal])) (ae_eta4 aeHlR1 (by decide +kernel))
  exact C02.resume_hdrline (aeHl1 ++ aeHlS1) aeHlS2 aeHlR1.1 aeHlR1.2.2.1 aeHlR1.2.2.2 h1.2.1 h1.2.2.1
    (ae_eta4 aeHlR2 (by decide +kernel))

/-! ### `C02.resume_headers` -/

def aeHsB : Buf := "Via: x\r\nCSeq: 17 INVITE\r\nContact: <sip:a@b>\r\n\r\n".toUTF8.data
def aeHs1 : Buf := aeHsB.extract 0 12
def aeHsS1 : Buf := aeHsB.extract 12 30
def aeHsS2 : Buf := aeHsB.extract 30 aeHsB.size
def aeHsNew : HdrLst := { hdrs := Array.replicate 4 {} }
def aeHsR1 : Nat × Err × HdrLst × Option PHdrVals := parseHeaders aeHs1 0 aeHsNew (some (afbNewHv 2))
def aeHsR2 : Nat × Err × HdrLst × Option PHdrVals :=
  parseHeaders (aeHs1 ++ aeHsS1) aeHsR1.1 aeHsR1.2.2.1 aeHsR1.2.2.2

-- test: call 1 is suspended inside the CSeq line (one header stored), call 2 inside the Contact line (two stored)
example : aeHsR1.2.1 = .moreBytes ∧ aeHsR1.2.2.1.n = 1 ∧ aeHsR2.2.1 = .moreBytes ∧ aeHsR2.2.2.1.n = 2 ∧
    aeHsR1.1 = 12 ∧ aeHsR2.1 = 30 ∧ aeHs1 ++ aeHsS1 ++ aeHsS2 = aeHsB ∧ aeHsS1.size = 18 ∧ aeHsS2.size = 17 ∧
    (parseHeaders aeHsB 0 aeHsNew (some (afbNewHv 2))).2.1 = .ok ∧
    (parseHeaders aeHsB 0 aeHsNew (some (afbNewHv 2))).2.2.1.n = 3 := by
  decide +kernel

-- `C02.resume_headers` on the suspended pair returned by call 1
example :
    RR hdrsObs (parseHeaders (aeHs1 ++ aeHsS1 ++ aeHsS2) aeHsR2.1 aeHsR2.2.2.1 aeHsR2.2.2.2)
      (parseHeaders (aeHs1 ++ aeHsS1 ++ aeHsS2) aeHsR1.1 aeHsR1.2.2.1 aeHsR1.2.2.2) ∧
    hlsOK (aeHs1 ++ aeHsS1 ++ aeHsS2) aeHsR2.2.2.1 ∧ hbOK (aeHs1 ++ aeHsS1 ++ aeHsS2) aeHsR2.1 aeHsR2.2.2.2 ∧
    hlsPend aeHsR2.2.2.1 aeHsR2.2.2.2 ∧ aeHsR1.1 ≤ aeHsR2.1 ∧ aeHsR2.1 ≤ (aeHs1 ++ aeHsS1).size := by
  have h0 := afb_headersInv_new aeHs1 0 (Nat.zero_le _) 4 2 false
  have h1 := C02.resume_headers aeHs1 aeHsS1 0 aeHsNew (some (afbNewHv 2)) h0.1 h0.2.1 h0.2.2.1 h0.2.2.2
    (ae_eta4 aeHsR1 (by decide +kernel))
  exact C02.resume_headers (aeHs1 ++ aeHsS1) aeHsS2 aeHsR1.1 aeHsR1.2.2.1 aeHsR1.2.2.2 h1.2.1 h1.2.2.1 h1.2.2.2.1
    (by have := h1.2.2.2.2.2; rw [Array.size_append]; omega) (ae_eta4 aeHsR2 (by decide +kernel))

/-! ### `C02.resume_fline` -/

def aeFlB : Buf := "INVITE sip:a@b SIP/2.0\r\nX".toUTF8.data
def aeFl1 : Buf := aeFlB.extract 0 16
def aeFlS1 : Buf := aeFlB.extract 16 23
def aeFlS2 : Buf := aeFlB.extract 23 aeFlB.size
def aeFlR1 : Nat × Err × PFLine := parseFLine aeFl1 0 {}
def aeFlR2 : Nat × Err × PFLine := parseFLine (aeFl1 ++ aeFlS1) aeFlR1.1 aeFlR1.2.2

-- test: call 1 is suspended inside the version (`INVITE sip:a@b S`), call 2 between CR and LF
example : aeFlR1.2.1 = .moreBytes ∧ aeFlR1.2.2.state = .reqVer ∧ aeFlR2.2.1 = .moreBytes ∧
    aeFlR2.2.2.state = .crlf ∧ aeFl1 ++ aeFlS1 ++ aeFlS2 = aeFlB ∧ aeFlS1.size = 7 ∧ aeFlS2.size = 2 ∧
    (parseFLine aeFlB 0 {}).2.1 = .ok ∧ (parseFLine aeFlB 0 {}).1 = 24 := by
  decide +kernel

-- `C02.resume_fline` on the suspended object returned by call 1
example :
    parseFLine (aeFl1 ++ aeFlS1 ++ aeFlS2) aeFlR2.1 aeFlR2.2.2 =
      parseFLine (aeFl1 ++ aeFlS1 ++ aeFlS2) aeFlR1.1 aeFlR1.2.2 ∧
    flOK aeFlR2.2.2 ∧ aeFlR2.1 ≤ (aeFl1 ++ aeFlS1).size := by
  have h1 := C02.resume_fline aeFl1 aeFlS1 0 {} (Nat.zero_le _) afb_flOK_new (by decide +kernel)
    (ae_eta3 aeFlR1 (by decide +kernel))
  exact C02.resume_fline (aeFl1 ++ aeFlS1) aeFlS2 aeFlR1.1 aeFlR1.2.2
    (by have := h1.2.2; rw [Array.size_append]; omega) h1.2.1 (by decide +kernel)
    (ae_eta3 aeFlR2 (by decide +kernel))

/-! ### `C02.resume_nameaddr` -/

def aeNaB : Buf := "\"Al\" <sip:a@b;x=1>;tag=t1;y=2\r\nX".toUTF8.data
def aeNa1 : Buf := aeNaB.extract 0 3
def aeNaS1 : Buf := aeNaB.extract 3 22
def aeNaS2 : Buf := aeNaB.extract 22 aeNaB.size
def aeNaR1 : Nat × Err × PFromBody := parseNameAddrPVal HdrFrom aeNa1 0 {}
def aeNaR2 : Nat × Err × PFromBody := parseNameAddrPVal HdrFrom (aeNa1 ++ aeNaS1) aeNaR1.1 aeNaR1.2.2

-- test: call 1 is suspended inside the quoted display name, call 2 inside the name of the first parameter
example : aeNaR1.2.1 = .moreBytes ∧ aeNaR2.2.1 = .moreBytes ∧ aeNaR2.2.2.state = .paramName ∧
    aeNa1 ++ aeNaS1 ++ aeNaS2 = aeNaB ∧ aeNaS1.size = 19 ∧ aeNaS2.size = 10 ∧
    (parseNameAddrPVal HdrFrom aeNaB 0 {}).2.1 = .ok := by
  decide +kernel

-- `C02.resume_nameaddr` on the suspended object returned by call 1
example :
    ResEq PFromBody.obs (parseNameAddrPVal HdrFrom (aeNa1 ++ aeNaS1 ++ aeNaS2) aeNaR2.1 aeNaR2.2.2)
      (parseNameAddrPVal HdrFrom (aeNa1 ++ aeNaS1 ++ aeNaS2) aeNaR1.1 aeNaR1.2.2) ∧
    naOK (aeNa1 ++ aeNaS1 ++ aeNaS2) aeNaR2.1 aeNaR2.2.2 := by
  have h1 := C02.resume_nameaddr HdrFrom aeNa1 aeNaS1 0 {} aeNaR1.1 aeNaR1.2.2 (naOK_new _ _ (Nat.zero_le _))
    (ae_eta3 aeNaR1 (by decide +kernel))
  exact C02.resume_nameaddr HdrFrom (aeNa1 ++ aeNaS1) aeNaS2 aeNaR1.1 aeNaR1.2.2 aeNaR2.1 aeNaR2.2.2 h1.2
    (ae_eta3 aeNaR2 (by decide +kernel))

/-! ### `C02.resume_cseq` -/

def aeCsB : Buf := " 4711 INVITE\r\nX".toUTF8.data
def aeCs1 : Buf := aeCsB.extract 0 3
def aeCsS1 : Buf := aeCsB.extract 3 9
def aeCsS2 : Buf := aeCsB.extract 9 aeCsB.size
def aeCsR1 : Nat × Err × PCSeqBody := parseCSeqVal aeCs1 0 {}
def aeCsR2 : Nat × Err × PCSeqBody := parseCSeqVal (aeCs1 ++ aeCsS1) aeCsR1.1 aeCsR1.2.2

-- test: call 1 is suspended inside the number (` 47`), call 2 inside the method name (` 4711 INV`)
example : aeCsR1.2.1 = .moreBytes ∧ aeCsR1.2.2.cseqNo = 47 ∧ aeCsR2.2.1 = .moreBytes ∧ aeCsR2.2.2.cseqNo = 4711 ∧
    aeCs1 ++ aeCsS1 ++ aeCsS2 = aeCsB ∧ aeCsS1.size = 6 ∧ aeCsS2.size = 6 ∧
    (parseCSeqVal aeCsB 0 {}).2.1 = .ok := by
  decide +kernel

-- `C02.resume_cseq` on the suspended object returned by call 1
example :
    parseCSeqVal (aeCs1 ++ aeCsS1 ++ aeCsS2) aeCsR2.1 aeCsR2.2.2 =
      parseCSeqVal (aeCs1 ++ aeCsS1 ++ aeCsS2) aeCsR1.1 aeCsR1.2.2 ∧
    csOK (aeCs1 ++ aeCsS1 ++ aeCsS2) aeCsR2.1 aeCsR2.2.2 := by
  have h1 := C02.resume_cseq aeCs1 aeCsS1 0 {} aeCsR1.1 aeCsR1.2.2
    (Or.inr ⟨Nat.zero_le _, (fun hh => by cases hh), (fun hh => by cases hh)⟩) (ae_eta3 aeCsR1 (by decide +kernel))
  exact C02.resume_cseq (aeCs1 ++ aeCsS1) aeCsS2 aeCsR1.1 aeCsR1.2.2 aeCsR2.1 aeCsR2.2.2 h1.2
    (ae_eta3 aeCsR2 (by decide +kernel))

/-! ## C03: `stable_msg` with a NON-exempt definitive verdict -/

/-- a request with a Content-Length header and a 3-byte body -/
def aeM3B : Buf := "OPTIONS sip:a@b SIP/2.0\r\nCall-ID: x\r\nCSeq: 1 OPTIONS\r\nFrom: <sip:a@b>;tag=1\r\nTo: <sip:c@d>\r\nContent-Length: 3\r\n\r\nabc".toUTF8.data
/-- bytes that arrive later (the start of the next message) -/
def aeM3S : Buf := "INVITE sip:x@y SIP/2.0\r\n".toUTF8.data
/-- an object from Init with caller arrays of capacity 8 (headers) and 2 (contacts) -/
def aeM3I : PSIPMsg := ({} : PSIPMsg).init 0 ((some ()).map fun _ => Array.replicate 8 {})
  ((some ()).map fun _ => Array.replicate 2 {})
def aeM3R : Nat × Err × PSIPMsg := parseSIPMsg aeM3B 0 aeM3I 0

-- test: OK at the end of the body (116), Content-Length parsed, so the result is NOT in the exempted class
example : aeM3R.2.1 = .ok ∧ aeM3R.1 = 116 ∧ aeM3R.2.2.pv.clen.parsed = true ∧ aeM3S.size = 24 := by decide +kernel

-- `C03.stable_msg` (flags 0) on an OK message with Content-Length: the verdict, the offset and the object do not
-- change when the next message's bytes arrive
example : parseSIPMsg (aeM3B ++ aeM3S) 0 aeM3I 0 = (aeM3R.1, .ok, aeM3R.2.2) :=
  C03.stable_msg aeM3B aeM3S 0 aeM3I 0 (msgOK_init _ 0 (Nat.zero_le _) {} 0 8 2 (some ()) (some ()))
    (by decide +kernel) (by decide) (ae_eta3 aeM3R (by decide +kernel)) (by decide)
    (fun hx => by have h := hx.2.1; revert h; decide +kernel)

/-- a first line with a bad byte (CR right after the method) -/
def aeM3Bad : Buf := "INVITE\r\nVia: SIP/2.0/UDP h\r\n\r\n".toUTF8.data
def aeM3RBad (flags : Nat) : Nat × Err × PSIPMsg := parseSIPMsg aeM3Bad 0 aeM3I flags

-- test: BadChar at offset 6, with flags 0 and with the Content-Length-required flag
example : (aeM3RBad 0).2.1 = .badChar ∧ (aeM3RBad 0).1 = 6 ∧ (aeM3RBad SIPMsgCLenReqF).2.1 = .badChar ∧
    (aeM3RBad SIPMsgCLenReqF).1 = 6 := by decide +kernel

-- `C03.stable_msg` on a BadChar first line: its hypotheses ALLOW it only when the flags already rule out "body to the
-- end of the buffer" (here: Content-Length required) …
example : parseSIPMsg (aeM3Bad ++ aeM3S) 0 aeM3I SIPMsgCLenReqF =
    ((aeM3RBad SIPMsgCLenReqF).1, .badChar, (aeM3RBad SIPMsgCLenReqF).2.2) :=
  C03.stable_msg aeM3Bad aeM3S 0 aeM3I SIPMsgCLenReqF (msgOK_init _ 0 (Nat.zero_le _) {} 0 8 2 (some ()) (some ()))
    (by decide +kernel) (by decide) (ae_eta3 (aeM3RBad SIPMsgCLenReqF) (by decide +kernel)) (by decide)
    (fun hx => by have h := hx.2.2; revert h; decide)

-- … with flags 0 the side condition `¬ bodyToEnd` of `stable_msg` is FALSE for this result (no Content-Length was
-- parsed before the error), so `stable_msg` does not apply (test) …
example : bodyToEnd 0 (aeM3RBad 0).2.2 := ⟨by decide, by decide +kernel, by decide⟩

-- … and the strengthened `C03.stable_msg_errors` (no side condition) covers it
example : parseSIPMsg (aeM3Bad ++ aeM3S) 0 aeM3I 0 = ((aeM3RBad 0).1, .badChar, (aeM3RBad 0).2.2) :=
  C03.stable_msg_errors aeM3Bad aeM3S 0 aeM3I 0 (msgOK_init _ 0 (Nat.zero_le _) {} 0 8 2 (some ()) (some ()))
    (by decide +kernel) (by decide) (ae_eta3 (aeM3RBad 0) (by decide +kernel)) (by decide) (by decide)

/-! ## C04 -/

/-- **(A) C04, the missing lemma**: a NEW contacts object (cleared array of any capacity) satisfies the safety
    invariant `CtSafe` at ANY offset inside the buffer — so `C04.contacts_never_panics` applies to the first call -/
theorem ae_CtSafe_new (b : Buf) (o : Nat) (ho : o ≤ b.size) (k : Nat) :
    CtSafe b o ({ vals := Array.replicate k {} } : PContacts) := by
  have hw : (({ vals := Array.replicate k {} } : PContacts)).wrap = { vals := Array.replicate k {} } := by
    unfold PContacts.wrap; simp [PFromBody.parsed]
  have h := (CtIdle_new b k).start o ho 0 (CtIn_new b o ho k)
  rw [hw] at h
  exact h

/-- **(A) C04, the missing lemma**: a NEW identities object satisfies `PaSafe` at any offset inside the buffer -/
theorem ae_PaSafe_new (b : Buf) (o : Nat) (ho : o ≤ b.size) : PaSafe b o ({} : PPAIs) := by
  have hw : (({} : PPAIs)).wrap = {} := by unfold PPAIs.wrap; simp [PFromBody.parsed]
  have h := (PaIdle_new b).start o ho 0 (PaIn_new b o ho)
  rw [hw] at h
  exact h

/-! ### `C04.contacts_never_panics`: first call on a new object (offset 9, behind `Contact: `), then on the
      suspended object it returned -/

def aeC4B : Buf := "Contact: <sip:a@b>;expires=5, <sip:c@d>\r\nX".toUTF8.data
def aeC41 : Buf := aeC4B.extract 0 20
def aeC4S : Buf := aeC4B.extract 20 aeC4B.size
def aeC4New : PContacts := { vals := Array.replicate 2 {} }
def aeC4R1 : Nat × Err × PContacts := parseAllContactValues aeC41 9 aeC4New
def aeC4R2 : Nat × Err × PContacts := parseAllContactValues (aeC41 ++ aeC4S) aeC4R1.1 aeC4R1.2.2

-- test: call 1 is suspended inside the parameter of the first value; call 2 (resumed) is definitive: OK, two values
example : aeC4R1.2.1 = .moreBytes ∧ aeC4R1.1 = 20 ∧ aeC4R2.2.1 = .ok ∧ aeC4R2.1 = 41 ∧ aeC4R2.2.2.n = 2 ∧
    aeC41 ++ aeC4S = aeC4B ∧ aeC4S.size = 22 := by decide +kernel

-- `C04.contacts_never_panics` on the new object (`ae_CtSafe_new`) and then on the SUSPENDED object of call 1:
-- no panic, every stored value inside the buffer, and after OK every field inside the consumed bytes
example : CtOut (aeC41 ++ aeC4S) aeC4R2.2.2 ∧ CtIdle (aeC41 ++ aeC4S) aeC4R2.2.2 ∧
    CtIn (aeC41 ++ aeC4S) aeC4R2.1 aeC4R2.2.2 ∧ aeC4R2.1 ≤ (aeC41 ++ aeC4S).size := by
  have h1 := C04.contacts_never_panics aeC41 9 aeC4New (by decide +kernel)
    (ae_CtSafe_new aeC41 9 (by decide +kernel) 2)
  have hS : CtSafe (aeC41 ++ aeC4S) aeC4R1.1 aeC4R1.2.2 :=
    (h1.2.1 (by decide +kernel)).grow (by rw [Array.size_append]; omega)
  have h2 := C04.contacts_never_panics (aeC41 ++ aeC4S) aeC4R1.1 aeC4R1.2.2 (by decide +kernel) hS
  have h3 := h2.2.2.1 (by decide +kernel)
  exact ⟨h2.1, h3.1, h3.2.2, h2.2.2.2⟩

/-! ### `C04.pais_never_panics` -/

def aeP4B : Buf := "P-Asserted-Identity: <sip:a@b>, <tel:+1>\r\nX".toUTF8.data
def aeP41 : Buf := aeP4B.extract 0 25
def aeP4S : Buf := aeP4B.extract 25 aeP4B.size
def aeP4R1 : Nat × Err × PPAIs := parseAllPAIValues aeP41 21 {}
def aeP4R2 : Nat × Err × PPAIs := parseAllPAIValues (aeP41 ++ aeP4S) aeP4R1.1 aeP4R1.2.2

-- test: call 1 (offset 21, behind the header name) is suspended inside the first URI; call 2 is definitive
example : aeP4R1.2.1 = .moreBytes ∧ aeP4R1.1 = 25 ∧ aeP4R2.2.1 = .ok ∧ aeP4R2.1 = 42 ∧ aeP4R2.2.2.n = 2 ∧
    aeP41 ++ aeP4S = aeP4B ∧ aeP4S.size = 18 := by decide +kernel

-- `C04.pais_never_panics` on the new object (`ae_PaSafe_new`) and then on the suspended object of call 1
example : PaOut (aeP41 ++ aeP4S) aeP4R2.2.2 ∧ PaIdle (aeP41 ++ aeP4S) aeP4R2.2.2 ∧
    PaIn (aeP41 ++ aeP4S) aeP4R2.1 aeP4R2.2.2 ∧ aeP4R2.1 ≤ (aeP41 ++ aeP4S).size := by
  have h1 := C04.pais_never_panics aeP41 21 {} (by decide +kernel) (ae_PaSafe_new aeP41 21 (by decide +kernel))
  have hS : PaSafe (aeP41 ++ aeP4S) aeP4R1.1 aeP4R1.2.2 :=
    (h1.2.1 (by decide +kernel)).grow (by rw [Array.size_append]; omega)
  have h2 := C04.pais_never_panics (aeP41 ++ aeP4S) aeP4R1.1 aeP4R1.2.2 (by decide +kernel) hS
  have h3 := h2.2.2.1 (by decide +kernel)
  exact ⟨h2.1, h3.1, h3.2.2, h2.2.2.2⟩

/-! ### `C04.sig_never_panics_history` with a NON-Init object (suspended inside the header block) -/

def aeS4B : Buf := "INVITE sip:a@b SIP/2.0\r\nVia: SIP/2.0/UDP h;branch=z9hG4bK-a.b\r\nf: <sip:a@b>;tag=a-1\r\nTo: <sip:c@d>\r\nCall-ID: x@1.2.3.4\r\nCSeq: 1 INVITE\r\nContent-Length: 0\r\n\r\n".toUTF8.data
def aeS41 : Buf := aeS4B.extract 0 100
def aeS4S : Buf := aeS4B.extract 100 aeS4B.size
def aeS4I : PSIPMsg := ({} : PSIPMsg).init 0 none none
/-- call 1 on the first 100 bytes, from Init -/
def aeS4R1 : Nat × Err × PSIPMsg := parseSIPMsg aeS41 0 aeS4I 0
/-- call 2, resumed with the object call 1 returned -/
def aeS4R2 : Nat × Err × PSIPMsg := parseSIPMsg (aeS41 ++ aeS4S) aeS4R1.1 aeS4R1.2.2 0

-- test: call 1 is suspended in the header block (state `headers`, not Init) (that its verdict is MoreBytes and that
-- call 2 ends with OK is checked where the theorem is applied below)
example : aeS4R1.2.2.state = .headers ∧ aeS41 ++ aeS4S = aeS4B ∧ 0 < aeS4S.size := by decide +kernel

/-- legitimacy of a SUSPENDED message object, for any input: if a call from a legitimate object (`msgOK2`, `MsgSafe`:
    e.g. any Init object) returns MoreBytes, the returned object and offset satisfy both conditions on every extension
    of the buffer (`parseSIPMsg_resume`, `C04.msg_never_panics`) -/
theorem ae_msg_suspended_legit (b s : Buf) (hfit : b.size ≤ 65535) (o : Nat) (m0 : PSIPMsg) (flags : Nat)
    (hok0 : msgOK2 b o m0) (hS0 : MsgSafe b o m0) {o1 : Nat} {m1 : PSIPMsg}
    (hr1 : parseSIPMsg b o m0 flags = (o1, .moreBytes, m1)) : msgOK2 (b ++ s) o1 m1 ∧ MsgSafe (b ++ s) o1 m1 := by
  have hle : b.size ≤ (b ++ s).size := by rw [Array.size_append]; omega
  have hm := (C04.msg_never_panics b o m0 flags hfit hok0 hS0).2.2.2
  rw [hr1] at hm
  exact ⟨(parseSIPMsg_resume b s o m0 flags flags hok0 hfit hr1).2.1, (hm rfl).2.grow hle⟩

/-- the chain behind the example, for ANY input cut in two and any legitimate reachable object `m0` (e.g. from Init):
    a first call that is suspended, the resumed call ends with OK — then `C04.sig_never_panics_history` applies to the
    suspended (non-Init) object `m1`: it is reachable (`ScReach.parse`) and legitimate (`ae_msg_suspended_legit`) -/
theorem ae_sig_after_suspension (b s : Buf) (hfit : (b ++ s).size ≤ 65535) (o : Nat) (m0 : PSIPMsg) (flags : Nat)
    (hR0 : ScReach m0) (hok0 : msgOK2 b o m0) (hS0 : MsgSafe b o m0) {o1 o2 : Nat} {m1 m2 : PSIPMsg}
    (hr1 : parseSIPMsg b o m0 flags = (o1, .moreBytes, m1))
    (hr2 : parseSIPMsg (b ++ s) o1 m1 flags = (o2, .ok, m2)) : (getMsgSigCore m2 (b ++ s)).2.2 = false := by
  have hfit1 : b.size ≤ 65535 := by rw [Array.size_append] at hfit; omega
  have hL := ae_msg_suspended_legit b s hfit1 o m0 flags hok0 hS0 hr1
  have hR : ScReach m1 := by
    have := ScReach.parse b o flags hR0
    rw [hr1] at this
    exact this
  exact C04.sig_never_panics_history (b ++ s) o1 m1 flags hfit hR hL.1 hL.2 hr2

/-- … the same for the exported (guarded) `GetMsgSig`: it can only panic through its core (`Sipsp.Proofs.SigGuard`) -/
theorem ae_sig_after_suspension_guarded (b s : Buf) (hfit : (b ++ s).size ≤ 65535) (o : Nat) (m0 : PSIPMsg) (flags : Nat)
    (hR0 : ScReach m0) (hok0 : msgOK2 b o m0) (hS0 : MsgSafe b o m0) {o1 o2 : Nat} {m1 m2 : PSIPMsg}
    (hr1 : parseSIPMsg b o m0 flags = (o1, .moreBytes, m1))
    (hr2 : parseSIPMsg (b ++ s) o1 m1 flags = (o2, .ok, m2)) : (getMsgSig m2 (b ++ s)).2.2 = false := by
  have hc := ae_sig_after_suspension b s hfit o m0 flags hR0 hok0 hS0 hr1 hr2
  cases hg : (getMsgSig m2 (b ++ s)).2.2
  · rfl
  · have := (getMsgSig_panics_only_via_core m2 (b ++ s) hg).2
    rw [hc] at this
    cases this

-- `C04.sig_never_panics_history` on the suspended object `aeS4R1.2.2` (through `ae_sig_after_suspension`)
example : (getMsgSigCore aeS4R2.2.2 (aeS41 ++ aeS4S)).2.2 = false :=
  ae_sig_after_suspension aeS41 aeS4S (by decide +kernel) 0 aeS4I 0 (ScReach.init {} 0 0 0 none none)
    (msgOK2_init aeS41 0 (Nat.zero_le _) {} 0 0 0 none none) (MsgSafe_init aeS41 0 (Nat.zero_le _) {} 0 0 0 none none)
    (o1 := aeS4R1.1) (m1 := aeS4R1.2.2) (ae_eta3 aeS4R1 (by decide +kernel)) (ae_eta3 aeS4R2 (by decide +kernel))

-- test: the signature itself is produced (verdict OK)
example : (getMsgSigCore aeS4R2.2.2 (aeS41 ++ aeS4S)).2.1 = .ok := by decide +kernel

/-! ## (B)(iv) C04: the returned offset after OK / MoreBytes, one uniform shape

  `P b o st = (o', e, st')`, `e` = OK or MoreBytes, the object legitimate ⟹ `o ≤ o' ∧ o' ≤ len(b)`.
  Re-statements of existing range lemmas (Proofs/Range, Post, NameAddrRR, ContactsL2, HdrLineL2, HeadersL2, MsgL1/L2) where
  they exist; the hypotheses are the legitimacy conditions of C02 / C03. -/

theorem ae_parseUIntVal_offset_monotone (b : Buf) (o : Nat) (st : PUIntBody) (ho : o ≤ b.size) {o' : Nat} {e : Err}
    {st' : PUIntBody} (hr : parseUIntVal b o st = (o', e, st')) (_he : e = .ok ∨ e = .moreBytes) :
    o ≤ o' ∧ o' ≤ b.size := by
  have := parseUIntVal_range b o st ho
  rw [hr] at this
  exact this

theorem ae_parseCLenVal_offset_monotone (b : Buf) (o : Nat) (st : PUIntBody) (ho : o ≤ b.size) {o' : Nat} {e : Err}
    {st' : PUIntBody} (hr : parseCLenVal b o st = (o', e, st')) (he : e = .ok ∨ e = .moreBytes) :
    o ≤ o' ∧ o' ≤ b.size := by
  rcases he with rfl | rfl
  · have := parseCLenVal_post b o st ho hr; exact ⟨this.1, this.2.1⟩
  · exact parseCLenVal_more_range b o st ho hr

theorem ae_parseCSeqVal_offset_monotone (b : Buf) (o : Nat) (st : PCSeqBody) (ho : o ≤ b.size) (hok : csOK b o st)
    {o' : Nat} {e : Err} {st' : PCSeqBody} (hr : parseCSeqVal b o st = (o', e, st'))
    (he : e = .ok ∨ e = .moreBytes) : o ≤ o' ∧ o' ≤ b.size := by
  rcases he with rfl | rfl
  · have := parseCSeqVal_post b o st ho hr; exact ⟨this.1, this.2.1⟩
  · exact parseCSeqVal_more_range b o st hok hr

theorem ae_parseNameAddrPVal_offset_monotone (t : Nat) (b : Buf) (o : Nat) (pf : PFromBody) (ho : o ≤ b.size)
    (hok : naOK b o pf) {o' : Nat} {e : Err} {pf' : PFromBody} (hr : parseNameAddrPVal t b o pf = (o', e, pf'))
    (he : e = .ok ∨ e = .moreBytes) : o ≤ o' ∧ o' ≤ b.size := by
  rcases he with rfl | rfl
  · exact (naPVal_ok_range t b o pf ho hr (Or.inl rfl)).2
  · exact parseNameAddrPVal_more_range t b o pf hok hr

/-- … also after MoreValues (the list parsers' "one more value follows") -/
theorem ae_parseNameAddrPVal_offset_monotone_mv (t : Nat) (b : Buf) (o : Nat) (pf : PFromBody) (ho : o ≤ b.size)
    {o' : Nat} {pf' : PFromBody} (hr : parseNameAddrPVal t b o pf = (o', .moreValues, pf')) :
    o ≤ o' ∧ o' ≤ b.size := (naPVal_ok_range t b o pf ho hr (Or.inr rfl)).2

theorem ae_parseAllContactValues_offset_monotone (b : Buf) (o : Nat) (c : PContacts) (ho : o ≤ b.size)
    (hok : ctOK b o c) {o' : Nat} {e : Err} {c' : PContacts} (hr : parseAllContactValues b o c = (o', e, c'))
    (he : e = .ok ∨ e = .moreBytes) : o ≤ o' ∧ o' ≤ b.size := by
  rcases he with rfl | rfl
  · have := parseAllContactValues_post b o c hok ho hr; exact ⟨this.1, this.2.1⟩
  · exact (parseAllContactValues_resume b #[] o c hok ho hr).2.2.2

theorem ae_parseAllPAIValues_offset_monotone (b : Buf) (o : Nat) (c : PPAIs) (ho : o ≤ b.size)
    (hok : paOK b o c) {o' : Nat} {e : Err} {c' : PPAIs} (hr : parseAllPAIValues b o c = (o', e, c'))
    (he : e = .ok ∨ e = .moreBytes) : o ≤ o' ∧ o' ≤ b.size := by
  rcases he with rfl | rfl
  · have := parseAllPAIValues_post b o c hok ho hr; exact ⟨this.1, this.2.1⟩
  · exact (parseAllPAIValues_resume b #[] o c hok ho hr).2.2.2

theorem ae_parseFLine_offset_monotone (b : Buf) (o : Nat) (pl : PFLine) (ho : o ≤ b.size) (hok : flOK pl)
    (hfit : b.size ≤ 65535) {o' : Nat} {e : Err} {pl' : PFLine} (hr : parseFLine b o pl = (o', e, pl'))
    (he : e = .ok ∨ e = .moreBytes) : o ≤ o' ∧ o' ≤ b.size := by
  have hge := parseFLine_ge b o pl
  rw [hr] at hge
  refine ⟨hge, ?_⟩
  rcases he with rfl | rfl
  · have := parseFLine_range b o pl ho
    rw [hr] at this
    exact (this rfl).2
  · exact (parseFLine_resume b #[] o pl ho hok hfit hr).2.2

theorem ae_parseHdrLine_offset_monotone (b : Buf) (o : Nat) (h : Hdr) (hb : Option PHdrVals) (hok : hlOK b o h hb)
    (hpe : hlPending (h, hb)) {o' : Nat} {e : Err} {h' : Hdr} {hb' : Option PHdrVals}
    (hr : parseHdrLine b o h hb = (o', e, h', hb')) (he : e = .ok ∨ e = .moreBytes) : o ≤ o' ∧ o' ≤ b.size := by
  rcases he with rfl | rfl
  · exact ⟨Nat.le_of_lt (parseHdrLine_ok_gt b o h hb hok hpe hr), (parseHdrLine_post b o h hb hok hr (Or.inl rfl)).1⟩
  · exact (parseHdrLine_resume b #[] o h hb hok hpe hr).2.2.2

/-- … and strictly forward after OK (a header line is never empty) -/
theorem ae_parseHdrLine_ok_advances (b : Buf) (o : Nat) (h : Hdr) (hb : Option PHdrVals) (hok : hlOK b o h hb)
    (hpe : hlPending (h, hb)) {o' : Nat} {h' : Hdr} {hb' : Option PHdrVals}
    (hr : parseHdrLine b o h hb = (o', .ok, h', hb')) : o < o' := parseHdrLine_ok_gt b o h hb hok hpe hr

-- tests: the hypotheses are met by the first call on a new object (contacts at offset 9: suspended at 20 of 20 bytes)
-- and by a resumed call (the suspended first-line object of `aeFlR1`, C02 section above)
example : 9 ≤ aeC4R1.1 ∧ aeC4R1.1 ≤ aeC41.size :=
  ae_parseAllContactValues_offset_monotone aeC41 9 aeC4New (by decide +kernel) (afb_ctOK_new _ _ (by decide +kernel) 2)
    (ae_eta3 aeC4R1 (by decide +kernel)) (Or.inr rfl)
example : aeFlR1.1 ≤ aeFlR2.1 ∧ aeFlR2.1 ≤ (aeFl1 ++ aeFlS1).size := by
  have h1 := C02.resume_fline aeFl1 aeFlS1 0 {} (Nat.zero_le _) afb_flOK_new (by decide +kernel)
    (ae_eta3 aeFlR1 (by decide +kernel))
  exact ae_parseFLine_offset_monotone (aeFl1 ++ aeFlS1) aeFlR1.1 aeFlR1.2.2
    (by have := h1.2.2; rw [Array.size_append]; omega) h1.2.1 (by decide +kernel)
    (ae_eta3 aeFlR2 (by decide +kernel)) (Or.inr rfl)

/-! ## C05: `layout_one_call` and `fields_inside_consumed` on a RESUMED object -/

/-- two bytes that do not belong to the message, a request with a 3-byte body, one byte of the next message -/
def aeL5B : Buf := "\r\nINFO sip:a@b SIP/2.0\r\nl: 3\r\n\r\nabcX".toUTF8.data
def aeL51 : Buf := aeL5B.extract 0 27
def aeL5S : Buf := aeL5B.extract 27 aeL5B.size
def aeL5I : PSIPMsg := ({} : PSIPMsg).init 0 none none
/-- call 1 from Init at offset 2, on the first 27 bytes: suspended inside the header block -/
def aeL5R1 : Nat × Err × PSIPMsg := parseSIPMsg aeL51 2 aeL5I 0
/-- call 2, resumed -/
def aeL5R2 : Nat × Err × PSIPMsg := parseSIPMsg (aeL51 ++ aeL5S) aeL5R1.1 aeL5R1.2.2 0

-- test: the object of call 1 is not an Init object (state `headers`, start offset 2 remembered)
example : aeL5R1.2.2.state = .headers ∧ aeL5R1.2.2.offs = 2 ∧ aeL51 ++ aeL5S = aeL5B ∧ aeL5S.size = 9 := by
  decide +kernel

/-- the legitimacy of the suspended object of call 1 on the longer buffer -/
theorem aeL5_legit : msgOK2 (aeL51 ++ aeL5S) aeL5R1.1 aeL5R1.2.2 ∧ MsgSafe (aeL51 ++ aeL5S) aeL5R1.1 aeL5R1.2.2 :=
  ae_msg_suspended_legit aeL51 aeL5S (by decide +kernel) 2 aeL5I 0
    (msgOK2_init aeL51 2 (by decide +kernel) {} 0 0 0 none none)
    (MsgSafe_init aeL51 2 (by decide +kernel) {} 0 0 0 none none) (ae_eta3 aeL5R1 (by decide +kernel))

-- `C05.layout_one_call` on the resumed object: the layout is relative to the REMEMBERED start offset (`m.offs` = 2)
example : ∃ h, aeL5R1.2.2.offs ≤ h ∧ h ≤ aeL5R2.1 ∧ aeL5R2.1 ≤ (aeL51 ++ aeL5S).size ∧
    MsgLayout aeL5R2.2.2 aeL5R1.2.2.offs h aeL5R2.1 := by
  have h := C05.layout_one_call (aeL51 ++ aeL5S) aeL5R1.1 aeL5R1.2.2 0 (by decide +kernel) aeL5_legit.1 aeL5_legit.2
    (ae_eta3 aeL5R2 (by decide +kernel))
  rw [if_neg (by decide +kernel)] at h
  exact h

-- test: the numbers — message [2, 35), body [32, 35), the byte `X` at 35 is not consumed
example : aeL5R2.1 = 35 ∧ aeL5R2.2.2.body = ⟨32, 3⟩ ∧ aeL5R2.2.2.rawOffs = 2 ∧ aeL5R2.2.2.rawLen = 33 := by
  decide +kernel

-- `C05.fields_inside_consumed` on the resumed object
example : MsgRelIn (aeL51 ++ aeL5S) aeL5R2.1 aeL5R2.2.2 ∧ aeL5R2.2.2.body.inside aeL5R2.1 :=
  C05.fields_inside_consumed (aeL51 ++ aeL5S) aeL5R1.1 aeL5R1.2.2 0 (by decide +kernel) aeL5_legit.1 aeL5_legit.2
    (ae_eta3 aeL5R2 (by decide +kernel))

/-! ## C06: `pipeline_second_message_ok` on two real messages in one buffer -/

/-- message 1: a request with Content-Length and a 3-byte body -/
def aeP6A : Buf := "INFO sip:a@b SIP/2.0\r\nCall-ID: x\r\nCSeq: 1 INFO\r\nContent-Length: 3\r\n\r\nabc".toUTF8.data
/-- message 2: a reply with an empty body -/
def aeP6B : Buf := "SIP/2.0 200 OK\r\nCall-ID: x\r\nCSeq: 1 INFO\r\nContent-Length: 0\r\n\r\n".toUTF8.data
def aeP6I : PSIPMsg := ({} : PSIPMsg).init 0 ((some ()).map fun _ => Array.replicate 6 {})
  ((none : Option Unit).map fun _ => Array.replicate 0 {})
/-- message 2 parsed alone -/
def aeP6R : Nat × Err × PSIPMsg := parseSIPMsg aeP6B 0 aeP6I 0

-- test: message 1 alone is OK and fills its text exactly (72 bytes); message 2 alone is OK at its end (63), a reply
example : (parseSIPMsg aeP6A 0 aeP6I 0).2.1 = .ok ∧ (parseSIPMsg aeP6A 0 aeP6I 0).1 = aeP6A.size ∧ aeP6A.size = 72 ∧
    aeP6R.2.1 = .ok ∧ aeP6R.1 = 63 ∧ aeP6R.2.2.fl.status = 200 ∧ aeP6R.2.2.fl.reason = ⟨12, 2⟩ := by
  decide +kernel

-- `C06.pipeline_second_message_ok`: parsing the joined buffer at the end of message 1 returns message 2 as parsed
-- alone, moved by 72
example : parseSIPMsg (aeP6A ++ aeP6B) aeP6A.size aeP6I 0 = (aeP6A.size + aeP6R.1, .ok, shMsg aeP6A.size aeP6R.2.2) :=
  C06.pipeline_second_message_ok aeP6A aeP6B 0 {} 0 6 0 (some ()) none (by decide +kernel)
    (ae_eta3 aeP6R (by decide +kernel))

-- test: what "moved" means here — the reason phrase of the reply is reported at 72 + 12
example : (shMsg aeP6A.size aeP6R.2.2).fl.reason = ⟨84, 2⟩ ∧ (shMsg aeP6A.size aeP6R.2.2).fl.status = 200 := by
  decide +kernel

/-! ## C10: the run-level exactness theorems on SUSPENDED objects

  The value text is cut inside the number: call 1 sees ` 47`, is suspended, and the resumed call on the whole input
  finishes with OK. The invariant of the suspended object (`ClNum` / `CsNum`) is obtained from `afb_*_more_inv`
  applied to call 1 (new object: `ClNum_new` / `CsNum_new`). -/

def aeN10B : Buf := " 4711\r\nX".toUTF8.data
def aeN101 : Buf := aeN10B.extract 0 3
def aeN10S : Buf := aeN10B.extract 3 aeN10B.size

/-- Expires / unsigned value: call 1 on ` 47` -/
def aeU10R1 : Nat × Err × PUIntBody := parseUIntVal aeN101 0 {}
def aeU10R2 : Nat × Err × PUIntBody := parseUIntVal (aeN101 ++ aeN10S) aeU10R1.1 aeU10R1.2.2

-- test: the suspended object holds the partial number 47; the resumed call reports 4711 in the field [1, 5)
example : aeU10R1.2.1 = .moreBytes ∧ aeU10R1.2.2.uiVal = 47 ∧ aeU10R2.2.1 = .ok ∧ aeU10R2.2.2.uiVal = 4711 ∧
    aeU10R2.2.2.sVal = ⟨1, 4⟩ ∧ aeN101 ++ aeN10S = aeN10B ∧ aeN10S.size = 5 := by decide +kernel

-- `C10.uint_value_exact` on the suspended object
example : NumDone (aeN101 ++ aeN10S) aeU10R2.2.2.sVal aeU10R2.2.2.uiVal := by
  have h1 := afb_uint_more_inv aeN101 aeN10S 0 {} (by decide +kernel) (Nat.zero_le _) (ClNum_new _ _)
    (ae_eta3 aeU10R1 (by decide +kernel))
  exact C10.uint_value_exact (aeN101 ++ aeN10S) aeU10R1.1 aeU10R1.2.2 (by decide +kernel)
    (by have := h1.2.1; rw [Array.size_append]; omega) h1.1 (ae_eta3 aeU10R2 (by decide +kernel))

/-- Content-Length: the same cuts -/
def aeL10R1 : Nat × Err × PUIntBody := parseCLenVal aeN101 0 {}
def aeL10R2 : Nat × Err × PUIntBody := parseCLenVal (aeN101 ++ aeN10S) aeL10R1.1 aeL10R1.2.2

-- `C10.clen_value_exact` on the suspended object
example : NumDone (aeN101 ++ aeN10S) aeL10R2.2.2.sVal aeL10R2.2.2.uiVal := by
  have h1 := afb_clen_more_inv aeN101 aeN10S 0 {} (by decide +kernel) (Nat.zero_le _) (ClNum_new _ _)
    (ae_eta3 aeL10R1 (by decide +kernel))
  exact C10.clen_value_exact (aeN101 ++ aeN10S) aeL10R1.1 aeL10R1.2.2 (by decide +kernel)
    (by have := h1.2.1; rw [Array.size_append]; omega) h1.1 (ae_eta3 aeL10R2 (by decide +kernel))

-- test: the value
example : aeL10R2.2.2.uiVal = 4711 ∧ aeL10R1.2.2.uiVal = 47 := by decide +kernel

/-- CSeq: ` 4711 INVITE`, cut after ` 47` -/
def aeQ10B : Buf := " 4711 INVITE\r\nX".toUTF8.data
def aeQ101 : Buf := aeQ10B.extract 0 3
def aeQ10S : Buf := aeQ10B.extract 3 aeQ10B.size
def aeQ10R1 : Nat × Err × PCSeqBody := parseCSeqVal aeQ101 0 {}
def aeQ10R2 : Nat × Err × PCSeqBody := parseCSeqVal (aeQ101 ++ aeQ10S) aeQ10R1.1 aeQ10R1.2.2

-- test
example : aeQ10R1.2.2.cseqNo = 47 ∧ aeQ10R2.2.2.cseqNo = 4711 ∧ aeQ10R2.2.2.cseq = ⟨1, 4⟩ ∧
    aeQ101 ++ aeQ10S = aeQ10B := by decide +kernel

-- `C10.cseq_value_exact` on the suspended object (its side condition on finished objects is vacuous: the object is
-- not finished, by `afb_cseq_more_inv`)
example : NumDone (aeQ101 ++ aeQ10S) aeQ10R2.2.2.cseq aeQ10R2.2.2.cseqNo := by
  have h1 := afb_cseq_more_inv aeQ101 aeQ10S 0 {} (by decide +kernel) (Nat.zero_le _) (CsNum_new _ _)
    (ae_eta3 aeQ10R1 (by decide +kernel))
  exact C10.cseq_value_exact (aeQ101 ++ aeQ10S) aeQ10R1.1 aeQ10R1.2.2 (by decide +kernel)
    (by have := h1.2.1; rw [Array.size_append]; omega) h1.1 (fun hf => absurd hf h1.2.2)
    (ae_eta3 aeQ10R2 (by decide +kernel))

/-! ### `C10.nameaddr_numbers_resume`: a Contact value cut inside the digits of `expires` -/

def aeE10B : Buf := "<sip:a@b>;expires=3600;q=0.5\r\nX".toUTF8.data
def aeE101 : Buf := aeE10B.extract 0 20
def aeE10S : Buf := aeE10B.extract 20 aeE10B.size
/-- call 1 on `<sip:a@b>;expires=36` -/
def aeE10R1 : Nat × Err × PFromBody := parseNameAddrPVal HdrContact aeE101 0 {}
def aeE10R2 : Nat × Err × PFromBody := parseNameAddrPVal HdrContact (aeE101 ++ aeE10S) aeE10R1.1 aeE10R1.2.2

-- test: call 1 is suspended inside the value of `expires`; the resumed call reports 3600 and q = 0.5
example : aeE10R1.2.1 = .moreBytes ∧ aeE10R1.2.2.state = .paramVal ∧ aeE10R2.2.1 = .ok ∧
    aeE10R2.2.2.hasExpires = true ∧ aeE10R2.2.2.expires = 3600 ∧ aeE10R2.2.2.q = 500 ∧
    aeE101 ++ aeE10S = aeE10B := by decide +kernel

-- `C10.nameaddr_numbers_resume` with all hypotheses instantiated (new object, call 1 suspended, call 2)
example : NrOut (multipleValsOk HdrContact) (aeE101 ++ aeE10S) {} 0 aeE10R2.1 aeE10R2.2.2 :=
  (C10.nameaddr_numbers_resume HdrContact aeE101 aeE10S {} 0 0 {} (nr_entry_new aeE101 0 (Nat.zero_le _))
    (ae_eta3 aeE10R1 (by decide +kernel)) (ae_eta3 aeE10R2 (e := .ok) (by decide +kernel))).1

/-! ## C11: position independence for SUSPENDED objects

  `t = t1 ++ s` is a value text, `pre` a prefix (here a header name). Call 1 on `t1` from a new object is suspended
  and returns `(o1, st1)`. The theorem is applied to `st1` (translated by `pre.size`) on `pre ++ t`; its safety
  hypothesis comes from the `C04.*_never_panics` theorem applied to call 1, grown to `t`. A test shows that the
  translated suspended object IS the object the parser returns for call 1 behind the prefix. -/

def aeSh11Pre : Buf := "Call-ID: ".toUTF8.data

/-! ### `C11.shift_callid` -/
def aeCi11T1 : Buf := "a7@h".toUTF8.data
def aeCi11S : Buf := "ost\r\nX".toUTF8.data
def aeCi11R1 : Nat × Err × PCallIDBody := parseCallIDVal aeCi11T1 0 {}

-- test: suspended inside the Call-ID text; the translated object is what the parser returns behind the prefix
example : aeCi11R1.2.1 = .moreBytes ∧ aeCi11R1.2.2.state = .found ∧
    (parseCallIDVal (aeSh11Pre ++ aeCi11T1) aeSh11Pre.size {}).2.2 = shCi aeSh11Pre.size aeCi11R1.2.2 ∧
    (parseCallIDVal (aeCi11T1 ++ aeCi11S) aeCi11R1.1 aeCi11R1.2.2).2.1 = .ok := by decide +kernel

example : parseCallIDVal (aeSh11Pre ++ (aeCi11T1 ++ aeCi11S)) (aeSh11Pre.size + aeCi11R1.1)
      (shCi aeSh11Pre.size aeCi11R1.2.2) =
    shRes aeSh11Pre.size (shCi aeSh11Pre.size) (parseCallIDVal (aeCi11T1 ++ aeCi11S) aeCi11R1.1 aeCi11R1.2.2) := by
  have h1 : CiSafe aeCi11T1 aeCi11R1.1 aeCi11R1.2.2 :=
    C04.callid_never_panics aeCi11T1 0 {} ⟨Nat.zero_le _, Nat.zero_le _, PField.inside_zero _, rfl⟩
  exact C11.shift_callid aeSh11Pre (aeCi11T1 ++ aeCi11S) aeCi11R1.1 aeCi11R1.2.2
    (h1.grow (by rw [Array.size_append]; omega)) (by decide +kernel)

/-! ### `C11.shift_uint`, `C11.shift_clen` -/
def aeUi11T1 : Buf := " 47".toUTF8.data
def aeUi11S : Buf := "11\r\nX".toUTF8.data
def aeUi11R1 : Nat × Err × PUIntBody := parseUIntVal aeUi11T1 0 {}
def aeCl11R1 : Nat × Err × PUIntBody := parseCLenVal aeUi11T1 0 {}

-- test: suspended inside the number (47 so far); the translated object is what the parser returns behind the prefix
example : aeUi11R1.2.1 = .moreBytes ∧ aeUi11R1.2.2.uiVal = 47 ∧ aeUi11R1.2.2.state = .found ∧
    (parseUIntVal (aeSh11Pre ++ aeUi11T1) aeSh11Pre.size {}).2.2 = shCl aeSh11Pre.size aeUi11R1.2.2 ∧
    aeCl11R1.2.1 = .moreBytes ∧ aeCl11R1.2.2.uiVal = 47 ∧
    (parseCLenVal (aeUi11T1 ++ aeUi11S) aeCl11R1.1 aeCl11R1.2.2).2.2.uiVal = 4711 := by decide +kernel

example : parseUIntVal (aeSh11Pre ++ (aeUi11T1 ++ aeUi11S)) (aeSh11Pre.size + aeUi11R1.1)
      (shCl aeSh11Pre.size aeUi11R1.2.2) =
    shRes aeSh11Pre.size (shCl aeSh11Pre.size) (parseUIntVal (aeUi11T1 ++ aeUi11S) aeUi11R1.1 aeUi11R1.2.2) := by
  have h1 : ClSafe aeUi11T1 aeUi11R1.1 aeUi11R1.2.2 :=
    C04.uint_never_panics aeUi11T1 0 {} ⟨Nat.zero_le _, Nat.zero_le _, PField.inside_zero _, rfl⟩
  exact C11.shift_uint aeSh11Pre (aeUi11T1 ++ aeUi11S) aeUi11R1.1 aeUi11R1.2.2
    (h1.grow (by rw [Array.size_append]; omega)) (by decide +kernel)

example : parseCLenVal (aeSh11Pre ++ (aeUi11T1 ++ aeUi11S)) (aeSh11Pre.size + aeCl11R1.1)
      (shCl aeSh11Pre.size aeCl11R1.2.2) =
    shRes aeSh11Pre.size (shCl aeSh11Pre.size) (parseCLenVal (aeUi11T1 ++ aeUi11S) aeCl11R1.1 aeCl11R1.2.2) := by
  have h1 : ClSafe aeUi11T1 aeCl11R1.1 aeCl11R1.2.2 :=
    ((C04.clen_never_panics aeUi11T1 0 {} ⟨Nat.zero_le _, Nat.zero_le _, PField.inside_zero _, rfl⟩).2.1
      (by decide +kernel))
  exact C11.shift_clen aeSh11Pre (aeUi11T1 ++ aeUi11S) aeCl11R1.1 aeCl11R1.2.2
    (h1.grow (by rw [Array.size_append]; omega)) (by decide +kernel)

/-! ### `C11.shift_cseq` -/
def aeCs11T1 : Buf := "47 INV".toUTF8.data
def aeCs11S : Buf := "ITE\r\nX".toUTF8.data
def aeCs11R1 : Nat × Err × PCSeqBody := parseCSeqVal aeCs11T1 0 {}

-- test: suspended inside the method name (number 47 complete); translated object = parser's object behind the prefix
example : aeCs11R1.2.1 = .moreBytes ∧ aeCs11R1.2.2.state = .foundMethod ∧ aeCs11R1.2.2.cseqNo = 47 ∧
    (parseCSeqVal (aeSh11Pre ++ aeCs11T1) aeSh11Pre.size {}).2.2 = shCs aeSh11Pre.size aeCs11R1.2.2 ∧
    (parseCSeqVal (aeCs11T1 ++ aeCs11S) aeCs11R1.1 aeCs11R1.2.2).2.1 = .ok := by decide +kernel

example : parseCSeqVal (aeSh11Pre ++ (aeCs11T1 ++ aeCs11S)) (aeSh11Pre.size + aeCs11R1.1)
      (shCs aeSh11Pre.size aeCs11R1.2.2) =
    shRes aeSh11Pre.size (shCs aeSh11Pre.size) (parseCSeqVal (aeCs11T1 ++ aeCs11S) aeCs11R1.1 aeCs11R1.2.2) := by
  have h1 : CsSafe aeCs11T1 aeCs11R1.1 aeCs11R1.2.2 :=
    (C04.cseq_never_panics aeCs11T1 0 {} (by decide +kernel)
      ⟨Nat.zero_le _, Nat.zero_le _, PField.inside_zero _, PField.inside_zero _, PField.inside_zero _, rfl⟩).2.2
      (by decide +kernel)
  exact C11.shift_cseq aeSh11Pre (aeCs11T1 ++ aeCs11S) aeCs11R1.1 aeCs11R1.2.2
    (h1.grow (by rw [Array.size_append]; omega))
    ⟨fun _ => by decide +kernel, fun _ => by decide +kernel⟩ (by decide +kernel)

/-! ### `C11.shift_fline_request`: a request line suspended inside the version -/
def aeFl11Pre : Buf := "\r\n\r\n".toUTF8.data
def aeFq11T1 : Buf := "INVITE sip:a@b S".toUTF8.data
def aeFq11S : Buf := "IP/2.0\r\nX".toUTF8.data
def aeFq11R1 : Nat × Err × PFLine := parseFLine aeFq11T1 0 {}

-- test: suspended in state `reqVer` (method and URI already stored); translated object = parser's object behind the prefix
example : aeFq11R1.2.1 = .moreBytes ∧ aeFq11R1.2.2.state = .reqVer ∧ aeFq11R1.2.2.uri = ⟨7, 7⟩ ∧
    (parseFLine (aeFl11Pre ++ aeFq11T1) aeFl11Pre.size {}).2.2 = shReq aeFl11Pre.size aeFq11R1.2.2 ∧
    (parseFLine (aeFq11T1 ++ aeFq11S) aeFq11R1.1 aeFq11R1.2.2).2.1 = .ok := by decide +kernel

example : parseFLine (aeFl11Pre ++ (aeFq11T1 ++ aeFq11S)) (aeFl11Pre.size + aeFq11R1.1)
      (shReq aeFl11Pre.size aeFq11R1.2.2) =
    shRes aeFl11Pre.size (shReq aeFl11Pre.size) (parseFLine (aeFq11T1 ++ aeFq11S) aeFq11R1.1 aeFq11R1.2.2) := by
  have h1 : FlSafe aeFq11T1 aeFq11R1.1 aeFq11R1.2.2 :=
    C04.fline_never_panics aeFq11T1 0 {} (by decide +kernel) (FlSafe_new _ _ (Nat.zero_le _))
  exact C11.shift_fline_request aeFl11Pre (aeFq11T1 ++ aeFq11S) aeFq11R1.1 aeFq11R1.2.2
    (Or.inr (Or.inr (Or.inl (by decide +kernel)))) (h1.grow (by rw [Array.size_append]; omega)) (by decide +kernel)

/-! ### `C11.shift_fline_reason`: a status line suspended inside the reason phrase -/
def aeFr11T1 : Buf := "SIP/2.0 180 Ringi".toUTF8.data
def aeFr11S : Buf := "ng\r\nX".toUTF8.data
def aeFr11R1 : Nat × Err × PFLine := parseFLine aeFr11T1 0 {}

-- test: suspended in state `rplReason` with the status 180 stored
example : aeFr11R1.2.1 = .moreBytes ∧ aeFr11R1.2.2.state = .rplReason ∧ aeFr11R1.2.2.status = 180 ∧
    (parseFLine (aeFl11Pre ++ aeFr11T1) aeFl11Pre.size {}).2.2 = shRpl aeFl11Pre.size aeFr11R1.2.2 ∧
    (parseFLine (aeFr11T1 ++ aeFr11S) aeFr11R1.1 aeFr11R1.2.2).2.1 = .ok := by decide +kernel

example : parseFLine (aeFl11Pre ++ (aeFr11T1 ++ aeFr11S)) (aeFl11Pre.size + aeFr11R1.1)
      (shRpl aeFl11Pre.size aeFr11R1.2.2) =
    shRes aeFl11Pre.size (shRpl aeFl11Pre.size) (parseFLine (aeFr11T1 ++ aeFr11S) aeFr11R1.1 aeFr11R1.2.2) := by
  have h1 : FlSafe aeFr11T1 aeFr11R1.1 aeFr11R1.2.2 :=
    C04.fline_never_panics aeFr11T1 0 {} (by decide +kernel) (FlSafe_new _ _ (Nat.zero_le _))
  exact C11.shift_fline_reason aeFl11Pre (aeFr11T1 ++ aeFr11S) aeFr11R1.1 aeFr11R1.2.2
    (by decide +kernel) (h1.grow (by rw [Array.size_append]; omega)) (by decide +kernel)

/-! ### `C11.shift_hdrline_resume`: a To line suspended inside the URI -/
def aeHl11Pre : Buf := "Via: SIP/2.0/UDP h\r\n".toUTF8.data
def aeHl11T : Buf := "To: \"B\" <sip:b".toUTF8.data
def aeHl11S : Buf := "@c>;tag=9\r\nX".toUTF8.data
def aeHl11Hv : PHdrVals := { contacts := { vals := Array.replicate 2 {} } }
def aeHl11R1 : Nat × Err × Hdr × Option PHdrVals := parseHdrLine aeHl11T 0 {} (some aeHl11Hv)
def aeHl11R2 : Nat × Err × Hdr × Option PHdrVals :=
  parseHdrLine (aeHl11T ++ aeHl11S) aeHl11R1.1 aeHl11R1.2.2.1 aeHl11R1.2.2.2

-- test: call 1 is suspended inside the To value (state `hTo`); the resumed call is OK
example : aeHl11R1.2.1 = .moreBytes ∧ aeHl11R1.2.2.1.state = .hTo ∧ aeHl11R2.2.1 = .ok ∧ aeHl11R2.1 = 25 := by
  decide +kernel

-- `C11.shift_hdrline_resume` with all hypotheses (new pair: `HlAll_new`; call 1 suspended; call 2)
example : ∃ g gb, parseHdrLine (aeHl11Pre ++ (aeHl11T ++ aeHl11S)) (aeHl11Pre.size + aeHl11R1.1)
      (shHdr aeHl11Pre.size aeHl11R1.2.2.1) (aeHl11R1.2.2.2.map (shHv aeHl11Pre.size)) =
      (aeHl11Pre.size + aeHl11R2.1, .ok, g, gb) ∧
    smRelHL aeHl11Pre.size .ok (g, gb) (aeHl11R2.2.2.1, aeHl11R2.2.2.2) :=
  C11.shift_hdrline_resume aeHl11Pre aeHl11T aeHl11S 0 {} (some aeHl11Hv) (by decide +kernel)
    (HlAll_new aeHl11T 0 (Nat.zero_le _) 2) (hlPending_of_not_isVal (by simp [HState.isVal]))
    (ae_eta4 aeHl11R1 (by decide +kernel)) (ae_eta4 aeHl11R2 (by decide +kernel))

/-! ### `C11.shift_pais` on a suspended identities object -/
def aePa11Pre : Buf := "P-Asserted-Identity: ".toUTF8.data
def aePa11T : Buf := "<sip:a@b>, <tel".toUTF8.data
def aePa11S : Buf := ":+1>\r\nX".toUTF8.data
def aePa11R1 : Nat × Err × PPAIs := parseAllPAIValues aePa11T 0 {}

-- test: suspended inside the second identity (one stored)
example : aePa11R1.2.1 = .moreBytes ∧ aePa11R1.2.2.n = 1 ∧
    (parseAllPAIValues (aePa11T ++ aePa11S) aePa11R1.1 aePa11R1.2.2).2.1 = .ok := by decide +kernel

-- `C11.shift_pais`: `PaShift` of the suspended object from `shift_pais`' companion `parseAllPAIValues_shiftEntry`
example : slPaRes aePa11Pre.size
    (parseAllPAIValues (aePa11Pre ++ (aePa11T ++ aePa11S)) (aePa11Pre.size + aePa11R1.1)
      (shPa aePa11Pre.size aePa11R1.2.2))
    (parseAllPAIValues (aePa11T ++ aePa11S) aePa11R1.1 aePa11R1.2.2) := by
  have hE : PaShift aePa11T aePa11R1.1 aePa11R1.2.2 :=
    parseAllPAIValues_shiftEntry aePa11T 0 {} (by decide +kernel) (PaShift_new _ _ (Nat.zero_le _))
      (by decide +kernel)
  exact C11.shift_pais aePa11Pre (aePa11T ++ aePa11S) aePa11R1.1 aePa11R1.2.2 (by decide +kernel) (hE.append aePa11S)

/-! ## C14 -/

/-- **(B)(iii) the scheme alone, `sips:` (any letter case), 5 bytes**: `ErrURITooShort` at position 5 (the end of the
    input); the URI object has the type and the scheme field already filled in. (`sip:` and `tel:` alone are 4 bytes:
    `C14.err_too_short` gives `ErrURITooShort` at position 4 with the object untouched.) -/
theorem ae_parseURI_bare_sips (b : Buf) (hs : UcSchSips b) (h5 : b.size = 5) :
    parseURI b {} = (.tooShort, 5, { uriType := SIPSuri, scheme := ⟨0, 5⟩ }, false) := by
  obtain ⟨⟨b0, b1, b2, b3, h0, h1, h2, h3, hl⟩, h4⟩ := hs
  have hw := (ucWord_eq b0 b1 b2 b3 115 105 112 115 (by omega) (by omega) (by omega) (by omega)).mpr hl
  rw [uc_parse_unfold h0 h1 h2 h3 h4, if_neg (by rw [hw]; decide), if_neg (by rw [hw]; decide), if_pos ⟨hw, rfl⟩]
  have hn : b[5]? = none := Array.getElem?_eq_none (by omega)
  unfold ucRun
  rw [uc_loop_end hn]
  rfl

/-- the scheme alone, all three: error code and position -/
theorem ae_parseURI_bare_scheme (b : Buf) (t k : Nat) (hs : UcScheme b t k) (hsz : b.size = k) :
    UcErrAt (parseURI b {}) .tooShort b.size := by
  rcases hs with ⟨_, rfl, _⟩ | ⟨_, rfl, _⟩ | ⟨_, rfl, h⟩
  · rw [parseURI_err_short b (by omega)]; exact ⟨rfl, rfl⟩
  · rw [parseURI_err_short b (by omega)]; exact ⟨rfl, rfl⟩
  · rw [ae_parseURI_bare_sips b h hsz, hsz]; exact ⟨rfl, rfl⟩

-- tests: the three bare schemes
example : parseURI "sips:".toUTF8.data {} = (.tooShort, 5, { uriType := SIPSuri, scheme := ⟨0, 5⟩ }, false) :=
  ae_parseURI_bare_sips _ ⟨⟨115, 105, 112, 115, by decide +kernel, by decide +kernel, by decide +kernel,
    by decide +kernel, by decide +kernel, by decide +kernel, by decide +kernel, by decide +kernel⟩, by decide +kernel⟩
    (by decide +kernel)
example : parseURI "sip:".toUTF8.data {} = (.tooShort, 4, {}, false) := C14.err_too_short _ (by decide +kernel)
example : parseURI "tel:".toUTF8.data {} = (.tooShort, 4, {}, false) := C14.err_too_short _ (by decide +kernel)

/-- the `sip:` scheme of a concrete text (test helper: every leaf is a closed computation) -/
theorem ae_sch_sip {b : Buf} (h0 : b[0]? = some 115) (h1 : b[1]? = some 105) (h2 : b[2]? = some 112)
    (h3 : b[3]? = some 58) : UcScheme b SIPuri 4 :=
  Or.inl ⟨rfl, rfl, 115, 105, 112, 58, h0, h1, h2, h3, by decide, by decide, by decide, by decide⟩

-- test: `C14.err_bracket_junk` on `sip:[::1]x` (bracketed host right behind the scheme, then `x`): host error at 9
example : UcErrAt (parseURI "sip:[::1]x".toUTF8.data {}) .host 9 :=
  C14.err_bracket_junk _ (by decide +kernel) (t := SIPuri) (k := 4) (hs := 4) (he := 9) (c := 120)
    (ae_sch_sip (by decide +kernel) (by decide +kernel) (by decide +kernel) (by decide +kernel))
    (Or.inl rfl)
    ⟨by decide +kernel, by decide, by decide +kernel, ucAll_of_check (by decide +kernel)⟩
    (by decide +kernel) (by decide) (by decide) (by decide)

-- test: `C14.err_bracket_junk` behind a user-info: `sip:u:p@[::1]]`: host error at the second `]`
example : UcErrAt (parseURI "sip:u:p@[::1]]".toUTF8.data {}) .host 13 :=
  C14.err_bracket_junk _ (by decide +kernel) (t := SIPuri) (k := 4) (hs := 8) (he := 13) (c := 93)
    (ae_sch_sip (by decide +kernel) (by decide +kernel) (by decide +kernel) (by decide +kernel))
    (Or.inr ⟨7, ⟨4, 1⟩, ⟨6, 1⟩, rfl, by decide +kernel,
      Or.inl ⟨5, ⟨by decide, ucAll_of_check (by decide +kernel), ucAll_of_check (by decide +kernel)⟩, rfl,
        Or.inr ⟨by decide +kernel, by decide, rfl, ucAll_of_check (by decide +kernel)⟩⟩⟩)
    ⟨by decide +kernel, by decide, by decide +kernel, ucAll_of_check (by decide +kernel)⟩
    (by decide +kernel) (by decide) (by decide) (by decide)

-- test: `C14.err_port_char`, first alternative (a host name behind '@'): `sip:u@h.example:12x`: port error at 18
example : UcErrAt (parseURI "sip:u@h.example:12x".toUTF8.data {}) .port 18 :=
  C14.err_port_char _ (by decide +kernel) (t := SIPuri) (k := 4) (hs := 6) (he := 15) (p := 18) (c := 120)
    (ae_sch_sip (by decide +kernel) (by decide +kernel) (by decide +kernel) (by decide +kernel))
    (Or.inr ⟨5, ⟨4, 1⟩, ⟨0, 0⟩, rfl, by decide +kernel,
      Or.inl ⟨5, ⟨by decide, ucAll_of_check (by decide +kernel), ucAll_of_check (by decide +kernel)⟩, rfl,
        Or.inl ⟨rfl, rfl⟩⟩⟩)
    (Or.inl ⟨by decide, by decide, ucAll_of_check (by decide +kernel), ucAll_of_check (by decide +kernel)⟩)
    (by decide +kernel) (by decide) (ucAll_of_check (by decide +kernel)) (by decide +kernel) (by decide)
    (by decide) (by decide)

-- test: `C14.err_port_char`, second alternative (a bracketed host, no user): `sip:[::1]:5x`: port error at 11
example : UcErrAt (parseURI "sip:[::1]:5x".toUTF8.data {}) .port 11 :=
  C14.err_port_char _ (by decide +kernel) (t := SIPuri) (k := 4) (hs := 4) (he := 9) (p := 11) (c := 120)
    (ae_sch_sip (by decide +kernel) (by decide +kernel) (by decide +kernel) (by decide +kernel))
    (Or.inl rfl)
    (Or.inr ⟨by decide +kernel, by decide, by decide +kernel, ucAll_of_check (by decide +kernel)⟩)
    (by decide +kernel) (by decide) (ucAll_of_check (by decide +kernel)) (by decide +kernel) (by decide)
    (by decide) (by decide)

-- test: `C14.err_port_big`, first alternative (host name behind '@'), closed by `?`: `sip:u@h:65536?x`
example : UcErrAt (parseURI "sip:u@h:65536?x".toUTF8.data {}) .port 13 :=
  C14.err_port_big _ (by decide +kernel) (t := SIPuri) (k := 4) (hs := 6) (he := 7) (p := 13)
    (ae_sch_sip (by decide +kernel) (by decide +kernel) (by decide +kernel) (by decide +kernel))
    (Or.inr ⟨5, ⟨4, 1⟩, ⟨0, 0⟩, rfl, by decide +kernel,
      Or.inl ⟨5, ⟨by decide, ucAll_of_check (by decide +kernel), ucAll_of_check (by decide +kernel)⟩, rfl,
        Or.inl ⟨rfl, rfl⟩⟩⟩)
    (Or.inl ⟨by decide, by decide, ucAll_of_check (by decide +kernel), ucAll_of_check (by decide +kernel)⟩)
    (by decide +kernel) (by decide) (ucAll_of_check (by decide +kernel)) (by decide +kernel)
    (Or.inr (Or.inr (by decide +kernel)))

-- test: `C14.err_port_big`, second alternative (bracketed host), closed by the end of the input: `sip:[::1]:70000`
example : UcErrAt (parseURI "sip:[::1]:70000".toUTF8.data {}) .port 15 :=
  C14.err_port_big _ (by decide +kernel) (t := SIPuri) (k := 4) (hs := 4) (he := 9) (p := 15)
    (ae_sch_sip (by decide +kernel) (by decide +kernel) (by decide +kernel) (by decide +kernel))
    (Or.inl rfl)
    (Or.inr (Or.inl ⟨by decide +kernel, by decide, by decide +kernel, ucAll_of_check (by decide +kernel)⟩))
    (by decide +kernel) (by decide) (ucAll_of_check (by decide +kernel)) (by decide +kernel)
    (Or.inl (by decide +kernel))

-- test: `C14.err_port_big`, third alternative (first token right behind the scheme), closed by `;`: `sip:h:70000;x`
example : UcErrAt (parseURI "sip:h:70000;x".toUTF8.data {}) .port 11 :=
  C14.err_port_big _ (by decide +kernel) (t := SIPuri) (k := 4) (hs := 4) (he := 5) (p := 11)
    (ae_sch_sip (by decide +kernel) (by decide +kernel) (by decide +kernel) (by decide +kernel))
    (Or.inl rfl)
    (Or.inr (Or.inr ⟨rfl, by decide, ucAll_of_check (by decide +kernel), ucAll_of_check (by decide +kernel)⟩))
    (by decide +kernel) (by decide) (ucAll_of_check (by decide +kernel)) (by decide +kernel)
    (Or.inr (Or.inl (by decide +kernel)))

/-! ## C15: `presence_raw` on two raw URIs that compare equal (parameters reordered, letter case changed) -/

def aeU15A : Buf := "sip:a@b;user=phone;x=1".toUTF8.data
def aeU15B : Buf := "SIP:a@B;X=1;USER=phone".toUTF8.data

-- test: URIParseCmp says "equal", no error; both parameter lists fit (nothing dropped)
example : (uriParseCmp aeU15A aeU15B 0).map (fun r => (r.1, r.2.1)) = some (true, UErr.none) ∧
    (uriParamsParse (uclParamsText aeU15A) 0).2.more = false ∧
    (uriParamsParse (uclParamsText aeU15B) 0).2.more = false := by decide +kernel

-- `C15.presence_raw` with all hypotheses instantiated
example : ∀ s ∈ [sUser, sTtl, sMethod, sMaddr],
    (UclHasParam (uclParamsText aeU15A) s ↔ UclHasParam (uclParamsText aeU15B) s) := by
  rcases h : uriParseCmp aeU15A aeU15B 0 with _ | ⟨v, e, i, u1, u2⟩
  · have : (uriParseCmp aeU15A aeU15B 0).isSome = true := by decide +kernel
    rw [h] at this; cases this
  · have hv : (uriParseCmp aeU15A aeU15B 0).map (fun r => r.1) = some true := by decide +kernel
    rw [h] at hv
    simp only [Option.map_some, Option.some.injEq] at hv
    subst hv
    exact C15.presence_raw aeU15A aeU15B 0 (by decide +kernel) (by decide +kernel) (by decide +kernel)
      (by decide +kernel) (by decide) h

-- test: the statement is not vacuous on this input — `user` IS a parameter of both, `ttl` of neither
example : UclHasParam (uclParamsText aeU15A) sUser ∧ UclHasParam (uclParamsText aeU15B) sUser ∧
    ¬ UclHasParam (uclParamsText aeU15A) sTtl ∧ ¬ UclHasParam (uclParamsText aeU15B) sTtl := by decide +kernel

/-! ## C18: `adjust_moves` with a URI whose scheme offset is not 0 (relocate twice) -/

theorem ae_ulenStep_le (a start L : Nat) (f : PField) (ha : a ≤ L) (hL : start + L < 65536)
    (hf : f.offs ≠ 0 → start ≤ f.offs ∧ f.offs + f.len ≤ start + L) : ulenStep a start f ≤ L := by
  unfold ulenStep
  split
  · rename_i hc
    simp only [Bool.and_eq_true, bne_iff_ne, ne_eq, decide_eq_true_eq] at hc
    have := hf hc.1
    have e : f.offs + f.len + 65536 - start = (f.offs + f.len - start) + 65536 := by omega
    rw [e, Nat.add_mod_right, Nat.mod_eq_of_lt (by omega)]
    omega
  · exact ha

/-- the length AdjustOffs computes is bounded by `L` as soon as the components lie inside `[start, start + L)` -/
theorem ae_ulenOf_le (u : PsipURI) (L : Nat) (hL : u.scheme.offs + L < 65536) (hs : u.scheme.len ≤ L)
    (hin : ∀ f ∈ C18.comps u, f.offs ≠ 0 → u.scheme.offs ≤ f.offs ∧ f.offs + f.len ≤ u.scheme.offs + L) :
    C18.ulenOf u ≤ L := by
  unfold C18.ulenOf
  have key : ∀ (l : List PField) (a : Nat), a ≤ L →
      (∀ f ∈ l, f.offs ≠ 0 → u.scheme.offs ≤ f.offs ∧ f.offs + f.len ≤ u.scheme.offs + L) →
      l.foldl (fun a f => ulenStep a u.scheme.offs f) a ≤ L := by
    intro l
    induction l with
    | nil => intro a ha _; exact ha
    | cons x xs ih =>
      intro a ha hl
      simp only [List.foldl_cons]
      exact ih _ (ae_ulenStep_le a _ L x ha hL (hl x List.mem_cons_self))
        (fun f hf => hl f (List.mem_cons_of_mem _ hf))
  exact key _ _ hs hin

theorem ae_moved_inside (f : PField) (start offs L : Nat)
    (h : f.offs ≠ 0 → start ≤ f.offs ∧ f.offs + f.len ≤ start + L) :
    (C18.moved f start offs).offs ≠ 0 →
      offs ≤ (C18.moved f start offs).offs ∧ (C18.moved f start offs).offs + (C18.moved f start offs).len ≤ offs + L := by
  unfold C18.moved
  by_cases hz : f.offs = 0
  · simp [hz]
  · have hne : (f.offs != 0) = true := by simpa using hz
    have := h hz
    simp only [hne, if_true]
    intro _
    constructor <;> omega

/-- **C18: a relocated URI is again well formed** (what the header of C18 lists as not stated): after an accepted
    AdjustOffs onto a span inside the addressing range, the result satisfies `WF` with the same length, so
    `adjust_moves` / `adjust_refused` apply to a SECOND relocation -/
theorem ae_adjust_wf (u : PsipURI) (np : PField) (L : Nat) (hwf : C18.WF u L) (hfit : L ≤ np.len)
    (hsum : C18.sumLen u ≤ np.len) (hlim : np.offs + np.len < 65536) : C18.WF (u.adjustOffs np).2.1 L := by
  obtain ⟨_, _, hsch, hu, hp, hh, hpo, hpa, hhd, _, _⟩ := C18.adjust_moves u np L hwf hfit hsum hlim
  have hso : (u.adjustOffs np).2.1.scheme.offs = np.offs := by rw [hsch]
  have hsl : (u.adjustOffs np).2.1.scheme.len = u.scheme.len := by rw [hsch]
  have hin := hwf.inside
  have hI : ∀ f ∈ C18.comps (u.adjustOffs np).2.1, f.offs ≠ 0 →
      (u.adjustOffs np).2.1.scheme.offs ≤ f.offs ∧ f.offs + f.len ≤ (u.adjustOffs np).2.1.scheme.offs + L := by
    intro f hf
    rw [hso]
    simp only [C18.comps, List.mem_cons, List.not_mem_nil, or_false] at hf
    rcases hf with rfl | rfl | rfl | rfl | rfl | rfl
    · rw [hu]; exact ae_moved_inside _ _ _ L (hin _ (by simp [C18.comps]))
    · rw [hp]; exact ae_moved_inside _ _ _ L (hin _ (by simp [C18.comps]))
    · rw [hh]; exact ae_moved_inside _ _ _ L (hin _ (by simp [C18.comps]))
    · rw [hpo]; exact ae_moved_inside _ _ _ L (hin _ (by simp [C18.comps]))
    · rw [hpa]; exact ae_moved_inside _ _ _ L (hin _ (by simp [C18.comps]))
    · rw [hhd]; exact ae_moved_inside _ _ _ L (hin _ (by simp [C18.comps]))
  have hL : (u.adjustOffs np).2.1.scheme.offs + L < 65536 := by rw [hso]; omega
  have hS : (u.adjustOffs np).2.1.scheme.len ≤ L := by rw [hsl]; exact hwf.sch
  exact ⟨hL, hS, hI, ae_ulenOf_le _ L hL hS hI⟩

def aeU18B : Buf := "sip:u@h:5060;x=1".toUTF8.data
/-- the parsed URI (scheme at offset 0) -/
def aeU18U0 : PsipURI := (parseURI aeU18B {}).2.2.1
/-- relocated once, onto `[100, 116)`: the scheme offset is now 100 -/
def aeU18U1 : PsipURI := (aeU18U0.adjustOffs ⟨100, 16⟩).2.1

-- test: accepted; after the first relocation the scheme starts at 100 and the host at 106
example : (parseURI aeU18B {}).1 = .none ∧ aeU18B.size = 16 ∧ aeU18U1.scheme = ⟨100, 4⟩ ∧ aeU18U1.host = ⟨106, 1⟩ ∧
    aeU18U1.params = ⟨113, 3⟩ := by decide +kernel

theorem aeU18_wf1 : C18.WF aeU18U1 16 :=
  ae_adjust_wf aeU18U0 ⟨100, 16⟩ 16 (C18.parsed_wf aeU18B (by decide +kernel) (by decide +kernel)) (Nat.le_refl _)
    (by decide +kernel) (by decide)

-- `C18.adjust_moves` for the SECOND relocation (start offset 100 ≠ 0, onto a longer span at 7)
example :
    let r := aeU18U1.adjustOffs ⟨7, 20⟩
    r.1 = true ∧ r.2.2 = false ∧
    r.2.1.scheme = { aeU18U1.scheme with offs := 7 } ∧
    r.2.1.user = C18.moved aeU18U1.user aeU18U1.scheme.offs 7 ∧ r.2.1.pass = C18.moved aeU18U1.pass aeU18U1.scheme.offs 7 ∧
    r.2.1.host = C18.moved aeU18U1.host aeU18U1.scheme.offs 7 ∧ r.2.1.port = C18.moved aeU18U1.port aeU18U1.scheme.offs 7 ∧
    r.2.1.params = C18.moved aeU18U1.params aeU18U1.scheme.offs 7 ∧
    r.2.1.headers = C18.moved aeU18U1.headers aeU18U1.scheme.offs 7 ∧
    r.2.1.portNo = aeU18U1.portNo ∧ r.2.1.uriType = aeU18U1.uriType :=
  C18.adjust_moves aeU18U1 ⟨7, 20⟩ 16 aeU18_wf1 (by decide) (by decide +kernel) (by decide)

-- test: the numbers after the second relocation (host 106 - 100 + 7 = 13, port number kept)
example : (aeU18U1.adjustOffs ⟨7, 20⟩).2.1.host = ⟨13, 1⟩ ∧ (aeU18U1.adjustOffs ⟨7, 20⟩).2.1.portNo = 5060 := by
  decide +kernel

/-! ## C19 -/

/-- decidable equality of view keys, local to the tests of this section -/
@[instance_reducible] def aeSigKeyDecEq : DecidableEq SigKey := fun a b =>
  decidable_of_iff (a.type = b.type ∧ a.compact = b.compact ∧ a.viaVal = b.viaVal)
    (by cases a; cases b; simp)
attribute [local instance] aeSigKeyDecEq

/-- a request: Via, compact From, To, Call-ID, CSeq, Content-Length -/
def aeG19A : Buf := "INVITE sip:a@b SIP/2.0\r\nVia: SIP/2.0/UDP h;branch=z9hG4bK-1\r\nf: <sip:a@b>;tag=t1\r\nTo: <sip:c@d>\r\nCall-ID: c1@h\r\nCSeq: 1 INVITE\r\nContent-Length: 0\r\n\r\n".toUTF8.data
/-- the same request with a filler header (Subject) inserted behind the Via and another one (X-Filler) before
    Content-Length, and another To URI: a DIFFERENT message with the same fingerprinted content -/
def aeG19B : Buf := "INVITE sip:a@b SIP/2.0\r\nVia: SIP/2.0/UDP h;branch=z9hG4bK-1\r\nSubject: hi\r\nf: <sip:a@b>;tag=t1\r\nTo: <sip:e@f>\r\nCall-ID: c1@h\r\nCSeq: 1 INVITE\r\nX-Filler: x\r\nContent-Length: 0\r\n\r\n".toUTF8.data
def aeG19I (k : Nat) : PSIPMsg := ({} : PSIPMsg).init 0 ((some ()).map fun _ => Array.replicate k {})
  ((none : Option Unit).map fun _ => Array.replicate 0 {})
def aeG19RA : Nat × Err × PSIPMsg := parseSIPMsg aeG19A 0 (aeG19I 8) 0
def aeG19RB : Nat × Err × PSIPMsg := parseSIPMsg aeG19B 0 (aeG19I 12) 0

theorem aeG19_parsedA : SvParsed aeG19RA.2.2 :=
  svParsed_init aeG19A 0 {} 0 8 0 (some ()) none 0 (ae_eta3 aeG19RA (by decide +kernel))
theorem aeG19_parsedB : SvParsed aeG19RB.2.2 :=
  svParsed_init aeG19B 0 {} 0 12 0 (some ()) none 0 (ae_eta3 aeG19RB (by decide +kernel))

-- test: the two parsed objects differ (6 headers against 8, other offsets)
example : aeG19RA.2.2.hl.n = 6 ∧ aeG19RB.2.2.hl.n = 8 ∧ aeG19RA.2.2.pv.to.uri ≠ aeG19RB.2.2.pv.to.uri := by
  decide +kernel

-- `C19.same_view_same_signature_unconditional` on the two DIFFERENT parsed messages
example : (getMsgSigCore aeG19RB.2.2 aeG19B).1 = (getMsgSigCore aeG19RA.2.2 aeG19A).1 ∧
    (getMsgSigCore aeG19RB.2.2 aeG19B).2.2 = (getMsgSigCore aeG19RA.2.2 aeG19A).2.2 :=
  C19.same_view_same_signature_unconditional aeG19RA.2.2 aeG19RB.2.2 aeG19A aeG19B aeG19_parsedA aeG19_parsedB
    (by decide +kernel) (by decide +kernel) (by decide +kernel) (by decide +kernel) (by decide +kernel)
    (by decide +kernel)

-- test: the common signature (hdrSig: Via, compact From, To, Call-ID, CSeq) and the common restricted view
example : (getMsgSigCore aeG19RA.2.2 aeG19A).2.1 = .ok ∧ (getMsgSigCore aeG19RA.2.2 aeG19A).1.hdrSig = [6, 11, 5, 0, 2] ∧
    (svFirsts aeG19RB.2.2 aeG19B).map (fun k => (k.type, k.compact)) =
      [(HdrVia, false), (HdrFrom, true), (HdrTo, false), (HdrCallID, false), (HdrCSeq, false)] := by decide +kernel

/-! ### the edit theorems applied to parsed messages (`Covered` from `SvParsed.covered`, not by computation) -/

theorem aeG19_covA : C19.Covered aeG19RA.2.2 := aeG19_parsedA.covered
theorem aeG19_covB : C19.Covered aeG19RB.2.2 := aeG19_parsedB.covered

-- `C19.edit_insert_repeat`: a second Via (a copy of the stored one, type Via occurs among the first two headers)
-- inserted at position 2 of message A, any header count
example (n' : Nat) :
    (getMsgSigCore (C19.withHdrs aeG19RA.2.2 (aeG19RA.2.2.hl.hdrs.toList.take 2 ++
      aeG19RA.2.2.hl.hdrs[0]! :: aeG19RA.2.2.hl.hdrs.toList.drop 2) n') aeG19A).1 = (getMsgSigCore aeG19RA.2.2 aeG19A).1 :=
  (C19.edit_insert_repeat aeG19RA.2.2 aeG19A _ _ aeG19RA.2.2.hl.hdrs[0]! n' aeG19_covA
    (List.take_append_drop 2 _).symm ⟨aeG19RA.2.2.hl.hdrs[0]!, by decide +kernel, rfl⟩).1

-- test: that header is a Via (a fingerprinted type: `edit_insert_other` would not apply)
example : aeG19RA.2.2.hl.hdrs[0]!.type = HdrVia ∧ HdrVia ∈ Gen.sigHdrs := by decide +kernel

-- `C19.edit_change_other`: the Subject header of message B (index 1, not fingerprinted) replaced by another
-- non-fingerprinted header
example (n' : Nat) :
    (getMsgSigCore (C19.withHdrs aeG19RB.2.2 (aeG19RB.2.2.hl.hdrs.toList.take 1 ++
      ({ type := HdrOther, name := ⟨60, 9⟩, val := ⟨71, 2⟩ } : Hdr) :: aeG19RB.2.2.hl.hdrs.toList.drop 2) n') aeG19B).1 =
    (getMsgSigCore aeG19RB.2.2 aeG19B).1 :=
  (C19.edit_change_other aeG19RB.2.2 aeG19B _ _ aeG19RB.2.2.hl.hdrs[1]! _ n' aeG19_covB (by decide +kernel)
    (by decide +kernel) (by decide)).1

-- `C19.edit_padding`: three cleared entries appended behind the stored headers of message A (a larger array)
example (n' : Nat) :
    (getMsgSigCore (C19.withHdrs aeG19RA.2.2 (aeG19RA.2.2.hl.hdrs.toList ++ List.replicate 3 ({} : Hdr) ++ []) n') aeG19A).1 =
    (getMsgSigCore aeG19RA.2.2 aeG19A).1 :=
  (C19.edit_padding aeG19RA.2.2 aeG19A _ (List.replicate 3 ({} : Hdr)) [] n' aeG19_covA (List.append_nil _).symm
    (fun x hx => by rw [List.eq_of_mem_replicate hx]; decide)).1

/-! ### `C19.sig_capacity` applied: header arrays of 3 and of 10 entries over a two-piece chunk schedule -/

def aeG19Cuts : List Buf := [aeG19A.extract 0 50, aeG19A]

theorem aeG19_growing : Growing aeG19Cuts := ⟨⟨aeG19A.extract 50 aeG19A.size, by decide +kernel⟩, trivial⟩

def aeG19Run (k : Nat) : Nat × Err × PSIPMsg :=
  resumeRun (fun b o m => parseSIPMsg b o m 0) 0
    (({} : PSIPMsg).init 0 ((some ()).map fun _ => Array.replicate k {})
      ((none : Option Unit).map fun _ => Array.replicate 0 {})) aeG19Cuts

theorem aeG19_cap : (aeG19Run 10).1 = (aeG19Run 3).1 ∧ (aeG19Run 10).2.1 = .ok ∧
    (aeG19Run 10).2.2.hl.n = (aeG19Run 3).2.2.hl.n ∧
    (aeG19Run 3).2.2.hl.hdrs.size = scCap 3 (some ()) ∧ (aeG19Run 10).2.2.hl.hdrs.size = scCap 10 (some ()) ∧
    ((aeG19Run 3).2.2.hl.n ≤ scCap 3 (some ()) → (aeG19Run 3).2.2.hl.n ≤ scCap 10 (some ()) →
      ∀ b, getMsgSigCore (aeG19Run 3).2.2 b = getMsgSigCore (aeG19Run 10).2.2 b) ∧
    (scCap 3 (some ()) < (aeG19Run 3).2.2.hl.n → scCap 3 (some ()) ≤ scCap 10 (some ()) →
      ∀ b, (getMsgSigCore (aeG19Run 3).2.2 b).2.1 = .trunc ∨ getMsgSigCore (aeG19Run 3).2.2 b = getMsgSigCore (aeG19Run 10).2.2 b) :=
  C19.sig_capacity 0 0 {} {} 0 3 0 10 0 (some ()) none (some ()) none aeG19Cuts aeG19_growing
    (fun x hx => by
      have hx' : x ∈ [aeG19A.extract 0 50, aeG19A] := hx
      simp only [List.mem_cons, List.not_mem_nil, or_false] at hx'
      rcases hx' with h | h
      · rw [h]; decide +kernel
      · rw [h]; decide +kernel)
    (fun b hb => Nat.zero_le _) (List.cons_ne_nil _ _) (aeG19Run 3) (aeG19Run 10) rfl rfl (by decide +kernel)

-- the applied consequence: with the array of 3 (6 headers do not fit) the signature call reports Trunc or agrees with
-- the array of 10; the test shows which one happens here
example : (getMsgSigCore (aeG19Run 3).2.2 aeG19A).2.1 = .trunc ∨
    getMsgSigCore (aeG19Run 3).2.2 aeG19A = getMsgSigCore (aeG19Run 10).2.2 aeG19A :=
  aeG19_cap.2.2.2.2.2.2 (by decide +kernel) (by decide) aeG19A
example : (getMsgSigCore (aeG19Run 3).2.2 aeG19A).2.1 = .trunc ∧ (aeG19Run 3).2.2.hl.n = 6 := by decide +kernel

/-! ## (B)(ii) C20: the address array has exactly 4 entries (the span theorems read `ip[0]!` … `ip[3]!`) -/

theorem ae_ip4Loop_size (b : Buf) (start o : Nat) (st : IP4St) :
    (ip4Loop b start o st).2.2.2.size = st.ip.size := by
  fun_induction ip4Loop b start o st <;> simp_all

/-- the address array returned by IP4Prefix has 4 entries, whatever the verdict -/
theorem ae_ip4PrefixAt_size (b : Buf) (p : Nat) : (ip4PrefixAt b p).2.2.2.size = 4 := by
  unfold ip4PrefixAt; rw [ae_ip4Loop_size]; rfl

theorem ae_ip4Prefix_size (b : Buf) : (ip4Prefix b).2.2.2.size = 4 := ae_ip4PrefixAt_size b 0

theorem ae_containsIP4Try_size (b : Buf) (o d : Nat) {r : Nat × Nat × Array Nat}
    (h : containsIP4Try b o d = some r) : r.2.2.size = 4 := by
  fun_induction containsIP4Try b o d with
  | case1 o hlt nxt e ip hp =>
    cases h
    have := ae_ip4PrefixAt_size b o
    rw [hp] at this; exact this
  | case2 o hlt hne ih => exact ih h
  | case3 o hge => cases h

theorem ae_containsIP4Loop_size (b : Buf) (i : Nat) {r : Nat × Nat × Array Nat}
    (h : containsIP4Loop b i = some r) : r.2.2.size = 4 := by
  fun_induction containsIP4Loop b i with
  | case1 i hlt hidx => cases h
  | case2 i hlt dOffs hidx offs r' hq => cases h; exact ae_containsIP4Try_size b _ _ hq
  | case3 i hlt dOffs hidx offs hq hlt2 ih => exact ih h
  | case4 i hlt dOffs hidx offs hq hge => cases h
  | case5 i hge => cases h

/-- **C20**: a positive ContainsIP4 returns an address array of exactly 4 entries -/
theorem ae_containsIP4_size (b : Buf) {o n : Nat} {ip : Array Nat} (h : containsIP4 b = some (o, n, ip)) :
    ip.size = 4 := ae_containsIP4Loop_size b 0 h

/-- **C20**: a positive IP4Prefix returns an address array of exactly 4 entries -/
theorem ae_ip4Prefix_pos_size (b : Buf) {n : Nat} {e : Err} {ip : Array Nat} (h : ip4Prefix b = (true, n, e, ip)) :
    ip.size = 4 := by
  have := ae_ip4Prefix_size b; rw [h] at this; exact this
-- tests: applied to concrete texts
example : ∀ o n ip, containsIP4 "x256.1.1.1".toUTF8.data = some (o, n, ip) → ip.size = 4 :=
  fun _ _ _ h => ae_containsIP4_size _ h
example : (#[56, 1, 1, 1] : Array Nat).size = 4 :=
  ae_containsIP4_size "x256.1.1.1".toUTF8.data (o := 2) (n := 8) (by decide +kernel)
example : (#[10, 0, 255, 7] : Array Nat).size = 4 :=
  ae_ip4Prefix_pos_size "10.0.255.7".toUTF8.data (n := 10) (e := .ok) (by decide +kernel)

end Sipsp
