/-
  Audit round Y3: non-vacuity examples for exported theorems and a few small missing lemmas.

  Every `example` below instantiates ALL hypotheses of an exported theorem on a concrete, non-trivial input and
  applies the theorem. Closed computations are discharged by `decide +kernel`; they are TESTS (non-vacuity
  witnesses), never the general claim. For resumption theorems the object passed in is a genuinely suspended one: it
  is obtained by running the model on a proper prefix of the input (never written by hand), and its legitimacy
  condition is obtained from the resumption theorem applied to the preceding call (which started from a new object).
-/
import Sipsp.Properties.C17
import Sipsp.Properties.C14
import Sipsp.Properties.C20

namespace Sipsp

/-! ## helpers -/

/-- a triple whose verdict component is known, written out -/
theorem ae_eta3 {α γ : Type} (r : α × Err × γ) {e : Err} (h : r.2.1 = e) : r = (r.1, e, r.2.2) := by
  subst h; rfl

/-- a 4-tuple whose verdict component is known, written out -/
theorem ae_eta4 {α γ δ : Type} (r : α × Err × γ × δ) {e : Err} (h : r.2.1 = e) :
    r = (r.1, e, r.2.2.1, r.2.2.2) := by
  subst h; rfl

/-! ## (B)(i) C17: a reset URI parameter / header list is `Fresh` -/

/-- Reset() of a clean URI parameter list is `Fresh`: the soundness theorems of Proofs/ParamSound apply after Reset -/
theorem ae_params_reset_fresh {l : URIParamsLst} (h : plClean l) : l.reset.Fresh := by
  have hsz : l.reset.params.size = l.params.size := clearUpToP_size _ _ _
  refine ⟨fun i x _ hx => ?_, rfl⟩
  have hi : i < l.reset.params.size := by
    rcases Nat.lt_or_ge i l.reset.params.size with h | h
    · exact h
    · rw [Array.getElem?_eq_none h] at hx; cases hx
  have hk : i < l.params.size := by rw [← hsz]; exact hi
  have e1 : l.reset.params[i]! = x := by
    rw [getElem!_def, hx]
  rw [← e1]
  show (clearUpToP l.params {} l.n)[i]! = {}
  rw [clearUpToP_get _ _ _ _ hk]
  split
  · rfl
  · exact h.1 i (by omega) hk

/-- Reset() of a clean URI header list is `Fresh` -/
theorem ae_hdrs_reset_fresh {l : URIHdrsLst} (h : hlClean l) : l.reset.Fresh := by
  have hsz : l.reset.hdrs.size = l.hdrs.size := clearUpToP_size _ _ _
  refine ⟨fun i x _ hx => ?_, rfl⟩
  have hi : i < l.reset.hdrs.size := by
    rcases Nat.lt_or_ge i l.reset.hdrs.size with h | h
    · exact h
    · rw [Array.getElem?_eq_none h] at hx; cases hx
  have hk : i < l.hdrs.size := by rw [← hsz]; exact hi
  have e1 : l.reset.hdrs[i]! = x := by
    rw [getElem!_def, hx]
  rw [← e1]
  show (clearUpToP l.hdrs {} l.n)[i]! = {}
  rw [clearUpToP_get _ _ _ _ hk]
  split
  · rfl
  · exact h.1 i (by omega) hk

/-! ## C14 -/

/-- **(B)(iii) the scheme alone, `sips:` (any letter case), 5 bytes**: `ErrURITooShort` at position 5 (the end of the
    input); the URI object has the type and the scheme field already filled in. (`sip:` and `tel:` alone are 4 bytes:
    `C14.err_too_short` gives `ErrURITooShort` at position 4 with the object untouched.) -/
theorem ae_parseURI_bare_sips (b : Buf) (hs : UcSchSips b) (h5 : b.size = 5) :
    parseURI b {} = (.tooShort, 5, { uriType := SIPSuri, scheme := ⟨0, 5⟩ }, false) := by
  obtain ⟨⟨b0, b1, b2, b3, h0, h1, h2, h3, hl⟩, h4⟩ := hs
  have hw := (ucWord_eq b0 b1 b2 b3 115 105 112 115 (by omega) (by omega) (by omega) (by omega)).mpr hl
  rw [uc_parse_unfold h0 h1 h2 h3 h4, if_neg (by rw [hw]; decide), if_neg (by rw [hw]; decide), if_pos ⟨hw, rfl⟩]
  have hn : b[5]? = none := Array.getElem?_eq_none (by omega)
  unfold ucRun
  rw [uc_loop_end hn]
  rfl

/-- the scheme alone, all three: error code and position -/
theorem ae_parseURI_bare_scheme (b : Buf) (t k : Nat) (hs : UcScheme b t k) (hsz : b.size = k) :
    UcErrAt (parseURI b {}) .tooShort b.size := by
  rcases hs with ⟨_, rfl, _⟩ | ⟨_, rfl, _⟩ | ⟨_, rfl, h⟩
  · rw [parseURI_err_short b (by omega)]; exact ⟨rfl, rfl⟩
  · rw [parseURI_err_short b (by omega)]; exact ⟨rfl, rfl⟩
  · rw [ae_parseURI_bare_sips b h hsz, hsz]; exact ⟨rfl, rfl⟩

-- tests: the three bare schemes
example : parseURI "sips:".toUTF8.data {} = (.tooShort, 5, { uriType := SIPSuri, scheme := ⟨0, 5⟩ }, false) :=
  ae_parseURI_bare_sips _ ⟨⟨115, 105, 112, 115, by decide +kernel, by decide +kernel, by decide +kernel,
    by decide +kernel, by decide +kernel, by decide +kernel, by decide +kernel, by decide +kernel⟩, by decide +kernel⟩
    (by decide +kernel)
example : parseURI "sip:".toUTF8.data {} = (.tooShort, 4, {}, false) := C14.err_too_short _ (by decide +kernel)
example : parseURI "tel:".toUTF8.data {} = (.tooShort, 4, {}, false) := C14.err_too_short _ (by decide +kernel)

/-- the `sip:` scheme of a concrete text (test helper: every leaf is a closed computation) -/
theorem ae_sch_sip {b : Buf} (h0 : b[0]? = some 115) (h1 : b[1]? = some 105) (h2 : b[2]? = some 112)
    (h3 : b[3]? = some 58) : UcScheme b SIPuri 4 :=
  Or.inl ⟨rfl, rfl, 115, 105, 112, 58, h0, h1, h2, h3, by decide, by decide, by decide, by decide⟩

-- test: `C14.err_bracket_junk` on `sip:[::1]x` (bracketed host right behind the scheme, then `x`): host error at 9
example : UcErrAt (parseURI "sip:[::1]x".toUTF8.data {}) .host 9 :=
  C14.err_bracket_junk _ (by decide +kernel) (t := SIPuri) (k := 4) (hs := 4) (he := 9) (c := 120)
    (ae_sch_sip (by decide +kernel) (by decide +kernel) (by decide +kernel) (by decide +kernel))
    (Or.inl rfl)
    ⟨by decide +kernel, by decide, by decide +kernel, ucAll_of_check (by decide +kernel)⟩
    (by decide +kernel) (by decide) (by decide) (by decide)

-- test: `C14.err_bracket_junk` behind a user-info: `sip:u:p@[::1]]`: host error at the second `]`
example : UcErrAt (parseURI "sip:u:p@[::1]]".toUTF8.data {}) .host 13 :=
  C14.err_bracket_junk _ (by decide +kernel) (t := SIPuri) (k := 4) (hs := 8) (he := 13) (c := 93)
    (ae_sch_sip (by decide +kernel) (by decide +kernel) (by decide +kernel) (by decide +kernel))
    (Or.inr ⟨7, ⟨4, 1⟩, ⟨6, 1⟩, rfl, by decide +kernel,
      Or.inl ⟨5, ⟨by decide, ucAll_of_check (by decide +kernel), ucAll_of_check (by decide +kernel)⟩, rfl,
        Or.inr ⟨by decide +kernel, by decide, rfl, ucAll_of_check (by decide +kernel)⟩⟩⟩)
    ⟨by decide +kernel, by decide, by decide +kernel, ucAll_of_check (by decide +kernel)⟩
    (by decide +kernel) (by decide) (by decide) (by decide)

-- test: `C14.err_port_char`, first alternative (a host name behind '@'): `sip:u@h.example:12x`: port error at 18
example : UcErrAt (parseURI "sip:u@h.example:12x".toUTF8.data {}) .port 18 :=
  C14.err_port_char _ (by decide +kernel) (t := SIPuri) (k := 4) (hs := 6) (he := 15) (p := 18) (c := 120)
    (ae_sch_sip (by decide +kernel) (by decide +kernel) (by decide +kernel) (by decide +kernel))
    (Or.inr ⟨5, ⟨4, 1⟩, ⟨0, 0⟩, rfl, by decide +kernel,
      Or.inl ⟨5, ⟨by decide, ucAll_of_check (by decide +kernel), ucAll_of_check (by decide +kernel)⟩, rfl,
        Or.inl ⟨rfl, rfl⟩⟩⟩)
    (Or.inl ⟨by decide, by decide, ucAll_of_check (by decide +kernel), ucAll_of_check (by decide +kernel)⟩)
    (by decide +kernel) (by decide) (ucAll_of_check (by decide +kernel)) (by decide +kernel) (by decide)
    (by decide) (by decide)

-- test: `C14.err_port_char`, second alternative (a bracketed host, no user): `sip:[::1]:5x`: port error at 11
example : UcErrAt (parseURI "sip:[::1]:5x".toUTF8.data {}) .port 11 :=
  C14.err_port_char _ (by decide +kernel) (t := SIPuri) (k := 4) (hs := 4) (he := 9) (p := 11) (c := 120)
    (ae_sch_sip (by decide +kernel) (by decide +kernel) (by decide +kernel) (by decide +kernel))
    (Or.inl rfl)
    (Or.inr ⟨by decide +kernel, by decide, by decide +kernel, ucAll_of_check (by decide +kernel)⟩)
    (by decide +kernel) (by decide) (ucAll_of_check (by decide +kernel)) (by decide +kernel) (by decide)
    (by decide) (by decide)

-- test: `C14.err_port_big`, first alternative (host name behind '@'), closed by `?`: `sip:u@h:65536?x`
example : UcErrAt (parseURI "sip:u@h:65536?x".toUTF8.data {}) .port 13 :=
  C14.err_port_big _ (by decide +kernel) (t := SIPuri) (k := 4) (hs := 6) (he := 7) (p := 13)
    (ae_sch_sip (by decide +kernel) (by decide +kernel) (by decide +kernel) (by decide +kernel))
    (Or.inr ⟨5, ⟨4, 1⟩, ⟨0, 0⟩, rfl, by decide +kernel,
      Or.inl ⟨5, ⟨by decide, ucAll_of_check (by decide +kernel), ucAll_of_check (by decide +kernel)⟩, rfl,
        Or.inl ⟨rfl, rfl⟩⟩⟩)
    (Or.inl ⟨by decide, by decide, ucAll_of_check (by decide +kernel), ucAll_of_check (by decide +kernel)⟩)
    (by decide +kernel) (by decide) (ucAll_of_check (by decide +kernel)) (by decide +kernel)
    (Or.inr (Or.inr (by decide +kernel)))

-- test: `C14.err_port_big`, second alternative (bracketed host), closed by the end of the input: `sip:[::1]:70000`
example : UcErrAt (parseURI "sip:[::1]:70000".toUTF8.data {}) .port 15 :=
  C14.err_port_big _ (by decide +kernel) (t := SIPuri) (k := 4) (hs := 4) (he := 9) (p := 15)
    (ae_sch_sip (by decide +kernel) (by decide +kernel) (by decide +kernel) (by decide +kernel))
    (Or.inl rfl)
    (Or.inr (Or.inl ⟨by decide +kernel, by decide, by decide +kernel, ucAll_of_check (by decide +kernel)⟩))
    (by decide +kernel) (by decide) (ucAll_of_check (by decide +kernel)) (by decide +kernel)
    (Or.inl (by decide +kernel))

-- test: `C14.err_port_big`, third alternative (first token right behind the scheme), closed by `;`: `sip:h:70000;x`
example : UcErrAt (parseURI "sip:h:70000;x".toUTF8.data {}) .port 11 :=
  C14.err_port_big _ (by decide +kernel) (t := SIPuri) (k := 4) (hs := 4) (he := 5) (p := 11)
    (ae_sch_sip (by decide +kernel) (by decide +kernel) (by decide +kernel) (by decide +kernel))
    (Or.inl rfl)
    (Or.inr (Or.inr ⟨rfl, by decide, ucAll_of_check (by decide +kernel), ucAll_of_check (by decide +kernel)⟩))
    (by decide +kernel) (by decide) (ucAll_of_check (by decide +kernel)) (by decide +kernel)
    (Or.inr (Or.inl (by decide +kernel)))

theorem ae_ip4Loop_size (b : Buf) (start o : Nat) (st : IP4St) :
    (ip4Loop b start o st).2.2.2.size = st.ip.size := by
  fun_induction ip4Loop b start o st <;> simp_all

theorem ae_ip4PrefixAt_size (b : Buf) (p : Nat) : (ip4PrefixAt b p).2.2.2.size = 4 := by
  unfold ip4PrefixAt; rw [ae_ip4Loop_size]; rfl

theorem ae_ip4Prefix_size (b : Buf) : (ip4Prefix b).2.2.2.size = 4 := ae_ip4PrefixAt_size b 0

theorem ae_containsIP4Try_size (b : Buf) (o d : Nat) {r : Nat × Nat × Array Nat}
    (h : containsIP4Try b o d = some r) : r.2.2.size = 4 := by
  fun_induction containsIP4Try b o d with
  | case1 o hlt nxt e ip hp =>
    cases h
    have := ae_ip4PrefixAt_size b o
    rw [hp] at this; exact this
  | case2 o hlt hne ih => exact ih h
  | case3 o hge => cases h

theorem ae_containsIP4Loop_size (b : Buf) (i : Nat) {r : Nat × Nat × Array Nat}
    (h : containsIP4Loop b i = some r) : r.2.2.size = 4 := by
  fun_induction containsIP4Loop b i with
  | case1 i hlt hidx => cases h
  | case2 i hlt dOffs hidx offs r' hq => cases h; exact ae_containsIP4Try_size b _ _ hq
  | case3 i hlt dOffs hidx offs hq hlt2 ih => exact ih h
  | case4 i hlt dOffs hidx offs hq hge => cases h
  | case5 i hge => cases h

theorem ae_containsIP4_size (b : Buf) {o n : Nat} {ip : Array Nat} (h : containsIP4 b = some (o, n, ip)) :
    ip.size = 4 := ae_containsIP4Loop_size b 0 h

theorem ae_ip4Prefix_pos_size (b : Buf) {n : Nat} {e : Err} {ip : Array Nat} (h : ip4Prefix b = (true, n, e, ip)) :
    ip.size = 4 := by
  have := ae_ip4Prefix_size b; rw [h] at this; exact this

end Sipsp
