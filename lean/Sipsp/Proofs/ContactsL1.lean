/-
  Sipsp.Proofs.ContactsL1 — L1 (no premature verdict) for ParseAllContactValues and ParseAllPAIValues:
  the loops over the comma-separated values of one header line.
-/
import Sipsp.Proofs.NameAddrPost
import Sipsp.Model.Msg

namespace Sipsp

theorem naOK_mono {b : Buf} {o o' : Nat} {pf : PFromBody} (h : naOK b o pf) (h1 : o ≤ o') (h2 : o' ≤ b.size) :
    naOK b o' pf := by
  rcases h with h | h
  · exact Or.inl h
  · exact Or.inr ⟨h2, by have := h.2.1; omega, by have := h.2.2; omega⟩

theorem naOK_grows {b : Buf} (s : Buf) {o : Nat} {pf : PFromBody} (h : naOK b o pf) : naOK (b ++ s) o pf := by
  rcases h with h | h
  · exact Or.inl h
  · exact Or.inr ⟨by rw [Array.size_append]; have := h.1; omega, h.2.1, h.2.2⟩

theorem naOK_new (b : Buf) (o : Nat) (ho : o ≤ b.size) : naOK b o {} :=
  Or.inr ⟨ho, Nat.zero_le _, Nat.zero_le _⟩

/-! ### Contact -/

/-- legitimacy of a contacts object at offset `o` of `b`: the slots not yet filled (and the scratch slot) are
    new, finished, or suspended before `o` -/
def ctOK (b : Buf) (o : Nat) (c : PContacts) : Prop :=
  (∀ k, c.n ≤ k → k < c.vals.size → naOK b o c.vals[k]!) ∧ naOK b o c.last

theorem ctOK_cur {b : Buf} {o : Nat} {c : PContacts} (h : ctOK b o c) : naOK b o c.cur := by
  unfold PContacts.cur
  split
  · rename_i hlt; exact h.1 c.n (Nat.le_refl _) hlt
  · exact h.2

theorem ctOK_mono {b : Buf} {o o' : Nat} {c : PContacts} (h : ctOK b o c) (h1 : o ≤ o') (h2 : o' ≤ b.size) :
    ctOK b o' c :=
  ⟨fun k hk hk' => naOK_mono (h.1 k hk hk') h1 h2, naOK_mono h.2 h1 h2⟩

theorem ctOK_grows {b : Buf} (s : Buf) {o : Nat} {c : PContacts} (h : ctOK b o c) : ctOK (b ++ s) o c :=
  ⟨fun k hk hk' => naOK_grows s (h.1 k hk hk'), naOK_grows s h.2⟩

theorem account_vals (c : PContacts) (pf : PFromBody) : (c.account pf).vals = c.vals := by
  unfold PContacts.account; dsimp only; repeat' split
  all_goals rfl
theorem account_n (c : PContacts) (pf : PFromBody) : (c.account pf).n = c.n + 1 := by
  unfold PContacts.account; dsimp only; repeat' split
  all_goals rfl
theorem account_last (c : PContacts) (pf : PFromBody) : (c.account pf).last = c.last := by
  unfold PContacts.account; dsimp only; repeat' split
  all_goals rfl

theorem setCur_n (c : PContacts) (pf : PFromBody) : (c.setCur pf).n = c.n := by
  unfold PContacts.setCur; split <;> rfl
theorem setCur_size (c : PContacts) (pf : PFromBody) : (c.setCur pf).vals.size = c.vals.size := by
  unfold PContacts.setCur; split
  · simp
  · rfl
theorem setCur_vals_ne (c : PContacts) (pf : PFromBody) (k : Nat) (hk : c.n ≠ k) :
    (c.setCur pf).vals[k]! = c.vals[k]! := by
  unfold PContacts.setCur; split
  · simp [Array.getElem!_eq_getD, Array.getD_eq_getD_getElem?, Array.getElem?_setIfInBounds_ne hk]
  · rfl
theorem setCur_last_in (c : PContacts) (pf : PFromBody) (h : c.n < c.vals.size) : (c.setCur pf).last = c.last := by
  unfold PContacts.setCur; rw [if_pos h]

/-- the object the loop continues with after a completed value -/
theorem ctOK_next {b : Buf} {o o' : Nat} {c : PContacts} (pf : PFromBody) (h : ctOK b o c)
    (h1 : o ≤ o') (h2 : o' ≤ b.size) :
    ctOK b o' (if c.n < c.vals.size then (c.setCur pf).account pf
               else { (c.setCur pf).account pf with last := {} }) := by
  have hv : ∀ k, c.n + 1 ≤ k → k < c.vals.size → naOK b o' ((c.setCur pf).account pf).vals[k]! := by
    intro k hk hk'
    rw [account_vals, setCur_vals_ne c pf k (by omega)]
    exact naOK_mono (h.1 k (by omega) hk') h1 h2
  split
  · rename_i hin
    refine ⟨fun k hk hk' => ?_, ?_⟩
    · rw [account_n, setCur_n] at hk
      rw [account_vals, setCur_size] at hk'
      exact hv k hk hk'
    · rw [account_last, setCur_last_in c pf hin]; exact naOK_mono h.2 h1 h2
  · refine ⟨fun k hk hk' => ?_, naOK_new b o' h2⟩
    have hk1 : c.n + 1 ≤ k := by
      have : ((c.setCur pf).account pf).n ≤ k := hk
      rw [account_n, setCur_n] at this; exact this
    have hk2 : k < c.vals.size := by
      have : k < ((c.setCur pf).account pf).vals.size := hk'
      rw [account_vals, setCur_size] at this; exact this
    exact hv k hk1 hk2

theorem parseOneContact_stable (b s : Buf) (o : Nat) (pf : PFromBody) (hok : naOK b o pf)
    {o' : Nat} {e : Err} {pf' : PFromBody} (hr : parseOneContact b o pf = (o', e, pf')) (he : e ≠ .moreBytes) :
    parseOneContact (b ++ s) o pf = (o', e, pf') := parseNameAddrPVal_stable HdrContact b s o pf hok hr he

/-- **L1 for the contact-values loop** -/
theorem contactsLoop_stable (b s : Buf) (offs : Nat) (c : PContacts) (hok : ctOK b offs c) (ho : offs ≤ b.size)
    {o' : Nat} {e : Err} {c' : PContacts} (hr : contactsLoop b offs c = (o', e, c')) (he : e ≠ .moreBytes) :
    contactsLoop (b ++ s) offs c = (o', e, c') := by
  induction hk : b.size - offs using Nat.strongRecOn generalizing offs c with
  | _ k ih =>
    rw [contactsLoop] at hr ⊢
    rcases hp : parseOneContact b offs c.cur with ⟨next, e1, pf⟩
    rw [hp] at hr
    have hcur := ctOK_cur hok
    by_cases hm : e1 = .moreBytes
    · subst hm; simp only at hr; cases hr; exact absurd rfl he
    · have hpB := parseOneContact_stable b s offs c.cur hcur hp hm
      rw [hpB]
      cases e1 <;> simp only at hr ⊢ <;> try exact hr
      -- moreValues: the loop goes on
      have hpost := parseNameAddrPVal_post HdrContact b offs c.cur hp (Or.inr rfl)
      have hnf : c.cur.state ≠ .fin := by
        intro hf
        have : parseOneContact b offs c.cur = (offs, .ok, c.cur) := by
          unfold parseOneContact parseNameAddrPVal; rw [if_pos hf]
        rw [this] at hp; cases hp
      have hrg := hpost.2 hnf
      have hg : offs < next ∧ next ≤ b.size := hrg
      have hgB : offs < next ∧ next ≤ (b ++ s).size := ⟨hrg.1, by rw [Array.size_append]; omega⟩
      rw [if_pos hg] at hr
      rw [if_pos hgB]
      exact ih (b.size - next) (by omega) next _ (ctOK_next pf hok (by omega) hrg.2) hrg.2 hr rfl

/-- the wrapper's scratch-slot clearing keeps legitimacy -/
theorem ctOK_entry {b : Buf} {o : Nat} {c : PContacts} (h : ctOK b o c) (ho : o ≤ b.size) :
    ctOK b o (if c.n ≥ c.vals.size && c.last.parsed then { c with last := {} } else c) := by
  split
  · exact ⟨h.1, naOK_new b o ho⟩
  · exact h

/-- **L1 for ParseAllContactValues** -/
theorem parseAllContactValues_stable (b s : Buf) (offs : Nat) (c : PContacts) (hok : ctOK b offs c)
    (ho : offs ≤ b.size) {o' : Nat} {e : Err} {c' : PContacts}
    (hr : parseAllContactValues b offs c = (o', e, c')) (he : e ≠ .moreBytes) :
    parseAllContactValues (b ++ s) offs c = (o', e, c') := by
  unfold parseAllContactValues at hr ⊢
  exact contactsLoop_stable b s offs _ (ctOK_entry hok ho) ho hr he

/-! ### P-Asserted-Identity -/

/-- legitimacy of a identities object at offset `o` of `b`: the slots not yet filled (and the scratch slot) are
    new, finished, or suspended before `o` -/
def paOK (b : Buf) (o : Nat) (c : PPAIs) : Prop :=
  (∀ k, c.n ≤ k → k < c.vals.size → naOK b o c.vals[k]!) ∧ naOK b o c.last

theorem paOK_cur {b : Buf} {o : Nat} {c : PPAIs} (h : paOK b o c) : naOK b o c.cur := by
  unfold PPAIs.cur
  split
  · rename_i hlt; exact h.1 c.n (Nat.le_refl _) hlt
  · exact h.2

theorem paOK_mono {b : Buf} {o o' : Nat} {c : PPAIs} (h : paOK b o c) (h1 : o ≤ o') (h2 : o' ≤ b.size) :
    paOK b o' c :=
  ⟨fun k hk hk' => naOK_mono (h.1 k hk hk') h1 h2, naOK_mono h.2 h1 h2⟩

theorem paOK_grows {b : Buf} (s : Buf) {o : Nat} {c : PPAIs} (h : paOK b o c) : paOK (b ++ s) o c :=
  ⟨fun k hk hk' => naOK_grows s (h.1 k hk hk'), naOK_grows s h.2⟩

theorem paAccount_vals (c : PPAIs) (pf : PFromBody) : (c.account pf).vals = c.vals := by
  unfold PPAIs.account; dsimp only; repeat' split
  all_goals rfl
theorem paAccount_n (c : PPAIs) (pf : PFromBody) : (c.account pf).n = c.n + 1 := by
  unfold PPAIs.account; dsimp only; repeat' split
  all_goals rfl
theorem paAccount_last (c : PPAIs) (pf : PFromBody) : (c.account pf).last = c.last := by
  unfold PPAIs.account; dsimp only; repeat' split
  all_goals rfl

theorem paSetCur_n (c : PPAIs) (pf : PFromBody) : (c.setCur pf).n = c.n := by
  unfold PPAIs.setCur; split <;> rfl
theorem paSetCur_size (c : PPAIs) (pf : PFromBody) : (c.setCur pf).vals.size = c.vals.size := by
  unfold PPAIs.setCur; split
  · simp
  · rfl
theorem paSetCur_vals_ne (c : PPAIs) (pf : PFromBody) (k : Nat) (hk : c.n ≠ k) :
    (c.setCur pf).vals[k]! = c.vals[k]! := by
  unfold PPAIs.setCur; split
  · simp [Array.getElem!_eq_getD, Array.getD_eq_getD_getElem?, Array.getElem?_setIfInBounds_ne hk]
  · rfl
theorem paSetCur_last_in (c : PPAIs) (pf : PFromBody) (h : c.n < c.vals.size) : (c.setCur pf).last = c.last := by
  unfold PPAIs.setCur; rw [if_pos h]

/-- the object the loop continues with after a completed value -/
theorem paOK_next {b : Buf} {o o' : Nat} {c : PPAIs} (pf : PFromBody) (h : paOK b o c)
    (h1 : o ≤ o') (h2 : o' ≤ b.size) :
    paOK b o' (if c.n < c.vals.size then (c.setCur pf).account pf
               else { (c.setCur pf).account pf with last := {} }) := by
  have hv : ∀ k, c.n + 1 ≤ k → k < c.vals.size → naOK b o' ((c.setCur pf).account pf).vals[k]! := by
    intro k hk hk'
    rw [paAccount_vals, paSetCur_vals_ne c pf k (by omega)]
    exact naOK_mono (h.1 k (by omega) hk') h1 h2
  split
  · rename_i hin
    refine ⟨fun k hk hk' => ?_, ?_⟩
    · rw [paAccount_n, paSetCur_n] at hk
      rw [paAccount_vals, paSetCur_size] at hk'
      exact hv k hk hk'
    · rw [paAccount_last, paSetCur_last_in c pf hin]; exact naOK_mono h.2 h1 h2
  · refine ⟨fun k hk hk' => ?_, naOK_new b o' h2⟩
    have hk1 : c.n + 1 ≤ k := by
      have : ((c.setCur pf).account pf).n ≤ k := hk
      rw [paAccount_n, paSetCur_n] at this; exact this
    have hk2 : k < c.vals.size := by
      have : k < ((c.setCur pf).account pf).vals.size := hk'
      rw [paAccount_vals, paSetCur_size] at this; exact this
    exact hv k hk1 hk2

theorem parseOnePAI_inv {b : Buf} {o : Nat} {pf : PFromBody} {o' : Nat} {e : Err} {pf' : PFromBody}
    (hr : parseOnePAI b o pf = (o', e, pf')) :
    ∃ e0, parseNameAddrPVal HdrPAI b o pf = (o', e0, pf') ∧
      e = (if (e0 == .ok || e0 == .moreValues) && pf'.star then .valBad else e0) := by
  unfold parseOnePAI at hr
  rcases hp : parseNameAddrPVal HdrPAI b o pf with ⟨n, e0, p⟩
  rw [hp] at hr
  simp only at hr
  refine ⟨e0, ?_, ?_⟩
  · split at hr <;> (cases hr; rfl)
  · split at hr
    · rename_i hc; cases hr; rw [if_pos hc]
    · rename_i hc; cases hr; rw [if_neg hc]

theorem parseOnePAI_stable (b s : Buf) (o : Nat) (pf : PFromBody) (hok : naOK b o pf)
    {o' : Nat} {e : Err} {pf' : PFromBody} (hr : parseOnePAI b o pf = (o', e, pf')) (he : e ≠ .moreBytes) :
    parseOnePAI (b ++ s) o pf = (o', e, pf') := by
  obtain ⟨e0, h0, rfl⟩ := parseOnePAI_inv hr
  have hne : e0 ≠ .moreBytes := by
    intro h; subst h; simp at he
  unfold parseOnePAI
  rw [parseNameAddrPVal_stable HdrPAI b s o pf hok h0 hne]
  simp only
  split <;> rfl

/-- **L1 for the identity-values loop** -/
theorem paisLoop_stable (b s : Buf) (offs : Nat) (c : PPAIs) (hok : paOK b offs c) (ho : offs ≤ b.size)
    {o' : Nat} {e : Err} {c' : PPAIs} (hr : paisLoop b offs c = (o', e, c')) (he : e ≠ .moreBytes) :
    paisLoop (b ++ s) offs c = (o', e, c') := by
  induction hk : b.size - offs using Nat.strongRecOn generalizing offs c with
  | _ k ih =>
    rw [paisLoop] at hr ⊢
    rcases hp : parseOnePAI b offs c.cur with ⟨next, e1, pf⟩
    rw [hp] at hr
    have hcur := paOK_cur hok
    by_cases hm : e1 = .moreBytes
    · subst hm; simp only at hr; cases hr; exact absurd rfl he
    · have hpB := parseOnePAI_stable b s offs c.cur hcur hp hm
      rw [hpB]
      cases e1 <;> simp only at hr ⊢ <;> try exact hr
      -- moreValues: the loop goes on
      obtain ⟨e0, h0, he0⟩ := parseOnePAI_inv hp
      have he0' : e0 = .moreValues := by
        split at he0
        · cases he0
        · exact he0.symm
      subst he0'
      have hpost := parseNameAddrPVal_post HdrPAI b offs c.cur h0 (Or.inr rfl)
      have hnf : c.cur.state ≠ .fin := by
        intro hf
        have : parseNameAddrPVal HdrPAI b offs c.cur = (offs, .ok, c.cur) := by
          unfold parseNameAddrPVal; rw [if_pos hf]
        rw [this] at h0; cases h0
      have hrg := hpost.2 hnf
      have hg : offs < next ∧ next ≤ b.size := hrg
      have hgB : offs < next ∧ next ≤ (b ++ s).size := ⟨hrg.1, by rw [Array.size_append]; omega⟩
      rw [if_pos hg] at hr
      rw [if_pos hgB]
      exact ih (b.size - next) (by omega) next _ (paOK_next pf hok (by omega) hrg.2) hrg.2 hr rfl

/-- the wrapper's scratch-slot clearing keeps legitimacy -/
theorem paOK_entry {b : Buf} {o : Nat} {c : PPAIs} (h : paOK b o c) (ho : o ≤ b.size) :
    paOK b o (if c.n ≥ c.vals.size && c.last.parsed then { c with last := {} } else c) := by
  split
  · exact ⟨h.1, naOK_new b o ho⟩
  · exact h

/-- **L1 for ParseAllPAIValues** -/
theorem parseAllPAIValues_stable (b s : Buf) (offs : Nat) (c : PPAIs) (hok : paOK b offs c)
    (ho : offs ≤ b.size) {o' : Nat} {e : Err} {c' : PPAIs}
    (hr : parseAllPAIValues b offs c = (o', e, c')) (he : e ≠ .moreBytes) :
    parseAllPAIValues (b ++ s) offs c = (o', e, c') := by
  unfold parseAllPAIValues at hr ⊢
  exact paisLoop_stable b s offs _ (paOK_entry hok ho) ho hr he

end Sipsp
