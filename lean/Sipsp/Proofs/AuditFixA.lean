/-
  Sipsp.Proofs.AuditFixA — three gaps found by a reviewer in the exported theorems, closed.

  (A) C03. `parseSIPMsg_stable_err`: every definitive NON-OK verdict of ParseSIPMsg (first-line errors, header errors,
      "empty", NoCLen, the state error) is stable under appended bytes with NO side condition on the returned object;
      `parseSIPMsg_stable_all` / `parseSIPMsg_stable_all_init`: the exemption `bodyToEnd` has to be excluded for the
      verdict OK only (`hx : e = .ok → ¬ bodyToEnd flags m'`). Example: a BadChar first line, for every continuation.
  (B) C04 (termination): the six model-only loop guards never fire.
      * `viaBrLoop` (GetViaBrSig), EVERY input: `afa_viaBr_guard` (the guard holds whenever it is evaluated),
        `viaBrLoop_unguarded` (the loop satisfies the Go recursion without guard), `viaBrLoop_exit_irrelevant`,
        `getViaBrSig_exit_irrelevant` (the result is the same whatever the else-exit returns).
      * verdict `lbug` never returned, NO hypothesis: `parseTokenParam_ne_lbug`, `parseCallIDVal_ne_lbug`,
        `parseUIntVal_ne_lbug`, `parseCLenVal_ne_lbug`, `parseCSeqVal_ne_lbug`, `parseNameAddrPVal_ne_lbug`,
        `parseOnePAI_ne_lbug`, `parseAllContactValues_ne_lbug`, `parseAllPAIValues_ne_lbug` (the guards of `contactsLoop` /
        `paisLoop`: `afa_na_guard`), `parseHdrLine_ne_lbug`, `parseFLine_ne_lbug`.
      * under the legitimacy hypotheses of the safety theorems: `parseHeaders_ne_lbug` (`hlsOK`, `hbOK`, `hlsPend`),
        `parseSIPMsg_ne_lbug` (`msgOK2`), `parseSIPMsg_schedule_ne_lbug` (every chunk schedule; `msgOK2`, `MsgSafe`),
        the `_init` forms (every Init object qualifies) and the `_reset` forms (Reset after any history),
        `parseAllURIParams_ne_lbug` (`plClean`), `parseAllURIHdrs_ne_lbug` (`hlClean`) for EVERY option word
        (`afa_pl_guard`, `afa_hl_guard`), `afa_lists_qualify` (new and Reset lists).
        Chunk schedules of the two lists: `parseAllURIParams_schedule_ne_lbug`, `…_schedule_end_ne_lbug` (end-of-input
        option at the last call), `parseAllURIHdrs_schedule_ne_lbug`, `…_schedule_end_ne_lbug`.
      * tests showing the hypotheses are not redundant (outside the domain the model-only exit IS taken).
  (C) C06. `parseSIPMsg_eq_msgBody` (the link: first line OK at `o1`, header block OK at `h` ⇒ ParseSIPMsg is
      `msgBody` entered at `h`), `parseSIPMsg_ok_path` (converse for an OK verdict), `parseSIPMsg_clen_framing`
      (OK iff `h + n ≤ len`, offset `h + n`, body `[h, h+n)`, else MoreBytes at `h`), `parseSIPMsg_ok_clen`
      (the property's words, from the returned object alone).
  NOT proved here: (C) is for an object in state `init` (new / Init / Reset), not for a call resumed in the middle of
  the header block; for a header list / URI list with garbage in its UNUSED slots (outside the domain, no API call
  produces one) the model-only exit is reachable — see the tests at the end.
-/
import Sipsp.Proofs.MsgL1
import Sipsp.Proofs.MsgL2
import Sipsp.Proofs.TokParamEnd
import Sipsp.Proofs.IP4
import Sipsp.Proofs.SafeMsg
import Sipsp.Proofs.SigCompose

namespace Sipsp

/-! ## (A) C03: all non-OK definitive verdicts are stable -/

theorem afa_msgBody_stable_err (b s : Buf) (o : Nat) (m : PSIPMsg) (flags : Nat) (ho : o ≤ b.size)
    (hnf : hasFlag flags SIPMsgNoMoreDataF = false)
    (he : (msgBody b o m flags).2.1 ≠ .moreBytes) (hne : (msgBody b o m flags).2.1 ≠ .ok) :
    msgBody (b ++ s) o m flags = msgBody b o m flags := by
  by_cases hx : bodyToEnd flags m
  · exfalso
    obtain ⟨h1, h2, h3⟩ := hx
    apply hne
    unfold msgBody
    simp only [h1, h2, h3, Bool.false_eq_true, ↓reduceIte, msgEnd]
  · exact msgBody_stable b s o m flags ho hnf hx he

theorem afa_msgHeaders_stable_err (b s : Buf) (o : Nat) (m : PSIPMsg) (flags : Nat)
    (hok1 : hlsOK b m.hl) (hok2 : hvOK b o m.pv)
    (hnf : hasFlag flags SIPMsgNoMoreDataF = false)
    (he : (msgHeaders b o m flags).2.1 ≠ .moreBytes) (hne : (msgHeaders b o m flags).2.1 ≠ .ok) :
    msgHeaders (b ++ s) o m flags = msgHeaders b o m flags := by
  unfold msgHeaders at he hne ⊢
  rcases hp : parseHeaders b o m.hl (some m.pv) with ⟨o1, e1, hl1, hb1⟩
  rw [hp] at he hne
  by_cases hm : e1 = .moreBytes
  · subst hm
    simp only at he
    rw [msgErr_verdict _ _ _ _ hnf] at he
    exact absurd rfl he
  · rw [parseHeaders_stable b s o m.hl (some m.pv) hok1 hok2 hp hm]
    cases e1 <;> simp only at he hne ⊢
    have hpost := parseHeaders_post b o m.hl (some m.pv) hok1 hok2 hp
    exact afa_msgBody_stable_err b s o1 _ flags hpost.1 hnf he hne

theorem afa_msgFLine_stable_err (b s : Buf) (o : Nat) (m : PSIPMsg) (flags : Nat) (hok : msgOK b o m)
    (hfit : b.size ≤ 65535) (hnf : hasFlag flags SIPMsgNoMoreDataF = false)
    (he : (msgFLine b o m flags).2.1 ≠ .moreBytes) (hne : (msgFLine b o m flags).2.1 ≠ .ok) :
    msgFLine (b ++ s) o m flags = msgFLine b o m flags := by
  obtain ⟨ho, hfl, hls, hvs⟩ := hok
  unfold msgFLine at he hne ⊢
  rcases hp : parseFLine b o m.fl with ⟨o1, e1, fl1⟩
  rw [hp] at he hne
  by_cases hm : e1 = .moreBytes
  · subst hm
    simp only at he
    rw [msgErr_verdict _ _ _ _ hnf] at he
    exact absurd rfl he
  · rw [parseFLine_stable b s o m.fl hfl hfit hp hm]
    cases e1 <;> simp only at he hne ⊢
    have hrg := parseFLine_range b o m.fl ho
    rw [hp] at hrg
    have hrg' := hrg rfl
    exact afa_msgHeaders_stable_err b s o1 _ flags hls (hvOK_mono hvs hrg'.1 hrg'.2) hnf he hne

/-- **every ERROR verdict of ParseSIPMsg is stable**, whatever the flags (without no-more-data) and whether or not a
    Content-Length header was seen: first-line errors, header errors, `.empty`, NoCLen, the state error. -/
theorem parseSIPMsg_stable_err (b s : Buf) (o : Nat) (m : PSIPMsg) (flags : Nat) (hok : msgOK b o m)
    (hfit : b.size ≤ 65535) (hnf : hasFlag flags SIPMsgNoMoreDataF = false)
    {o' : Nat} {e : Err} {m' : PSIPMsg} (hr : parseSIPMsg b o m flags = (o', e, m'))
    (he : e ≠ .moreBytes) (hne : e ≠ .ok) :
    parseSIPMsg (b ++ s) o m flags = (o', e, m') := by
  rw [← hr]
  have he' : (parseSIPMsg b o m flags).2.1 ≠ .moreBytes := by rw [hr]; exact he
  have hne' : (parseSIPMsg b o m flags).2.1 ≠ .ok := by rw [hr]; exact hne
  unfold parseSIPMsg at he' hne' ⊢
  cases hst : m.state <;> simp only [hst] at he' hne' ⊢
  case init => exact afa_msgFLine_stable_err b s o _ flags hok hfit hnf he' hne'
  case fline => exact afa_msgFLine_stable_err b s o m flags hok hfit hnf he' hne'
  case headers => exact afa_msgHeaders_stable_err b s o m flags hok.2.2.1 hok.2.2.2 hnf he' hne'
  case body => exact afa_msgBody_stable_err b s o m flags hok.1 hnf he' hne'

/-- **L1 for ParseSIPMsg, strengthened**: the exemption `bodyToEnd` (body = rest of the buffer) has to be excluded
    for the verdict OK only; every other definitive verdict is stable unconditionally. -/
theorem parseSIPMsg_stable_all (b s : Buf) (o : Nat) (m : PSIPMsg) (flags : Nat) (hok : msgOK b o m)
    (hfit : b.size ≤ 65535) (hnf : hasFlag flags SIPMsgNoMoreDataF = false)
    {o' : Nat} {e : Err} {m' : PSIPMsg} (hr : parseSIPMsg b o m flags = (o', e, m'))
    (he : e ≠ .moreBytes) (hx : e = .ok → ¬ bodyToEnd flags m') :
    parseSIPMsg (b ++ s) o m flags = (o', e, m') := by
  by_cases hne : e = .ok
  · exact parseSIPMsg_stable b s o m flags hok hfit hnf hr he (hx hne)
  · exact parseSIPMsg_stable_err b s o m flags hok hfit hnf hr he hne

/-- … from any object produced by Init, caller arrays of any capacity (or none) -/
theorem parseSIPMsg_stable_all_init (b s : Buf) (o : Nat) (ho : o ≤ b.size) (m0 : PSIPMsg) (len kh kc : Nat)
    (hdrs cts : Option Unit) (flags : Nat) (hfit : b.size ≤ 65535)
    (hnf : hasFlag flags SIPMsgNoMoreDataF = false) {o' : Nat} {e : Err} {m' : PSIPMsg}
    (hr : parseSIPMsg b o (m0.init len (hdrs.map fun _ => Array.replicate kh {})
      (cts.map fun _ => Array.replicate kc {})) flags = (o', e, m'))
    (he : e ≠ .moreBytes) (hx : e = .ok → ¬ bodyToEnd flags m') :
    parseSIPMsg (b ++ s) o (m0.init len (hdrs.map fun _ => Array.replicate kh {})
      (cts.map fun _ => Array.replicate kc {})) flags = (o', e, m') :=
  parseSIPMsg_stable_all b s o _ flags (msgOK_init b o ho m0 len kh kc hdrs cts) hfit hnf hr he hx

/-! ## (C) C06: ParseSIPMsg reaches the body section exactly through `msgBody` -/

/-- the object with which `case SIPMsgBody:` is entered after the first line (`fl`) and the header block
    (`hl`, values `hv`) were parsed in this call, started at `o` -/
def afaBodyEntry (m : PSIPMsg) (o : Nat) (fl : PFLine) (hl : HdrLst) (hv : PHdrVals) : PSIPMsg :=
  { m with offs := o, fl := fl, hl := hl, pv := hv, state := .body }

theorem afaBodyEntry_pv (m : PSIPMsg) (o : Nat) (fl : PFLine) (hl : HdrLst) (hv : PHdrVals) :
    (afaBodyEntry m o fl hl hv).pv = hv := rfl

/-- ParseHeaders called with a values object returns a values object (never nil) -/
theorem afa_parseHeaders_some (b : Buf) (o : Nat) (hl : HdrLst) (pv : PHdrVals) {h : Nat} {e : Err} {hl' : HdrLst}
    {hb : Option PHdrVals} (hh : parseHeaders b o hl (some pv) = (h, e, hl', hb)) : ∃ hv, hb = some hv := by
  have := parseHeaders_isSome b o hl pv
  rw [hh] at this
  cases hb with
  | none => cases this
  | some hv => exact ⟨hv, rfl⟩

/-- **the link**: on a new / Init / Reset object (state `init`), if ParseFLine says OK at `o1` and ParseHeaders
    says OK at `h`, then ParseSIPMsg IS the body section `msgBody` entered at `h` with the parsed parts. -/
theorem parseSIPMsg_eq_msgBody (b : Buf) (o o1 h : Nat) (m : PSIPMsg) (flags : Nat) (fl : PFLine) (hl : HdrLst)
    (hv : PHdrVals) (hst : m.state = .init) (hf : parseFLine b o m.fl = (o1, .ok, fl))
    (hh : parseHeaders b o1 m.hl (some m.pv) = (h, .ok, hl, some hv)) :
    parseSIPMsg b o m flags = msgBody b h (afaBodyEntry m o fl hl hv) flags := by
  unfold parseSIPMsg; rw [hst]; simp only
  unfold msgFLine; simp only [hf]
  unfold msgHeaders; simp only [hh]
  rfl

theorem afa_msgErr_ne_ok (m : PSIPMsg) (o : Nat) (e : Err) (flags : Nat) (he : e ≠ .ok) :
    (msgErr m o e flags).2.1 ≠ .ok := by
  unfold msgErr
  split
  · exact he
  · split
    · intro hh; cases hh
    · exact he

/-- conversely, an OK verdict of ParseSIPMsg on a state-`init` object went through exactly this path -/
theorem parseSIPMsg_ok_path (b : Buf) (o : Nat) (m : PSIPMsg) (flags : Nat) (hst : m.state = .init)
    {o' : Nat} {m' : PSIPMsg} (hr : parseSIPMsg b o m flags = (o', .ok, m')) :
    ∃ o1 fl h hl hv, parseFLine b o m.fl = (o1, .ok, fl) ∧
      parseHeaders b o1 m.hl (some m.pv) = (h, .ok, hl, some hv) ∧
      msgBody b h (afaBodyEntry m o fl hl hv) flags = (o', .ok, m') := by
  rcases hf : parseFLine b o m.fl with ⟨o1, e1, fl⟩
  by_cases he1 : e1 = .ok
  · subst he1
    rcases hh : parseHeaders b o1 m.hl (some m.pv) with ⟨h, e2, hl, hb⟩
    obtain ⟨hv, rfl⟩ := afa_parseHeaders_some b o1 m.hl m.pv hh
    by_cases he2 : e2 = .ok
    · subst he2
      exact ⟨o1, fl, h, hl, hv, rfl, hh, by rw [← parseSIPMsg_eq_msgBody b o o1 h m flags fl hl hv hst hf hh]; exact hr⟩
    · exfalso
      have : (parseSIPMsg b o m flags).2.1 ≠ .ok := by
        unfold parseSIPMsg; rw [hst]; simp only
        unfold msgFLine; simp only [hf]
        unfold msgHeaders; simp only [hh]
        cases e2 <;> first | exact absurd rfl he2 | exact afa_msgErr_ne_ok _ _ _ _ (by decide)
      rw [hr] at this; exact this rfl
  · exfalso
    have : (parseSIPMsg b o m flags).2.1 ≠ .ok := by
      unfold parseSIPMsg; rw [hst]; simp only
      unfold msgFLine; simp only [hf]
      cases e1 <;> first | exact absurd rfl he1 | exact afa_msgErr_ne_ok _ _ _ _ (by decide)
    rw [hr] at this; exact this rfl

/-- the body section never touches the header values -/
theorem afa_msgBody_pv (b : Buf) (h : Nat) (m : PSIPMsg) (flags : Nat) : (msgBody b h m flags).2.2.pv = m.pv := by
  unfold msgBody msgEnd PSIPMsg.setBufs
  simp only
  repeat' split
  all_goals rfl

/-- **Content-Length framing of ParseSIPMsg itself** (body parsing on, more data may come): the first line was OK,
    ParseHeaders stopped with OK at `h` and its values object `hv` holds a parsed Content-Length `n = hv.clen.uiVal`.
    Then: the verdict is OK iff `h + n ≤ len(buf)`; if so the returned offset is `h + n`, the body field is
    `Set(h,h)` extended to `h + n`, and the returned object carries exactly `hv`; otherwise the verdict is MoreBytes
    at `h` (nothing of the body consumed). -/
theorem parseSIPMsg_clen_framing (b : Buf) (o o1 h : Nat) (m : PSIPMsg) (flags : Nat) (fl : PFLine) (hl : HdrLst)
    (hv : PHdrVals) (hst : m.state = .init) (hf : parseFLine b o m.fl = (o1, .ok, fl))
    (hh : parseHeaders b o1 m.hl (some m.pv) = (h, .ok, hl, some hv))
    (hs : hasFlag flags SIPMsgSkipBodyF = false) (hn : hasFlag flags SIPMsgNoMoreDataF = false)
    (hc : hv.clen.parsed = true) :
    ((parseSIPMsg b o m flags).2.1 = .ok ↔ h + hv.clen.uiVal ≤ b.size) ∧
    (h + hv.clen.uiVal ≤ b.size →
      (parseSIPMsg b o m flags).1 = h + hv.clen.uiVal ∧
      (parseSIPMsg b o m flags).2.2.body = (PField.set h h).extend (h + hv.clen.uiVal) ∧
      (parseSIPMsg b o m flags).2.2.state = .fin ∧ (parseSIPMsg b o m flags).2.2.pv = hv) ∧
    (¬ h + hv.clen.uiVal ≤ b.size →
      (parseSIPMsg b o m flags).1 = h ∧ (parseSIPMsg b o m flags).2.1 = .moreBytes) := by
  rw [parseSIPMsg_eq_msgBody b o o1 h m flags fl hl hv hst hf hh]
  have hc' : (afaBodyEntry m o fl hl hv).pv.clen.parsed = true := hc
  have hu : (afaBodyEntry m o fl hl hv).pv.clen.uiVal = hv.clen.uiVal := rfl
  by_cases hfit : h + hv.clen.uiVal ≤ b.size
  · have hng : ¬ (h + hv.clen.uiVal > b.size) := by omega
    have hb : msgBody b h (afaBodyEntry m o fl hl hv) flags =
        msgEnd { afaBodyEntry m o fl hl hv with body := PField.set h h } b (h + hv.clen.uiVal) := by
      unfold msgBody
      simp only [hs, hc', hu, hng, Bool.false_eq_true, ↓reduceIte]
    refine ⟨⟨fun _ => hfit, fun _ => by rw [hb]; rfl⟩, fun _ => ?_, fun hx => absurd hfit hx⟩
    rw [hb]
    exact ⟨rfl, rfl, rfl, rfl⟩
  · have hg : h + hv.clen.uiVal > b.size := by omega
    have hb : msgBody b h (afaBodyEntry m o fl hl hv) flags =
        (h, .moreBytes, { afaBodyEntry m o fl hl hv with body := PField.set h h }) := by
      unfold msgBody
      simp only [hs, hc', hu, hg, hn, Bool.false_eq_true, ↓reduceIte]
    refine ⟨⟨fun hq => ?_, fun hq => absurd hq hfit⟩, fun hq => absurd hq hfit, fun _ => ?_⟩
    · rw [hb] at hq; cases hq
    · rw [hb]; exact ⟨rfl, rfl⟩

/-- **the corollary in the property's words**: ParseSIPMsg on a state-`init` object returned OK with object `m'`, a
    Content-Length header was parsed (`m'.pv.clen.parsed`), body parsing on, more data may come. Then there is the
    offset `h` where ParseHeaders stopped (OK) such that the `n = m'.pv.clen.uiVal` body bytes are all there
    (`h + n ≤ len(buf)`), the returned offset is `h + n` — the first byte after the body — and the body field is
    `Set(h,h).Extend(h+n)`, i.e. `[h, h+n)` when it fits the 16-bit fields. -/
theorem parseSIPMsg_ok_clen (b : Buf) (o : Nat) (m : PSIPMsg) (flags : Nat) (hst : m.state = .init)
    (hs : hasFlag flags SIPMsgSkipBodyF = false) (hn : hasFlag flags SIPMsgNoMoreDataF = false)
    {o' : Nat} {m' : PSIPMsg} (hr : parseSIPMsg b o m flags = (o', .ok, m')) (hc : m'.pv.clen.parsed = true) :
    ∃ o1 fl h hl, parseFLine b o m.fl = (o1, .ok, fl) ∧
      parseHeaders b o1 m.hl (some m.pv) = (h, .ok, hl, some m'.pv) ∧
      h + m'.pv.clen.uiVal ≤ b.size ∧ o' = h + m'.pv.clen.uiVal ∧
      m'.body = (PField.set h h).extend (h + m'.pv.clen.uiVal) ∧
      (h + m'.pv.clen.uiVal < 65536 → m'.body.offs = h ∧ m'.body.len = m'.pv.clen.uiVal) := by
  obtain ⟨o1, fl, h, hl, hv, hf, hh, hb⟩ := parseSIPMsg_ok_path b o m flags hst hr
  have hpv : m'.pv = hv := by
    have := afa_msgBody_pv b h (afaBodyEntry m o fl hl hv) flags
    rw [hb] at this; exact this
  subst hpv
  have hfr := parseSIPMsg_clen_framing b o o1 h m flags fl hl m'.pv hst hf hh hs hn hc
  rw [hr] at hfr
  have hfit := hfr.1.1 rfl
  have h2 := hfr.2.1 hfit
  refine ⟨o1, fl, h, hl, hf, hh, hfit, h2.1, h2.2.1, fun hlim => ?_⟩
  have hbody : m'.body = (PField.set h h).extend (h + m'.pv.clen.uiVal) := h2.2.1
  rw [hbody]
  simp only [PField.set, PField.extend, trunc16]
  have e1 : h % 65536 = h := Nat.mod_eq_of_lt (by omega)
  have e2 : (h + m'.pv.clen.uiVal) % 65536 = h + m'.pv.clen.uiVal := Nat.mod_eq_of_lt hlim
  rw [e1, e2]
  exact ⟨rfl, by omega⟩

/-! ## (B) C04, part 1: the guard of `viaBrLoop` (GetViaBrSig) always holds — its else-exit is dead code -/

/-- **the guard of `viaBrLoop` holds on every input**: a MoreValues verdict of the parameter parser (new object,
    the Via-branch options) lies strictly after the start and inside the buffer -/
theorem afa_viaBr_guard (b : Buf) (offs next : Nat) (p : PTokParam) (ho : offs ≤ b.size)
    (hp : parseTokenParam b offs {} viaBrFlags = (next, .moreValues, p)) : offs < next ∧ next ≤ b.size := by
  have e : viaBrFlags = (17 ||| POptInputEndF) := by decide
  rw [e] at hp
  have hf : hasFlag 17 POptInputEndF = false := by decide
  have hr := parseTokenParam_range_end b offs {} 17 hf ho hp
  refine ⟨?_, hr.2⟩
  rcases Nat.lt_or_ge offs next with h | h
  · exact h
  · have : next = offs := by omega
    subst this
    have := parseTokenParam_mv_start_end b next {} 17 hf hp
    cases this

/-- one round of the Go loop of GetViaBrSig, the `continue` being the call of `k` — WITHOUT any guard -/
def afaViaBrRound (b : Buf) (k : Nat → Nat × Nat × Bool) (offs : Nat) : Nat × Nat × Bool :=
  match parseTokenParam b offs {} viaBrFlags with
  | (next, e, p) =>
    if p.pnc then (0, 0, true)
    else if e == .ok || e == .moreValues || e == .eoh then
      let isBranch : Option Bool :=
        if p.name.len == 6 then (p.name.get? b).map (fun nm => cmpEqL nm sBranch) else some false
      match isBranch with
      | none => (0, 0, true)
      | some true =>
        if p.val.len > 0 then
          match p.val.get? b with
          | none => (0, 0, true)
          | some val =>
            if val.size > 7 && cmpEqL (val.extract 0 7) sBrPrefix then
              ((getStrCharsSig (val.extract 7 val.size) 0 0).1, val.size - 7, false)
            else ((getStrCharsSig val 0 0).1, val.size, false)
        else (0, 0, false)
      | some false => if e == .moreValues then k next else (0, 0, false)
    else (0, 0, false)

/-- **`viaBrLoop` satisfies the recursion of the Go loop without the guard** (every offset inside the buffer) -/
theorem viaBrLoop_unguarded (b : Buf) (offs : Nat) (ho : offs ≤ b.size) :
    viaBrLoop b offs = afaViaBrRound b (viaBrLoop b) offs := by
  rw [viaBrLoop]
  unfold afaViaBrRound
  rcases hp : parseTokenParam b offs {} viaBrFlags with ⟨next, e, p⟩
  simp only
  by_cases hmv : e = .moreValues
  · subst hmv
    have hg := afa_viaBr_guard b offs next p ho hp
    simp only [hg, and_self, ↓reduceIte]
    rfl
  · have : (e == Err.moreValues) = false := by simpa using hmv
    simp only [this, Bool.false_eq_true, ↓reduceIte]
    rfl

/-- `viaBrLoop` with an ARBITRARY result `x` at the guard's else-exit -/
def afaViaBrLoopX (x : Nat × Nat × Bool) (b : Buf) (offs : Nat) : Nat × Nat × Bool :=
  match parseTokenParam b offs {} viaBrFlags with
  | (next, e, p) =>
    if p.pnc then (0, 0, true)
    else if e == .ok || e == .moreValues || e == .eoh then
      let isBranch : Option Bool :=
        if p.name.len == 6 then (p.name.get? b).map (fun nm => cmpEqL nm sBranch) else some false
      match isBranch with
      | none => (0, 0, true)
      | some true =>
        if p.val.len > 0 then
          match p.val.get? b with
          | none => (0, 0, true)
          | some val =>
            if val.size > 7 && cmpEqL (val.extract 0 7) sBrPrefix then
              ((getStrCharsSig (val.extract 7 val.size) 0 0).1, val.size - 7, false)
            else ((getStrCharsSig val 0 0).1, val.size, false)
        else (0, 0, false)
      | some false =>
        if e == .moreValues then
          if offs < next ∧ next ≤ b.size then afaViaBrLoopX x b next else x
        else (0, 0, false)
    else (0, 0, false)
termination_by b.size - offs
decreasing_by omega

theorem afaViaBrLoopX_model (b : Buf) (offs : Nat) : afaViaBrLoopX (0, 0, false) b offs = viaBrLoop b offs := by
  induction hk : b.size - offs using Nat.strongRecOn generalizing offs with
  | _ k ih =>
    rw [viaBrLoop, afaViaBrLoopX]
    rcases hp : parseTokenParam b offs {} viaBrFlags with ⟨next, e, p⟩
    simp only
    by_cases hg : offs < next ∧ next ≤ b.size
    · rw [if_pos hg, if_pos hg, ih (b.size - next) (by omega) next rfl]
      rfl
    · rw [if_neg hg, if_neg hg]
      rfl

/-- **the result of `viaBrLoop` does not depend on what its else-exit returns** -/
theorem viaBrLoop_exit_irrelevant (x : Nat × Nat × Bool) (b : Buf) (offs : Nat) (ho : offs ≤ b.size) :
    afaViaBrLoopX x b offs = viaBrLoop b offs := by
  induction hk : b.size - offs using Nat.strongRecOn generalizing offs with
  | _ k ih =>
    rw [viaBrLoop, afaViaBrLoopX]
    rcases hp : parseTokenParam b offs {} viaBrFlags with ⟨next, e, p⟩
    simp only
    by_cases hmv : e = .moreValues
    · subst hmv
      have hg := afa_viaBr_guard b offs next p ho hp
      rw [if_pos hg, if_pos hg, ih (b.size - next) (by omega) next hg.2 rfl]
      rfl
    · have : (e == Err.moreValues) = false := by simpa using hmv
      simp only [this, Bool.false_eq_true, ↓reduceIte]
      rfl

/-- `GetViaBrSig` with an arbitrary result at the dead exit -/
def afaGetViaBrSigX (x : Nat × Nat × Bool) (b : Buf) : Nat × Nat × Bool :=
  match indexByteFrom b 0 59 with
  | none => (0, 0, false)
  | some o => afaViaBrLoopX x b (o + 1)

/-- **GetViaBrSig, every input: the model-only exit is never taken** (whatever it would return, the result is the same) -/
theorem getViaBrSig_exit_irrelevant (x : Nat × Nat × Bool) (b : Buf) : afaGetViaBrSigX x b = getViaBrSig b := by
  unfold afaGetViaBrSigX getViaBrSig
  cases h : indexByteFrom b 0 59 with
  | none => rfl
  | some o =>
    have := get?_lt (indexByteFrom_some b 0 59 h).2.1
    exact viaBrLoop_exit_irrelevant x b (o + 1) (by omega)

/-! ## (B) C04, part 2: the model-only verdict `lbug` is never returned

  `afaNL s`: the step result `s`, if it ends the loop, does not carry the model-only verdict. -/

/-- closes `c ≠ .lbug` for a constructor `c` -/
macro "afa_ne" : tactic => `(tactic| (intro hh; cases hh; done))

def afaNL {σ : Type} : Step σ → Prop
  | .cont _ _ => True
  | .done _ e _ => e ≠ .lbug

theorem afaNL_done {σ : Type} {o : Nat} {e : Err} {st : σ} (h : e ≠ .lbug) : afaNL (Step.done o e st) := h

/-- a loop whose body makes progress and never ends with `lbug` never returns `lbug` -/
theorem afa_runLoop_nl {σ : Type} (m : Machine σ) (hp : Progress m) (b : Buf)
    (hd : ∀ i c st, b[i]? = some c → afaNL (m.step b i c st))
    (he : ∀ i st, (m.eob b i st).2.1 ≠ .lbug) (i : Nat) (st : σ) : (runLoop m b i st).2.1 ≠ .lbug := by
  apply runLoop_inv m b (fun _ _ => True) (fun r => r.2.1 ≠ Err.lbug)
  · intro i c st i' st' hb _ hs
    exact ⟨fun _ => trivial, fun hn => absurd (hp b i c st i' st' hb hs) hn⟩
  · intro i c st o e st' hb _ hs
    have := hd i c st hb
    rw [hs] at this
    exact this
  · intro i st _ _; exact he i st
  · trivial

theorem afa_skipLWS_nl (b : Buf) (i flags : Nat) {n crl : Nat} {e : Err} (h : skipLWS b i flags = (n, crl, e)) :
    e ≠ .lbug := by
  rcases skipLWS_verdicts b i flags h with rfl | rfl | rfl | rfl <;> decide

theorem afa_skipCRLF_nl {b : Buf} {i n crl : Nat} {e : Err} (h : skipCRLF b i = (n, crl, e)) : e ≠ .lbug := by
  rcases skipCRLF_verdicts h with rfl | rfl | rfl <;> decide

/-! ### ParseTokenParam -/

theorem afa_tpEOH_nl (p : PTokParam) (n crl : Nat) : (tpEOH p n crl).2.1 ≠ .lbug := by
  unfold tpEOH
  cases p.state <;> (intro h; cases h)

theorem afa_tpMoreBytes_nl (b : Buf) (flags : Nat) (p : PTokParam) (i : Nat) : (tpMoreBytes b flags p i).2.1 ≠ .lbug := by
  unfold tpMoreBytes
  split
  · cases p.state <;> first | exact afa_tpEOH_nl _ _ _ | (intro h; cases h)
  · intro h; cases h

theorem afa_tpLWS_nl (b : Buf) (flags i : Nat) (p : PTokParam) (upd : PTokParam → PTokParam) :
    afaNL (tpLWS b flags i p upd) := by
  unfold tpLWS
  rcases hs : skipLWS b i flags with ⟨n, crl, e⟩
  have hne := afa_skipLWS_nl b i flags hs
  cases e
  all_goals first
    | exact afa_tpMoreBytes_nl b flags p i
    | exact afa_tpEOH_nl _ _ _
    | exact hne
    | exact True.intro

theorem afa_skipQuoted_nl (b : Buf) (i : Nat) : (skipQuoted b i).2 ≠ .lbug := by
  unfold skipQuoted
  refine afa_runLoop_nl sqMachine sq_progress b ?_ (by intro i st; simp [sqMachine]) i ()
  intro i c st _
  show afaNL (sqStep b i c st)
  unfold sqStep
  repeat' split
  all_goals first | exact True.intro | afa_ne

theorem afa_tpSpTermSep_nl (b : Buf) (offs i : Nat) (p : PTokParam) : afaNL (tpSpTermSep b offs i p) := by
  unfold tpSpTermSep
  simp only
  repeat' split
  all_goals afa_ne

theorem afa_tpSpTermEq_nl (offs i : Nat) (p : PTokParam) : afaNL (tpSpTermEq offs i p) := by
  unfold tpSpTermEq
  split <;> afa_ne

theorem afa_tpStep_nl (flags offs : Nat) (b : Buf) (i : Nat) (c : UInt8) (p : PTokParam) :
    afaNL (tpStep flags offs b i c p) := by
  unfold tpStep
  simp only
  split
  all_goals
    repeat' split
    all_goals first
      | exact True.intro
      | exact afa_tpLWS_nl b flags i p _
      | exact afa_tpSpTermSep_nl b offs i p
      | exact afa_tpSpTermEq_nl offs i p
      | exact afa_tpMoreBytes_nl b flags p _
      | exact afa_tpEOH_nl _ _ _
      | (have hq := afa_skipQuoted_nl b i; rw [‹skipQuoted b i = _›] at hq; exact hq)
      | afa_ne

/-- **ParseTokenParam never returns the model-only verdict** (every buffer, offset, object, option set) -/
theorem parseTokenParam_ne_lbug (b : Buf) (offs : Nat) (p : PTokParam) (flags : Nat) :
    (parseTokenParam b offs p flags).2.1 ≠ .lbug := by
  unfold parseTokenParam
  split
  · afa_ne
  · exact afa_runLoop_nl (tpMachine flags offs) (tp_progress flags offs) b
      (fun i c st _ => afa_tpStep_nl flags offs b i c st)
      (fun i st => afa_tpMoreBytes_nl b flags st i) offs p

/-! ### ParseAllURIParams / ParseAllURIHdrs: the loop guard never fails on a clean list -/

theorem afa_hasFlag_end_bit (f : Nat) : hasFlag f POptInputEndF = f.testBit 3 := by
  unfold hasFlag
  show ((f &&& 8) != 0) = f.testBit 3
  have e8 : (8:Nat) = 2^3 := by decide
  cases h : f.testBit 3
  · have : f &&& 8 = 0 := by
      apply Nat.eq_of_testBit_eq
      intro i
      rw [Nat.testBit_and, e8, Nat.testBit_two_pow, Nat.zero_testBit]
      by_cases hi : 3 = i
      · subst hi; simp [h]
      · simp [hi]
    rw [this]; rfl
  · have : (f &&& 8).testBit 3 = true := by
      rw [Nat.testBit_and, e8, Nat.testBit_two_pow, h]; rfl
    have hne : f &&& 8 ≠ 0 := by
      intro h0; rw [h0, Nat.zero_testBit] at this; cases this
    simpa using hne

/-- every option word either lacks the end-of-input option or is some word without it, plus the option -/
theorem afa_flag_split (flags : Nat) :
    hasFlag flags POptInputEndF = false ∨ ∃ g, hasFlag g POptInputEndF = false ∧ flags = g ||| POptInputEndF := by
  by_cases h : hasFlag flags POptInputEndF = true
  · right
    rw [afa_hasFlag_end_bit] at h
    have e8 : (8:Nat) = 2^3 := by decide
    refine ⟨flags ^^^ 8, ?_, ?_⟩
    · rw [afa_hasFlag_end_bit, Nat.testBit_xor, h, e8, Nat.testBit_two_pow]; rfl
    · show flags = (flags ^^^ 8) ||| 8
      apply Nat.eq_of_testBit_eq
      intro i
      rw [Nat.testBit_or, Nat.testBit_xor]
      rw [e8, Nat.testBit_two_pow]
      by_cases hi : 3 = i
      · subst hi; simp [h]
      · simp [hi]
  · left; simpa using h

/-- the guard of `uriParamsLoop`, EVERY option word (with or without the end-of-input option) -/
theorem afa_pl_guard {b : Buf} {offs : Nat} {l : URIParamsLst} {flags next : Nat} {tp : PTokParam}
    (hcl : plClean l) (ho : offs ≤ b.size)
    (hp : parseTokenParam b offs l.cur.param flags = (next, .moreValues, tp)) (t : Nat) :
    next ≤ b.size ∧ (offs < next ∨ (offs = next ∧ l.cur.param.state = .fNxt ∧
      (l.next tp t).cur.param.state ≠ .fNxt)) := by
  rcases afa_flag_split flags with hf | ⟨g, hg, rfl⟩
  · exact pl_guard hf hcl ho hp t
  · exact tpe_pl_guard hg hcl ho hp t

/-- the guard of `uriHdrsLoop`, every option word -/
theorem afa_hl_guard {b : Buf} {offs : Nat} {l : URIHdrsLst} {flags next : Nat} {tp : PTokParam}
    (hcl : hlClean l) (ho : offs ≤ b.size)
    (hp : parseTokenParam b offs l.cur flags = (next, .moreValues, tp)) :
    next ≤ b.size ∧ (offs < next ∨ (offs = next ∧ l.cur.state = .fNxt ∧ (l.next tp).cur.state ≠ .fNxt)) := by
  rcases afa_flag_split flags with hf | ⟨g, hg, rfl⟩
  · exact hl_guard hf hcl ho hp
  · exact tpe_hl_guard hg hcl ho hp

theorem uriParamsLoop_ne_lbug (b : Buf) (flags offs : Nat) (l : URIParamsLst) (vNo : Nat)
    (hcl : plClean l) (ho : offs ≤ b.size) : (uriParamsLoop b offs l flags vNo).2.2.1 ≠ .lbug := by
  revert hcl ho
  induction offs, l, vNo using uriParamsLoop_induct b flags with
  | step offs l vNo ih =>
    intro hcl ho
    rcases hp : parseTokenParam b offs l.cur.param flags with ⟨next, e1, tp⟩
    have hne : e1 ≠ .lbug := by
      have := parseTokenParam_ne_lbug b offs l.cur.param flags
      rw [hp] at this; exact this
    by_cases hm : e1 = .moreBytes
    · subst hm; rw [uriParamsLoop_eq_more hp]; afa_ne
    by_cases hv : e1 = .moreValues
    · subst hv
      cases hg : tp.name.get? b with
      | none => rw [uriParamsLoop_panic hp (Or.inr (Or.inl rfl)) hg]; afa_ne
      | some nm =>
        have hgd := afa_pl_guard hcl ho hp (uriParamResolve nm)
        rw [uriParamsLoop_mv hp hg, if_pos hgd]
        exact ih next tp nm hp hg hgd (plClean_next tp _ hcl).1 hgd.1
    by_cases hk : e1 = .ok
    · subst hk
      cases hg : tp.name.get? b with
      | none => rw [uriParamsLoop_panic hp (Or.inl rfl) hg]; afa_ne
      | some nm => rw [uriParamsLoop_eq_last hp (Or.inl rfl) hg]; afa_ne
    by_cases he : e1 = .eoh
    · subst he
      cases hg : tp.name.get? b with
      | none => rw [uriParamsLoop_panic hp (Or.inr (Or.inr rfl)) hg]; afa_ne
      | some nm => rw [uriParamsLoop_eq_last hp (Or.inr rfl) hg]; afa_ne
    · rw [uriParamsLoop_err hp hk hv he hm]; exact hne

/-- **ParseAllURIParams never takes the model-only exit**: every buffer, every offset inside it, every option word,
    every clean list (unused slots zero: new lists of any capacity, lists after Reset, lists returned by earlier
    calls — see `plOK_new`, `plOK_reset`, `parseAllURIParams_post`) -/
theorem parseAllURIParams_ne_lbug (b : Buf) (offs : Nat) (l : URIParamsLst) (flags : Nat)
    (hcl : plClean l) (ho : offs ≤ b.size) : (parseAllURIParams b offs l flags).2.2.1 ≠ .lbug := by
  unfold parseAllURIParams
  exact uriParamsLoop_ne_lbug b _ offs l 0 hcl ho

theorem uriHdrsLoop_ne_lbug (b : Buf) (flags offs : Nat) (l : URIHdrsLst) (vNo : Nat)
    (hcl : hlClean l) (ho : offs ≤ b.size) : (uriHdrsLoop b offs l flags vNo).2.2.1 ≠ .lbug := by
  revert hcl ho
  induction offs, l, vNo using uriHdrsLoop_induct b flags with
  | step offs l vNo ih =>
    intro hcl ho
    rcases hp : parseTokenParam b offs l.cur flags with ⟨next, e1, tp⟩
    have hne : e1 ≠ .lbug := by
      have := parseTokenParam_ne_lbug b offs l.cur flags
      rw [hp] at this; exact this
    by_cases hm : e1 = .moreBytes
    · subst hm; rw [uriHdrsLoop_eq_more hp]; afa_ne
    by_cases hv : e1 = .moreValues
    · subst hv
      have hgd := afa_hl_guard hcl ho hp
      rw [uriHdrsLoop_mv hp, if_pos hgd]
      exact ih next tp hp hgd (hlClean_next tp hcl).1 hgd.1
    by_cases hk : e1 = .ok
    · subst hk; rw [uriHdrsLoop_eq_last hp (Or.inl rfl)]; afa_ne
    by_cases he : e1 = .eoh
    · subst he; rw [uriHdrsLoop_eq_last hp (Or.inr rfl)]; afa_ne
    · rw [uriHdrsLoop_err hp hk hv he hm]; exact hne

/-- **ParseAllURIHdrs never takes the model-only exit** (as `parseAllURIParams_ne_lbug`; `hlClean_new`, `hlClean_reset`,
    `parseAllURIHdrs_post`) -/
theorem parseAllURIHdrs_ne_lbug (b : Buf) (offs : Nat) (l : URIHdrsLst) (flags : Nat)
    (hcl : hlClean l) (ho : offs ≤ b.size) : (parseAllURIHdrs b offs l flags).2.2.1 ≠ .lbug := by
  unfold parseAllURIHdrs
  exact uriHdrsLoop_ne_lbug b _ offs l 0 hcl ho

/-- new lists of any capacity and lists after Reset qualify -/
theorem afa_lists_qualify (k : Nat) (lp : URIParamsLst) (lh : URIHdrsLst) (hp : plClean lp) (hh : hlClean lh) :
    plClean ({ params := Array.replicate k {} } : URIParamsLst) ∧ hlClean ({ hdrs := Array.replicate k {} } : URIHdrsLst) ∧
    plClean lp.reset ∧ hlClean lh.reset :=
  ⟨(plOK_new #[] k).2, hlClean_new k, (plOK_reset #[] hp).1.2, (hlClean_reset hh).1⟩

/-! ### the header value parsers -/

theorem afa_lwsStd_nl {σ : Type} (b : Buf) (i : Nat) (st : σ) (eoh : σ → Nat → Nat → Nat → Nat × Err × σ)
    (mb : σ → σ) (heoh : ∀ s j n crl, (eoh s j n crl).2.1 ≠ .lbug) : afaNL (lwsStd b i st eoh mb) := by
  unfold lwsStd
  rcases hs : skipLWS b i 0 with ⟨n, crl, e⟩
  have hne := afa_skipLWS_nl b i 0 hs
  cases e
  all_goals first
    | exact heoh _ _ _ _
    | exact hne
    | exact True.intro

theorem afa_ciEOH_nl (s : PCallIDBody) (j n crl : Nat) : (ciEOH s j n crl).2.1 ≠ .lbug := by
  unfold ciEOH; cases s.state <;> afa_ne
theorem afa_clEOH_nl (s : PUIntBody) (j n crl : Nat) : (clEOH s j n crl).2.1 ≠ .lbug := by
  unfold clEOH; cases s.state <;> afa_ne
theorem afa_csEOH_nl (b : Buf) (s : PCSeqBody) (j n crl : Nat) : (csEOH b s j n crl).2.1 ≠ .lbug := by
  unfold csEOH csFinish
  cases s.state <;> simp only <;> (repeat' split) <;> afa_ne

theorem parseCallIDVal_ne_lbug (b : Buf) (o : Nat) (st : PCallIDBody) : (parseCallIDVal b o st).2.1 ≠ .lbug := by
  unfold parseCallIDVal
  split
  · afa_ne
  · refine afa_runLoop_nl ciMachine ci_progress b ?_ (by intro i s; simp [ciMachine]) o st
    intro i c s _
    show afaNL (ciStep b i c s)
    unfold ciStep
    repeat' split
    all_goals first
      | exact True.intro
      | exact afa_lwsStd_nl b i _ ciEOH id afa_ciEOH_nl
      | afa_ne

theorem parseUIntVal_ne_lbug (b : Buf) (o : Nat) (st : PUIntBody) : (parseUIntVal b o st).2.1 ≠ .lbug := by
  unfold parseUIntVal
  split
  · afa_ne
  · refine afa_runLoop_nl clMachine cl_progress b ?_ (by intro i s; simp [clMachine]) o st
    intro i c s _
    show afaNL (clStep b i c s)
    unfold clStep
    repeat' split
    all_goals first
      | exact True.intro
      | exact afa_lwsStd_nl b i _ clEOH id afa_clEOH_nl
      | afa_ne
      | (simp only; split <;> first | exact True.intro | afa_ne)

theorem parseCLenVal_ne_lbug (b : Buf) (o : Nat) (st : PUIntBody) : (parseCLenVal b o st).2.1 ≠ .lbug := by
  unfold parseCLenVal
  have := parseUIntVal_ne_lbug b o st
  rcases hp : parseUIntVal b o st with ⟨o1, e1, s1⟩
  rw [hp] at this
  cases e1 <;> simp only <;> first | exact this | (split <;> afa_ne)

theorem parseCSeqVal_ne_lbug (b : Buf) (o : Nat) (st : PCSeqBody) : (parseCSeqVal b o st).2.1 ≠ .lbug := by
  unfold parseCSeqVal
  split
  · afa_ne
  · refine afa_runLoop_nl csMachine cs_progress b ?_ (by intro i s; simp [csMachine]) o st
    intro i c s _
    show afaNL (csStep b i c s)
    unfold csStep
    repeat' split
    all_goals first
      | exact True.intro
      | exact afa_lwsStd_nl b i _ (csEOH b) id (afa_csEOH_nl b)
      | afa_ne
      | (simp only; split <;> first | exact True.intro | afa_ne)

/-! ### ParseNameAddrPVal (33 states) -/

theorem afa_naEOH_nl (h : Nat) (b : Buf) (pf : PFromBody) (i n crl : Nat) (r : Err) (hr : r ≠ .lbug) :
    (naEOH h b pf i n crl r).2.1 ≠ .lbug := by
  unfold naEOH
  cases pf.state <;> simp only [naFinish] <;> first | exact hr | afa_ne

theorem afa_naMoreValues_nl (h : Nat) (b : Buf) (pf : PFromBody) (i : Nat) : afaNL (naMoreValues h b pf i) := by
  unfold naMoreValues
  exact afa_naEOH_nl h b pf i i 1 _ (by afa_ne)

theorem afa_naCommaAfterWS_nl (h : Nat) (b : Buf) (pf : PFromBody) (i k : Nat) :
    afaNL (naCommaAfterWS h b pf i k) := by
  unfold naCommaAfterWS
  split
  · exact afa_naEOH_nl h b pf k i 1 _ (by afa_ne)
  · afa_ne

theorem afa_naLWS_nl (h : Nat) (b : Buf) (i : Nat) (pf : PFromBody) : afaNL (naLWS h b i pf) := by
  unfold naLWS
  exact afa_lwsStd_nl b i pf _ _ (fun s j n crl => afa_naEOH_nl h b s j n crl .ok (by afa_ne))

/-- the white-space sites of the parameter name / value states -/
theorem afa_naPV_site_nl (h : Nat) (b : Buf) (i : Nat) (pf pf1 pf2 pf3 : PFromBody) :
    afaNL (match skipLWS b i 0 with
      | (_, _, .moreBytes) => Step.done i .moreBytes pf.saveS
      | (n, _, .ok) => .cont n pf1
      | (n, crl, .eoh) => let r := naEOH h b pf2 i n crl .ok; .done r.1 r.2.1 r.2.2
      | (n, _, e) => .done n e pf3) := by
  rcases hsk : skipLWS b i 0 with ⟨n, crl, e1⟩
  have hne := afa_skipLWS_nl b i 0 hsk
  cases e1
  all_goals first
    | exact afa_naEOH_nl h b _ i n crl .ok (by afa_ne)
    | exact hne
    | exact True.intro

theorem afa_naStepA_nl (h : Nat) (b : Buf) (i : Nat) (c : UInt8) (pf : PFromBody) : afaNL (naStepA h b i c pf) := by
  unfold naStepA
  repeat' split
  all_goals first
    | exact True.intro
    | exact afa_naLWS_nl h b i _
    | exact afa_naMoreValues_nl h b _ i
    | afa_ne

theorem afa_naStepQ_nl (h : Nat) (b : Buf) (i : Nat) (c : UInt8) (pf : PFromBody) : afaNL (naStepQ h b i c pf) := by
  unfold naStepQ
  repeat' split
  all_goals first
    | exact True.intro
    | exact afa_naLWS_nl h b i _
    | afa_ne

theorem afa_naStepU_nl (i : Nat) (c : UInt8) (pf : PFromBody) : afaNL (naStepU i c pf) := by
  unfold naStepU
  repeat' split
  all_goals first
    | exact True.intro
    | afa_ne

theorem afa_naStepUF_nl (h : Nat) (b : Buf) (i : Nat) (c : UInt8) (pf : PFromBody) : afaNL (naStepUF h b i c pf) := by
  unfold naStepUF
  repeat' split
  all_goals first
    | exact True.intro
    | exact afa_naLWS_nl h b i _
    | exact afa_naMoreValues_nl h b _ i
    | afa_ne

theorem afa_naStepStar_nl (h : Nat) (b : Buf) (i : Nat) (c : UInt8) (pf : PFromBody) :
    afaNL (naStepStar h b i c pf) := by
  unfold naStepStar
  split
  · exact afa_naLWS_nl h b i _
  · afa_ne

theorem afa_naStepP_nl (h : Nat) (b : Buf) (i : Nat) (c : UInt8) (pf : PFromBody) : afaNL (naStepP h b i c pf) := by
  unfold naStepP
  split
  · exact afa_naPV_site_nl h b i pf _ _ _
  · repeat' split
    all_goals first
      | exact True.intro
      | exact afa_naMoreValues_nl h b _ i
      | afa_ne

theorem afa_naStepV_nl (h : Nat) (b : Buf) (i : Nat) (c : UInt8) (pf : PFromBody) : afaNL (naStepV h b i c pf) := by
  unfold naStepV
  split
  · rcases hsk : skipLWS b i 0 with ⟨n, crl, e1⟩
    have hne := afa_skipLWS_nl b i 0 hsk
    cases e1
    all_goals first
      | exact afa_naEOH_nl h b _ i n crl .ok (by afa_ne)
      | exact hne
      | exact True.intro
  · repeat' split
    all_goals first
      | exact True.intro
      | exact afa_naMoreValues_nl h b _ i
      | afa_ne

theorem afa_naStepPE_nl (h : Nat) (b : Buf) (i : Nat) (c : UInt8) (pf : PFromBody) : afaNL (naStepPE h b i c pf) := by
  unfold naStepPE
  repeat' split
  all_goals first
    | exact True.intro
    | exact afa_naCommaAfterWS_nl h b _ i _
    | afa_ne

theorem afa_naStepVE_nl (h : Nat) (b : Buf) (i : Nat) (c : UInt8) (pf : PFromBody) : afaNL (naStepVE h b i c pf) := by
  unfold naStepVE
  repeat' split
  all_goals first
    | exact True.intro
    | exact afa_naCommaAfterWS_nl h b _ i _
    | afa_ne

theorem afa_naStep_nl (h : Nat) (b : Buf) (i : Nat) (c : UInt8) (pf : PFromBody) : afaNL (naStep h b i c pf) := by
  unfold naStep
  split
  all_goals first
    | exact afa_naStepA_nl h b i c pf
    | exact afa_naStepQ_nl h b i c pf
    | exact afa_naStepU_nl i c pf
    | exact afa_naStepUF_nl h b i c pf
    | exact afa_naStepP_nl h b i c pf
    | exact afa_naStepPE_nl h b i c pf
    | exact afa_naStepV_nl h b i c pf
    | exact afa_naStepVE_nl h b i c pf
    | exact afa_naStepStar_nl h b i c pf
    | exact True.intro

/-- **ParseNameAddrPVal never returns the model-only verdict** (every header kind, buffer, offset, object) -/
theorem parseNameAddrPVal_ne_lbug (h : Nat) (b : Buf) (o : Nat) (pf : PFromBody) :
    (parseNameAddrPVal h b o pf).2.1 ≠ .lbug := by
  unfold parseNameAddrPVal
  split
  · afa_ne
  · simp only
    exact afa_runLoop_nl (naMachine h) (na_progress h) b (fun i c st _ => afa_naStep_nl h b i c st)
      (by intro i st; simp [naMachine]) o _

theorem parseOnePAI_ne_lbug (b : Buf) (o : Nat) (pf : PFromBody) : (parseOnePAI b o pf).2.1 ≠ .lbug := by
  have hne := parseNameAddrPVal_ne_lbug HdrPAI b o pf
  unfold parseOnePAI
  rcases hp : parseNameAddrPVal HdrPAI b o pf with ⟨n, e, p⟩
  rw [hp] at hne
  simp only
  split
  · afa_ne
  · exact hne

/-! ### the value lists: the guards of `contactsLoop` / `paisLoop` never fail (NO hypothesis needed) -/

/-- a MoreValues verdict of the name-addr parser lies strictly after the start and inside the buffer: the guard of
    `contactsLoop` / `paisLoop` -/
theorem afa_na_guard (t : Nat) (b : Buf) (offs next : Nat) (pf pf' : PFromBody)
    (hp : parseNameAddrPVal t b offs pf = (next, .moreValues, pf')) : offs < next ∧ next ≤ b.size := by
  by_cases hf : pf.state = .fin
  · unfold parseNameAddrPVal at hp; rw [if_pos hf] at hp; cases hp
  · exact (parseNameAddrPVal_post t b offs pf hp (Or.inr rfl)).2 hf

theorem contactsLoop_ne_lbug (b : Buf) (offs : Nat) (c : PContacts) : (contactsLoop b offs c).2.1 ≠ .lbug := by
  induction hk : b.size - offs using Nat.strongRecOn generalizing offs c with
  | _ k ih =>
    rw [contactsLoop]
    have hne := parseNameAddrPVal_ne_lbug HdrContact b offs c.cur
    rcases hp : parseOneContact b offs c.cur with ⟨next, e1, pf⟩
    have hp' : parseNameAddrPVal HdrContact b offs c.cur = (next, e1, pf) := hp
    rw [hp'] at hne
    cases e1 <;> simp only <;> try (first | exact hne | afa_ne)
    have hg := afa_na_guard HdrContact b offs next c.cur pf hp'
    rw [if_pos hg]
    exact ih (b.size - next) (by omega) next _ rfl

/-- **ParseAllContactValues never takes the model-only exit**: every buffer, offset and object (in particular under
    `CtSafe`, the hypothesis of `contacts_never_panics`) -/
theorem parseAllContactValues_ne_lbug (b : Buf) (offs : Nat) (c : PContacts) :
    (parseAllContactValues b offs c).2.1 ≠ .lbug := by
  unfold parseAllContactValues; exact contactsLoop_ne_lbug b offs _

theorem paisLoop_ne_lbug (b : Buf) (offs : Nat) (c : PPAIs) : (paisLoop b offs c).2.1 ≠ .lbug := by
  induction hk : b.size - offs using Nat.strongRecOn generalizing offs c with
  | _ k ih =>
    rw [paisLoop]
    have hne := parseOnePAI_ne_lbug b offs c.cur
    rcases hp : parseOnePAI b offs c.cur with ⟨next, e1, pf⟩
    rw [hp] at hne
    obtain ⟨e0, h0, he0⟩ := parseOnePAI_inv hp
    cases e1 <;> simp only <;> try (first | exact hne | afa_ne)
    have he0' : e0 = .moreValues := by
      split at he0
      · cases he0
      · exact he0.symm
    subst he0'
    have hg := afa_na_guard HdrPAI b offs next c.cur pf h0
    rw [if_pos hg]
    exact ih (b.size - next) (by omega) next _ rfl

/-- **ParseAllPAIValues never takes the model-only exit** (every buffer, offset and object) -/
theorem parseAllPAIValues_ne_lbug (b : Buf) (offs : Nat) (c : PPAIs) :
    (parseAllPAIValues b offs c).2.1 ≠ .lbug := by
  unfold parseAllPAIValues; exact paisLoop_ne_lbug b offs _

/-! ### ParseHdrLine (no hypothesis) and ParseHeaders -/

theorem parseBody_ne_lbug (b : Buf) (o : Nat) (h : Hdr) (hb : Option PHdrVals) :
    (parseBody b o h hb).2.1 ≠ .lbug := by
  unfold parseBody
  cases hb with
  | none => afa_ne
  | some hv =>
  simp only
  by_cases h_from_ : (h.type == HdrFrom) = true
  · simp only [h_from_, ↓reduceIte]
    split
    · exact parseNameAddrPVal_ne_lbug HdrFrom b o _
    · afa_ne
  simp only [h_from_, Bool.false_eq_true, ↓reduceIte]
  by_cases h_to : (h.type == HdrTo) = true
  · simp only [h_to, ↓reduceIte]
    split
    · exact parseNameAddrPVal_ne_lbug HdrTo b o _
    · afa_ne
  simp only [h_to, Bool.false_eq_true, ↓reduceIte]
  by_cases h_callid : (h.type == HdrCallID) = true
  · simp only [h_callid, ↓reduceIte]
    split
    · exact parseCallIDVal_ne_lbug b o _
    · afa_ne
  simp only [h_callid, Bool.false_eq_true, ↓reduceIte]
  by_cases h_cseq : (h.type == HdrCSeq) = true
  · simp only [h_cseq, ↓reduceIte]
    split
    · exact parseCSeqVal_ne_lbug b o _
    · afa_ne
  simp only [h_cseq, Bool.false_eq_true, ↓reduceIte]
  by_cases h_clen : (h.type == HdrCLen) = true
  · simp only [h_clen, ↓reduceIte]
    split
    · exact parseCLenVal_ne_lbug b o _
    · afa_ne
  simp only [h_clen, Bool.false_eq_true, ↓reduceIte]
  by_cases h_contacts : (h.type == HdrContact) = true
  · simp only [h_contacts, ↓reduceIte]
    exact parseAllContactValues_ne_lbug b o _
  simp only [h_contacts, Bool.false_eq_true, ↓reduceIte]
  by_cases h_expires : (h.type == HdrExpires) = true
  · simp only [h_expires, ↓reduceIte]
    split
    · exact parseUIntVal_ne_lbug b o _
    · afa_ne
  simp only [h_expires, Bool.false_eq_true, ↓reduceIte]
  by_cases h_pais : (h.type == HdrPAI) = true
  · simp only [h_pais, ↓reduceIte]
    exact parseAllPAIValues_ne_lbug b o _
  simp only [h_pais, Bool.false_eq_true, ↓reduceIte]
  afa_ne

theorem afa_hlAfterColon_nl (b : Buf) (i : Nat) (h : Hdr) (hb : Option PHdrVals) : afaNL (hlAfterColon b i h hb) := by
  unfold hlAfterColon
  split
  · afa_ne
  · rename_i nm _
    simp only
    have := parseBody_ne_lbug b i { h with type := getHdrType nm } hb
    rcases hp : parseBody b i { h with type := getHdrType nm } hb with ⟨n1, e1, h2, hb2⟩
    rw [hp] at this
    simp only
    split
    · exact this
    · exact True.intro

theorem afa_hlName_nl (b : Buf) (i : Nat) (h : Hdr) (hb : Option PHdrVals) : afaNL (hlName b i h hb) := by
  unfold hlName
  simp only
  repeat' split
  all_goals first
    | exact True.intro
    | exact afa_hlAfterColon_nl b _ _ hb
    | afa_ne

theorem afa_hlValEnd_nl (b : Buf) (i : Nat) (h : Hdr) (hb : Option PHdrVals) : afaNL (hlValEnd b i h hb) := by
  unfold hlValEnd
  rcases hsk : skipLWS b i 0 with ⟨n1, crl, e⟩
  have hne := afa_skipLWS_nl b i 0 hsk
  cases e
  all_goals first
    | exact hne
    | exact True.intro
    | afa_ne

theorem afa_hlCont_nl (b : Buf) (i : Nat) (h : Hdr) (hb : Option PHdrVals) : afaNL (hlCont b i h hb) := by
  unfold hlCont
  cases hb with
  | none => afa_ne
  | some hv =>
    simp only
    cases h.state <;> simp only
    all_goals first
      | exact parseNameAddrPVal_ne_lbug _ b i _
      | exact parseCallIDVal_ne_lbug b i _
      | exact parseCSeqVal_ne_lbug b i _
      | exact parseCLenVal_ne_lbug b i _
      | exact parseUIntVal_ne_lbug b i _
      | exact parseAllContactValues_ne_lbug b i _
      | exact parseAllPAIValues_ne_lbug b i _
      | afa_ne

theorem afa_hlStep_nl (b : Buf) (i : Nat) (c : UInt8) (st : HLσ) : afaNL (hlStep b i c st) := by
  obtain ⟨h, hb⟩ := st
  unfold hlStep
  simp only
  cases hst : h.state <;> simp only
  case bodyStart =>
    rcases hsk : skipLWS b i 0 with ⟨n1, crl, e⟩
    have hne := afa_skipLWS_nl b i 0 hsk
    cases e
    all_goals first
      | exact hne
      | exact True.intro
      | afa_ne
  all_goals
    repeat' split
    all_goals first
      | exact True.intro
      | exact afa_hlName_nl b _ _ hb
      | exact afa_hlAfterColon_nl b _ _ hb
      | exact afa_hlValEnd_nl b _ _ hb
      | exact afa_hlCont_nl b i h hb
      | (rw [← hst]; exact afa_hlCont_nl b i h hb)
      | afa_ne

/-- **ParseHdrLine never returns the model-only verdict** (every buffer, offset, header object, values object or nil) -/
theorem parseHdrLine_ne_lbug (b : Buf) (o : Nat) (h : Hdr) (hb : Option PHdrVals) :
    (parseHdrLine b o h hb).2.1 ≠ .lbug := by
  unfold parseHdrLine
  have := afa_runLoop_nl hlMachine hl_progress b (fun i c st _ => afa_hlStep_nl b i c st)
    (by intro i st; simp [hlMachine]) o (h, hb)
  rcases hrl : runLoop hlMachine b o (h, hb) with ⟨o1, e1, h1, hb1⟩
  rw [hrl] at this
  exact this

/-- **ParseHeaders never takes the model-only exit**, from every legitimate list / values object — the hypotheses
    of `headers_never_panics` minus the ones not needed (`HlsSafe`, the 65,535 limit): new, finished, or returned by an
    earlier call on a prefix of the buffer with MoreBytes (`hlsOK`, `hbOK`), and no stale suspended header in the slots
    still to be filled (`hlsPend`) -/
theorem parseHeaders_ne_lbug (b : Buf) (offs : Nat) (hl : HdrLst) (hb : Option PHdrVals)
    (hok1 : hlsOK b hl) (hok2 : hbOK b offs hb) (hpe : hlsPend hl hb) (ho : offs ≤ b.size) :
    (parseHeaders b offs hl hb).2.1 ≠ .lbug := by
  induction hk : b.size - offs using Nat.strongRecOn generalizing offs hl hb with
  | _ k ih =>
    rw [parseHeaders.eq_1 b offs hl hb]
    by_cases hlt : offs < b.size
    · rw [if_pos hlt]
      have hI : hlOK b offs hl.cur hb := ⟨by omega, hlsOK_cur hok1, hok2⟩
      have hne := parseHdrLine_ne_lbug b offs hl.cur hb
      rcases hp1 : parseHdrLine b offs hl.cur hb with ⟨n1, e1, g1, v1⟩
      rw [hp1] at hne
      cases e1 <;> simp only <;> try (first | exact hne | afa_ne)
      case ok =>
        have hpost := parseHdrLine_post b offs hl.cur hb hI hp1 (Or.inl rfl)
        have hg : offs < n1 := parseHdrLine_ok_gt b offs hl.cur hb hI hpe.1 hp1
        rw [if_pos hg]
        exact ih (b.size - n1) (by omega) n1 _ v1 (hlsOK_next g1 hok1) hpost.2 (hlsPend_next g1 v1 hpe) hpost.1 rfl
      case empty => split <;> afa_ne
    · rw [if_neg hlt]; afa_ne

/-! ### ParseFLine (no hypothesis) and ParseSIPMsg -/

theorem afa_flCRLF_nl (b : Buf) (i : Nat) (pl : PFLine) : (flCRLF b i pl).2.1 ≠ .lbug := by
  unfold flCRLF
  rcases hs : skipCRLF b i with ⟨n, crl, e⟩
  have := afa_skipCRLF_nl hs
  cases e <;> first | exact this | afa_ne

theorem afa_flReqVer_nl (b : Buf) (i : Nat) (pl : PFLine) : (flReqVer b i pl).2.1 ≠ .lbug := by
  unfold flReqVer
  simp only
  repeat' split
  all_goals first | exact afa_flCRLF_nl b _ _ | afa_ne

theorem afa_flReqURI_nl (b : Buf) (i : Nat) (pl : PFLine) : (flReqURI b i pl).2.1 ≠ .lbug := by
  unfold flReqURI
  simp only
  repeat' split
  all_goals first | exact afa_flReqVer_nl b _ _ | afa_ne

theorem afa_flReqMethod_nl (b : Buf) (i : Nat) (pl : PFLine) : (flReqMethod b i pl).2.1 ≠ .lbug := by
  unfold flReqMethod
  simp only
  repeat' split
  all_goals first | exact afa_flReqURI_nl b _ _ | afa_ne

theorem afa_flRplReason_nl (b : Buf) (i : Nat) (pl : PFLine) : (flRplReason b i pl).2.1 ≠ .lbug := by
  unfold flRplReason skipLine
  rcases hs : skipCRLF b (skipToEOL b i) with ⟨n, crl, e⟩
  have := afa_skipCRLF_nl hs
  cases e <;> first | exact this | afa_ne

theorem afa_flReply_nl (b : Buf) (i0 l : Nat) (pl : PFLine) : (flReply b i0 l pl).2.1 ≠ .lbug := by
  unfold flReply
  simp only
  repeat' split
  all_goals first | exact afa_flRplReason_nl b _ _ | afa_ne

/-- **ParseFLine never returns the model-only verdict** (it has no loop of the generic driver) -/
theorem parseFLine_ne_lbug (b : Buf) (o : Nat) (pl : PFLine) : (parseFLine b o pl).2.1 ≠ .lbug := by
  unfold parseFLine
  cases pl.state <;> simp only
  all_goals first
    | exact afa_flReqMethod_nl b o pl
    | exact afa_flReqURI_nl b o pl
    | exact afa_flReqVer_nl b o pl
    | exact afa_flCRLF_nl b o pl
    | exact afa_flRplReason_nl b o pl
    | afa_ne
    | (repeat' split
       all_goals first
         | exact afa_flReply_nl b o _ pl
         | exact afa_flReqMethod_nl b o _
         | afa_ne)

theorem afa_msgErr_nl (m : PSIPMsg) (o : Nat) (e : Err) (flags : Nat) (he : e ≠ .lbug) :
    (msgErr m o e flags).2.1 ≠ .lbug := by
  unfold msgErr
  repeat' split
  all_goals first | exact he | afa_ne

theorem afa_msgBody_nl (b : Buf) (o : Nat) (m : PSIPMsg) (flags : Nat) : (msgBody b o m flags).2.1 ≠ .lbug := by
  unfold msgBody msgEnd
  simp only
  repeat' split
  all_goals afa_ne

theorem afa_msgHeaders_nl (b : Buf) (o : Nat) (m : PSIPMsg) (flags : Nat) (ho : o ≤ b.size)
    (hok1 : hlsOK b m.hl) (hok2 : hvOK b o m.pv) (hpe : hlsPend m.hl (some m.pv)) :
    (msgHeaders b o m flags).2.1 ≠ .lbug := by
  unfold msgHeaders
  have hne := parseHeaders_ne_lbug b o m.hl (some m.pv) hok1 hok2 hpe ho
  rcases hp : parseHeaders b o m.hl (some m.pv) with ⟨o1, e1, hl1, hb1⟩
  rw [hp] at hne
  cases e1 <;> simp only <;> first | exact afa_msgBody_nl b _ _ _ | exact afa_msgErr_nl _ _ _ _ hne

theorem afa_msgFLine_nl (b : Buf) (o : Nat) (m : PSIPMsg) (flags : Nat) (ho : o ≤ b.size)
    (hok1 : hlsOK b m.hl) (hok2 : hvOK b o m.pv) (hpe : hlsPend m.hl (some m.pv)) :
    (msgFLine b o m flags).2.1 ≠ .lbug := by
  unfold msgFLine
  have hne := parseFLine_ne_lbug b o m.fl
  rcases hp : parseFLine b o m.fl with ⟨o1, e1, fl1⟩
  rw [hp] at hne
  cases e1 <;> simp only <;> try (exact afa_msgErr_nl _ _ _ _ hne)
  have hrg := parseFLine_range b o m.fl ho
  rw [hp] at hrg
  have hrg' := hrg rfl
  exact afa_msgHeaders_nl b o1 _ flags hrg'.2 hok1 (hvOK_mono hok2 hrg'.1 hrg'.2) hpe

/-- **ParseSIPMsg never takes a model-only exit — one call, any legitimate object** (`msgOK2`, the legitimacy
    hypothesis of `msg_never_panics`; `MsgSafe` and the 65,535 limit are not needed here) -/
theorem parseSIPMsg_ne_lbug (b : Buf) (o : Nat) (m : PSIPMsg) (flags : Nat) (hok : msgOK2 b o m) :
    (parseSIPMsg b o m flags).2.1 ≠ .lbug := by
  obtain ⟨ho, _, h3⟩ := hok
  unfold parseSIPMsg
  cases hst : m.state <;> simp only
  case init =>
    obtain ⟨a1, a2, a3⟩ := h3 (by rw [hst]; decide)
    exact afa_msgFLine_nl b o _ flags ho a1 a2 a3
  case fline =>
    obtain ⟨a1, a2, a3⟩ := h3 (by rw [hst]; decide)
    exact afa_msgFLine_nl b o m flags ho a1 a2 a3
  case headers =>
    obtain ⟨a1, a2, a3⟩ := h3 (by rw [hst]; decide)
    exact afa_msgHeaders_nl b o m flags ho a1 a2 a3
  case body => exact afa_msgBody_nl b o m flags
  all_goals exact afa_msgErr_nl _ _ _ _ (by afa_ne)

/-- … from any object produced by Init: any previous contents, caller arrays of any capacity (or none), any start
    offset inside the buffer, any flags -/
theorem parseSIPMsg_ne_lbug_init (b : Buf) (o : Nat) (ho : o ≤ b.size) (m0 : PSIPMsg) (len kh kc : Nat)
    (hdrs cts : Option Unit) (flags : Nat) :
    (parseSIPMsg b o (m0.init len (hdrs.map fun _ => Array.replicate kh {}) (cts.map fun _ => Array.replicate kc {}))
      flags).2.1 ≠ .lbug :=
  parseSIPMsg_ne_lbug b o _ flags (msgOK2_init b o ho m0 len kh kc hdrs cts)

/-- **every chunk schedule**: the chain of resumed ParseSIPMsg calls never ends with the model-only verdict (the
    hypotheses are those of `msg_schedule_never_panics`) -/
theorem parseSIPMsg_schedule_ne_lbug (flags : Nat) (o : Nat) (m : PSIPMsg) (l : List Buf) (hg : Growing l)
    (hfit : ∀ x ∈ l, x.size ≤ 65535) (hne : l ≠ []) (h0 : ∀ b ∈ l.head?, msgOK2 b o m ∧ MsgSafe b o m) :
    (resumeRun (fun b o m => parseSIPMsg b o m flags) o m l).2.1 ≠ .lbug := by
  have := resumeRun_post (fun b o m => parseSIPMsg b o m flags) (fun b o m => msgOK2 b o m ∧ MsgSafe b o m)
    (fun _ _ r => r.2.1 ≠ .lbug) (fun b => b.size ≤ 65535) ?_ (fun b o o' r _ q => q) o m l hg hfit hne h0
  · obtain ⟨_, _, hq⟩ := this; exact hq
  · intro b o m hfit hI
    have hT := parseSIPMsg_safe b o m flags hfit hI.1 hI.2
    refine ⟨parseSIPMsg_ne_lbug b o m flags hI.1, fun hmb => ⟨hT.ge (Or.inr hmb), fun s => ?_⟩⟩
    rcases hp : parseSIPMsg b o m flags with ⟨o1, e1, m1⟩
    rw [hp] at hmb hT
    simp only at hmb
    subst hmb
    have hr := parseSIPMsg_resume b s o m flags flags hI.1 hfit hp
    exact ⟨hr.2.1, (hT.more rfl).grow (by rw [Array.size_append]; omega)⟩

/-- **every chunk schedule, from Init** -/
theorem parseSIPMsg_schedule_ne_lbug_init (flags : Nat) (o : Nat) (m0 : PSIPMsg) (len kh kc : Nat)
    (hdrs cts : Option Unit) (l : List Buf) (hg : Growing l) (hfit : ∀ x ∈ l, x.size ≤ 65535) (hne : l ≠ [])
    (ho : ∀ b ∈ l.head?, o ≤ b.size) :
    (resumeRun (fun b o m => parseSIPMsg b o m flags) o
      (m0.init len (hdrs.map fun _ => Array.replicate kh {}) (cts.map fun _ => Array.replicate kc {})) l).2.1 ≠ .lbug :=
  parseSIPMsg_schedule_ne_lbug flags o _ l hg hfit hne
    (fun b hb => ⟨msgOK2_init b o (ho b hb) m0 len kh kc hdrs cts, MsgSafe_init b o (ho b hb) m0 len kh kc hdrs cts⟩)

/-! ### the two URI lists under every chunk schedule -/

theorem afa_oneShotRun_verdict {σ : Type} (P : Parser σ) (V : Err → Prop) (o : Nat) (st : σ) (l : List Buf)
    (hV : ∀ b ∈ l, V (P b o st).2.1) (hm : V .moreBytes) : V (oneShotRun P o st l).2.1 := by
  induction l with
  | nil => exact hm
  | cons b rest ih =>
    cases rest with
    | nil => exact hV b List.mem_cons_self
    | cons b' rest' =>
      simp only [oneShotRun]
      have hb := hV b List.mem_cons_self
      rcases hp : P b o st with ⟨o1, e1, s1⟩
      rw [hp] at hb
      cases e1 <;> simp only <;> first | exact hb | exact ih (fun x hx => hV x (List.mem_cons_of_mem _ hx))

theorem afa_growing_size {l : List Buf} (hg : Growing l) {b0 : Buf} (h0 : l.head? = some b0) :
    ∀ x ∈ l, b0.size ≤ x.size := by
  cases l with
  | nil => cases h0
  | cons b rest =>
    simp only [List.head?_cons, Option.some.injEq] at h0
    subst h0
    intro x hx
    rcases List.mem_cons.1 hx with rfl | hx
    · exact Nat.le_refl _
    · obtain ⟨s, rfl⟩ := growing_ext hg x hx
      rw [Array.size_append]; omega

/-- **ParseAllURIParams, every chunk schedule (option off)**: the chain of resumed calls never ends with the
    model-only verdict (hypotheses of `parseAllURIParams_schedule`) -/
theorem parseAllURIParams_schedule_ne_lbug (flags : Nat) (hf : hasFlag flags POptInputEndF = false) (o : Nat)
    (l : URIParamsLst) (bs : List Buf) (hg : Growing bs) (h0 : ∀ b ∈ bs.head?, plOK b l ∧ o ≤ b.size) :
    (resumeRun (uriParamsParser flags) o (0, l) bs).2.1 ≠ .lbug := by
  rw [parseAllURIParams_schedule flags hf o l bs hg h0]
  refine afa_oneShotRun_verdict _ (· ≠ .lbug) o (0, l) bs ?_ (by afa_ne)
  intro b hb
  cases hh : bs.head? with
  | none => cases bs <;> simp at hh hb
  | some b0 =>
    have h1 := h0 b0 (by rw [hh]; rfl)
    have := afa_growing_size hg hh b hb
    exact parseAllURIParams_ne_lbug b o l flags h1.1.2 (by have := h1.2; omega)

/-- **… with the end-of-input option at the last call** (hypotheses of `parseAllURIParams_schedule_end`) -/
theorem parseAllURIParams_schedule_end_ne_lbug (f : Nat) (hf : hasFlag f POptInputEndF = false) (o : Nat)
    (l : URIParamsLst) (bs : List Buf) (hg : Growing bs) (h0 : ∀ b ∈ bs.head?, plOK b l ∧ o ≤ b.size)
    (B : Buf) (hB : bs.getLast? = some B) :
    (resumeRunEnd (uriParamsParser f) (uriParamsParser (f ||| POptInputEndF)) o (0, l) bs).2.1 ≠ .lbug := by
  rw [parseAllURIParams_schedule_end f hf o l bs hg h0 B hB]
  cases hh : bs.head? with
  | none => cases bs <;> simp at hh hB
  | some b0 =>
    have h1 := h0 b0 (by rw [hh]; rfl)
    have := afa_growing_size hg hh B (List.mem_of_getLast? hB)
    exact parseAllURIParams_ne_lbug B o l _ h1.1.2 (by have := h1.2; omega)

/-- **ParseAllURIHdrs, every chunk schedule (option off)** -/
theorem parseAllURIHdrs_schedule_ne_lbug (flags : Nat) (hf : hasFlag flags POptInputEndF = false) (o : Nat)
    (l : URIHdrsLst) (bs : List Buf) (hg : Growing bs) (h0 : ∀ b ∈ bs.head?, hlClean l ∧ o ≤ b.size) :
    (resumeRun (uriHdrsParser flags) o (0, l) bs).2.1 ≠ .lbug := by
  rw [parseAllURIHdrs_schedule flags hf o l bs hg h0]
  refine afa_oneShotRun_verdict _ (· ≠ .lbug) o (0, l) bs ?_ (by afa_ne)
  intro b hb
  cases hh : bs.head? with
  | none => cases bs <;> simp at hh hb
  | some b0 =>
    have h1 := h0 b0 (by rw [hh]; rfl)
    have := afa_growing_size hg hh b hb
    exact parseAllURIHdrs_ne_lbug b o l flags h1.1 (by have := h1.2; omega)

/-- **… with the end-of-input option at the last call** -/
theorem parseAllURIHdrs_schedule_end_ne_lbug (f : Nat) (hf : hasFlag f POptInputEndF = false) (o : Nat)
    (l : URIHdrsLst) (bs : List Buf) (hg : Growing bs) (h0 : ∀ b ∈ bs.head?, hlClean l ∧ o ≤ b.size)
    (B : Buf) (hB : bs.getLast? = some B) :
    (resumeRunEnd (uriHdrsParser f) (uriHdrsParser (f ||| POptInputEndF)) o (0, l) bs).2.1 ≠ .lbug := by
  rw [parseAllURIHdrs_schedule_end f hf o l bs hg h0 B hB]
  cases hh : bs.head? with
  | none => cases bs <;> simp at hh hB
  | some b0 =>
    have h1 := h0 b0 (by rw [hh]; rfl)
    have := afa_growing_size hg hh B (List.mem_of_getLast? hB)
    exact parseAllURIHdrs_ne_lbug B o l _ h1.1 (by have := h1.2; omega)

/-! ### new / Init / Reset objects qualify -/

/-- ParseHeaders on the list and values object of any Init message object (caller arrays of any capacity, or none),
    with or without a values object -/
theorem parseHeaders_ne_lbug_init (b : Buf) (o : Nat) (ho : o ≤ b.size) (m0 : PSIPMsg) (len kh kc : Nat)
    (hdrs cts : Option Unit) (useVals : Bool) :
    (parseHeaders b o (m0.init len (hdrs.map fun _ => Array.replicate kh {}) (cts.map fun _ => Array.replicate kc {})).hl
      (if useVals then some (m0.init len (hdrs.map fun _ => Array.replicate kh {})
        (cts.map fun _ => Array.replicate kc {})).pv else none)).2.1 ≠ .lbug := by
  have hm := msgOK2_init b o ho m0 len kh kc hdrs cts
  obtain ⟨a1, a2, a3⟩ := hm.2.2 (by intro hh; cases hh)
  cases useVals
  · refine parseHeaders_ne_lbug b o _ none a1 trivial ⟨?_, a3.2.1, a3.2.2⟩ ho
    show hlPending (_, none)
    unfold hlPending; trivial
  · exact parseHeaders_ne_lbug b o _ (some _) a1 a2 a3 ho

/-- **after ANY history of Init / parse calls (complete, suspended, failed) / Reset, then Reset**: the next
    ParseSIPMsg call, at any offset inside any buffer, never takes a model-only exit (`ScReach`: the reachability
    predicate of `sig_never_panics_history`; Reset after any history is an Init object) -/
theorem parseSIPMsg_ne_lbug_reset {m : PSIPMsg} (hR : ScReach m) (b : Buf) (o : Nat) (ho : o ≤ b.size) (flags : Nat) :
    (parseSIPMsg b o m.reset flags).2.1 ≠ .lbug :=
  parseSIPMsg_ne_lbug b o m.reset flags (sc_reset_legit hR b o ho).1

/-- … and every chunk schedule after that Reset -/
theorem parseSIPMsg_schedule_ne_lbug_reset {m : PSIPMsg} (hR : ScReach m) (flags : Nat) (o : Nat) (l : List Buf)
    (hg : Growing l) (hfit : ∀ x ∈ l, x.size ≤ 65535) (hne : l ≠ []) (ho : ∀ b ∈ l.head?, o ≤ b.size) :
    (resumeRun (fun b o m => parseSIPMsg b o m flags) o m.reset l).2.1 ≠ .lbug :=
  parseSIPMsg_schedule_ne_lbug flags o _ l hg hfit hne (fun b hb => sc_reset_legit hR b o (ho b hb))

/-! ## non-vacuity / tests (closed computations by `decide +kernel`) -/

/-- "ABC\rxxxxxxxxxxxx": a first line that is rejected with BadChar at offset 3 -/
def afaBadFL : Buf := #[65, 66, 67, 13, 120, 120, 120, 120, 120, 120, 120, 120, 120, 120, 120, 120]

/-- test: the verdict, and the reason why the old form of the theorem could not be applied to it: with flags 0 and no
    Content-Length parsed, `bodyToEnd` HOLDS of the returned object -/
example : (parseSIPMsg afaBadFL 0 (({} : PSIPMsg).init 0 none none) 0).1 = 3 ∧
    (parseSIPMsg afaBadFL 0 (({} : PSIPMsg).init 0 none none) 0).2.1 = .badChar ∧
    bodyToEnd 0 (parseSIPMsg afaBadFL 0 (({} : PSIPMsg).init 0 none none) 0).2.2 := by
  refine ⟨by decide +kernel, by decide +kernel, by decide, by decide +kernel, by decide⟩

/-- **(A) instance: a BadChar first line stays BadChar at the same offset whatever bytes arrive later** — by
    `parseSIPMsg_stable_all_init`, whose side condition is void for a non-OK verdict -/
example (s : Buf) : (parseSIPMsg (afaBadFL ++ s) 0 (({} : PSIPMsg).init 0 none none) 0).1 = 3 ∧
    (parseSIPMsg (afaBadFL ++ s) 0 (({} : PSIPMsg).init 0 none none) 0).2.1 = .badChar := by
  rcases hp : parseSIPMsg afaBadFL 0 (({} : PSIPMsg).init 0 none none) 0 with ⟨o', e, m'⟩
  have h1 : (parseSIPMsg afaBadFL 0 (({} : PSIPMsg).init 0 none none) 0).1 = 3 := by decide +kernel
  have h2 : (parseSIPMsg afaBadFL 0 (({} : PSIPMsg).init 0 none none) 0).2.1 = .badChar := by decide +kernel
  rw [hp] at h1 h2
  simp only at h1 h2
  subst h1 h2
  have := parseSIPMsg_stable_all_init afaBadFL s 0 (Nat.zero_le _) {} 0 0 0 none none 0 (by decide) (by decide) hp
    (by afa_ne) (fun hh => by cases hh)
  exact ⟨by rw [show parseSIPMsg (afaBadFL ++ s) 0 (({} : PSIPMsg).init 0 none none) 0 = _ from this],
    by rw [show parseSIPMsg (afaBadFL ++ s) 0 (({} : PSIPMsg).init 0 none none) 0 = _ from this]⟩

/-- "SIP/2.0/UDP h;a=b;branch=z9hG4bKabc": the loop of GetViaBrSig goes round twice (MoreValues after `a=b`) -/
def afaVia : Buf := #[83, 73, 80, 47, 50, 46, 48, 47, 85, 68, 80, 32, 104, 59, 97, 61, 98, 59, 98, 114, 97, 110, 99,
  104, 61, 122, 57, 104, 71, 52, 98, 75, 97, 98, 99]

/-- test of (B), GetViaBrSig: signature of the 3 characters after the magic cookie; an absurd value at the dead exit
    changes nothing -/
example : getViaBrSig afaVia = (0, 3, false) ∧ afaGetViaBrSigX (7, 7, true) afaVia = (0, 3, false) := by
  refine ⟨by decide +kernel, by decide +kernel⟩

/-- test of (B), URI parameters: "a=b;c=d;;e" with the end-of-input option, capacity 2 (overflowing) -/
example : (parseAllURIParams #[97, 61, 98, 59, 99, 61, 100, 59, 59, 101] 0 { params := Array.replicate 2 {} } 8).2.2.1
    = .eoh := by decide +kernel

/-- (B): the hypotheses of `parseSIPMsg_ne_lbug` / `parseSIPMsg_schedule_ne_lbug` are satisfiable: every object
    produced by Init meets them, for every buffer -/
example (b : Buf) : msgOK2 b 0 (({} : PSIPMsg).init 0 none none) ∧ MsgSafe b 0 (({} : PSIPMsg).init 0 none none) :=
  ⟨msgOK2_init b 0 (Nat.zero_le _) {} 0 0 0 none none, MsgSafe_init b 0 (Nat.zero_le _) {} 0 0 0 none none⟩

/-- "A B C\r\nl:2\r\n\r\nxyz": a message with Content-Length 2 followed by 3 bytes -/
def afaMsg : Buf := #[65, 32, 66, 32, 67, 13, 10, 108, 58, 50, 13, 10, 13, 10, 120, 121, 122]

/-- test of (C): the hypotheses of `parseSIPMsg_ok_clen` hold of a concrete call, and what it concludes:
    ParseHeaders stops at 14, the body is [14, 16), the returned offset is 16 -/
example : (parseSIPMsg afaMsg 0 (({} : PSIPMsg).init 0 none none) 0).1 = 16 ∧
    (parseSIPMsg afaMsg 0 (({} : PSIPMsg).init 0 none none) 0).2.1 = .ok ∧
    (parseSIPMsg afaMsg 0 (({} : PSIPMsg).init 0 none none) 0).2.2.pv.clen.parsed = true ∧
    (parseSIPMsg afaMsg 0 (({} : PSIPMsg).init 0 none none) 0).2.2.pv.clen.uiVal = 2 ∧
    (parseSIPMsg afaMsg 0 (({} : PSIPMsg).init 0 none none) 0).2.2.body = ⟨14, 2⟩ ∧
    (({} : PSIPMsg).init 0 none none).state = .init := by
  refine ⟨by decide +kernel, by decide +kernel, by decide +kernel, by decide +kernel, by decide +kernel, rfl⟩

/-- tests: the hypotheses of (B) are NOT redundant. Outside the domain — a list whose UNUSED slot holds a parameter
    suspended after a separator (no API call produces that), a header list whose unused slot is a header suspended in
    its From value while the values object says From is finished — the model-only exit is taken (the Go loop would go
    on with the stale element). `plClean` / `hlClean` / `hlsPend` exclude exactly this. -/
example : (parseAllURIParams #[97] 0 { params := #[{param := {state := .fNxt}}, {param := {state := .fNxt}}] } 0).2.2.1
    = .lbug := by decide +kernel
example : (parseAllURIHdrs #[97] 0 { hdrs := #[{state := .fNxt}, {state := .fNxt}] } 0).2.2.1 = .lbug := by
  decide +kernel
example : (parseHeaders #[97, 58, 98, 13, 10, 13, 10] 0 { hdrs := #[{ state := .hFrom }] }
    (some { from_ := { state := .fin } })).2.1 = .lbug := by decide +kernel

end Sipsp
