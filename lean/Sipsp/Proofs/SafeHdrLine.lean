/-
  Sipsp.Proofs.SafeHdrLine — ParseHdrLine never panics (65,535-byte limit); every field it reports — in the header
  and in the header-values object — can be dereferenced.
-/
import Sipsp.Proofs.SafePAIs
import Sipsp.Proofs.SafeFLine
import Sipsp.Proofs.HeadersL2

namespace Sipsp

theorem CtSafe.mono {b : Buf} {o o' : Nat} {c : PContacts} (h : CtSafe b o c) (h1 : o ≤ o') (h2 : o' ≤ b.size) :
    CtSafe b o' c := by
  obtain ⟨lo, a1, a2, a3⟩ := h.lo
  exact ⟨h2, h.cur.mono h1 h2, h.clean, ⟨lo, a1, by omega, a3⟩, h.stored, h.lastF, h.firstF, h.pnc, h.inn.mono h1 h2⟩

theorem PaSafe.mono {b : Buf} {o o' : Nat} {c : PPAIs} (h : PaSafe b o c) (h1 : o ≤ o') (h2 : o' ≤ b.size) :
    PaSafe b o' c := by
  obtain ⟨lo, a1, a2, a3⟩ := h.lo
  exact ⟨h2, h.cur.mono h1 h2, h.clean, ⟨lo, a1, by omega, a3⟩, h.stored, h.lastF, h.pnc, h.inn.mono h1 h2⟩

/-- legitimacy (for panic-freedom) of the header-values object at offset `o`, while the header being parsed is in
    state `st` -/
structure HvSafe (b : Buf) (o : Nat) (st : HState) (hv : PHdrVals) : Prop where
  from_ : NaEntry b o hv.from_
  to : NaEntry b o hv.to
  callid : CiSafe b o hv.callid
  cseq : CsSafe b o hv.cseq
  clen : ClSafe b o hv.clen
  expires : ClSafe b o hv.expires
  ctS : st = .hContact → CtSafe b o hv.contacts
  ctI : st ≠ .hContact → CtIdle b hv.contacts
  paS : st = .hPAI → PaSafe b o hv.pais
  paI : st ≠ .hPAI → PaIdle b hv.pais
  ctIn : CtIn b o hv.contacts
  paIn : PaIn b o hv.pais

/-- every field of the values object can be dereferenced, nothing panicked -/
structure HvFine (b : Buf) (hv : PHdrVals) : Prop where
  from_ : NaFine b hv.from_
  to : NaFine b hv.to
  callid : hv.callid.callID.inside b.size ∧ hv.callid.pnc = false
  cseq : CsOut b hv.cseq
  clen : ClOut b hv.clen
  expires : ClOut b hv.expires
  contacts : CtOut b hv.contacts
  pais : PaOut b hv.pais

theorem NaEntry.fine {b : Buf} {o : Nat} {pf : PFromBody} (h : NaEntry b o pf) : NaFine b pf := by
  rcases h with h | h
  · exact h.2.fine
  · have := h.2.out.fine
    exact ⟨this.ho, this.name, this.uri, this.tag, this.params, this.v, this.pnc⟩

theorem HvSafe.fine {b : Buf} {o : Nat} {st : HState} {hv : PHdrVals} (h : HvSafe b o st hv) : HvFine b hv := by
  refine ⟨h.from_.fine, h.to.fine, ⟨PField.inside_mono h.callid.fld h.callid.hi, h.callid.pnc⟩, h.cseq.out, h.clen.out,
    h.expires.out, ?_, ?_⟩
  · by_cases hs : st = .hContact
    · exact (h.ctS hs).idleOut
    · exact (h.ctI hs).out
  · by_cases hs : st = .hPAI
    · exact (h.paS hs).idleOut
    · exact (h.paI hs).out

theorem HvSafe.mono {b : Buf} {o o' : Nat} {st : HState} {hv : PHdrVals} (h : HvSafe b o st hv) (h1 : o ≤ o')
    (h2 : o' ≤ b.size) : HvSafe b o' st hv :=
  ⟨h.from_.mono h1 h2, h.to.mono h1 h2, h.callid.mono h1 h2, h.cseq.mono h1 h2, h.clen.mono h1 h2, h.expires.mono h1 h2,
   fun hs => (h.ctS hs).mono h1 h2, h.ctI, fun hs => (h.paS hs).mono h1 h2, h.paI, h.ctIn.mono h1 h2, h.paIn.mono h1 h2⟩

/-- the header state changes between states that are not "inside the Contact / PAI value list" -/
theorem HvSafe.restate {b : Buf} {o : Nat} {st st' : HState} {hv : PHdrVals} (h : HvSafe b o st hv)
    (h1 : st ≠ .hContact) (h2 : st ≠ .hPAI) (h3 : st' ≠ .hContact) (h4 : st' ≠ .hPAI) : HvSafe b o st' hv :=
  ⟨h.from_, h.to, h.callid, h.cseq, h.clen, h.expires, fun hs => absurd hs h3, fun _ => h.ctI h1,
   fun hs => absurd hs h4, fun _ => h.paI h2, h.ctIn, h.paIn⟩

theorem NaEntry.naOK {b : Buf} {o : Nat} {pf : PFromBody} (h : NaEntry b o pf) : naOK b o pf := by
  rcases h with h | h
  · exact Or.inl h.1
  · exact Or.inr ⟨h.2.hi, h.2.pend, h.2.vend⟩

theorem CsSafe.csOK {b : Buf} {o : Nat} {st : PCSeqBody} (h : CsSafe b o st) : csOK b o st := by
  right
  refine ⟨h.hi, fun _ => h.soffs, fun _ => ?_⟩
  have := h.method
  unfold PField.inside at this
  unfold PField.endT trunc16
  have := Nat.mod_le (st.method.offs + st.method.len) 65536
  have := h.hi
  omega

/-- **the header-value dispatch never panics** and leaves every value object dereferenceable; after OK / MoreBytes
    the values object is legitimate at the returned offset -/
theorem parseBody_safe (b : Buf) (o : Nat) (h : Hdr) (hv : PHdrVals) (hst : h.state = .bodyStart) (ho : o ≤ b.size)
    (hfit : b.size ≤ 65535) (hok : hvOK b o hv) (H : HvSafe b o .bodyStart hv) (hpnc : h.pnc = false)
    (hval : h.val.inside b.size) (hvalI : h.val.inside o) {n : Nat} {e : Err} {h2 : Hdr} {hb2 : Option PHdrVals}
    (hr : parseBody b o h (some hv) = (n, e, h2, hb2)) :
    ∃ hv2, hb2 = some hv2 ∧ HvFine b hv2 ∧ h2.pnc = false ∧ h2.name = h.name ∧ h2.val.inside b.size ∧
      (h2.state = .bodyStart → n = o ∧ e = .ok ∧ h2 = h ∧ hv2 = hv) ∧ (h2.state = .bodyStart ∨ h2.state.isVal) ∧
      ((e = .ok ∨ e = .moreBytes) → o ≤ n ∧ n ≤ b.size) ∧
      (e = .ok → HvSafe b n .fin hv2) ∧ (e = .moreBytes → HvSafe b n h2.state hv2) ∧ n ≤ b.size ∧
      ((e = .ok ∨ e = .moreBytes) → h2.val.inside n) := by
  have hrange : (e = .ok ∨ e = .moreBytes) → o ≤ n ∧ n ≤ b.size := by
    intro he
    rcases he with rfl | rfl
    · have := parseBody_post b o h (some hv) hok ho hr; exact ⟨this.1, this.2.1⟩
    · have := parseBody_restart b #[] o h (some hv) ho hok hr; exact ⟨this.2.2.1, this.2.2.2.1⟩
  have hn1 : HState.bodyStart ≠ .hContact := by decide
  have hn2 : HState.bodyStart ≠ .hPAI := by decide
  have HF := H.fine
  have hskip : ∀ {n : Nat} {e : Err} {h2 : Hdr} {hb2 : Option PHdrVals}, (o, Err.ok, h, some hv) = (n, e, h2, hb2) →
      ∃ hv2, hb2 = some hv2 ∧ HvFine b hv2 ∧ h2.pnc = false ∧ h2.name = h.name ∧ h2.val.inside b.size ∧
      (h2.state = .bodyStart → n = o ∧ e = .ok ∧ h2 = h ∧ hv2 = hv) ∧ (h2.state = .bodyStart ∨ h2.state.isVal) ∧
      ((e = .ok ∨ e = .moreBytes) → o ≤ n ∧ n ≤ b.size) ∧
      (e = .ok → HvSafe b n .fin hv2) ∧ (e = .moreBytes → HvSafe b n h2.state hv2) ∧ n ≤ b.size ∧
      ((e = .ok ∨ e = .moreBytes) → h2.val.inside n) := by
    intro n e h2 hb2 hh
    simp only [Prod.mk.injEq] at hh
    obtain ⟨rfl, rfl, rfl, rfl⟩ := hh
    exact ⟨hv, rfl, HF, hpnc, rfl, hval, fun _ => ⟨rfl, rfl, rfl, rfl⟩, Or.inl hst, fun _ => ⟨Nat.le_refl _, ho⟩,
      fun _ => H.restate hn1 hn2 (by decide) (by decide), (fun hh => by cases hh), ho, fun _ => hvalI⟩
  unfold parseBody parseFromVal at hr
  simp only at hr
  by_cases h_from_ : (h.type == HdrFrom) = true
  · simp only [h_from_, ↓reduceIte] at hr
    by_cases hp : (!hv.from_.parsed) = true
    · simp only [hp, ↓reduceIte] at hr
      rcases hq : parseNameAddrPVal HdrFrom b o hv.from_ with ⟨n1, e1, f1⟩
      rw [hq] at hr; simp only [Prod.mk.injEq] at hr
      obtain ⟨rfl, rfl, rfl, rfl⟩ := hr
      have hS := parseNameAddrPVal_safe HdrFrom b o hv.from_ H.from_ hq
      refine ⟨_, rfl, ⟨hS.1.fine, HF.to, HF.callid, HF.cseq, HF.clen, HF.expires, HF.contacts, HF.pais⟩, hpnc, rfl, ?_, (fun hh => by cases hh), Or.inr (by unfold HState.isVal; simp), hrange, ?_, ?_, hS.1.ho, ?_⟩
      · show (if (e1 == Err.ok) = true then f1.v else h.val).inside b.size
        split
        · exact PField.inside_mono hS.1.v hS.1.ho
        · exact hval
      · intro he; subst he
        obtain ⟨r1, r2⟩ := hrange (Or.inl rfl)
        have Hm := H.mono r1 r2
        exact ⟨Or.inl ⟨(naPVal_ok_range HdrFrom b o hv.from_ ho hq (Or.inl rfl)).1, hS.1⟩, Hm.to, Hm.callid, Hm.cseq, Hm.clen, Hm.expires, (fun hh => by cases hh), fun _ => Hm.ctI hn1, (fun hh => by cases hh), fun _ => Hm.paI hn2, Hm.ctIn, Hm.paIn⟩
      · intro he; subst he
        obtain ⟨r1, r2⟩ := hrange (Or.inr rfl)
        have Hm := H.mono r1 r2
        show HvSafe b n1 HState.hFrom _
        exact ⟨hS.2 rfl, Hm.to, Hm.callid, Hm.cseq, Hm.clen, Hm.expires, (fun hh => by cases hh), fun _ => Hm.ctI hn1, (fun hh => by cases hh), fun _ => Hm.paI hn2, Hm.ctIn, Hm.paIn⟩
      · intro he
        rcases he with rfl | rfl
        · show f1.v.inside n1
          exact hS.1.v
        · show h.val.inside n1
          exact PField.inside_mono hvalI (hrange (Or.inr rfl)).1
    · simp only [hp, Bool.false_eq_true, ↓reduceIte] at hr
      exact hskip hr
  simp only [h_from_, Bool.false_eq_true, ↓reduceIte] at hr
  by_cases h_to : (h.type == HdrTo) = true
  · simp only [h_to, ↓reduceIte] at hr
    by_cases hp : (!hv.to.parsed) = true
    · simp only [hp, ↓reduceIte] at hr
      rcases hq : parseNameAddrPVal HdrTo b o hv.to with ⟨n1, e1, f1⟩
      rw [hq] at hr; simp only [Prod.mk.injEq] at hr
      obtain ⟨rfl, rfl, rfl, rfl⟩ := hr
      have hS := parseNameAddrPVal_safe HdrTo b o hv.to H.to hq
      refine ⟨_, rfl, ⟨HF.from_, hS.1.fine, HF.callid, HF.cseq, HF.clen, HF.expires, HF.contacts, HF.pais⟩, hpnc, rfl, ?_, (fun hh => by cases hh), Or.inr (by unfold HState.isVal; simp), hrange, ?_, ?_, hS.1.ho, ?_⟩
      · show (if (e1 == Err.ok) = true then f1.v else h.val).inside b.size
        split
        · exact PField.inside_mono hS.1.v hS.1.ho
        · exact hval
      · intro he; subst he
        obtain ⟨r1, r2⟩ := hrange (Or.inl rfl)
        have Hm := H.mono r1 r2
        exact ⟨Hm.from_, Or.inl ⟨(naPVal_ok_range HdrTo b o hv.to ho hq (Or.inl rfl)).1, hS.1⟩, Hm.callid, Hm.cseq, Hm.clen, Hm.expires, (fun hh => by cases hh), fun _ => Hm.ctI hn1, (fun hh => by cases hh), fun _ => Hm.paI hn2, Hm.ctIn, Hm.paIn⟩
      · intro he; subst he
        obtain ⟨r1, r2⟩ := hrange (Or.inr rfl)
        have Hm := H.mono r1 r2
        show HvSafe b n1 HState.hTo _
        exact ⟨Hm.from_, hS.2 rfl, Hm.callid, Hm.cseq, Hm.clen, Hm.expires, (fun hh => by cases hh), fun _ => Hm.ctI hn1, (fun hh => by cases hh), fun _ => Hm.paI hn2, Hm.ctIn, Hm.paIn⟩
      · intro he
        rcases he with rfl | rfl
        · show f1.v.inside n1
          exact hS.1.v
        · show h.val.inside n1
          exact PField.inside_mono hvalI (hrange (Or.inr rfl)).1
    · simp only [hp, Bool.false_eq_true, ↓reduceIte] at hr
      exact hskip hr
  simp only [h_to, Bool.false_eq_true, ↓reduceIte] at hr
  by_cases h_callid : (h.type == HdrCallID) = true
  · simp only [h_callid, ↓reduceIte] at hr
    by_cases hp : (!hv.callid.parsed) = true
    · simp only [hp, ↓reduceIte] at hr
      rcases hq : parseCallIDVal b o hv.callid with ⟨n1, e1, f1⟩
      rw [hq] at hr; simp only [Prod.mk.injEq] at hr
      obtain ⟨rfl, rfl, rfl, rfl⟩ := hr
      have hS := parseCallIDVal_safe b o hv.callid H.callid
      rw [hq] at hS
      refine ⟨_, rfl, ⟨HF.from_, HF.to, ⟨PField.inside_mono hS.fld hS.hi, hS.pnc⟩, HF.cseq, HF.clen, HF.expires, HF.contacts, HF.pais⟩, hpnc, rfl, ?_, (fun hh => by cases hh), Or.inr (by unfold HState.isVal; simp), hrange, ?_, ?_, hS.hi, ?_⟩
      · show (if (e1 == Err.ok) = true then f1.callID else h.val).inside b.size
        split
        · exact PField.inside_mono hS.fld hS.hi
        · exact hval
      · intro he; subst he
        obtain ⟨r1, r2⟩ := hrange (Or.inl rfl)
        have Hm := H.mono r1 r2
        exact ⟨Hm.from_, Hm.to, hS, Hm.cseq, Hm.clen, Hm.expires, (fun hh => by cases hh), fun _ => Hm.ctI hn1, (fun hh => by cases hh), fun _ => Hm.paI hn2, Hm.ctIn, Hm.paIn⟩
      · intro he; subst he
        obtain ⟨r1, r2⟩ := hrange (Or.inr rfl)
        have Hm := H.mono r1 r2
        show HvSafe b n1 HState.hCallID _
        exact ⟨Hm.from_, Hm.to, hS, Hm.cseq, Hm.clen, Hm.expires, (fun hh => by cases hh), fun _ => Hm.ctI hn1, (fun hh => by cases hh), fun _ => Hm.paI hn2, Hm.ctIn, Hm.paIn⟩
      · intro he
        rcases he with rfl | rfl
        · show f1.callID.inside n1
          exact hS.fld
        · show h.val.inside n1
          exact PField.inside_mono hvalI (hrange (Or.inr rfl)).1
    · simp only [hp, Bool.false_eq_true, ↓reduceIte] at hr
      exact hskip hr
  simp only [h_callid, Bool.false_eq_true, ↓reduceIte] at hr
  by_cases h_cseq : (h.type == HdrCSeq) = true
  · simp only [h_cseq, ↓reduceIte] at hr
    by_cases hp : (!hv.cseq.parsed) = true
    · simp only [hp, ↓reduceIte] at hr
      rcases hq : parseCSeqVal b o hv.cseq with ⟨n1, e1, f1⟩
      rw [hq] at hr; simp only [Prod.mk.injEq] at hr
      obtain ⟨rfl, rfl, rfl, rfl⟩ := hr
      have hS := parseCSeqVal_safe b o hv.cseq hfit H.cseq
      rw [hq] at hS
      refine ⟨_, rfl, ⟨HF.from_, HF.to, HF.callid, hS.1, HF.clen, HF.expires, HF.contacts, HF.pais⟩, hpnc, rfl, ?_, (fun hh => by cases hh), Or.inr (by unfold HState.isVal; simp), hrange, ?_, ?_, hS.2.1, ?_⟩
      · show (if (e1 == Err.ok) = true then f1.v else h.val).inside b.size
        split
        · exact hS.1.2.2.1
        · exact hval
      · intro he; subst he
        obtain ⟨r1, r2⟩ := hrange (Or.inl rfl)
        have Hm := H.mono r1 r2
        exact ⟨Hm.from_, Hm.to, Hm.callid, hS.2.2 (by intro hh; cases hh), Hm.clen, Hm.expires, (fun hh => by cases hh), fun _ => Hm.ctI hn1, (fun hh => by cases hh), fun _ => Hm.paI hn2, Hm.ctIn, Hm.paIn⟩
      · intro he; subst he
        obtain ⟨r1, r2⟩ := hrange (Or.inr rfl)
        have Hm := H.mono r1 r2
        show HvSafe b n1 HState.hCSeq _
        exact ⟨Hm.from_, Hm.to, Hm.callid, hS.2.2 (by intro hh; cases hh), Hm.clen, Hm.expires, (fun hh => by cases hh), fun _ => Hm.ctI hn1, (fun hh => by cases hh), fun _ => Hm.paI hn2, Hm.ctIn, Hm.paIn⟩
      · intro he
        rcases he with rfl | rfl
        · show f1.v.inside n1
          exact (hS.2.2 (by intro hh; cases hh)).v
        · show h.val.inside n1
          exact PField.inside_mono hvalI (hrange (Or.inr rfl)).1
    · simp only [hp, Bool.false_eq_true, ↓reduceIte] at hr
      exact hskip hr
  simp only [h_cseq, Bool.false_eq_true, ↓reduceIte] at hr
  by_cases h_clen : (h.type == HdrCLen) = true
  · simp only [h_clen, ↓reduceIte] at hr
    by_cases hp : (!hv.clen.parsed) = true
    · simp only [hp, ↓reduceIte] at hr
      rcases hq : parseCLenVal b o hv.clen with ⟨n1, e1, f1⟩
      rw [hq] at hr; simp only [Prod.mk.injEq] at hr
      obtain ⟨rfl, rfl, rfl, rfl⟩ := hr
      have hS := parseCLenVal_safe b o hv.clen H.clen
      rw [hq] at hS
      refine ⟨_, rfl, ⟨HF.from_, HF.to, HF.callid, HF.cseq, hS.1, HF.expires, HF.contacts, HF.pais⟩, hpnc, rfl, ?_, (fun hh => by cases hh), Or.inr (by unfold HState.isVal; simp), hrange, ?_, ?_, hS.2.2, ?_⟩
      · show (if (e1 == Err.ok) = true then f1.sVal else h.val).inside b.size
        split
        · exact hS.1.1
        · exact hval
      · intro he; subst he
        obtain ⟨r1, r2⟩ := hrange (Or.inl rfl)
        have Hm := H.mono r1 r2
        exact ⟨Hm.from_, Hm.to, Hm.callid, Hm.cseq, hS.2.1 (by intro hh; cases hh), Hm.expires, (fun hh => by cases hh), fun _ => Hm.ctI hn1, (fun hh => by cases hh), fun _ => Hm.paI hn2, Hm.ctIn, Hm.paIn⟩
      · intro he; subst he
        obtain ⟨r1, r2⟩ := hrange (Or.inr rfl)
        have Hm := H.mono r1 r2
        show HvSafe b n1 HState.hCLen _
        exact ⟨Hm.from_, Hm.to, Hm.callid, Hm.cseq, hS.2.1 (by intro hh; cases hh), Hm.expires, (fun hh => by cases hh), fun _ => Hm.ctI hn1, (fun hh => by cases hh), fun _ => Hm.paI hn2, Hm.ctIn, Hm.paIn⟩
      · intro he
        rcases he with rfl | rfl
        · show f1.sVal.inside n1
          exact (hS.2.1 (by intro hh; cases hh)).fld
        · show h.val.inside n1
          exact PField.inside_mono hvalI (hrange (Or.inr rfl)).1
    · simp only [hp, Bool.false_eq_true, ↓reduceIte] at hr
      exact hskip hr
  simp only [h_clen, Bool.false_eq_true, ↓reduceIte] at hr
  by_cases h_contacts : (h.type == HdrContact) = true
  · simp only [h_contacts, ↓reduceIte] at hr
    have hc0 : (if h.state != .hContact then { hv.contacts with hNo := hv.contacts.hNo + 1, lastHVal := {} } else hv.contacts) =
        { hv.contacts with hNo := hv.contacts.hNo + 1, lastHVal := {} } := by rw [hst]; rfl
    rw [hc0] at hr
    have hS := parseAllContactValues_safe_new b o hv.contacts (hv.contacts.hNo + 1) hfit ho (H.ctI hn1) H.ctIn
    rcases hq : parseAllContactValues b o { hv.contacts with hNo := hv.contacts.hNo + 1, lastHVal := {} } with ⟨n1, e1, f1⟩
    rw [hq] at hr hS; simp only [Prod.mk.injEq] at hr
    obtain ⟨rfl, rfl, rfl, rfl⟩ := hr
    refine ⟨_, rfl, ⟨HF.from_, HF.to, HF.callid, HF.cseq, HF.clen, HF.expires, hS.1, HF.pais⟩, hpnc, rfl, ?_, (fun hh => by cases hh), Or.inr (by unfold HState.isVal; simp), hrange, ?_, ?_, hS.2.2.2, ?_⟩
    · show (if (e1 == Err.ok) = true then f1.lastHVal else h.val).inside b.size
      split
      · exact hS.1.lhv
      · exact hval
    · intro he; subst he
      obtain ⟨r1, r2⟩ := hrange (Or.inl rfl)
      have Hm := H.mono r1 r2
      exact ⟨Hm.from_, Hm.to, Hm.callid, Hm.cseq, Hm.clen, Hm.expires, (fun hh => by cases hh), fun _ => (hS.2.2.1 rfl).1, (fun hh => by cases hh), fun _ => Hm.paI hn2, (hS.2.2.1 rfl).2.2, Hm.paIn⟩
    · intro he; subst he
      obtain ⟨r1, r2⟩ := hrange (Or.inr rfl)
      have Hm := H.mono r1 r2
      show HvSafe b n1 HState.hContact _
      exact ⟨Hm.from_, Hm.to, Hm.callid, Hm.cseq, Hm.clen, Hm.expires, fun _ => hS.2.1 rfl, fun hh => absurd rfl hh, (fun hh => by cases hh), fun _ => Hm.paI hn2, (hS.2.1 rfl).inn, Hm.paIn⟩
    · intro he
      rcases he with rfl | rfl
      · show f1.lastHVal.inside n1
        exact (hS.2.2.1 rfl).2.2.lhv
      · show h.val.inside n1
        exact PField.inside_mono hvalI (hrange (Or.inr rfl)).1
  simp only [h_contacts, Bool.false_eq_true, ↓reduceIte] at hr
  by_cases h_expires : (h.type == HdrExpires) = true
  · simp only [h_expires, ↓reduceIte] at hr
    by_cases hp : (!hv.expires.parsed) = true
    · simp only [hp, ↓reduceIte] at hr
      rcases hq : parseUIntVal b o hv.expires with ⟨n1, e1, f1⟩
      rw [hq] at hr; simp only [Prod.mk.injEq] at hr
      obtain ⟨rfl, rfl, rfl, rfl⟩ := hr
      have hS := parseUIntVal_safe b o hv.expires H.expires
      rw [hq] at hS
      refine ⟨_, rfl, ⟨HF.from_, HF.to, HF.callid, HF.cseq, HF.clen, hS.out, HF.contacts, HF.pais⟩, hpnc, rfl, ?_, (fun hh => by cases hh), Or.inr (by unfold HState.isVal; simp), hrange, ?_, ?_, hS.hi, ?_⟩
      · show (if (e1 == Err.ok) = true then f1.sVal else h.val).inside b.size
        split
        · exact PField.inside_mono hS.fld hS.hi
        · exact hval
      · intro he; subst he
        obtain ⟨r1, r2⟩ := hrange (Or.inl rfl)
        have Hm := H.mono r1 r2
        exact ⟨Hm.from_, Hm.to, Hm.callid, Hm.cseq, Hm.clen, hS, (fun hh => by cases hh), fun _ => Hm.ctI hn1, (fun hh => by cases hh), fun _ => Hm.paI hn2, Hm.ctIn, Hm.paIn⟩
      · intro he; subst he
        obtain ⟨r1, r2⟩ := hrange (Or.inr rfl)
        have Hm := H.mono r1 r2
        show HvSafe b n1 HState.hExpires _
        exact ⟨Hm.from_, Hm.to, Hm.callid, Hm.cseq, Hm.clen, hS, (fun hh => by cases hh), fun _ => Hm.ctI hn1, (fun hh => by cases hh), fun _ => Hm.paI hn2, Hm.ctIn, Hm.paIn⟩
      · intro he
        rcases he with rfl | rfl
        · show f1.sVal.inside n1
          exact hS.fld
        · show h.val.inside n1
          exact PField.inside_mono hvalI (hrange (Or.inr rfl)).1
    · simp only [hp, Bool.false_eq_true, ↓reduceIte] at hr
      exact hskip hr
  simp only [h_expires, Bool.false_eq_true, ↓reduceIte] at hr
  by_cases h_pais : (h.type == HdrPAI) = true
  · simp only [h_pais, ↓reduceIte] at hr
    have hc0 : (if h.state != .hPAI then { hv.pais with hNo := hv.pais.hNo + 1, lastHVal := {} } else hv.pais) =
        { hv.pais with hNo := hv.pais.hNo + 1, lastHVal := {} } := by rw [hst]; rfl
    rw [hc0] at hr
    have hS := parseAllPAIValues_safe_new b o hv.pais (hv.pais.hNo + 1) hfit ho (H.paI hn2) H.paIn
    rcases hq : parseAllPAIValues b o { hv.pais with hNo := hv.pais.hNo + 1, lastHVal := {} } with ⟨n1, e1, f1⟩
    rw [hq] at hr hS; simp only [Prod.mk.injEq] at hr
    obtain ⟨rfl, rfl, rfl, rfl⟩ := hr
    refine ⟨_, rfl, ⟨HF.from_, HF.to, HF.callid, HF.cseq, HF.clen, HF.expires, HF.contacts, hS.1⟩, hpnc, rfl, ?_, (fun hh => by cases hh), Or.inr (by unfold HState.isVal; simp), hrange, ?_, ?_, hS.2.2.2, ?_⟩
    · show (if (e1 == Err.ok) = true then f1.lastHVal else h.val).inside b.size
      split
      · exact hS.1.lhv
      · exact hval
    · intro he; subst he
      obtain ⟨r1, r2⟩ := hrange (Or.inl rfl)
      have Hm := H.mono r1 r2
      exact ⟨Hm.from_, Hm.to, Hm.callid, Hm.cseq, Hm.clen, Hm.expires, (fun hh => by cases hh), fun _ => Hm.ctI hn1, (fun hh => by cases hh), fun _ => (hS.2.2.1 rfl).1, Hm.ctIn, (hS.2.2.1 rfl).2.2⟩
    · intro he; subst he
      obtain ⟨r1, r2⟩ := hrange (Or.inr rfl)
      have Hm := H.mono r1 r2
      show HvSafe b n1 HState.hPAI _
      exact ⟨Hm.from_, Hm.to, Hm.callid, Hm.cseq, Hm.clen, Hm.expires, (fun hh => by cases hh), fun _ => Hm.ctI hn1, fun _ => hS.2.1 rfl, fun hh => absurd rfl hh, Hm.ctIn, (hS.2.1 rfl).inn⟩
    · intro he
      rcases he with rfl | rfl
      · show f1.lastHVal.inside n1
        exact (hS.2.2.1 rfl).2.2.lhv
      · show h.val.inside n1
        exact PField.inside_mono hvalI (hrange (Or.inr rfl)).1
  simp only [h_pais, Bool.false_eq_true, ↓reduceIte] at hr
  exact hskip hr

/-- **continuing a suspended header-specific value parser never panics** -/
theorem hlCont_safe (b : Buf) (o : Nat) (h : Hdr) (hv : PHdrVals) (ho : o ≤ b.size) (hfit : b.size ≤ 65535)
    (hok : hvOK b o hv) (H : HvSafe b o h.state hv) (hisv : h.state.isVal) (hpnc : h.pnc = false)
    (hname : h.name.inside b.size) (hval : h.val.inside b.size) (hvalI : h.val.inside o) {n : Nat} {e : Err}
    {st' : HLσ}
    (hs : hlCont b o h (some hv) = .done n e st') :
    ∃ hv2, st'.2 = some hv2 ∧ HvFine b hv2 ∧ st'.1.pnc = false ∧ st'.1.name = h.name ∧ st'.1.val.inside b.size ∧
      ((e = .ok ∨ e = .moreBytes) → o ≤ n ∧ n ≤ b.size) ∧
      (e = .ok → st'.1.state = .fin ∧ HvSafe b n .fin hv2) ∧
      (e = .moreBytes → st'.1.state = h.state ∧ HvSafe b n h.state hv2) ∧ n ≤ b.size ∧
      ((e = .ok ∨ e = .moreBytes) → st'.1.val.inside n) := by
  have hmore : e = .moreBytes → o ≤ n ∧ n ≤ b.size := by
    intro he
    subst he
    have := hlCont_restart b #[] o h (some hv) ho hok hs; exact ⟨this.2.2.1, this.2.2.2.1⟩
  have HF := H.fine
  unfold hlCont parseFromVal at hs
  simp only at hs
  cases hst : h.state <;> simp only [hst] at hs H
  case init | name | nameEnd | bodyStart | val | valEnd | fin =>
    rw [hst] at hisv; unfold HState.isVal at hisv; simp at hisv
  case hFrom =>
    have hn1 : HState.hFrom ≠ .hContact := by decide
    have hn2 : HState.hFrom ≠ .hPAI := by decide
    rcases hq : parseNameAddrPVal HdrFrom b o hv.from_ with ⟨n1, e1, f1⟩
    rw [hq] at hs; simp only [Step.done.injEq] at hs
    obtain ⟨rfl, rfl, rfl⟩ := hs
    have hrange : (e1 = .ok ∨ e1 = .moreBytes) → o ≤ n1 ∧ n1 ≤ b.size :=
      fun he => he.elim (fun he => by subst he; exact ⟨(naPVal_ok_range HdrFrom b o hv.from_ ho hq (Or.inl rfl)).2.1, (naPVal_ok_range HdrFrom b o hv.from_ ho hq (Or.inl rfl)).2.2⟩) hmore
    have hS := parseNameAddrPVal_safe HdrFrom b o hv.from_ H.from_ hq
    refine ⟨_, rfl, ⟨hS.1.fine, HF.to, HF.callid, HF.cseq, HF.clen, HF.expires, HF.contacts, HF.pais⟩, ?_, ?_, ?_, hrange, ?_, ?_, hS.1.ho, ?_⟩
    · show (if (e1 == Err.ok) = true then { h with val := f1.v, state := HState.fin } else h).pnc = false
      split <;> exact hpnc
    · show (if (e1 == Err.ok) = true then { h with val := f1.v, state := HState.fin } else h).name = h.name
      split <;> rfl
    · show (if (e1 == Err.ok) = true then { h with val := f1.v, state := HState.fin } else h).val.inside b.size
      split
      · exact PField.inside_mono hS.1.v hS.1.ho
      · exact hval
    · intro he; subst he
      obtain ⟨r1, r2⟩ := hrange (Or.inl rfl)
      have Hm := H.mono r1 r2
      exact ⟨rfl, ⟨Or.inl ⟨(naPVal_ok_range HdrFrom b o hv.from_ ho hq (Or.inl rfl)).1, hS.1⟩, Hm.to, Hm.callid, Hm.cseq, Hm.clen, Hm.expires, (fun hh => by cases hh), fun _ => Hm.ctI hn1, (fun hh => by cases hh), fun _ => Hm.paI hn2, Hm.ctIn, Hm.paIn⟩⟩
    · intro he; subst he
      obtain ⟨r1, r2⟩ := hrange (Or.inr rfl)
      have Hm := H.mono r1 r2
      exact ⟨(by show h.state = _; exact hst), ⟨hS.2 rfl, Hm.to, Hm.callid, Hm.cseq, Hm.clen, Hm.expires, (fun hh => by cases hh), fun _ => Hm.ctI hn1, (fun hh => by cases hh), fun _ => Hm.paI hn2, Hm.ctIn, Hm.paIn⟩⟩
    · intro he
      rcases he with rfl | rfl
      · show f1.v.inside n1
        exact hS.1.v
      · show h.val.inside n1
        exact PField.inside_mono hvalI (hrange (Or.inr rfl)).1
  case hTo =>
    have hn1 : HState.hTo ≠ .hContact := by decide
    have hn2 : HState.hTo ≠ .hPAI := by decide
    rcases hq : parseNameAddrPVal HdrTo b o hv.to with ⟨n1, e1, f1⟩
    rw [hq] at hs; simp only [Step.done.injEq] at hs
    obtain ⟨rfl, rfl, rfl⟩ := hs
    have hrange : (e1 = .ok ∨ e1 = .moreBytes) → o ≤ n1 ∧ n1 ≤ b.size :=
      fun he => he.elim (fun he => by subst he; exact ⟨(naPVal_ok_range HdrTo b o hv.to ho hq (Or.inl rfl)).2.1, (naPVal_ok_range HdrTo b o hv.to ho hq (Or.inl rfl)).2.2⟩) hmore
    have hS := parseNameAddrPVal_safe HdrTo b o hv.to H.to hq
    refine ⟨_, rfl, ⟨HF.from_, hS.1.fine, HF.callid, HF.cseq, HF.clen, HF.expires, HF.contacts, HF.pais⟩, ?_, ?_, ?_, hrange, ?_, ?_, hS.1.ho, ?_⟩
    · show (if (e1 == Err.ok) = true then { h with val := f1.v, state := HState.fin } else h).pnc = false
      split <;> exact hpnc
    · show (if (e1 == Err.ok) = true then { h with val := f1.v, state := HState.fin } else h).name = h.name
      split <;> rfl
    · show (if (e1 == Err.ok) = true then { h with val := f1.v, state := HState.fin } else h).val.inside b.size
      split
      · exact PField.inside_mono hS.1.v hS.1.ho
      · exact hval
    · intro he; subst he
      obtain ⟨r1, r2⟩ := hrange (Or.inl rfl)
      have Hm := H.mono r1 r2
      exact ⟨rfl, ⟨Hm.from_, Or.inl ⟨(naPVal_ok_range HdrTo b o hv.to ho hq (Or.inl rfl)).1, hS.1⟩, Hm.callid, Hm.cseq, Hm.clen, Hm.expires, (fun hh => by cases hh), fun _ => Hm.ctI hn1, (fun hh => by cases hh), fun _ => Hm.paI hn2, Hm.ctIn, Hm.paIn⟩⟩
    · intro he; subst he
      obtain ⟨r1, r2⟩ := hrange (Or.inr rfl)
      have Hm := H.mono r1 r2
      exact ⟨(by show h.state = _; exact hst), ⟨Hm.from_, hS.2 rfl, Hm.callid, Hm.cseq, Hm.clen, Hm.expires, (fun hh => by cases hh), fun _ => Hm.ctI hn1, (fun hh => by cases hh), fun _ => Hm.paI hn2, Hm.ctIn, Hm.paIn⟩⟩
    · intro he
      rcases he with rfl | rfl
      · show f1.v.inside n1
        exact hS.1.v
      · show h.val.inside n1
        exact PField.inside_mono hvalI (hrange (Or.inr rfl)).1
  case hCallID =>
    have hn1 : HState.hCallID ≠ .hContact := by decide
    have hn2 : HState.hCallID ≠ .hPAI := by decide
    rcases hq : parseCallIDVal b o hv.callid with ⟨n1, e1, f1⟩
    rw [hq] at hs; simp only [Step.done.injEq] at hs
    obtain ⟨rfl, rfl, rfl⟩ := hs
    have hrange : (e1 = .ok ∨ e1 = .moreBytes) → o ≤ n1 ∧ n1 ≤ b.size :=
      fun he => he.elim (fun he => by subst he; exact ⟨(parseCallIDVal_post b o hv.callid ho hq).1, (parseCallIDVal_post b o hv.callid ho hq).2.1⟩) hmore
    have hS := parseCallIDVal_safe b o hv.callid H.callid
    rw [hq] at hS
    refine ⟨_, rfl, ⟨HF.from_, HF.to, ⟨PField.inside_mono hS.fld hS.hi, hS.pnc⟩, HF.cseq, HF.clen, HF.expires, HF.contacts, HF.pais⟩, ?_, ?_, ?_, hrange, ?_, ?_, hS.hi, ?_⟩
    · show (if (e1 == Err.ok) = true then { h with val := f1.callID, state := HState.fin } else h).pnc = false
      split <;> exact hpnc
    · show (if (e1 == Err.ok) = true then { h with val := f1.callID, state := HState.fin } else h).name = h.name
      split <;> rfl
    · show (if (e1 == Err.ok) = true then { h with val := f1.callID, state := HState.fin } else h).val.inside b.size
      split
      · exact PField.inside_mono hS.fld hS.hi
      · exact hval
    · intro he; subst he
      obtain ⟨r1, r2⟩ := hrange (Or.inl rfl)
      have Hm := H.mono r1 r2
      exact ⟨rfl, ⟨Hm.from_, Hm.to, hS, Hm.cseq, Hm.clen, Hm.expires, (fun hh => by cases hh), fun _ => Hm.ctI hn1, (fun hh => by cases hh), fun _ => Hm.paI hn2, Hm.ctIn, Hm.paIn⟩⟩
    · intro he; subst he
      obtain ⟨r1, r2⟩ := hrange (Or.inr rfl)
      have Hm := H.mono r1 r2
      exact ⟨(by show h.state = _; exact hst), ⟨Hm.from_, Hm.to, hS, Hm.cseq, Hm.clen, Hm.expires, (fun hh => by cases hh), fun _ => Hm.ctI hn1, (fun hh => by cases hh), fun _ => Hm.paI hn2, Hm.ctIn, Hm.paIn⟩⟩
    · intro he
      rcases he with rfl | rfl
      · show f1.callID.inside n1
        exact hS.fld
      · show h.val.inside n1
        exact PField.inside_mono hvalI (hrange (Or.inr rfl)).1
  case hCSeq =>
    have hn1 : HState.hCSeq ≠ .hContact := by decide
    have hn2 : HState.hCSeq ≠ .hPAI := by decide
    rcases hq : parseCSeqVal b o hv.cseq with ⟨n1, e1, f1⟩
    rw [hq] at hs; simp only [Step.done.injEq] at hs
    obtain ⟨rfl, rfl, rfl⟩ := hs
    have hrange : (e1 = .ok ∨ e1 = .moreBytes) → o ≤ n1 ∧ n1 ≤ b.size :=
      fun he => he.elim (fun he => by subst he; exact ⟨(parseCSeqVal_post b o hv.cseq ho hq).1, (parseCSeqVal_post b o hv.cseq ho hq).2.1⟩) hmore
    have hS := parseCSeqVal_safe b o hv.cseq hfit H.cseq
    rw [hq] at hS
    refine ⟨_, rfl, ⟨HF.from_, HF.to, HF.callid, hS.1, HF.clen, HF.expires, HF.contacts, HF.pais⟩, ?_, ?_, ?_, hrange, ?_, ?_, hS.2.1, ?_⟩
    · show (if (e1 == Err.ok) = true then { h with val := f1.v, state := HState.fin } else h).pnc = false
      split <;> exact hpnc
    · show (if (e1 == Err.ok) = true then { h with val := f1.v, state := HState.fin } else h).name = h.name
      split <;> rfl
    · show (if (e1 == Err.ok) = true then { h with val := f1.v, state := HState.fin } else h).val.inside b.size
      split
      · exact hS.1.2.2.1
      · exact hval
    · intro he; subst he
      obtain ⟨r1, r2⟩ := hrange (Or.inl rfl)
      have Hm := H.mono r1 r2
      exact ⟨rfl, ⟨Hm.from_, Hm.to, Hm.callid, hS.2.2 (by intro hh; cases hh), Hm.clen, Hm.expires, (fun hh => by cases hh), fun _ => Hm.ctI hn1, (fun hh => by cases hh), fun _ => Hm.paI hn2, Hm.ctIn, Hm.paIn⟩⟩
    · intro he; subst he
      obtain ⟨r1, r2⟩ := hrange (Or.inr rfl)
      have Hm := H.mono r1 r2
      exact ⟨(by show h.state = _; exact hst), ⟨Hm.from_, Hm.to, Hm.callid, hS.2.2 (by intro hh; cases hh), Hm.clen, Hm.expires, (fun hh => by cases hh), fun _ => Hm.ctI hn1, (fun hh => by cases hh), fun _ => Hm.paI hn2, Hm.ctIn, Hm.paIn⟩⟩
    · intro he
      rcases he with rfl | rfl
      · show f1.v.inside n1
        exact (hS.2.2 (by intro hh; cases hh)).v
      · show h.val.inside n1
        exact PField.inside_mono hvalI (hrange (Or.inr rfl)).1
  case hCLen =>
    have hn1 : HState.hCLen ≠ .hContact := by decide
    have hn2 : HState.hCLen ≠ .hPAI := by decide
    rcases hq : parseCLenVal b o hv.clen with ⟨n1, e1, f1⟩
    rw [hq] at hs; simp only [Step.done.injEq] at hs
    obtain ⟨rfl, rfl, rfl⟩ := hs
    have hrange : (e1 = .ok ∨ e1 = .moreBytes) → o ≤ n1 ∧ n1 ≤ b.size :=
      fun he => he.elim (fun he => by subst he; exact ⟨(parseCLenVal_post b o hv.clen ho hq).1, (parseCLenVal_post b o hv.clen ho hq).2.1⟩) hmore
    have hS := parseCLenVal_safe b o hv.clen H.clen
    rw [hq] at hS
    refine ⟨_, rfl, ⟨HF.from_, HF.to, HF.callid, HF.cseq, hS.1, HF.expires, HF.contacts, HF.pais⟩, ?_, ?_, ?_, hrange, ?_, ?_, hS.2.2, ?_⟩
    · show (if (e1 == Err.ok) = true then { h with val := f1.sVal, state := HState.fin } else h).pnc = false
      split <;> exact hpnc
    · show (if (e1 == Err.ok) = true then { h with val := f1.sVal, state := HState.fin } else h).name = h.name
      split <;> rfl
    · show (if (e1 == Err.ok) = true then { h with val := f1.sVal, state := HState.fin } else h).val.inside b.size
      split
      · exact hS.1.1
      · exact hval
    · intro he; subst he
      obtain ⟨r1, r2⟩ := hrange (Or.inl rfl)
      have Hm := H.mono r1 r2
      exact ⟨rfl, ⟨Hm.from_, Hm.to, Hm.callid, Hm.cseq, hS.2.1 (by intro hh; cases hh), Hm.expires, (fun hh => by cases hh), fun _ => Hm.ctI hn1, (fun hh => by cases hh), fun _ => Hm.paI hn2, Hm.ctIn, Hm.paIn⟩⟩
    · intro he; subst he
      obtain ⟨r1, r2⟩ := hrange (Or.inr rfl)
      have Hm := H.mono r1 r2
      exact ⟨(by show h.state = _; exact hst), ⟨Hm.from_, Hm.to, Hm.callid, Hm.cseq, hS.2.1 (by intro hh; cases hh), Hm.expires, (fun hh => by cases hh), fun _ => Hm.ctI hn1, (fun hh => by cases hh), fun _ => Hm.paI hn2, Hm.ctIn, Hm.paIn⟩⟩
    · intro he
      rcases he with rfl | rfl
      · show f1.sVal.inside n1
        exact (hS.2.1 (by intro hh; cases hh)).fld
      · show h.val.inside n1
        exact PField.inside_mono hvalI (hrange (Or.inr rfl)).1
  case hContact =>
    have hn2 : HState.hContact ≠ .hPAI := by decide
    have hS := parseAllContactValues_safe b o hv.contacts hfit (H.ctS rfl)
    rcases hq : parseAllContactValues b o hv.contacts with ⟨n1, e1, f1⟩
    rw [hq] at hs hS; simp only [Step.done.injEq] at hs
    obtain ⟨rfl, rfl, rfl⟩ := hs
    have hrange : (e1 = .ok ∨ e1 = .moreBytes) → o ≤ n1 ∧ n1 ≤ b.size :=
      fun he => he.elim (fun he => by subst he; exact ⟨(parseAllContactValues_post b o hv.contacts hok.2.2.2.1 ho hq).1, (parseAllContactValues_post b o hv.contacts hok.2.2.2.1 ho hq).2.1⟩) hmore
    refine ⟨_, rfl, ⟨HF.from_, HF.to, HF.callid, HF.cseq, HF.clen, HF.expires, hS.1, HF.pais⟩, ?_, ?_, ?_, hrange, ?_, ?_, hS.2.2.2, ?_⟩
    · show (if (e1 == Err.ok) = true then { h with val := f1.lastHVal, state := HState.fin } else h).pnc = false
      split <;> exact hpnc
    · show (if (e1 == Err.ok) = true then { h with val := f1.lastHVal, state := HState.fin } else h).name = h.name
      split <;> rfl
    · show (if (e1 == Err.ok) = true then { h with val := f1.lastHVal, state := HState.fin } else h).val.inside b.size
      split
      · exact hS.1.lhv
      · exact hval
    · intro he; subst he
      obtain ⟨r1, r2⟩ := hrange (Or.inl rfl)
      have Hm := H.mono r1 r2
      exact ⟨rfl, ⟨Hm.from_, Hm.to, Hm.callid, Hm.cseq, Hm.clen, Hm.expires, (fun hh => by cases hh), fun _ => (hS.2.2.1 rfl).1, (fun hh => by cases hh), fun _ => Hm.paI hn2, (hS.2.2.1 rfl).2.2, Hm.paIn⟩⟩
    · intro he; subst he
      obtain ⟨r1, r2⟩ := hrange (Or.inr rfl)
      have Hm := H.mono r1 r2
      exact ⟨(by show h.state = _; exact hst), ⟨Hm.from_, Hm.to, Hm.callid, Hm.cseq, Hm.clen, Hm.expires, fun _ => hS.2.1 rfl, fun hh => absurd rfl hh, (fun hh => by cases hh), fun _ => Hm.paI hn2, (hS.2.1 rfl).inn, Hm.paIn⟩⟩
    · intro he
      rcases he with rfl | rfl
      · show f1.lastHVal.inside n1
        exact (hS.2.2.1 rfl).2.2.lhv
      · show h.val.inside n1
        exact PField.inside_mono hvalI (hrange (Or.inr rfl)).1
  case hExpires =>
    have hn1 : HState.hExpires ≠ .hContact := by decide
    have hn2 : HState.hExpires ≠ .hPAI := by decide
    rcases hq : parseUIntVal b o hv.expires with ⟨n1, e1, f1⟩
    rw [hq] at hs; simp only [Step.done.injEq] at hs
    obtain ⟨rfl, rfl, rfl⟩ := hs
    have hrange : (e1 = .ok ∨ e1 = .moreBytes) → o ≤ n1 ∧ n1 ≤ b.size :=
      fun he => he.elim (fun he => by subst he; exact ⟨(parseUIntVal_post b o hv.expires ho hq).1, (parseUIntVal_post b o hv.expires ho hq).2.1⟩) hmore
    have hS := parseUIntVal_safe b o hv.expires H.expires
    rw [hq] at hS
    refine ⟨_, rfl, ⟨HF.from_, HF.to, HF.callid, HF.cseq, HF.clen, hS.out, HF.contacts, HF.pais⟩, ?_, ?_, ?_, hrange, ?_, ?_, hS.hi, ?_⟩
    · show (if (e1 == Err.ok) = true then { h with val := f1.sVal, state := HState.fin } else h).pnc = false
      split <;> exact hpnc
    · show (if (e1 == Err.ok) = true then { h with val := f1.sVal, state := HState.fin } else h).name = h.name
      split <;> rfl
    · show (if (e1 == Err.ok) = true then { h with val := f1.sVal, state := HState.fin } else h).val.inside b.size
      split
      · exact PField.inside_mono hS.fld hS.hi
      · exact hval
    · intro he; subst he
      obtain ⟨r1, r2⟩ := hrange (Or.inl rfl)
      have Hm := H.mono r1 r2
      exact ⟨rfl, ⟨Hm.from_, Hm.to, Hm.callid, Hm.cseq, Hm.clen, hS, (fun hh => by cases hh), fun _ => Hm.ctI hn1, (fun hh => by cases hh), fun _ => Hm.paI hn2, Hm.ctIn, Hm.paIn⟩⟩
    · intro he; subst he
      obtain ⟨r1, r2⟩ := hrange (Or.inr rfl)
      have Hm := H.mono r1 r2
      exact ⟨(by show h.state = _; exact hst), ⟨Hm.from_, Hm.to, Hm.callid, Hm.cseq, Hm.clen, hS, (fun hh => by cases hh), fun _ => Hm.ctI hn1, (fun hh => by cases hh), fun _ => Hm.paI hn2, Hm.ctIn, Hm.paIn⟩⟩
    · intro he
      rcases he with rfl | rfl
      · show f1.sVal.inside n1
        exact hS.fld
      · show h.val.inside n1
        exact PField.inside_mono hvalI (hrange (Or.inr rfl)).1
  case hPAI =>
    have hn1 : HState.hPAI ≠ .hContact := by decide
    have hS := parseAllPAIValues_safe b o hv.pais hfit (H.paS rfl)
    rcases hq : parseAllPAIValues b o hv.pais with ⟨n1, e1, f1⟩
    rw [hq] at hs hS; simp only [Step.done.injEq] at hs
    obtain ⟨rfl, rfl, rfl⟩ := hs
    have hrange : (e1 = .ok ∨ e1 = .moreBytes) → o ≤ n1 ∧ n1 ≤ b.size :=
      fun he => he.elim (fun he => by subst he; exact ⟨(parseAllPAIValues_post b o hv.pais hok.2.2.2.2 ho hq).1, (parseAllPAIValues_post b o hv.pais hok.2.2.2.2 ho hq).2.1⟩) hmore
    refine ⟨_, rfl, ⟨HF.from_, HF.to, HF.callid, HF.cseq, HF.clen, HF.expires, HF.contacts, hS.1⟩, ?_, ?_, ?_, hrange, ?_, ?_, hS.2.2.2, ?_⟩
    · show (if (e1 == Err.ok) = true then { h with val := f1.lastHVal, state := HState.fin } else h).pnc = false
      split <;> exact hpnc
    · show (if (e1 == Err.ok) = true then { h with val := f1.lastHVal, state := HState.fin } else h).name = h.name
      split <;> rfl
    · show (if (e1 == Err.ok) = true then { h with val := f1.lastHVal, state := HState.fin } else h).val.inside b.size
      split
      · exact hS.1.lhv
      · exact hval
    · intro he; subst he
      obtain ⟨r1, r2⟩ := hrange (Or.inl rfl)
      have Hm := H.mono r1 r2
      exact ⟨rfl, ⟨Hm.from_, Hm.to, Hm.callid, Hm.cseq, Hm.clen, Hm.expires, (fun hh => by cases hh), fun _ => Hm.ctI hn1, (fun hh => by cases hh), fun _ => (hS.2.2.1 rfl).1, Hm.ctIn, (hS.2.2.1 rfl).2.2⟩⟩
    · intro he; subst he
      obtain ⟨r1, r2⟩ := hrange (Or.inr rfl)
      have Hm := H.mono r1 r2
      exact ⟨(by show h.state = _; exact hst), ⟨Hm.from_, Hm.to, Hm.callid, Hm.cseq, Hm.clen, Hm.expires, (fun hh => by cases hh), fun _ => Hm.ctI hn1, fun _ => hS.2.1 rfl, fun hh => absurd rfl hh, Hm.ctIn, (hS.2.1 rfl).inn⟩⟩
    · intro he
      rcases he with rfl | rfl
      · show f1.lastHVal.inside n1
        exact (hS.2.2.1 rfl).2.2.lhv
      · show h.val.inside n1
        exact PField.inside_mono hvalI (hrange (Or.inr rfl)).1


/-! ### the header-line loop -/

/-- loop invariant of ParseHdrLine for panic-freedom -/
structure HlSafe (b : Buf) (i : Nat) (st : HLσ) : Prop where
  hi : i ≤ b.size
  pnc : st.1.pnc = false
  nameF : st.1.name.inside b.size
  nameI : st.1.state = .name → st.1.name.offs ≤ i
  valF : st.1.val.inside b.size
  valI : st.1.state = .val ∨ st.1.state = .valEnd → st.1.val.offs ≤ i
  nn : st.1.state.isVal → st.2 ≠ none
  hv : ∀ hv, st.2 = some hv → HvSafe b i st.1.state hv
  nameIn : st.1.name.inside i
  valIn : st.1.val.inside i

/-- what holds of the header and the values object whatever the verdict: nothing panicked, every field can be
    dereferenced -/
structure HlOut (b : Buf) (st : HLσ) : Prop where
  pnc : st.1.pnc = false
  nameF : st.1.name.inside b.size
  valF : st.1.val.inside b.size
  hv : ∀ hv, st.2 = some hv → HvFine b hv

def HlT (b : Buf) (n : Nat) (e : Err) (st : HLσ) : Prop :=
  HlOut b st ∧ ((e = .ok ∨ e = .moreBytes) → HlSafe b n st) ∧ (e = .ok → st.1.state = .fin) ∧ n ≤ b.size ∧
    (e = .empty → HlSafe b n st)

theorem HlSafe.out {b : Buf} {i : Nat} {st : HLσ} (h : HlSafe b i st) : HlOut b st :=
  ⟨h.pnc, h.nameF, h.valF, fun hv hh => (h.hv hv hh).fine⟩

theorem HlSafe.mono {b : Buf} {i j : Nat} {st : HLσ} (h : HlSafe b i st) (hij : i ≤ j) (hj : j ≤ b.size) :
    HlSafe b j st :=
  ⟨hj, h.pnc, h.nameF, fun hs => by have := h.nameI hs; omega, h.valF, fun hs => by have := h.valI hs; omega, h.nn,
   fun hv hh => (h.hv hv hh).mono hij hj, PField.inside_mono h.nameIn hij, PField.inside_mono h.valIn hij⟩

theorem isVal_hContact {st : HState} (h : ¬ st.isVal) : st ≠ .hContact := by
  intro hh; exact h (by unfold HState.isVal; simp [hh])
theorem isVal_hPAI {st : HState} (h : ¬ st.isVal) : st ≠ .hPAI := by
  intro hh; exact h (by unfold HState.isVal; simp [hh])

/-- replacing the header by another one in a state that is not "inside a value parser" -/
theorem HlSafe.upd {b : Buf} {i j : Nat} {h h' : Hdr} {hb : Option PHdrVals} (H : HlSafe b i (h, hb)) (hij : i ≤ j)
    (hj : j ≤ b.size) (hp : h'.pnc = false) (hn : h'.name.inside b.size) (hnI : h'.state = .name → h'.name.offs ≤ j)
    (hvF : h'.val.inside b.size) (hvI : h'.state = .val ∨ h'.state = .valEnd → h'.val.offs ≤ j)
    (hs1 : ¬ h.state.isVal) (hs2 : ¬ h'.state.isVal) (hnIn : h'.name.inside j) (hvIn : h'.val.inside j) :
    HlSafe b j (h', hb) :=
  ⟨hj, hp, hn, hnI, hvF, hvI, fun hh => absurd hh hs2,
   fun hv hh => ((H.hv hv hh).mono hij hj).restate (isVal_hContact hs1) (isVal_hPAI hs1) (isVal_hContact hs2)
     (isVal_hPAI hs2), hnIn, hvIn⟩

theorem HlT.err {b : Buf} {n : Nat} {e : Err} {st : HLσ} (h : HlOut b st) (h1 : e ≠ .ok) (h2 : e ≠ .moreBytes)
    (hn : n ≤ b.size) (h3 : e ≠ .empty := by decide) :
    HlT b n e st :=
  ⟨h, (fun hh => by rcases hh with hh | hh; exact absurd hh h1; exact absurd hh h2), (fun hh => absurd hh h1), hn,
   fun hh => absurd hh h3⟩

theorem hlAfterColon_ne_empty (b : Buf) (i : Nat) (h : Hdr) (hb : Option PHdrVals) {n : Nat} {st' : HLσ} :
    hlAfterColon b i h hb ≠ .done n .empty st' := by
  unfold hlAfterColon
  split
  · intro hh; cases hh
  · rename_i nm _
    simp only
    have := parseBody_ne_empty b i { h with type := getHdrType nm } hb
    rcases hp : parseBody b i { h with type := getHdrType nm } hb with ⟨n1, e1, h2, hb2⟩
    rw [hp] at this
    simp only
    split
    · intro hh; simp only [Step.done.injEq] at hh; exact this hh.2.1
    · intro hh; cases hh

theorem hlName_ne_empty (b : Buf) (i : Nat) (h : Hdr) (hb : Option PHdrVals) {n : Nat} {st' : HLσ} :
    hlName b i h hb ≠ .done n .empty st' := by
  unfold hlName
  simp only
  split
  · intro hh; cases hh
  · split
    · split <;> (intro hh; cases hh)
    · split
      · split
        · intro hh; cases hh
        · exact hlAfterColon_ne_empty b _ _ hb
      · intro hh; cases hh

theorem hlValEnd_ne_empty (b : Buf) (i : Nat) (h : Hdr) (hb : Option PHdrVals) {n : Nat} {st' : HLσ} :
    hlValEnd b i h hb ≠ .done n .empty st' := by
  unfold hlValEnd
  rcases hsk : skipLWS b i 0 with ⟨n1, crl, e⟩
  have := skipLWS_verdicts b i 0 hsk
  rcases this with rfl | rfl | rfl | rfl <;> simp only <;> (intro hh; cases hh)

theorem hlCont_ne_empty (b : Buf) (i : Nat) (h : Hdr) (hb : Option PHdrVals) {n : Nat} {st' : HLσ} :
    hlCont b i h hb ≠ .done n .empty st' := by
  unfold hlCont parseFromVal
  cases hb with
  | none => intro hh; cases hh
  | some hv =>
    simp only
    cases h.state <;> simp only
    case hFrom =>
      have := parseNameAddrPVal_ne_empty HdrFrom b i hv.from_
      rcases hq : parseNameAddrPVal HdrFrom b i hv.from_ with ⟨n1, e1, f1⟩
      rw [hq] at this; intro hh; simp only [Step.done.injEq] at hh; exact this hh.2.1
    case hTo =>
      have := parseNameAddrPVal_ne_empty HdrTo b i hv.to
      rcases hq : parseNameAddrPVal HdrTo b i hv.to with ⟨n1, e1, f1⟩
      rw [hq] at this; intro hh; simp only [Step.done.injEq] at hh; exact this hh.2.1
    case hCallID =>
      have := parseCallIDVal_ne_empty b i hv.callid
      rcases hq : parseCallIDVal b i hv.callid with ⟨n1, e1, f1⟩
      rw [hq] at this; intro hh; simp only [Step.done.injEq] at hh; exact this hh.2.1
    case hCSeq =>
      have := parseCSeqVal_ne_empty b i hv.cseq
      rcases hq : parseCSeqVal b i hv.cseq with ⟨n1, e1, f1⟩
      rw [hq] at this; intro hh; simp only [Step.done.injEq] at hh; exact this hh.2.1
    case hCLen =>
      have := parseCLenVal_ne_empty b i hv.clen
      rcases hq : parseCLenVal b i hv.clen with ⟨n1, e1, f1⟩
      rw [hq] at this; intro hh; simp only [Step.done.injEq] at hh; exact this hh.2.1
    case hContact =>
      have := parseAllContactValues_ne_empty b i hv.contacts
      rcases hq : parseAllContactValues b i hv.contacts with ⟨n1, e1, f1⟩
      rw [hq] at this; intro hh; simp only [Step.done.injEq] at hh; exact this hh.2.1
    case hExpires =>
      have := parseUIntVal_ne_empty b i hv.expires
      rcases hq : parseUIntVal b i hv.expires with ⟨n1, e1, f1⟩
      rw [hq] at this; intro hh; simp only [Step.done.injEq] at hh; exact this hh.2.1
    case hPAI =>
      have := parseAllPAIValues_ne_empty b i hv.pais
      rcases hq : parseAllPAIValues b i hv.pais with ⟨n1, e1, f1⟩
      rw [hq] at this; intro hh; simp only [Step.done.injEq] at hh; exact this hh.2.1
    all_goals (intro hh; cases hh)

theorem hlAfterColon_safe (b : Buf) (i : Nat) (h : Hdr) (hb : Option PHdrVals) (hfit : b.size ≤ 65535)
    (H : HlSafe b i (h, hb)) (hst : h.state = .bodyStart) (hok : hbOK b i hb) :
    StepAll2 (HlSafe b) (HlT b) (hlAfterColon b i h hb) := by
  have hnv : ¬ h.state.isVal := by rw [hst]; unfold HState.isVal; simp
  unfold hlAfterColon
  obtain ⟨nm, hnm⟩ := field_get?_some b h.name H.nameF hfit
  rw [hnm]
  simp only
  cases hb with
  | none =>
    have : parseBody b i { h with type := getHdrType nm } none = (i, .ok, { h with type := getHdrType nm }, none) := by
      unfold parseBody; rfl
    rw [this]
    have hne : ((({ h with type := getHdrType nm } : Hdr).state != HState.bodyStart) = true) = False := by
      show ((h.state != HState.bodyStart) = true) = False
      rw [hst]; simp
    simp only [hne, ↓reduceIte]
    exact H.upd (Nat.le_refl _) H.hi H.pnc H.nameF (fun hh => by simp [hst] at hh) H.valF
      (fun hh => by simp [hst] at hh) hnv (by unfold HState.isVal; simp [hst]) H.nameIn H.valIn
  | some hv =>
    have Hv : HvSafe b i .bodyStart hv := by have := H.hv hv rfl; rw [hst] at this; exact this
    rcases hp : parseBody b i { h with type := getHdrType nm } (some hv) with ⟨n, e, h2, hb2⟩
    obtain ⟨hv2, rfl, hfine, hpnc2, hname2, hval2, hskip, hstate2, hrange, hokS, hmoreS, hnle, hvalR⟩ :=
      parseBody_safe b i { h with type := getHdrType nm } hv hst H.hi hfit hok Hv H.pnc H.valF H.valIn hp
    simp only
    have hname2' : h2.name = h.name := hname2
    by_cases hs2 : h2.state = .bodyStart
    · obtain ⟨rfl, rfl, rfl, rfl⟩ := hskip hs2
      have hne : ((({ h with type := getHdrType nm } : Hdr).state != HState.bodyStart) = true) = False := by
        show ((h.state != HState.bodyStart) = true) = False
        rw [hst]; simp
      simp only [hne, ↓reduceIte]
      exact H.upd (Nat.le_refl _) H.hi H.pnc H.nameF (fun hh => by simp [hst] at hh) H.valF
        (fun hh => by simp [hst] at hh) hnv (by unfold HState.isVal; simp [hst]) H.nameIn H.valIn
    · have : (h2.state != HState.bodyStart) = true := by simpa using hs2
      simp only [this, ↓reduceIte]
      have hisv : h2.state.isVal := by rcases hstate2 with hh | hh; exact absurd hh hs2; exact hh
      have hnn : h2.state ≠ .name := by intro hh; rw [hh] at hisv; unfold HState.isVal at hisv; simp at hisv
      have hnv1 : h2.state ≠ .val := by intro hh; rw [hh] at hisv; unfold HState.isVal at hisv; simp at hisv
      have hnv2 : h2.state ≠ .valEnd := by intro hh; rw [hh] at hisv; unfold HState.isVal at hisv; simp at hisv
      have hne : e ≠ .empty := by
        have := parseBody_ne_empty b i { h with type := getHdrType nm } (some hv)
        rw [hp] at this; exact this
      refine ⟨⟨?_, ?_, ?_, ?_⟩, ?_, (fun he => by subst he; rfl), hnle, (fun he => absurd he hne)⟩
      · show (if (e == Err.ok) = true then { h2 with state := HState.fin } else h2).pnc = false
        split <;> exact hpnc2
      · show (if (e == Err.ok) = true then { h2 with state := HState.fin } else h2).name.inside b.size
        split <;> (show h2.name.inside b.size; rw [hname2']; exact H.nameF)
      · show (if (e == Err.ok) = true then { h2 with state := HState.fin } else h2).val.inside b.size
        split <;> exact hval2
      · intro hv' hh; cases hh; exact hfine
      · intro he
        obtain ⟨r1, r2⟩ := hrange he
        rcases he with rfl | rfl
        · exact ⟨r2, hpnc2, by show h2.name.inside b.size; rw [hname2']; exact H.nameF, (fun hh => by cases hh), hval2,
            (fun hh => by rcases hh with hh | hh <;> cases hh), (fun _ hh => by cases hh),
            (fun hv' hh => by cases hh; exact hokS rfl),
            (by show h2.name.inside n; rw [hname2']; exact PField.inside_mono H.nameIn r1),
            (by show h2.val.inside n; exact hvalR (Or.inl rfl))⟩
        · exact ⟨r2, hpnc2, by show h2.name.inside b.size; rw [hname2']; exact H.nameF, (fun hh => absurd hh hnn), hval2,
            (fun hh => by rcases hh with hh | hh; exact absurd hh hnv1; exact absurd hh hnv2), (fun _ hh => by cases hh),
            (fun hv' hh => by cases hh; exact hmoreS rfl),
            (by show h2.name.inside n; rw [hname2']; exact PField.inside_mono H.nameIn r1),
            (by show h2.val.inside n; exact hvalR (Or.inr rfl))⟩

theorem not_isVal_of {st : HState}
    (h : st = .init ∨ st = .name ∨ st = .nameEnd ∨ st = .bodyStart ∨ st = .val ∨ st = .valEnd ∨ st = .fin) :
    ¬ st.isVal := by
  unfold HState.isVal
  rcases h with h | h | h | h | h | h | h <;> rw [h] <;> simp

theorem hlName_safe (b : Buf) (i : Nat) (h : Hdr) (hb : Option PHdrVals) (hfit : b.size ≤ 65535)
    (H : HlSafe b i (h, hb)) (hst : h.state = .name) (hok : hbOK b i hb) :
    StepAll2 (HlSafe b) (HlT b) (hlName b i h hb) := by
  have hnv : ¬ h.state.isVal := not_isVal_of (Or.inr (Or.inl hst))
  have hge := skipTokenDelim_ge b i 58
  have hle := skipTokenDelim_le b i 58 H.hi
  have hoffs : h.name.offs ≤ skipTokenDelim b i 58 := by have h0 : h.name.offs ≤ i := H.nameI hst; omega
  unfold hlName
  simp only
  split
  · exact ⟨H.out, (fun _ => H.mono hge hle), (fun hh => by cases hh), hle, (fun hh => by cases hh)⟩
  · rename_i c hj
    have hjl := get?_lt hj
    have hpn : (h.pnc || h.name.extendPanics (skipTokenDelim b i 58)) = false := by
      rw [H.pnc, extendPanics_false h.name _ hoffs]; rfl
    have hins : (h.name.extend (skipTokenDelim b i 58)).inside b.size := extend_inside h.name _ _ hoffs hle
    have hinsI : (h.name.extend (skipTokenDelim b i 58)).inside (skipTokenDelim b i 58 + 1) :=
      extend_inside h.name _ _ hoffs (by omega)
    have hvalI1 : h.val.inside (skipTokenDelim b i 58 + 1) := PField.inside_mono H.valIn (by omega)
    split
    · split
      · exact HlT.err ⟨hpn, hins, H.valF, fun hv hh => (H.hv hv hh).fine⟩ (by decide) (by decide) hle
      · exact H.upd (by omega) (by omega) hpn hins (fun hh => by cases hh) H.valF
          (fun hh => by rcases hh with hh | hh <;> cases hh) hnv (not_isVal_of (Or.inr (Or.inr (Or.inl rfl))))
          hinsI hvalI1
    · split
      · split
        · exact HlT.err ⟨hpn, hins, H.valF, fun hv hh => (H.hv hv hh).fine⟩ (by decide) (by decide) hle
        · exact hlAfterColon_safe b _ _ hb hfit
            (H.upd (by omega) (by omega) hpn hins (fun hh => by cases hh) H.valF
              (fun hh => by rcases hh with hh | hh <;> cases hh) hnv
              (not_isVal_of (Or.inr (Or.inr (Or.inr (Or.inl rfl))))) hinsI hvalI1) rfl
            (hbOK_mono hok (by omega) (by omega))
      · exact HlT.err H.out (by decide) (by decide) hle

theorem hlValEnd_safe (b : Buf) (i : Nat) (h : Hdr) (hb : Option PHdrVals)
    (H : HlSafe b i (h, hb)) (hst : h.state = .valEnd) :
    StepAll2 (HlSafe b) (HlT b) (hlValEnd b i h hb) := by
  have hnv : ¬ h.state.isVal := not_isVal_of (by simp [hst])
  unfold hlValEnd
  rcases hsk : skipLWS b i 0 with ⟨n, crl, e⟩
  have hr := skipLWS_range b i 0 hsk
  have hvo : h.val.offs ≤ i := H.valI (Or.inr hst)
  cases e <;> simp only
  case ok =>
    obtain ⟨_, c, hc, _⟩ := skipLWS_ok b i 0 hsk
    have h1 := get?_lt hc
    exact H.upd (by omega) (by omega) H.pnc H.nameF (fun hh => by cases hh) H.valF (fun _ => by show h.val.offs ≤ n + 1; omega)
      hnv (not_isVal_of (by simp)) (PField.inside_mono H.nameIn (by omega)) (PField.inside_mono H.valIn (by omega))
  case eoh =>
    have := skipLWS_eoh_range b i 0 hsk (by decide)
    exact ⟨⟨H.pnc, H.nameF, H.valF, fun hv hh => (H.hv hv hh).fine⟩, (fun _ =>
      H.upd (by omega) (by omega) H.pnc H.nameF (fun hh => by cases hh) H.valF
        (fun hh => by rcases hh with hh | hh <;> cases hh) hnv (not_isVal_of (by simp))
        (PField.inside_mono H.nameIn (by omega)) (PField.inside_mono H.valIn (by omega))), (fun _ => rfl), (by omega),
      (fun hh => by cases hh)⟩
  case moreBytes => exact ⟨H.out, (fun _ => H.mono hr.1 (hr.2 H.hi)), (fun hh => by cases hh), hr.2 H.hi, (fun hh => by cases hh)⟩
  all_goals first
      | exact HlT.err H.out (by decide) (by decide) (hr.2 H.hi)
      | (exfalso; have hv4 := skipLWS_verdicts b i 0 hsk; simp at hv4)

theorem hlStep_safe (b : Buf) (i : Nat) (c : UInt8) (st : HLσ) (hfit : b.size ≤ 65535) (hb : b[i]? = some c)
    (H : HlSafe b i st) (hI : hlInv b i st) : StepAll2 (HlSafe b) (HlT b) (hlStep b i c st) := by
  obtain ⟨h, hv⟩ := st
  have hok : hbOK b i hv := hI.2.2
  have hlt := get?_lt hb
  unfold hlStep
  simp only
  cases hst : h.state <;> simp only
  case init =>
    have hnv : ¬ h.state.isVal := not_isVal_of (by simp [hst])
    have hfin : HlOut b ({ h with state := .fin }, hv) := ⟨H.pnc, H.nameF, H.valF, fun hv' hh => (H.hv hv' hh).fine⟩
    split
    · split
      · exact ⟨H.out, (fun _ => H), (fun hh => by cases hh), H.hi, (fun hh => by cases hh)⟩
      · rename_i c1 hc1
        have hc1l := get?_lt hc1
        have hfinS : ∀ n, i ≤ n → n ≤ b.size → HlSafe b n ({ h with state := .fin }, hv) := fun n h1 h2 =>
          H.upd h1 h2 H.pnc H.nameF (fun hh => by cases hh) H.valF (fun hh => by rcases hh with hh | hh <;> cases hh) hnv
            (not_isVal_of (by simp)) (PField.inside_mono H.nameIn h1) (PField.inside_mono H.valIn h1)
        split
        · exact ⟨hfin, (fun hh => by rcases hh with hh | hh <;> cases hh), (fun hh => by cases hh), by omega,
            fun _ => hfinS _ (by omega) (by omega)⟩
        · exact ⟨hfin, (fun hh => by rcases hh with hh | hh <;> cases hh), (fun hh => by cases hh), by omega,
            fun _ => hfinS _ (by omega) (by omega)⟩
    · split
      · exact ⟨hfin, (fun hh => by rcases hh with hh | hh <;> cases hh), (fun hh => by cases hh), by omega, fun _ =>
          H.upd (by omega) (by omega) H.pnc H.nameF (fun hh => by cases hh) H.valF
            (fun hh => by rcases hh with hh | hh <;> cases hh) hnv (not_isVal_of (by simp))
            (PField.inside_mono H.nameIn (by omega)) (PField.inside_mono H.valIn (by omega))⟩
      · have hoff : (PField.set i i).offs ≤ i := by
          unfold PField.set trunc16; exact Nat.mod_le _ _
        exact hlName_safe b i _ hv hfit
          (H.upd (Nat.le_refl _) H.hi H.pnc (set_inside i i b.size (Nat.le_refl _) H.hi) (fun _ => hoff) H.valF
            (fun hh => by rcases hh with hh | hh <;> cases hh) hnv (not_isVal_of (by simp))
            (set_inside i i i (Nat.le_refl _) (Nat.le_refl _)) H.valIn) rfl hok
  case name => exact hlName_safe b i h hv hfit H hst hok
  case nameEnd =>
    have hnv : ¬ h.state.isVal := not_isVal_of (by simp [hst])
    have hge := skipWS_ge b i
    have hle := skipWS_le b i H.hi
    split
    · exact ⟨H.out, (fun _ => H.mono hge hle), (fun hh => by cases hh), hle, (fun hh => by cases hh)⟩
    · rename_i c1 hj
      have hjl := get?_lt hj
      split
      · exact hlAfterColon_safe b _ _ hv hfit
          (H.upd (by omega) (by omega) H.pnc H.nameF (fun hh => by cases hh) H.valF
            (fun hh => by rcases hh with hh | hh <;> cases hh) hnv (not_isVal_of (by simp))
            (PField.inside_mono H.nameIn (by omega)) (PField.inside_mono H.valIn (by omega))) rfl
          (hbOK_mono hok (by omega) (by omega))
      · exact HlT.err H.out (by decide) (by decide) hle
  case bodyStart =>
    have hnv : ¬ h.state.isVal := not_isVal_of (by simp [hst])
    rcases hsk : skipLWS b i 0 with ⟨n, crl, e⟩
    have hr := skipLWS_range b i 0 hsk
    cases e <;> simp only
    case ok =>
      obtain ⟨_, c', hc, _⟩ := skipLWS_ok b i 0 hsk
      have h1 := get?_lt hc
      have hoff : (PField.set n n).offs ≤ n + 1 := by
        unfold PField.set trunc16; have := Nat.mod_le n 65536; simp only; omega
      exact H.upd (by omega) (by omega) H.pnc H.nameF (fun hh => by cases hh)
        (set_inside n n b.size (Nat.le_refl _) (by omega)) (fun _ => hoff) hnv (not_isVal_of (by simp))
        (PField.inside_mono H.nameIn (by omega)) (set_inside n n (n + 1) (Nat.le_refl _) (by omega))
    case eoh =>
      have := skipLWS_eoh_range b i 0 hsk (by decide)
      exact ⟨⟨H.pnc, H.nameF, H.valF, fun hv' hh => (H.hv hv' hh).fine⟩, (fun _ =>
        H.upd (by omega) (by omega) H.pnc H.nameF (fun hh => by cases hh) H.valF
          (fun hh => by rcases hh with hh | hh <;> cases hh) hnv (not_isVal_of (by simp))
          (PField.inside_mono H.nameIn (by omega)) (PField.inside_mono H.valIn (by omega))), (fun _ => rfl), (by omega),
      (fun hh => by cases hh)⟩
    case moreBytes => exact ⟨H.out, (fun _ => H.mono hr.1 (hr.2 H.hi)), (fun hh => by cases hh), hr.2 H.hi, (fun hh => by cases hh)⟩
    all_goals first
      | exact HlT.err H.out (by decide) (by decide) (hr.2 H.hi)
      | (exfalso; have hv4 := skipLWS_verdicts b i 0 hsk; simp at hv4)
  case val =>
    have hnv : ¬ h.state.isVal := not_isVal_of (by simp [hst])
    have hge := skipToken_ge b i
    have hle := skipToken_le b i H.hi
    have hvo : h.val.offs ≤ i := H.valI (Or.inl hst)
    have hoffs : h.val.offs ≤ skipToken b i := by omega
    split
    · exact ⟨H.out, (fun _ => H.mono hge hle), (fun hh => by cases hh), hle, (fun hh => by cases hh)⟩
    · have hpn : (h.pnc || h.val.extendPanics (skipToken b i)) = false := by
        rw [H.pnc, extendPanics_false h.val _ hoffs]; rfl
      exact hlValEnd_safe b _ _ hv
        (H.upd hge hle hpn H.nameF (fun hh => by cases hh) (extend_inside h.val _ _ hoffs hle)
          (fun _ => by show (h.val.extend (skipToken b i)).offs ≤ _; unfold PField.extend; exact hoffs) hnv
          (not_isVal_of (by simp)) (PField.inside_mono H.nameIn hge) (extend_inside h.val _ _ hoffs (Nat.le_refl _))) rfl
  case valEnd => exact hlValEnd_safe b i h hv H hst
  case fin => exact HlT.err H.out (by decide) (by decide) H.hi
  all_goals
    (have hisv : h.state.isVal := by rw [hst]; unfold HState.isVal; simp
     cases hv with
     | none => exact absurd rfl (H.nn hisv)
     | some v =>
       have Hv := H.hv v rfl
       rcases hc : hlCont b i h (some v) with ⟨i', st'⟩ | ⟨n, e, st'⟩
       · exfalso
         unfold hlCont at hc
         simp only [hst] at hc
         first | cases hc | (split at hc; cases hc)
       · obtain ⟨hv2, h2eq, hfine, hpnc2, hname2, hval2, hrange, hokS, hmoreS, hnle, hvalR⟩ :=
           hlCont_safe b i h v H.hi hfit hok Hv hisv H.pnc H.nameF H.valF H.valIn hc
         have hnF : st'.1.name.inside b.size := by rw [hname2]; exact H.nameF
         refine ⟨⟨hpnc2, hnF, hval2, fun hv' hh => by rw [h2eq] at hh; cases hh; exact hfine⟩, ?_, (fun he => (hokS he).1), hnle,
           (fun he => by subst he; exact absurd hc (hlCont_ne_empty b i h (some v)))⟩
         intro he
         obtain ⟨r1, r2⟩ := hrange he
         rcases he with rfl | rfl
         · obtain ⟨hs', HS⟩ := hokS rfl
           exact ⟨r2, hpnc2, hnF, (fun hh => by rw [hs'] at hh; cases hh), hval2,
             (fun hh => by rw [hs'] at hh; rcases hh with hh | hh <;> cases hh),
             (fun _ => by rw [h2eq]; exact fun hh => by cases hh),
             (fun hv' hh => by rw [h2eq] at hh; cases hh; rw [hs']; exact HS),
             (by rw [hname2]; exact PField.inside_mono H.nameIn r1), hvalR (by first | exact Or.inl rfl | exact Or.inr rfl)⟩
         · obtain ⟨hs', HS⟩ := hmoreS rfl
           exact ⟨r2, hpnc2, hnF, (fun hh => by rw [hs', hst] at hh; cases hh), hval2,
             (fun hh => by rw [hs', hst] at hh; rcases hh with hh | hh <;> cases hh),
             (fun _ => by rw [h2eq]; exact fun hh => by cases hh),
             (fun hv' hh => by rw [h2eq] at hh; cases hh; rw [hs']; exact HS),
             (by rw [hname2]; exact PField.inside_mono H.nameIn r1), hvalR (by first | exact Or.inl rfl | exact Or.inr rfl)⟩)

/-- **ParseHdrLine never panics** (buffers up to the documented 65,535-byte limit): whatever the verdict the header's
    name and value and every field of the values object can be dereferenced; after OK / MoreBytes the pair is again
    legitimate at the returned offset -/
theorem parseHdrLine_safe (b : Buf) (o : Nat) (h : Hdr) (hb : Option PHdrVals) (hfit : b.size ≤ 65535)
    (H : HlSafe b o (h, hb)) (hI : hlOK b o h hb) {o' : Nat} {e : Err} {h' : Hdr} {hb' : Option PHdrVals}
    (hr : parseHdrLine b o h hb = (o', e, h', hb')) :
    HlOut b (h', hb') ∧ ((e = .ok ∨ e = .moreBytes) → HlSafe b o' (h', hb')) ∧ (e = .ok → h'.state = .fin) ∧
      o' ≤ b.size ∧ (e = .empty → HlSafe b o' (h', hb')) := by
  unfold parseHdrLine at hr
  rcases hrl : runLoop hlMachine b o (h, hb) with ⟨o1, e1, h1, hb1⟩
  rw [hrl] at hr
  simp only [Prod.mk.injEq] at hr
  obtain ⟨rfl, rfl, rfl, rfl⟩ := hr
  have := runLoop_safe2 hlMachine b (fun i st => HlSafe b i st ∧ hlInv b i st) (HlT b) hl_progress
    (by
      intro i c st hb' hS
      have h1 := hlStep_safe b i c st hfit hb' hS.1 hS.2
      change StepAll2 _ _ (hlStep b i c st)
      rcases hc : hlStep b i c st with ⟨i', st'⟩ | ⟨n, e, st'⟩
      · rw [hc] at h1
        exact ⟨h1, hl_invCont b i c st i' st' hb' hS.2 hc (hl_progress b i c st i' st' hb' hc)⟩
      · rw [hc] at h1; exact h1)
    (fun i st hS => ⟨hS.1.out, (fun _ => hS.1), (fun hh => by cases hh), hS.1.hi, (fun hh => by cases hh)⟩) o (h, hb) ⟨H, hI⟩
  rw [hrl] at this
  exact this

theorem HlSafe_new (b : Buf) (o : Nat) (hb : Option PHdrVals) (ho : o ≤ b.size)
    (hv : ∀ hv, hb = some hv → HvSafe b o .init hv) : HlSafe b o ({}, hb) :=
  ⟨ho, rfl, PField.inside_zero _, (fun hh => by cases hh), PField.inside_zero _,
   (fun hh => by rcases hh with hh | hh <;> cases hh), (fun hh => by unfold HState.isVal at hh; simp at hh), hv,
   PField.inside_zero _, PField.inside_zero _⟩

theorem HvSafe_new (b : Buf) (o : Nat) (ho : o ≤ b.size) (k : Nat) :
    HvSafe b o .init ({ contacts := { vals := Array.replicate k {} } } : PHdrVals) :=
  ⟨NaEntry_new b o ho, NaEntry_new b o ho, ⟨ho, Nat.zero_le _, PField.inside_zero _, rfl⟩,
   ⟨ho, Nat.zero_le _, PField.inside_zero _, PField.inside_zero _, PField.inside_zero _, rfl⟩,
   ⟨ho, Nat.zero_le _, PField.inside_zero _, rfl⟩, ⟨ho, Nat.zero_le _, PField.inside_zero _, rfl⟩,
   (fun hh => by cases hh), (fun _ => CtIdle_new b k), (fun hh => by cases hh), (fun _ => PaIdle_new b), CtIn_new b o ho k, PaIn_new b o ho⟩

end Sipsp
