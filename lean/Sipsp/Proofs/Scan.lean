/-
  Sipsp.Proofs.Scan — skipTokenDelim and skipWS: equations, stability under extension, restart.
-/
import Sipsp.Proofs.FLine

namespace Sipsp

theorem skipTokenDelim_eq_self {b : Buf} {i : Nat} {c d : UInt8} (hb : b[i]? = some c)
    (hl : (isLWSch c || c == d) = true) : skipTokenDelim b i d = i := by
  rw [skipTokenDelim]; split
  · rename_i h; rw [hb] at h
  · rename_i c' h; rw [hb] at h; cases h; rw [if_pos hl]

theorem skipTokenDelim_step {b : Buf} {i : Nat} {c d : UInt8} (hb : b[i]? = some c)
    (hl : (isLWSch c || c == d) = false) : skipTokenDelim b i d = skipTokenDelim b (i + 1) d := by
  conv => lhs; rw [skipTokenDelim]
  split
  · rename_i h; rw [hb] at h; cases h
  · rename_i c' h; rw [hb] at h; cases h; simp only [hl, Bool.false_eq_true, ↓reduceIte]

theorem skipTokenDelim_none {b : Buf} {i : Nat} {d : UInt8} (hb : b[i]? = none) : skipTokenDelim b i d = i := by
  rw [skipTokenDelim]; split
  · rfl
  · rename_i c' h; rw [hb] at h; cases h

theorem skipTokenDelim_stop (b : Buf) (i : Nat) (d : UInt8) :
    ∀ c, b[skipTokenDelim b i d]? = some c → (isLWSch c || c == d) = true := by
  fun_induction skipTokenDelim b i d with
  | case1 i hb => intro c h; rw [hb] at h; cases h
  | case2 i c hb hl => intro c' h; rw [hb] at h; cases h; exact hl
  | case3 i c hb hl ih => exact ih

theorem skipTokenDelim_stable (b s : Buf) (i : Nat) (d : UInt8) {c : UInt8}
    (h : b[skipTokenDelim b i d]? = some c) : skipTokenDelim (b ++ s) i d = skipTokenDelim b i d := by
  fun_induction skipTokenDelim b i d with
  | case1 i hb => rw [hb] at h; cases h
  | case2 i c' hb hl => exact skipTokenDelim_eq_self (get?_app hb) hl
  | case3 i c' hb hl ih =>
    rw [skipTokenDelim_step (get?_app hb) (by simpa using hl)]
    exact ih h

theorem skipTokenDelim_restart (b s : Buf) (i : Nat) (d : UInt8) (h : b[skipTokenDelim b i d]? = none)
    (hi : i ≤ b.size) :
    skipTokenDelim (b ++ s) (skipTokenDelim b i d) d = skipTokenDelim (b ++ s) i d ∧
      skipTokenDelim b i d = b.size := by
  fun_induction skipTokenDelim b i d with
  | case1 i hb => exact ⟨rfl, by have := get?_none_ge hb; omega⟩
  | case2 i c' hb hl => rw [hb] at h; cases h
  | case3 i c' hb hl ih =>
    have := get?_lt hb
    have ih' := ih h (by omega)
    refine ⟨?_, ih'.2⟩
    rw [ih'.1, skipTokenDelim_step (get?_app hb) (by simpa using hl)]

theorem skipTokenDelim_le (b : Buf) (i : Nat) (d : UInt8) (hi : i ≤ b.size) : skipTokenDelim b i d ≤ b.size := by
  fun_induction skipTokenDelim b i d with
  | case1 i hb => exact hi
  | case2 i c hb hl => exact hi
  | case3 i c hb hl ih => have := get?_lt hb; exact ih (by omega)

theorem skipWS_eq_self {b : Buf} {i : Nat} {c : UInt8} (hb : b[i]? = some c) (hl : isWS c = false) :
    skipWS b i = i := by
  rw [skipWS]; split
  · rename_i h; rw [hb] at h
  · rename_i c' h; rw [hb] at h; cases h; simp only [hl, Bool.false_eq_true, ↓reduceIte]

theorem skipWS_step {b : Buf} {i : Nat} {c : UInt8} (hb : b[i]? = some c) (hl : isWS c = true) :
    skipWS b i = skipWS b (i + 1) := by
  conv => lhs; rw [skipWS]
  split
  · rename_i h; rw [hb] at h; cases h
  · rename_i c' h; rw [hb] at h; cases h; rw [if_pos hl]

theorem skipWS_stable (b s : Buf) (i : Nat) {c : UInt8} (h : b[skipWS b i]? = some c) :
    skipWS (b ++ s) i = skipWS b i := by
  fun_induction skipWS b i with
  | case1 i hb => rw [hb] at h; cases h
  | case2 i c' hb hl ih =>
    rw [skipWS_step (get?_app hb) hl]
    exact ih h
  | case3 i c' hb hl => exact skipWS_eq_self (get?_app hb) (by simpa using hl)

theorem skipWS_restart (b s : Buf) (i : Nat) (h : b[skipWS b i]? = none) (hi : i ≤ b.size) :
    skipWS (b ++ s) (skipWS b i) = skipWS (b ++ s) i ∧ skipWS b i = b.size := by
  fun_induction skipWS b i with
  | case1 i hb => exact ⟨rfl, by have := get?_none_ge hb; omega⟩
  | case2 i c' hb hl ih =>
    have := get?_lt hb
    have ih' := ih h (by omega)
    refine ⟨?_, ih'.2⟩
    rw [ih'.1, skipWS_step (get?_app hb) hl]
  | case3 i c' hb hl => rw [hb] at h; cases h

theorem skipWS_le (b : Buf) (i : Nat) (hi : i ≤ b.size) : skipWS b i ≤ b.size := by
  fun_induction skipWS b i with
  | case1 i hb => exact hi
  | case2 i c hb hl ih => have := get?_lt hb; exact ih (by omega)
  | case3 i c hb hl => exact hi

theorem skipToken_le (b : Buf) (i : Nat) (hi : i ≤ b.size) : skipToken b i ≤ b.size := by
  fun_induction skipToken b i with
  | case1 i hb => exact hi
  | case2 i c hb hl => exact hi
  | case3 i c hb hl ih => have := get?_lt hb; exact ih (by omega)

end Sipsp
