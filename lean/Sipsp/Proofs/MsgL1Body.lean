/-
  Sipsp.Proofs.MsgL1Body — the exempted case of L1 (no premature verdict) for ParseSIPMsg:
  a message without Content-Length, parsed with neither "skip body" nor "Content-Length required"
  (`bodyToEnd`).  Its body is by definition "the rest of the buffer", so the result legitimately changes when
  bytes are appended; this file says exactly HOW it changes (`BodyGrew`): only the body length, `bufLen` and
  `rawLen` follow the longer buffer, every other component is unchanged.

  Final theorems (bottom of the file): `parseSIPMsg_bodyToEnd_grows` (main), `_rel`, `_shape`, `_grows_init`,
  `_body` (body'' = body' ++ appended bytes), `_changes` (the exemption is necessary).
  Hypotheses: those of `parseSIPMsg_stable`, `(b ++ s).size ≤ 65535`, and `hoffs`: the object is new (state init),
  or its saved message start `offs` lies inside the shorter buffer, or the call on the shorter buffer did not
  panic. `hoffs` cannot be dropped (see the last test): with `offs` beyond the shorter buffer Go panics there.
  Nothing stated here is left unproved. Not covered: buffers beyond 65,535 bytes, the no-more-data flag.
-/
import Sipsp.Proofs.MsgL1

namespace Sipsp

/-! ### the two message objects involved -/

/-- the message object left by the "body extends to the end of the buffer" exit of `msgBody`, written out
    for a buffer of `n` bytes and a body starting at `o` -/
def bodyEndMsg (m : PSIPMsg) (o n : Nat) : PSIPMsg :=
  { m with body := ⟨o, n - o⟩, bufLen := n, rawOffs := m.offs, rawLen := n - m.offs, state := .fin }

/-- `m` with body end, `Buf` end and `RawMsg` end moved to `n`; nothing else touched -/
def growMsg (m : PSIPMsg) (n : Nat) : PSIPMsg :=
  { m with body := ⟨m.body.offs, n - m.body.offs⟩, bufLen := n, rawLen := n - m.rawOffs }

theorem growMsg_bodyEndMsg (m : PSIPMsg) (o n n' : Nat) : growMsg (bodyEndMsg m o n) n' = bodyEndMsg m o n' := rfl

/-- **the relation between the result on a buffer and the result on an extension of it** (body-to-end case).
    `m'` is the message returned on the shorter buffer, `o''` / `m''` the offset and message returned on the
    longer one. Everything is equal except the three lengths, which are determined by `o''`. -/
structure BodyGrew (m' : PSIPMsg) (o'' : Nat) (m'' : PSIPMsg) : Prop where
  fl : m''.fl = m'.fl
  pv : m''.pv = m'.pv
  hl : m''.hl = m'.hl
  body_offs : m''.body.offs = m'.body.offs
  rawOffs : m''.rawOffs = m'.rawOffs
  offs : m''.offs = m'.offs
  state : m''.state = m'.state
  pnc : m''.pnc = m'.pnc
  /-- the body ends where the parser stopped … -/
  body_end : m''.body.offs + m''.body.len = o''
  /-- … `msg.Buf` ends there … -/
  bufLen : m''.bufLen = o''
  /-- … and so does `msg.RawMsg` -/
  raw_end : m''.rawOffs + m''.rawLen = o''

theorem bodyGrew_growMsg (m' : PSIPMsg) (n : Nat) (h1 : m'.body.offs ≤ n) (h2 : m'.rawOffs ≤ n) :
    BodyGrew m' n (growMsg m' n) := by
  refine ⟨rfl, rfl, rfl, rfl, rfl, rfl, rfl, rfl, ?_, rfl, ?_⟩
  · show m'.body.offs + (n - m'.body.offs) = n
    omega
  · show m'.rawOffs + (n - m'.rawOffs) = n
    omega

/-- `BodyGrew` determines the longer result completely: it is `growMsg` -/
theorem bodyGrew_unique {m' m'' : PSIPMsg} {n : Nat} (h : BodyGrew m' n m'') : m'' = growMsg m' n := by
  obtain ⟨h1, h2, h3, h4, h5, h6, h7, h8, h9, h10, h11⟩ := h
  rcases m'' with ⟨fl, pv, hl, ⟨bo, bl⟩, bufLen, rawOffs, rawLen, state, offs, pnc⟩
  simp only at h1 h2 h3 h4 h5 h6 h7 h8 h9 h10 h11
  subst h1 h2 h3 h4 h5 h6 h7 h8 h10
  have e1 : bufLen - m'.body.offs = bl := by omega
  have e2 : bufLen - m'.rawOffs = rawLen := by omega
  unfold growMsg
  simp only [e1, e2]

/-! ### the body section -/

/-- `msgBody` never touches the header values (so `bodyToEnd` can be read off the input or the output) -/
theorem msgBody_pv (b : Buf) (o : Nat) (m : PSIPMsg) (flags : Nat) : (msgBody b o m flags).2.2.pv = m.pv := by
  unfold msgBody msgEnd PSIPMsg.setBufs
  simp only
  split
  · split <;> rfl
  · split
    · split
      · split <;> rfl
      · rfl
    · split <;> rfl

/-- the body-to-end exit, written out: the parser stops at the end of the buffer, with success, and the message is
    `bodyEndMsg`. `m.offs ≤ b.size`: the message started inside the buffer (else Go panics slicing `RawMsg`). -/
theorem msgBody_toEnd (b : Buf) (o : Nat) (m : PSIPMsg) (flags : Nat) (ho : o ≤ b.size) (hfit : b.size ≤ 65535)
    (hoffs : m.offs ≤ b.size) (hx : bodyToEnd flags m) :
    msgBody b o m flags = (b.size, .ok, bodyEndMsg m o b.size) := by
  obtain ⟨h1, h2, h3⟩ := hx
  unfold msgBody
  simp only [h1, h2, h3, Bool.false_eq_true, ↓reduceIte]
  unfold msgEnd PSIPMsg.setBufs bodyEndMsg PField.extend PField.extendPanics PField.set
  have t1 : trunc16 o = o := trunc16_of_lt (by omega)
  have t2 : trunc16 b.size = b.size := trunc16_of_lt (by omega)
  have t3 : (b.size + 65536 - o) % 65536 = b.size - o := by omega
  have d1 : decide (b.size < o) = false := by simp; omega
  have d2 : decide (b.size > b.size) = false := by simp
  have d3 : decide (m.offs > b.size) = false := by simp; omega
  simp only [t1, t2, t3, d1, d2, d3, Bool.or_false]

/-- if the body-to-end exit did not panic, the message had started inside the buffer -/
theorem msgBody_toEnd_offs (b : Buf) (o : Nat) (m : PSIPMsg) (flags : Nat) (hx : bodyToEnd flags m)
    {o' : Nat} {e : Err} {m' : PSIPMsg} (hr : msgBody b o m flags = (o', e, m')) (hp : m'.pnc = false) :
    m.offs ≤ b.size := by
  obtain ⟨h1, h2, h3⟩ := hx
  unfold msgBody at hr
  simp only [h1, h2, h3, Bool.false_eq_true, ↓reduceIte] at hr
  unfold msgEnd PSIPMsg.setBufs at hr
  cases hr
  simp only [Bool.or_eq_false_iff, decide_eq_false_iff_not] at hp
  omega

/-- what the finished message looks like when the parser stopped at `n`: body, `Buf` and `RawMsg` all end at `n` -/
structure EndShape (n : Nat) (m : PSIPMsg) : Prop where
  state : m.state = .fin
  body_end : m.body.offs + m.body.len = n
  bufLen : m.bufLen = n
  rawOffs : m.rawOffs = m.offs
  raw_end : m.rawOffs + m.rawLen = n

theorem endShape_bodyEndMsg (m : PSIPMsg) (o n : Nat) (h1 : o ≤ n) (h2 : m.offs ≤ n) : EndShape n (bodyEndMsg m o n) := by
  refine ⟨rfl, ?_, rfl, rfl, ?_⟩
  · show o + (n - o) = n
    omega
  · show m.offs + (n - m.offs) = n
    omega

/-- conclusion shared by the lemmas below: the call on `b` stopped at the end of `b` with a message of the
    expected shape, and the call on `b ++ s` (result `r`) stops at the end of `b ++ s`, successfully, with the same
    message grown to that end -/
def GrowResult (b s : Buf) (o' : Nat) (m' : PSIPMsg) (r : Nat × Err × PSIPMsg) : Prop :=
  o' = b.size ∧ EndShape b.size m' ∧ r = ((b ++ s).size, .ok, growMsg m' (b ++ s).size)

theorem msgBody_grow (b s : Buf) (o : Nat) (m : PSIPMsg) (flags : Nat) (ho : o ≤ b.size)
    (hfit : (b ++ s).size ≤ 65535)
    {o' : Nat} {m' : PSIPMsg} (hr : msgBody b o m flags = (o', .ok, m')) (hx : bodyToEnd flags m')
    (hoffs' : m.offs ≤ b.size ∨ m'.pnc = false) :
    GrowResult b s o' m' (msgBody (b ++ s) o m flags) := by
  have hsz : (b ++ s).size = b.size + s.size := Array.size_append
  have hpv : m'.pv = m.pv := by
    have := msgBody_pv b o m flags
    rw [hr] at this
    exact this
  have hx0 : bodyToEnd flags m := by
    unfold bodyToEnd at hx ⊢
    rw [hpv] at hx
    exact hx
  have hoffs : m.offs ≤ b.size := by
    rcases hoffs' with h | h
    · exact h
    · exact msgBody_toEnd_offs b o m flags hx0 hr h
  rw [msgBody_toEnd b o m flags ho (by omega) hoffs hx0] at hr
  rw [msgBody_toEnd (b ++ s) o m flags (by omega) hfit (by omega) hx0]
  cases hr
  exact ⟨rfl, endShape_bodyEndMsg m o b.size ho hoffs, rfl⟩

/-! ### header section, first line, whole parser -/

theorem msgHeaders_grow (b s : Buf) (o : Nat) (m : PSIPMsg) (flags : Nat)
    (hok1 : hlsOK b m.hl) (hok2 : hvOK b o m.pv) (hfit : (b ++ s).size ≤ 65535)
    (hnf : hasFlag flags SIPMsgNoMoreDataF = false)
    {o' : Nat} {m' : PSIPMsg} (hr : msgHeaders b o m flags = (o', .ok, m')) (hx : bodyToEnd flags m')
    (hoffs : m.offs ≤ b.size ∨ m'.pnc = false) :
    GrowResult b s o' m' (msgHeaders (b ++ s) o m flags) := by
  unfold msgHeaders at hr ⊢
  rcases hp : parseHeaders b o m.hl (some m.pv) with ⟨o1, e1, hl1, hb1⟩
  rw [hp] at hr
  by_cases he1 : e1 = .ok
  · subst he1
    rw [parseHeaders_stable b s o m.hl (some m.pv) hok1 hok2 hp (by intro h; cases h)]
    simp only at hr ⊢
    have hpost := parseHeaders_post b o m.hl (some m.pv) hok1 hok2 hp
    exact msgBody_grow b s o1 _ flags hpost.1 hfit hr hx hoffs
  · exfalso
    cases e1 <;> first
      | exact he1 rfl
      | (simp only at hr
         have hv := congrArg (fun r => r.2.1) hr
         simp only [msgErr_verdict _ _ _ _ hnf] at hv
         cases hv)

theorem msgFLine_grow (b s : Buf) (o : Nat) (m : PSIPMsg) (flags : Nat) (hok : msgOK b o m)
    (hfit : (b ++ s).size ≤ 65535) (hnf : hasFlag flags SIPMsgNoMoreDataF = false)
    {o' : Nat} {m' : PSIPMsg} (hr : msgFLine b o m flags = (o', .ok, m')) (hx : bodyToEnd flags m')
    (hoffs : m.offs ≤ b.size ∨ m'.pnc = false) :
    GrowResult b s o' m' (msgFLine (b ++ s) o m flags) := by
  have hsz : (b ++ s).size = b.size + s.size := Array.size_append
  obtain ⟨ho, hfl, hls, hvs⟩ := hok
  unfold msgFLine at hr ⊢
  rcases hp : parseFLine b o m.fl with ⟨o1, e1, fl1⟩
  rw [hp] at hr
  by_cases he1 : e1 = .ok
  · subst he1
    rw [parseFLine_stable b s o m.fl hfl (by omega) hp (by intro h; cases h)]
    simp only at hr ⊢
    have hrg := parseFLine_range b o m.fl ho
    rw [hp] at hrg
    have hrg' := hrg rfl
    exact msgHeaders_grow b s o1 { m with fl := fl1, state := .headers } flags hls (hvOK_mono hvs hrg'.1 hrg'.2) hfit hnf
      hr hx hoffs
  · exfalso
    cases e1 <;> first
      | exact he1 rfl
      | (simp only at hr
         have hv := congrArg (fun r => r.2.1) hr
         simp only [msgErr_verdict _ _ _ _ hnf] at hv
         cases hv)

/-- **ParseSIPMsg, body-to-end case** (function form). `hoffs`: the message object is new (state `init`: the
    parser sets `offs` itself), or it is being continued and had started inside the buffer, or (weakest form) the
    call on `b` did not panic. Without it Go panics slicing `RawMsg` on `b` and the model records `pnc` there only. -/
theorem parseSIPMsg_grow (b s : Buf) (o : Nat) (m : PSIPMsg) (flags : Nat) (hok : msgOK b o m)
    (hfit : (b ++ s).size ≤ 65535) (hnf : hasFlag flags SIPMsgNoMoreDataF = false)
    {o' : Nat} {m' : PSIPMsg} (hr : parseSIPMsg b o m flags = (o', .ok, m')) (hx : bodyToEnd flags m')
    (hoffs : m.state = .init ∨ m.offs ≤ b.size ∨ m'.pnc = false) :
    GrowResult b s o' m' (parseSIPMsg (b ++ s) o m flags) := by
  unfold parseSIPMsg at hr ⊢
  cases hst : m.state <;> simp only [hst] at hr hoffs ⊢
  case init =>
    exact msgFLine_grow b s o { m with offs := o, state := .fline } flags hok hfit hnf hr hx (Or.inl hok.1)
  case fline => exact msgFLine_grow b s o m flags hok hfit hnf hr hx (by simpa using hoffs)
  case headers =>
    exact msgHeaders_grow b s o m flags hok.2.2.1 hok.2.2.2 hfit hnf hr hx (by simpa using hoffs)
  case body => exact msgBody_grow b s o m flags hok.1 hfit hr hx (by simpa using hoffs)
  all_goals
    exfalso
    have hv := msgErr_verdict m o .bug flags hnf
    rw [hr] at hv
    cases hv

/-! ### FINAL THEOREMS (relational form, to be re-exported in Properties/C03) -/

/-- **C03, exempted case, main theorem.** A successful result whose body extends to the end of the buffer
    (`bodyToEnd`): on every extension `b ++ s` of the buffer (within the 65,535 byte limit) the parser again
    succeeds, stops at the end of the longer buffer, and returns the same message except that body, `Buf` and
    `RawMsg` end at the new end (`BodyGrew`). Also: the call on `b` had stopped at the end of `b`. -/
theorem parseSIPMsg_bodyToEnd_grows (b s : Buf) (o : Nat) (m : PSIPMsg) (flags : Nat) (hok : msgOK b o m)
    (hfit : (b ++ s).size ≤ 65535) (hnf : hasFlag flags SIPMsgNoMoreDataF = false)
    {o' : Nat} {m' : PSIPMsg} (hr : parseSIPMsg b o m flags = (o', .ok, m')) (hx : bodyToEnd flags m')
    (hoffs : m.state = .init ∨ m.offs ≤ b.size ∨ m'.pnc = false) :
    o' = b.size ∧
    ∃ m'', parseSIPMsg (b ++ s) o m flags = ((b ++ s).size, .ok, m'') ∧ BodyGrew m' (b ++ s).size m'' := by
  have hsz : (b ++ s).size = b.size + s.size := Array.size_append
  obtain ⟨h1, h2, h3⟩ := parseSIPMsg_grow b s o m flags hok hfit hnf hr hx hoffs
  refine ⟨h1, growMsg m' (b ++ s).size, h3, bodyGrew_growMsg m' _ ?_ ?_⟩
  · have := h2.body_end
    omega
  · have := h2.raw_end
    omega

/-- the same with the longer result given: whatever the parser returns on `b ++ s`, it is related as stated -/
theorem parseSIPMsg_bodyToEnd_rel (b s : Buf) (o : Nat) (m : PSIPMsg) (flags : Nat) (hok : msgOK b o m)
    (hfit : (b ++ s).size ≤ 65535) (hnf : hasFlag flags SIPMsgNoMoreDataF = false)
    {o' : Nat} {m' : PSIPMsg} (hr : parseSIPMsg b o m flags = (o', .ok, m')) (hx : bodyToEnd flags m')
    (hoffs : m.state = .init ∨ m.offs ≤ b.size ∨ m'.pnc = false)
    {o'' : Nat} {e'' : Err} {m'' : PSIPMsg} (hr2 : parseSIPMsg (b ++ s) o m flags = (o'', e'', m'')) :
    o'' = (b ++ s).size ∧ e'' = .ok ∧ BodyGrew m' o'' m'' ∧ bodyToEnd flags m'' := by
  obtain ⟨_, m2, h2, h3⟩ := parseSIPMsg_bodyToEnd_grows b s o m flags hok hfit hnf hr hx hoffs
  rw [hr2] at h2
  cases h2
  refine ⟨rfl, rfl, h3, ?_⟩
  unfold bodyToEnd at hx ⊢
  rw [h3.pv]
  exact hx

/-- shape of the shorter result: the parser stopped at the end of `b`; body, `Buf`, `RawMsg` end there -/
theorem parseSIPMsg_bodyToEnd_shape (b : Buf) (o : Nat) (m : PSIPMsg) (flags : Nat) (hok : msgOK b o m)
    (hfit : b.size ≤ 65535) (hnf : hasFlag flags SIPMsgNoMoreDataF = false)
    {o' : Nat} {m' : PSIPMsg} (hr : parseSIPMsg b o m flags = (o', .ok, m')) (hx : bodyToEnd flags m')
    (hoffs : m.state = .init ∨ m.offs ≤ b.size ∨ m'.pnc = false) :
    o' = b.size ∧ EndShape b.size m' := by
  have h := parseSIPMsg_grow b #[] o m flags hok (by simpa using hfit) hnf hr hx hoffs
  exact ⟨h.1, h.2.1⟩

/-- from any object produced by Init (caller arrays of any capacity, or none): no further hypothesis -/
theorem parseSIPMsg_bodyToEnd_grows_init (b s : Buf) (o : Nat) (ho : o ≤ b.size) (m0 : PSIPMsg) (len kh kc : Nat)
    (hdrs cts : Option Unit) (flags : Nat) (hfit : (b ++ s).size ≤ 65535)
    (hnf : hasFlag flags SIPMsgNoMoreDataF = false) {o' : Nat} {m' : PSIPMsg}
    (hr : parseSIPMsg b o (m0.init len (hdrs.map fun _ => Array.replicate kh {})
      (cts.map fun _ => Array.replicate kc {})) flags = (o', .ok, m'))
    (hx : bodyToEnd flags m') :
    o' = b.size ∧
    ∃ m'', parseSIPMsg (b ++ s) o (m0.init len (hdrs.map fun _ => Array.replicate kh {})
      (cts.map fun _ => Array.replicate kc {})) flags = ((b ++ s).size, .ok, m'') ∧
      BodyGrew m' (b ++ s).size m'' :=
  parseSIPMsg_bodyToEnd_grows b s o _ flags (msgOK_init b o ho m0 len kh kc hdrs cts) hfit hnf hr hx
    (Or.inl (by simp [PSIPMsg.init, PSIPMsg.reset]))

/-! ### the body bytes, and converse facts -/

theorem extract_to_end_app (b s : Buf) (k : Nat) (hk : k ≤ b.size) :
    (b ++ s).extract k (b ++ s).size = b.extract k b.size ++ s := by
  rw [Array.extract_append]
  have h1 : k - b.size = 0 := by omega
  have h2 : (b ++ s).size - b.size = s.size := by rw [Array.size_append]; omega
  have h3 : b.extract k (b ++ s).size = b.extract k b.size := by
    apply Array.ext'
    simp [Array.toList_extract]
    omega
  rw [h1, h2, h3]
  simp

/-- a message of the final shape: `Body.Get(buf)` does not panic and is the rest of the buffer -/
theorem endShape_body_get (b : Buf) (m : PSIPMsg) (hfit : b.size ≤ 65535) (h : EndShape b.size m) :
    m.body.get? b = some (b.extract m.body.offs b.size) := by
  have he := h.body_end
  unfold PField.get? PField.endT
  rw [he, trunc16_of_lt (by omega)]
  rw [if_pos ⟨by omega, Nat.le_refl _⟩]

/-- **the body of the longer result is the body of the shorter result followed by the appended bytes** -/
theorem parseSIPMsg_bodyToEnd_body (b s : Buf) (o : Nat) (m : PSIPMsg) (flags : Nat) (hok : msgOK b o m)
    (hfit : (b ++ s).size ≤ 65535) (hnf : hasFlag flags SIPMsgNoMoreDataF = false)
    {o' : Nat} {m' : PSIPMsg} (hr : parseSIPMsg b o m flags = (o', .ok, m')) (hx : bodyToEnd flags m')
    (hoffs : m.state = .init ∨ m.offs ≤ b.size ∨ m'.pnc = false)
    {o'' : Nat} {e'' : Err} {m'' : PSIPMsg} (hr2 : parseSIPMsg (b ++ s) o m flags = (o'', e'', m'')) :
    ∃ body, m'.body.get? b = some body ∧ m''.body.get? (b ++ s) = some (body ++ s) := by
  have hsz : (b ++ s).size = b.size + s.size := Array.size_append
  obtain ⟨h1, h2, h3⟩ := parseSIPMsg_grow b s o m flags hok hfit hnf hr hx hoffs
  rw [hr2] at h3
  cases h3
  refine ⟨b.extract m'.body.offs b.size, endShape_body_get b m' (by omega) h2, ?_⟩
  have hbe := h2.body_end
  have hs2 : EndShape (b ++ s).size (growMsg m' (b ++ s).size) := by
    refine ⟨h2.state, ?_, rfl, h2.rawOffs, ?_⟩
    · show m'.body.offs + ((b ++ s).size - m'.body.offs) = (b ++ s).size
      omega
    · have := h2.raw_end
      show m'.rawOffs + ((b ++ s).size - m'.rawOffs) = (b ++ s).size
      omega
  rw [endShape_body_get (b ++ s) _ hfit hs2]
  show some ((b ++ s).extract m'.body.offs (b ++ s).size) = _
  rw [extract_to_end_app b s _ (by omega)]

/-- the exemption is necessary: in the body-to-end case every non-empty extension changes the result
    (the returned offset moves), so `parseSIPMsg_stable` cannot hold there -/
theorem parseSIPMsg_bodyToEnd_changes (b s : Buf) (o : Nat) (m : PSIPMsg) (flags : Nat) (hok : msgOK b o m)
    (hfit : (b ++ s).size ≤ 65535) (hnf : hasFlag flags SIPMsgNoMoreDataF = false)
    {o' : Nat} {m' : PSIPMsg} (hr : parseSIPMsg b o m flags = (o', .ok, m')) (hx : bodyToEnd flags m')
    (hoffs : m.state = .init ∨ m.offs ≤ b.size ∨ m'.pnc = false) (hs : 0 < s.size) :
    (parseSIPMsg (b ++ s) o m flags).1 = o' + s.size ∧ parseSIPMsg (b ++ s) o m flags ≠ parseSIPMsg b o m flags := by
  have hsz : (b ++ s).size = b.size + s.size := Array.size_append
  obtain ⟨h1, _, h3⟩ := parseSIPMsg_grow b s o m flags hok hfit hnf hr hx hoffs
  refine ⟨by rw [h3]; show (b ++ s).size = _; omega, ?_⟩
  rw [h3, hr]
  intro hc
  have := congrArg (fun r => r.1) hc
  simp only at this
  omega

/-- `BodyGrew` with nothing appended is equality -/
theorem bodyGrew_self {n : Nat} {m : PSIPMsg} (h : EndShape n m) : BodyGrew m n m :=
  ⟨rfl, rfl, rfl, rfl, rfl, rfl, rfl, rfl, h.body_end, h.bufLen, h.raw_end⟩

/-! ### tests / non-vacuity (closed computations, `decide +kernel`) -/

/-- a request without Content-Length, 5 body bytes so far -/
def exNoCLen : Buf := "INVITE sip:a@b SIP/2.0\r\nCall-ID: x1\r\n\r\nhello".toUTF8.data
def exNoCLenInit : PSIPMsg := ({} : PSIPMsg).init 0 none none

-- test: the hypotheses of the main theorem are met by a concrete message (flags 0) …
example : (parseSIPMsg exNoCLen 0 exNoCLenInit 0).2.1 = Err.ok := by decide +kernel
example : bodyToEnd 0 (parseSIPMsg exNoCLen 0 exNoCLenInit 0).2.2 :=
  ⟨by decide +kernel, by decide +kernel, by decide +kernel⟩
example : msgOK exNoCLen 0 exNoCLenInit := msgOK_init _ 0 (Nat.zero_le _) {} 0 0 0 none none
-- … test: and what the theorem says happens, on this instance: offset 44 → 46, body length 5 → 7
example : (parseSIPMsg exNoCLen 0 exNoCLenInit 0).1 = 44 ∧
    (parseSIPMsg exNoCLen 0 exNoCLenInit 0).2.2.body = ⟨39, 5⟩ := by decide +kernel
example : (parseSIPMsg (exNoCLen ++ #[33, 33]) 0 exNoCLenInit 0).1 = 46 ∧
    (parseSIPMsg (exNoCLen ++ #[33, 33]) 0 exNoCLenInit 0).2.2.body = ⟨39, 7⟩ := by decide +kernel

-- test: the hypothesis `hoffs` cannot be dropped. A continued object (state `fline`) whose `offs` lies beyond the
-- shorter buffer: Go panics on the shorter buffer (slicing `RawMsg`; the model records `pnc`), not on the longer one,
-- so `pnc` (and `rawLen`) are not related as in `BodyGrew`.
example : (parseSIPMsg exNoCLen 0 { exNoCLenInit with state := .fline, offs := 45 } 0).2.2.pnc = true ∧
    (parseSIPMsg (exNoCLen ++ #[33, 33]) 0 { exNoCLenInit with state := .fline, offs := 45 } 0).2.2.pnc = false := by
  decide +kernel

end Sipsp
