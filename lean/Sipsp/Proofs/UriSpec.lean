/-
  Sipsp.Proofs.UriSpec — ParseURI: the accepted URI is tiled by the reported components.

  `UInv` is the loop invariant of the URI automaton (per state: what the fields set so far and the saved start
  `s` mean, including the back-tracking data `foundUser` / `passOffs`), `URILayout` the final tiling
  (`parseURI_ok`; consequences `URILayout.order`, `.join`, `.get`, `.tel_join`). Two further invariants ride on
  top of it: `UAtInv` (no '@' after the start of the host: `parseURI_at`) and `UBrInv` (a host that starts with
  '[' ends with ']': `parseURI_br`).
-/
import Sipsp.Model.URI
import Sipsp.Proofs.FLineSpec

set_option linter.unusedSimpArgs false
set_option linter.unusedVariables false

namespace Sipsp

/-! ### vocabulary -/

/-- an optional component `f` introduced by the delimiter `d` at position `p`: either absent (zero field) or the
    delimiter is at `p` and the component starts right after it -/
def USep (b : Buf) (p : Nat) (f : PField) (d : UInt8) : Prop :=
  f = ⟨0, 0⟩ ∨ (b[p]? = some d ∧ f.offs = p + 1)

/-- the position after an optional component that would start at `p + 1` -/
def uafter (p : Nat) (f : PField) : Nat := if f.offs = 0 then p else f.offs + f.len

/-- the user-info part in front of the host: absent (then the host starts at `k`, right after the scheme), or
    `user [':' pass] '@'` starting at `k`; `pH` is where the host starts -/
def UserPart (b : Buf) (k : Nat) (user pass : PField) (pH : Nat) : Prop :=
  (user = ⟨0, 0⟩ ∧ pass = ⟨0, 0⟩ ∧ pH = k) ∨
  (user.offs = k ∧ 0 < user.len ∧ USep b (k + user.len) pass 58 ∧
    b[uafter (k + user.len) pass]? = some 64 ∧ pH = uafter (k + user.len) pass + 1)

/-- the accepted URI `b` is tiled by the components of `u`; `k` = length of the scheme including its ':' -/
def URILayout (b : Buf) (k : Nat) (u : PsipURI) : Prop :=
  u.scheme = ⟨0, k⟩ ∧
  UserPart b k u.user u.pass u.host.offs ∧ 0 < u.host.len ∧
  USep b (u.host.offs + u.host.len) u.port 58 ∧
  USep b (uafter (u.host.offs + u.host.len) u.port) u.params 59 ∧
  USep b (uafter (uafter (u.host.offs + u.host.len) u.port) u.params) u.headers 63 ∧
  uafter (uafter (uafter (u.host.offs + u.host.len) u.port) u.params) u.headers = b.size

theorem uafter_absent (p : Nat) : uafter p ⟨0, 0⟩ = p := rfl

theorem uafter_present {p : Nat} {f : PField} (h : f.offs = p + 1) : uafter p f = p + 1 + f.len := by
  unfold uafter
  rw [if_neg (by omega), h]

theorem uafter_mk (p s l : Nat) (h : s = p + 1) : uafter p ⟨s, l⟩ = s + l := by
  unfold uafter
  simp only
  rw [if_neg (by omega)]

theorem USep.le_uafter {b : Buf} {p : Nat} {f : PField} {d : UInt8} (h : USep b p f d) : p ≤ uafter p f := by
  rcases h with rfl | ⟨_, h⟩
  · exact Nat.le_refl _
  · rw [uafter_present h]; omega

theorem USep.absent (b : Buf) (p : Nat) (d : UInt8) : USep b p ⟨0, 0⟩ d := Or.inl rfl

theorem USep.present {b : Buf} {p : Nat} {d : UInt8} (s l : Nat) (h : b[p]? = some d) (hs : s = p + 1) :
    USep b p ⟨s, l⟩ d := Or.inr ⟨h, hs⟩

theorem uset_eq {s e : Nat} (h : s ≤ e) (he : e ≤ 65535) : PField.set s e = ⟨s, e - s⟩ := by
  unfold PField.set
  rw [trunc16_id (by omega), trunc16_id (by omega)]

theorem usetPanics_eq {s e : Nat} (h : s ≤ e) : PField.setPanics s e = false := by
  unfold PField.setPanics
  simp only [decide_eq_false_iff_not]
  omega

/-! ### the invariant -/

def NoUP (u : PsipURI) : Prop := u.user = ⟨0, 0⟩ ∧ u.pass = ⟨0, 0⟩
def Blank4 (u : PsipURI) : Prop := u.host = ⟨0, 0⟩ ∧ u.port = ⟨0, 0⟩ ∧ u.params = ⟨0, 0⟩ ∧ u.headers = ⟨0, 0⟩

/-- what is known while no '@' has been seen and none is excluded yet: nothing attributed to user / password, the
    would-be user starts at `k`, and a remembered password candidate `passOffs` is a ':' after the host -/
def Undecided (b : Buf) (k i : Nat) (σ : UState) : Prop :=
  σ.foundUser = false → NoUP σ.u ∧ σ.u.host.offs = k ∧
    (σ.passOffs ≠ 0 → σ.u.host.offs + σ.u.host.len < σ.passOffs ∧ σ.passOffs < i ∧ b[σ.passOffs]? = some 58)

/-- per-state part of the invariant; `i` = index of the next byte -/
def UStInv (b : Buf) (k i : Nat) (σ : UState) : Prop :=
  match σ.st with
  | .initSIP | .initSIPS | .initTEL =>
    i = k ∧ σ.foundUser = false ∧ σ.passOffs = 0 ∧ NoUP σ.u ∧ Blank4 σ.u
  | .user =>
    σ.s = k ∧ k < i ∧ σ.foundUser = false ∧ σ.passOffs = 0 ∧ NoUP σ.u ∧ Blank4 σ.u
  | .pass0 | .pass1 =>
    σ.foundUser = false ∧ σ.passOffs = 0 ∧ σ.u.user.offs = k ∧ 0 < σ.u.user.len ∧
    b[k + σ.u.user.len]? = some 58 ∧ σ.s = k + σ.u.user.len + 1 ∧ σ.s ≤ i ∧ σ.u.pass = ⟨0, 0⟩ ∧ Blank4 σ.u
  | .host0 =>
    σ.foundUser = true ∧ σ.s = i ∧ UserPart b k σ.u.user σ.u.pass σ.s ∧ Blank4 σ.u
  | .host1 =>
    σ.foundUser = true ∧ σ.s < i ∧ UserPart b k σ.u.user σ.u.pass σ.s ∧ Blank4 σ.u
  | .host61 =>
    σ.s ≤ i ∧ UserPart b k σ.u.user σ.u.pass σ.s ∧ Blank4 σ.u ∧
    (σ.foundUser = false → σ.passOffs = 0 ∧ NoUP σ.u ∧ σ.s = k)
  | .host6E =>
    σ.s < i ∧ UserPart b k σ.u.user σ.u.pass σ.s ∧ Blank4 σ.u ∧
    (σ.foundUser = false → σ.passOffs = 0 ∧ NoUP σ.u ∧ σ.s = k)
  | .port =>
    UserPart b k σ.u.user σ.u.pass σ.u.host.offs ∧ 0 < σ.u.host.len ∧
    b[σ.u.host.offs + σ.u.host.len]? = some 58 ∧ σ.s = σ.u.host.offs + σ.u.host.len + 1 ∧ σ.s ≤ i ∧
    σ.u.port = ⟨0, 0⟩ ∧ σ.u.params = ⟨0, 0⟩ ∧ σ.u.headers = ⟨0, 0⟩ ∧
    (σ.foundUser = false → σ.passOffs = 0 ∧ NoUP σ.u ∧ σ.u.host.offs = k)
  | .param0 | .param1 =>
    UserPart b k σ.u.user σ.u.pass σ.u.host.offs ∧ 0 < σ.u.host.len ∧
    USep b (σ.u.host.offs + σ.u.host.len) σ.u.port 58 ∧
    b[uafter (σ.u.host.offs + σ.u.host.len) σ.u.port]? = some 59 ∧
    σ.s = uafter (σ.u.host.offs + σ.u.host.len) σ.u.port + 1 ∧ σ.s ≤ i ∧
    σ.u.params = ⟨0, 0⟩ ∧ σ.u.headers = ⟨0, 0⟩ ∧ Undecided b k i σ
  | .headers =>
    UserPart b k σ.u.user σ.u.pass σ.u.host.offs ∧ 0 < σ.u.host.len ∧
    USep b (σ.u.host.offs + σ.u.host.len) σ.u.port 58 ∧
    USep b (uafter (σ.u.host.offs + σ.u.host.len) σ.u.port) σ.u.params 59 ∧
    b[uafter (uafter (σ.u.host.offs + σ.u.host.len) σ.u.port) σ.u.params]? = some 63 ∧
    σ.s = uafter (uafter (σ.u.host.offs + σ.u.host.len) σ.u.port) σ.u.params + 1 ∧ σ.s ≤ i ∧
    σ.u.headers = ⟨0, 0⟩ ∧ Undecided b k i σ
  | _ => False

/-- the loop invariant of `uriLoop` before reading byte `i` -/
def UInv (b : Buf) (t k i : Nat) (σ : UState) : Prop :=
  σ.u.scheme = ⟨0, k⟩ ∧ σ.u.uriType = t ∧ σ.pnc = false ∧ 0 < k ∧ i ≤ b.size ∧ b.size ≤ 65535 ∧ UStInv b k i σ

/-- outcome of one step: the invariant at `i + 1`, or a failure reported at `i` -/
def UStepOK (b : Buf) (t k i : Nat) : UStep → Prop
  | .next σ' => UInv b t k (i + 1) σ'
  | .fail e p σ' => e ≠ .none ∧ p = i ∧ σ'.pnc = false

/-! ### one step of the automaton preserves the invariant -/

macro "usplit" : tactic => `(tactic| repeat' apply And.intro)
macro "uauto" : tactic => `(tactic| first | assumption | trivial | omega | (intro hh; cases hh; done) | skip)

theorem beq_u8 {c d : UInt8} (h : (c == d) = true) : c = d := by simpa using h

theorem ustep_init {b : Buf} {t k i : Nat} {σ : UState} {c : UInt8} (h : UInv b t k i σ)
    (hst : σ.st = .initSIP ∨ σ.st = .initSIPS ∨ σ.st = .initTEL)
    (hc : b[i]? = some c) : UStepOK b t k i (uriStep i c σ) := by
  obtain ⟨hsch, hty, hp, hk, hi, hfit, hI⟩ := h
  have hlt := get?_lt hc
  unfold UStInv at hI
  unfold uriStep
  rcases hst with hst | hst | hst <;>
  · rw [hst] at hI
    simp only at hI
    obtain ⟨hik, hfu, hpo, ⟨hu0, hp0⟩, hh0, hpt0, hpa0, hhd0⟩ := hI
    rw [hst]
    simp only
    by_cases h91 : (c == 91) = true
    · simp only [h91, ↓reduceIte]
      unfold UStepOK UInv UStInv
      simp only [hp, NoUP, Blank4]
      usplit <;> uauto
      · exact Or.inl ⟨hu0, hp0, hik⟩
      · exact fun _ => ⟨hpo, ⟨hu0, hp0⟩, hik⟩
    simp only [h91, Bool.false_eq_true, ↓reduceIte]
    by_cases hbr : (c == 58 || c == 93) = true
    · simp only [hbr, ↓reduceIte]
      exact ⟨by decide, rfl, hp⟩
    simp only [hbr, Bool.false_eq_true, ↓reduceIte]
    unfold UStepOK UInv UStInv
    simp only [hp, NoUP, Blank4, hfu]
    usplit <;> uauto

theorem ustep_user {b : Buf} {t k i : Nat} {σ : UState} {c : UInt8} (h : UInv b t k i σ) (hst : σ.st = .user)
    (hc : b[i]? = some c) : UStepOK b t k i (uriStep i c σ) := by
  obtain ⟨hsch, hty, hp, hk, hi, hfit, hI⟩ := h
  have hlt := get?_lt hc
  unfold UStInv at hI
  rw [hst] at hI
  simp only at hI
  obtain ⟨hs, hki, hfu, hpo, ⟨hu0, hp0⟩, hh0, hpt0, hpa0, hhd0⟩ := hI
  have hset : PField.set σ.s i = ⟨k, i - k⟩ := by rw [hs]; exact uset_eq (by omega) (by omega)
  have hsp : PField.setPanics σ.s i = false := usetPanics_eq (by omega)
  have e : k + (i - k) = i := by omega
  unfold uriStep
  rw [hst]
  simp only
  by_cases h64 : (c == 64) = true
  · simp only [h64, ↓reduceIte]
    cases beq_u8 h64
    unfold UStepOK UInv UStInv
    simp only [UState.setUser, hset, hsp, hp, Bool.or_false, NoUP, Blank4]
    usplit <;> uauto
    exact Or.inr ⟨rfl, by simp only; omega, Or.inl hp0, by simp only [hp0, uafter_absent, e]; exact hc,
      by simp only [hp0, uafter_absent, e]⟩
  simp only [h64, Bool.false_eq_true, ↓reduceIte]
  by_cases h58 : (c == 58) = true
  · simp only [h58, ↓reduceIte]
    cases beq_u8 h58
    unfold UStepOK UInv UStInv
    simp only [UState.setUser, hset, hsp, hp, Bool.or_false, NoUP, Blank4, e]
    usplit <;> uauto
  simp only [h58, Bool.false_eq_true, ↓reduceIte]
  by_cases h59 : (c == 59) = true
  · simp only [h59, ↓reduceIte]
    cases beq_u8 h59
    unfold UStepOK UInv UStInv
    simp only [UState.setHost, hset, hsp, hp, Bool.or_false, NoUP, Blank4, e, Undecided, hpt0, uafter_absent]
    usplit <;> uauto
    · exact Or.inl ⟨hu0, hp0, rfl⟩
    · exact Or.inl rfl
    · intro _
      exact ⟨⟨hu0, hp0⟩, trivial, fun h => absurd hpo h⟩
  simp only [h59, Bool.false_eq_true, ↓reduceIte]
  by_cases h63 : (c == 63) = true
  · simp only [h63, ↓reduceIte]
    cases beq_u8 h63
    unfold UStepOK UInv UStInv
    simp only [UState.setHost, hset, hsp, hp, Bool.or_false, NoUP, Blank4, e, Undecided, hpt0, hpa0, uafter_absent]
    usplit <;> uauto
    · exact Or.inl ⟨hu0, hp0, rfl⟩
    · exact Or.inl rfl
    · exact Or.inl rfl
    · intro _
      exact ⟨⟨hu0, hp0⟩, trivial, fun h => absurd hpo h⟩
  simp only [h63, Bool.false_eq_true, ↓reduceIte]
  by_cases hbr : (c == 91 || c == 93) = true
  · simp only [hbr, ↓reduceIte]
    exact ⟨by decide, rfl, hp⟩
  simp only [hbr, Bool.false_eq_true, ↓reduceIte]
  unfold UStepOK UInv UStInv
  simp only [hst, NoUP, Blank4]
  usplit <;> uauto

theorem ustep_pass {b : Buf} {t k i : Nat} {σ : UState} {c : UInt8} (h : UInv b t k i σ)
    (hst : σ.st = .pass0 ∨ σ.st = .pass1)
    (hc : b[i]? = some c) : UStepOK b t k i (uriStep i c σ) := by
  obtain ⟨hsch, hty, hp, hk, hi, hfit, hI⟩ := h
  have hlt := get?_lt hc
  unfold UStInv at hI
  have hI' : σ.foundUser = false ∧ σ.passOffs = 0 ∧ σ.u.user.offs = k ∧ 0 < σ.u.user.len ∧
      b[k + σ.u.user.len]? = some 58 ∧ σ.s = k + σ.u.user.len + 1 ∧ σ.s ≤ i ∧ σ.u.pass = ⟨0, 0⟩ ∧ Blank4 σ.u := by
    rcases hst with hst | hst <;> (rw [hst] at hI; exact hI)
  clear hI
  obtain ⟨hfu, hpo, huo, hul, hcol, hs, hsi, hp0, hh0, hpt0, hpa0, hhd0⟩ := hI'
  have hset : PField.set σ.s i = ⟨σ.s, i - σ.s⟩ := uset_eq hsi (by omega)
  have hsp : PField.setPanics σ.s i = false := usetPanics_eq hsi
  have ua : uafter (k + σ.u.user.len) ⟨σ.s, i - σ.s⟩ = i := by rw [uafter_mk _ _ _ hs]; omega
  have hat : ∀ pn, c = 64 →
      UStepOK b t k i (.next { σ.setPass σ.s i with portNo := pn, st := .host0, foundUser := true, s := i + 1 }) := by
    intro pn hc64
    subst hc64
    unfold UStepOK UInv UStInv
    simp only [UState.setPass, hset, hsp, hp, Bool.or_false, NoUP, Blank4]
    usplit <;> uauto
    exact Or.inr ⟨huo, hul, Or.inr ⟨hcol, hs⟩, by rw [ua]; exact hc, by rw [ua]⟩
  unfold uriStep
  rcases hst with hst | hst
  · rw [hst]
    simp only
    by_cases h64 : (c == 64) = true
    · simp only [h64, ↓reduceIte]
      exact hat 0 (beq_u8 h64)
    simp only [h64, Bool.false_eq_true, ↓reduceIte]
    by_cases hsq : (c == 59 || c == 63) = true
    · simp only [hsq, ↓reduceIte]
      simp only [UState.setPort, hset, hsp, hp, Bool.or_false]
      by_cases hbig : σ.portNo > 65535
      · simp only [hbig, ↓reduceIte]
        exact ⟨by decide, rfl, rfl⟩
      simp only [hbig, ↓reduceIte]
      have ua' : uafter (k + σ.u.user.len) ⟨k + σ.u.user.len + 1, i - (k + σ.u.user.len + 1)⟩ = i := by
        rw [← hs]; exact ua
      by_cases h59 : (c == 59) = true
      · simp only [h59, ↓reduceIte]
        cases beq_u8 h59
        unfold UStepOK UInv UStInv
        simp only [NoUP, Blank4, Undecided, huo, hs, ua']
        usplit <;> uauto
        · exact Or.inl ⟨rfl, hp0, rfl⟩
        · exact Or.inr ⟨hcol, rfl⟩
      · simp only [h59, Bool.false_eq_true, ↓reduceIte]
        have h63 : c = 63 := by
          have : (c == 63) = true := by simpa [h59] using hsq
          exact beq_u8 this
        subst h63
        unfold UStepOK UInv UStInv
        simp only [NoUP, Blank4, Undecided, huo, hs, ua', hpa0, uafter_absent]
        usplit <;> uauto
        · exact Or.inl ⟨rfl, hp0, rfl⟩
        · exact Or.inr ⟨hcol, rfl⟩
        · exact Or.inl rfl
    simp only [hsq, Bool.false_eq_true, ↓reduceIte]
    by_cases hdg : isDigit c = true
    · simp only [hdg, ↓reduceIte]
      unfold UStepOK UInv UStInv
      simp only [hst, NoUP, Blank4]
      usplit <;> uauto
    simp only [hdg, Bool.false_eq_true, ↓reduceIte]
    by_cases hbr : (c == 91 || c == 93 || c == 58) = true
    · simp only [hbr, ↓reduceIte]
      exact ⟨by decide, rfl, hp⟩
    simp only [hbr, Bool.false_eq_true, ↓reduceIte]
    unfold UStepOK UInv UStInv
    simp only [NoUP, Blank4]
    usplit <;> uauto
  · rw [hst]
    simp only
    by_cases h64 : (c == 64) = true
    · simp only [h64, ↓reduceIte]
      exact hat σ.portNo (beq_u8 h64)
    simp only [h64, Bool.false_eq_true, ↓reduceIte]
    by_cases hbr : (c == 59 || c == 63 || c == 91 || c == 93 || c == 58) = true
    · simp only [hbr, ↓reduceIte]
      exact ⟨by decide, rfl, hp⟩
    simp only [hbr, Bool.false_eq_true, ↓reduceIte]
    unfold UStepOK UInv UStInv
    simp only [hst, NoUP, Blank4]
    usplit <;> uauto

theorem ustep_host0 {b : Buf} {t k i : Nat} {σ : UState} {c : UInt8} (h : UInv b t k i σ) (hst : σ.st = .host0)
    (hc : b[i]? = some c) : UStepOK b t k i (uriStep i c σ) := by
  obtain ⟨hsch, hty, hp, hk, hi, hfit, hI⟩ := h
  have hlt := get?_lt hc
  unfold UStInv at hI
  rw [hst] at hI
  simp only at hI
  obtain ⟨hfu, hs, hup, hh0, hpt0, hpa0, hhd0⟩ := hI
  unfold uriStep
  rw [hst]
  simp only
  by_cases h91 : (c == 91) = true
  · simp only [h91, ↓reduceIte]
    unfold UStepOK UInv UStInv
    simp only [hp, NoUP, Blank4, hfu]
    usplit <;> uauto
  simp only [h91, Bool.false_eq_true, ↓reduceIte]
  by_cases hbr : (c == 58 || c == 59 || c == 63 || c == 38 || c == 64) = true
  · simp only [hbr, ↓reduceIte]
    exact ⟨by decide, rfl, hp⟩
  simp only [hbr, Bool.false_eq_true, ↓reduceIte]
  unfold UStepOK UInv UStInv
  simp only [hp, NoUP, Blank4, hfu]
  usplit <;> uauto

/-- the three ways a host ends inside the input: ':' port, ';' params, '?' headers (shared by host1 / host6E) -/
theorem ustep_hostEnd {b : Buf} {t k i : Nat} {σ : UState} (hsch : σ.u.scheme = ⟨0, k⟩) (hty : σ.u.uriType = t)
    (hp : σ.pnc = false) (hk : 0 < k) (hlt : i < b.size) (hfit : b.size ≤ 65535)
    (hs : σ.s < i) (hup : UserPart b k σ.u.user σ.u.pass σ.s) (hbl : Blank4 σ.u)
    (hund : σ.foundUser = false → σ.passOffs = 0 ∧ NoUP σ.u ∧ σ.s = k) :
    (b[i]? = some 58 → UStepOK b t k i (.next { σ.setHost σ.s i with st := .port, s := i + 1 })) ∧
    (b[i]? = some 59 → UStepOK b t k i (.next { σ.setHost σ.s i with st := .param0, s := i + 1 })) ∧
    (b[i]? = some 63 → UStepOK b t k i (.next { σ.setHost σ.s i with st := .headers, s := i + 1 })) := by
  obtain ⟨hh0, hpt0, hpa0, hhd0⟩ := hbl
  have hset : PField.set σ.s i = ⟨σ.s, i - σ.s⟩ := uset_eq (by omega) (by omega)
  have hsp : PField.setPanics σ.s i = false := usetPanics_eq (by omega)
  have e : σ.s + (i - σ.s) = i := by omega
  refine ⟨?_, ?_, ?_⟩
  · intro hc
    unfold UStepOK UInv UStInv
    simp only [UState.setHost, hset, hsp, hp, Bool.or_false, NoUP, Blank4, e]
    usplit <;> uauto
  · intro hc
    unfold UStepOK UInv UStInv
    simp only [UState.setHost, hset, hsp, hp, Bool.or_false, NoUP, Blank4, e, Undecided, hpt0, uafter_absent]
    usplit <;> uauto
    · exact Or.inl rfl
    · intro hf
      obtain ⟨h1, h2, h3⟩ := hund hf
      exact ⟨h2, h3, fun h => absurd h1 h⟩
  · intro hc
    unfold UStepOK UInv UStInv
    simp only [UState.setHost, hset, hsp, hp, Bool.or_false, NoUP, Blank4, e, Undecided, hpt0, hpa0, uafter_absent]
    usplit <;> uauto
    · exact Or.inl rfl
    · exact Or.inl rfl
    · intro hf
      obtain ⟨h1, h2, h3⟩ := hund hf
      exact ⟨h2, h3, fun h => absurd h1 h⟩

theorem ustep_host1 {b : Buf} {t k i : Nat} {σ : UState} {c : UInt8} (h : UInv b t k i σ) (hst : σ.st = .host1)
    (hc : b[i]? = some c) : UStepOK b t k i (uriStep i c σ) := by
  obtain ⟨hsch, hty, hp, hk, hi, hfit, hI⟩ := h
  have hlt := get?_lt hc
  unfold UStInv at hI
  rw [hst] at hI
  simp only at hI
  obtain ⟨hfu, hs, hup, hbl⟩ := hI
  obtain ⟨hh0, hpt0, hpa0, hhd0⟩ := id hbl
  obtain ⟨e58, e59, e63⟩ := ustep_hostEnd (t := t) hsch hty hp hk hlt hfit hs hup hbl
    (fun hf => by rw [hfu] at hf; cases hf)
  unfold uriStep
  rw [hst]
  simp only
  by_cases h58 : (c == 58) = true
  · simp only [h58, ↓reduceIte]
    cases beq_u8 h58
    exact e58 hc
  simp only [h58, Bool.false_eq_true, ↓reduceIte]
  by_cases h59 : (c == 59) = true
  · simp only [h59, ↓reduceIte]
    cases beq_u8 h59
    exact e59 hc
  simp only [h59, Bool.false_eq_true, ↓reduceIte]
  by_cases h63 : (c == 63) = true
  · simp only [h63, ↓reduceIte]
    cases beq_u8 h63
    exact e63 hc
  simp only [h63, Bool.false_eq_true, ↓reduceIte]
  by_cases hbr : (c == 38 || c == 64) = true
  · simp only [hbr, ↓reduceIte]
    exact ⟨by decide, rfl, hp⟩
  simp only [hbr, Bool.false_eq_true, ↓reduceIte]
  unfold UStepOK UInv UStInv
  simp only [hst, hp]
  usplit <;> uauto

theorem ustep_host61 {b : Buf} {t k i : Nat} {σ : UState} {c : UInt8} (h : UInv b t k i σ) (hst : σ.st = .host61)
    (hc : b[i]? = some c) : UStepOK b t k i (uriStep i c σ) := by
  obtain ⟨hsch, hty, hp, hk, hi, hfit, hI⟩ := h
  have hlt := get?_lt hc
  unfold UStInv at hI
  rw [hst] at hI
  simp only at hI
  obtain ⟨hs, hup, hbl, hund⟩ := hI
  obtain ⟨hh0, hpt0, hpa0, hhd0⟩ := id hbl
  unfold uriStep
  rw [hst]
  simp only
  by_cases h93 : (c == 93) = true
  · simp only [h93, ↓reduceIte]
    unfold UStepOK UInv UStInv
    simp only [hp]
    usplit <;> uauto
  simp only [h93, Bool.false_eq_true, ↓reduceIte]
  by_cases hbr : (c == 91 || c == 64 || c == 59 || c == 63 || c == 38) = true
  · simp only [hbr, ↓reduceIte]
    exact ⟨by decide, rfl, hp⟩
  simp only [hbr, Bool.false_eq_true, ↓reduceIte]
  unfold UStepOK UInv UStInv
  simp only [hst, hp]
  usplit <;> uauto

theorem ustep_host6E {b : Buf} {t k i : Nat} {σ : UState} {c : UInt8} (h : UInv b t k i σ) (hst : σ.st = .host6E)
    (hc : b[i]? = some c) : UStepOK b t k i (uriStep i c σ) := by
  obtain ⟨hsch, hty, hp, hk, hi, hfit, hI⟩ := h
  have hlt := get?_lt hc
  unfold UStInv at hI
  rw [hst] at hI
  simp only at hI
  obtain ⟨hs, hup, hbl, hund⟩ := hI
  obtain ⟨hh0, hpt0, hpa0, hhd0⟩ := id hbl
  obtain ⟨e58, e59, e63⟩ := ustep_hostEnd (t := t) hsch hty hp hk hlt hfit hs hup hbl hund
  unfold uriStep
  rw [hst]
  simp only
  by_cases h58 : (c == 58) = true
  · simp only [h58, ↓reduceIte]
    cases beq_u8 h58
    exact e58 hc
  simp only [h58, Bool.false_eq_true, ↓reduceIte]
  by_cases h59 : (c == 59) = true
  · simp only [h59, ↓reduceIte]
    cases beq_u8 h59
    exact e59 hc
  simp only [h59, Bool.false_eq_true, ↓reduceIte]
  by_cases h63 : (c == 63) = true
  · simp only [h63, ↓reduceIte]
    cases beq_u8 h63
    exact e63 hc
  simp only [h63, Bool.false_eq_true, ↓reduceIte]
  exact ⟨by decide, rfl, hp⟩

theorem ustep_port {b : Buf} {t k i : Nat} {σ : UState} {c : UInt8} (h : UInv b t k i σ) (hst : σ.st = .port)
    (hc : b[i]? = some c) : UStepOK b t k i (uriStep i c σ) := by
  obtain ⟨hsch, hty, hp, hk, hi, hfit, hI⟩ := h
  have hlt := get?_lt hc
  unfold UStInv at hI
  rw [hst] at hI
  simp only at hI
  obtain ⟨hup, hhl, hcol, hs, hsi, hpt0, hpa0, hhd0, hund⟩ := hI
  have hset : PField.set σ.s i = ⟨σ.s, i - σ.s⟩ := uset_eq hsi (by omega)
  have hsp : PField.setPanics σ.s i = false := usetPanics_eq hsi
  have ua : uafter (σ.u.host.offs + σ.u.host.len) ⟨σ.s, i - σ.s⟩ = i := by rw [uafter_mk _ _ _ hs]; omega
  unfold uriStep
  rw [hst]
  simp only
  by_cases hdg : isDigit c = true
  · simp only [hdg, ↓reduceIte]
    unfold UStepOK UInv UStInv
    simp only [hst, hp]
    usplit <;> uauto
  simp only [hdg, Bool.false_eq_true, ↓reduceIte]
  by_cases hsq : (c == 59 || c == 63) = true
  · simp only [hsq, ↓reduceIte]
    simp only [UState.setPort, hset, hsp, hp, Bool.or_false]
    by_cases hbig : σ.portNo > 65535
    · simp only [hbig, ↓reduceIte]
      exact ⟨by decide, rfl, rfl⟩
    simp only [hbig, ↓reduceIte]
    by_cases h59 : (c == 59) = true
    · simp only [h59, ↓reduceIte]
      cases beq_u8 h59
      unfold UStepOK UInv UStInv
      simp only [NoUP, Blank4, Undecided, ua]
      usplit <;> uauto
      · exact Or.inr ⟨hcol, hs⟩
      · intro hf
        obtain ⟨h1, h2, h3⟩ := hund hf
        exact ⟨h2, h3, fun h => absurd h1 h⟩
    · simp only [h59, Bool.false_eq_true, ↓reduceIte]
      have h63 : c = 63 := by
        have : (c == 63) = true := by simpa [h59] using hsq
        exact beq_u8 this
      subst h63
      unfold UStepOK UInv UStInv
      simp only [NoUP, Blank4, Undecided, ua, hpa0, uafter_absent]
      usplit <;> uauto
      · exact Or.inr ⟨hcol, hs⟩
      · exact Or.inl rfl
      · intro hf
        obtain ⟨h1, h2, h3⟩ := hund hf
        exact ⟨h2, h3, fun h => absurd h1 h⟩
  simp only [hsq, Bool.false_eq_true, ↓reduceIte]
  exact ⟨by decide, rfl, hp⟩

/-! #### the back-tracking states: parameters and headers -/

theorem Undecided.found {b : Buf} {k j : Nat} {σ' : UState} (h : σ'.foundUser = true) : Undecided b k j σ' := by
  intro hf
  rw [h] at hf
  cases hf

theorem Undecided.mono {b : Buf} {k i : Nat} {σ σ' : UState} (h : Undecided b k i σ)
    (hf : σ'.foundUser = σ.foundUser) (hpo : σ'.passOffs = σ.passOffs) (hu : σ'.u = σ.u) :
    Undecided b k (i + 1) σ' := by
  unfold Undecided at *
  rw [hf, hpo, hu]
  intro hh
  obtain ⟨h1, h2, h3⟩ := h hh
  refine ⟨h1, h2, fun hne => ?_⟩
  obtain ⟨h4, h5, h6⟩ := h3 hne
  exact ⟨h4, by omega, h6⟩

theorem Undecided.mark {b : Buf} {k i : Nat} {σ σ' : UState} (h : Undecided b k i σ)
    (hpo : σ'.passOffs = i) (hu : σ'.u = σ.u) (hf : σ.foundUser = false)
    (hend : σ.u.host.offs + σ.u.host.len < i) (hc : b[i]? = some 58) :
    Undecided b k (i + 1) σ' := by
  unfold Undecided at *
  rw [hpo, hu]
  intro _
  obtain ⟨h1, h2, _⟩ := h hf
  exact ⟨h1, h2, fun _ => ⟨hend, by omega, hc⟩⟩

/-- the '@' found in parameters / headers: everything since the scheme becomes user [':' password] -/
theorem ustep_at {b : Buf} {t k i : Nat} {σ : UState} (hsch : σ.u.scheme = ⟨0, k⟩) (hty : σ.u.uriType = t)
    (hp : σ.pnc = false) (hk : 0 < k) (hlt : i < b.size) (hfit : b.size ≤ 65535)
    (hhl : 0 < σ.u.host.len) (hend : σ.u.host.offs + σ.u.host.len < i) (hund : Undecided b k i σ)
    (hc : b[i]? = some 64) : UStepOK b t k i (uAtInParams i σ) := by
  unfold uAtInParams
  by_cases hfu : σ.foundUser = false
  · obtain ⟨⟨hu0, hp0⟩, hho, hpc⟩ := hund hfu
    simp only [hfu, beq_self_eq_true, ↓reduceIte]
    by_cases hpo : σ.passOffs = 0
    · have hne : (σ.passOffs != 0) = false := by simp [hpo]
      simp only [hne, Bool.false_eq_true, ↓reduceIte]
      have hset : PField.set σ.u.host.offs i = ⟨k, i - k⟩ := by rw [hho]; exact uset_eq (by omega) (by omega)
      have hsp : PField.setPanics σ.u.host.offs i = false := usetPanics_eq (by omega)
      have e : k + (i - k) = i := by omega
      unfold UStepOK UInv UStInv
      simp only [UState.setUser, hset, hsp, hp, Bool.or_false, Blank4]
      usplit <;> uauto
      exact Or.inr ⟨rfl, by simp only; omega, Or.inl rfl, by simp only [uafter_absent, e]; exact hc,
        by simp only [uafter_absent, e]⟩
    · have hne : (σ.passOffs != 0) = true := by simp [hpo]
      simp only [hne, ↓reduceIte]
      obtain ⟨hpa, hpb, hpcol⟩ := hpc hpo
      have hset : PField.set σ.u.host.offs σ.passOffs = ⟨k, σ.passOffs - k⟩ := by
        rw [hho]; exact uset_eq (by omega) (by omega)
      have hsp : PField.setPanics σ.u.host.offs σ.passOffs = false := usetPanics_eq (by omega)
      have hset2 : PField.set (σ.passOffs + 1) i = ⟨σ.passOffs + 1, i - (σ.passOffs + 1)⟩ :=
        uset_eq (by omega) (by omega)
      have hsp2 : PField.setPanics (σ.passOffs + 1) i = false := usetPanics_eq (by omega)
      have e : k + (σ.passOffs - k) = σ.passOffs := by omega
      have ua : uafter σ.passOffs ⟨σ.passOffs + 1, i - (σ.passOffs + 1)⟩ = i := by
        rw [uafter_mk _ _ _ rfl]; omega
      unfold UStepOK UInv UStInv
      simp only [UState.setUser, UState.setPass, hset, hsp, hset2, hsp2, hp, Bool.or_false, Blank4]
      usplit <;> uauto
      exact Or.inr ⟨rfl, by simp only; omega, Or.inr ⟨by simp only [e]; exact hpcol, by simp only [e]⟩,
        by simp only [e, ua]; exact hc, by simp only [e, ua]⟩
  · have hfu' : σ.foundUser = true := by simpa using hfu
    simp only [hfu', Bool.true_eq_false, beq_iff_eq, ↓reduceIte]
    exact ⟨by decide, rfl, hp⟩

theorem uinv_param_upd {b : Buf} {t k i : Nat} {σ σ' : UState} (h : UInv b t k i σ)
    (hst : σ.st = .param0 ∨ σ.st = .param1) (hlt : i < b.size)
    (hst' : σ'.st = .param0 ∨ σ'.st = .param1) (hu : σ'.u = σ.u) (hs : σ'.s = σ.s) (hpn : σ'.pnc = σ.pnc)
    (hund : Undecided b k (i + 1) σ') : UInv b t k (i + 1) σ' := by
  obtain ⟨hsch, hty, hp, hk, hi, hfit, hI⟩ := h
  have hI' : UserPart b k σ.u.user σ.u.pass σ.u.host.offs ∧ 0 < σ.u.host.len ∧
      USep b (σ.u.host.offs + σ.u.host.len) σ.u.port 58 ∧
      b[uafter (σ.u.host.offs + σ.u.host.len) σ.u.port]? = some 59 ∧
      σ.s = uafter (σ.u.host.offs + σ.u.host.len) σ.u.port + 1 ∧ σ.s ≤ i ∧
      σ.u.params = ⟨0, 0⟩ ∧ σ.u.headers = ⟨0, 0⟩ ∧ Undecided b k i σ := by
    unfold UStInv at hI
    rcases hst with hst | hst <;> (rw [hst] at hI; exact hI)
  obtain ⟨h1, h2, h3, h4, h5, h6, h7, h8, _⟩ := hI'
  unfold UInv UStInv
  rw [hu, hs, hpn]
  refine ⟨hsch, hty, hp, hk, hlt, hfit, ?_⟩
  rcases hst' with hst' | hst' <;>
  · rw [hst']
    simp only
    exact ⟨h1, h2, h3, h4, h5, by omega, h7, h8, hund⟩

theorem uinv_headers_upd {b : Buf} {t k i : Nat} {σ σ' : UState} (h : UInv b t k i σ)
    (hst : σ.st = .headers) (hlt : i < b.size)
    (hst' : σ'.st = .headers) (hu : σ'.u = σ.u) (hs : σ'.s = σ.s) (hpn : σ'.pnc = σ.pnc)
    (hund : Undecided b k (i + 1) σ') : UInv b t k (i + 1) σ' := by
  obtain ⟨hsch, hty, hp, hk, hi, hfit, hI⟩ := h
  unfold UStInv at hI
  rw [hst] at hI
  simp only at hI
  obtain ⟨h1, h2, h3, h4, h5, h6, h7, h8, _⟩ := hI
  unfold UInv UStInv
  rw [hu, hs, hpn]
  refine ⟨hsch, hty, hp, hk, hlt, hfit, ?_⟩
  rw [hst']
  simp only
  exact ⟨h1, h2, h3, h4, h5, h6, by omega, h8, hund⟩

theorem ustep_param {b : Buf} {t k i : Nat} {σ : UState} {c : UInt8} (h : UInv b t k i σ)
    (hst : σ.st = .param0 ∨ σ.st = .param1)
    (hc : b[i]? = some c) : UStepOK b t k i (uriStep i c σ) := by
  have h0 := h
  have hst0 := hst
  obtain ⟨hsch, hty, hp, hk, hi, hfit, hI⟩ := h
  have hlt := get?_lt hc
  have hI' : UserPart b k σ.u.user σ.u.pass σ.u.host.offs ∧ 0 < σ.u.host.len ∧
      USep b (σ.u.host.offs + σ.u.host.len) σ.u.port 58 ∧
      b[uafter (σ.u.host.offs + σ.u.host.len) σ.u.port]? = some 59 ∧
      σ.s = uafter (σ.u.host.offs + σ.u.host.len) σ.u.port + 1 ∧ σ.s ≤ i ∧
      σ.u.params = ⟨0, 0⟩ ∧ σ.u.headers = ⟨0, 0⟩ ∧ Undecided b k i σ := by
    unfold UStInv at hI
    rcases hst with hst | hst <;> (rw [hst] at hI; exact hI)
  obtain ⟨h1, h2, h3, h4, h5, h6, h7, h8, hund⟩ := hI'
  have hend : σ.u.host.offs + σ.u.host.len < i := by
    have := h3.le_uafter
    omega
  have hfcases : σ.foundUser = false ∨ σ.foundUser = true := by cases σ.foundUser <;> simp
  have hpcases : (σ.passOffs != 0) = false ∧ σ.passOffs = 0 ∨ (σ.passOffs != 0) = true ∧ σ.passOffs ≠ 0 := by
    by_cases hpo : σ.passOffs = 0
    · exact Or.inl ⟨by simp [hpo], hpo⟩
    · exact Or.inr ⟨by simp [hpo], hpo⟩
  unfold uriStep
  rcases hst with hst | hst <;>
  · rw [hst]
    simp only
    by_cases h64 : (c == 64) = true
    · simp only [h64, ↓reduceIte]
      cases beq_u8 h64
      exact ustep_at hsch hty hp hk hlt hfit h2 hend hund hc
    simp only [h64, Bool.false_eq_true, ↓reduceIte]
    by_cases h58 : (c == 58) = true
    · simp only [h58, ↓reduceIte]
      cases beq_u8 h58
      rcases hfcases with hfu | hfu
      · rcases hpcases with ⟨hne, hpo⟩ | ⟨hne, hpo⟩
        · simp only [hfu, hne, beq_self_eq_true, Bool.false_eq_true, ↓reduceIte]
          exact uinv_param_upd h0 hst0 hlt (Or.inr rfl) rfl rfl rfl (hund.mark rfl rfl hfu hend hc)
        · simp only [hfu, hne, beq_self_eq_true, ↓reduceIte]
          exact uinv_param_upd h0 hst0 hlt (Or.inr rfl) rfl rfl rfl (Undecided.found rfl)
      · simp only [hfu, Bool.true_eq_false, beq_iff_eq, ↓reduceIte]
        exact uinv_param_upd h0 hst0 hlt (Or.inr rfl) rfl rfl rfl (Undecided.found rfl)
    simp only [h58, Bool.false_eq_true, ↓reduceIte]
    by_cases h59 : (c == 59) = true
    · simp only [h59, ↓reduceIte]
      rcases hpcases with ⟨hne, hpo⟩ | ⟨hne, hpo⟩
      · simp only [hne, Bool.false_eq_true, ↓reduceIte]
        exact uinv_param_upd h0 hst0 hlt (Or.inl rfl) rfl rfl rfl (hund.mono rfl rfl rfl)
      · simp only [hne, ↓reduceIte]
        exact uinv_param_upd h0 hst0 hlt (Or.inl rfl) rfl rfl rfl (Undecided.found rfl)
    simp only [h59, Bool.false_eq_true, ↓reduceIte]
    by_cases h63 : (c == 63) = true
    · simp only [h63, ↓reduceIte]
      cases beq_u8 h63
      have hset : PField.set σ.s i = ⟨σ.s, i - σ.s⟩ := uset_eq h6 (by omega)
      have hsp : PField.setPanics σ.s i = false := usetPanics_eq h6
      have ua : uafter (uafter (σ.u.host.offs + σ.u.host.len) σ.u.port) ⟨σ.s, i - σ.s⟩ = i := by
        rw [uafter_mk _ _ _ h5]; omega
      rcases hpcases with ⟨hne, hpo⟩ | ⟨hne, hpo⟩
      · simp only [UState.setParams, hne, Bool.false_eq_true, ↓reduceIte]
        unfold UStepOK UInv UStInv
        simp only [hset, hsp, hp, Bool.or_false, ua, Undecided]
        usplit <;> uauto
        · exact Or.inr ⟨h4, h5⟩
        · intro hf
          obtain ⟨g1, g2, g3⟩ := hund hf
          exact ⟨g1, g2, fun hh => absurd hpo hh⟩
      · simp only [UState.setParams, hne, ↓reduceIte]
        unfold UStepOK UInv UStInv
        simp only [hset, hsp, hp, Bool.or_false, ua, Undecided]
        usplit <;> uauto
        · exact Or.inr ⟨h4, h5⟩
    simp only [h63, Bool.false_eq_true, ↓reduceIte]
    exact uinv_param_upd h0 hst0 hlt (Or.inr rfl) rfl rfl rfl (hund.mono rfl rfl rfl)

theorem ustep_headers {b : Buf} {t k i : Nat} {σ : UState} {c : UInt8} (h : UInv b t k i σ)
    (hst : σ.st = .headers)
    (hc : b[i]? = some c) : UStepOK b t k i (uriStep i c σ) := by
  have h0 := h
  obtain ⟨hsch, hty, hp, hk, hi, hfit, hI⟩ := h
  have hlt := get?_lt hc
  unfold UStInv at hI
  rw [hst] at hI
  simp only at hI
  obtain ⟨h1, h2, h3, h4, h5, h6, h7, h8, hund⟩ := hI
  have hend : σ.u.host.offs + σ.u.host.len < i := by
    have := h3.le_uafter
    have := h4.le_uafter
    omega
  have hfcases : σ.foundUser = false ∨ σ.foundUser = true := by cases σ.foundUser <;> simp
  have hpcases : (σ.passOffs != 0) = false ∧ σ.passOffs = 0 ∨ (σ.passOffs != 0) = true ∧ σ.passOffs ≠ 0 := by
    by_cases hpo : σ.passOffs = 0
    · exact Or.inl ⟨by simp [hpo], hpo⟩
    · exact Or.inr ⟨by simp [hpo], hpo⟩
  unfold uriStep
  rw [hst]
  simp only
  by_cases h64 : (c == 64) = true
  · simp only [h64, ↓reduceIte]
    cases beq_u8 h64
    exact ustep_at hsch hty hp hk hlt hfit h2 hend hund hc
  simp only [h64, Bool.false_eq_true, ↓reduceIte]
  by_cases h59 : (c == 59) = true
  · simp only [h59, ↓reduceIte]
    by_cases hbad : (σ.foundUser || σ.passOffs != 0) = true
    · simp only [hbad, ↓reduceIte]
      exact ⟨by decide, rfl, hp⟩
    · simp only [hbad, Bool.false_eq_true, ↓reduceIte]
      exact uinv_headers_upd h0 hst hlt rfl rfl rfl rfl (hund.mono rfl rfl rfl)
  simp only [h59, Bool.false_eq_true, ↓reduceIte]
  by_cases h58 : (c == 58) = true
  · simp only [h58, ↓reduceIte]
    cases beq_u8 h58
    rcases hfcases with hfu | hfu
    · rcases hpcases with ⟨hne, hpo⟩ | ⟨hne, hpo⟩
      · simp only [hfu, hne, beq_self_eq_true, Bool.false_eq_true, ↓reduceIte]
        exact uinv_headers_upd h0 hst hlt rfl rfl rfl rfl (hund.mark rfl rfl hfu hend hc)
      · simp only [hfu, hne, beq_self_eq_true, ↓reduceIte]
        exact uinv_headers_upd h0 hst hlt rfl rfl rfl rfl (Undecided.found rfl)
    · simp only [hfu, Bool.true_eq_false, beq_iff_eq, ↓reduceIte]
      exact uinv_headers_upd h0 hst hlt hst rfl rfl rfl (hund.mono rfl rfl rfl)
  simp only [h58, Bool.false_eq_true, ↓reduceIte]
  by_cases h63 : (c == 63) = true
  · simp only [h63, ↓reduceIte]
    rcases hpcases with ⟨hne, hpo⟩ | ⟨hne, hpo⟩
    · simp only [hne, Bool.false_eq_true, ↓reduceIte]
      exact uinv_headers_upd h0 hst hlt hst rfl rfl rfl (hund.mono rfl rfl rfl)
    · simp only [hne, ↓reduceIte]
      exact uinv_headers_upd h0 hst hlt rfl rfl rfl rfl (Undecided.found rfl)
  simp only [h63, Bool.false_eq_true, ↓reduceIte]
  exact uinv_headers_upd h0 hst hlt hst rfl rfl rfl (hund.mono rfl rfl rfl)

/-- **one step preserves the invariant** (or fails at the current position) -/
theorem uriStep_ok {b : Buf} {t k i : Nat} {σ : UState} {c : UInt8} (h : UInv b t k i σ)
    (hc : b[i]? = some c) : UStepOK b t k i (uriStep i c σ) := by
  rcases hst : σ.st with _ | _ | _ | _ | _ | _ | _ | _ | _ | _ | _ | _ | _ | _ | _ | _ | _ | _
  case initSIP => exact ustep_init h (Or.inl hst) hc
  case initSIPS => exact ustep_init h (Or.inr (Or.inl hst)) hc
  case initTEL => exact ustep_init h (Or.inr (Or.inr hst)) hc
  case user => exact ustep_user h hst hc
  case pass0 => exact ustep_pass h (Or.inl hst) hc
  case pass1 => exact ustep_pass h (Or.inr hst) hc
  case host0 => exact ustep_host0 h hst hc
  case host1 => exact ustep_host1 h hst hc
  case host61 => exact ustep_host61 h hst hc
  case host6E => exact ustep_host6E h hst hc
  case port => exact ustep_port h hst hc
  case param0 => exact ustep_param h (Or.inl hst) hc
  case param1 => exact ustep_param h (Or.inr hst) hc
  case headers => exact ustep_headers h hst hc
  all_goals
    exfalso
    have := h.2.2.2.2.2.2
    unfold UStInv at this
    rw [hst] at this
    exact this

/-! ### the loop -/

theorem uriLoop_ok {b : Buf} {t k : Nat} (i : Nat) (σ : UState) (h : UInv b t k i σ) :
    ((uriLoop b i σ).1 = .none → (uriLoop b i σ).2.1 = b.size ∧ UInv b t k b.size (uriLoop b i σ).2.2) ∧
    ((uriLoop b i σ).1 ≠ .none → (uriLoop b i σ).2.1 < b.size ∧ (uriLoop b i σ).2.2.pnc = false) := by
  fun_induction uriLoop b i σ with
  | case1 i σ hb =>
    have hge := get?_none_ge hb
    have hi : i ≤ b.size := h.2.2.2.2.1
    have : i = b.size := by omega
    subst this
    exact ⟨fun _ => ⟨rfl, h⟩, fun hne => absurd rfl hne⟩
  | case2 i σ c hb σ' hstep ih =>
    have hok := uriStep_ok h hb
    rw [hstep] at hok
    exact ih hok
  | case3 i σ c hb e p σ' hstep =>
    have hok := uriStep_ok h hb
    rw [hstep] at hok
    obtain ⟨hne, hp, hpn⟩ := hok
    have hlt := get?_lt hb
    exact ⟨fun h0 => absurd h0 hne, fun _ => ⟨by simp only [hp]; exact hlt, hpn⟩⟩

/-! ### after the loop -/

/-- the report for TEL URIs: the host found by the automaton is handed out as the user -/
def telSwap (u : PsipURI) : PsipURI := { u with user := u.host, host := {} }

/-- outcome of `uriFinish` at the end of the input -/
def UFinOK (b : Buf) (t k : Nat) (r : UErr × Nat × UState) : Prop :=
  r.2.1 = b.size ∧ r.2.2.pnc = false ∧
  (r.1 = .none → ∃ u0, URILayout b k u0 ∧ u0.uriType = t ∧ r.2.2.u = if t = TELuri then telSwap u0 else u0)

theorem ufin_ok {b : Buf} {t k : Nat} (σx : UState) (hl : URILayout b k σx.u) (hty : σx.u.uriType = t)
    (hp : σx.pnc = false) :
    UFinOK b t k (if σx.u.uriType == TELuri then
        (.none, b.size, { σx with u := { σx.u with user := σx.u.host, host := {} } })
      else (.none, b.size, σx)) := by
  by_cases ht : t = TELuri
  · have : (σx.u.uriType == TELuri) = true := by rw [hty, ht]; rfl
    rw [if_pos this]
    refine ⟨rfl, hp, fun _ => ⟨σx.u, hl, hty, ?_⟩⟩
    rw [if_pos ht]
    rfl
  · have : ¬ (σx.u.uriType == TELuri) = true := by
      rw [hty]; intro hh; exact ht (by simpa using hh)
    rw [if_neg this]
    refine ⟨rfl, hp, fun _ => ⟨σx.u, hl, hty, ?_⟩⟩
    rw [if_neg ht]

theorem ufin_err {b : Buf} {t k : Nat} (e : UErr) (σx : UState) (he : e ≠ .none) (hp : σx.pnc = false) :
    UFinOK b t k (e, b.size, σx) := ⟨rfl, hp, fun h => absurd h he⟩

theorem uriFinish_ok {b : Buf} {t k : Nat} {σ : UState} (h : UInv b t k b.size σ) :
    UFinOK b t k (uriFinish b.size σ) := by
  obtain ⟨hsch, hty, hp, hk, hi, hfit, hI⟩ := h
  unfold UStInv at hI
  rcases hst : σ.st with _ | _ | _ | _ | _ | _ | _ | _ | _ | _ | _ | _ | _ | _ | _ | _ | _ | _ <;>
    rw [hst] at hI <;> simp only at hI
  case initSIP => unfold uriFinish; rw [hst]; exact ufin_err _ _ (by decide) hp
  case initSIPS => unfold uriFinish; rw [hst]; exact ufin_err _ _ (by decide) hp
  case initTEL => unfold uriFinish; rw [hst]; exact ufin_err _ _ (by decide) hp
  case host0 => unfold uriFinish; rw [hst]; exact ufin_err _ _ (by decide) hp
  case host61 => unfold uriFinish; rw [hst]; exact ufin_err _ _ (by decide) hp
  case user =>
    obtain ⟨hs, hki, hfu, hpo, ⟨hu0, hp0⟩, hh0, hpt0, hpa0, hhd0⟩ := hI
    have hset : PField.set σ.s b.size = ⟨k, b.size - k⟩ := by rw [hs]; exact uset_eq (by omega) (by omega)
    have hsp : PField.setPanics σ.s b.size = false := usetPanics_eq (by omega)
    unfold uriFinish
    rw [hst]
    simp only [hfu, Bool.false_eq_true, ↓reduceIte]
    refine ufin_ok { σ.setHost σ.s b.size with st := .host0 } ?_ hty (by simp only [UState.setHost, hp, hsp]; rfl)
    unfold URILayout
    simp only [UState.setHost, hset, hpt0, hpa0, hhd0, uafter_absent]
    usplit <;> uauto
    · exact Or.inl ⟨hu0, hp0, rfl⟩
    · exact Or.inl rfl
    · exact Or.inl rfl
    · exact Or.inl rfl
  case pass1 =>
    unfold uriFinish
    rw [hst]
    have : (US.pass1 == US.pass1) = true := by decide
    simp only [this, Bool.or_true, ↓reduceIte]
    exact ufin_err _ _ (by decide) hp
  case pass0 =>
    obtain ⟨hfu, hpo, huo, hul, hcol, hs, hsi, hp0, hh0, hpt0, hpa0, hhd0⟩ := hI
    have hset : PField.set σ.s b.size = ⟨σ.s, b.size - σ.s⟩ := uset_eq hsi (by omega)
    have hsp : PField.setPanics σ.s b.size = false := usetPanics_eq hsi
    have ua : uafter (k + σ.u.user.len) ⟨k + σ.u.user.len + 1, b.size - (k + σ.u.user.len + 1)⟩ = b.size := by
      rw [uafter_mk _ _ _ rfl]; omega
    unfold uriFinish
    rw [hst]
    have : (US.pass0 == US.pass1) = false := by decide
    simp only [this, hfu, Bool.or_false, Bool.false_eq_true, ↓reduceIte]
    simp only [UState.setPort, hset, hsp, hp, Bool.or_false]
    by_cases hbig : σ.portNo > 65535
    · simp only [hbig, ↓reduceIte]
      exact ufin_err _ _ (by decide) rfl
    simp only [hbig, ↓reduceIte]
    refine ufin_ok { σ with pnc := false, u := { σ.u with port := ⟨σ.s, b.size - σ.s⟩, portNo := σ.portNo, host := σ.u.user, user := ⟨0, 0⟩ } } ?_ hty rfl
    unfold URILayout
    simp only [hpa0, hhd0, uafter_absent, huo, hs, ua]
    usplit <;> uauto
    · exact Or.inl ⟨rfl, hp0, rfl⟩
    · exact Or.inr ⟨hcol, rfl⟩
    · exact Or.inl rfl
    · exact Or.inl rfl
  case host1 =>
    obtain ⟨hfu, hs, hup, hh0, hpt0, hpa0, hhd0⟩ := hI
    have hset : PField.set σ.s b.size = ⟨σ.s, b.size - σ.s⟩ := uset_eq (by omega) (by omega)
    have hsp : PField.setPanics σ.s b.size = false := usetPanics_eq (by omega)
    unfold uriFinish
    rw [hst]
    refine ufin_ok (σ.setHost σ.s b.size) ?_ hty (by simp only [UState.setHost, hp, hsp]; rfl)
    unfold URILayout
    simp only [UState.setHost, hset, hpt0, hpa0, hhd0, uafter_absent]
    usplit <;> uauto
    · exact Or.inl rfl
    · exact Or.inl rfl
    · exact Or.inl rfl
  case host6E =>
    obtain ⟨hs, hup, ⟨hh0, hpt0, hpa0, hhd0⟩, _⟩ := hI
    have hset : PField.set σ.s b.size = ⟨σ.s, b.size - σ.s⟩ := uset_eq (by omega) (by omega)
    have hsp : PField.setPanics σ.s b.size = false := usetPanics_eq (by omega)
    unfold uriFinish
    rw [hst]
    refine ufin_ok (σ.setHost σ.s b.size) ?_ hty (by simp only [UState.setHost, hp, hsp]; rfl)
    unfold URILayout
    simp only [UState.setHost, hset, hpt0, hpa0, hhd0, uafter_absent]
    usplit <;> uauto
    · exact Or.inl rfl
    · exact Or.inl rfl
    · exact Or.inl rfl
  case port =>
    obtain ⟨hup, hhl, hcol, hs, hsi, hpt0, hpa0, hhd0, _⟩ := hI
    have hset : PField.set σ.s b.size = ⟨σ.s, b.size - σ.s⟩ := uset_eq hsi (by omega)
    have hsp : PField.setPanics σ.s b.size = false := usetPanics_eq hsi
    have ua : uafter (σ.u.host.offs + σ.u.host.len) ⟨σ.s, b.size - σ.s⟩ = b.size := by
      rw [uafter_mk _ _ _ hs]; omega
    unfold uriFinish
    rw [hst]
    simp only [UState.setPort, hset, hsp, hp, Bool.or_false]
    by_cases hbig : σ.portNo > 65535
    · simp only [hbig, ↓reduceIte]
      exact ufin_err _ _ (by decide) rfl
    simp only [hbig, ↓reduceIte]
    refine ufin_ok { σ with pnc := false, u := { σ.u with port := ⟨σ.s, b.size - σ.s⟩, portNo := σ.portNo } } ?_ hty rfl
    unfold URILayout
    simp only [hpa0, hhd0, uafter_absent, ua]
    usplit <;> uauto
    · exact Or.inr ⟨hcol, hs⟩
    · exact Or.inl rfl
    · exact Or.inl rfl
  case param0 =>
    obtain ⟨h1, h2, h3, h4, h5, h6, h7, h8, _⟩ := hI
    have hset : PField.set σ.s b.size = ⟨σ.s, b.size - σ.s⟩ := uset_eq h6 (by omega)
    have hsp : PField.setPanics σ.s b.size = false := usetPanics_eq h6
    have ua : uafter (uafter (σ.u.host.offs + σ.u.host.len) σ.u.port) ⟨σ.s, b.size - σ.s⟩ = b.size := by
      rw [uafter_mk _ _ _ h5]; omega
    unfold uriFinish
    rw [hst]
    refine ufin_ok (σ.setParams σ.s b.size) ?_ hty (by simp only [UState.setParams, hp, hsp]; rfl)
    unfold URILayout
    simp only [UState.setParams, hset, h8, uafter_absent, ua]
    usplit <;> uauto
    · exact Or.inr ⟨h4, h5⟩
    · exact Or.inl rfl
  case param1 =>
    obtain ⟨h1, h2, h3, h4, h5, h6, h7, h8, _⟩ := hI
    have hset : PField.set σ.s b.size = ⟨σ.s, b.size - σ.s⟩ := uset_eq h6 (by omega)
    have hsp : PField.setPanics σ.s b.size = false := usetPanics_eq h6
    have ua : uafter (uafter (σ.u.host.offs + σ.u.host.len) σ.u.port) ⟨σ.s, b.size - σ.s⟩ = b.size := by
      rw [uafter_mk _ _ _ h5]; omega
    unfold uriFinish
    rw [hst]
    refine ufin_ok (σ.setParams σ.s b.size) ?_ hty (by simp only [UState.setParams, hp, hsp]; rfl)
    unfold URILayout
    simp only [UState.setParams, hset, h8, uafter_absent, ua]
    usplit <;> uauto
    · exact Or.inr ⟨h4, h5⟩
    · exact Or.inl rfl
  case headers =>
    obtain ⟨h1, h2, h3, h4, h5, h6, h7, h8, _⟩ := hI
    have hset : PField.set σ.s b.size = ⟨σ.s, b.size - σ.s⟩ := uset_eq h7 (by omega)
    have hsp : PField.setPanics σ.s b.size = false := usetPanics_eq h7
    have ua : uafter (uafter (uafter (σ.u.host.offs + σ.u.host.len) σ.u.port) σ.u.params) ⟨σ.s, b.size - σ.s⟩
        = b.size := by
      rw [uafter_mk _ _ _ h6]; omega
    unfold uriFinish
    rw [hst]
    simp only [UState.setHeaders, hset, hsp, hp, Bool.or_false]
    by_cases herr : σ.errHeaders = true
    · simp only [herr, ↓reduceIte]
      exact ufin_err _ _ (by decide) rfl
    simp only [herr, Bool.false_eq_true, ↓reduceIte]
    refine ufin_ok { σ with pnc := false, errHeaders := false, u := { σ.u with headers := ⟨σ.s, b.size - σ.s⟩ } } ?_ hty rfl
    unfold URILayout
    simp only [ua]
    usplit <;> uauto
    exact Or.inr ⟨h5, h6⟩

/-! ### ParseURI -/

/-- what `parseURI` returns for a URI of type `t` whose scheme (with ':') has length `k` -/
def UResOK (b : Buf) (t k : Nat) (r : UErr × Nat × PsipURI × Bool) : Prop :=
  r.2.1 ≤ b.size ∧ r.2.2.2 = false ∧
  (r.1 = .none → r.2.1 = b.size ∧
    ∃ u0, URILayout b k u0 ∧ u0.uriType = t ∧ r.2.2.1 = if t = TELuri then telSwap u0 else u0)

theorem ustart_ok {b : Buf} {t k : Nat} {σ0 : UState} (h : UInv b t k k σ0) :
    UResOK b t k (match uriLoop b k σ0 with
      | (.none, i, σ) =>
        match uriFinish i σ with
        | (e, p, σ') => (e, p, σ'.u, σ'.pnc)
      | (e, p, σ) => (e, p, σ.u, σ.pnc)) := by
  have hl := uriLoop_ok k σ0 h
  rcases hq : uriLoop b k σ0 with ⟨e, i, σ⟩
  rw [hq] at hl
  simp only at hl
  by_cases he : e = .none
  · subst he
    obtain ⟨hi, hinv⟩ := hl.1 rfl
    subst hi
    obtain ⟨f1, f2, f3⟩ := uriFinish_ok hinv
    simp only
    exact ⟨by rw [f1]; exact Nat.le_refl _, f2, fun h0 => ⟨f1, f3 h0⟩⟩
  · obtain ⟨g1, g2⟩ := hl.2 he
    have : (match (e, i, σ) with
      | (.none, i, σ) =>
        match uriFinish i σ with
        | (e, p, σ') => (e, p, σ'.u, σ'.pnc)
      | (e, p, σ) => (e, p, σ.u, σ.pnc)) = (e, i, σ.u, σ.pnc) := by
      cases e <;> first | rfl | exact absurd rfl he
    rw [this]
    exact ⟨by simp only; omega, g2, fun h0 => absurd h0 he⟩

theorem uinv_start (b : Buf) (t k : Nat) (st : US) (hst : st = .initSIP ∨ st = .initSIPS ∨ st = .initTEL)
    (hk : 0 < k) (hk2 : k ≤ b.size) (hfit : b.size ≤ 65535) :
    UInv b t k k { st := st, u := { uriType := t, scheme := PField.set 0 k } } := by
  have hset : PField.set 0 k = ⟨0, k⟩ := uset_eq (Nat.zero_le _) (by omega)
  rcases hst with rfl | rfl | rfl <;>
  · unfold UInv UStInv
    simp only [hset, NoUP, Blank4]
    usplit <;> uauto

/-! #### the scheme test: the first four bytes OR-ed with 0x20 each; the fourth byte is ':' or 0x1a -/

theorem usch_fin : ∀ n : Fin 256, n.val ||| 32 = 58 → n.val = 58 ∨ n.val = 26 := by decide +kernel
theorem usch_ax2 (x : Nat) (hx : x < 256) : x * 65536 / 16777216 = 0 := by omega
theorem usch_ax1 (x : Nat) (hx : x < 256) : x * 256 / 16777216 = 0 := by omega
theorem usch_ax0 (x : Nat) (hx : x < 256) : x / 16777216 = 0 := by omega

theorem usch_byte3 (b0 b1 b2 b3 : UInt8) (C : Nat) (hC : C >>> 24 = 58)
    (h : (b3.toNat <<< 24 ||| b2.toNat <<< 16 ||| b1.toNat <<< 8 ||| b0.toNat ||| 0x20202020) = C) :
    b3 = 58 ∨ b3 = 26 := by
  have h3 : b3.toNat < 256 := b3.toNat_lt
  have h2 : b2.toNat < 256 := b2.toNat_lt
  have h1 : b1.toNat < 256 := b1.toNat_lt
  have h0 : b0.toNat < 256 := b0.toNat_lt
  have := congrArg (· >>> 24) h
  simp only [Nat.shiftRight_or_distrib, Nat.shiftLeft_shiftRight] at this
  rw [Nat.shiftLeft_eq, Nat.shiftLeft_eq, Nat.shiftRight_eq_div_pow (b2.toNat * _),
    Nat.shiftRight_eq_div_pow (b1.toNat * _), Nat.shiftRight_eq_div_pow b0.toNat] at this
  simp only [Nat.reducePow] at this
  rw [usch_ax2 _ h2, usch_ax1 _ h1, usch_ax0 _ h0, hC] at this
  simp only [Nat.or_zero, Nat.reduceShiftRight] at this
  have hh := usch_fin ⟨b3.toNat, h3⟩ this
  simp only at hh
  rcases hh with hh | hh
  · left; exact UInt8.toNat_inj.mp hh
  · right; exact UInt8.toNat_inj.mp hh

/-- the byte that closes a three-letter scheme: ':' — or 0x1a, which the OR with 0x20 also maps to ':' -/
def USchEnd (b : Buf) : Prop := b[3]? = some 58 ∨ b[3]? = some 26

/-- **ParseURI, all inputs of at most 65,535 bytes**: never panics, reports a position inside the input, and when it
    accepts, it has consumed everything and the components tile the input (`URILayout`; for tel: after the swap). -/
theorem parseURI_ok (b : Buf) (hfit : b.size ≤ 65535) :
    (parseURI b {}).2.1 ≤ b.size ∧ (parseURI b {}).2.2.2 = false ∧
    ((parseURI b {}).1 = .none →
      (parseURI b {}).2.1 = b.size ∧
      ∃ t k u0, ((t = SIPuri ∧ k = 4 ∧ USchEnd b) ∨ (t = TELuri ∧ k = 4 ∧ USchEnd b) ∨
          (t = SIPSuri ∧ k = 5 ∧ b[4]? = some 58)) ∧
        URILayout b k u0 ∧ u0.uriType = t ∧ (parseURI b {}).2.2.1 = if t = TELuri then telSwap u0 else u0) := by
  unfold parseURI
  split
  · rename_i b0 b1 b2 b3 b4 h0 h1 h2 h3 h4
    have hsz := get?_lt h4
    simp only
    by_cases hsip : ((b3.toNat <<< 24 ||| b2.toNat <<< 16 ||| b1.toNat <<< 8 ||| b0.toNat ||| 0x20202020)
        == Gen.C.ParseURI_SchSIP) = true
    · simp only [hsip, ↓reduceIte]
      obtain ⟨r1, r2, r3⟩ := ustart_ok (uinv_start b SIPuri 4 .initSIP (Or.inl rfl) (by omega) (by omega) hfit)
      refine ⟨r1, r2, fun h0 => ?_⟩
      obtain ⟨r4, u0, r5, r6, r7⟩ := r3 h0
      have hb3 : USchEnd b := by
        rcases usch_byte3 b0 b1 b2 b3 _ (by decide) (eq_of_beq hsip) with rfl | rfl
        · exact Or.inl h3
        · exact Or.inr h3
      exact ⟨r4, SIPuri, 4, u0, Or.inl ⟨rfl, rfl, hb3⟩, r5, r6, r7⟩
    simp only [hsip, Bool.false_eq_true, ↓reduceIte]
    by_cases htel : ((b3.toNat <<< 24 ||| b2.toNat <<< 16 ||| b1.toNat <<< 8 ||| b0.toNat ||| 0x20202020)
        == Gen.C.ParseURI_SchTEL) = true
    · simp only [htel, ↓reduceIte]
      obtain ⟨r1, r2, r3⟩ := ustart_ok (uinv_start b TELuri 4 .initTEL (Or.inr (Or.inr rfl)) (by omega) (by omega) hfit)
      refine ⟨r1, r2, fun h0 => ?_⟩
      obtain ⟨r4, u0, r5, r6, r7⟩ := r3 h0
      have hb3 : USchEnd b := by
        rcases usch_byte3 b0 b1 b2 b3 _ (by decide) (eq_of_beq htel) with rfl | rfl
        · exact Or.inl h3
        · exact Or.inr h3
      exact ⟨r4, TELuri, 4, u0, Or.inr (Or.inl ⟨rfl, rfl, hb3⟩), r5, r6, r7⟩
    simp only [htel, Bool.false_eq_true, ↓reduceIte]
    by_cases hsips : ((b3.toNat <<< 24 ||| b2.toNat <<< 16 ||| b1.toNat <<< 8 ||| b0.toNat ||| 0x20202020)
        == Gen.C.ParseURI_SchSIPS) = true
    · simp only [hsips, ↓reduceIte]
      by_cases h58 : (b4 == 58) = true
      · simp only [h58, ↓reduceIte]
        cases beq_u8 h58
        obtain ⟨r1, r2, r3⟩ := ustart_ok (uinv_start b SIPSuri 5 .initSIPS (Or.inr (Or.inl rfl)) (by omega) (by omega) hfit)
        refine ⟨r1, r2, fun h0 => ?_⟩
        obtain ⟨r4, u0, r5, r6, r7⟩ := r3 h0
        exact ⟨r4, SIPSuri, 5, u0, Or.inr (Or.inr ⟨rfl, rfl, h4⟩), r5, r6, r7⟩
      · simp only [h58, Bool.false_eq_true, ↓reduceIte]
        exact ⟨by omega, trivial, fun h => by cases h⟩
    · simp only [hsips, Bool.false_eq_true, ↓reduceIte]
      exact ⟨by omega, trivial, fun h => by cases h⟩
  · exact ⟨Nat.le_refl _, rfl, fun h => by cases h⟩

/-! ### consequences of the layout: order, bounds, byte-for-byte reconstruction -/

theorem USep.arith {b : Buf} {p : Nat} {f : PField} {d : UInt8} (h : USep b p f d) :
    (f.offs = 0 ∧ f.len = 0 ∧ uafter p f = p) ∨ (f.offs = p + 1 ∧ uafter p f = p + 1 + f.len) := by
  rcases h with rfl | ⟨_, h⟩
  · exact Or.inl ⟨rfl, rfl, rfl⟩
  · exact Or.inr ⟨h, uafter_present h⟩

theorem UserPart.arith {b : Buf} {k pH : Nat} {user pass : PField} (h : UserPart b k user pass pH) :
    (user.offs = 0 ∧ user.len = 0 ∧ pass.offs = 0 ∧ pass.len = 0 ∧ pH = k) ∨
    (user.offs = k ∧ 0 < user.len ∧ pH = uafter (k + user.len) pass + 1 ∧
      ((pass.offs = 0 ∧ pass.len = 0 ∧ uafter (k + user.len) pass = k + user.len) ∨
       (pass.offs = k + user.len + 1 ∧ uafter (k + user.len) pass = k + user.len + 1 + pass.len))) := by
  rcases h with ⟨rfl, rfl, h⟩ | ⟨h1, h2, h3, _, h5⟩
  · exact Or.inl ⟨rfl, rfl, rfl, rfl, h⟩
  · exact Or.inr ⟨h1, h2, h5, h3.arith⟩

/-- `f` lies strictly before `g` (at least one delimiter byte in between) when both are present -/
def UBefore (f g : PField) : Prop := f.offs ≠ 0 → g.offs ≠ 0 → f.offs + f.len < g.offs

/-- **order, disjointness, bounds**: the scheme is `[0, k)`; the components that are present (`offs ≠ 0`) start at or
    after `k`, lie inside the buffer, and come strictly one after the other in the order user, password, host, port,
    parameters, headers; the host is present and not empty. -/
theorem URILayout.order {b : Buf} {k : Nat} {u : PsipURI} (h : URILayout b k u) (hk : 0 < k) :
    u.scheme = ⟨0, k⟩ ∧ k ≤ b.size ∧ 0 < u.host.len ∧ k ≤ u.host.offs ∧
    (∀ f ∈ [u.user, u.pass, u.host, u.port, u.params, u.headers],
      f.offs + f.len ≤ b.size ∧ (f.offs ≠ 0 → k ≤ f.offs)) ∧
    List.Pairwise UBefore [u.user, u.pass, u.host, u.port, u.params, u.headers] := by
  obtain ⟨hsch, hup, hhl, h1, h2, h3, hend⟩ := h
  have a0 := hup.arith
  have a1 := h1.arith
  have a2 := h2.arith
  have a3 := h3.arith
  generalize uafter (k + u.user.len) u.pass = q0 at a0
  generalize uafter (uafter (uafter (u.host.offs + u.host.len) u.port) u.params) u.headers = q3 at a3 hend
  generalize uafter (uafter (u.host.offs + u.host.len) u.port) u.params = q2 at a2 a3
  generalize uafter (u.host.offs + u.host.len) u.port = q1 at a1 a2
  refine ⟨hsch, by omega, hhl, by omega, ?_, ?_⟩
  · intro f hf
    simp only [List.mem_cons, List.not_mem_nil, or_false] at hf
    rcases hf with rfl | rfl | rfl | rfl | rfl | rfl <;> (constructor <;> omega)
  · unfold UBefore
    refine List.Pairwise.cons ?_ (List.Pairwise.cons ?_ (List.Pairwise.cons ?_ (List.Pairwise.cons ?_
      (List.Pairwise.cons ?_ (List.Pairwise.cons ?_ List.Pairwise.nil))))) <;>
    · intro g hg
      simp only [List.mem_cons, List.not_mem_nil, or_false] at hg <;>
      first
        | (rcases hg with rfl | rfl | rfl | rfl | rfl <;> omega)
        | (rcases hg with rfl | rfl | rfl | rfl <;> omega)
        | (rcases hg with rfl | rfl | rfl <;> omega)
        | (rcases hg with rfl | rfl <;> omega)
        | (rcases hg with rfl <;> omega)

theorem uext_append (b : Buf) {p q r : Nat} (h1 : p ≤ q) (h2 : q ≤ r) :
    b.extract p q ++ b.extract q r = b.extract p r := by
  rw [Array.extract_append_extract, Nat.min_eq_left h1, Nat.max_eq_right h2]

theorem uext_single {b : Buf} {p : Nat} {d : UInt8} (h : b[p]? = some d) : b.extract p (p + 1) = #[d] := by
  obtain ⟨hlt, he⟩ := Array.getElem?_eq_some_iff.mp h
  rw [Array.extract_succ_right (by omega) hlt, he, Array.extract_empty_of_stop_le_start (Nat.le_refl _)]
  rfl

/-- the bytes of a component -/
def useg (b : Buf) (f : PField) : Buf := b.extract f.offs (f.offs + f.len)
/-- an optional component with its leading delimiter -/
def uopt (b : Buf) (d : UInt8) (f : PField) : Buf := if f.offs = 0 then #[] else #[d] ++ useg b f
/-- the URI written out again from the reported components -/
def urender (b : Buf) (u : PsipURI) : Buf :=
  useg b u.scheme ++ (if u.user.offs = 0 then #[] else useg b u.user ++ uopt b 58 u.pass ++ #[64]) ++
    useg b u.host ++ uopt b 58 u.port ++ uopt b 59 u.params ++ uopt b 63 u.headers

theorem uopt_eq {b : Buf} {p : Nat} {f : PField} {d : UInt8} (h : USep b p f d) :
    uopt b d f = b.extract p (uafter p f) := by
  rcases h with rfl | ⟨hd, ho⟩
  · unfold uopt
    rw [if_pos rfl, uafter_absent, Array.extract_empty_of_stop_le_start (Nat.le_refl _)]
  · unfold uopt useg
    rw [if_neg (by omega), uafter_present ho, ho, ← uext_single hd]
    exact uext_append b (by omega) (by omega)

theorem uuserpart_eq {b : Buf} {k pH : Nat} {user pass : PField} (h : UserPart b k user pass pH) (hk : 0 < k) :
    (if user.offs = 0 then #[] else useg b user ++ uopt b 58 pass ++ #[64]) = b.extract k pH := by
  rcases h with ⟨rfl, rfl, rfl⟩ | ⟨h1, h2, h3, h4, rfl⟩
  · rw [if_pos rfl, Array.extract_empty_of_stop_le_start (Nat.le_refl _)]
  · rw [if_neg (by omega), uopt_eq h3, ← uext_single h4]
    unfold useg
    rw [h1, uext_append b (by omega) h3.le_uafter]
    exact uext_append b (by have := h3.le_uafter; omega) (by omega)

/-- **lossless**: the components joined with their delimiters are the input, byte for byte -/
theorem URILayout.join {b : Buf} {k : Nat} {u : PsipURI} (h : URILayout b k u) (hk : 0 < k) : urender b u = b := by
  obtain ⟨hsch, hup, hhl, h1, h2, h3, hend⟩ := h
  unfold urender
  rw [uuserpart_eq hup hk, uopt_eq h1, uopt_eq h2, uopt_eq h3, hend]
  have hkH : k ≤ u.host.offs := by
    have := hup.arith
    omega
  unfold useg
  rw [hsch]
  simp only [Nat.zero_add]
  rw [uext_append b (Nat.zero_le _) hkH, uext_append b (Nat.zero_le _) (by omega),
    uext_append b (Nat.zero_le _) (by have := h1.le_uafter; omega),
    uext_append b (Nat.zero_le _) (by have := h1.le_uafter; have := h2.le_uafter; omega),
    uext_append b (Nat.zero_le _) (by have := h1.le_uafter; have := h2.le_uafter; have := h3.le_uafter; omega)]
  exact Array.extract_size

/-- every component can be sliced out of the buffer (Go's `Get` does not panic) -/
theorem URILayout.get {b : Buf} {k : Nat} {u : PsipURI} (h : URILayout b k u) (hk : 0 < k) (hfit : b.size ≤ 65535) :
    ∀ f ∈ [u.scheme, u.user, u.pass, u.host, u.port, u.params, u.headers],
      PField.get? b f = some (b.extract f.offs (f.offs + f.len)) := by
  obtain ⟨hsch, hkb, _, _, hin, _⟩ := h.order hk
  intro f hf
  have hb : f.offs + f.len ≤ b.size := by
    rcases List.mem_cons.mp hf with rfl | hf'
    · rw [hsch]; simp only; omega
    · exact (hin f hf').1
  exact field_get? b f.offs f.len hb hfit

/-- what is written out for a tel: URI: scheme, number (reported as user), then the optional parts -/
def utelRender (b : Buf) (u : PsipURI) : Buf :=
  useg b u.scheme ++ useg b u.user ++ uopt b 58 u.port ++ uopt b 59 u.params ++ uopt b 63 u.headers

theorem URILayout.tel_join {b : Buf} {k : Nat} {u0 : PsipURI} (h : URILayout b k u0) (hk : 0 < k)
    (hno : u0.host.offs = k) : utelRender b (telSwap u0) = b := by
  have hj := h.join hk
  have hu : u0.user.offs = 0 := by
    have := h.2.1.arith
    omega
  unfold urender at hj
  rw [if_pos hu, Array.append_empty] at hj
  exact hj

/-! ### which '@' splits: no '@' after the start of the host (or after the first byte, when there is no user) -/

/-- from where on no '@' may occur: the start of the host being read, or of the host already reported -/
def uanchor (σ : UState) : Nat :=
  match σ.st with
  | .host0 | .host1 | .host61 | .host6E => σ.s
  | _ => σ.u.host.offs

/-- no '@' among the bytes read so far that lie after the first byte behind the scheme and at / after the anchor -/
def UAtInv (b : Buf) (k i : Nat) (σ : UState) : Prop :=
  ∀ j, k < j → uanchor σ ≤ j → j < i → b[j]? ≠ some 64

/-- what a step does to the anchor -/
def UAtStepOK (k i : Nat) (c : UInt8) (σ : UState) : UStep → Prop
  | .next σ' => (c = 64 → i + 1 ≤ uanchor σ' ∨ i = k) ∧
      (i + 1 ≤ uanchor σ' ∨ i = k ∨ uanchor σ ≤ uanchor σ' ∨ uanchor σ ≤ k + 1)
  | .fail _ _ _ => True

theorem uat_of_step {b : Buf} {k i : Nat} {c : UInt8} {σ σ' : UState} (hinv : UAtInv b k i σ)
    (hc : b[i]? = some c) (h : UAtStepOK k i c σ (.next σ')) : UAtInv b k (i + 1) σ' := by
  obtain ⟨h1, h2⟩ := h
  intro j hkj haj hji hj
  by_cases hlt : j < i
  · refine hinv j hkj ?_ hlt hj
    omega
  · have hji' : j = i := by omega
    subst hji'
    rw [hc] at hj
    cases hj
    have := h1 rfl
    omega
theorem upf_eq_zero (f : PField) : f = ⟨0, 0⟩ ↔ f.offs = 0 ∧ f.len = 0 := by
  rcases f with ⟨o, l⟩
  simp

theorem ustep_anchor {b : Buf} {t k i : Nat} {σ : UState} {c : UInt8} (h : UInv b t k i σ)
    (hc : b[i]? = some c) : UAtStepOK k i c σ (uriStep i c σ) := by
  obtain ⟨hsch, hty, hp, hk, hi, hfit, hI⟩ := h
  have hlt := get?_lt hc
  rcases σ with ⟨st, s, fu, po, pn, eh, u, pnc⟩
  cases st <;> simp only [UStInv, Blank4, NoUP, upf_eq_zero] at hI
  all_goals
    simp only [uriStep, uAtInParams]
    repeat' split
    all_goals try simp only [UAtStepOK, uanchor, UState.setHost, UState.setUser, UState.setPass, UState.setPort,
      UState.setParams, PField.set, trunc16]
    all_goals try trivial
    all_goals refine ⟨fun hc64 => ?_, ?_⟩
    all_goals first | omega | (subst hc64; simp_all; done) | (subst hc64; rename_i hd; exact absurd hd (by decide))
theorem uriLoop_at {b : Buf} {t k : Nat} (i : Nat) (σ : UState) (h : UInv b t k i σ) (ha : UAtInv b k i σ) :
    (uriLoop b i σ).1 = .none → UAtInv b k b.size (uriLoop b i σ).2.2 := by
  fun_induction uriLoop b i σ with
  | case1 i σ hb =>
    have hge := get?_none_ge hb
    have hi : i ≤ b.size := h.2.2.2.2.1
    have : i = b.size := by omega
    subst this
    exact fun _ => ha
  | case2 i σ c hb σ' hstep ih =>
    have hok := uriStep_ok h hb
    have hat := ustep_anchor h hb
    rw [hstep] at hok hat
    exact ih hok (uat_of_step ha hb hat)
  | case3 i σ c hb e p σ' hstep =>
    have hok := uriStep_ok h hb
    rw [hstep] at hok
    exact fun h0 => absurd h0 hok.1

/-- where the host starts in the report (for tel: it is handed out as the user) -/
def uhostStart (u : PsipURI) : Nat := if u.uriType = TELuri then u.user.offs else u.host.offs

theorem uriFinish_anchor {b : Buf} {t k n : Nat} {σ : UState} (h : UInv b t k n σ) :
    (uriFinish n σ).1 = .none →
      uanchor σ ≤ uhostStart (uriFinish n σ).2.2.u ∨ (uanchor σ ≤ k + 1 ∧ k ≤ uhostStart (uriFinish n σ).2.2.u) := by
  obtain ⟨hsch, hty, hp, hk, hi, hfit, hI⟩ := h
  rcases σ with ⟨st, s, fu, po, pn, eh, u, pnc⟩
  simp only at hty
  by_cases ht : t = TELuri
  · have hb : (t == TELuri) = true := by rw [ht]; rfl
    cases st <;> simp only [UStInv, Blank4, NoUP, upf_eq_zero] at hI
    all_goals
      simp only [uriFinish, UState.setHost, UState.setUser, UState.setPass, UState.setPort,
        UState.setParams, UState.setHeaders, hty, hb, ↓reduceIte]
      repeat' split
      all_goals try simp only [uanchor, uhostStart, hty, ht, ↓reduceIte, PField.set, trunc16]
      all_goals intro hacc
      all_goals first | (cases hacc; done) | omega
  · have hb : (t == TELuri) = false := by simpa using ht
    cases st <;> simp only [UStInv, Blank4, NoUP, upf_eq_zero] at hI
    all_goals
      simp only [uriFinish, UState.setHost, UState.setUser, UState.setPass, UState.setPort,
        UState.setParams, UState.setHeaders, hty, hb, Bool.false_eq_true, ↓reduceIte]
      repeat' split
      all_goals try simp only [uanchor, uhostStart, hty, ht, ↓reduceIte, PField.set, trunc16]
      all_goals intro hacc
      all_goals first | (cases hacc; done) | omega
theorem ures_scheme {b : Buf} {t k : Nat} {r : UErr × Nat × PsipURI × Bool} (h : UResOK b t k r)
    (hacc : r.1 = .none) : r.2.2.1.scheme = ⟨0, k⟩ := by
  obtain ⟨_, u0, hl, _, hu⟩ := h.2.2 hacc
  rw [hu]
  by_cases ht : t = TELuri
  · rw [if_pos ht]; exact hl.1
  · rw [if_neg ht]; exact hl.1

theorem ustart_at {b : Buf} {t k : Nat} {σ0 : UState} (h : UInv b t k k σ0) :
    (match uriLoop b k σ0 with
      | (.none, i, σ) =>
        match uriFinish i σ with
        | (e, p, σ') => (e, p, σ'.u, σ'.pnc)
      | (e, p, σ) => (e, p, σ.u, σ.pnc)).1 = .none →
    ∀ j, k < j → uhostStart (match uriLoop b k σ0 with
      | (.none, i, σ) =>
        match uriFinish i σ with
        | (e, p, σ') => (e, p, σ'.u, σ'.pnc)
      | (e, p, σ) => (e, p, σ.u, σ.pnc)).2.2.1 ≤ j → j < b.size → b[j]? ≠ some 64 := by
  have ha0 : UAtInv b k k σ0 := fun j h1 _ h3 => absurd h3 (by omega)
  have hl := uriLoop_ok k σ0 h
  have hla := uriLoop_at k σ0 h ha0
  rcases hq : uriLoop b k σ0 with ⟨e, i, σ⟩
  rw [hq] at hl hla
  simp only at hl hla
  by_cases he : e = .none
  · subst he
    obtain ⟨hi, hinv⟩ := hl.1 rfl
    subst hi
    have hat := hla rfl
    have hfa := uriFinish_anchor hinv
    simp only
    intro hacc j hkj hsj hjn
    have hsj' : uhostStart (uriFinish b.size σ).2.2.u ≤ j := hsj
    have hfa' : uanchor σ ≤ uhostStart (uriFinish b.size σ).2.2.u ∨
        (uanchor σ ≤ k + 1 ∧ k ≤ uhostStart (uriFinish b.size σ).2.2.u) := hfa hacc
    rcases hfa' with h1 | ⟨h1, _⟩
    · exact hat j hkj (by omega) hjn
    · exact hat j hkj (by omega) hjn
  · intro hacc
    exfalso
    apply he
    cases e <;> first | rfl | exact hacc

/-- **the '@' that ends the user-info is the last '@' of an accepted URI**; without user-info the only place where
    an '@' can be is the very first byte after the scheme (`k` = scheme length). -/
theorem parseURI_at (b : Buf) (hfit : b.size ≤ 65535) (hacc : (parseURI b {}).1 = .none) :
    ∀ j, (parseURI b {}).2.2.1.scheme.len < j → uhostStart (parseURI b {}).2.2.1 ≤ j → j < b.size →
      b[j]? ≠ some 64 := by
  revert hacc
  unfold parseURI
  split
  · rename_i b0 b1 b2 b3 b4 h0 h1 h2 h3 h4
    have hsz := get?_lt h4
    simp only
    by_cases hsip : ((b3.toNat <<< 24 ||| b2.toNat <<< 16 ||| b1.toNat <<< 8 ||| b0.toNat ||| 0x20202020)
        == Gen.C.ParseURI_SchSIP) = true
    · simp only [hsip, ↓reduceIte]
      have hinv := uinv_start b SIPuri 4 .initSIP (Or.inl rfl) (by omega) (by omega) hfit
      intro hacc j hkj hsj hjn
      have e := (congrArg PField.len (ures_scheme (ustart_ok hinv) hacc)).symm
      exact ustart_at hinv hacc j (Nat.lt_of_le_of_lt (Nat.le_of_eq e) hkj) hsj hjn
    simp only [hsip, Bool.false_eq_true, ↓reduceIte]
    by_cases htel : ((b3.toNat <<< 24 ||| b2.toNat <<< 16 ||| b1.toNat <<< 8 ||| b0.toNat ||| 0x20202020)
        == Gen.C.ParseURI_SchTEL) = true
    · simp only [htel, ↓reduceIte]
      have hinv := uinv_start b TELuri 4 .initTEL (Or.inr (Or.inr rfl)) (by omega) (by omega) hfit
      intro hacc j hkj hsj hjn
      have e := (congrArg PField.len (ures_scheme (ustart_ok hinv) hacc)).symm
      exact ustart_at hinv hacc j (Nat.lt_of_le_of_lt (Nat.le_of_eq e) hkj) hsj hjn
    simp only [htel, Bool.false_eq_true, ↓reduceIte]
    by_cases hsips : ((b3.toNat <<< 24 ||| b2.toNat <<< 16 ||| b1.toNat <<< 8 ||| b0.toNat ||| 0x20202020)
        == Gen.C.ParseURI_SchSIPS) = true
    · simp only [hsips, ↓reduceIte]
      by_cases h58 : (b4 == 58) = true
      · simp only [h58, ↓reduceIte]
        have hinv := uinv_start b SIPSuri 5 .initSIPS (Or.inr (Or.inl rfl)) (by omega) (by omega) hfit
        intro hacc j hkj hsj hjn
        have e := (congrArg PField.len (ures_scheme (ustart_ok hinv) hacc)).symm
        exact ustart_at hinv hacc j (Nat.lt_of_le_of_lt (Nat.le_of_eq e) hkj) hsj hjn
      · simp only [h58, Bool.false_eq_true, ↓reduceIte]
        intro hacc
        cases hacc
    · simp only [hsips, Bool.false_eq_true, ↓reduceIte]
      intro hacc
      cases hacc
  · intro hacc
    cases hacc

/-! ### bracketed hosts keep their brackets -/

/-- a host that starts with '[' ends with ']' -/
def UHostBr (b : Buf) (h : PField) : Prop := b[h.offs]? = some 91 → b[h.offs + h.len - 1]? = some 93

def UBrInv (b : Buf) (k i : Nat) (σ : UState) : Prop :=
  match σ.st with
  | .user | .pass0 | .pass1 => b[k]? ≠ some 91
  | .host1 => b[σ.s]? ≠ some 91
  | .host61 => b[σ.s]? = some 91
  | .host6E => b[σ.s]? = some 91 ∧ b[i - 1]? = some 93
  | .port | .param0 | .param1 | .headers => UHostBr b σ.u.host
  | _ => True

def UBrStepOK (b : Buf) (k i : Nat) : UStep → Prop
  | .next σ' => UBrInv b k (i + 1) σ'
  | .fail _ _ _ => True

theorem ustep_br {b : Buf} {t k i : Nat} {σ : UState} {c : UInt8} (h : UInv b t k i σ) (hbr : UBrInv b k i σ)
    (hc : b[i]? = some c) : UBrStepOK b k i (uriStep i c σ) := by
  obtain ⟨hsch, hty, hp, hk, hi, hfit, hI⟩ := h
  have hlt := get?_lt hc
  rcases σ with ⟨st, s, fu, po, pn, eh, u, pnc⟩
  cases st <;> simp only [UStInv, Blank4, NoUP, upf_eq_zero] at hI <;> simp only [UBrInv] at hbr
  all_goals
    try (have e0 : s % 65536 = s := by omega)
    try (have e1 : (i - s) % 65536 = i - s := by omega)
    try (have e2 : s + (i - s) - 1 = i - 1 := by omega)
    simp only [uriStep, uAtInParams]
    repeat' split
    all_goals try simp only [UBrStepOK, UBrInv, UHostBr, UState.setHost, UState.setUser, UState.setPass,
      UState.setPort, UState.setParams, PField.set, trunc16]
    all_goals try trivial
    all_goals try simp only [e0, e1, e2]
    all_goals simp_all
theorem uriLoop_br {b : Buf} {t k : Nat} (i : Nat) (σ : UState) (h : UInv b t k i σ) (ha : UBrInv b k i σ) :
    (uriLoop b i σ).1 = .none → UBrInv b k b.size (uriLoop b i σ).2.2 := by
  fun_induction uriLoop b i σ with
  | case1 i σ hb =>
    have hge := get?_none_ge hb
    have hi : i ≤ b.size := h.2.2.2.2.1
    have : i = b.size := by omega
    subst this
    exact fun _ => ha
  | case2 i σ c hb σ' hstep ih =>
    have hok := uriStep_ok h hb
    have hat := ustep_br h ha hb
    rw [hstep] at hok hat
    exact ih hok hat
  | case3 i σ c hb e p σ' hstep =>
    have hok := uriStep_ok h hb
    rw [hstep] at hok
    exact fun h0 => absurd h0 hok.1

/-- the host in the report (for tel: it is handed out as the user) -/
def uhostField (u : PsipURI) : PField := if u.uriType = TELuri then u.user else u.host

theorem uriFinish_br {b : Buf} {t k n : Nat} {σ : UState} (h : UInv b t k n σ) (hbr : UBrInv b k n σ) :
    (uriFinish n σ).1 = .none → UHostBr b (uhostField (uriFinish n σ).2.2.u) := by
  obtain ⟨hsch, hty, hp, hk, hi, hfit, hI⟩ := h
  rcases σ with ⟨st, s, fu, po, pn, eh, u, pnc⟩
  simp only at hty
  by_cases ht : t = TELuri
  · have hb : (t == TELuri) = true := by rw [ht]; rfl
    cases st <;> simp only [UStInv, Blank4, NoUP, upf_eq_zero] at hI <;> simp only [UBrInv, UHostBr] at hbr
    all_goals
      try (have e0 : s % 65536 = s := by omega)
      try (have e1 : (n - s) % 65536 = n - s := by omega)
      try (have e2 : s + (n - s) - 1 = n - 1 := by omega)
      simp only [uriFinish, UState.setHost, UState.setUser, UState.setPass, UState.setPort,
        UState.setParams, UState.setHeaders, hty, hb, ↓reduceIte]
      repeat' split
      all_goals try simp only [uhostField, UHostBr, hty, ht, ↓reduceIte, PField.set, trunc16]
      all_goals intro hacc
      all_goals first | (cases hacc; done) | skip
      all_goals try simp only [e0, e1, e2]
      all_goals simp_all
  · have hb : (t == TELuri) = false := by simpa using ht
    cases st <;> simp only [UStInv, Blank4, NoUP, upf_eq_zero] at hI <;> simp only [UBrInv, UHostBr] at hbr
    all_goals
      try (have e0 : s % 65536 = s := by omega)
      try (have e1 : (n - s) % 65536 = n - s := by omega)
      try (have e2 : s + (n - s) - 1 = n - 1 := by omega)
      simp only [uriFinish, UState.setHost, UState.setUser, UState.setPass, UState.setPort,
        UState.setParams, UState.setHeaders, hty, hb, Bool.false_eq_true, ↓reduceIte]
      repeat' split
      all_goals try simp only [uhostField, UHostBr, hty, ht, ↓reduceIte, PField.set, trunc16]
      all_goals intro hacc
      all_goals first | (cases hacc; done) | skip
      all_goals try simp only [e0, e1, e2]
      all_goals simp_all
theorem ustart_br {b : Buf} {t k : Nat} {σ0 : UState} (h : UInv b t k k σ0) (hb0 : UBrInv b k k σ0) :
    (match uriLoop b k σ0 with
      | (.none, i, σ) =>
        match uriFinish i σ with
        | (e, p, σ') => (e, p, σ'.u, σ'.pnc)
      | (e, p, σ) => (e, p, σ.u, σ.pnc)).1 = .none →
    UHostBr b (uhostField (match uriLoop b k σ0 with
      | (.none, i, σ) =>
        match uriFinish i σ with
        | (e, p, σ') => (e, p, σ'.u, σ'.pnc)
      | (e, p, σ) => (e, p, σ.u, σ.pnc)).2.2.1) := by
  have hl := uriLoop_ok k σ0 h
  have hla := uriLoop_br k σ0 h hb0
  rcases hq : uriLoop b k σ0 with ⟨e, i, σ⟩
  rw [hq] at hl hla
  simp only at hl hla
  by_cases he : e = .none
  · subst he
    obtain ⟨hi, hinv⟩ := hl.1 rfl
    subst hi
    exact fun hacc => uriFinish_br hinv (hla rfl) hacc
  · intro hacc
    exfalso
    apply he
    cases e <;> first | rfl | exact hacc

/-- **bracketed hosts keep their brackets**: if the reported host of an accepted URI starts with '[', its last byte
    is ']' (for tel: the host is what is reported as user) -/
theorem parseURI_br (b : Buf) (hfit : b.size ≤ 65535) (hacc : (parseURI b {}).1 = .none) :
    UHostBr b (uhostField (parseURI b {}).2.2.1) := by
  revert hacc
  unfold parseURI
  split
  · rename_i b0 b1 b2 b3 b4 h0 h1 h2 h3 h4
    have hsz := get?_lt h4
    simp only
    by_cases hsip : ((b3.toNat <<< 24 ||| b2.toNat <<< 16 ||| b1.toNat <<< 8 ||| b0.toNat ||| 0x20202020)
        == Gen.C.ParseURI_SchSIP) = true
    · simp only [hsip, ↓reduceIte]
      have hinv := uinv_start b SIPuri 4 .initSIP (Or.inl rfl) (by omega) (by omega) hfit
      exact fun hacc => ustart_br hinv trivial hacc
    simp only [hsip, Bool.false_eq_true, ↓reduceIte]
    by_cases htel : ((b3.toNat <<< 24 ||| b2.toNat <<< 16 ||| b1.toNat <<< 8 ||| b0.toNat ||| 0x20202020)
        == Gen.C.ParseURI_SchTEL) = true
    · simp only [htel, ↓reduceIte]
      have hinv := uinv_start b TELuri 4 .initTEL (Or.inr (Or.inr rfl)) (by omega) (by omega) hfit
      exact fun hacc => ustart_br hinv trivial hacc
    simp only [htel, Bool.false_eq_true, ↓reduceIte]
    by_cases hsips : ((b3.toNat <<< 24 ||| b2.toNat <<< 16 ||| b1.toNat <<< 8 ||| b0.toNat ||| 0x20202020)
        == Gen.C.ParseURI_SchSIPS) = true
    · simp only [hsips, ↓reduceIte]
      by_cases h58 : (b4 == 58) = true
      · simp only [h58, ↓reduceIte]
        have hinv := uinv_start b SIPSuri 5 .initSIPS (Or.inr (Or.inl rfl)) (by omega) (by omega) hfit
        exact fun hacc => ustart_br hinv trivial hacc
      · simp only [h58, Bool.false_eq_true, ↓reduceIte]
        intro hacc
        cases hacc
    · simp only [hsips, Bool.false_eq_true, ↓reduceIte]
      intro hacc
      cases hacc
  · intro hacc
    cases hacc

end Sipsp
