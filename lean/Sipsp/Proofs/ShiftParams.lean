import Sipsp.Proofs.ShiftNA
import Sipsp.Proofs.SafeRest
namespace Sipsp

def spTpLive : TPState → Bool
  | .init | .err => false
  | _ => true

def shTp (k : Nat) (p : PTokParam) : PTokParam :=
  { p with all := if spTpLive p.state then shF k p.all else shO k p.all,
           name := if spTpLive p.state then shF k p.name else shO k p.name,
           val := shP k p.val }

def spTpNz (p : PTokParam) : PTokParam := if p.state = .err then { p with all := {}, name := {} } else p

theorem shTp_state (k : Nat) (p : PTokParam) : (shTp k p).state = p.state := rfl
theorem shTp_pnc (k : Nat) (p : PTokParam) : (shTp k p).pnc = p.pnc := rfl
theorem shTp_new (k : Nat) : shTp k {} = {} := rfl

theorem shTp_st (k : Nat) (p : PTokParam) (s : TPState) (h : spTpLive s = spTpLive p.state) :
    { shTp k p with state := s } = shTp k { p with state := s } := by
  simp only [shTp, h]

theorem shTp_st_err (k : Nat) (p : PTokParam) :
    spTpNz { shTp k p with state := .err } = spTpNz (shTp k { p with state := .err }) := by
  simp only [shTp, spTpNz, ↓reduceIte]

theorem shTp_sna (k : Nat) (p : PTokParam) (i : Nat) (s : TPState) (hs : spTpLive s = true) (h : k + i ≤ 65535) :
    { shTp k p with state := s, name := PField.set (k + i) (k + i), all := PField.set (k + i) (k + i) } =
      shTp k { p with state := s, name := PField.set i i, all := PField.set i i } := by
  simp only [shTp, hs, ↓reduceIte, set_shift k i i h]

theorem shTp_extName (k : Nat) (p : PTokParam) (e : Nat) (hl : spTpLive p.state = true) (h : k + e ≤ 65535)
    (ho : p.name.offs ≤ e) : (shTp k p).extName (k + e) = shTp k (p.extName e) := by
  simp only [shTp, hl, ↓reduceIte, PTokParam.extName, extend_shift k p.name e h ho, extendPanics_shift]

theorem shTp_extAll (k : Nat) (p : PTokParam) (e : Nat) (hl : spTpLive p.state = true) (h : k + e ≤ 65535)
    (ho : p.all.offs ≤ e) : (shTp k p).extAll (k + e) = shTp k (p.extAll e) := by
  simp only [shTp, hl, ↓reduceIte, PTokParam.extAll, extend_shift k p.all e h ho, extendPanics_shift]

theorem shTp_extVal (k : Nat) (p : PTokParam) (e : Nat) (h : k + e ≤ 65535)
    (ho : p.val.offs ≤ e) (h0 : p.val.offs ≠ 0) : (shTp k p).extVal (k + e) = shTp k (p.extVal e) := by
  simp only [shTp, PTokParam.extVal, shP_extend k p.val e h ho h0, shP_extendPanics]
  rfl

theorem shTp_setVal (k : Nat) (p : PTokParam) (i : Nat) (h : k + i ≤ 65535) (h1 : 1 ≤ i) :
    { shTp k p with val := PField.set (k + i) (k + i) } = shTp k { p with val := PField.set i i } := by
  have : shP k (PField.set i i) = shF k (PField.set i i) := by
    unfold shP; rw [if_neg]; unfold PField.set trunc16; simp only; omega
  simp only [shTp, this, set_shift k i i h]

structure SpTpPos (i : Nat) (p : PTokParam) : Prop where
  fv : p.state = .fVal → 1 ≤ i
  vo : p.state = .val ∨ p.state = .quotedVal → 1 ≤ p.val.offs

theorem spTpEOH_shift (k : Nat) (p : PTokParam) (n crl : Nat) :
    resN spTpNz (tpEOH (shTp k p) (k + n) crl) = resN spTpNz (shResD k (fun _ => shTp k) (tpEOH p n crl)) := by
  unfold tpEOH
  rw [shTp_state]
  cases hst : p.state <;> simp only [resN, shResD, Nat.add_assoc]
  all_goals first
    | rw [shTp_st k p _ (by rw [hst]; rfl)]
    | rw [shTp_st_err]

theorem spTp_extNA (k : Nat) (p : PTokParam) (i j : Nat) (hl : spTpLive p.state = true) (hS : SrTpIn i p)
    (hij : i ≤ j) (hj : k + j ≤ 65535) :
    ((shTp k p).extName (k + i)).extAll (k + j) = shTp k ((p.extName i).extAll j) := by
  have h1 : p.name.offs + p.name.len ≤ i := hS.name
  have h2 : p.all.offs + p.all.len ≤ i := hS.all
  rw [shTp_extName k p i hl (by omega) (by omega)]
  exact shTp_extAll k (p.extName i) j hl hj (by show p.all.offs ≤ j; omega)

theorem spTp_extVA (k : Nat) (p : PTokParam) (i : Nat) (hl : spTpLive p.state = true) (hS : SrTpIn i p)
    (hv : 1 ≤ p.val.offs) (hj : k + i ≤ 65535) :
    ((shTp k p).extVal (k + i)).extAll (k + i) = shTp k ((p.extVal i).extAll i) := by
  have h1 : p.val.offs + p.val.len ≤ i := hS.val
  have h2 : p.all.offs + p.all.len ≤ i := hS.all
  rw [shTp_extVal k p i hj (by omega) (by omega)]
  exact shTp_extAll k (p.extVal i) i hl hj (by show p.all.offs ≤ i; omega)

theorem spTpMoreBytes_shift (pre t : Buf) (flags : Nat) (p : PTokParam) (i : Nat) (hfit : pre.size + t.size ≤ 65535)
    (hi : i ≤ t.size) (hS : SrTpIn i p) (hP : SpTpPos i p) :
    resN spTpNz (tpMoreBytes (pre ++ t) flags (shTp pre.size p) (pre.size + i)) =
      resN spTpNz (shResD pre.size (fun _ => shTp pre.size) (tpMoreBytes t flags p i)) := by
  unfold tpMoreBytes
  rw [shTp_state, Array.size_append]
  split
  · cases hst : p.state <;> simp only
    case name =>
      rw [spTp_extNA pre.size p i i (by rw [hst]; rfl) hS (Nat.le_refl _) (by omega)]
      exact spTpEOH_shift _ _ _ _
    case val =>
      rw [spTp_extVA pre.size p i (by rw [hst]; rfl) hS (hP.vo (Or.inl hst)) (by omega)]
      exact spTpEOH_shift _ _ _ _
    all_goals first
      | exact spTpEOH_shift _ _ _ _
      | rfl
  · rfl
theorem spStepOfRes (k : Nat) (r' r : Nat × Err × PTokParam)
    (h : resN spTpNz r' = resN spTpNz (shResD k (fun _ => shTp k) r)) :
    stepN spTpNz (stepOfRes r') = stepN spTpNz (shStepD k (shTp k) (fun _ => shTp k) (stepOfRes r)) := by
  rcases r' with ⟨a, b, c⟩
  rcases r with ⟨a2, b2, c2⟩
  simp only [resN, shResD, Prod.mk.injEq] at h
  obtain ⟨rfl, rfl, h3⟩ := h
  simp only [stepOfRes, stepN, shStepD, h3]

theorem spTpLWS_shift (pre t : Buf) (flags i : Nat) (p : PTokParam) (upd upd' : PTokParam → PTokParam)
    (hfit : pre.size + t.size ≤ 65535) (hi : i ≤ t.size) (hS : SrTpIn i p) (hP : SpTpPos i p)
    (hu : upd' (shTp pre.size p) = shTp pre.size (upd p)) :
    stepN spTpNz (tpLWS (pre ++ t) flags (pre.size + i) (shTp pre.size p) upd') =
      stepN spTpNz (shStepD pre.size (shTp pre.size) (fun _ => shTp pre.size) (tpLWS t flags i p upd)) := by
  unfold tpLWS
  rw [skipLWS_shift]
  rcases hq : skipLWS t i flags with ⟨n, crl, e⟩
  cases e <;> simp only [hu]
  case moreBytes => exact spStepOfRes _ _ _ (spTpMoreBytes_shift pre t flags p i hfit hi hS hP)
  case eoh => exact spStepOfRes _ _ _ (spTpEOH_shift _ _ _ _)
  all_goals rfl
theorem spC (k i : Nat) (X Y : PTokParam) (h : X = shTp k Y) :
    stepN spTpNz (.cont (k + i) X) = stepN spTpNz (shStepD k (shTp k) (fun _ => shTp k) (.cont i Y)) := by
  subst h; rfl

theorem spD (k i : Nat) (e : Err) (X Y : PTokParam) (h : spTpNz X = spTpNz (shTp k Y)) :
    stepN spTpNz (.done (k + i) e X) = stepN spTpNz (shStepD k (shTp k) (fun _ => shTp k) (.done i e Y)) := by
  simp only [stepN, shStepD, h]

theorem spTp_extNA_st (k : Nat) (p : PTokParam) (i j : Nat) (s : TPState) (hl : spTpLive p.state = true)
    (hs : spTpLive s = true) (hS : SrTpIn i p) (hij : i ≤ j) (hj : k + j ≤ 65535) :
    { ((shTp k p).extName (k + i)).extAll (k + j) with state := s } =
      shTp k { (p.extName i).extAll j with state := s } := by
  rw [spTp_extNA k p i j hl hS hij hj]
  exact shTp_st k _ s (by rw [hs]; exact hl.symm)

theorem spTp_extVA_st (k : Nat) (p : PTokParam) (i : Nat) (s : TPState) (hl : spTpLive p.state = true)
    (hs : spTpLive s = true) (hS : SrTpIn i p) (hv : 1 ≤ p.val.offs) (hj : k + i ≤ 65535) :
    { ((shTp k p).extVal (k + i)).extAll (k + i) with state := s } =
      shTp k { (p.extVal i).extAll i with state := s } := by
  rw [spTp_extVA k p i hl hS hv hj]
  exact shTp_st k _ s (by rw [hs]; exact hl.symm)

theorem spTp_setVA_st (k : Nat) (p : PTokParam) (i : Nat) (s : TPState) (hl : spTpLive p.state = true)
    (hs : spTpLive s = true) (hS : SrTpIn i p) (h1 : 1 ≤ i) (hj : k + i ≤ 65535) :
    { ({ shTp k p with val := PField.set (k + i) (k + i) } : PTokParam).extAll (k + i) with state := s } =
      shTp k { ({ p with val := PField.set i i } : PTokParam).extAll i with state := s } := by
  have h2 : p.all.offs + p.all.len ≤ i := hS.all
  rw [shTp_setVal k p i hj h1]
  have e := shTp_extAll k { p with val := PField.set i i } i hl hj (by show p.all.offs ≤ i; omega)
  simp only [e]
  exact shTp_st k _ s (by rw [hs]; exact hl.symm)

theorem spTp_setV_st (k : Nat) (p : PTokParam) (i : Nat) (s : TPState) (hl : spTpLive p.state = true)
    (hs : spTpLive s = true) (h1 : 1 ≤ i) (hj : k + i ≤ 65535) :
    { shTp k p with val := PField.set (k + i) (k + i), state := s } =
      shTp k { p with val := PField.set i i, state := s } := by
  have := shTp_st k { p with val := PField.set i i } s (by rw [hs]; exact hl.symm)
  rw [← shTp_setVal k p i hj h1] at this
  exact this

theorem spTpSpTermEq_shift (k o0 i : Nat) (p : PTokParam) (hl : spTpLive p.state = true) :
    stepN spTpNz (tpSpTermEq (k + o0) (k + i) (shTp k p)) =
      stepN spTpNz (shStepD k (shTp k) (fun _ => shTp k) (tpSpTermEq o0 i p)) := by
  unfold tpSpTermEq
  rw [shTp_st k p .fin (by rw [hl]; rfl)]
  by_cases h : i ≥ o0 + 1
  · rw [if_pos h, if_pos (by omega)]
    have : k + i - 1 = k + (i - 1) := by omega
    rw [this]; rfl
  · rw [if_neg h, if_neg (by omega)]; rfl

theorem spTpSpTermSep_shift (pre t : Buf) (o0 i : Nat) (p : PTokParam) (hl : spTpLive p.state = true) :
    stepN spTpNz (tpSpTermSep (pre ++ t) (pre.size + o0) (pre.size + i) (shTp pre.size p)) =
      stepN spTpNz (shStepD pre.size (shTp pre.size) (fun _ => shTp pre.size) (tpSpTermSep t o0 i p)) := by
  unfold tpSpTermSep
  simp only
  rw [shTp_st pre.size p .fin (by rw [hl]; rfl)]
  by_cases h : i ≥ o0 + 1
  · rw [if_pos h, if_pos (by omega)]
    have e1 : pre.size + i - 1 = pre.size + (i - 1) := by omega
    rw [e1, get?_shift]
    cases t[i - 1]? with
    | none => rfl
    | some c => simp only; split <;> rfl
  · rw [if_neg h, if_neg (by omega)]; rfl
theorem spSqStep_shift (pre t : Buf) (i : Nat) (c : UInt8) :
    sqStep (pre ++ t) (pre.size + i) c () = shStep pre.size id (sqStep t i c ()) := by
  unfold sqStep
  rw [get?_shift1]
  by_cases h1 : (c == 34) = true
  · simp only [h1, ↓reduceIte, shStep]; rfl
  · simp only [h1, Bool.false_eq_true, ↓reduceIte]
    by_cases h2 : (c == 92) = true
    · simp only [h2, ↓reduceIte]
      cases t[i + 1]? with
      | none => rfl
      | some c1 =>
        simp only
        split
        · rfl
        · simp only [shStep, id]; rw [Nat.add_assoc]
    · simp only [h2, Bool.false_eq_true, ↓reduceIte]
      split
      · rfl
      · split
        · rfl
        · simp only [shStep, id]; rw [Nat.add_assoc]

/-- **SkipQuoted is position independent** -/
theorem skipQuoted_shift (pre t : Buf) (i : Nat) :
    skipQuoted (pre ++ t) (pre.size + i) = (pre.size + (skipQuoted t i).1, (skipQuoted t i).2) := by
  unfold skipQuoted
  have := runLoop_shift sqMachine pre t id (fun _ _ => True) (fun _ _ _ _ _ _ _ _ _ => trivial)
    (fun i c st _ _ => spSqStep_shift pre t i c) (fun i st _ _ => rfl) i () trivial
  simp only [id] at this
  rw [this]
  rfl

theorem spBeq1 : (TPState.init == TPState.fNxt) = false := by decide
theorem spBeq2 : (TPState.initNxtVal == TPState.fNxt) = false := by decide
theorem spBeq3 : (TPState.fNxt == TPState.fNxt) = true := by decide

theorem spIte (k : Nat) (cnd : Prop) [Decidable cnd] (a b a' b' : Step PTokParam)
    (h1 : stepN spTpNz a = stepN spTpNz (shStepD k (shTp k) (fun _ => shTp k) a'))
    (h2 : stepN spTpNz b = stepN spTpNz (shStepD k (shTp k) (fun _ => shTp k) b')) :
    stepN spTpNz (if cnd then a else b) =
      stepN spTpNz (shStepD k (shTp k) (fun _ => shTp k) (if cnd then a' else b')) := by
  split <;> assumption

theorem spTpStep_shift (flags o0 : Nat) (pre t : Buf) (i : Nat) (c : UInt8) (p : PTokParam) (hb : t[i]? = some c)
    (hfit : pre.size + t.size ≤ 65535) (hS : SrTpSafe t o0 i p) (hP : SpTpPos i p) :
    stepN spTpNz (tpStep flags (pre.size + o0) (pre ++ t) (pre.size + i) c (shTp pre.size p)) =
      stepN spTpNz (shStepD pre.size (shTp pre.size) (fun _ => shTp pre.size) (tpStep flags o0 t i c p)) := by
  have hlt := get?_lt hb
  have hf := hS.fl
  have hi : i ≤ t.size := hS.hi
  have hk : pre.size + i ≤ 65535 := by omega
  have hk1 : pre.size + (i + 1) ≤ 65535 := by omega
  have hii : i ≤ i := Nat.le_refl i
  have his : i ≤ i + 1 := Nat.le_succ i
  unfold tpStep
  simp only [shTp_state, Nat.add_assoc]
  cases hst : p.state <;> simp only
  case quotedVal =>
    rw [skipQuoted_shift]
    rcases hq : skipQuoted t i with ⟨n, e⟩
    have h2 := skipQuoted_range t i (by omega) hq
    have hv := hP.vo (Or.inr hst)
    cases e <;> simp only
    case moreBytes =>
      exact spStepOfRes _ _ _ (spTpMoreBytes_shift pre t flags p n hfit h2.2 (hf.mono h2.1)
        ⟨(fun h => by rw [hst] at h; cases h), fun _ => hv⟩)
    case ok =>
      rw [spTp_extVA pre.size p n (by rw [hst]; rfl) (hf.mono h2.1) hv (by omega)]
      exact spC _ _ _ _ (shTp_st _ _ _ (by show _ = spTpLive p.state; rw [hst]; rfl))
    case eoh => exact spStepOfRes _ _ _ (spTpEOH_shift _ _ _ _)
    all_goals rfl
  case err => exact spC _ _ _ _ rfl
  case fin => exact spC _ _ _ _ rfl
  all_goals
    by_cases hl : isLWSch c = true
    · simp only [hl, ↓reduceIte]
      first
        | exact spTpLWS_shift pre t flags i p id id hfit hi hf hP rfl
        | exact spTpLWS_shift pre t flags i p _ _ hfit hi hf hP
            (spTp_extNA_st _ _ _ _ _ (by rw [hst]; rfl) rfl hf hii hk)
        | exact spTpLWS_shift pre t flags i p _ _ hfit hi hf hP
            (spTp_extVA_st _ _ _ _ (by rw [hst]; rfl) rfl hf (hP.vo (Or.inl hst)) hk)
    · simp only [hl, Bool.false_eq_true, ↓reduceIte]
      try simp only [spBeq1, spBeq2, spBeq3, Bool.false_and, Bool.true_and, Bool.false_eq_true, ↓reduceIte]
      repeat' (with_reducible apply spIte)
      all_goals first
        | exact spC _ _ _ _ rfl
        | exact spC _ _ _ _ (shTp_st _ _ _ (by rw [hst]; rfl))
        | exact spC _ _ _ _ (shTp_sna _ _ _ _ rfl hk)
        | exact spC _ _ _ _ (spTp_extNA_st _ _ _ _ _ (by rw [hst]; rfl) rfl hf (by omega) (by omega))
        | exact spC _ _ _ _ (spTp_extVA_st _ _ _ _ (by rw [hst]; rfl) rfl hf (hP.vo (Or.inl hst)) hk)
        | exact spC _ _ _ _ (spTp_setVA_st _ _ _ _ (by rw [hst]; rfl) rfl hf (hP.fv hst) hk)
        | exact spD _ _ _ _ _ (congrArg spTpNz (shTp_st _ _ _ (by rw [hst]; rfl)))
        | exact spD _ _ _ _ _ (congrArg spTpNz (spTp_extNA_st _ _ _ _ _ (by rw [hst]; rfl) rfl hf (by omega) (by omega)))
        | exact spD _ _ _ _ _ (congrArg spTpNz (spTp_extVA_st _ _ _ _ (by rw [hst]; rfl) rfl hf (hP.vo (Or.inl hst)) hk))
        | exact spD _ _ _ _ _ (congrArg spTpNz (spTp_setV_st _ _ _ _ (by rw [hst]; rfl) rfl (hP.fv hst) hk))
        | exact spD _ _ _ _ _ (shTp_st_err _ _)
        | exact spTpSpTermEq_shift _ _ _ _ (by rw [hst]; rfl)
        | exact spTpSpTermSep_shift _ _ _ _ _ (by rw [hst]; rfl)

theorem SpTpPos.mono {i j : Nat} {p : PTokParam} (h : SpTpPos i p) (hij : i ≤ j) : SpTpPos j p :=
  ⟨fun hs => by have := h.fv hs; omega, h.vo⟩

theorem SpTpPos.new (i : Nat) : SpTpPos i {} :=
  ⟨(fun h => nomatch h), fun h => h.elim (fun h => nomatch h) (fun h => nomatch h)⟩

def spIsMB : Err → Bool
  | .moreBytes => true
  | _ => false

/-- what a finishing step guarantees for the position invariant: a MoreBytes exit returns a legitimate object -/
def SpTpPosT (o : Nat) (e : Err) (q : PTokParam) : Prop := spIsMB e = false ∨ SpTpPos o q

theorem spTpEOH_posT (p : PTokParam) (n crl : Nat) :
    SpTpPosT (tpEOH p n crl).1 (tpEOH p n crl).2.1 (tpEOH p n crl).2.2 := by
  unfold tpEOH; split <;> exact Or.inl rfl

theorem spTpMoreBytes_posT (b : Buf) (flags : Nat) (p : PTokParam) (i : Nat) (hP : SpTpPos i p) :
    SpTpPosT (tpMoreBytes b flags p i).1 (tpMoreBytes b flags p i).2.1 (tpMoreBytes b flags p i).2.2 := by
  unfold tpMoreBytes
  split
  · split
    all_goals first
      | exact spTpEOH_posT _ _ _
      | exact Or.inr hP
      | exact Or.inl rfl
  · exact Or.inr hP

theorem spTpLWS_pos (b : Buf) (flags i : Nat) (p : PTokParam) (upd : PTokParam → PTokParam) (hP : SpTpPos i p)
    (hu : ∀ n, i ≤ n → SpTpPos n (upd p)) :
    StepAll2 SpTpPos SpTpPosT (tpLWS b flags i p upd) := by
  unfold tpLWS
  rcases hsk : skipLWS b i flags with ⟨n, crl, e⟩
  have hr := skipLWS_range b i flags hsk
  cases e <;> simp only [stepOfRes]
  case moreBytes => exact spTpMoreBytes_posT b flags p i hP
  case ok => exact hu n hr.1
  case eoh => exact spTpEOH_posT _ _ _
  all_goals exact Or.inl rfl

theorem spSetOffs (i : Nat) (h1 : 1 ≤ i) (h2 : i ≤ 65535) : 1 ≤ (PField.set i i).offs := by
  unfold PField.set trunc16; simp only; omega

def spIsFVal : TPState → Bool
  | .fVal => true
  | _ => false
def spIsV : TPState → Bool
  | .val | .quotedVal => true
  | _ => false

theorem spPos_vac (n : Nat) (q : PTokParam) (h1 : spIsFVal q.state = false) (h2 : spIsV q.state = false) :
    SpTpPos n q := by
  refine ⟨fun h => ?_, fun h => ?_⟩
  · rw [h] at h1; cases h1
  · rcases h with h | h <;> rw [h] at h2 <;> cases h2

theorem spPos_fv (n : Nat) (q : PTokParam) (h2 : spIsV q.state = false) (hn : 1 ≤ n) : SpTpPos n q := by
  refine ⟨fun _ => hn, fun h => ?_⟩
  rcases h with h | h <;> rw [h] at h2 <;> cases h2

theorem spPos_v (n : Nat) (q : PTokParam) (h1 : spIsFVal q.state = false) (hv : 1 ≤ q.val.offs) : SpTpPos n q := by
  refine ⟨fun h => ?_, fun _ => hv⟩
  rw [h] at h1; cases h1

theorem spTpStep_pos (flags o0 : Nat) (b : Buf) (i : Nat) (c : UInt8) (p : PTokParam) (hb : b[i]? = some c)
    (hfit : b.size ≤ 65535) (hP : SpTpPos i p) :
    StepAll2 SpTpPos SpTpPosT (tpStep flags o0 b i c p) := by
  have hlt := get?_lt hb
  have hi5 : i ≤ 65535 := by omega
  unfold tpStep
  simp only
  cases hst : p.state <;> simp only
  case quotedVal =>
    rcases hq : skipQuoted b i with ⟨n, e⟩
    have h2 := skipQuoted_range b i (by omega) hq
    cases e <;> simp only [stepOfRes]
    case ok => exact spPos_vac _ _ rfl rfl
    case moreBytes => exact spTpMoreBytes_posT b flags p n (hP.mono h2.1)
    case eoh => exact spTpEOH_posT _ _ _
    all_goals exact Or.inl rfl
  case err => exact hP.mono (Nat.le_succ i)
  case fin => exact hP.mono (Nat.le_succ i)
  all_goals
    by_cases hl : isLWSch c = true
    · simp only [hl, ↓reduceIte]
      first
        | exact spTpLWS_pos b flags i p id hP (fun n hn => hP.mono hn)
        | exact spTpLWS_pos b flags i p _ hP (fun n hn => spPos_vac _ _ rfl rfl)
    · simp only [hl, Bool.false_eq_true, ↓reduceIte]
      repeat' split
      all_goals first
        | exact Or.inl rfl
        | exact hP.mono (Nat.le_succ i)
        | exact spPos_vac _ _ rfl rfl
        | exact spPos_fv _ _ rfl (Nat.succ_le_succ (Nat.zero_le i))
        | exact spPos_v _ _ rfl (spSetOffs i (hP.fv hst) hi5)
        | (unfold tpSpTermEq; split <;> exact Or.inl rfl)
        | (unfold tpSpTermSep; simp only; repeat' split
           all_goals exact Or.inl rfl)

/-! ### a verdict other than an error never leaves the object in the error state -/

def spNotErr : TPState → Bool
  | .err => false
  | _ => true

/-- the verdicts after which the object is meaningful: OK, MoreValues, end of header, MoreBytes -/
def spGoodV : Err → Bool
  | .ok | .moreValues | .eoh | .moreBytes => true
  | _ => false

def SpNoErrT (_ : Nat) (e : Err) (q : PTokParam) : Prop := spGoodV e = false ∨ spNotErr q.state = true

theorem spTpEOH_noerr (p : PTokParam) (n crl : Nat) (hS : spNotErr p.state = true) :
    SpNoErrT (tpEOH p n crl).1 (tpEOH p n crl).2.1 (tpEOH p n crl).2.2 := by
  unfold tpEOH; split <;> first | exact Or.inl rfl | exact Or.inr rfl | exact Or.inr hS

theorem spTpMoreBytes_noerr (b : Buf) (flags : Nat) (p : PTokParam) (i : Nat) (hS : spNotErr p.state = true) :
    SpNoErrT (tpMoreBytes b flags p i).1 (tpMoreBytes b flags p i).2.1 (tpMoreBytes b flags p i).2.2 := by
  unfold tpMoreBytes
  split
  · split
    all_goals first
      | exact spTpEOH_noerr _ _ _ hS
      | exact Or.inr hS
      | exact Or.inl rfl
  · exact Or.inr hS

theorem spTpLWS_noerr (b : Buf) (flags i : Nat) (p : PTokParam) (upd : PTokParam → PTokParam)
    (hS : spNotErr p.state = true) (hu : spNotErr (upd p).state = true) :
    StepAll2 (fun _ q => spNotErr q.state = true) SpNoErrT (tpLWS b flags i p upd) := by
  unfold tpLWS
  rcases hsk : skipLWS b i flags with ⟨n, crl, e⟩
  cases e <;> simp only [stepOfRes]
  case moreBytes => exact spTpMoreBytes_noerr b flags p i hS
  case ok => exact hu
  case eoh => exact spTpEOH_noerr _ _ _ hu
  all_goals first | exact Or.inl rfl | exact Or.inr hu

theorem spTpStep_noerr (flags o0 : Nat) (b : Buf) (i : Nat) (c : UInt8) (p : PTokParam)
    (hS : spNotErr p.state = true) :
    StepAll2 (fun _ q => spNotErr q.state = true) SpNoErrT (tpStep flags o0 b i c p) := by
  unfold tpStep
  simp only
  cases hst : p.state <;> simp only
  case quotedVal =>
    rcases hq : skipQuoted b i with ⟨n, e⟩
    cases e <;> simp only [stepOfRes]
    case ok => rfl
    case moreBytes => exact spTpMoreBytes_noerr b flags p n hS
    case eoh => exact spTpEOH_noerr _ _ _ hS
    all_goals first | exact Or.inl rfl | exact Or.inr hS
  case err => rw [hst] at hS; cases hS
  case fin => exact hS
  all_goals
    by_cases hl : isLWSch c = true
    · simp only [hl, ↓reduceIte]
      first
        | exact spTpLWS_noerr b flags i p id hS hS
        | exact spTpLWS_noerr b flags i p _ hS rfl
    · simp only [hl, Bool.false_eq_true, ↓reduceIte]
      repeat' split
      all_goals first
        | exact Or.inl rfl
        | exact Or.inr rfl
        | exact hS
        | rfl
        | (unfold tpSpTermEq; split <;> exact Or.inr rfl)
        | (unfold tpSpTermSep; simp only; repeat' split
           all_goals exact Or.inr rfl)

/-! ### generic loop theorem, two machines (the token-parameter machine depends on the start offset of the call) -/

theorem spRunLoop_shiftN2 {σ : Type} (m m' : Machine σ) (pre t : Buf) (sh : σ → σ) (shD : Err → σ → σ) (nz : σ → σ)
    (Inv : Nat → σ → Prop)
    (hinv : ∀ i c st i' st', t[i]? = some c → Inv i st → m.step t i c st = .cont i' st' → i < i' → Inv i' st')
    (hprog : ∀ i c st i' st', t[i]? = some c → Inv i st → m.step t i c st = .cont i' st' → i < i')
    (hstep : ∀ i c st, t[i]? = some c → Inv i st →
      stepN nz (m'.step (pre ++ t) (pre.size + i) c (sh st)) = stepN nz (shStepD pre.size sh shD (m.step t i c st)))
    (heob : ∀ i st, t[i]? = none → Inv i st →
      resN nz (m'.eob (pre ++ t) (pre.size + i) (sh st)) = resN nz (shResD pre.size shD (m.eob t i st)))
    (i : Nat) (st : σ) (hI : Inv i st) :
    resN nz (runLoop m' (pre ++ t) (pre.size + i) (sh st)) = resN nz (shResD pre.size shD (runLoop m t i st)) := by
  induction hk : t.size - i using Nat.strongRecOn generalizing i st with
  | _ k ih =>
    cases hb : t[i]? with
    | none =>
      rw [runLoop_none m st hb, runLoop_none m' (sh st) (by rw [get?_shift]; exact hb)]
      exact heob i st hb hI
    | some c =>
      have hbB : (pre ++ t)[pre.size + i]? = some c := by rw [get?_shift]; exact hb
      have hs := hstep i c st hb hI
      cases hq : m.step t i c st with
      | done o e st' =>
        rw [hq] at hs
        rw [runLoop_done m hb hq]
        cases hqB : m'.step (pre ++ t) (pre.size + i) c (sh st) with
        | cont i2 st2 => rw [hqB] at hs; simp only [stepN, shStepD] at hs; cases hs
        | done o2 e2 st2 =>
          rw [hqB] at hs
          simp only [stepN, shStepD, Step.done.injEq] at hs
          obtain ⟨rfl, rfl, h3⟩ := hs
          rw [runLoop_done m' hbB hqB]
          simp only [resN, shResD]
          rw [h3]
      | cont i' st' =>
        rw [hq] at hs
        have hlt : i < i' := hprog i c st i' st' hb hI hq
        simp only [stepN, shStepD] at hs
        cases hqB : m'.step (pre ++ t) (pre.size + i) c (sh st) with
        | done o2 e2 st2 => rw [hqB] at hs; simp only at hs; cases hs
        | cont i2 st2 =>
          rw [hqB] at hs
          simp only [Step.cont.injEq] at hs
          obtain ⟨rfl, rfl⟩ := hs
          rw [runLoop_cont m hb hq, runLoop_cont m' hbB hqB, if_pos hlt, if_pos (by omega)]
          have := get?_lt hb
          exact ih (t.size - i') (by omega) i' st' (hinv i c st i' st' hb hI hq hlt) rfl

/-! ### ParseTokenParam -/

/-- legitimate argument of ParseTokenParam at offset `o` for the shift theorem -/
def SpTpEntry (o : Nat) (p : PTokParam) : Prop := SrTpIn o p ∧ SpTpPos o p

theorem SpTpEntry.new (o : Nat) : SpTpEntry o {} := ⟨SrTpIn.new o, SpTpPos.new o⟩

theorem parseTokenParam_shiftN (pre t : Buf) (o : Nat) (p : PTokParam) (flags : Nat)
    (hfit : pre.size + t.size ≤ 65535) (ho : o ≤ t.size) (hE : SpTpEntry o p) :
    resN spTpNz (parseTokenParam (pre ++ t) (pre.size + o) (shTp pre.size p) flags) =
      resN spTpNz (shRes pre.size (shTp pre.size) (parseTokenParam t o p flags)) := by
  unfold parseTokenParam
  rw [shTp_state]
  split
  · rfl
  · exact spRunLoop_shiftN2 (tpMachine flags o) (tpMachine flags (pre.size + o)) pre t (shTp pre.size) (fun _ => shTp pre.size) spTpNz
      (fun i q => SrTpSafe t o i q ∧ SpTpPos i q)
      (fun i c q i' q' hb hI hs hlt => by
        have h1 := srTpStep_safe flags o t i c q hb hI.1
        have h2 := spTpStep_pos flags o t i c q hb (by omega) hI.2
        change tpStep flags o t i c q = _ at hs
        rw [hs] at h1 h2
        exact ⟨h1, h2⟩)
      (fun i c q i' q' hb _ hs => tp_progress flags o t i c q i' q' hb hs)
      (fun i c q hb hI => spTpStep_shift flags o pre t i c q hb hfit hI.1 hI.2)
      (fun i q _ hI => spTpMoreBytes_shift pre t flags q i hfit hI.1.hi hI.1.fl hI.2)
      o p ⟨⟨Nat.le_refl _, ho, hE.1⟩, hE.2⟩

theorem spTpNz_id {p : PTokParam} (h : p.state ≠ .err) : spTpNz p = p := by
  unfold spTpNz; rw [if_neg h]

theorem spTpNz_state (p : PTokParam) : (spTpNz p).state = p.state := by
  unfold spTpNz; split <;> rfl

theorem spNotErr_ne {s : TPState} (h : spNotErr s = true) : s ≠ .err := by
  intro hh; rw [hh] at h; cases h

theorem spNotErr_of_ne {s : TPState} (h : s ≠ .err) : spNotErr s = true := by
  cases s <;> first | rfl | exact absurd rfl h

/-- after OK / MoreValues / end of header / MoreBytes the returned object is not in the error state (given that the
    object passed in was not) -/
theorem parseTokenParam_good_state (b : Buf) (o : Nat) (p : PTokParam) (flags : Nat) (hs : p.state ≠ .err)
    (hg : spGoodV (parseTokenParam b o p flags).2.1 = true) : (parseTokenParam b o p flags).2.2.state ≠ .err := by
  have key : SpNoErrT (parseTokenParam b o p flags).1 (parseTokenParam b o p flags).2.1
      (parseTokenParam b o p flags).2.2 := by
    unfold parseTokenParam
    split
    · exact Or.inr (spNotErr_of_ne hs)
    · exact runLoop_safe2 (tpMachine flags o) b (fun _ q => spNotErr q.state = true) SpNoErrT (tp_progress flags o)
        (fun i c st _ hS => spTpStep_noerr flags o b i c st hS)
        (fun i st hS => spTpMoreBytes_noerr b flags st i hS) o p (spNotErr_of_ne hs)
  rcases key with h | h
  · rw [hg] at h; cases h
  · exact spNotErr_ne h

/-- the plain form: whenever the run on `t` does not end in the error state -/
theorem parseTokenParam_shift_of_state (pre t : Buf) (o : Nat) (p : PTokParam) (flags : Nat)
    (hfit : pre.size + t.size ≤ 65535) (ho : o ≤ t.size) (hE : SpTpEntry o p)
    (hne : (parseTokenParam t o p flags).2.2.state ≠ .err) :
    parseTokenParam (pre ++ t) (pre.size + o) (shTp pre.size p) flags =
      shRes pre.size (shTp pre.size) (parseTokenParam t o p flags) := by
  have h := parseTokenParam_shiftN pre t o p flags hfit ho hE
  rcases hr : parseTokenParam t o p flags with ⟨o1, e1, p1⟩
  rcases hr' : parseTokenParam (pre ++ t) (pre.size + o) (shTp pre.size p) flags with ⟨o2, e2, p2⟩
  rw [hr] at h hne
  rw [hr'] at h
  simp only [resN, shRes, Prod.mk.injEq] at h
  obtain ⟨h1, h2, h3⟩ := h
  have hs1 : (shTp pre.size p1).state ≠ .err := hne
  rw [spTpNz_id hs1] at h3
  have hs2 : p2.state ≠ .err := by
    rw [← spTpNz_state p2, h3]; exact hs1
  rw [spTpNz_id hs2] at h3
  simp only [shRes, h1, h2, h3]

/-- **ParseTokenParam is position independent** (every flag combination, every legitimate object): after OK /
    MoreValues / end of header / MoreBytes the call behind `pre` returns the offset moved by `k = pre.size`, the same
    verdict and the translated object -/
theorem parseTokenParam_shift (pre t : Buf) (o : Nat) (p : PTokParam) (flags : Nat)
    (hfit : pre.size + t.size ≤ 65535) (ho : o ≤ t.size) (hE : SpTpEntry o p) (hs : p.state ≠ .err)
    (hg : spGoodV (parseTokenParam t o p flags).2.1 = true) :
    parseTokenParam (pre ++ t) (pre.size + o) (shTp pre.size p) flags =
      shRes pre.size (shTp pre.size) (parseTokenParam t o p flags) :=
  parseTokenParam_shift_of_state pre t o p flags hfit ho hE (parseTokenParam_good_state t o p flags hs hg)

/-- … from a new object, at any start offset -/
theorem parseTokenParam_shift_new (pre t : Buf) (o : Nat) (flags : Nat)
    (hfit : pre.size + t.size ≤ 65535) (ho : o ≤ t.size) (hg : spGoodV (parseTokenParam t o {} flags).2.1 = true) :
    parseTokenParam (pre ++ t) (pre.size + o) {} flags =
      shRes pre.size (shTp pre.size) (parseTokenParam t o {} flags) :=
  parseTokenParam_shift pre t o {} flags hfit ho (SpTpEntry.new o) (fun h => nomatch h) hg

/-- every verdict (errors included): offset moved by `k`, same verdict, same state and panic flag, value field moved
    unless absent; after an error only `all` / `name` are not compared -/
theorem parseTokenParam_shift_any (pre t : Buf) (o : Nat) (p : PTokParam) (flags : Nat)
    (hfit : pre.size + t.size ≤ 65535) (ho : o ≤ t.size) (hE : SpTpEntry o p) :
    (parseTokenParam (pre ++ t) (pre.size + o) (shTp pre.size p) flags).1 =
      pre.size + (parseTokenParam t o p flags).1 ∧
    (parseTokenParam (pre ++ t) (pre.size + o) (shTp pre.size p) flags).2.1 = (parseTokenParam t o p flags).2.1 ∧
    (parseTokenParam (pre ++ t) (pre.size + o) (shTp pre.size p) flags).2.2.state =
      (parseTokenParam t o p flags).2.2.state ∧
    (parseTokenParam (pre ++ t) (pre.size + o) (shTp pre.size p) flags).2.2.pnc =
      (parseTokenParam t o p flags).2.2.pnc ∧
    (parseTokenParam (pre ++ t) (pre.size + o) (shTp pre.size p) flags).2.2.val =
      shP pre.size (parseTokenParam t o p flags).2.2.val := by
  have h := parseTokenParam_shiftN pre t o p flags hfit ho hE
  rcases hr : parseTokenParam t o p flags with ⟨o1, e1, p1⟩
  rcases hr' : parseTokenParam (pre ++ t) (pre.size + o) (shTp pre.size p) flags with ⟨o2, e2, p2⟩
  rw [hr, hr'] at h
  simp only [resN, shRes, Prod.mk.injEq] at h
  obtain ⟨h1, h2, h3⟩ := h
  refine ⟨h1, h2, ?_, ?_, ?_⟩
  · have := congrArg PTokParam.state h3
    rw [spTpNz_state, spTpNz_state] at this; exact this
  · have := congrArg PTokParam.pnc h3
    have e : ∀ q : PTokParam, (spTpNz q).pnc = q.pnc := by intro q; unfold spTpNz; split <;> rfl
    rw [e, e] at this; exact this
  · have := congrArg PTokParam.val h3
    have e : ∀ q : PTokParam, (spTpNz q).val = q.val := by intro q; unfold spTpNz; split <;> rfl
    rw [e, e] at this; exact this

/-- after MoreBytes the returned object is a legitimate argument at the returned offset (so the theorems apply to
    the resumed call as well) -/
theorem parseTokenParam_shiftEntry (b : Buf) (o : Nat) (p : PTokParam) (flags : Nat) (hfit : b.size ≤ 65535)
    (ho : o ≤ b.size) (hE : SpTpEntry o p) (hm : (parseTokenParam b o p flags).2.1 = .moreBytes) :
    SpTpEntry (parseTokenParam b o p flags).1 (parseTokenParam b o p flags).2.2 := by
  have h1 := (parseTokenParam_safe b o p flags ho hE.1).tight (Or.inl (by rw [hm]; decide))
  have key : SpTpPosT (parseTokenParam b o p flags).1 (parseTokenParam b o p flags).2.1
      (parseTokenParam b o p flags).2.2 := by
    unfold parseTokenParam
    split
    · exact Or.inl rfl
    · exact runLoop_safe2 (tpMachine flags o) b SpTpPos SpTpPosT (tp_progress flags o)
        (fun i c st hb hS => spTpStep_pos flags o b i c st hb hfit hS)
        (fun i st hS => spTpMoreBytes_posT b flags st i hS) o p hE.2
  rcases key with h | h
  · rw [hm] at h; cases h
  · exact ⟨h1, h⟩

/-! ### the URI parameter list -/

def shUp (k : Nat) (u : URIParam) : URIParam := { u with param := shTp k u.param }

/-- **the URI-parameter list moved by `k`**: every slot and the scratch element moved with `shTp k`; count, type
    mask and panic flag unchanged -/
def shPl (k : Nat) (l : URIParamsLst) : URIParamsLst :=
  { l with params := l.params.map (shUp k), tmp := shUp k l.tmp }

theorem shUp_new (k : Nat) : shUp k {} = {} := rfl

theorem shPl_new (k m : Nat) :
    shPl k ({ params := Array.replicate m {} } : URIParamsLst) = { params := Array.replicate m {} } := by
  unfold shPl
  simp only [Array.map_replicate, shUp_new]

theorem shPl_cur (k : Nat) (l : URIParamsLst) : (shPl k l).cur = shUp k l.cur := by
  unfold URIParamsLst.cur shPl
  simp only [Array.size_map]
  split
  · rename_i h; simp [h]
  · rfl

theorem shPl_setCur (k : Nat) (l : URIParamsLst) (u : URIParam) :
    (shPl k l).setCur (shUp k u) = shPl k (l.setCur u) := by
  unfold URIParamsLst.setCur shPl
  simp only [Array.size_map]
  split
  · simp only [Array.set!_eq_setIfInBounds, Array.map_setIfInBounds]
  · rfl

theorem shPl_next (k : Nat) (l : URIParamsLst) (tp : PTokParam) (ty : Nat) :
    (shPl k l).next (shTp k tp) ty = shPl k (l.next tp ty) := by
  have h := shPl_setCur k l { param := tp, t := ty }
  have e : shUp k { param := tp, t := ty } = { param := shTp k tp, t := ty } := rfl
  rw [e] at h
  unfold URIParamsLst.next
  rw [h]
  have hs : (shPl k l).params.size = l.params.size := by unfold shPl; simp only [Array.size_map]
  have hn : (shPl k l).n = l.n := rfl
  rw [hs, hn]
  split <;> rfl


def shPlRes (k : Nat) (r : Nat × Nat × Err × URIParamsLst) : Nat × Nat × Err × URIParamsLst :=
  (k + r.1, r.2.1, r.2.2.1, shPl k r.2.2.2)

/-- legitimate argument of ParseAllURIParams at offset `o` for the shift theorem: fields end at or before `o`
    (`SrPlIn`), unused slots are zero (`plClean`), and the element in progress is a legitimate, non-failed
    token-parameter object -/
structure SpPlEntry (o : Nat) (l : URIParamsLst) : Prop where
  inb : SrPlIn o l
  clean : plClean l
  pos : SpTpPos o l.cur.param
  ne : l.cur.param.state ≠ .err

/-- the name of a translated object denotes the same bytes -/
theorem shTp_name_get? (pre t : Buf) (p : PTokParam) (hin : p.name.inside t.size) (hfit : pre.size + t.size ≤ 65535) :
    (shTp pre.size p).name.get? (pre ++ t) = p.name.get? t := by
  show (if spTpLive p.state then shF pre.size p.name else shO pre.size p.name).get? (pre ++ t) = _
  split
  · exact get?_shiftF pre t p.name hin hfit
  · exact get?_shO pre t p.name hin hfit

theorem uriParamsLoop_shift (pre t : Buf) (flags : Nat) (hfit : pre.size + t.size ≤ 65535) (offs : Nat)
    (l : URIParamsLst) (vNo : Nat) (ho : offs ≤ t.size) (hE : SpPlEntry offs l) :
    uriParamsLoop (pre ++ t) (pre.size + offs) (shPl pre.size l) flags vNo =
      shPlRes pre.size (uriParamsLoop t offs l flags vNo) := by
  revert ho hE
  induction offs, l, vNo using uriParamsLoop_induct t flags with
  | step offs l vNo ih =>
    intro ho hE
    have hcur : (shPl pre.size l).cur.param = shTp pre.size l.cur.param := by rw [shPl_cur]; rfl
    have hcur2 : ∀ q : PTokParam, ({ (shPl pre.size l).cur with param := shTp pre.size q } : URIParam) =
        shUp pre.size { l.cur with param := q } := by intro q; rw [shPl_cur]; rfl
    rcases hp : parseTokenParam t offs l.cur.param flags with ⟨next, e1, tp⟩
    have hT := parseTokenParam_safe t offs l.cur.param flags ho hE.inb.cur
    rw [hp] at hT
    have hlo : offs ≤ next := hT.lo
    have hhi : next ≤ t.size := hT.hi
    have hout : SrTpIn t.size tp := hT.out
    have htight : e1 ≠ .ok → SrTpIn next tp := fun hne => hT.tight (Or.inl hne)
    obtain ⟨nm, hnm⟩ := field_get?_some t tp.name hout.name (by omega)
    have hnm' : (shTp pre.size tp).name.get? (pre ++ t) = some nm := by
      rw [shTp_name_get? pre t tp hout.name hfit]; exact hnm
    have hgood : spGoodV e1 = true →
        parseTokenParam (pre ++ t) (pre.size + offs) (shPl pre.size l).cur.param flags =
          (pre.size + next, e1, shTp pre.size tp) := by
      intro hg
      have hx := parseTokenParam_shift pre t offs l.cur.param flags hfit ho ⟨hE.inb.cur, hE.pos⟩ hE.ne
        (by rw [hp]; exact hg)
      rw [hp] at hx; rw [hcur]; exact hx
    by_cases hm : e1 = .moreBytes
    · subst hm
      rw [uriParamsLoop_eq_more hp, uriParamsLoop_eq_more (hgood rfl), hcur2, shPl_setCur]; rfl
    by_cases hv : e1 = .moreValues
    · subst hv
      rw [uriParamsLoop_mv hp hnm, uriParamsLoop_mv (hgood rfl) hnm', shPl_next]
      have hst : (shPl pre.size l).cur.param.state = l.cur.param.state := by rw [hcur]; rfl
      have hst2 : (shPl pre.size (l.next tp (uriParamResolve nm))).cur.param.state =
          (l.next tp (uriParamResolve nm)).cur.param.state := by rw [shPl_cur]; rfl
      rw [hst, hst2, Array.size_append]
      by_cases hg : next ≤ t.size ∧ (offs < next ∨ (offs = next ∧ l.cur.param.state = .fNxt ∧
          (l.next tp (uriParamResolve nm)).cur.param.state ≠ .fNxt))
      · rw [if_pos hg, if_pos ⟨by omega, hg.2.elim (fun h => Or.inl (by omega)) (fun h => Or.inr ⟨by omega, h.2⟩)⟩]
        have hn := (hE.inb.mono hlo).next tp (uriParamResolve nm) (htight (by decide))
        have hc := plClean_next tp (uriParamResolve nm) hE.clean
        exact ih next tp nm hp hnm hg hhi ⟨hn, hc.1, by rw [hc.2]; exact SpTpPos.new _, by rw [hc.2]; decide⟩
      · rw [if_neg hg, if_neg (fun h => hg ⟨by omega, h.2.elim (fun h => Or.inl (by omega))
          (fun h => Or.inr ⟨by omega, h.2⟩)⟩)]
        rfl
    by_cases hk : e1 = .ok
    · subst hk
      rw [uriParamsLoop_eq_last hp (Or.inl rfl) hnm, uriParamsLoop_eq_last (hgood rfl) (Or.inl rfl) hnm', shPl_next]; rfl
    by_cases he : e1 = .eoh
    · subst he
      rw [uriParamsLoop_eq_last hp (Or.inr rfl) hnm, uriParamsLoop_eq_last (hgood rfl) (Or.inr rfl) hnm', shPl_next]; rfl
    · have hany := parseTokenParam_shift_any pre t offs l.cur.param flags hfit ho ⟨hE.inb.cur, hE.pos⟩
      rw [hp, ← hcur] at hany
      rcases hp' : parseTokenParam (pre ++ t) (pre.size + offs) (shPl pre.size l).cur.param flags with ⟨a, b, c⟩
      rw [hp'] at hany
      obtain ⟨h1, h2, -⟩ := hany
      simp only at h1 h2
      subst h1 h2
      rw [uriParamsLoop_err hp hk hv he hm, uriParamsLoop_err hp' hk hv he hm]
      have := shPl_setCur pre.size l {}
      rw [shUp_new] at this
      rw [this]; rfl


/-- **ParseAllURIParams is position independent** (every flag combination, any capacity, every legitimate list) -/
theorem parseAllURIParams_shift (pre t : Buf) (offs : Nat) (l : URIParamsLst) (flags : Nat)
    (hfit : pre.size + t.size ≤ 65535) (ho : offs ≤ t.size) (hE : SpPlEntry offs l) :
    parseAllURIParams (pre ++ t) (pre.size + offs) (shPl pre.size l) flags =
      shPlRes pre.size (parseAllURIParams t offs l flags) :=
  uriParamsLoop_shift pre t _ hfit offs l 0 ho hE

theorem spPl_cur_new (m : Nat) : ({ params := Array.replicate m {} } : URIParamsLst).cur = {} := by
  unfold URIParamsLst.cur
  split
  · rename_i h; simp only [Array.size_replicate] at h; simp [h]
  · rfl

theorem SpPlEntry.new (o m : Nat) : SpPlEntry o ({ params := Array.replicate m {} } : URIParamsLst) :=
  ⟨srPlIn_new o m, (plOK_new #[] m).2, by rw [spPl_cur_new]; exact SpTpPos.new o, by rw [spPl_cur_new]; decide⟩

/-- … from a new list of any capacity -/
theorem parseAllURIParams_shift_new (pre t : Buf) (offs m : Nat) (flags : Nat)
    (hfit : pre.size + t.size ≤ 65535) (ho : offs ≤ t.size) :
    parseAllURIParams (pre ++ t) (pre.size + offs) { params := Array.replicate m {} } flags =
      shPlRes pre.size (parseAllURIParams t offs { params := Array.replicate m {} } flags) := by
  have := parseAllURIParams_shift pre t offs _ flags hfit ho (SpPlEntry.new offs m)
  rw [shPl_new] at this; exact this

theorem spPl_reset_get {l : URIParamsLst} (h : plClean l) (j : Nat) (hj : j < l.params.size) :
    l.reset.params[j]! = {} := by
  show (clearUpToP l.params {} l.n)[j]! = {}
  rw [clearUpToP_get _ _ _ _ hj]
  split
  · rfl
  · exact h.1 j (by omega) hj

theorem spPl_reset_cur {l : URIParamsLst} (h : plClean l) : l.reset.cur = {} := by
  have hsz : l.reset.params.size = l.params.size := clearUpToP_size _ _ _
  unfold URIParamsLst.cur
  split
  · rename_i hin
    rw [hsz] at hin
    have : l.reset.n = 0 := rfl
    rw [this] at hin ⊢
    exact spPl_reset_get h 0 hin
  · rfl

theorem SpPlEntry.reset (o : Nat) {l : URIParamsLst} (h : plClean l) : SpPlEntry o l.reset :=
  ⟨srPlIn_reset_clean o h, (plOK_reset #[] h).1.2, by rw [spPl_reset_cur h]; exact SpTpPos.new o,
    by rw [spPl_reset_cur h]; decide⟩

/-- a reset list holds only zero elements: the translation leaves it unchanged -/
theorem shPl_reset (k : Nat) {l : URIParamsLst} (h : plClean l) : shPl k l.reset = l.reset := by
  have hsz : l.reset.params.size = l.params.size := clearUpToP_size _ _ _
  have hp : l.reset.params.map (shUp k) = l.reset.params := by
    apply Array.ext
    · simp only [Array.size_map]
    · intro j h1 h2
      rw [Array.getElem_map]
      have hj : j < l.params.size := by rw [← hsz]; exact h2
      have := spPl_reset_get h j hj
      rw [getElem!_pos l.reset.params j h2] at this
      rw [this]; rfl
  show ({ l.reset with params := l.reset.params.map (shUp k), tmp := shUp k l.reset.tmp } : URIParamsLst) = l.reset
  rw [hp]; rfl

/-- … from a reset list (whatever it held before, e.g. fields of another buffer) -/
theorem parseAllURIParams_shift_reset (pre t : Buf) (offs : Nat) (l : URIParamsLst) (flags : Nat)
    (hfit : pre.size + t.size ≤ 65535) (ho : offs ≤ t.size) (hc : plClean l) :
    parseAllURIParams (pre ++ t) (pre.size + offs) l.reset flags =
      shPlRes pre.size (parseAllURIParams t offs l.reset flags) := by
  have := parseAllURIParams_shift pre t offs _ flags hfit ho (SpPlEntry.reset offs hc)
  rw [shPl_reset _ hc] at this; exact this

/-- after MoreBytes the returned list is a legitimate argument at the returned offset -/
theorem uriParamsLoop_shiftEntry (b : Buf) (flags : Nat) (hfit : b.size ≤ 65535) (offs : Nat) (l : URIParamsLst)
    (vNo : Nat) (ho : offs ≤ b.size) (hE : SpPlEntry offs l)
    (hm : (uriParamsLoop b offs l flags vNo).2.2.1 = .moreBytes) :
    SpPlEntry (uriParamsLoop b offs l flags vNo).1 (uriParamsLoop b offs l flags vNo).2.2.2 := by
  revert ho hE hm
  induction offs, l, vNo using uriParamsLoop_induct b flags with
  | step offs l vNo ih =>
    intro ho hE hm
    have hsafe := uriParamsLoop_safe b flags hfit offs l vNo ho hE.inb
    rcases hp : parseTokenParam b offs l.cur.param flags with ⟨next, e1, tp⟩
    have hT := parseTokenParam_safe b offs l.cur.param flags ho hE.inb.cur
    rw [hp] at hT
    obtain ⟨nm, hnm⟩ := field_get?_some b tp.name hT.out.name hfit
    by_cases hmb : e1 = .moreBytes
    · subst hmb
      have hent := parseTokenParam_shiftEntry b offs l.cur.param flags hfit ho ⟨hE.inb.cur, hE.pos⟩ (by rw [hp])
      have hgs := parseTokenParam_good_state b offs l.cur.param flags hE.ne (by rw [hp]; rfl)
      rw [hp] at hent hgs
      have hin := hsafe.tight (by rw [hm]; decide)
      rw [uriParamsLoop_eq_more hp] at hin ⊢
      exact ⟨hin, plClean_setCur _ hE.clean, by rw [pSetCur_cur]; exact hent.2, by rw [pSetCur_cur]; exact hgs⟩
    by_cases hv : e1 = .moreValues
    · subst hv
      rw [uriParamsLoop_mv hp hnm] at hm ⊢
      split
      · rename_i hg
        rw [if_pos hg] at hm
        have hn := (hE.inb.mono hT.lo).next tp (uriParamResolve nm) (hT.tight (Or.inl (fun hh => nomatch hh)))
        have hc := plClean_next tp (uriParamResolve nm) hE.clean
        exact ih next tp nm hp hnm hg hT.hi ⟨hn, hc.1, by rw [hc.2]; exact SpTpPos.new _, by rw [hc.2]; decide⟩ hm
      · rename_i hg; rw [if_neg hg] at hm; cases hm
    by_cases hk : e1 = .ok
    · subst hk; rw [uriParamsLoop_eq_last hp (Or.inl rfl) hnm] at hm; cases hm
    by_cases he : e1 = .eoh
    · subst he; rw [uriParamsLoop_eq_last hp (Or.inr rfl) hnm] at hm; cases hm
    · rw [uriParamsLoop_err hp hk hv he hmb] at hm; exact absurd hm hmb

theorem parseAllURIParams_shiftEntry (b : Buf) (offs : Nat) (l : URIParamsLst) (flags : Nat) (hfit : b.size ≤ 65535)
    (ho : offs ≤ b.size) (hE : SpPlEntry offs l) (hm : (parseAllURIParams b offs l flags).2.2.1 = .moreBytes) :
    SpPlEntry (parseAllURIParams b offs l flags).1 (parseAllURIParams b offs l flags).2.2.2 :=
  uriParamsLoop_shiftEntry b _ hfit offs l 0 ho hE hm

/-- what a caller reads from the moved list: counts, type mask, panic flag, capacity are identical -/
theorem shPl_scalars (k : Nat) (l : URIParamsLst) :
    (shPl k l).n = l.n ∧ (shPl k l).types = l.types ∧ (shPl k l).pnc = l.pnc ∧
    (shPl k l).params.size = l.params.size ∧ (shPl k l).pNo = l.pNo ∧ (shPl k l).more = l.more ∧
    (shPl k l).isEmpty = l.isEmpty := by
  refine ⟨rfl, rfl, rfl, Array.size_map .., ?_, ?_, rfl⟩
  · unfold URIParamsLst.pNo shPl; simp only [Array.size_map]
  · unfold URIParamsLst.more shPl; simp only [Array.size_map]

/-- slot `j` of the moved list is the moved slot `j` (same parameter type) -/
theorem shPl_get (k : Nat) (l : URIParamsLst) (j : Nat) :
    (shPl k l).params[j]? = (l.params[j]?).map (shUp k) := by
  show (l.params.map (shUp k))[j]? = _
  rw [Array.getElem?_map]

/-- what the translation does to a stored element: the parameter type is unchanged; in every state in which the
    parser has set them (`spTpLive`: all but the initial and the error state) `all` and `name` are moved by `k`; the
    value is moved unless absent (`Offs = 0`); state and panic flag are unchanged -/
theorem shUp_meaning (k : Nat) (u : URIParam) (hl : spTpLive u.param.state = true) :
    (shUp k u).t = u.t ∧ (shUp k u).param.all = ⟨u.param.all.offs + k, u.param.all.len⟩ ∧
    (shUp k u).param.name = ⟨u.param.name.offs + k, u.param.name.len⟩ ∧
    (shUp k u).param.val = (if u.param.val.offs = 0 then u.param.val else ⟨u.param.val.offs + k, u.param.val.len⟩) ∧
    (shUp k u).param.state = u.param.state ∧ (shUp k u).param.pnc = u.param.pnc := by
  refine ⟨rfl, ?_, ?_, rfl, rfl, rfl⟩
  · show (if spTpLive u.param.state then shF k u.param.all else shO k u.param.all) = _
    rw [if_pos hl]; rfl
  · show (if spTpLive u.param.state then shF k u.param.name else shO k u.param.name) = _
    rw [if_pos hl]; rfl


/-! ### the URI header list -/

/-- **the URI-header list moved by `k`**: every slot and the scratch element moved with `shTp k`; count unchanged -/
def shHl (k : Nat) (l : URIHdrsLst) : URIHdrsLst :=
  { l with hdrs := l.hdrs.map (shTp k), tmp := shTp k l.tmp }

theorem shHl_new (k m : Nat) :
    shHl k ({ hdrs := Array.replicate m {} } : URIHdrsLst) = { hdrs := Array.replicate m {} } := by
  unfold shHl
  simp only [Array.map_replicate, shTp_new]

theorem shHl_cur (k : Nat) (l : URIHdrsLst) : (shHl k l).cur = shTp k l.cur := by
  unfold URIHdrsLst.cur shHl
  simp only [Array.size_map]
  split
  · rename_i h; simp [h]
  · rfl

theorem shHl_setCur (k : Nat) (l : URIHdrsLst) (u : PTokParam) :
    (shHl k l).setCur (shTp k u) = shHl k (l.setCur u) := by
  unfold URIHdrsLst.setCur shHl
  simp only [Array.size_map]
  split
  · simp only [Array.set!_eq_setIfInBounds, Array.map_setIfInBounds]
  · rfl

theorem shHl_next (k : Nat) (l : URIHdrsLst) (tp : PTokParam) :
    (shHl k l).next (shTp k tp) = shHl k (l.next tp) := by
  have h := shHl_setCur k l tp
  unfold URIHdrsLst.next
  rw [h]
  have hs : (shHl k l).hdrs.size = l.hdrs.size := by unfold shHl; simp only [Array.size_map]
  have hn : (shHl k l).n = l.n := rfl
  rw [hs, hn]
  split <;> rfl

def shHlRes (k : Nat) (r : Nat × Nat × Err × URIHdrsLst) : Nat × Nat × Err × URIHdrsLst :=
  (k + r.1, r.2.1, r.2.2.1, shHl k r.2.2.2)

/-- legitimate argument of ParseAllURIHdrs at offset `o` for the shift theorem -/
structure SpHlEntry (o : Nat) (l : URIHdrsLst) : Prop where
  inb : SrHlIn o l
  clean : hlClean l
  pos : SpTpPos o l.cur
  ne : l.cur.state ≠ .err

theorem uriHdrsLoop_shift (pre t : Buf) (flags : Nat) (hfit : pre.size + t.size ≤ 65535) (offs : Nat)
    (l : URIHdrsLst) (vNo : Nat) (ho : offs ≤ t.size) (hE : SpHlEntry offs l) :
    uriHdrsLoop (pre ++ t) (pre.size + offs) (shHl pre.size l) flags vNo =
      shHlRes pre.size (uriHdrsLoop t offs l flags vNo) := by
  revert ho hE
  induction offs, l, vNo using uriHdrsLoop_induct t flags with
  | step offs l vNo ih =>
    intro ho hE
    have hcur : (shHl pre.size l).cur = shTp pre.size l.cur := shHl_cur _ _
    rcases hp : parseTokenParam t offs l.cur flags with ⟨next, e1, tp⟩
    have hT := parseTokenParam_safe t offs l.cur flags ho hE.inb.cur
    rw [hp] at hT
    have hlo : offs ≤ next := hT.lo
    have hhi : next ≤ t.size := hT.hi
    have htight : e1 ≠ .ok → SrTpIn next tp := fun hne => hT.tight (Or.inl hne)
    have hgood : spGoodV e1 = true →
        parseTokenParam (pre ++ t) (pre.size + offs) (shHl pre.size l).cur flags =
          (pre.size + next, e1, shTp pre.size tp) := by
      intro hg
      have hx := parseTokenParam_shift pre t offs l.cur flags hfit ho ⟨hE.inb.cur, hE.pos⟩ hE.ne
        (by rw [hp]; exact hg)
      rw [hp] at hx; rw [hcur]; exact hx
    by_cases hm : e1 = .moreBytes
    · subst hm
      rw [uriHdrsLoop_eq_more hp, uriHdrsLoop_eq_more (hgood rfl), shHl_setCur]; rfl
    by_cases hv : e1 = .moreValues
    · subst hv
      rw [uriHdrsLoop_mv hp, uriHdrsLoop_mv (hgood rfl), shHl_next]
      have hst : (shHl pre.size l).cur.state = l.cur.state := by rw [hcur]; rfl
      have hst2 : (shHl pre.size (l.next tp)).cur.state = (l.next tp).cur.state := by rw [shHl_cur]; rfl
      rw [hst, hst2, Array.size_append]
      by_cases hg : next ≤ t.size ∧ (offs < next ∨ (offs = next ∧ l.cur.state = .fNxt ∧
          (l.next tp).cur.state ≠ .fNxt))
      · rw [if_pos hg, if_pos ⟨by omega, hg.2.elim (fun h => Or.inl (by omega)) (fun h => Or.inr ⟨by omega, h.2⟩)⟩]
        have hn := (hE.inb.mono hlo).next tp (htight (fun hh => nomatch hh))
        have hc := hlClean_next tp hE.clean
        exact ih next tp hp hg hhi ⟨hn, hc.1, by rw [hc.2]; exact SpTpPos.new _, by rw [hc.2]; decide⟩
      · rw [if_neg hg, if_neg (fun h => hg ⟨by omega, h.2.elim (fun h => Or.inl (by omega))
          (fun h => Or.inr ⟨by omega, h.2⟩)⟩)]
        rfl
    by_cases hk : e1 = .ok
    · subst hk
      rw [uriHdrsLoop_eq_last hp (Or.inl rfl), uriHdrsLoop_eq_last (hgood rfl) (Or.inl rfl), shHl_next]; rfl
    by_cases he : e1 = .eoh
    · subst he
      rw [uriHdrsLoop_eq_last hp (Or.inr rfl), uriHdrsLoop_eq_last (hgood rfl) (Or.inr rfl), shHl_next]; rfl
    · have hany := parseTokenParam_shift_any pre t offs l.cur flags hfit ho ⟨hE.inb.cur, hE.pos⟩
      rw [hp, ← hcur] at hany
      rcases hp' : parseTokenParam (pre ++ t) (pre.size + offs) (shHl pre.size l).cur flags with ⟨a, b, c⟩
      rw [hp'] at hany
      obtain ⟨h1, h2, -⟩ := hany
      simp only at h1 h2
      subst h1 h2
      rw [uriHdrsLoop_err hp hk hv he hm, uriHdrsLoop_err hp' hk hv he hm]
      have := shHl_setCur pre.size l {}
      rw [shTp_new] at this
      rw [this]; rfl

/-- **ParseAllURIHdrs is position independent** (every flag combination, any capacity, every legitimate list) -/
theorem parseAllURIHdrs_shift (pre t : Buf) (offs : Nat) (l : URIHdrsLst) (flags : Nat)
    (hfit : pre.size + t.size ≤ 65535) (ho : offs ≤ t.size) (hE : SpHlEntry offs l) :
    parseAllURIHdrs (pre ++ t) (pre.size + offs) (shHl pre.size l) flags =
      shHlRes pre.size (parseAllURIHdrs t offs l flags) :=
  uriHdrsLoop_shift pre t _ hfit offs l 0 ho hE

theorem spHl_cur_new (m : Nat) : ({ hdrs := Array.replicate m {} } : URIHdrsLst).cur = {} := by
  unfold URIHdrsLst.cur
  split
  · rename_i h; simp only [Array.size_replicate] at h; simp [h]
  · rfl

theorem SpHlEntry.new (o m : Nat) : SpHlEntry o ({ hdrs := Array.replicate m {} } : URIHdrsLst) :=
  ⟨srHlIn_new o m, hlClean_new m, by rw [spHl_cur_new]; exact SpTpPos.new o, by rw [spHl_cur_new]; decide⟩

/-- … from a new list of any capacity -/
theorem parseAllURIHdrs_shift_new (pre t : Buf) (offs m : Nat) (flags : Nat)
    (hfit : pre.size + t.size ≤ 65535) (ho : offs ≤ t.size) :
    parseAllURIHdrs (pre ++ t) (pre.size + offs) { hdrs := Array.replicate m {} } flags =
      shHlRes pre.size (parseAllURIHdrs t offs { hdrs := Array.replicate m {} } flags) := by
  have := parseAllURIHdrs_shift pre t offs _ flags hfit ho (SpHlEntry.new offs m)
  rw [shHl_new] at this; exact this

theorem spHl_reset_get {l : URIHdrsLst} (h : hlClean l) (j : Nat) (hj : j < l.hdrs.size) :
    l.reset.hdrs[j]! = {} := by
  show (clearUpToP l.hdrs {} l.n)[j]! = {}
  rw [clearUpToP_get _ _ _ _ hj]
  split
  · rfl
  · exact h.1 j (by omega) hj

theorem SpHlEntry.reset (o : Nat) {l : URIHdrsLst} (h : hlClean l) : SpHlEntry o l.reset := by
  have hr := hlClean_reset h
  exact ⟨srHlIn_reset_clean o h, hr.1, by rw [hr.2.2]; exact SpTpPos.new o, by rw [hr.2.2]; decide⟩

theorem shHl_reset (k : Nat) {l : URIHdrsLst} (h : hlClean l) : shHl k l.reset = l.reset := by
  have hsz : l.reset.hdrs.size = l.hdrs.size := clearUpToP_size _ _ _
  have hp : l.reset.hdrs.map (shTp k) = l.reset.hdrs := by
    apply Array.ext
    · simp only [Array.size_map]
    · intro j h1 h2
      rw [Array.getElem_map]
      have hj : j < l.hdrs.size := by rw [← hsz]; exact h2
      have := spHl_reset_get h j hj
      rw [getElem!_pos l.reset.hdrs j h2] at this
      rw [this]; rfl
  show ({ l.reset with hdrs := l.reset.hdrs.map (shTp k), tmp := shTp k l.reset.tmp } : URIHdrsLst) = l.reset
  rw [hp]; rfl

/-- … from a reset list -/
theorem parseAllURIHdrs_shift_reset (pre t : Buf) (offs : Nat) (l : URIHdrsLst) (flags : Nat)
    (hfit : pre.size + t.size ≤ 65535) (ho : offs ≤ t.size) (hc : hlClean l) :
    parseAllURIHdrs (pre ++ t) (pre.size + offs) l.reset flags =
      shHlRes pre.size (parseAllURIHdrs t offs l.reset flags) := by
  have := parseAllURIHdrs_shift pre t offs _ flags hfit ho (SpHlEntry.reset offs hc)
  rw [shHl_reset _ hc] at this; exact this

/-- after MoreBytes the returned list is a legitimate argument at the returned offset -/
theorem uriHdrsLoop_shiftEntry (b : Buf) (flags : Nat) (hfit : b.size ≤ 65535) (offs : Nat) (l : URIHdrsLst)
    (vNo : Nat) (ho : offs ≤ b.size) (hE : SpHlEntry offs l)
    (hm : (uriHdrsLoop b offs l flags vNo).2.2.1 = .moreBytes) :
    SpHlEntry (uriHdrsLoop b offs l flags vNo).1 (uriHdrsLoop b offs l flags vNo).2.2.2 := by
  revert ho hE hm
  induction offs, l, vNo using uriHdrsLoop_induct b flags with
  | step offs l vNo ih =>
    intro ho hE hm
    have hsafe := uriHdrsLoop_safe b flags offs l vNo ho hE.inb
    rcases hp : parseTokenParam b offs l.cur flags with ⟨next, e1, tp⟩
    have hT := parseTokenParam_safe b offs l.cur flags ho hE.inb.cur
    rw [hp] at hT
    by_cases hmb : e1 = .moreBytes
    · subst hmb
      have hent := parseTokenParam_shiftEntry b offs l.cur flags hfit ho ⟨hE.inb.cur, hE.pos⟩ (by rw [hp])
      have hgs := parseTokenParam_good_state b offs l.cur flags hE.ne (by rw [hp]; rfl)
      rw [hp] at hent hgs
      have hin := hsafe.tight (by rw [hm]; decide)
      rw [uriHdrsLoop_eq_more hp] at hin ⊢
      exact ⟨hin, hlClean_setCur _ hE.clean, by rw [hSetCur_cur]; exact hent.2, by rw [hSetCur_cur]; exact hgs⟩
    by_cases hv : e1 = .moreValues
    · subst hv
      rw [uriHdrsLoop_mv hp] at hm ⊢
      split
      · rename_i hg
        rw [if_pos hg] at hm
        have hn := (hE.inb.mono hT.lo).next tp (hT.tight (Or.inl (fun hh => nomatch hh)))
        have hc := hlClean_next tp hE.clean
        exact ih next tp hp hg hT.hi ⟨hn, hc.1, by rw [hc.2]; exact SpTpPos.new _, by rw [hc.2]; decide⟩ hm
      · rename_i hg; rw [if_neg hg] at hm; cases hm
    by_cases hk : e1 = .ok
    · subst hk; rw [uriHdrsLoop_eq_last hp (Or.inl rfl)] at hm; cases hm
    by_cases he : e1 = .eoh
    · subst he; rw [uriHdrsLoop_eq_last hp (Or.inr rfl)] at hm; cases hm
    · rw [uriHdrsLoop_err hp hk hv he hmb] at hm; exact absurd hm hmb

theorem parseAllURIHdrs_shiftEntry (b : Buf) (offs : Nat) (l : URIHdrsLst) (flags : Nat) (hfit : b.size ≤ 65535)
    (ho : offs ≤ b.size) (hE : SpHlEntry offs l) (hm : (parseAllURIHdrs b offs l flags).2.2.1 = .moreBytes) :
    SpHlEntry (parseAllURIHdrs b offs l flags).1 (parseAllURIHdrs b offs l flags).2.2.2 :=
  uriHdrsLoop_shiftEntry b _ hfit offs l 0 ho hE hm

theorem shHl_scalars (k : Nat) (l : URIHdrsLst) :
    (shHl k l).n = l.n ∧ (shHl k l).hdrs.size = l.hdrs.size ∧ (shHl k l).hNo = l.hNo ∧
    (shHl k l).more = l.more ∧ (shHl k l).isEmpty = l.isEmpty := by
  refine ⟨rfl, Array.size_map .., ?_, ?_, rfl⟩
  · unfold URIHdrsLst.hNo shHl; simp only [Array.size_map]
  · unfold URIHdrsLst.more shHl; simp only [Array.size_map]

theorem shHl_get (k : Nat) (l : URIHdrsLst) (j : Nat) :
    (shHl k l).hdrs[j]? = (l.hdrs[j]?).map (shTp k) := by
  show (l.hdrs.map (shTp k))[j]? = _
  rw [Array.getElem?_map]

end Sipsp
