import Sipsp.Proofs.ShiftNA
import Sipsp.Proofs.SafeRest
namespace Sipsp

def spTpLive : TPState → Bool
  | .init | .err => false
  | _ => true

def shTp (k : Nat) (p : PTokParam) : PTokParam :=
  { p with all := if spTpLive p.state then shF k p.all else p.all,
           name := if spTpLive p.state then shF k p.name else p.name,
           val := shP k p.val }

def spTpNz (p : PTokParam) : PTokParam := if p.state = .err then { p with all := {}, name := {} } else p

theorem shTp_state (k : Nat) (p : PTokParam) : (shTp k p).state = p.state := rfl
theorem shTp_pnc (k : Nat) (p : PTokParam) : (shTp k p).pnc = p.pnc := rfl
theorem shTp_new (k : Nat) : shTp k {} = {} := rfl

theorem shTp_st (k : Nat) (p : PTokParam) (s : TPState) (h : spTpLive s = spTpLive p.state) :
    { shTp k p with state := s } = shTp k { p with state := s } := by
  simp only [shTp, h]

theorem shTp_st_err (k : Nat) (p : PTokParam) :
    spTpNz { shTp k p with state := .err } = spTpNz (shTp k { p with state := .err }) := by
  simp only [shTp, spTpNz, ↓reduceIte]

theorem shTp_sna (k : Nat) (p : PTokParam) (i : Nat) (s : TPState) (hs : spTpLive s = true) (h : k + i ≤ 65535) :
    { shTp k p with state := s, name := PField.set (k + i) (k + i), all := PField.set (k + i) (k + i) } =
      shTp k { p with state := s, name := PField.set i i, all := PField.set i i } := by
  simp only [shTp, hs, ↓reduceIte, set_shift k i i h]

theorem shTp_extName (k : Nat) (p : PTokParam) (e : Nat) (hl : spTpLive p.state = true) (h : k + e ≤ 65535)
    (ho : p.name.offs ≤ e) : (shTp k p).extName (k + e) = shTp k (p.extName e) := by
  simp only [shTp, hl, ↓reduceIte, PTokParam.extName, extend_shift k p.name e h ho, extendPanics_shift]

theorem shTp_extAll (k : Nat) (p : PTokParam) (e : Nat) (hl : spTpLive p.state = true) (h : k + e ≤ 65535)
    (ho : p.all.offs ≤ e) : (shTp k p).extAll (k + e) = shTp k (p.extAll e) := by
  simp only [shTp, hl, ↓reduceIte, PTokParam.extAll, extend_shift k p.all e h ho, extendPanics_shift]

theorem shTp_extVal (k : Nat) (p : PTokParam) (e : Nat) (h : k + e ≤ 65535)
    (ho : p.val.offs ≤ e) (h0 : p.val.offs ≠ 0) : (shTp k p).extVal (k + e) = shTp k (p.extVal e) := by
  simp only [shTp, PTokParam.extVal, shP_extend k p.val e h ho h0, shP_extendPanics]
  rfl

theorem shTp_setVal (k : Nat) (p : PTokParam) (i : Nat) (h : k + i ≤ 65535) (h1 : 1 ≤ i) :
    { shTp k p with val := PField.set (k + i) (k + i) } = shTp k { p with val := PField.set i i } := by
  have : shP k (PField.set i i) = shF k (PField.set i i) := by
    unfold shP; rw [if_neg]; unfold PField.set trunc16; simp only; omega
  simp only [shTp, this, set_shift k i i h]

structure SpTpPos (i : Nat) (p : PTokParam) : Prop where
  fv : p.state = .fVal → 1 ≤ i
  vo : p.state = .val ∨ p.state = .quotedVal → 1 ≤ p.val.offs

theorem spTpEOH_shift (k : Nat) (p : PTokParam) (n crl : Nat) :
    resN spTpNz (tpEOH (shTp k p) (k + n) crl) = resN spTpNz (shResD k (fun _ => shTp k) (tpEOH p n crl)) := by
  unfold tpEOH
  rw [shTp_state]
  cases hst : p.state <;> simp only [resN, shResD, Nat.add_assoc]
  all_goals first
    | rw [shTp_st k p _ (by rw [hst]; rfl)]
    | rw [shTp_st_err]

theorem spTp_extNA (k : Nat) (p : PTokParam) (i j : Nat) (hl : spTpLive p.state = true) (hS : SrTpIn i p)
    (hij : i ≤ j) (hj : k + j ≤ 65535) :
    ((shTp k p).extName (k + i)).extAll (k + j) = shTp k ((p.extName i).extAll j) := by
  have h1 : p.name.offs + p.name.len ≤ i := hS.name
  have h2 : p.all.offs + p.all.len ≤ i := hS.all
  rw [shTp_extName k p i hl (by omega) (by omega)]
  exact shTp_extAll k (p.extName i) j hl hj (by show p.all.offs ≤ j; omega)

theorem spTp_extVA (k : Nat) (p : PTokParam) (i : Nat) (hl : spTpLive p.state = true) (hS : SrTpIn i p)
    (hv : 1 ≤ p.val.offs) (hj : k + i ≤ 65535) :
    ((shTp k p).extVal (k + i)).extAll (k + i) = shTp k ((p.extVal i).extAll i) := by
  have h1 : p.val.offs + p.val.len ≤ i := hS.val
  have h2 : p.all.offs + p.all.len ≤ i := hS.all
  rw [shTp_extVal k p i hj (by omega) (by omega)]
  exact shTp_extAll k (p.extVal i) i hl hj (by show p.all.offs ≤ i; omega)

theorem spTpMoreBytes_shift (pre t : Buf) (flags : Nat) (p : PTokParam) (i : Nat) (hfit : pre.size + t.size ≤ 65535)
    (hi : i ≤ t.size) (hS : SrTpIn i p) (hP : SpTpPos i p) :
    resN spTpNz (tpMoreBytes (pre ++ t) flags (shTp pre.size p) (pre.size + i)) =
      resN spTpNz (shResD pre.size (fun _ => shTp pre.size) (tpMoreBytes t flags p i)) := by
  unfold tpMoreBytes
  rw [shTp_state, Array.size_append]
  split
  · cases hst : p.state <;> simp only
    case name =>
      rw [spTp_extNA pre.size p i i (by rw [hst]; rfl) hS (Nat.le_refl _) (by omega)]
      exact spTpEOH_shift _ _ _ _
    case val =>
      rw [spTp_extVA pre.size p i (by rw [hst]; rfl) hS (hP.vo (Or.inl hst)) (by omega)]
      exact spTpEOH_shift _ _ _ _
    all_goals first
      | exact spTpEOH_shift _ _ _ _
      | rfl
  · rfl
theorem spStepOfRes (k : Nat) (r' r : Nat × Err × PTokParam)
    (h : resN spTpNz r' = resN spTpNz (shResD k (fun _ => shTp k) r)) :
    stepN spTpNz (stepOfRes r') = stepN spTpNz (shStepD k (shTp k) (fun _ => shTp k) (stepOfRes r)) := by
  rcases r' with ⟨a, b, c⟩
  rcases r with ⟨a2, b2, c2⟩
  simp only [resN, shResD, Prod.mk.injEq] at h
  obtain ⟨rfl, rfl, h3⟩ := h
  simp only [stepOfRes, stepN, shStepD, h3]

theorem spTpLWS_shift (pre t : Buf) (flags i : Nat) (p : PTokParam) (upd upd' : PTokParam → PTokParam)
    (hfit : pre.size + t.size ≤ 65535) (hi : i ≤ t.size) (hS : SrTpIn i p) (hP : SpTpPos i p)
    (hu : upd' (shTp pre.size p) = shTp pre.size (upd p)) :
    stepN spTpNz (tpLWS (pre ++ t) flags (pre.size + i) (shTp pre.size p) upd') =
      stepN spTpNz (shStepD pre.size (shTp pre.size) (fun _ => shTp pre.size) (tpLWS t flags i p upd)) := by
  unfold tpLWS
  rw [skipLWS_shift]
  rcases hq : skipLWS t i flags with ⟨n, crl, e⟩
  cases e <;> simp only [hu]
  case moreBytes => exact spStepOfRes _ _ _ (spTpMoreBytes_shift pre t flags p i hfit hi hS hP)
  case eoh => exact spStepOfRes _ _ _ (spTpEOH_shift _ _ _ _)
  all_goals rfl
theorem spC (k i : Nat) (X Y : PTokParam) (h : X = shTp k Y) :
    stepN spTpNz (.cont (k + i) X) = stepN spTpNz (shStepD k (shTp k) (fun _ => shTp k) (.cont i Y)) := by
  subst h; rfl

theorem spD (k i : Nat) (e : Err) (X Y : PTokParam) (h : spTpNz X = spTpNz (shTp k Y)) :
    stepN spTpNz (.done (k + i) e X) = stepN spTpNz (shStepD k (shTp k) (fun _ => shTp k) (.done i e Y)) := by
  simp only [stepN, shStepD, h]

theorem spTp_extNA_st (k : Nat) (p : PTokParam) (i j : Nat) (s : TPState) (hl : spTpLive p.state = true)
    (hs : spTpLive s = true) (hS : SrTpIn i p) (hij : i ≤ j) (hj : k + j ≤ 65535) :
    { ((shTp k p).extName (k + i)).extAll (k + j) with state := s } =
      shTp k { (p.extName i).extAll j with state := s } := by
  rw [spTp_extNA k p i j hl hS hij hj]
  exact shTp_st k _ s (by rw [hs]; exact hl.symm)

theorem spTp_extVA_st (k : Nat) (p : PTokParam) (i : Nat) (s : TPState) (hl : spTpLive p.state = true)
    (hs : spTpLive s = true) (hS : SrTpIn i p) (hv : 1 ≤ p.val.offs) (hj : k + i ≤ 65535) :
    { ((shTp k p).extVal (k + i)).extAll (k + i) with state := s } =
      shTp k { (p.extVal i).extAll i with state := s } := by
  rw [spTp_extVA k p i hl hS hv hj]
  exact shTp_st k _ s (by rw [hs]; exact hl.symm)

theorem spTp_setVA_st (k : Nat) (p : PTokParam) (i : Nat) (s : TPState) (hl : spTpLive p.state = true)
    (hs : spTpLive s = true) (hS : SrTpIn i p) (h1 : 1 ≤ i) (hj : k + i ≤ 65535) :
    { ({ shTp k p with val := PField.set (k + i) (k + i) } : PTokParam).extAll (k + i) with state := s } =
      shTp k { ({ p with val := PField.set i i } : PTokParam).extAll i with state := s } := by
  have h2 : p.all.offs + p.all.len ≤ i := hS.all
  rw [shTp_setVal k p i hj h1]
  have e := shTp_extAll k { p with val := PField.set i i } i hl hj (by show p.all.offs ≤ i; omega)
  simp only [e]
  exact shTp_st k _ s (by rw [hs]; exact hl.symm)

theorem spTp_setV_st (k : Nat) (p : PTokParam) (i : Nat) (s : TPState) (hl : spTpLive p.state = true)
    (hs : spTpLive s = true) (h1 : 1 ≤ i) (hj : k + i ≤ 65535) :
    { shTp k p with val := PField.set (k + i) (k + i), state := s } =
      shTp k { p with val := PField.set i i, state := s } := by
  have := shTp_st k { p with val := PField.set i i } s (by rw [hs]; exact hl.symm)
  rw [← shTp_setVal k p i hj h1] at this
  exact this

theorem spTpSpTermEq_shift (k o0 i : Nat) (p : PTokParam) (hl : spTpLive p.state = true) :
    stepN spTpNz (tpSpTermEq (k + o0) (k + i) (shTp k p)) =
      stepN spTpNz (shStepD k (shTp k) (fun _ => shTp k) (tpSpTermEq o0 i p)) := by
  unfold tpSpTermEq
  rw [shTp_st k p .fin (by rw [hl]; rfl)]
  by_cases h : i ≥ o0 + 1
  · rw [if_pos h, if_pos (by omega)]
    have : k + i - 1 = k + (i - 1) := by omega
    rw [this]; rfl
  · rw [if_neg h, if_neg (by omega)]; rfl

theorem spTpSpTermSep_shift (pre t : Buf) (o0 i : Nat) (p : PTokParam) (hl : spTpLive p.state = true) :
    stepN spTpNz (tpSpTermSep (pre ++ t) (pre.size + o0) (pre.size + i) (shTp pre.size p)) =
      stepN spTpNz (shStepD pre.size (shTp pre.size) (fun _ => shTp pre.size) (tpSpTermSep t o0 i p)) := by
  unfold tpSpTermSep
  simp only
  rw [shTp_st pre.size p .fin (by rw [hl]; rfl)]
  by_cases h : i ≥ o0 + 1
  · rw [if_pos h, if_pos (by omega)]
    have e1 : pre.size + i - 1 = pre.size + (i - 1) := by omega
    rw [e1, get?_shift]
    cases t[i - 1]? with
    | none => rfl
    | some c => simp only; split <;> rfl
  · rw [if_neg h, if_neg (by omega)]; rfl
theorem spSqStep_shift (pre t : Buf) (i : Nat) (c : UInt8) :
    sqStep (pre ++ t) (pre.size + i) c () = shStep pre.size id (sqStep t i c ()) := by
  unfold sqStep
  rw [get?_shift1]
  by_cases h1 : (c == 34) = true
  · simp only [h1, ↓reduceIte, shStep]; rfl
  · simp only [h1, Bool.false_eq_true, ↓reduceIte]
    by_cases h2 : (c == 92) = true
    · simp only [h2, ↓reduceIte]
      cases t[i + 1]? with
      | none => rfl
      | some c1 =>
        simp only
        split
        · rfl
        · simp only [shStep, id]; rw [Nat.add_assoc]
    · simp only [h2, Bool.false_eq_true, ↓reduceIte]
      split
      · rfl
      · split
        · rfl
        · simp only [shStep, id]; rw [Nat.add_assoc]

/-- **SkipQuoted is position independent** -/
theorem skipQuoted_shift (pre t : Buf) (i : Nat) :
    skipQuoted (pre ++ t) (pre.size + i) = (pre.size + (skipQuoted t i).1, (skipQuoted t i).2) := by
  unfold skipQuoted
  have := runLoop_shift sqMachine pre t id (fun _ _ => True) (fun _ _ _ _ _ _ _ _ _ => trivial)
    (fun i c st _ _ => spSqStep_shift pre t i c) (fun i st _ _ => rfl) i () trivial
  simp only [id] at this
  rw [this]
  rfl

theorem spBeq1 : (TPState.init == TPState.fNxt) = false := by decide
theorem spBeq2 : (TPState.initNxtVal == TPState.fNxt) = false := by decide
theorem spBeq3 : (TPState.fNxt == TPState.fNxt) = true := by decide

theorem spIte (k : Nat) (cnd : Prop) [Decidable cnd] (a b a' b' : Step PTokParam)
    (h1 : stepN spTpNz a = stepN spTpNz (shStepD k (shTp k) (fun _ => shTp k) a'))
    (h2 : stepN spTpNz b = stepN spTpNz (shStepD k (shTp k) (fun _ => shTp k) b')) :
    stepN spTpNz (if cnd then a else b) =
      stepN spTpNz (shStepD k (shTp k) (fun _ => shTp k) (if cnd then a' else b')) := by
  split <;> assumption

theorem spTpStep_shift (flags o0 : Nat) (pre t : Buf) (i : Nat) (c : UInt8) (p : PTokParam) (hb : t[i]? = some c)
    (hfit : pre.size + t.size ≤ 65535) (hS : SrTpSafe t o0 i p) (hP : SpTpPos i p) :
    stepN spTpNz (tpStep flags (pre.size + o0) (pre ++ t) (pre.size + i) c (shTp pre.size p)) =
      stepN spTpNz (shStepD pre.size (shTp pre.size) (fun _ => shTp pre.size) (tpStep flags o0 t i c p)) := by
  have hlt := get?_lt hb
  have hf := hS.fl
  have hi : i ≤ t.size := hS.hi
  have hk : pre.size + i ≤ 65535 := by omega
  have hk1 : pre.size + (i + 1) ≤ 65535 := by omega
  have hii : i ≤ i := Nat.le_refl i
  have his : i ≤ i + 1 := Nat.le_succ i
  unfold tpStep
  simp only [shTp_state, Nat.add_assoc]
  cases hst : p.state <;> simp only
  case quotedVal =>
    rw [skipQuoted_shift]
    rcases hq : skipQuoted t i with ⟨n, e⟩
    have h2 := skipQuoted_range t i (by omega) hq
    have hv := hP.vo (Or.inr hst)
    cases e <;> simp only
    case moreBytes =>
      exact spStepOfRes _ _ _ (spTpMoreBytes_shift pre t flags p n hfit h2.2 (hf.mono h2.1)
        ⟨(fun h => by rw [hst] at h; cases h), fun _ => hv⟩)
    case ok =>
      rw [spTp_extVA pre.size p n (by rw [hst]; rfl) (hf.mono h2.1) hv (by omega)]
      exact spC _ _ _ _ (shTp_st _ _ _ (by show _ = spTpLive p.state; rw [hst]; rfl))
    case eoh => exact spStepOfRes _ _ _ (spTpEOH_shift _ _ _ _)
    all_goals rfl
  case err => exact spC _ _ _ _ rfl
  case fin => exact spC _ _ _ _ rfl
  all_goals
    by_cases hl : isLWSch c = true
    · simp only [hl, ↓reduceIte]
      first
        | exact spTpLWS_shift pre t flags i p id id hfit hi hf hP rfl
        | exact spTpLWS_shift pre t flags i p _ _ hfit hi hf hP
            (spTp_extNA_st _ _ _ _ _ (by rw [hst]; rfl) rfl hf hii hk)
        | exact spTpLWS_shift pre t flags i p _ _ hfit hi hf hP
            (spTp_extVA_st _ _ _ _ (by rw [hst]; rfl) rfl hf (hP.vo (Or.inl hst)) hk)
    · simp only [hl, Bool.false_eq_true, ↓reduceIte]
      try simp only [spBeq1, spBeq2, spBeq3, Bool.false_and, Bool.true_and, Bool.false_eq_true, ↓reduceIte]
      repeat' (with_reducible apply spIte)
      all_goals first
        | exact spC _ _ _ _ rfl
        | exact spC _ _ _ _ (shTp_st _ _ _ (by rw [hst]; rfl))
        | exact spC _ _ _ _ (shTp_sna _ _ _ _ rfl hk)
        | exact spC _ _ _ _ (spTp_extNA_st _ _ _ _ _ (by rw [hst]; rfl) rfl hf (by omega) (by omega))
        | exact spC _ _ _ _ (spTp_extVA_st _ _ _ _ (by rw [hst]; rfl) rfl hf (hP.vo (Or.inl hst)) hk)
        | exact spC _ _ _ _ (spTp_setVA_st _ _ _ _ (by rw [hst]; rfl) rfl hf (hP.fv hst) hk)
        | exact spD _ _ _ _ _ (congrArg spTpNz (shTp_st _ _ _ (by rw [hst]; rfl)))
        | exact spD _ _ _ _ _ (congrArg spTpNz (spTp_extNA_st _ _ _ _ _ (by rw [hst]; rfl) rfl hf (by omega) (by omega)))
        | exact spD _ _ _ _ _ (congrArg spTpNz (spTp_extVA_st _ _ _ _ (by rw [hst]; rfl) rfl hf (hP.vo (Or.inl hst)) hk))
        | exact spD _ _ _ _ _ (congrArg spTpNz (spTp_setV_st _ _ _ _ (by rw [hst]; rfl) rfl (hP.fv hst) hk))
        | exact spD _ _ _ _ _ (shTp_st_err _ _)
        | exact spTpSpTermEq_shift _ _ _ _ (by rw [hst]; rfl)
        | exact spTpSpTermSep_shift _ _ _ _ _ (by rw [hst]; rfl)

theorem SpTpPos.mono {i j : Nat} {p : PTokParam} (h : SpTpPos i p) (hij : i ≤ j) : SpTpPos j p :=
  ⟨fun hs => by have := h.fv hs; omega, h.vo⟩

theorem SpTpPos.new (i : Nat) : SpTpPos i {} :=
  ⟨(fun h => nomatch h), fun h => h.elim (fun h => nomatch h) (fun h => nomatch h)⟩

theorem spTpLWS_pos (b : Buf) (flags i : Nat) (p : PTokParam) (upd : PTokParam → PTokParam)
    (hu : ∀ n, i ≤ n → SpTpPos n (upd p)) :
    StepAll2 SpTpPos (fun _ _ _ => True) (tpLWS b flags i p upd) := by
  unfold tpLWS
  rcases hsk : skipLWS b i flags with ⟨n, crl, e⟩
  have hr := skipLWS_range b i flags hsk
  cases e <;> simp only [stepOfRes] <;> first | trivial | exact hu n hr.1

theorem spSetOffs (i : Nat) (h1 : 1 ≤ i) (h2 : i ≤ 65535) : 1 ≤ (PField.set i i).offs := by
  unfold PField.set trunc16; simp only; omega

def spIsFVal : TPState → Bool
  | .fVal => true
  | _ => false
def spIsV : TPState → Bool
  | .val | .quotedVal => true
  | _ => false

theorem spPos_vac (n : Nat) (q : PTokParam) (h1 : spIsFVal q.state = false) (h2 : spIsV q.state = false) :
    SpTpPos n q := by
  refine ⟨fun h => ?_, fun h => ?_⟩
  · rw [h] at h1; cases h1
  · rcases h with h | h <;> rw [h] at h2 <;> cases h2

theorem spPos_fv (n : Nat) (q : PTokParam) (h2 : spIsV q.state = false) (hn : 1 ≤ n) : SpTpPos n q := by
  refine ⟨fun _ => hn, fun h => ?_⟩
  rcases h with h | h <;> rw [h] at h2 <;> cases h2

theorem spPos_v (n : Nat) (q : PTokParam) (h1 : spIsFVal q.state = false) (hv : 1 ≤ q.val.offs) : SpTpPos n q := by
  refine ⟨fun h => ?_, fun _ => hv⟩
  rw [h] at h1; cases h1

theorem spTpStep_pos (flags o0 : Nat) (b : Buf) (i : Nat) (c : UInt8) (p : PTokParam) (hb : b[i]? = some c)
    (hfit : b.size ≤ 65535) (hP : SpTpPos i p) :
    StepAll2 SpTpPos (fun _ _ _ => True) (tpStep flags o0 b i c p) := by
  have hlt := get?_lt hb
  have hi5 : i ≤ 65535 := by omega
  unfold tpStep
  simp only
  cases hst : p.state <;> simp only
  case quotedVal =>
    rcases hq : skipQuoted b i with ⟨n, e⟩
    cases e <;> simp only [stepOfRes]
    case ok => exact spPos_vac _ _ rfl rfl
    all_goals trivial
  case err => exact hP.mono (Nat.le_succ i)
  case fin => exact hP.mono (Nat.le_succ i)
  all_goals
    by_cases hl : isLWSch c = true
    · simp only [hl, ↓reduceIte]
      first
        | exact spTpLWS_pos b flags i p id (fun n hn => hP.mono hn)
        | exact spTpLWS_pos b flags i p _ (fun n hn => spPos_vac _ _ rfl rfl)
    · simp only [hl, Bool.false_eq_true, ↓reduceIte]
      repeat' split
      all_goals first
        | trivial
        | exact hP.mono (Nat.le_succ i)
        | exact spPos_vac _ _ rfl rfl
        | exact spPos_fv _ _ rfl (Nat.succ_le_succ (Nat.zero_le i))
        | exact spPos_v _ _ rfl (spSetOffs i (hP.fv hst) hi5)
        | (unfold tpSpTermEq; split <;> trivial)
        | (unfold tpSpTermSep; simp only; repeat' split
           all_goals trivial)

/-! ### generic loop theorem, two machines (the token-parameter machine depends on the start offset of the call) -/

theorem spRunLoop_shiftN2 {σ : Type} (m m' : Machine σ) (pre t : Buf) (sh : σ → σ) (shD : Err → σ → σ) (nz : σ → σ)
    (Inv : Nat → σ → Prop)
    (hinv : ∀ i c st i' st', t[i]? = some c → Inv i st → m.step t i c st = .cont i' st' → i < i' → Inv i' st')
    (hprog : ∀ i c st i' st', t[i]? = some c → Inv i st → m.step t i c st = .cont i' st' → i < i')
    (hstep : ∀ i c st, t[i]? = some c → Inv i st →
      stepN nz (m'.step (pre ++ t) (pre.size + i) c (sh st)) = stepN nz (shStepD pre.size sh shD (m.step t i c st)))
    (heob : ∀ i st, t[i]? = none → Inv i st →
      resN nz (m'.eob (pre ++ t) (pre.size + i) (sh st)) = resN nz (shResD pre.size shD (m.eob t i st)))
    (i : Nat) (st : σ) (hI : Inv i st) :
    resN nz (runLoop m' (pre ++ t) (pre.size + i) (sh st)) = resN nz (shResD pre.size shD (runLoop m t i st)) := by
  induction hk : t.size - i using Nat.strongRecOn generalizing i st with
  | _ k ih =>
    cases hb : t[i]? with
    | none =>
      rw [runLoop_none m st hb, runLoop_none m' (sh st) (by rw [get?_shift]; exact hb)]
      exact heob i st hb hI
    | some c =>
      have hbB : (pre ++ t)[pre.size + i]? = some c := by rw [get?_shift]; exact hb
      have hs := hstep i c st hb hI
      cases hq : m.step t i c st with
      | done o e st' =>
        rw [hq] at hs
        rw [runLoop_done m hb hq]
        cases hqB : m'.step (pre ++ t) (pre.size + i) c (sh st) with
        | cont i2 st2 => rw [hqB] at hs; simp only [stepN, shStepD] at hs; cases hs
        | done o2 e2 st2 =>
          rw [hqB] at hs
          simp only [stepN, shStepD, Step.done.injEq] at hs
          obtain ⟨rfl, rfl, h3⟩ := hs
          rw [runLoop_done m' hbB hqB]
          simp only [resN, shResD]
          rw [h3]
      | cont i' st' =>
        rw [hq] at hs
        have hlt : i < i' := hprog i c st i' st' hb hI hq
        simp only [stepN, shStepD] at hs
        cases hqB : m'.step (pre ++ t) (pre.size + i) c (sh st) with
        | done o2 e2 st2 => rw [hqB] at hs; simp only at hs; cases hs
        | cont i2 st2 =>
          rw [hqB] at hs
          simp only [Step.cont.injEq] at hs
          obtain ⟨rfl, rfl⟩ := hs
          rw [runLoop_cont m hb hq, runLoop_cont m' hbB hqB, if_pos hlt, if_pos (by omega)]
          have := get?_lt hb
          exact ih (t.size - i') (by omega) i' st' (hinv i c st i' st' hb hI hq hlt) rfl

/-! ### ParseTokenParam -/

/-- legitimate argument of ParseTokenParam at offset `o` for the shift theorem -/
def SpTpEntry (o : Nat) (p : PTokParam) : Prop := SrTpIn o p ∧ SpTpPos o p

theorem SpTpEntry.new (o : Nat) : SpTpEntry o {} := ⟨SrTpIn.new o, SpTpPos.new o⟩

theorem parseTokenParam_shiftN (pre t : Buf) (o : Nat) (p : PTokParam) (flags : Nat)
    (hfit : pre.size + t.size ≤ 65535) (ho : o ≤ t.size) (hE : SpTpEntry o p) :
    resN spTpNz (parseTokenParam (pre ++ t) (pre.size + o) (shTp pre.size p) flags) =
      resN spTpNz (shRes pre.size (shTp pre.size) (parseTokenParam t o p flags)) := by
  unfold parseTokenParam
  rw [shTp_state]
  split
  · rfl
  · exact spRunLoop_shiftN2 (tpMachine flags o) (tpMachine flags (pre.size + o)) pre t (shTp pre.size) (fun _ => shTp pre.size) spTpNz
      (fun i q => SrTpSafe t o i q ∧ SpTpPos i q)
      (fun i c q i' q' hb hI hs hlt => by
        have h1 := srTpStep_safe flags o t i c q hb hI.1
        have h2 := spTpStep_pos flags o t i c q hb (by omega) hI.2
        change tpStep flags o t i c q = _ at hs
        rw [hs] at h1 h2
        exact ⟨h1, h2⟩)
      (fun i c q i' q' hb _ hs => tp_progress flags o t i c q i' q' hb hs)
      (fun i c q hb hI => spTpStep_shift flags o pre t i c q hb hfit hI.1 hI.2)
      (fun i q _ hI => spTpMoreBytes_shift pre t flags q i hfit hI.1.hi hI.1.fl hI.2)
      o p ⟨⟨Nat.le_refl _, ho, hE.1⟩, hE.2⟩
end Sipsp
